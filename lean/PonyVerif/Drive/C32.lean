import PonyVerif.Drive.Util
import PonyVerif.Model.Finished
namespace PonyVerif.Drive.C32
open Lean PonyVerif.Drive PonyVerif.Model.Finished

def natOf (j : Json) : Except String Nat := fromJson? j
def intOf (j : Json) : Except String Int := fromJson? j
def boolOf (j : Json) : Except String Bool := fromJson? j
def listOf (f : Json → Except String α) (j : Json) : Except String (List α) := do
  match j with
  | .arr a => a.toList.mapM f
  | _ => throw "array expected"
def optOf (f : Json → Except String α) (j : Json) : Except String (Option α) :=
  match j with
  | .null => pure none
  | j => do pure (some (← f j))
def fld (j : Json) (k : String) : Except String Json := j.getObjVal? k
def fldOpt (j : Json) (k : String) : Json := (j.getObjVal? k).toOption.getD .null

def statusOf : String → Except String Status
  | "created" => pure .created | "cancelled" => pure .cancelled | "loaded" => pure .loaded | "modified" => pure .modified
  | "inserted" => pure .inserted | "updated" => pure .updated | "marked_to_delete" => pure .markedToDelete | "deleted" => pure .deleted
  | s => throw s!"unknown status {s}"
def statusStr : Status → String
  | .created => "created" | .cancelled => "cancelled" | .loaded => "loaded" | .modified => "modified"
  | .inserted => "inserted" | .updated => "updated" | .markedToDelete => "marked_to_delete" | .deleted => "deleted"

def setDataOf (j : Json) : Except String SetData := do
  pure { items := ← listOf natOf (← fld j "items"), full := ← boolOf (← fld j "full"), count := ← optOf natOf (fldOpt j "count"),
         added := ← optOf (listOf natOf) (fldOpt j "added"), removed := ← optOf (listOf natOf) (fldOpt j "removed"),
         absent := ← optOf (listOf natOf) (fldOpt j "absent") }

def slotOf (j : Json) : Except String Slot :=
  match j with
  | .null => pure .none
  | .num _ => do pure (.val (← intOf j))
  | j => do pure (.coll (← setDataOf j))

def pairOf (f : Json → Except String α) (j : Json) : Except String (Nat × α) := do
  match j with
  | .arr #[a, b] => pure (← natOf a, ← f b)
  | _ => throw "pair expected"

def objOf (j : Json) : Except String Obj := do
  pure { ent := ← natOf (← fld j "ent"), status := ← statusOf (← fromJson? (← fld j "status")), hasCache := ← boolOf (← fld j "cache"),
         vals := ← optOf (listOf (pairOf slotOf)) (fldOpt j "vals"),
         dbvals := ← optOf (listOf (pairOf (optOf intOf))) (fldOpt j "dbvals"),
         rbits := ← optOf natOf (fldOpt j "rbits"), wbits := ← optOf natOf (fldOpt j "wbits"), savePos := ← optOf natOf (fldOpt j "savePos"),
         seed := ((j.getObjValAs? Bool "seed").toOption).getD false }

def worldOf (j : Json) : Except String World := do
  pure { alive := ← boolOf (← fld j "alive"), savedPending := ← boolOf (← fld j "savedPending"), objs := ← listOf objOf (← fld j "objs") }

def kindOf : String → Except String Kind
  | "scalar" => pure .scalar | "ref" => pure .ref | "coll" => pure .coll
  | s => throw s!"unknown kind {s}"

def attrOf (j : Json) : Except String Attr := do
  pure { id := ← natOf (← fld j "id"), ent := ← natOf (← fld j "ent"), kind := ← kindOf (← fromJson? (← fld j "kind")),
         isPk := ← boolOf (← fld j "pk"), isLazy := ← boolOf (← fld j "lazy"), bit := ← natOf (← fld j "bit"),
         rev := ← natOf (← fld j "rev"), revIsColl := ← boolOf (← fld j "revColl"), revIsPk := ← boolOf (← fld j "revPk"),
         revBit := ← natOf (← fld j "revBit"), refSubclasses := ((j.getObjValAs? Bool "refSub").toOption).getD false }

def opOf (j : Json) : Except String Op := do
  let k ← argStr j "k"
  let a : Except String Attr := do attrOf (← fld j "attr")
  match k with
  | "getAttr" => pure (.getAttr (← a))
  | "attrLoad" => pure (.attrLoad (← a))
  | "setAttr" => pure (.setAttr (← a))
  | "attrChanged" => pure (.attrChanged (← a))
  | "collStr" => pure (.collStr (← a))
  | "collCreate" => pure (.collCreate (← a))
  | "setMany" => pure .setMany
  | "delete" => pure .delete
  | "flush" => pure .flush
  | "load" => pure .load
  | "loadInternal" => pure .loadInternal
  | "toDict" => pure (.toDict (← listOf attrOf (← fld j "attrs")))
  | "collGet" => pure (.collGet (← a))
  | "collAssign" => pure (.collAssign (← a) (← argBool j "same"))
  | "collAdd" => pure (.collAdd (← a))
  | "collRemove" => pure (.collRemove (← a))
  | "collClear" => pure (.collClear (← a))
  | "collCopy" => pure (.collCopy (← a))
  | "collLen" => pure (.collLen (← a))
  | "collCount" => pure (.collCount (← a))
  | "collIsEmpty" => pure (.collIsEmpty (← a))
  | "collContains" => pure (.collContains (← a) (← argNat j "item"))
  | "collLoad" => pure (.collLoad (← a))
  | "collSelect" => pure (.collSelect (← a))
  | "useAsRef" => pure .useAsRef
  | "staleArg" => pure .staleArg
  | _ => throw s!"unknown op kind {k}"

def jNat (n : Nat) : Json := .num (JsonNumber.fromNat n)
def jInt (n : Int) : Json := .num (JsonNumber.fromInt n)
def jOpt (f : α → Json) : Option α → Json
  | none => .null
  | some x => f x
def jList (f : α → Json) (l : List α) : Json := .arr (l.map f).toArray

def jSetData (sd : SetData) : Json :=
  Json.mkObj [("items", jList jNat sd.items), ("full", .bool sd.full), ("count", jOpt jNat sd.count),
              ("added", jOpt (jList jNat) sd.added), ("removed", jOpt (jList jNat) sd.removed), ("absent", jOpt (jList jNat) sd.absent)]
def jSlot : Slot → Json
  | .none => .null
  | .val v => jInt v
  | .coll sd => jSetData sd
def jObj (o : Obj) : Json :=
  Json.mkObj [("ent", jNat o.ent), ("status", .str (statusStr o.status)), ("cache", .bool o.hasCache),
              ("vals", jOpt (jList (fun p => .arr #[jNat p.1, jSlot p.2])) o.vals),
              ("dbvals", jOpt (jList (fun p => .arr #[jNat p.1, jOpt jInt p.2])) o.dbvals),
              ("rbits", jOpt jNat o.rbits), ("wbits", jOpt jNat o.wbits), ("savePos", jOpt jNat o.savePos), ("seed", .bool o.seed)]
def jWorld (w : World) : Json :=
  Json.mkObj [("alive", .bool w.alive), ("savedPending", .bool w.savedPending), ("objs", jList jObj w.objs)]

def actionStr : Action → String
  | .loadAttribute => "load attribute" | .readValue => "read value of" | .assign => "assign new value to"
  | .loadCollection => "load collection" | .changeCollection => "change collection" | .loadObject => "load object"
  | .deleteObject => "delete object" | .changeObject => "change object" | .flushObject => "flush object"

def jRv : Rv → Json
  | .none => .null
  | .int v => jInt v
  | .nat n => jNat n
  | .bool b => .bool b
  | .items l => Json.mkObj [("items", jList jNat l)]
  | .wrapper => .str "wrapper"
  | .query => .str "query"
  | .dots => .str "..."

def jOut : Out → Json
  | .value v => Json.mkObj [("value", jRv v)]
  | .dict l => Json.mkObj [("dict", jList (fun p => .arr #[jNat p.1, jRv p.2]) l)]
  | .noop => Json.mkObj [("noop", .bool true)]
  | .sessionOver a => Json.mkObj [("error", "DatabaseSessionIsOver"), ("action", .str (actionStr a))]
  | .wasDeleted => Json.mkObj [("error", "OperationWithDeletedObjectError")]
  | .assertion => Json.mkObj [("error", "AssertionError")]
  | .mixed => Json.mkObj [("error", "TransactionError"), ("why", "mixed")]
  | .dbRequired => Json.mkObj [("error", "TransactionError"), ("why", "db_session required")]
  | .typeError => Json.mkObj [("error", "TypeError")]
  | .live => Json.mkObj [("live", .bool true)]

def handle (j : Json) : Except String Json := do
  let op ← argStr j "op"
  match op with
  | "close" =>
      let w ← worldOf (← fld j "world")
      let how : How := match (j.getObjValAs? String "how").toOption with
        | some "rollback" => .rollback | some "error" => .error | some "commitFailed" => .commitFailed
        | some "flushFailed" => .flushFailed | _ => .commit
      let inTx := ((j.getObjValAs? Bool "inTransaction").toOption).getD true
      pure (Json.mkObj [("world", jWorld (endSession how inTx (← argBool j "strict") (← argBool j "hadConnection") w))])
  | "step" =>
      let w ← worldOf (← fld j "world")
      let r := step { ambient := ← argBool j "ambient" } w (← argNat j "obj") (← opOf (← fld j "opr"))
      pure (Json.mkObj [("world", jWorld r.world), ("out", jOut r.out), ("stmts", jNat r.stmts.length)])
  | _ => throw s!"unknown op {op}"
end PonyVerif.Drive.C32
