import PonyVerif.Drive.Util
import PonyVerif.Model.ConnLock
namespace PonyVerif.Drive.C19
open Lean PonyVerif.Drive PonyVerif.Model.ConnLock

/-
  request  {"op":"run", "init":{"n":k,"nextCon":c,"poolPid":b,"closed":[..]},
            "sessions":[{"immediate":b,"ddl":b,"reconnect":b,["initGuard":b,"onConnect":n,"disconnect":b (db.disconnect() instead of a session),]"bodyRaises":b,"faults":[global call indices that raise],
                         "prog":[["query",caught] | ["select",caught] | ["write",many,caught] | ["modify",[many..],caught] | ["flush",caught]
                                 | ["commit",caught] | ["rollback",caught] | ["getConnection",caught]]}]}
  reply    {"sessions":[{"outcome":"ok"|exception kind, "events":[...], "state":{...}}]}

  request  {"op":"schedule", "threads":[["pre_acquire","acquire","pre_release","release",...], ...], "schedule":[thread index, ...]}
  reply    {"enabled":[bool per step], "pre":b, "tx":b, "finished":[bool per thread], "phases":[...], "holders_tx":n}
           (the interleaving semantics `Interleave.step`: is the observed global order of lock events a run of the model?)
-/

def sqlName : Sql → String
  | .pragmaFkOn => "pragma_fk_on" | .pragmaLike => "pragma_like" | .pragmaFkQuery => "pragma_fk_query"
  | .pragmaFkOff => "pragma_fk_off" | .begin => "begin" | .select => "select" | .write => "write"

def jsonOfEv : Ev → Json
  | .call c con ok =>
      let (name, kind) : String × Json := match c with
        | .connect => ("connect", .null) | .cursor => ("cursor", .null) | .execute q => ("execute", .str (sqlName q))
        | .executemany => ("executemany", .str "write") | .commit => ("commit", .null) | .rollback => ("rollback", .null)
        | .close => ("close", .null)
      .arr #[.str name, kind, .num (JsonNumber.fromNat con), .str (if ok then "ok" else "raise")]
  | .preAcquire => .arr #[.str "pre_acquire"]
  | .acquire => .arr #[.str "acquire"]
  | .preRelease => .arr #[.str "pre_release"]
  | .release => .arr #[.str "release"]

def excName : Exc → String
  | .raw => "raw" | .wrapped => "wrapped" | .connClosed => "ConnectionClosedError" | .commitExc => "CommitException"
  | .rollbackExc => "RollbackException" | .body => "body" | .assertion => "AssertionError" | .deadlock => "deadlock"
  | .unlocked => "unlocked" | .attrError => "AttributeError"

def jNats (l : List Nat) : Json := .arr (l.map (fun n => Json.num (JsonNumber.fromNat n))).toArray

def jsonOfSt (s : St) : Json := Json.mkObj [
  ("n", .num (JsonNumber.fromNat s.n)), ("lock", .bool s.lock), ("pre", .bool s.pre), ("bad", .bool s.bad),
  ("poolCon", jOptNat s.poolCon), ("poolPid", .bool s.poolPid),   ("nextCon", .num (JsonNumber.fromNat s.nextCon)), ("closed", jNats s.closed.reverse), ("fk", .bool s.fk),
  ("dirty", .bool s.dirty), ("hasCache", .bool s.hasCache), ("conn", jOptNat s.cache.conn), ("inTx", .bool s.cache.inTx)]

def boolsOfJson (j : Json) : Except String (List Bool) := do
  match j with
  | .arr a => a.toList.mapM (fun x => fromJson? x)
  | _ => throw "list of booleans expected"

def opOfJson (j : Json) : Except String (Op × Bool) := do
  match j with
  | .arr #[.str "query", .bool c] => pure (.query, c)
  | .arr #[.str "select", .bool c] => pure (.select, c)
  | .arr #[.str "write", .bool m, .bool c] => pure (.write m, c)
  | .arr #[.str "modify", ws, .bool c] => pure (.modify (← boolsOfJson ws), c)
  | .arr #[.str "flush", .bool c] => pure (.flush, c)
  | .arr #[.str "commit", .bool c] => pure (.commit, c)
  | .arr #[.str "rollback", .bool c] => pure (.rollback, c)
  | .arr #[.str "getConnection", .bool c] => pure (.getConnection, c)
  | _ => throw s!"bad op {j.compress}"

def natsOfJson (j : Json) : Except String (List Nat) := do
  match j with
  | .arr a => a.toList.mapM (fun x => fromJson? x)
  | _ => throw "list of naturals expected"

def levOfJson (j : Json) : Except String LEv := do
  match j with
  | .str "pre_acquire" => pure .preAcq
  | .str "acquire" => pure .acq
  | .str "pre_release" => pure .preRel
  | .str "release" => pure .rel
  | _ => throw s!"bad lock event {j.compress}"

def phaseName : Phase → String
  | .idle => "idle" | .hasPre => "hasPre" | .hasBoth => "hasBoth" | .hasTx => "hasTx"

def handle (j : Json) : Except String Json := do
  let op ← argStr j "op"
  match op with
  | "run" =>
      let init ← j.getObjVal? "init"
      let s0 : St := { St.init with n := ← argNat init "n", nextCon := ← argNat init "nextCon",
                                    poolPid := ← argBool init "poolPid", closed := (← natsOfJson (← init.getObjVal? "closed")).reverse }
      let sess ← argArr j "sessions"
      let mut s := s0
      let mut outs : Array Json := #[]
      for sj in sess do
        let faults ← natsOfJson (← sj.getObjVal? "faults")
        let cf : Cfg := { fails := fun i => faults.contains i, immediate := ← argBool sj "immediate", ddl := ← argBool sj "ddl",
                          reconnect := ← argBool sj "reconnect",
                          initGuard := (sj.getObjValAs? Bool "initGuard").toOption.getD false,
                          onConnect := (sj.getObjValAs? Nat "onConnect").toOption.getD 0 }
        let prog ← (← argArr sj "prog").mapM opOfJson
        let br ← argBool sj "bodyRaises"
        let before := s.trace.length
        let isDisc := (sj.getObjValAs? Bool "disconnect").toOption.getD false
        let (r, s') := if isDisc then dbDisconnect cf s else dbSession cf prog br s
        let evs := (s'.trace.take (s'.trace.length - before)).reverse
        let outcome := match r with | .ok _ => "ok" | .error e => excName e
        outs := outs.push (Json.mkObj [("outcome", .str outcome), ("events", .arr (evs.map jsonOfEv).toArray), ("state", jsonOfSt s')])
        s := s'
      pure (Json.mkObj [("sessions", .arr outs)])
  | "pool_api" =>
      -- Pool.release / Pool.drop called with connection `con` while pool.con = `poolCon` (the contract `assert con is pool.con`)
      let call ← argStr j "call"
      let con ← argNat j "con"
      let pc := (j.getObjValAs? Nat "poolCon").toOption
      let s0 : St := { St.init with poolCon := pc, poolPid := true, nextCon := 10 }
      let cf : Cfg := { fails := fun _ => false, immediate := false, ddl := false, reconnect := false }
      let (r, s') := if call == "release" then poolRelease cf con s0 else poolDrop cf con s0
      let outcome := match r with | .ok _ => "ok" | .error e => excName e
      pure (Json.mkObj [("outcome", .str outcome), ("poolCon", jOptNat s'.poolCon), ("closed", jNats s'.closed.reverse)])
  | "schedule" =>
      let ths ← (← argArr j "threads").mapM (fun t => do
        match t with
        | .arr a => a.toList.mapM levOfJson
        | _ => throw "thread: list of lock events expected")
      let sched ← natsOfJson (← j.getObjVal? "schedule")
      let mut w := Interleave.initial ths
      let mut enabled : Array Json := #[]
      for i in sched do
        match Interleave.step w i with
        | some w' => enabled := enabled.push (.bool true); w := w'
        | none => enabled := enabled.push (.bool false)
      pure (Json.mkObj [("enabled", .arr enabled), ("pre", .bool w.pre), ("tx", .bool w.tx),
        ("finished", .arr (w.threads.map (fun t => Json.bool t.rest.isEmpty)).toArray),
        ("phases", .arr (w.threads.map (fun t => Json.str (phaseName t.phase))).toArray),
        ("holders_tx", .num (JsonNumber.fromNat (w.threads.countP Interleave.Thread.holdsTx)))])
  | _ => throw s!"unknown op {op}"
end PonyVerif.Drive.C19
