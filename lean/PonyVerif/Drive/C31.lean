import PonyVerif.Drive.Util
import PonyVerif.Model.Serial
namespace PonyVerif.Drive.C31
open Lean PonyVerif.Drive PonyVerif.Model.Serial

def strList (j : Json) (k : String) : Except String (List String) := do
  (← argArr j k).mapM (fun x => match x with | .str s => pure s | _ => throw s!"{k}: strings expected")

def jKey : Option Key → Json
  | none => .null
  | some (.text s) => Json.mkObj [("text", .str s)]
  | some (.single s) => Json.mkObj [("single", .str s)]

def handle (j : Json) : Except String Json := do
  let op ← argStr j "op"
  match op with
  | "reduce" =>
      let parts ← strList j "parts"
      pure (Json.mkObj [("ok", .str (reducePk parts))])
  | "decode" =>
      let s ← argStr j "s"
      match decodePk s with
      | none => pure (Json.mkObj [("ok", .null)])
      | some l => pure (Json.mkObj [("ok", .arr (l.map Json.str).toArray)])
  | "collkey" =>
      let parts ← strList j "raw"
      pure (Json.mkObj [("ok", jKey (bagCollectionKey parts))])
  | "dictkey" =>
      let parts ← strList j "raw"
      pure (Json.mkObj [("ok", jKey (bagDictKey parts))])
  | _ => throw s!"unknown op {op}"
end PonyVerif.Drive.C31
