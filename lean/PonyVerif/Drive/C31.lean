import PonyVerif.Drive.Util
import PonyVerif.Model.Serial
import PonyVerif.Model.BagWalk
import PonyVerif.Model.AttrSel
import PonyVerif.Model.Pickle
import PonyVerif.Model.Report
namespace PonyVerif.Drive.C31
open Lean PonyVerif.Drive PonyVerif.Model.Serial

def strList (j : Json) (k : String) : Except String (List String) := do
  (← argArr j k).mapM (fun x => match x with | .str s => pure s | _ => throw s!"{k}: strings expected")

def jKey : Option Key → Json
  | none => .null
  | some (.text s) => Json.mkObj [("text", .str s)]
  | some (.single s) => Json.mkObj [("single", .str s)]

open PonyVerif.Model.AttrSel in
def parseSel (j : Json) : Except String Sel :=
  match j with
  | .null => pure .none
  | .str s => pure (.str s)
  | .arr a => do pure (.tup (← a.toList.mapM (fun x => match x with | .str s => pure s | _ => throw "sel: strings expected")))
  | _ => throw "sel: null, string or list of strings"

namespace Pk
open PonyVerif.Model.Pickle
def parseStatus : String → Except String Status
  | "created" => pure .created | "modified" => pure .modified | "loaded" => pure .loaded | "inserted" => pure .inserted
  | "updated" => pure .updated | "marked_to_delete" => pure .markedToDelete | "deleted" => pure .deleted | "cancelled" => pure .cancelled
  | s => throw s!"unknown status {s}"
def parseVals (j : Json) : Except String (List (String × Nat)) := do
  match j with
  | .arr a => a.toList.mapM (fun e => match e with
      | .arr #[.str n, v] => do pure (n, ← fromJson? v)
      | _ => throw "vals: [name, value]")
  | _ => throw "vals: list expected"
def parseObj (j : Json) : Except String Obj := do
  pure { pk := ← j.getObjValAs? Nat "pk", status := ← parseStatus (← j.getObjValAs? String "status"), vals := ← parseVals (← j.getObjVal? "vals") }
def jVals (l : List (String × Nat)) : Json := .arr (l.map (fun e => Json.arr #[.str e.1, .num (JsonNumber.fromNat e.2)])).toArray
end Pk

namespace Rp
open PonyVerif.Model.Report PonyVerif.Model.Serial
def strs (j : Json) : Except String (List String) :=
  match j with
  | .arr a => a.toList.mapM (fun x => match x with | .str s => pure s | _ => throw "strings expected")
  | _ => throw "list of strings expected"
def parseVal (j : Json) : Except String Val := do
  if let .ok v := j.getObjVal? "scalar" then return .scalar (← fromJson? v)
  if let .ok v := j.getObjVal? "one" then
    match v with
    | .null => return .one none
    | _ => return .one (some (← strs v))
  if let .ok (.arr a) := j.getObjVal? "many" then return .many (← a.toList.mapM strs)
  throw "val: {scalar|one|many}"
def jKey' : Key → Json
  | .text s => Json.mkObj [("text", .str s)]
  | .single s => Json.mkObj [("single", .str s)]
def jRep : Rep → Json
  | .scalar v => Json.mkObj [("scalar", .num (JsonNumber.fromNat v))]
  | .null => Json.mkObj [("null", .bool true)]
  | .key k => jKey' k
  | .tuple raw => Json.mkObj [("tuple", .arr (raw.map Json.str).toArray)]
  | .keys l => Json.mkObj [("keys", .arr (l.map jKey').toArray)]
  | .tuples l => Json.mkObj [("tuples", .arr (l.map (fun r => Json.arr (r.map Json.str).toArray)).toArray)]
def leKey (a b : Key) : Bool := decide (keyText a ≤ keyText b)
def leTup (a b : List String) : Bool := decide (a ≤ b)
end Rp

def handle (j : Json) : Except String Json := do
  let op ← argStr j "op"
  match op with
  | "reduce" =>
      let parts ← strList j "parts"
      pure (Json.mkObj [("ok", .str (reducePk parts))])
  | "decode" =>
      let s ← argStr j "s"
      match decodePk s with
      | none => pure (Json.mkObj [("ok", .null)])
      | some l => pure (Json.mkObj [("ok", .arr (l.map Json.str).toArray)])
  | "collkey" =>
      let parts ← strList j "raw"
      pure (Json.mkObj [("ok", jKey (bagCollectionKey parts))])
  | "dictkey" =>
      let parts ← strList j "raw"
      pure (Json.mkObj [("ok", jKey (bagDictKey parts))])
  | "cell" =>
      let v ← Rp.parseVal (← j.getObjVal? "val")
      let which ← argStr j "which"
      let cols ← argNat j "cols"
      let r := if which == "bag" then PonyVerif.Model.Report.bagCell (PonyVerif.Model.Report.sortBy Rp.leKey) v
               else PonyVerif.Model.Report.entityCell (PonyVerif.Model.Report.sortBy Rp.leKey) (PonyVerif.Model.Report.sortBy Rp.leTup) cols v
      pure (Json.mkObj [("ok", Rp.jRep r), ("back", match PonyVerif.Model.Report.unRep r with
        | some (.many ks) => .arr (ks.map (fun k => Json.arr (k.map Json.str).toArray)).toArray
        | some (.one (some k)) => .arr (k.map Json.str).toArray
        | _ => .null)])
  | "getstate_rows" =>
      -- full: the ordered result (row numbers); limit / offset: number or null; materialised: was the result iterated before pickling
      let full ← (← argArr j "full").mapM (fun x => (fromJson? x : Except String Nat))
      let lim := (← argOptInt j "limit").map Int.toNat
      let off := (← argOptInt j "offset").map Int.toNat
      let mat ← argBool j "materialised"
      let its : Option (List Nat) := if mat then some (PonyVerif.Model.Pickle.fetchWindow lim off full) else none
      let r : PonyVerif.Model.Pickle.QResult Nat := { limit := lim, offset := off, items := its }
      pure (Json.mkObj [("ok", .arr ((PonyVerif.Model.Pickle.getstateRows full r).map (fun n => Json.num (JsonNumber.fromNat n))).toArray)])
  | "reduce_entity" =>
      let o ← Pk.parseObj (← j.getObjVal? "obj")
      match PonyVerif.Model.Pickle.reduce o with
      | .ok p => pure (Json.mkObj [("ok", Json.mkObj [("pk", .num (JsonNumber.fromNat p.pk)), ("d", Pk.jVals p.d)])])
      | .error e => pure (Json.mkObj [("error", .str e)])
  | "unpickle_entity" =>
      let s ← (← argArr j "session").mapM Pk.parseObj
      let pj ← j.getObjVal? "pickle"
      let p : PonyVerif.Model.Pickle.Pickled := { pk := ← pj.getObjValAs? Nat "pk", d := ← Pk.parseVals (← pj.getObjVal? "d") }
      let r := (PonyVerif.Model.Pickle.unpickle s p).2
      pure (Json.mkObj [("ok", Json.mkObj [("pk", .num (JsonNumber.fromNat r.pk)), ("deleted", .bool r.status.isDel), ("vals", Pk.jVals r.vals)])])
  | "getattrs" =>
      -- attrs: [[name, isCollection, isLazy], …]; history: [[only, exclude, with_collections, with_lazy], …] on a fresh cache
      let attrs ← (← argArr j "attrs").mapM (fun a => match a with
        | .arr #[.str n, .bool c, .bool l] => pure (PonyVerif.Model.AttrSel.Attr.mk n c l)
        | _ => throw "attrs: [name, isCollection, isLazy]")
      let qs ← (← argArr j "history").mapM (fun q => match q with
        | .arr #[o, e, .bool wc, .bool wl] => do pure (PonyVerif.Model.AttrSel.Query.mk (← parseSel o) (← parseSel e) wc wl)
        | _ => throw "history: [only, exclude, with_collections, with_lazy]")
      let rs := PonyVerif.Model.AttrSel.runHist PonyVerif.Model.AttrSel.splitBlank attrs [] qs
      pure (Json.mkObj [("ok", .arr (rs.map (fun r => match r with
        | .ok l => Json.mkObj [("ok", .arr (l.map Json.str).toArray)]
        | .error n => Json.mkObj [("error", .str n)])).toArray)])
  | "bagwalk" =>
      -- rel: list (index = object) of lists of objects; ro: list of bools; given: list of objects; reply: [[object, full?], …] sorted by object
      let rel ← (← argArr j "rel").mapM (fun r => match r with
        | .arr a => a.toList.mapM (fun x => (fromJson? x : Except String Nat))
        | _ => throw "rel: lists expected")
      let ro ← (← argArr j "ro").mapM (fun x => (fromJson? x : Except String Bool))
      let given ← (← argArr j "given").mapM (fun x => (fromJson? x : Except String Nat))
      let d := PonyVerif.Model.BagWalk.bagWalk (fun o => rel.getD o []) (fun o => ro.getD o true) given
      let objs := List.range rel.length
      pure (Json.mkObj [("ok", .arr (objs.filterMap (fun o => (PonyVerif.Model.BagWalk.lookup d o).map
        (fun f => Json.arr #[.num (JsonNumber.fromNat o), .bool f]))).toArray)])
  | _ => throw s!"unknown op {op}"
end PonyVerif.Drive.C31
