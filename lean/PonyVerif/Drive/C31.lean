import PonyVerif.Drive.Util
import PonyVerif.Model.Serial
import PonyVerif.Model.BagWalk
namespace PonyVerif.Drive.C31
open Lean PonyVerif.Drive PonyVerif.Model.Serial

def strList (j : Json) (k : String) : Except String (List String) := do
  (← argArr j k).mapM (fun x => match x with | .str s => pure s | _ => throw s!"{k}: strings expected")

def jKey : Option Key → Json
  | none => .null
  | some (.text s) => Json.mkObj [("text", .str s)]
  | some (.single s) => Json.mkObj [("single", .str s)]

def handle (j : Json) : Except String Json := do
  let op ← argStr j "op"
  match op with
  | "reduce" =>
      let parts ← strList j "parts"
      pure (Json.mkObj [("ok", .str (reducePk parts))])
  | "decode" =>
      let s ← argStr j "s"
      match decodePk s with
      | none => pure (Json.mkObj [("ok", .null)])
      | some l => pure (Json.mkObj [("ok", .arr (l.map Json.str).toArray)])
  | "collkey" =>
      let parts ← strList j "raw"
      pure (Json.mkObj [("ok", jKey (bagCollectionKey parts))])
  | "dictkey" =>
      let parts ← strList j "raw"
      pure (Json.mkObj [("ok", jKey (bagDictKey parts))])
  | "bagwalk" =>
      -- rel: list (index = object) of lists of objects; ro: list of bools; given: list of objects; reply: [[object, full?], …] sorted by object
      let rel ← (← argArr j "rel").mapM (fun r => match r with
        | .arr a => a.toList.mapM (fun x => (fromJson? x : Except String Nat))
        | _ => throw "rel: lists expected")
      let ro ← (← argArr j "ro").mapM (fun x => (fromJson? x : Except String Bool))
      let given ← (← argArr j "given").mapM (fun x => (fromJson? x : Except String Nat))
      let d := PonyVerif.Model.BagWalk.bagWalk (fun o => rel.getD o []) (fun o => ro.getD o true) given
      let objs := List.range rel.length
      pure (Json.mkObj [("ok", .arr (objs.filterMap (fun o => (PonyVerif.Model.BagWalk.lookup d o).map
        (fun f => Json.arr #[.num (JsonNumber.fromNat o), .bool f]))).toArray)])
  | _ => throw s!"unknown op {op}"
end PonyVerif.Drive.C31
