import PonyVerif.Drive.Util
import PonyVerif.Model.Memo
import PonyVerif.Gen.CacheKeys
namespace PonyVerif.Drive.C05
open Lean PonyVerif.Drive PonyVerif.Model.Memo

def evName : Ev → String
  | .hit => "hit" | .miss => "miss" | .reject => "reject" | .cleared => "cleared" | .popped => "popped"

/-- a call through a plain cache, identified by numbers: lookup key, store key, is the fresh value stored -/
structure PCall where
  k : Nat
  s : Nat
  cacheable : Bool
  /-- does the re-check accept a hit -/
  acc : Bool
  id : Nat

def pMemo : Memo PCall Nat Nat :=
  { key := fun c => c.k, skey := fun c => c.s, compute := fun c => c.id, accept := fun c _ => c.acc,
    cacheable := fun c => c.cacheable, popOnReject := fun _ _ => false }

def parsePOps (l : List Json) : Except String (List (Op PCall Nat)) :=
  (l.zipIdx).mapM fun (j, idx) => do
    let t ← argStr j "t"
    match t with
    | "call" => pure (.call ⟨← argNat j "k", ← argNat j "s", ← argBool j "cacheable", (j.getObjValAs? Bool "acc").toOption.getD true, idx⟩)
    | "clear" => pure .clear
    | "pop" => pure (.pop (← argNat j "k"))
    | _ => throw s!"memo op {t}"

def optInt (j : Json) : Except String (Option Int) :=
  match j with
  | .null => pure none
  | v => do pure (some (← fromJson? v))

def intList (l : List Json) : Except String (List Int) := l.mapM (fun v => fromJson? v)

def lookupI {β : Type} (k : Int) : List (Int × β) → Option β
  | [] => none
  | (k', v) :: r => if k' = k then some v else lookupI k r

def parseTrOps (l : List Json) : Except String (List (Op TrIn (List Int))) :=
  l.mapM fun j => do
    let t ← argStr j "t"
    match t with
    | "call" =>
      let key ← intList (← argArr j "key")
      let vs ← (← argArr j "vars").mapM fun pv => do
        match pv with
        | .arr #[p, v] => pure ((← fromJson? p : Int), (← optInt v))
        | _ => throw "vars: [p, v] pairs"
      pure (.call ⟨key, fun p => (lookupI p vs).join, ← argBool j "cacheable"⟩)
    | "clear" => pure .clear
    | "pop" => pure (.pop (← intList (← argArr j "key")))
    | _ => throw s!"translator op {t}"

def normOf : String → Option Int → Option Int
  | "start", none => some 0
  | "stop", none => some (-1)
  | _, v => v

def jDb (d : List Nat) : Json := .arr (d.map (fun n => Json.num (JsonNumber.fromNat n))).toArray

open ResultCache in
def parseROps (l : List Json) : Except String (List ResultCache.Op) :=
  l.mapM fun j => do
    let t ← argStr j "t"
    match t with
    | "modify" => pure (.modify (← argNat j "c"))
    | "query" => pure (.query (← argNat j "k") (← argBool j "cacheable"))
    | "flush" => pure .flush
    | "commit" => pure .commit
    | "rollback" => pure .rollback
    | "bulkDelete" => pure (.bulkDelete (← argNat j "c"))
    | "objFlush" => pure (.objFlush (← argNat j "c"))
    | "enterHook" => pure .enterHook
    | "exitHook" => pure .exitHook
    | _ => throw s!"results op {t}"

def jOut : ResultCache.Out → Json
  | .none => .null
  | .hit r => Json.mkObj [("ev", "hit"), ("k", .num (JsonNumber.fromNat r.1)), ("db", jDb r.2)]
  | .computed r => Json.mkObj [("ev", "computed"), ("k", .num (JsonNumber.fromNat r.1)), ("db", jDb r.2)]

def jFields (l : List Field) : Json := .arr (l.map (fun f => Json.str (reprStr f))).toArray

def handle (j : Json) : Except String Json := do
  let op ← argStr j "op"
  match op with
  | "memo" =>
      let ops ← parsePOps (← argArr j "calls")
      let evs := trace pMemo [] ops
      let outs := run pMemo [] ops
      pure (Json.mkObj [("events", .arr (evs.map (fun e => Json.str (evName e))).toArray),
                        ("values", .arr (outs.map jOptNat).toArray)])
  | "translator" =>
      let ops ← parseTrOps (← argArr j "calls")
      let pinTab ← (← argArr j "pins").mapM fun kv => do
        match kv with
        | .arr #[k, ps] => do
          let k' ← match k with | .arr a => intList a.toList | _ => throw "pins key"
          let ps' ← match ps with | .arr a => intList a.toList | _ => throw "pins list"
          pure (k', ps')
        | _ => throw "pins: [key, [p..]]"
      let pins : List Int → List Int := fun k => ((pinTab.find? (fun kv => kv.1 == k)).map (·.2)).getD []
      let norm := normOf (← argStr j "norm")
      let m := trMemo pins norm
      let evs := trace m [] ops
      let outs := run m [] ops
      let jv : Option Translator → Json
        | none => .null
        | some t => .arr (t.fixed.map (fun pv => Json.arr #[.num (JsonNumber.fromInt pv.1), jOptInt pv.2])).toArray
      pure (Json.mkObj [("events", .arr (evs.map (fun e => Json.str (evName e))).toArray),
                        ("fixed", .arr (outs.map jv).toArray)])
  | "results" =>
      let ops ← parseROps (← argArr j "hist")
      let cfg : ResultCache.Cfg := ⟨← argBool j "clears"⟩
      let outs := ResultCache.run cfg (← argBool j "warm") ResultCache.Sess.init ops
      pure (Json.mkObj [("outs", .arr (outs.map jOut).toArray)])
  | "m2mkey" => pure (Json.mkObj [("key", .num (JsonNumber.fromInt (m2mKey (← argInt j "batch") (← argInt j "items"))))])
  | "insertkey" =>
      let cols ← intList (← argArr j "columns")
      let r ← argOptInt j "returning"
      let k := insertKeyFlat ⟨← argInt j "table", cols, r⟩
      pure (Json.mkObj [("flat", .arr (k.map (fun i => Json.num (JsonNumber.fromInt i))).toArray)])
  | "loadkey" =>
      let pk ← intList (← argArr j "pk")
      let d ← argOptInt j "discr"
      let a ← intList (← argArr j "attrs")
      pure (Json.mkObj [("store", .arr ((loadStoreKey ⟨pk, d⟩ a).map (fun i => Json.num (JsonNumber.fromInt i))).toArray)])
  | "keys" =>
      pure (Json.mkObj [
        ("batchloadKey", jFields Gen.CacheKeys.batchloadKey), ("findKey", jFields Gen.CacheKeys.findKey),
        ("insertSqlKey", jFields Gen.CacheKeys.insertSqlKey), ("updateSqlKey", jFields Gen.CacheKeys.updateSqlKey),
        ("deleteSqlKey", jFields Gen.CacheKeys.deleteSqlKey), ("constructedSqlKey", jFields Gen.CacheKeys.constructedSqlKey),
        ("bulkDeleteSqlKey", jFields Gen.CacheKeys.bulkDeleteSqlKey), ("translatorKey", jFields Gen.CacheKeys.translatorKey),
        ("resultKey", jFields Gen.CacheKeys.resultKey), ("extractorsKey", jFields Gen.CacheKeys.extractorsKey),
        ("loadStoreRebound", .bool Gen.CacheKeys.loadStoreRebound), ("dbInsertKeyFlat", .bool Gen.CacheKeys.dbInsertKeyFlat),
        ("entityFlushClearsResults", .bool Gen.CacheKeys.entityFlushClearsResults),
        ("extractorsRecheck", .bool Gen.CacheKeys.extractorsRecheck), ("codeobjectsPinned", .bool Gen.CacheKeys.codeobjectsPinned),
        ("pinsRecordedAtRoot", .bool Gen.CacheKeys.pinsRecordedAtRoot),
        ("cachedTranslatorsCopiedBeforeMutation", .bool Gen.CacheKeys.cachedTranslatorsCopiedBeforeMutation)])
  | _ => throw s!"unknown op {op}"
end PonyVerif.Drive.C05
