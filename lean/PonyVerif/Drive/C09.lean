import PonyVerif.Drive.Util
import PonyVerif.Model.SessStore
/-
  Line-protocol entry for the session → database refinement model (C09; C10 uses the same entry).
  request : {"op":"run","ncols":[n0,n1,..],"ops":[
               {"k":"create","key":[e,id],"vals":[cell,..]} | {"k":"set","key":[e,id],"c":n,"v":cell}
             | {"k":"link"|"unlink"|"hasLink","l":[rel,[e,id],[e,id]]} | {"k":"delete"|"load"|"seed","key":[e,id]}
             | {"k":"flush"|"commit"|"rollback"|"endOk"|"endErr"} ]}        cell = null | int | {"ref":[e,id]}
  reply   : {"steps":[{"out":..,"row":[..]?,"valid":bool,"writes":[..],
                       "committed":db,"txn":db,"view":db,"spec_committed":db,"spec_working":db,
                       "cache":[[[e,id],status,[cells],[wbits]],..],"queue":[[e,id]|null,..],"added":[l,..],"removed":[l,..],"modified":bool}]}
            db = {"rows":[[[e,id],[cells]],..],"links":[l,..]} over the keys / links mentioned in the request
-/
namespace PonyVerif.Drive.C09
open Lean PonyVerif.Drive PonyVerif.Model.SessStore

def keyOfJson (j : Json) : Except String Key := do
  match j with
  | .arr #[e, i] => pure { ent := ← fromJson? e, id := ← fromJson? i }
  | _ => throw "key: [ent, id] expected"

def cellOfJson (j : Json) : Except String Cell := do
  match j with
  | .null => pure .null
  | .num _ => pure (.int (← fromJson? j))
  | _ => pure (.ref (← keyOfJson (← j.getObjVal? "ref")))

def linkOfJson (j : Json) : Except String Link := do
  match j with
  | .arr #[r, a, b] => pure { rel := ← fromJson? r, a := ← keyOfJson a, b := ← keyOfJson b }
  | _ => throw "link: [rel, key, key] expected"

def opOfJson (j : Json) : Except String Op := do
  let k ← argStr j "k"
  match k with
  | "create" => pure (.create (← keyOfJson (← j.getObjVal? "key")) (← (← argArr j "vals").mapM cellOfJson))
  | "set" => pure (.set (← keyOfJson (← j.getObjVal? "key")) (← argNat j "c") (← cellOfJson (← j.getObjVal? "v")))
  | "link" => pure (.link (← linkOfJson (← j.getObjVal? "l")))
  | "unlink" => pure (.unlink (← linkOfJson (← j.getObjVal? "l")))
  | "hasLink" => pure (.hasLink (← linkOfJson (← j.getObjVal? "l")))
  | "delete" => pure (.delete (← keyOfJson (← j.getObjVal? "key")))
  | "load" => pure (.load (← keyOfJson (← j.getObjVal? "key")))
  | "seed" => pure (.seed (← keyOfJson (← j.getObjVal? "key")))
  | "flush" => pure .flush
  | "commit" => pure .commit
  | "rollback" => pure .rollback
  | "endOk" => pure .endOk
  | "endErr" => pure .endErr
  | _ => throw s!"unknown op kind {k}"

def jKey (k : Key) : Json := .arr #[toJson k.ent, toJson k.id]
def jCell : Cell → Json
  | .null => .null
  | .int i => .num (JsonNumber.fromInt i)
  | .ref k => Json.mkObj [("ref", jKey k)]
def jLink (l : Link) : Json := .arr #[toJson l.rel, jKey l.a, jKey l.b]

def ncolsOf (ncols : List Nat) (e : Nat) : Nat := ncols.getD e 0

def jRow (ncols : List Nat) (k : Key) (r : Row) : Json := .arr ((List.range (ncolsOf ncols k.ent)).map fun c => jCell (r c)).toArray

def jDb (ncols : List Nat) (keys : List Key) (links : List Link) (d : Db) : Json :=
  Json.mkObj [
    ("rows", .arr (keys.filterMap fun k => (d.rows k).map fun r => Json.arr #[jKey k, jRow ncols k r]).toArray),
    ("links", .arr ((links.filter fun l => d.links l).map jLink).toArray)]

def statusName : Status → String
  | .created => "created" | .loaded => "loaded" | .modified => "modified" | .inserted => "inserted"
  | .updated => "updated" | .markedToDelete => "marked_to_delete" | .deleted => "deleted" | .cancelled => "cancelled"

def jWrite (ncols : List Nat) : Write → Json
  | .insert k vals => .arr #["insert", jKey k,
      .arr (((List.range (ncolsOf ncols k.ent)).filter fun c => vals c != .null).map fun c => Json.arr #[toJson c, jCell (vals c)]).toArray]
  | .update k cols vals => .arr #["update", jKey k, .arr (cols.map fun c => Json.arr #[toJson c, jCell (vals c)]).toArray]
  | .delete k => .arr #["delete", jKey k]
  | .unlink l => .arr #["unlink", jLink l]
  | .link l => .arr #["link", jLink l]

def refusalName : Refusal → String
  | .cacheIndexError => "CacheIndexError" | .objectDeleted => "OperationWithDeletedObjectError" | .noSuchObject => "NoSuchObject"

def dbErrName : DbErr → String
  | .integrity _ => "TransactionIntegrityError" | .rowMissing _ => "OptimisticCheckError"
  | .badStatus _ => "AssertionError" | .linkExists _ => "TransactionIntegrityError"

def jOutcome (ncols : List Nat) (op : Op) : Outcome → List (String × Json)
  | .ok => [("out", "ok")]
  | .found row =>
    let k := match op with | .load k => k | _ => ⟨0, 0⟩
    [("out", "found"), ("row", jRow ncols k row)]
  | .notFound => [("out", "notFound")]
  | .bool b => [("out", toJson b)]
  | .refused e => [("out", .str ("refused:" ++ refusalName e))]
  | .dbError e => [("out", .str ("dbError:" ++ dbErrName e))]

def opKeys : Op → List Key
  | .create k vals => k :: vals.filterMap fun c => match c with | .ref t => some t | _ => none
  | .set k _ v => k :: (match v with | .ref t => [t] | _ => [])
  | .link l | .unlink l | .hasLink l => [l.a, l.b]
  | .delete k | .load k | .seed k => [k]
  | _ => []

def opLinks : Op → List Link
  | .link l | .unlink l | .hasLink l => [l]
  | _ => []

def handle (j : Json) : Except String Json := do
  let op ← argStr j "op"
  match op with
  | "run" =>
      let ncols ← (← argArr j "ncols").mapM fun x => (fromJson? x : Except String Nat)
      let ops ← (← argArr j "ops").mapM opOfJson
      let keys := (ops.flatMap opKeys).eraseDups
      let links := (ops.flatMap opLinks).eraseDups
      let (_, outs) := ops.foldl (fun (acc : Both × List Json) op =>
        let b := acc.1
        let valid := decide (OpOk b.s op)
        let r := step b.w op
        let b' : Both := ⟨r.1, specStep b.s op r.2.1⟩
        let c := r.1.cache
        let cacheJ := keys.filterMap fun k => (c.objs k).map fun o =>
          Json.arr #[jKey k, .str (statusName o.status), jRow ncols k o.vals, toJson o.wbits]
        (b', Json.mkObj (jOutcome ncols op r.2.1 ++ [
            ("valid", toJson valid),
            ("writes", .arr (r.2.2.map (jWrite ncols)).toArray),
            ("committed", jDb ncols keys links b'.w.committed),
            ("txn", jDb ncols keys links b'.w.txn),
            ("view", jDb ncols keys links (abs b'.w)),
            ("spec_committed", jDb ncols keys links b'.s.committed),
            ("spec_working", jDb ncols keys links b'.s.working),
            ("cache", .arr cacheJ.toArray),
            ("queue", .arr (c.queue.map fun s => match s with | some k => jKey k | none => Json.null).toArray),
            ("added", .arr (c.added.map jLink).toArray),
            ("removed", .arr (c.removed.map jLink).toArray),
            ("modified", toJson c.modified)]) :: acc.2))
        ((⟨World.init Db.empty, Spec.init Db.empty⟩ : Both), [])
      pure (Json.mkObj [("steps", .arr outs.reverse.toArray)])
  | _ => throw s!"unknown op {op}"
end PonyVerif.Drive.C09
