import PonyVerif.Drive.Util
import PonyVerif.Gen.Quote
import PonyVerif.Gen.SqlBuild
import PonyVerif.Model.SqlText
namespace PonyVerif.Drive.C06
open Lean PonyVerif.Py PonyVerif.Drive PonyVerif.Model.SqlText

def jstr (s : Str) : Json := .str (String.ofList s)

def argChars (j : Json) (k : String) : Except String Str := do
  pure (← argStr j k).toList

def argOptChars (j : Json) (k : String) : Except String (Option Str) := do
  match j.getObjVal? k with
  | .ok (.str s) => pure (some s.toList)
  | .ok .null => pure none
  | .ok _ => throw s!"{k}: string or null expected"
  | .error _ => pure none

def argChar (j : Json) (k : String) : Except String Char := do
  match (← argStr j k).toList with
  | [c] => pure c
  | _ => throw s!"{k}: one character expected"

def argOptChar (j : Json) (k : String) : Except String (Option Char) := do
  match ← argOptChars j k with
  | none => pure none
  | some [c] => pure (some c)
  | some _ => throw s!"{k}: one character or null expected"

def argStyle (j : Json) : Except String Style := do
  match Style.ofString? (← argStr j "style") with
  | some s => pure s
  | none => throw "unknown style"

def argDialect (j : Json) : Except String Dialect := do
  match Dialect.ofString? (← argStr j "dialect") with
  | some s => pure s
  | none => throw "unknown dialect"

def jLex (r : Option (Str × Str)) : Json :=
  match r with
  | none => .null
  | some (v, rest) => Json.mkObj [("value", jstr v), ("rest", jstr rest)]

/-- tokens with runs of literal characters merged into one string -/
def jToks (l : List Tok) : Json :=
  let rec go (acc : Str) (out : Array Json) : List Tok → Array Json
    | [] => if acc.isEmpty then out else out.push (jstr acc.reverse)
    | .lit c :: r => go (c :: acc) out r
    | .pos :: r => go [] ((if acc.isEmpty then out else out.push (jstr acc.reverse)).push (Json.mkObj [("pos", .bool true)])) r
    | .named n :: r => go [] ((if acc.isEmpty then out else out.push (jstr acc.reverse)).push (Json.mkObj [("named", jstr n)])) r
  .arr (go [] #[] l)

def jExpr : SqlExpr → Json
  | .value s => .arr #[.str "VALUE", jstr s]
  | .item => .arr #[.str "ITEM"]
  | .replace e o n => .arr #[.str "REPLACE", jExpr e, jExpr o, jExpr n]
  | .concat2 a b => .arr #[.str "CONCAT", jExpr a, jExpr b]
  | .concat3 a b c => .arr #[.str "CONCAT", jExpr a, jExpr b, jExpr c]

/-- skeleton with runs of structural characters merged into one string -/
def jSkel (l : List Skel) : Json :=
  let rec go (acc : Str) (out : Array Json) : List Skel → Array Json
    | [] => if acc.isEmpty then out else out.push (jstr acc.reverse)
    | .ch c :: r => go (c :: acc) out r
    | .quoted q :: r => go [] ((if acc.isEmpty then out else out.push (jstr acc.reverse)).push (Json.mkObj [("q", jstr [q])])) r
  .arr (go [] #[] l)

def natList (j : Json) (k : String) : Except String (List Nat) := do
  (← argArr j k).mapM (fun x => fromJson? x)

def svOfJson (j : Json) : Except String SV := do
  let k ← argStr j "k"
  match k with
  | "none" => pure .none
  | "bool" => pure (.bool (← argBool j "v"))
  | "int" => pure (.int (← argInt j "v"))
  | "str" => pure (.str (← argChars j "v"))
  | "bytes" => pure (.bytes (← natList j "v"))
  | "date" => match ← natList j "v" with
    | [y, m, d] => pure (.date ⟨y, m, d⟩)
    | _ => throw "date: 3 fields"
  | "datetime" => match ← natList j "v" with
    | [y, m, d, h, mi, s, us] => pure (.datetime ⟨y, m, d⟩ ⟨h, mi, s, us⟩)
    | _ => throw "datetime: 7 fields"
  | "time" => match ← natList j "v" with
    | [h, mi, s, us] => pure (.time ⟨h, mi, s, us⟩)
    | _ => throw "time: 4 fields"
  | _ => throw "sv: kind"

def elemOfJson (j : Json) : Except String Elem := do
  match j.getObjVal? "scalar" with
  | .ok v => pure (.scalar (← svOfJson v))
  | .error _ =>
    let pk ← (← argArr j "entity").mapM svOfJson
    pure (.entity pk)

def varOfJson (j : Json) : Except String VarVal := do
  match j.getObjVal? "one" with
  | .ok v => pure (.one (← elemOfJson v))
  | .error _ => pure (.seq (← (← argArr j "seq").mapM elemOfJson))

def jDB : Option DB → Json
  | none => .null
  | some .null => Json.mkObj [("db", "null")]
  | some (.int i) => Json.mkObj [("db", "int"), ("v", toJson i)]
  | some (.text s) => Json.mkObj [("db", "text"), ("v", jstr s)]
  | some (.blob b) => Json.mkObj [("db", "blob"), ("v", toJson b)]

def handle (j : Json) : Except String Json := do
  let op ← argStr j "op"
  match op with
  | "quote_str" =>
      let s ← argStr j "s"
      let st ← argStr j "style"
      let style ← argStyle j
      pure (Json.mkObj [("gen", jsonOfPyM (PonyVerif.Gen.quoteStr (.str s) (.str st))), ("model", jstr (quoteStrL style s.toList))])
  | "quote_name" =>
      pure (jstr (quoteNameL (← argChar j "q") (← argChars j "n")))
  | "quote_names" =>
      let names ← (← argArr j "names").mapM (fun x => match x with | .str s => pure s.toList | _ => throw "names: strings")
      pure (jstr (quoteNamesL (← argChar j "q") names))
  | "value_str" =>
      let d ← argDialect j
      let style ← argStyle j
      let kind ← argStr j "kind"
      let v ← match kind with
        | "none" => pure Val.none
        | "bool" => pure (Val.bool (← argBool j "v"))
        | "int" => pure (Val.int (← argInt j "v"))
        | "str" => pure (Val.str (← argChars j "v"))
        | "bytes" => pure (Val.bytes (← natList j "v"))
        | _ => throw "value_str: kind"
      pure (jstr (valueStr d style v))
  | "temporal" =>
      -- Value.__str__ for a date / datetime / time / timedelta given by its fields; also what the model reads back from the REAL text
      let d ← argDialect j
      let style ← argStyle j
      let kind ← argStr j "kind"
      let f ← natList j "f"
      let real ← argChars j "real_inner"
      let (v, back) ← match kind, f with
        | "date", [y, m, dd] => pure (TVal.date ⟨y, m, dd⟩, toJson ((parseDate real).map (fun x => [x.y, x.m, x.d])))
        | "time", [h, mi, sec, us] => pure (TVal.time ⟨h, mi, sec, us⟩, toJson ((parseTime real).map (fun t => [t.h, t.mi, t.s, t.us])))
        | "datetime", [y, m, dd, h, mi, sec, us] =>
            pure (TVal.datetime ⟨y, m, dd⟩ ⟨h, mi, sec, us⟩, toJson ((parseTimestamp real).map (fun p => [p.1.y, p.1.m, p.1.d, p.2.h, p.2.mi, p.2.s, p.2.us])))
        | "delta", [secs, us] => pure (TVal.delta ⟨← argInt j "days", secs, us⟩, toJson (parseInterval real))
        | _, _ => throw "temporal: kind/fields"
      let txt := match temporalStr d style v with | some t => jstr t | none => Json.null
      let micros := match v with | .delta td => toJson td.micros | _ => Json.null
      pure (Json.mkObj [("text", txt), ("inner", jstr (temporalText v)), ("readback", back), ("micros", micros)])
  | "lex_int" =>
      match lexInt (← argChars j "text") with
      | none => pure .null
      | some (i, rest) => pure (Json.mkObj [("value", toJson i), ("rest", jstr rest)])
  | "mod" => pure (jstr (modSymbol (← argStyle j)))
  | "lex_lit" => pure (jLex (lexLiteral (← argDialect j) (← argChars j "text")))
  | "lex_ident" => pure (jLex (lexQuoted (← argChar j "q") (← argChars j "text")))
  | "lex_blob" =>
      match lexBlob (← argChars j "text") with
      | none => pure .null
      | some (b, rest) => pure (Json.mkObj [("value", toJson b), ("rest", jstr rest)])
  | "expand" =>
      match expandPercent (← argStyle j) (← argChars j "text") with
      | none => pure .null
      | some t => pure (jstr t)
  | "scan" =>
      match scanP .text (← argChars j "text") with
      | none => pure .null
      | some t => pure (jToks t)
  | "skeleton" =>
      match skeleton .out (← argChars j "text") with
      | none => pure .null
      | some l => pure (jSkel l)
  | "gen_build" =>
      let a ← argArr j "args"
      let fn ← argStr j "fn"
      match fn, ← a.mapM pyOfJson with
      | "mod", [x, y, st] => pure (jsonOfPyM (PonyVerif.Gen.sqlMod x y st))
      | "like", [e, t, esc] => pure (jsonOfPyM (PonyVerif.Gen.sqlLike e t esc))
      | "not_like", [e, t, esc] => pure (jsonOfPyM (PonyVerif.Gen.sqlNotLike e t esc))
      | "replace", [x, y, z] => pure (jsonOfPyM (PonyVerif.Gen.sqlReplaceCall x y z))
      | _, _ => throw "gen_build: fn/args"
  | "make_params" =>
      -- occ: [[key, content], ...] -> content of the Param object make_param returns at each occurrence
      let occ ← (← argArr j "occ").mapM (fun x => do
        match x with
        | .arr #[k, c] => pure ((← fromJson? k : Nat), (← fromJson? c : Nat))
        | _ => throw "make_params: pairs")
      pure (toJson (makeParams [] occ))
  | "param_eval" =>
      -- Param.eval (indexing + SQLite converter): values = list of variables (index = varkey), key = [var, i|null, j|null]
      let vars ← (← argArr j "values").mapM varOfJson
      let key ← argArr j "key"
      let optNat (x : Json) : Except String (Option Nat) := match x with
        | .null => pure none
        | v => do pure (some (← fromJson? v))
      match key with
      | [v, i, jj] =>
        let r := paramEvalRaw (fun k => vars[k]?) (← fromJson? v) (← optNat i) (← optNat jj)
        pure (jDB (r.map sqliteBind))
      | _ => throw "param_eval: key"
  | "sqlite_const" =>
      let style ← argStyle j
      let sv ← svOfJson (← j.getObjVal? "sv")
      let txt := sqliteConstText style sv
      pure (Json.mkObj [("text", match txt with | some t => jstr t | none => Json.null),
                        ("read", jDB ((txt.bind (expandPercent style)).bind sqliteRead)),
                        ("bind", jDB (some (sqliteBind sv)))])
  | "group_concat" =>
      let xs ← (← argArr j "xs").mapM (fun x => match x with | .str t => pure t.toList | _ => throw "xs: strings")
      pure (jstr (dbGroupConcat (groupConcatArg true (← argOptChars j "sep")) xs))
  | "json_path" =>
      let items ← (← argArr j "items").mapM (fun x => match x with
        | .str t => pure (PathElem.key t.toList)
        | v => do pure (PathElem.idx (← fromJson? v)))
      pure (jstr (jsonPathText (← argBool j "json1") items))
  | "like" => pure (.bool (likeMatch (← argOptChar j "esc") (← argChars j "pat") (← argChars j "s")))
  | "sql_replace" => pure (jstr (sqlReplace (← argChars j "old") (← argChars j "new") (← argChars j "s")))
  | "like_ast" =>
      let l := likeAst (← argOptChars j "const") (← argOptChars j "before") (← argOptChars j "after")
      pure (Json.mkObj [("pattern", jExpr l.pattern), ("escape", .bool l.escape)])
  | "like_run" =>
      let l := likeAst (← argOptChars j "const") (← argOptChars j "before") (← argOptChars j "after")
      let item ← argChars j "item"
      pure (Json.mkObj [("pattern", jstr (l.pattern.eval item)), ("escape", .bool l.escape),
                        ("match", .bool (l.run (← argOptChar j "dflt") item (← argChars j "s")))])
  | "params" =>
      let style ← argStyle j
      let occ ← natList j "occ"
      let phs := placeholders style occ
      let args : Args Nat := adapter style occ id
      let jargs := match args with
        | .tuple l => Json.mkObj [("tuple", toJson l)]
        | .dict l => Json.mkObj [("dict", .arr (l.map (fun p => Json.arr #[.str s!"p{p.1}", toJson p.2])).toArray)]
      let resolved := (List.range occ.length).map (fun pos =>
        match phs[pos]? with
        | some ph => match resolve ph pos args with | some v => toJson v | none => Json.null
        | none => Json.null)
      pure (Json.mkObj [("placeholders", toJson (phs.map Ph.render)), ("layout", toJson (layout occ)),
                        ("args", jargs), ("resolved", .arr resolved.toArray)])
  | _ => throw s!"unknown op {op}"
end PonyVerif.Drive.C06
