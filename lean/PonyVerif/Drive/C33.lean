import PonyVerif.Drive.Util
import PonyVerif.Model.Hooks
namespace PonyVerif.Drive.C33
open Lean PonyVerif.Drive PonyVerif.Model.Hooks

def natOf (j : Json) : Except String Nat := fromJson? j
def listOf (f : Json → Except String α) (j : Json) : Except String (List α) := do
  match j with
  | .arr a => a.toList.mapM f
  | _ => throw "array expected"
def optOf (f : Json → Except String α) (j : Json) : Except String (Option α) :=
  match j with
  | .null => pure none
  | j => do pure (some (← f j))
def fld (j : Json) (k : String) : Except String Json := j.getObjVal? k

def statusOf : String → Except String Status
  | "loaded" => pure .loaded | "created" => pure .created | "modified" => pure .modified | "marked_to_delete" => pure .markedToDelete
  | "inserted" => pure .inserted | "updated" => pure .updated | "deleted" => pure .deleted | "cancelled" => pure .deleted
  | s => throw s!"unknown status {s}"
def statusStr : Status → String
  | .loaded => "loaded" | .created => "created" | .modified => "modified" | .markedToDelete => "marked_to_delete"
  | .inserted => "inserted" | .updated => "updated" | .deleted => "deleted"

def kindOfStr : String → Except String Kind
  | "insert" => pure .insert | "update" => pure .update | "delete" => pure .delete
  | s => throw s!"unknown kind {s}"
def kindStr : Kind → String
  | .insert => "insert" | .update => "update" | .delete => "delete"

def objOf (j : Json) : Except String Obj := do
  match j with
  | .arr #[st, d] => pure { status := ← statusOf (← fromJson? st), dirty := ← natOf d }
  | _ => throw "obj: [status, dirty] expected"

def pairOf (j : Json) : Except String (Nat × Nat) := do
  match j with
  | .arr #[a, b] => pure (← natOf a, ← natOf b)
  | _ => throw "pair expected"

def linksOf (j : Json) : Except String Links := do
  pure { view := ← listOf pairOf (← fld j "view"), pendAdd := ← listOf pairOf (← fld j "pendAdd"),
         pendRem := ← listOf pairOf (← fld j "pendRem"), m2mAdd := [], m2mRem := [], db := ← listOf pairOf (← fld j "db") }

def stateOf (j : Json) : Except String State := do
  pure { objs := ← listOf objOf (← fld j "objs"), queue := ← listOf (optOf natOf) (← fld j "queue"),
         modified := ← fromJson? (← fld j "modified"), saved := [], trace := [], lk := ← linksOf (← fld j "links"),
         refs := (← (j.getObjVal? "refs").toOption.mapM (listOf (listOf natOf))).getD [] }

def opOf (j : Json) : Except String HOp := do
  match j with
  | .arr #[.str "read", o] => pure (.read (← natOf o))
  | .arr #[.str "modify", o] => pure (.modify (← natOf o))
  | .arr #[.str "create"] => pure .create
  | .arr #[.str "query"] => pure .query
  | .arr #[.str "setRef", i, g] => pure (.setRef (← natOf i) (← natOf g))
  | .arr #[.str "refNewTo", g] => pure (.refNewTo (← natOf g))
  | .arr #[.str "refToNew", i] => pure (.refToNew (← natOf i))
  | .arr #[.str "link", a, b] => pure (.link (← natOf a) (← natOf b))
  | .arr #[.str "unlink", a, b] => pure (.unlink (← natOf a) (← natOf b))
  | .arr #[.str "linkNewOwner", b] => pure (.linkNewOwner (← natOf b))
  | .arr #[.str "linkNewItem", a] => pure (.linkNewItem (← natOf a))
  | _ => throw "hook op expected"

/-- one scripted hook: (phase, kind, object) ↦ the bodies of its 1st, 2nd, … call and the body of all later calls -/
structure Entry where
  before : Bool
  kind : Kind
  obj : Nat
  calls : List (List HOp)
  rest : List HOp

def entryOf (j : Json) : Except String Entry := do
  pure { before := ← fromJson? (← fld j "before"), kind := ← kindOfStr (← fromJson? (← fld j "kind")), obj := ← natOf (← fld j "obj"),
         calls := ← listOf (listOf opOf) (← fld j "calls"), rest := ← listOf opOf (← fld j "rest") }

/-- the hook functions denoted by a script: the n-th call of a hook is recognised by the number of its events already in the trace
    (the event of the running call is appended before the body runs) -/
def hooksOf (script : List Entry) : Hooks :=
  let body (before : Bool) (k : Kind) (s : State) (o : Nat) : List HOp :=
    let n := s.trace.count (if before then Event.before k o else Event.after k o) - 1
    match script.find? (fun e => e.before == before && e.kind == k && e.obj == o) with
    | some e => (e.calls[n]?).getD e.rest
    | none => []
  { before := body true, after := body false }

/-- the statement order of a round as observed on the real code: the observed objects first (those that are queued), then whatever
    the observation missed — a permutation of the queue whenever the observation has no duplicates -/
def ordOf (obs : List Nat) (l : List Nat) : List Nat := (obs.filter (fun o => l.contains o)).eraseDups ++ l.filter (fun o => !(obs.contains o))

def jNat (n : Nat) : Json := .num (JsonNumber.fromNat n)
def jEvent : Event → Json
  | .before k o => .arr #["before", .str (kindStr k), jNat o]
  | .stmt k o => .arr #["stmt", .str (kindStr k), jNat o]
  | .after k o => .arr #["after", .str (kindStr k), jNat o]
  | .linkDel a b => .arr #["linkDel", jNat a, jNat b]
  | .linkIns a b => .arr #["linkIns", jNat a, jNat b]
def jPairs (l : List (Nat × Nat)) : Json := .arr (l.map (fun p => Json.arr #[jNat p.1, jNat p.2])).toArray
def jState (s : State) : Json :=
  Json.mkObj [("objs", .arr (s.objs.map (fun o => Json.arr #[.str (statusStr o.status), jNat o.dirty])).toArray),
              ("queue", .arr (s.queue.map (fun e => match e with | some o => jNat o | none => .null)).toArray),
              ("modified", .bool s.modified), ("trace", .arr (s.trace.map jEvent).toArray),
              ("links", Json.mkObj [("view", jPairs s.lk.view), ("pendAdd", jPairs s.lk.pendAdd), ("pendRem", jPairs s.lk.pendRem),
                                    ("db", jPairs s.lk.db)])]
def jResult : Except Err State → Json
  | .ok s => Json.mkObj [("ok", jState s)]
  | .error (.limit s) => Json.mkObj [("error", "limit"), ("state", jState s)]
  | .error (.hookRaised o) => Json.mkObj [("error", "hookRaised"), ("obj", jNat o)]
  | .error (.badStatus o) => Json.mkObj [("error", "badStatus"), ("obj", jNat o)]
  | .error .outOfFuel => Json.mkObj [("error", "outOfFuel")]

def handle (j : Json) : Except String Json := do
  let op ← argStr j "op"
  let s ← stateOf (← fld j "state")
  let script ← listOf entryOf (← fld j "script")
  let H := hooksOf script
  let bfuel ← argNat j "bfuel"
  match op with
  | "flush" =>
      -- rounds[i] = observed statement order of the i-th round; `ord r` is asked with r rounds still to go (50 in all)
      let rounds ← listOf (listOf natOf) (← fld j "rounds")
      let ord : Nat → List Nat → List Nat := fun r l => ordOf ((rounds[49 - r]?).getD []) l
      pure (jResult (flush H ord bfuel s))
  | "flushN" | "entityFlush" =>
      -- orders = [[n, [objects…]], …]: the statement order observed for the round whose save loop starts when the trace has n events
      let orders ← listOf (fun e => do
        match e with
        | .arr #[n, l] => pure (← natOf n, ← listOf natOf l)
        | _ => throw "order: [n, [..]] expected") (← fld j "orders")
      let ord : State → List Nat → List Nat := fun st l =>
        ordOf (((orders.find? (fun e => e.1 == st.trace.length)).map (·.2)).getD []) l
      let depth ← argNat j "depth"
      if op == "flushN" then pure (jResult (flushN H ord bfuel depth s))
      else
        -- obj.flush(): references are part of the state; scan and save order are computed by the model; queries inside its after_*
        -- hooks flush the cache recursively
        pure (jResult (objFlushN H ord bfuel depth s (← argNat j "obj")))
  | _ => throw s!"unknown op {op}"
end PonyVerif.Drive.C33
