import PonyVerif.Drive.Util
import PonyVerif.Model.PyPrint
import PonyVerif.Model.PreTrans
import PonyVerif.Model.Scope
import PonyVerif.Gen.C04Src
/-
  line-protocol entry for the C04 model.
  request  {"op":"print", "e": <expr>}  → {"src": text the model prints, "parse": <expr>|null (reference parser on the
                                           model's own tokens), "norm": <expr> (what the theorem says `parse` returns)}
  <expr> is a nested array: ["name",s] ["const",s] ["neg",s] ["bool",isOr,[e..]] ["not",e] ["cmp",l,[[op,e]..]]
  ["bin",op,l,r] ["un",op,e] ["if",b,t,o] ["lam",[param..],body] ["attr",e,a] ["call",f,[arg..]] ["sub",e,idx]
  ["subT",e,[idx..]] ["list",[arg..]] ["tuple",[arg..]] ["dict",[[k,v]..]] ["fstr",[part..]]
-/
namespace PonyVerif.Drive.C04
open Lean PonyVerif.Drive PonyVerif.Model.PyPrint

def binOps : List (String × BinOp) :=
  [("|", .bitOr), ("^", .bitXor), ("&", .bitAnd), ("<<", .lshift), (">>", .rshift), ("+", .add), ("-", .sub),
   ("*", .mult), ("/", .div), ("//", .floorDiv), ("%", .mod), ("**", .pow)]
def cmpOps : List (String × CmpOp) :=
  [("==", .eq), ("!=", .ne), ("<", .lt), ("<=", .le), (">", .gt), (">=", .ge), ("is", .is), ("is not", .isNot),
   ("in", .in_), ("not in", .notIn)]

def getBin (s : String) : Except String BinOp :=
  match binOps.lookup s with | some o => pure o | none => throw s!"binop {s}"
def getCmp (s : String) : Except String CmpOp :=
  match cmpOps.lookup s with | some o => pure o | none => throw s!"cmpop {s}"

def asArr (j : Json) : Except String (List Json) :=
  match j with | .arr a => pure a.toList | _ => throw "array expected"
def asStr (j : Json) : Except String String :=
  match j with | .str s => pure s | _ => throw "string expected"
def asBool (j : Json) : Except String Bool :=
  match j with | .bool b => pure b | _ => throw "bool expected"

mutual
partial def exprOf (j : Json) : Except String Expr := do
  match ← asArr j with
  | [.str "name", s] => pure (.name (← asStr s))
  | [.str "const", s] => pure (.const (← asStr s))
  | [.str "neg", s] => pure (.negConst (← asStr s))
  | [.str "bool", o, vs] =>
      match ← (← asArr vs).mapM exprOf with
      | a :: b :: more => pure (.boolOp (← asBool o) a b (more.foldr Exprs.cons .nil))
      | _ => throw "bool: two values at least"
  | [.str "not", e] => pure (.not (← exprOf e))
  | [.str "cmp", l, rest] =>
      let ps ← (← asArr rest).mapM (fun p => do
        match ← asArr p with
        | [o, e] => pure ((← getCmp (← asStr o)), (← exprOf e))
        | _ => throw "cmp pair")
      match ps with
      | (o, r) :: more => pure (.compare (← exprOf l) o r (more.foldr (fun p t => CmpTail.cons p.1 p.2 t) .nil))
      | [] => throw "cmp: one comparator at least"
  | [.str "bin", o, l, r] => pure (.bin (← getBin (← asStr o)) (← exprOf l) (← exprOf r))
  | [.str "un", o, e] =>
      let op ← match ← asStr o with | "-" => pure UnOp.neg | "+" => pure UnOp.pos | s => throw s!"unop {s}"
      pure (.unary op (← exprOf e))
  | [.str "if", b, t, o] => pure (.ifExp (← exprOf b) (← exprOf t) (← exprOf o))
  | [.str "lam", ps, b] => pure (.lambda (← paramsOf (← asArr ps)) (← exprOf b))
  | [.str "attr", e, a] => pure (.attr (← exprOf e) (← asStr a))
  | [.str "call", f, as] => pure (.call (← exprOf f) (← argsOf (← asArr as)))
  | [.str "sub", e, i] => pure (.subscript (← exprOf e) (← idxOf i))
  | [.str "subT", e, is] =>
      let l ← (← asArr is).mapM idxOf
      pure (.subscriptT (← exprOf e) (l.foldr Idxs.cons .nil))
  | [.str "list", as] => pure (.list (← argsOf (← asArr as)))
  | [.str "tuple", as] => pure (.tuple (← argsOf (← asArr as)))
  | [.str "dict", kvs] =>
      let l ← (← asArr kvs).mapM (fun p => do
        match ← asArr p with
        | [k, v] => pure ((← exprOf k), (← exprOf v))
        | _ => throw "dict pair")
      pure (.dict (l.foldr (fun p t => KVs.cons p.1 p.2 t) .nil))
  | [.str "fstr", ps] => pure (.fstr (← partsOf (← asArr ps)))
  | _ => throw s!"bad expr {j.compress}"
partial def argsOf : List Json → Except String Args
  | [] => pure .nil
  | j :: t => do
    let rest ← argsOf t
    match ← asArr j with
    | [.str "pos", e] => pure (.pos (← exprOf e) rest)
    | [.str "star", e] => pure (.star (← exprOf e) rest)
    | [.str "kw", n, e] => pure (.kw (← asStr n) (← exprOf e) rest)
    | [.str "dstar", e] => pure (.dstar (← exprOf e) rest)
    | _ => throw "bad arg"
partial def optOf (j : Json) : Except String OptE :=
  match j with
  | .null => pure .none
  | _ => do pure (.some (← exprOf j))
partial def idxOf (j : Json) : Except String Idx := do
  match ← asArr j with
  | [.str "ie", e] => pure (.ie (← exprOf e))
  | [.str "sl", a, b, c] => pure (.sl (← optOf a) (← optOf b) (← optOf c))
  | _ => throw "bad idx"
partial def paramsOf : List Json → Except String Params
  | [] => pure .nil
  | j :: t => do
    let rest ← paramsOf t
    match ← asArr j with
    | [.str "p", n] => pure (.plain (← asStr n) rest)
    | [.str "d", n, e] => pure (.dflt (← asStr n) (← exprOf e) rest)
    | [.str "v", n] => pure (.var (← asStr n) rest)
    | [.str "k", n] => pure (.kwvar (← asStr n) rest)
    | _ => throw "bad param"
partial def partsOf : List Json → Except String FParts
  | [] => pure .nil
  | j :: t => do
    let rest ← partsOf t
    match ← asArr j with
    | [.str "lit", s] => pure (.lit (← asStr s) rest)
    | [.str "field", e, c, sp] =>
        let spec ← match sp with
          | .null => pure FSpec.none
          | _ => do pure (FSpec.some (← partsOf (← asArr sp)))
        pure (.field (← exprOf e) (← asStr c) spec rest)
    | _ => throw "bad f-string part"
end

def binText (o : BinOp) : Json := .str o.text
def cmpText (o : CmpOp) : Json := .str o.text
def tag (s : String) (l : List Json) : Json := .arr ((Json.str s) :: l).toArray

mutual
partial def jE : Expr → Json
  | .name s => tag "name" [.str s]
  | .const s => tag "const" [.str s]
  | .negConst s => tag "neg" [.str s]
  | .boolOp o a b m => tag "bool" [.bool o, .arr (jE a :: jE b :: jEs m).toArray]
  | .not e => tag "not" [jE e]
  | .compare l o r m => tag "cmp" [jE l, .arr (Json.arr #[cmpText o, jE r] :: jCmp m).toArray]
  | .bin o l r => tag "bin" [binText o, jE l, jE r]
  | .unary o e => tag "un" [.str (match o with | .neg => "-" | .pos => "+"), jE e]
  | .ifExp a b c => tag "if" [jE a, jE b, jE c]
  | .lambda ps b => tag "lam" [.arr (jParams ps).toArray, jE b]
  | .attr e a => tag "attr" [jE e, .str a]
  | .call f a => tag "call" [jE f, .arr (jArgs a).toArray]
  | .subscript e i => tag "sub" [jE e, jIdx i]
  | .subscriptT e is => tag "subT" [jE e, .arr (jIdxs is).toArray]
  | .list a => tag "list" [.arr (jArgs a).toArray]
  | .tuple a => tag "tuple" [.arr (jArgs a).toArray]
  | .dict k => tag "dict" [.arr (jKVs k).toArray]
  | .fstr _ => tag "fstr" []
partial def jEs : Exprs → List Json
  | .nil => []
  | .cons e t => jE e :: jEs t
partial def jCmp : CmpTail → List Json
  | .nil => []
  | .cons o e t => Json.arr #[cmpText o, jE e] :: jCmp t
partial def jArgs : Args → List Json
  | .nil => []
  | .pos e t => tag "pos" [jE e] :: jArgs t
  | .star e t => tag "star" [jE e] :: jArgs t
  | .kw n e t => tag "kw" [.str n, jE e] :: jArgs t
  | .dstar e t => tag "dstar" [jE e] :: jArgs t
partial def jOpt : OptE → Json
  | .none => .null
  | .some e => jE e
partial def jIdx : Idx → Json
  | .ie e => tag "ie" [jE e]
  | .sl a b c => tag "sl" [jOpt a, jOpt b, jOpt c]
partial def jIdxs : Idxs → List Json
  | .nil => []
  | .cons i t => jIdx i :: jIdxs t
partial def jParams : Params → List Json
  | .nil => []
  | .plain n t => tag "p" [.str n] :: jParams t
  | .dflt n e t => tag "d" [.str n, jE e] :: jParams t
  | .var n t => tag "v" [.str n] :: jParams t
  | .kwvar n t => tag "k" [.str n] :: jParams t
partial def jKVs : KVs → List Json
  | .nil => []
  | .cons k v t => Json.arr #[jE k, jE v] :: jKVs t
end

def punct : List (String × Tok) :=
  [("(", .lpar), (")", .rpar), ("[", .lbrk), ("]", .rbrk), ("{", .lbrc), ("}", .rbrc), (",", .comma), (":", .colon),
   (".", .dot), ("=", .assign), ("lambda", .kLambda), ("if", .kIf), ("else", .kElse), ("or", .kOr), ("and", .kAnd),
   ("not", .kNot)]

def tokOf (j : Json) : Except String Tok := do
  match j with
  | .str s =>
      match punct.lookup s with
      | some t => pure t
      | none => match binOps.lookup s with
        | some o => pure (.bin o)
        | none => match cmpOps.lookup s with
          | some o => pure (.cmp o)
          | none => throw s!"token {s}"
  | _ => match ← asArr j with
    | [.str "n", s] => pure (.name (← asStr s))
    | [.str "c", s] => pure (.const (← asStr s))
    | _ => throw "bad token"

open PonyVerif.Model.PreTrans in
def kindOf (s : String) : Except String Kind :=
  match s with
  | "nameLoad" => pure .nameLoad | "const" => pure .const | "lambda" => pure .lambda | "starred" => pure .starred
  | "listD" => pure .listD | "dictD" => pure .dictD | "slice" => pure .slice | "keyword" => pure .keyword
  | "tuple" => pure .tuple | "other" => pure .other
  | _ => throw s!"kind {s}"

open PonyVerif.Model.PreTrans in
mutual
partial def nodeOf (j : Json) : Except String Node := do
  match ← asArr j with
  | [k, l, ns, cs] =>
      let names ← (← asArr ns).mapM asStr
      let lab : Nat ← fromJson? l
      pure (.mk (← kindOf (← asStr k)) lab names (← nodesOf (← asArr cs)))
  | _ => throw "bad node"
partial def nodesOf : List Json → Except String Nodes
  | [] => pure .nil
  | j :: t => do pure (.cons (← nodeOf j) (← nodesOf t))
end

def envOf (j : Json) : Except String PonyVerif.Model.Scope.Env := do
  (← asArr j).mapM (fun p => do
    match ← asArr p with
    | [k, v] => pure ((← asStr k), (← (fromJson? v : Except String Int)))
    | _ => throw "env pair")
def optEnvOf (j : Json) (k : String) : Except String (Option PonyVerif.Model.Scope.Env) :=
  match j.getObjVal? k with
  | .ok .null => pure none
  | .ok v => do pure (some (← envOf v))
  | .error _ => pure none

def handle (j : Json) : Except String Json := do
  let op ← argStr j "op"
  match op with
  | "print" =>
      let e ← exprOf (← j.getObjVal? "e")
      let ts := toks e
      let p := match parse ts with | some x => jE x | none => Json.null
      pure (Json.mkObj [("src", .str (srcText e)), ("parse", p), ("norm", jE (norm e)), ("ntoks", .num (JsonNumber.fromNat ts.length))])
  | "resolve" =>
      let kind ← match ← argStr j "kind" with
        | "generator" => pure PonyVerif.Model.Scope.QKind.generator
        | "function" => pure PonyVerif.Model.Scope.QKind.function
        | "text" => pure PonyVerif.Model.Scope.QKind.text
        | k => throw s!"kind {k}"
      let sc : PonyVerif.Model.Scope.Scopes := {
        callerLocals := ← envOf (← j.getObjVal? "callerLocals"), callerGlobals := ← envOf (← j.getObjVal? "callerGlobals"),
        ownLocals := ← envOf (← j.getObjVal? "ownLocals"), ownGlobals := ← envOf (← j.getObjVal? "ownGlobals"),
        cells := ← envOf (← j.getObjVal? "cells"), globalNames := ← (← argArr j "globalNames").mapM asStr,
        explicitGlobals := ← optEnvOf j "explicitGlobals", explicitLocals := ← optEnvOf j "explicitLocals" }
      let names ← (← argArr j "names").mapM asStr
      pure (Json.mkObj [("values", .arr (names.map (fun n => match PonyVerif.Model.Scope.resolve kind sc n with
        | some v => Json.num (JsonNumber.fromInt v) | none => Json.null)).toArray)])
  | "classify" =>
      let t ← nodeOf (← j.getObjVal? "t")
      let ctx ← (← argArr j "ctx").mapM asStr
      let r := PonyVerif.Model.PreTrans.externals PonyVerif.Gen.C04Src.starredForced ctx t
      pure (Json.mkObj [("externals", .arr (r.map (fun n => Json.num (JsonNumber.fromNat n))).toArray)])
  | "parse_toks" =>
      let ts ← (← argArr j "toks").mapM tokOf
      pure (Json.mkObj [("parse", match parse ts with | some x => jE x | none => Json.null)])
  | _ => throw s!"unknown op {op}"
end PonyVerif.Drive.C04
