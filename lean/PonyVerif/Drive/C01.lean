/-
  Driver entry for C01 (and the shared JSON glue of engine Q, also used by Drive/C02): expressions, SQL ASTs in Pony's own list
  form, rows.  Trusted glue, not verified.
    translate : schema, dialect, expr          -> the WHERE conditions `SQLTranslator.init` would append / the projection column
    evalsql   : dialect, SQL AST(s), rows      -> three-valued result of the conjunction per row (model of the backend)
    py        : expr, rows                     -> the Python reading (`Model.Q.py`) per row
    frag      : schema, dialect, expr          -> is the expression inside the hypothesis set of C01_cond
-/
import PonyVerif.Drive.Util
import PonyVerif.Model.Translate
import PonyVerif.Model.Distinct
import PonyVerif.Lemmas.SqlBEq
import PonyVerif.Model.Subquery
import PonyVerif.Model.QRel
namespace PonyVerif.Drive.C01
open Lean PonyVerif.Drive PonyVerif.Model.Q

def tyOfString : String → Except String Ty
  | "int" => pure .int | "bool" => pure .bool | "str" => pure .str
  | s => throw s!"type {s}"

def litOfJson : Json → Except String Lit
  | .null => pure .null
  | .bool b => pure (.bool b)
  | .str s => pure (.str s)
  | .num n => if n.exponent == 0 then pure (.int n.mantissa) else throw "non-integer literal"
  | _ => throw "literal"

def litToJson : Lit → Json
  | .null => .null
  | .bool b => .bool b
  | .str s => .str s
  | .int i => .num (JsonNumber.fromInt i)

def popOfString : String → Except String POp
  | "==" => pure .eq | "!=" => pure .ne | "<" => pure .lt | "<=" => pure .le | ">" => pure .gt | ">=" => pure .ge
  | "is" => pure .is_ | "is not" => pure .isNot
  | s => throw s!"operator {s}"

def arOfString : String → Except String ArOp
  | "+" => pure .add | "-" => pure .sub | "*" => pure .mul
  | s => throw s!"operator {s}"

def kindOfString : String → Except String LikeKind
  | "contains" => pure .contains | "startswith" => pure .startswith | "endswith" => pure .endswith
  | s => throw s!"like kind {s}"

def jStr : Json → Except String String
  | .str s => pure s
  | _ => throw "string expected"
def jBool : Json → Except String Bool
  | .bool b => pure b
  | _ => throw "bool expected"
def jInt : Json → Except String Int
  | .num n => if n.exponent == 0 then pure n.mantissa else throw "integer expected"
  | _ => throw "integer expected"

partial def exprOfJson (j : Json) : Except String Expr := do
  match j with
  | .arr a =>
    match a.toList with
    | [.str "attr", n] => pure (.attr (← jStr n))
    | [.str "int", i] => pure (.cInt (← jInt i))
    | [.str "str", s] => pure (.cStr (← jStr s))
    | [.str "bool", b] => pure (.cBool (← jBool b))
    | [.str "none"] => pure .cNone
    | [.str "param", n] => pure (.param (← jStr n))
    | [.str "cmp", op, l, r] => pure (.cmp (← popOfString (← jStr op)) (← exprOfJson l) (← exprOfJson r))
    | [.str "in", ng, x, .arr items] => pure (.inList (← jBool ng) (← exprOfJson x) (← items.toList.mapM litOfJson))
    | [.str "like", k, ng, pat, x] => pure (.like (← kindOfString (← jStr k)) (← jBool ng) (← jStr pat) (← exprOfJson x))
    | [.str "and", l, r] => pure (.and (← exprOfJson l) (← exprOfJson r))
    | [.str "or", l, r] => pure (.or (← exprOfJson l) (← exprOfJson r))
    | [.str "not", x] => pure (.not (← exprOfJson x))
    | [.str "bin", op, l, r] => pure (.bin (← arOfString (← jStr op)) (← exprOfJson l) (← exprOfJson r))
    | [.str "neg", x] => pure (.neg (← exprOfJson x))
    | [.str "abs", x] => pure (.abs (← exprOfJson x))
    | [.str "len", x] => pure (.len (← exprOfJson x))
    | [.str "ite", c, t, e] => pure (.ite (← exprOfJson c) (← exprOfJson t) (← exprOfJson e))
    | _ => throw s!"expression {j.compress}"
  | _ => throw s!"expression {j.compress}"

def cmpName : CmpOp → String
  | .eq => "EQ" | .ne => "NE" | .lt => "LT" | .le => "LE" | .gt => "GT" | .ge => "GE"
def arName : ArOp → String
  | .add => "ADD" | .sub => "SUB" | .mul => "MUL"

mutual
partial def sqlToJson : Sql → Json
  | .column n => .arr #["COLUMN", "e", .str n]
  | .value v => .arr #["VALUE", litToJson v]
  | .param n => .arr #["PARAM", .str n]
  | .cmp op a b => .arr #[.str (cmpName op), sqlToJson a, sqlToJson b]
  | .ar op a b => .arr #[.str (arName op), sqlToJson a, sqlToJson b]
  | .neg a => .arr #["NEG", sqlToJson a]
  | .abs a => .arr #["ABS", sqlToJson a]
  | .length a => .arr #["LENGTH", sqlToJson a]
  | .toInt a => .arr #["TO_INT", sqlToJson a]
  | .concat a b => .arr #["CONCAT", sqlToJson a, sqlToJson b]
  | .isNull a => .arr #["IS_NULL", sqlToJson a]
  | .isNotNull a => .arr #["IS_NOT_NULL", sqlToJson a]
  | .coalesce a b => .arr #["COALESCE", sqlToJson a, sqlToJson b]
  | .not a => .arr #["NOT", sqlToJson a]
  | .and items => .arr ((Json.str "AND" :: sqlListToJson items).toArray)
  | .or items => .arr ((Json.str "OR" :: sqlListToJson items).toArray)
  | .inList ng a items => .arr #[Json.str (if ng then "NOT_IN" else "IN"), sqlToJson a, .arr (sqlListToJson items).toArray]
  | .like ng a pat esc =>
      .arr (([Json.str (if ng then "NOT_LIKE" else "LIKE"), sqlToJson a, Json.arr #["VALUE", .str pat]] ++
             (if esc then [Json.arr #["VALUE", "!"]] else [])).toArray)
  | .case c t e => .arr #["CASE", .null, .arr #[.arr #[sqlToJson c, sqlToJson t]], sqlToJson e]
partial def sqlListToJson : SqlList → List Json
  | .nil => []
  | .cons h t => sqlToJson h :: sqlListToJson t
end

def cmpOfName : String → Option CmpOp
  | "EQ" => some .eq | "NE" => some .ne | "LT" => some .lt | "LE" => some .le | "GT" => some .gt | "GE" => some .ge
  | _ => none
def arOfName : String → Option ArOp
  | "ADD" => some .add | "SUB" => some .sub | "MUL" => some .mul
  | _ => none

/-- Pony's list form -> `Sql` (only the node kinds of the fragment; anything else is reported as unsupported) -/
partial def sqlOfJson (j : Json) : Except String Sql := do
  match j with
  | .arr a =>
    match a.toList with
    | [.str "COLUMN", _, n] => pure (.column (← jStr n))
    | [.str "VALUE", v] => pure (.value (← litOfJson v))
    | [.str "PARAM", n] => pure (.param (← jStr n))
    | [.str "NEG", x] => pure (.neg (← sqlOfJson x))
    | [.str "ABS", x] => pure (.abs (← sqlOfJson x))
    | [.str "LENGTH", x] => pure (.length (← sqlOfJson x))
    | [.str "TO_INT", x] => pure (.toInt (← sqlOfJson x))
    | [.str "CONCAT", x, y] => pure (.concat (← sqlOfJson x) (← sqlOfJson y))
    | [.str "IS_NULL", x] => pure (.isNull (← sqlOfJson x))
    | [.str "IS_NOT_NULL", x] => pure (.isNotNull (← sqlOfJson x))
    | [.str "COALESCE", x, y] => pure (.coalesce (← sqlOfJson x) (← sqlOfJson y))
    | [.str "NOT", x] => pure (.not (← sqlOfJson x))
    | .str "AND" :: items => pure (.and (SqlList.ofList (← items.mapM sqlOfJson)))
    | .str "OR" :: items => pure (.or (SqlList.ofList (← items.mapM sqlOfJson)))
    | [.str "IN", x, .arr items] => pure (.inList false (← sqlOfJson x) (SqlList.ofList (← items.toList.mapM sqlOfJson)))
    | [.str "NOT_IN", x, .arr items] => pure (.inList true (← sqlOfJson x) (SqlList.ofList (← items.toList.mapM sqlOfJson)))
    | [.str "LIKE", x, .arr #[.str "VALUE", .str p]] => pure (.like false (← sqlOfJson x) p false)
    | [.str "LIKE", x, .arr #[.str "VALUE", .str p], .arr #[.str "VALUE", .str "!"]] => pure (.like false (← sqlOfJson x) p true)
    | [.str "NOT_LIKE", x, .arr #[.str "VALUE", .str p]] => pure (.like true (← sqlOfJson x) p false)
    | [.str "NOT_LIKE", x, .arr #[.str "VALUE", .str p], .arr #[.str "VALUE", .str "!"]] => pure (.like true (← sqlOfJson x) p true)
    | [.str "CASE", .null, .arr #[.arr #[c, t]], e] => pure (.case (← sqlOfJson c) (← sqlOfJson t) (← sqlOfJson e))
    | [.str op, x, y] =>
        match cmpOfName op, arOfName op with
        | some o, _ => pure (.cmp o (← sqlOfJson x) (← sqlOfJson y))
        | _, some o => pure (.ar o (← sqlOfJson x) (← sqlOfJson y))
        | _, _ => throw s!"unsupported node {op}"
    | _ => throw s!"unsupported node {j.compress}"
  | _ => throw s!"unsupported node {j.compress}"

def errName : TrErr → String
  | .typeError => "TypeError" | .attributeError => "AttributeError" | .notImplemented => "NotImplementedError"

def schemaOfJson (j : Json) : Except String Schema := do
  let attrs ← j.getObjVal? "attrs"
  let pars ← j.getObjVal? "params"
  let al ← match attrs with
    | .obj o => o.toList.mapM (fun (k, v) => do
        match v with
        | .arr #[.str t, .bool nl] => pure (k, (← tyOfString t, nl))
        | _ => throw "attr spec")
    | _ => throw "attrs"
  let pl ← match pars with
    | .obj o => o.toList.mapM (fun (k, v) => do pure (k, ← tyOfString (← jStr v)))
    | _ => throw "params"
  pure { attr := fun n => al.lookup n, par := fun n => pl.lookup n }

def scalarOfJson : Json → Except String (Option Scalar)
  | .null => pure none
  | .bool b => pure (some (.bool b))
  | .str s => pure (some (.str s))
  | .num n => if n.exponent == 0 then pure (some (.int n.mantissa)) else throw "non-integer value"
  | _ => throw "value"

/-- rows and parameter values as Python values (bool = `true`/`false`) -/
def penvOfJson (row pars : Json) : Except String PEnv := do
  let rl ← match row with
    | .obj o => o.toList.mapM (fun (k, v) => do pure (k, ← scalarOfJson v))
    | _ => throw "row"
  let pl ← match pars with
    | .obj o => o.toList.mapM (fun (k, v) => do
        match ← scalarOfJson v with
        | some s => pure (k, s)
        | none => throw "None parameter")
    | _ => throw "params"
  pure { col := fun n => (rl.lookup n).getD none, par := fun n => (pl.lookup n).getD (.int 0) }

def kToJson : K → Json
  | .tt => "tt" | .ff => "ff" | .unk => "unk"

def valToJson : Val → Json
  | .null => .null
  | .int i => .num (JsonNumber.fromInt i)
  | .str s => .str s
  | .bool b => .bool b

def scalarToJson : Option Scalar → Json
  | none => .null
  | some (.int i) => .num (JsonNumber.fromInt i)
  | some (.str s) => .str s
  | some (.bool b) => .bool b

def dialectOf (j : Json) : Except String Dialect := do
  let s ← argStr j "dialect"
  match Dialect.ofString? s with
  | some d => pure d
  | none => throw s!"dialect {s}"

/-- every COLUMN node of a condition refers to the alias `a` (so that dropping the alias in `sqlOfJson` loses nothing) -/
partial def aliasesOk (a : String) : Json → Bool
  | .arr xs =>
    match xs.toList with
    | [.str "COLUMN", .str al, _] => al == a
    | l => l.all (aliasesOk a)
  | _ => true

/-- decode `[ 'EXISTS' | 'NOT_EXISTS', [ 'FROM', [ child, 'TABLE', _ ] ], [ 'WHERE', [ 'EQ', [COLUMN parent pk], [COLUMN child fk] ], conds… ] ]` -/
def existsParts (parent child pk fk : String) (ast : Json) : Except String (Bool × List Json) := do
  match ast with
  | .arr #[.str head, .arr #[.str "FROM", .arr #[.str c, .str "TABLE", _]], .arr wh] =>
    let neg ← (match head with
      | "EXISTS" => pure false
      | "NOT_EXISTS" => pure true
      | h => throw s!"head {h}")
    if c != child then throw "child alias"
    match wh.toList with
    | .str "WHERE" :: .arr #[.str "EQ", .arr #[.str "COLUMN", .str p1, .str k1], .arr #[.str "COLUMN", .str c1, .str f1]] :: conds =>
      if p1 == parent && k1 == pk && c1 == child && f1 == fk && conds.all (aliasesOk child) then pure (neg, conds)
      else throw "join condition / aliases"
    | _ => throw "WHERE shape"
  | _ => throw "EXISTS shape"

/-- columns of another alias than the child's become attributes `parent.<name>` of the joined row -/
partial def mapParentAlias (child : String) : Json → Json
  | .arr xs =>
    match xs.toList with
    | [.str "COLUMN", .str al, .str n] => if al == child then .arr xs else .arr #[.str "COLUMN", .str child, .str ("parent." ++ n)]
    | l => .arr (l.map (mapParentAlias child)).toArray
  | j => j

/-- decode `[ 'EXISTS' | 'NOT_EXISTS', [ 'FROM', [ t, 'TABLE', _ ], [ child, 'TABLE', _, [ 'EQ', [COLUMN t lc], [COLUMN child pk] ] ] ],
               [ 'WHERE', [ 'EQ', [COLUMN parent ppk], [COLUMN t lp] ], conds… ] ]`  (many-to-many through a link table) -/
def existsPartsM (parent child : String) (ast : Json) : Except String (Bool × List Json) := do
  match ast with
  | .arr #[.str head, .arr #[.str "FROM", .arr #[.str t, .str "TABLE", _], .arr #[.str c, .str "TABLE", _, .arr #[.str "EQ", .arr #[.str "COLUMN", .str t1, _], .arr #[.str "COLUMN", .str c1, _]]]], .arr wh] =>
    let neg ← (match head with
      | "EXISTS" => pure false
      | "NOT_EXISTS" => pure true
      | h => throw s!"head {h}")
    if c != child || t1 != t || c1 != child || t == child || t == parent then throw "FROM shape"
    match wh.toList with
    | .str "WHERE" :: .arr #[.str "EQ", .arr #[.str "COLUMN", .str p1, _], .arr #[.str "COLUMN", .str t2, _]] :: conds =>
      if p1 == parent && t2 == t && conds.all (aliasesOk child) then pure (neg, conds) else throw "join condition / aliases"
    | _ => throw "WHERE shape"
  | _ => throw "EXISTS shape"

def handle (j : Json) : Except String Json := do
  let op ← argStr j "op"
  match op with
  | "checkexistsm" =>
      -- the verified checker on the inner conditions of a real many-to-many [NOT] EXISTS (C01_exists_m2m)
      let d ← dialectOf j
      let sch ← schemaOfJson (← j.getObjVal? "schema")
      let e ← exprOfJson (← j.getObjVal? "expr")
      match existsPartsM (← argStr j "parent") (← argStr j "child") (← j.getObjVal? "ast") with
      | .error m => pure (Json.mkObj [("accepted", .bool false), ("shape", .str m), ("frag", .bool (frag sch d e))])
      | .ok (neg, conds) =>
        let cs ← conds.mapM sqlOfJson
        pure (Json.mkObj [("accepted", .bool (checkConditions sch d e (SqlList.ofList cs))), ("negated", .bool neg), ("frag", .bool (frag sch d e))])
  | "checkjoin" =>
      -- the verified checker on conditions that read attributes of the referenced object (C01_join / C01_join_required)
      let d ← dialectOf j
      let sch ← schemaOfJson (← j.getObjVal? "schema")
      let e ← exprOfJson (← j.getObjVal? "expr")
      let child ← argStr j "child"
      let real ← (← argArr j "sql").mapM (fun c => sqlOfJson (mapParentAlias child c))
      pure (Json.mkObj [("accepted", .bool (checkConditions sch d e (SqlList.ofList real))), ("frag", .bool (frag sch d e))])
  | "checkexists" =>
      -- the verified checker on the inner conditions of a real correlated [NOT] EXISTS (C01_exists_collection / C01_not_exists_collection)
      let d ← dialectOf j
      let sch ← schemaOfJson (← j.getObjVal? "schema")
      let e ← exprOfJson (← j.getObjVal? "expr")
      match existsParts (← argStr j "parent") (← argStr j "child") (← argStr j "pk") (← argStr j "fk") (← j.getObjVal? "ast") with
      | .error m => pure (Json.mkObj [("accepted", .bool false), ("shape", .str m), ("frag", .bool (frag sch d e))])
      | .ok (neg, conds) =>
        let cs ← conds.mapM sqlOfJson
        pure (Json.mkObj [("accepted", .bool (checkConditions sch d e (SqlList.ofList cs))), ("negated", .bool neg), ("frag", .bool (frag sch d e))])
  | "evalexists" =>
      -- model semantics of the correlated sub-select: for every parent key, EXISTS and COUNT over the child rows (each row carries "fk")
      let d ← dialectOf j
      let conds ← (← argArr j "sql").mapM sqlOfJson
      let pars ← j.getObjVal? "params"
      let rows ← argArr j "rows"
      let children ← rows.mapM (fun r => do
        let env ← penvOfJson r pars
        let fk := match r.getObjVal? "fk" with
          | .ok (.num n) => some n.mantissa
          | _ => none
        pure (⟨fk, env⟩ : Child))
      let pks ← (← argArr j "pks").mapM jInt
      let outs := pks.map (fun pk => match sqlExists likeExec d pk (SqlList.ofList conds) children, sqlCountWhere likeExec d pk (SqlList.ofList conds) children with
        | some b, some n => Json.mkObj [("exists", .bool b), ("count", .num (JsonNumber.fromNat n))]
        | _, _ => Json.str "err")
      pure (Json.mkObj [("ok", .arr outs.toArray)])
  | "translate" =>
      let d ← dialectOf j
      let sch ← schemaOfJson (← j.getObjVal? "schema")
      let e ← exprOfJson (← j.getObjVal? "expr")
      let conds := match conditions sch d e with
        | .ok cs => Json.mkObj [("ok", .arr (sqlListToJson cs).toArray)]
        | .error x => Json.mkObj [("error", .str (errName x))]
      let proj := match projection sch d e with
        | .ok s => Json.mkObj [("ok", sqlToJson s)]
        | .error x => Json.mkObj [("error", .str (errName x))]
      pure (Json.mkObj [("conditions", conds), ("projection", proj), ("frag", .bool (frag sch d e)),
                        ("valueSorted", .bool (valueSorted e)), ("exact", .bool (exact sch e))])
  | "evalsql" =>
      -- conjunction of the given conditions on every row; `value`: the single AST evaluated as a value
      let d ← dialectOf j
      let conds ← (← argArr j "sql").mapM sqlOfJson
      let pars ← j.getObjVal? "params"
      let rows ← argArr j "rows"
      let asValue := (j.getObjValAs? Bool "value").toOption.getD false
      let outs ← rows.mapM (fun r => do
        let env ← penvOfJson r pars
        let se := senv d env
        if asValue then
          match conds with
          | [s] => match eval likeExec d se s with
            | some v => pure (valToJson v)
            | none => pure (Json.str "err")
          | _ => throw "value: one AST expected"
        else
          match evalCond likeExec d se (.and (SqlList.ofList conds)) with
          | some k => pure (kToJson k)
          | none => pure (Json.str "err"))
      pure (Json.mkObj [("ok", .arr outs.toArray)])
  | "py" =>
      let e ← exprOfJson (← j.getObjVal? "expr")
      let pars ← j.getObjVal? "params"
      let rows ← argArr j "rows"
      let outs ← rows.mapM (fun r => do
        let env ← penvOfJson r pars
        let v := py env e
        pure (Json.mkObj [("k", kToJson v.asK), ("v", scalarToJson v.asV)]))
      pure (Json.mkObj [("ok", .arr outs.toArray)])
  | "check" =>
      -- the verified checker (C01_checker_sound / C02_checker_sound) on the REAL translator's conditions
      let d ← dialectOf j
      let sch ← schemaOfJson (← j.getObjVal? "schema")
      let e ← exprOfJson (← j.getObjVal? "expr")
      let real ← (← argArr j "sql").mapM sqlOfJson
      pure (Json.mkObj [("accepted", .bool (checkConditions sch d e (SqlList.ofList real))), ("frag", .bool (frag sch d e))])
  | "checkproj" =>
      let d ← dialectOf j
      let sch ← schemaOfJson (← j.getObjVal? "schema")
      let e ← exprOfJson (← j.getObjVal? "expr")
      let real ← sqlOfJson (← j.getObjVal? "sql")
      pure (Json.mkObj [("accepted", .bool (checkProjection sch d e real)), ("frag", .bool (frag sch d e && valueSorted e))])
  | "subq" =>
      -- NULL rules: IN / NOT IN over values with NULLs (guarded or not) and the aggregates, for comparison with real SQLite
      let vals ← (← argArr j "vals").mapM (fun x => match x with
        | .null => pure (none : Option Int)
        | v => do pure (some (← jInt v)))
      let v ← argInt j "v"
      let guard ← argBool j "guard"
      let oi : Option Int → Json := fun o => match o with | none => .null | some i => .num (JsonNumber.fromInt i)
      pure (Json.mkObj [("in", kToJson (sqlIn (some v) (subselect guard vals))), ("notin", kToJson (sqlNotIn (some v) (subselect guard vals))),
        ("sum", .num (JsonNumber.fromInt (ponySum vals))), ("count", .num (JsonNumber.fromNat (sqlCount vals))),
        ("min", oi (sqlMin vals)), ("max", oi (sqlMax vals))])
  | "distinct" =>
      -- DISTINCT inference for `select((items) for x in X)`: pk = key attribute names, items = "*" (the variable), "name" (plain attribute) or null (expression)
      let pk ← (← argArr j "pk").mapM jStr
      let items ← argArr j "items"
      let its := items.zipIdx.map (fun (it, i) => match it with
        | .str "*" => Item.entity
        | .str n => Item.attr n
        | _ => Item.expr i)
      pure (Json.mkObj [("distinct", .bool (needsDistinct pk its))])
  | _ => throw s!"unknown op {op}"

end PonyVerif.Drive.C01
