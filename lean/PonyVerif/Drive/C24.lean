import PonyVerif.Drive.Util
import PonyVerif.Gen.Limit
import PonyVerif.Model.Limit
import PonyVerif.Model.Aggr
namespace PonyVerif.Drive.C24
open Lean PonyVerif.Py PonyVerif.Drive

def jAvg : Option (Int × Nat) → Json
  | none => Json.null
  | some (s, n) => toJson [s, (n : Int)]

def handle (j : Json) : Except String Json := do
  let op ← argStr j "op"
  match op with
  | "combine" =>
      let a ← argArr j "args"
      match ← a.mapM pyOfJson with
      | [l, o, l2, o2] => pure (jsonOfPyM (PonyVerif.Gen.combineLimitAndOffset l o l2 o2))
      | _ => throw "combine: 4 args"
  | "getitem" =>
      let a ← argArr j "args"
      match ← a.mapM pyOfJson with
      | [isSlice, step, start, stop] => pure (jsonOfPyM (PonyVerif.Gen.queryGetitem isSlice step start stop))
      | _ => throw "getitem: 4 args"
  | "page" =>
      let a ← argArr j "args"
      match ← a.mapM pyOfJson with
      | [n, k] => pure (jsonOfPyM (PonyVerif.Gen.queryPage n k))
      | _ => throw "page: 2 args"
  | "aggr" =>
      -- col: array of ints / nulls → every aggregate of Model/Aggr.lean
      let a ← argArr j "col"
      let col : List (Option Int) ← a.mapM (fun v => match v with
        | .null => pure none
        | v => do let i : Int ← fromJson? v; pure (some i))
      pure (Json.mkObj [
        ("count_none", toJson (PonyVerif.Model.Aggr.ponyCount col none)), ("count_false", toJson (PonyVerif.Model.Aggr.ponyCount col (some false))),
        ("count_true", toJson (PonyVerif.Model.Aggr.ponyCount col (some true))),
        ("sum", toJson (PonyVerif.Model.Aggr.ponySum col false)), ("sum_distinct", toJson (PonyVerif.Model.Aggr.ponySum col true)),
        ("min", jOptInt (PonyVerif.Model.Aggr.sqlMin col)), ("max", jOptInt (PonyVerif.Model.Aggr.sqlMax col)),
        ("distinct", toJson (PonyVerif.Model.Aggr.dedup (PonyVerif.Model.Aggr.nonNull col))),
        ("avg", jAvg (PonyVerif.Model.Aggr.sqlAvg col false)), ("avg_distinct", jAvg (PonyVerif.Model.Aggr.sqlAvg col true))])
  | "gconcat" =>
      let a ← argArr j "col"
      let sep ← argStr j "sep"
      let col : List (Option String) ← a.mapM (fun v => match v with
        | .null => pure none
        | v => do let t : String ← fromJson? v; pure (some t))
      pure (match PonyVerif.Model.Aggr.groupConcat col sep with | none => Json.null | some t => toJson t)
  | "sample" =>
      let R : List Int ← (← argArr j "R").mapM (fun v => fromJson? v)
      let res : List Int ← (← argArr j "res").mapM (fun v => fromJson? v)
      let n ← argNat j "n"
      pure (toJson (PonyVerif.Model.Aggr.isSample R res n))
  | "orderchain" =>
      -- rows: [[id, a, b], ...] → ids after `order_by(a).order_by(b)`
      let rows : List (Int × Int × Int) ← (← argArr j "rows").mapM (fun v => do
        let l : List Int ← fromJson? v
        match l with
        | [i, a, b] => pure (i, a, b)
        | _ => throw "orderchain: [id, a, b]")
      pure (toJson ((PonyVerif.Model.Aggr.orderChain rows (fun r => r.2.1) (fun r => r.2.2)).map (fun r => r.1)))
  | _ => throw s!"unknown op {op}"
end PonyVerif.Drive.C24
