import PonyVerif.Drive.Util
import PonyVerif.Gen.Limit
import PonyVerif.Model.Limit
import PonyVerif.Model.Aggr
import PonyVerif.Model.QResult
namespace PonyVerif.Drive.C24
open Lean PonyVerif.Py PonyVerif.Drive

def jAvg : Option (Int × Nat) → Json
  | none => Json.null
  | some (s, n) => toJson [s, (n : Int)]

def optNatOfJson : Json → Except String (Option Nat)
  | .null => pure none
  | v => do let n : Nat ← fromJson? v; pure (some n)

def qopOfJson (v : Json) : Except String (PonyVerif.Model.QResult.Op Int) := do
  let a : List Json ← (fromJson? v : Except String (Array Json)).map Array.toList
  match a with
  | [.str "len"] => pure .len
  | [.str "get", i] => do let n : Nat ← fromJson? i; pure (.get n)
  | [.str "slice", x, y] => do pure (.slice (← optNatOfJson x) (← optNatOfJson y))
  | [.str "mem", x] => do let n : Int ← fromJson? x; pure (.mem n)
  | [.str "index", x] => do let n : Int ← fromJson? x; pure (.index n)
  | [.str "iter"] => pure .iter
  | [.str "rev"] => pure .rev
  | [.str "eq", ys] => do let l : List Int ← fromJson? ys; pure (.eqList l)
  | [.str "reverse"] => pure .reverse
  | _ => throw "qres: unknown operation"

def jsonOfOut : PonyVerif.Model.QResult.Out Int → Json
  | .nat n => toJson n
  | .item x => Json.mkObj [("item", toJson x)]
  | .items xs => toJson xs
  | .bool b => toJson b
  | .error k => Json.mkObj [("error", toJson k)]
  | .unit => Json.null

def handle (j : Json) : Except String Json := do
  let op ← argStr j "op"
  match op with
  | "combine" =>
      let a ← argArr j "args"
      match ← a.mapM pyOfJson with
      | [l, o, l2, o2] => pure (jsonOfPyM (PonyVerif.Gen.combineLimitAndOffset l o l2 o2))
      | _ => throw "combine: 4 args"
  | "getitem" =>
      let a ← argArr j "args"
      match ← a.mapM pyOfJson with
      | [isSlice, step, start, stop] => pure (jsonOfPyM (PonyVerif.Gen.queryGetitem isSlice step start stop))
      | _ => throw "getitem: 4 args"
  | "page" =>
      let a ← argArr j "args"
      match ← a.mapM pyOfJson with
      | [n, k] => pure (jsonOfPyM (PonyVerif.Gen.queryPage n k))
      | _ => throw "page: 2 args"
  | "aggr" =>
      -- col: array of ints / nulls → every aggregate of Model/Aggr.lean
      let a ← argArr j "col"
      let col : List (Option Int) ← a.mapM (fun v => match v with
        | .null => pure none
        | v => do let i : Int ← fromJson? v; pure (some i))
      pure (Json.mkObj [
        ("count_none", toJson (PonyVerif.Model.Aggr.ponyCount col none)), ("count_false", toJson (PonyVerif.Model.Aggr.ponyCount col (some false))),
        ("count_true", toJson (PonyVerif.Model.Aggr.ponyCount col (some true))),
        ("sum", toJson (PonyVerif.Model.Aggr.ponySum col false)), ("sum_distinct", toJson (PonyVerif.Model.Aggr.ponySum col true)),
        ("min", jOptInt (PonyVerif.Model.Aggr.sqlMin col)), ("max", jOptInt (PonyVerif.Model.Aggr.sqlMax col)),
        ("distinct", toJson (PonyVerif.Model.Aggr.dedup (PonyVerif.Model.Aggr.nonNull col))),
        ("avg", jAvg (PonyVerif.Model.Aggr.sqlAvg col false)), ("avg_distinct", jAvg (PonyVerif.Model.Aggr.sqlAvg col true))])
  | "gconcat" =>
      let a ← argArr j "col"
      let sep ← argStr j "sep"
      let col : List (Option String) ← a.mapM (fun v => match v with
        | .null => pure none
        | v => do let t : String ← fromJson? v; pure (some t))
      pure (match PonyVerif.Model.Aggr.groupConcat col sep with | none => Json.null | some t => toJson t)
  | "sample" =>
      let R : List Int ← (← argArr j "R").mapM (fun v => fromJson? v)
      let res : List Int ← (← argArr j "res").mapM (fun v => fromJson? v)
      let n ← argNat j "n"
      pure (toJson (PonyVerif.Model.Aggr.isSample R res n))
  | "orderchain" =>
      -- rows: [[id, a, b], ...] → ids after `order_by(a).order_by(b)`
      let rows : List (Int × Int × Int) ← (← argArr j "rows").mapM (fun v => do
        let l : List Int ← fromJson? v
        match l with
        | [i, a, b] => pure (i, a, b)
        | _ => throw "orderchain: [id, a, b]")
      pure (toJson ((PonyVerif.Model.Aggr.orderChain rows (fun r => r.2.1) (fun r => r.2.2)).map (fun r => r.1)))
  | "qres" =>
      -- R: the full ordered result; l, o: the window the result object was created with; lazy; ops → outputs
      let R : List Int ← (← argArr j "R").mapM (fun v => fromJson? v)
      let l ← optNatOfJson ((j.getObjVal? "l").toOption.getD .null)
      let o ← optNatOfJson ((j.getObjVal? "o").toOption.getD .null)
      let isLazy ← argBool j "lazy"
      let ops ← (← argArr j "ops").mapM qopOfJson
      let r := if isLazy then PonyVerif.Model.QResult.lazy l o else PonyVerif.Model.QResult.eager R l o
      pure (toJson ((PonyVerif.Model.QResult.run R r ops).map jsonOfOut))
  | _ => throw s!"unknown op {op}"
end PonyVerif.Drive.C24
