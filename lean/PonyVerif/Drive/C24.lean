import PonyVerif.Drive.Util
import PonyVerif.Gen.Limit
import PonyVerif.Model.Limit
import PonyVerif.Model.Aggr
namespace PonyVerif.Drive.C24
open Lean PonyVerif.Py PonyVerif.Drive

def handle (j : Json) : Except String Json := do
  let op ← argStr j "op"
  match op with
  | "combine" =>
      let a ← argArr j "args"
      match ← a.mapM pyOfJson with
      | [l, o, l2, o2] => pure (jsonOfPyM (PonyVerif.Gen.combineLimitAndOffset l o l2 o2))
      | _ => throw "combine: 4 args"
  | "getitem" =>
      let a ← argArr j "args"
      match ← a.mapM pyOfJson with
      | [isSlice, step, start, stop] => pure (jsonOfPyM (PonyVerif.Gen.queryGetitem isSlice step start stop))
      | _ => throw "getitem: 4 args"
  | "page" =>
      let a ← argArr j "args"
      match ← a.mapM pyOfJson with
      | [n, k] => pure (jsonOfPyM (PonyVerif.Gen.queryPage n k))
      | _ => throw "page: 2 args"
  | "aggr" =>
      -- col: array of ints / nulls → every aggregate of Model/Aggr.lean
      let a ← argArr j "col"
      let col : List (Option Int) ← a.mapM (fun v => match v with
        | .null => pure none
        | v => do let i : Int ← fromJson? v; pure (some i))
      pure (Json.mkObj [
        ("count_none", toJson (PonyVerif.Model.Aggr.ponyCount col none)), ("count_false", toJson (PonyVerif.Model.Aggr.ponyCount col (some false))),
        ("count_true", toJson (PonyVerif.Model.Aggr.ponyCount col (some true))),
        ("sum", toJson (PonyVerif.Model.Aggr.ponySum col false)), ("sum_distinct", toJson (PonyVerif.Model.Aggr.ponySum col true)),
        ("min", jOptInt (PonyVerif.Model.Aggr.sqlMin col)), ("max", jOptInt (PonyVerif.Model.Aggr.sqlMax col)),
        ("distinct", toJson (PonyVerif.Model.Aggr.dedup (PonyVerif.Model.Aggr.nonNull col)))])
  | _ => throw s!"unknown op {op}"
end PonyVerif.Drive.C24
