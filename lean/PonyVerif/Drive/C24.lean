import PonyVerif.Drive.Util
import PonyVerif.Gen.Limit
import PonyVerif.Model.Limit
namespace PonyVerif.Drive.C24
open Lean PonyVerif.Py PonyVerif.Drive

def handle (j : Json) : Except String Json := do
  let op ← argStr j "op"
  match op with
  | "combine" =>
      let a ← argArr j "args"
      match ← a.mapM pyOfJson with
      | [l, o, l2, o2] => pure (jsonOfPyM (PonyVerif.Gen.combineLimitAndOffset l o l2 o2))
      | _ => throw "combine: 4 args"
  | "getitem" =>
      let a ← argArr j "args"
      match ← a.mapM pyOfJson with
      | [isSlice, step, start, stop] => pure (jsonOfPyM (PonyVerif.Gen.queryGetitem isSlice step start stop))
      | _ => throw "getitem: 4 args"
  | "page" =>
      let a ← argArr j "args"
      match ← a.mapM pyOfJson with
      | [n, k] => pure (jsonOfPyM (PonyVerif.Gen.queryPage n k))
      | _ => throw "page: 2 args"
  | _ => throw s!"unknown op {op}"
end PonyVerif.Drive.C24
