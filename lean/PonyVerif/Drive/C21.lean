import PonyVerif.Drive.Util
import PonyVerif.Model.RepRead
import PonyVerif.Model.CollRead
/-
  line-protocol entry for the C21 model: one request = attribute declaration, the list of (committed table contents,
  reader operation) pairs; the reply lists per step the result and the reader session afterwards.
-/
namespace PonyVerif.Drive.C21
open Lean PonyVerif.Drive PonyVerif.Model.RepRead

def natList (j : Json) : Except String (List Nat) := do
  match j with
  | .arr a => a.toList.mapM (fun x => fromJson? x)
  | _ => throw "array of naturals expected"

def parseDb (j : Json) : Except String Db := do
  match j with
  | .arr rows => rows.toList.mapM (fun r => do
      match r with
      | .arr #[i, vs] => do
        let id : Nat ← fromJson? i
        match vs with
        | .arr a => do
          let l ← a.toList.mapM (fun x => do
            match x with
            | .arr #[k, v] => pure ((← fromJson? k : Nat), (← fromJson? v : Int))
            | _ => throw "row value: [attr, val]")
          pure (id, l)
        | _ => throw "row values array"
      | _ => throw "row: [id, values]")
  | _ => throw "db: array"

def parseOp (j : Json) : Except String Op := do
  let k ← argStr j "k"
  match k with
  | "fetch" =>
    let ids ← natList (← j.getObjVal? "ids")
    let cols ← natList (← j.getObjVal? "cols")
    let cond ← match j.getObjVal? "cond" with
      | .ok (.arr #[a, lo]) => do pure (some ((← fromJson? a : Nat), (← fromJson? lo : Int)))
      | _ => pure none
    pure (.fetch ids cond cols)
  | "read" => pure (.readAttr (← argNat j "c") (← argNat j "a"))
  | "load" => pure (.loadObj (← argNat j "c"))
  | "iter" => pure (.iter (← argNat j "p"))
  | "len" => pure (.len (← argNat j "p"))
  | "count" => pure (.count (← argNat j "p"))
  | "isEmpty" => pure (.isEmpty (← argNat j "p"))
  | "contains" => pure (.contains (← argNat j "p") (← argNat j "c"))
  | "write" => pure (.write (← argNat j "c") (← argNat j "a") (← argInt j "v"))
  | "commit" => pure .commit
  | _ => throw s!"unknown op {k}"

def jNat (n : Nat) : Json := .num (JsonNumber.fromNat n)
def jInt (n : Int) : Json := .num (JsonNumber.fromInt n)

def errStr : Err → String
  | .unrepeatable => "UnrepeatableReadError" | .other => "other" | .optimistic => "OptimisticCheckError"

def resJson : Res → Json
  | .val v => Json.mkObj [("val", jInt v)]
  | .objs l => Json.mkObj [("objs", .arr (l.map jNat).toArray)]
  | .num n => Json.mkObj [("num", jNat n)]
  | .bool b => Json.mkObj [("bool", .bool b)]
  | .ok => Json.mkObj [("ok", .bool true)]
  | .err e => Json.mkObj [("err", .str (errStr e))]

def pairs (attrs : List Attr) (f : Attr → Option Val) : Json :=
  .arr (attrs.filterMap (fun a => (f a).map (fun v => Json.arr #[jNat a, jInt v]))).toArray

def snapJson (attrs : List Attr) (cids pids : List Nat) (s : Sess) : Json :=
  Json.mkObj [
    ("c", .arr ((cids.filter (fun c => (s.c c).present)).map (fun c =>
      let o := s.c c
      Json.mkObj [("id", jNat c), ("vals", pairs attrs o.vals), ("dbvals", pairs attrs o.dbvals),
                  ("rbits", .arr ((attrs.filter o.rbits).map jNat).toArray),
                  ("wbits", .arr ((attrs.filter o.wbits).map jNat).toArray)])).toArray),
    ("toSave", .arr (s.toSave.map jNat).toArray),
    ("kids", .arr (pids.filterMap (fun p => (s.kids p).map (fun sd =>
      Json.mkObj [("p", jNat p), ("items", .arr (sd.items.map jNat).toArray), ("full", .bool sd.full),
                  ("count", match sd.count with | none => .null | some n => jNat n)]))).toArray)]

def handle (j : Json) : Except String Json := do
  let op ← argStr j "op"
  match op with
  | "run" =>
    let attrs ← natList (← j.getObjVal? "attrs")
    let vol ← natList (← j.getObjVal? "volatile")
    let lz ← natList (← j.getObjVal? "lazy")
    let guarded ← argBool j "guarded"
    let cids ← natList (← j.getObjVal? "cids")
    let pids ← natList (← j.getObjVal? "pids")
    let cfg : Cfg := ⟨attrs, fun a => vol.contains a, fun a => lz.contains a⟩
    let steps ← (← argArr j "steps").mapM (fun st => do
      pure ((← parseDb (← st.getObjVal? "db")), (← parseOp (← st.getObjVal? "op"))))
    let (_, outs) := steps.foldl (fun (acc : Sess × List Json) st =>
      let (s', r) := exec cfg guarded acc.1 st.1 st.2
      (s', Json.mkObj [("res", resJson r), ("snap", snapJson attrs cids pids s')] :: acc.2)) (Sess.init, [])
    pure (Json.mkObj [("steps", .arr outs.reverse.toArray)])
  | "m2m" =>
    -- many-to-many read set (Model/CollRead.lean): guards, steps = (link table, operation)
    let g : PonyVerif.Model.CollRead.Guards := ⟨← argBool j "addChecks", ← argBool j "prefetchChecks", ← argBool j "loadSkipsFull"⟩
    let ids ← natList (← j.getObjVal? "ids")
    let steps ← (← argArr j "steps").mapM (fun st => do
      let db ← match ← st.getObjVal? "db" with
        | .arr rows => rows.toList.mapM (fun r => do
            match r with
            | .arr #[a, b] => pure ((← fromJson? a : Nat), (← fromJson? b : Nat))
            | _ => throw "link: [q, t]")
        | _ => throw "db: array"
      let o ← st.getObjVal? "op"
      let k ← argStr o "k"
      let side ← argBool o "side"
      let op ← match k with
        | "load" => pure (PonyVerif.Model.CollRead.Op.load side (← argNat o "o"))
        | "iter" => pure (PonyVerif.Model.CollRead.Op.iter side (← argNat o "o"))
        | "len" => pure (PonyVerif.Model.CollRead.Op.len side (← argNat o "o"))
        | "prefetch" => pure (PonyVerif.Model.CollRead.Op.prefetch side (← natList (← o.getObjVal? "objs")))
        | _ => throw s!"unknown m2m op {k}"
      pure (db, op))
    let snap (s : PonyVerif.Model.CollRead.Sess) : Json :=
      .arr ([false, true].flatMap (fun side => ids.filterMap (fun o => (s.sets side o).map (fun sd =>
        Json.mkObj [("side", .bool side), ("o", jNat o), ("items", .arr (sd.items.map jNat).toArray), ("full", .bool sd.full),
                    ("count", match sd.count with | none => .null | some n => jNat n)])))).toArray
    let (_, outs) := steps.foldl (fun (acc : PonyVerif.Model.CollRead.Sess × List Json) st =>
      let (s', r) := PonyVerif.Model.CollRead.exec g acc.1 st.1 st.2
      let rj := match r with
        | .ok => Json.mkObj [("ok", .bool true)]
        | .items l => Json.mkObj [("items", .arr (l.map jNat).toArray)]
        | .num n => Json.mkObj [("num", jNat n)]
        | .err _ => Json.mkObj [("err", "UnrepeatableReadError")]
      (s', Json.mkObj [("res", rj), ("snap", snap s')] :: acc.2)) (PonyVerif.Model.CollRead.Sess.init, [])
    pure (Json.mkObj [("steps", .arr outs.reverse.toArray)])
  | _ => throw s!"unknown op {op}"
end PonyVerif.Drive.C21
