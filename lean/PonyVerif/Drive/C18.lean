import PonyVerif.Drive.Util
import PonyVerif.Model.DbSession
import PonyVerif.Model.DbSessionMulti
namespace PonyVerif.Drive.C18
open Lean PonyVerif.Drive PonyVerif.Model.DbSession

/-
  request {"op":"run", "env":{"should_retry":[exc..], "commit_fail":[null|exc, ..], "tx":[exc..]},
           "state":{"counter":n, "session":null|{"sid":..,"ddl":..,"ser":..}, "pending":[..], "committed":[..]}  (optional; default clean),
           "prog": P}
  P = {"k":"skip"} | {"k":"flush"} | {"k":"commit"} | {"k":"rollback"} | {"k":"write","w":n} | {"k":"mark","n":n} | {"k":"observe"} | {"k":"raise","e":exc}
    | {"k":"seq","ps":[P..]} | {"k":"try","p":P,"catch":[exc..],"h":P}
    | {"k":"with","o":O,"p":P} | {"k":"call","o":O,"bodies":[P..]}   (execution i runs bodies[min(i, len-1)])
    | {"k":"bottle","resp":[exc..],"err":[exc..],"bodies":[P..]}   (isinstance(e, HTTPResponse) / isinstance(e, HTTPError))
    | {"k":"iter","o":O,"steps":[{"writes":[..],"commit":b,"late":[..],"fin":"yield"|"ret"|{"raise":exc},"resume":"next"|"close"|{"throw":exc},
                                 "before":null|"read"|{"write":n} (the consumer's own db_session before this resume)}..]}
    | {"k":"flask","hooked":b,"view":P}
  O = {"retry":n,"ddl":b,"ser":b,"sid":n,"allowed":T,"retryable":T,"allowed_callable":b,"retry_callable":b}, T = {"yes":[exc..],"raises":[[exc,exc]..]}  (everything else: no)
  exc = "u<n>" | constructor name
  reply {"out":"ret"|{"raise":exc}, "committed":[..], "pending":[..], "counter":n, "session":b, "ncommit":n, "trace":[n | [rows..]],
         "attempts":n (only for a top-level call/bottle)}
-/

def excName : Exc → String
  | .user n => s!"u{n}" | .retryInCM => "retryInCM" | .ddlInsideNonDdl => "ddlInsideNonDdl" | .serInsideNonSer => "serInsideNonSer"
  | .ddlDecoratedInside => "ddlDecoratedInside" | .genBadOption => "genBadOption" | .genInsideSession => "genInsideSession"
  | .genSuspendDirty => "genSuspendDirty" | .generatorExit => "generatorExit" | .noSession => "noSession"
  | .assertion => "assertion" | .unbound => "unbound"

def excOfString (s : String) : Except String Exc :=
  match s with
  | "retryInCM" => pure .retryInCM | "ddlInsideNonDdl" => pure .ddlInsideNonDdl | "serInsideNonSer" => pure .serInsideNonSer
  | "ddlDecoratedInside" => pure .ddlDecoratedInside | "genBadOption" => pure .genBadOption | "genInsideSession" => pure .genInsideSession
  | "genSuspendDirty" => pure .genSuspendDirty | "generatorExit" => pure .generatorExit | "noSession" => pure .noSession
  | "assertion" => pure .assertion | "unbound" => pure .unbound
  | _ =>
    if s.startsWith "u" then
      match (s.drop 1).toNat? with
      | some n => pure (.user n)
      | none => throw s!"bad exception {s}"
    else throw s!"bad exception {s}"

def excOfJson (j : Json) : Except String Exc := do
  match j with
  | .str s => excOfString s
  | _ => throw "exception name expected"

def excsOfJson (j : Json) : Except String (List Exc) := do
  match j with
  | .arr a => a.toList.mapM excOfJson
  | .null => pure []
  | _ => throw "list of exceptions expected"

def optField (j : Json) (k : String) : Json := (j.getObjVal? k).toOption.getD .null

def natsOfJson (j : Json) : Except String (List Nat) := do
  match j with
  | .arr a => a.toList.mapM (fun x => fromJson? x)
  | .null => pure []
  | _ => throw "list of naturals expected"

def natD (j : Json) (k : String) (d : Nat) : Except String Nat :=
  match j.getObjVal? k with
  | .ok .null => pure d
  | .ok v => fromJson? v
  | .error _ => pure d

def boolD (j : Json) (k : String) (d : Bool) : Except String Bool :=
  match j.getObjVal? k with
  | .ok .null => pure d
  | .ok v => fromJson? v
  | .error _ => pure d

def predOfJson (j : Json) : Except String (Exc → PredR) := do
  if j.isNull then return fun _ => .no
  let yes ← excsOfJson (optField j "yes")
  let rs ← match optField j "raises" with
    | .arr a => a.toList.mapM (fun p => do
        match p with
        | .arr #[a, b] => pure (← excOfJson a, ← excOfJson b)
        | _ => throw "raises: pairs expected")
    | _ => pure []
  pure fun e => match rs.lookup e with
    | some e' => .raises e'
    | none => if yes.contains e then .yes else .no

def optsOfJson (j : Json) : Except String Opts := do
  pure { retry := ← natD j "retry" 0, ddl := ← boolD j "ddl" false, serializable := ← boolD j "ser" false,
         sid := ← natD j "sid" 0, allowed := ← predOfJson (optField j "allowed"), retryable := ← predOfJson (optField j "retryable"),
         allowedCallable := ← boolD j "allowed_callable" false, retryCallable := ← boolD j "retry_callable" false }

def envOfJson (j : Json) : Except String Env := do
  if j.isNull then return {}
  let sr ← excsOfJson (optField j "should_retry")
  let tx ← excsOfJson (optField j "tx")
  let cf ← match optField j "commit_fail" with
    | .arr a => a.toList.mapM (fun x => match x with
        | .null => pure none
        | v => do pure (some (← excOfJson v)))
    | _ => pure []
  pure { shouldRetry := fun e => sr.contains e, isTx := fun e => tx.contains e, commitFail := fun n => (cf.getD n none) }

def stepOfJson (j : Json) : Except String (Seg × Resume) := do
  let fin ← match optField j "fin" with
    | .str "yield" => pure SegEnd.yield
    | .str "ret" => pure SegEnd.ret
    | v => do pure (SegEnd.raise (← excOfJson (optField v "raise")))
  let resume ← match optField j "resume" with
    | .str "next" => pure Resume.next
    | .null => pure Resume.next
    | .str "close" => pure Resume.close
    | v => do pure (Resume.throw (← excOfJson (optField v "throw")))
  let before ← match optField j "before" with
    | .str "read" => pure Between.read
    | .null => pure Between.none
    | .str "none" => pure Between.none
    | v => do pure (Between.write (← natD v "write" 0))
  pure ({ before := before, writes := ← natsOfJson (optField j "writes"), manualCommit := ← boolD j "commit" false,
          late := ← natsOfJson (optField j "late"), fin := fin }, resume)

def pick (l : List Prog) (i : Nat) : Prog :=
  match l[i]? with
  | some p => p
  | none => l.getLast?.getD .skip

partial def progOfJson (env : Env) (j : Json) : Except String Prog := do
  let k ← argStr j "k"
  match k with
  | "skip" => pure .skip
  | "flush" => pure .skip          -- `flush()` moves pending changes into the open transaction: no effect on (pending, committed)
  | "write" => pure (.write (← argNat j "w"))
  | "mark" => pure (.mark (← argNat j "n"))
  | "observe" => pure .observe
  | "commit" => pure .commit
  | "rollback" => pure .rollback
  | "raise" => pure (.raise (← excOfJson (optField j "e")))
  | "seq" =>
    let ps ← (← argArr j "ps").mapM (progOfJson env)
    pure (ps.foldr (fun p acc => .seq p acc) .skip)
  | "try" =>
    let c ← excsOfJson (optField j "catch")
    pure (.tryCatch (← progOfJson env (optField j "p")) (fun e => c.contains e) (← progOfJson env (optField j "h")))
  | "with" => pure (.withSession (← optsOfJson (optField j "o")) (← progOfJson env (optField j "p")))
  | "call" =>
    let bs ← (← argArr j "bodies").mapM (progOfJson env)
    pure (.call (← optsOfJson (optField j "o")) (pick bs))
  | "bottle" =>
    let bs ← (← argArr j "bodies").mapM (progOfJson env)
    let rs ← excsOfJson (optField j "resp")
    let er ← excsOfJson (optField j "err")
    pure (.call (bottleOpts env (fun e => rs.contains e) (fun e => er.contains e)) (pick bs))
  | "iter" =>
    let steps ← (← argArr j "steps").mapM stepOfJson
    pure (.iter (← optsOfJson (optField j "o")) steps)
  | "flask" => pure (.flask (← boolD j "hooked" true) (← progOfJson env (optField j "view")))
  | _ => throw s!"unknown program node {k}"

def stOfJson (j : Json) : Except String St := do
  if j.isNull then return {}
  let sess ← match optField j "session" with
    | .null => pure none
    | v => do pure (some (⟨← natD v "sid" 0, ← boolD v "ddl" false, ← boolD v "ser" false⟩ : Sess))
  pure { counter := ((← natD j "counter" 0 : Nat) : Int), session := sess, pending := ← natsOfJson (optField j "pending"),
         committed := ← natsOfJson (optField j "committed") }

def jNats (l : List Nat) : Json := .arr (l.map (fun n => Json.num (JsonNumber.fromNat n))).toArray

def jOut : Outcome → Json
  | .ret => .str "ret"
  | .raise e => Json.mkObj [("raise", .str (excName e))]

def jEv : Ev → Json
  | .mark n => .num (JsonNumber.fromNat n)
  | .saw rows => jNats rows

def reply (s : St) (out : Outcome) (attempts : Option Nat) : Json :=
  Json.mkObj ([("out", jOut out), ("committed", jNats s.committed), ("pending", jNats s.pending),
    ("counter", .num (JsonNumber.fromInt s.counter)), ("session", .bool s.session.isSome),
    ("ncommit", .num (JsonNumber.fromNat s.ncommit)), ("trace", .arr (s.trace.map jEv).toArray)] ++
    (match attempts with | some n => [("attempts", .num (JsonNumber.fromNat n))] | none => []))

/-
  request {"op":"multi", "caches":[{"db":n,"priority":n,"pending":[..],"committed":[..]} ..]   (in the order the session touched the databases),
           "faults":{"flush":[db..],"commit":[db..],"rollback":[db..]}, "can_commit":b}
  reply   {"order":[db..] (_get_caches: primary first), "err":null|"commitExc"|"partialCommit"|"rollbackExc"|{"flushErr":db},
           "dbs":[{"db":n,"committed":[..],"pending":[..],"alive":b} ..] (same order)}
-/
namespace Multi
open PonyVerif.Model.DbSessionMulti

def cachesOfJson (j : Json) : Except String (List Cache) := do
  let arr ← argArr j "caches"
  let cs ← arr.mapM (fun c => do
    pure ({ db := ← natD c "db" 0, priority := ((← natD c "priority" 0 : Nat) : Int),
            pending := ← natsOfJson (optField c "pending"), committed := ← natsOfJson (optField c "committed") } : Cache))
  pure (cs.zipIdx.map (fun (c, i) => { c with num := i }))

def faultsOfJson (j : Json) : Except String Faults := do
  let fl ← natsOfJson (optField j "flush")
  let cm ← natsOfJson (optField j "commit")
  let rb ← natsOfJson (optField j "rollback")
  pure { flush := fun d => fl.contains d, commit := fun d => cm.contains d, rollback := fun d => rb.contains d }

def jErr : Option Err → Json
  | none => .null
  | some (.flushErr d) => Json.mkObj [("flushErr", .num (JsonNumber.fromNat d))]
  | some .commitExc => .str "commitExc"
  | some .partialCommit => .str "partialCommit"
  | some .rollbackExc => .str "rollbackExc"
  | some (.releaseErr d) => Json.mkObj [("releaseErr", .num (JsonNumber.fromNat d))]

def handleMulti (j : Json) : Except String Json := do
  let cs ← cachesOfJson j
  let f ← faultsOfJson (optField j "faults")
  let can ← boolD j "can_commit" true
  let ordered := getCaches cs
  let r := exitSession f can ordered
  pure (Json.mkObj [("order", jNats (ordered.map (·.db))), ("err", jErr r.2),
    ("dbs", .arr (r.1.map (fun c => Json.mkObj [("db", .num (JsonNumber.fromNat c.db)), ("committed", jNats c.committed),
                                                 ("pending", jNats c.pending), ("alive", .bool c.alive)])).toArray)])
end Multi

def handle (j : Json) : Except String Json := do
  let op ← argStr j "op"
  match op with
  | "run" =>
    let env ← envOfJson (optField j "env")
    let s ← stOfJson (optField j "state")
    let p ← progOfJson env (optField j "prog")
    match p with
    | .call o f =>
      let r := decorated env o (fun i => exec env (f i)) s
      pure (reply r.st r.out (some r.log.length))
    | _ =>
      let r := exec env p s
      pure (reply r.1 r.2 none)
  | "multi" => Multi.handleMulti j
  | _ => throw s!"unknown op {op}"
end PonyVerif.Drive.C18
