import PonyVerif.Drive.Util
import PonyVerif.Model.Mapping
namespace PonyVerif.Drive.C26
open Lean PonyVerif.Drive PonyVerif.Model.Schema PonyVerif.Model.Mapping
local notation "Name" => PonyVerif.Model.Schema.Name

def jName (n : Name) : Json := .str (String.ofList n)
def jNames (l : List Name) : Json := .arr (l.map jName).toArray
def jOptName : Option Name → Json
  | none => .null
  | some n => jName n
def jSrc : Src → Json
  | .norm => "norm" | .explicit => "explicit" | .suffixed => "suffixed"
def jPk : PkKind → Json
  | .no => .bool false | .yes => .bool true | .auto => "auto"

def getDialect (j : Json) : Except String Dialect := do
  match ← argStr j "dialect" with
  | "sqlite" => pure .sqlite
  | "postgres" => pure .postgres
  | "mysql" => pure .mysql
  | "oracle" => pure .oracle
  | x => throw s!"unknown dialect {x}"

def getName (j : Json) (k : String) : Except String Name := do pure (← argStr j k).toList
def getOptName (j : Json) (k : String) : Except String (Option Name) :=
  match j.getObjVal? k with
  | .ok (.str s) => pure (some s.toList)
  | .ok .null => pure none
  | .ok _ => throw s!"{k}: string or null expected"
  | .error _ => pure none
def getNames (j : Json) (k : String) : Except String (List Name) :=
  match j.getObjVal? k with
  | .ok (.arr a) => a.toList.mapM (fun x => match x with | .str s => pure s.toList | _ => throw s!"{k}: strings expected")
  | .ok .null => pure []
  | .ok _ => throw s!"{k}: array expected"
  | .error _ => pure []
def getBoolD (j : Json) (k : String) (dflt : Bool) : Except String Bool :=
  match j.getObjVal? k with
  | .ok (.bool b) => pure b
  | .ok .null => pure dflt
  | .ok _ => throw s!"{k}: bool expected"
  | .error _ => pure dflt
def getOptBool (j : Json) (k : String) : Except String (Option Bool) :=
  match j.getObjVal? k with
  | .ok (.bool b) => pure (some b)
  | .ok .null => pure none
  | .ok _ => throw s!"{k}: bool or null expected"
  | .error _ => pure none
/-- `None` → null, `False`/`True` → bool, name → string -/
def getIdxArg (j : Json) (k : String) : Except String IdxArg :=
  match j.getObjVal? k with
  | .ok (.bool true) => pure .true
  | .ok (.bool false) => pure .false
  | .ok (.str s) => pure (.name s.toList)
  | .ok .null => pure .none
  | .ok _ => throw s!"{k}: null/bool/string expected"
  | .error _ => pure .none
def getPk (j : Json) (k : String) : Except String PkKind :=
  match j.getObjVal? k with
  | .ok (.bool true) => pure .yes
  | .ok (.bool false) => pure .no
  | .ok (.str "auto") => pure .auto
  | .ok .null => pure .no
  | .ok _ => throw s!"{k}: bool or 'auto' expected"
  | .error _ => pure .no

def jErr (e : Err) : Json := Json.mkObj [("error", .str e.cls), ("tag", .str e.tag)]

def jSchema (d : Dialect) (s : Schema) : Json :=
  let tbl (t : Table) : Json := Json.mkObj [
    ("name", jName t.name), ("src", jSrc t.src), ("m2m", .bool t.isM2m), ("entities", jNames t.entities),
    ("columns", .arr ((tableCols s t.name).map (fun c => Json.mkObj [
      ("name", jName c.name), ("src", jSrc c.src), ("notNull", .bool c.notNull), ("isPk", jPk c.isPk),
      ("isPkPart", .bool c.isPkPart), ("unique", .bool c.isUnique)])).toArray),
    ("indexes", .arr ((tableIdx s t.name).map (fun i => Json.mkObj [
      ("name", jOptName i.name), ("src", jSrc i.src), ("cols", jNames i.cols), ("isPk", jPk i.isPk),
      ("unique", .bool i.isUnique)])).toArray),
    ("fks", .arr ((tableFks s t.name).map (fun f => Json.mkObj [
      ("name", jOptName f.name), ("src", jSrc f.src), ("cols", jNames f.cols), ("parent", jName f.parent),
      ("parentCols", jNames f.parentCols)])).toArray),
    ("parents", jNames (parents s t.name))]
  let cmd : Cmd → Json
    | .table t => Json.mkObj [("k", "table"), ("t", jName t)]
    | .index t n => Json.mkObj [("k", "index"), ("t", jName t), ("n", jName n)]
    | .fk t n => Json.mkObj [("k", "fk"), ("t", jName t), ("n", jName n)]
  Json.mkObj [("tables", .arr (s.tables.map tbl).toArray), ("names", jNames s.names),
              ("order", jNames (orderTablesToCreate s)), ("script", .arr ((createScript d s).map cmd).toArray)]

def getOp (j : Json) : Except String Op := do
  match ← argStr j "k" with
  | "table" =>
      let e ← getOptName j "entity"
      let r ← getOptName j "root"
      pure (.addTable (← getName j "name") (match e, r with | some e, some r => some (e, r) | _, _ => none))
  | "m2mtable" => pure (.addM2mTable (← getName j "name"))
  | "entity" => pure (.addEntity (← getName j "table") (← getName j "entity") (← getName j "root"))
  | "column" => pure (.addColumn (← getName j "table") (← getName j "name") (← getBoolD j "notNull" false))
  | "index" => pure (.addIndex (← getName j "table") (← getIdxArg j "name") (← getNames j "cols") (← getPk j "isPk")
                       (← getOptBool j "unique") (← getBoolD j "m2m" false))
  | "fk" => pure (.addFk (← getName j "table") (← getOptName j "name") (← getNames j "cols") (← getName j "parent")
                    (← getNames j "parentCols") (← getIdxArg j "index"))
  | x => throw s!"unknown schema op {x}"

def getAttr (j : Json) : Except String Attr := do
  let kind ← match ← argStr j "kind" with
    | "required" => pure AKind.required
    | "optional" => pure AKind.optional
    | "pk" => pure AKind.pk
    | "discriminator" => pure AKind.discriminator
    | "set" => pure AKind.set
    | x => throw s!"unknown attribute kind {x}"
  pure { name := ← getName j "name", kind := kind, target := ← getOptName j "target", reverse := ← getOptName j "reverse",
         isString := ← getBoolD j "isString" false, auto := ← getBoolD j "auto" false, unique := ← getOptBool j "unique",
         nullable := ← getOptBool j "nullable", columns := ← getNames j "columns", reverseColumns := ← getNames j "reverseColumns",
         table := ← getOptName j "table", index := ← getIdxArg j "index", reverseIndex := ← getIdxArg j "reverseIndex",
         fkName := ← getOptName j "fkName", reverseFkName := ← getOptName j "reverseFkName" }

def getPair (j : Json) : Except String (Name × Name) :=
  match j with
  | .arr #[.str a, .str b] => pure (a.toList, b.toList)
  | _ => throw "pair of strings expected"

def getEntity (j : Json) : Except String Entity := do
  let attrs ← (← argArr j "attrs").mapM getAttr
  let idx ← (← argArr j "indexes").mapM (fun x => do
    let ats ← (← argArr x "attrs").mapM getPair
    pure ({ attrs := ats, isPk := ← getBoolD x "isPk" false, isUnique := ← getBoolD x "unique" false } : IndexDecl))
  pure { name := ← getName j "name", root := ← getName j "root", table := ← getOptName j "table", attrs := attrs,
         pkAttrs := ← getNames j "pkAttrs", indexes := idx }

def jAttrState {d} (D : Decls) (st : St d) : Json :=
  .arr (D.flatMap (fun e => e.attrs.map (fun a => Json.mkObj [
    ("entity", jName e.name), ("attr", jName a.name),
    ("columns", jNames (names (curCols st e.name a))),
    ("reverseColumns", jNames (names (curRCols st e.name a))),
    ("table", jOptName ((curTable st e.name a).map (·.n)))]))).toArray

def handle (j : Json) : Except String Json := do
  let op ← argStr j "op"
  match op with
  | "names" =>
      let d ← getDialect j
      let n ← getName j "name"
      let cols ← getNames j "cols"
      let other ← getName j "other"
      pure (Json.mkObj [
        ("normalize", jName (normalizeName d n)),
        ("entity_table", jName (defaultEntityTableName d n)),
        ("m2m_table", jName (defaultM2mTableName d n other other false)),
        ("m2m_table_sym", jName (defaultM2mTableName d n other other true)),
        ("column", jNames (defaultColumnNames d n none)),
        ("column_rel", jNames (defaultColumnNames d n (some cols))),
        ("m2m_columns", jNames (defaultM2mColumnNames d n cols)),
        ("index", jName (defaultIndexName d n cols false false false)),
        ("index_unique", jName (defaultIndexName d n cols false true false)),
        ("index_m2m", jName (defaultIndexName d n cols false false true)),
        ("index_pk", jName (defaultIndexName d n cols true false false)),
        ("fk", jName (defaultFkName d n cols))])
  | "ops" =>
      let d ← getDialect j
      let ops ← (← argArr j "ops").mapM getOp
      match runOps d {} ops with
      | .ok s => pure (Json.mkObj [("ok", jSchema d s)])
      | .error e => pure (jErr e)
  | "generate" =>
      let d ← getDialect j
      let D ← (← argArr j "decls").mapM getEntity
      match generateSt d D with
      | .ok st => pure (Json.mkObj [("ok", jSchema d st.schema.1), ("attrs", jAttrState D st),
          ("placed", .arr (st.placed.reverse.map (fun p => Json.mkObj [("table", jName p.table), ("entity", jName p.ent),
              ("attr", jName p.attr), ("cols", jNames p.cols), ("notNull", .bool p.notNull)])).toArray),
          ("indexed", .arr (st.indexed.reverse.map (fun p => Json.mkObj [("table", jName p.table), ("entity", jName p.ent),
              ("cols", jNames p.cols), ("isPk", jPk p.isPk), ("unique", .bool p.unique)])).toArray),
          ("linked", .arr (st.linked.reverse.map (fun p => Json.mkObj [("entity", jName p.ent), ("attr", jName p.attr),
              ("child", jName p.child), ("cols", jNames p.cols), ("parent", jName p.parent),
              ("parentCols", jNames p.parentCols)])).toArray)])
      | .error e => pure (jErr e)
  | _ => throw s!"unknown op {op}"
end PonyVerif.Drive.C26
