/-
  Line-protocol entry for the C28 model (trusted JSON glue).
  Value encoding: atoms are JSON atoms; a container is {"k": kind, "w": bool, "items": [[key, child], …]}.
-/
import PonyVerif.Drive.Util
import PonyVerif.Model.Tracked
import PonyVerif.Gen.TrackedTable
namespace PonyVerif.Drive.C28
open Lean PonyVerif.Drive PonyVerif.Model.Tracked

def kindOfStr : String → Except String Kind
  | "list" => pure .list | "dict" => pure .dict | "tup" => pure .tup | "iarr" => pure .iarr | "sarr" => pure .sarr
  | "flist" => pure .flist | "fdict" => pure .fdict
  | s => throw s!"kind {s}"
def strOfKind : Kind → String
  | .list => "list" | .dict => "dict" | .tup => "tup" | .iarr => "iarr" | .sarr => "sarr" | .flist => "flist" | .fdict => "fdict"

partial def tOfJson : Json → Except String T
  | .null => pure (.atom .null)
  | .bool b => pure (.atom (.bool b))
  | .num n => if n.exponent == 0 then pure (.atom (.num n.mantissa)) else throw s!"non-integer number {n}"
  | .str s => pure (.atom (.str s))
  | .arr _ => throw "bare array"
  | .obj o => do
      let j := Json.obj o
      let k ← kindOfStr (← j.getObjValAs? String "k")
      let w ← j.getObjValAs? Bool "w"
      let items ← argArr j "items"
      let xs ← items.mapM fun it => match it with
        | .arr #[.str key, c] => do pure (key, ← tOfJson c)
        | _ => throw "item must be [key, child]"
      pure (.node k w xs)

partial def jsonOfT : T → Json
  | .atom .null => .null
  | .atom (.bool b) => .bool b
  | .atom (.num n) => .num (JsonNumber.fromInt n)
  | .atom (.str s) => .str s
  | .node k w xs => Json.mkObj [("k", .str (strOfKind k)), ("w", .bool w),
      ("items", .arr (xs.map fun p => Json.arr #[.str p.1, jsonOfT p.2]).toArray)]

def iterKind : String → Except String IterKind
  | "list" => pure .list | "tuple" => pure .tuple | "gen" => pure .gen | "dict" => pure .dict | "kw" => pure .kw
  | s => throw s!"iter kind {s}"

def argT (j : Json) (k : String) : Except String T := do tOfJson (← j.getObjVal? k)
def argTs (j : Json) (k : String) : Except String (List T) := do (← argArr j k).mapM tOfJson
def argPairs (j : Json) (k : String) : Except String Items := do
  (← argArr j k).mapM fun it => match it with
    | .arr #[.str key, c] => do pure (key, ← tOfJson c)
    | _ => throw "pair must be [key, value]"
def argKind (j : Json) : Except String IterKind := do iterKind (← argStr j "k")

def lmutOfJson (j : Json) : Except String LMut := do
  match ← argStr j "n" with
  | "setitem" => pure (.setitem (← argInt j "i") (← argT j "v"))
  | "setslice" => pure (.setslice (← argOptInt j "a") (← argOptInt j "b") (← argKind j) (← argTs j "vs"))
  | "setsliceStep" => pure (.setsliceStep (← argOptInt j "a") (← argOptInt j "b") (← argInt j "s") (← argKind j) (← argTs j "vs"))
  | "delsliceStep" => pure (.delsliceStep (← argOptInt j "a") (← argOptInt j "b") (← argInt j "s"))
  | "delitem" => pure (.delitem (← argInt j "i"))
  | "delslice" => pure (.delslice (← argOptInt j "a") (← argOptInt j "b"))
  | "append" => pure (.append (← argT j "v"))
  | "extend" => pure (.extend (← argKind j) (← argTs j "vs"))
  | "insert" => pure (.insert (← argInt j "i") (← argT j "v"))
  | "pop" => pure (.pop (← argOptInt j "i"))
  | "remove" => pure (.remove (← argT j "v"))
  | "reverse" => pure .reverse
  | "sort" => pure (.sort (← j.getObjValAs? (List Nat) "perm"))
  | "sortFail" => pure .sortFail
  | "sortRaise" => pure (.sortRaise (← j.getObjValAs? (List Nat) "perm"))
  | "clear" => pure .clear
  | "iadd" => pure (.iadd (← argKind j) (← argTs j "vs"))
  | "imul" => pure (.imul (← argInt j "c"))
  | s => throw s!"list mutator {s}"

def dmutOfJson (j : Json) : Except String DMut := do
  match ← argStr j "n" with
  | "setitem" => pure (.setitem (← argStr j "key") (← argT j "v"))
  | "delitem" => pure (.delitem (← argStr j "key"))
  | "update" => pure (.update (← argKind j) (← argPairs j "ps") (← argPairs j "kw"))
  | "setdefault" => pure (.setdefault (← argStr j "key") (← argT j "v"))
  | "pop" => pure (.pop (← argStr j "key") (← argBool j "d"))
  | "popitem" => pure .popitem
  | "clear" => pure .clear
  | "ior" => pure (.ior (← argKind j) (← argPairs j "ps"))
  | s => throw s!"dict mutator {s}"

def pathOfJson (j : Json) : Except String (List Step) := do
  (← argArr j "p").mapM fun s => match s with
    | .str k => pure (Step.key k)
    | .num n => if n.exponent == 0 then pure (Step.idx n.mantissa) else throw "path index"
    | _ => throw "path step"

def opOfJson (j : Json) : Except String Op := do
  match ← argStr j "t" with
  | "lmut" => pure (.lmut (← pathOfJson j) (← lmutOfJson (← j.getObjVal? "m")))
  | "dmut" => pure (.dmut (← pathOfJson j) (← dmutOfJson (← j.getObjVal? "m")))
  | "read" => pure (.read (← pathOfJson j))
  | "touch" => pure .touch
  | "endSession" => pure .endSession
  | "commit" => pure .commit
  | "rollback" => pure .rollback
  | "delete" => pure .delete
  | "other" => pure .other
  | "assign" => pure (.assign (← argT j "v"))
  | "flush" => pure .flush
  | "reload" => pure (.reload (← argT j "v"))
  | "refresh" => pure (.refresh (← argT j "v"))
  | s => throw s!"op {s}"

def strOfErr : Err → String
  | .index => "IndexError" | .key => "KeyError" | .value => "ValueError" | .type => "TypeError" | .nav => "nav"
  | .session => "DatabaseSessionIsOver" | .deleted => "OperationWithDeletedObjectError"

def jsonOfSt (s : St) (e : Option Err) : Json :=
  Json.mkObj [("err", match e with | none => .null | some e => .str (strOfErr e)),
              ("dirty", .bool s.dirty), ("doc", jsonOfT s.doc), ("db", jsonOfT s.db), ("committed", jsonOfT s.committed), ("allW", .bool (allW s.doc)),
              ("status", .str (match s.status with
                | .created => "created" | .loaded => "loaded" | .inserted => "inserted" | .updated => "updated" | .modified => "modified"
                | .deleted => "deleted" | .over => "over"))]

def runTrace (cfg : Cfg) : List Op → St → List Json
  | [], _ => []
  | op :: ops, s =>
      let r := step cfg s op
      jsonOfSt r.1 r.2 :: runTrace cfg ops r.1

def imName : IM → String
  | .extend => "extend" | .iadd => "iadd" | .setslice => "setslice" | .update => "update" | .ior => "ior"
def ikName : IterKind → String
  | .list => "list" | .tuple => "tuple" | .gen => "gen" | .dict => "dict" | .kw => "kw"

def jStrs (l : List String) : Json := .arr (l.map Json.str).toArray
def jPairs (l : List (String × String)) : Json := .arr (l.map fun p => Json.arr #[.str p.1, .str p.2]).toArray

def tables : Json :=
  let t := PonyVerif.Gen.TrackedTable.table
  Json.mkObj [
    ("listDir", jPairs listDir), ("dictDir", jPairs dictDir),
    ("listMutators", jStrs (LM.all.map LM.pyName)), ("dictMutators", jStrs (DM.all.map DM.pyName)),
    ("listOv", jStrs (t.listOv.map LM.pyName)), ("dictOv", jStrs (t.dictOv.map DM.pyName)), ("arrOv", jStrs (t.arrOv.map LM.pyName)),
    ("tupleMode", .str (match t.tupleMode with | .leave => "leave" | .items => "items" | .list => "list")), ("notifyOnError", .bool t.notifyOnError), ("refusesFirst", .bool t.refusesFirst), ("rebinds", .bool t.rebinds), ("assignRebinds", .bool t.assignRebinds),
    ("iterUnwrapped", jPairs (t.iterUnwrapped.map fun p => (imName p.1, ikName p.2))),
    ("listNotify", jStrs (PonyVerif.Gen.TrackedTable.listNotify.map LM.pyName)),
    ("dictNotify", jStrs (PonyVerif.Gen.TrackedTable.dictNotify.map DM.pyName)),
    ("arrNotify", jStrs (PonyVerif.Gen.TrackedTable.arrNotify.map LM.pyName)),
    ("covers", .bool t.covers), ("wrapsAll", .bool t.wrapsAll)]

def handle (j : Json) : Except String Json := do
  match ← argStr j "op" with
  | "tables" => pure tables
  | "run" =>
      let dbv ← argT j "db"
      let ops ← (← argArr j "ops").mapM opOfJson
      let cfg := PonyVerif.Gen.TrackedTable.table
      let vol := (j.getObjValAs? Bool "volatile").toOption.getD false
      let created := (j.getObjValAs? Bool "created").toOption.getD false
      let s0 := if created then St.create cfg dbv vol else St.load cfg dbv vol
      pure (Json.mkObj [("init", jsonOfSt s0 none), ("states", .arr (runTrace cfg ops s0).toArray),
                        ("argsW", .arr (ops.map fun o => Json.bool (o.argsW cfg)).toArray)])
  | s => throw s!"unknown op {s}"
end PonyVerif.Drive.C28
