import PonyVerif.Drive.Util
import PonyVerif.Model.Validate
import PonyVerif.Gen.IntBounds
namespace PonyVerif.Drive.C08
open Lean PonyVerif.Drive PonyVerif.Model.Validate

def numOfJson (j : Json) : Except String Num :=
  match j with
  | .str "inf" => pure .pinf
  | .str "-inf" => pure .ninf
  | .str "nan" => pure .nan
  | _ => do
    let n ← j.getObjValAs? Int "n"
    let d ← j.getObjValAs? Nat "d"
    pure (.fin n d)

def jsonOfNum : Num → Json
  | .pinf => "inf"
  | .ninf => "-inf"
  | .nan => "nan"
  | .fin n d => Json.mkObj [("n", .num (JsonNumber.fromInt n)), ("d", .num (JsonNumber.fromNat d))]

def valOfJson (j : Json) : Except String Val :=
  match j with
  | .null => pure .none
  | _ => do
    let t ← j.getObjValAs? String "t"
    match t with
    | "default" => pure .dflt
    | "bool" => pure (.bool (← j.getObjValAs? Bool "v"))
    | "int" => pure (.int (← j.getObjValAs? Int "v"))
    | "str" => pure (.str (← j.getObjValAs? String "v").toList)
    | "flt" => pure (.flt (← numOfJson (← j.getObjVal? "v")))
    | "dec" => pure (.dec (← numOfJson (← j.getObjVal? "v")))
    | "other" => pure (.other (← j.getObjValAs? String "v"))
    | _ => throw s!"bad value tag {t}"

def cpJson (s : List Char) : Json := .arr (s.map (fun c => Json.num (JsonNumber.fromNat c.toNat))).toArray

def jsonOfVal : Val → Json
  | .none => .null
  | .dflt => Json.mkObj [("t", "default")]
  | .bool b => Json.mkObj [("t", "bool"), ("v", .bool b)]
  | .int i => Json.mkObj [("t", "int"), ("v", .num (JsonNumber.fromInt i))]
  | .str s => Json.mkObj [("t", "str"), ("cp", cpJson s)]   -- code points: raw U+2028 etc. would break the line protocol
  | .flt x => Json.mkObj [("t", "flt"), ("v", jsonOfNum x)]
  | .dec x => Json.mkObj [("t", "dec"), ("v", jsonOfNum x)]
  | .other s => Json.mkObj [("t", "other"), ("v", .str s)]

def jsonOfRes : Res → Json
  | .ok v => Json.mkObj [("ok", jsonOfVal v)]
  | .error e => Json.mkObj [("error", .str e)]

def optOf (j : Json) (k : String) (f : Json → Except String α) : Except String (Option α) :=
  match j.getObjVal? k with
  | .ok .null => pure none
  | .ok v => do pure (some (← f v))
  | .error _ => pure none

def intOptsOf (j : Json) : Except String IntOpts := do
  let size ← argOptInt j "size"
  let uns ← optOf j "unsigned" (fun v => fromJson? v)
  let mn ← argOptInt j "min"
  let mx ← argOptInt j "max"
  pure { size := size, unsigned := uns, min := mn, max := mx }

def jsonOfOptBool : Option Bool → Json
  | none => .null
  | some b => .bool b

/-- the converter of a type declaration, or the class of the exception its `init` raises -/
def convOf (ty : Json) (parse : Option Int) (cv : Except String Num) : Except String (Except String (Val → Res)) := do
  let k ← ty.getObjValAs? String "k"
  match k with
  | "int" =>
    let o ← intOptsOf ty
    let u64 ← ty.getObjValAs? Bool "uint64"
    match intInit u64 o with
    | .error e => pure (.error e)
    | .ok c => pure (.ok (intValidate (fun _ => parse) c))
  | "float" =>
    let mn ← optOf ty "min" numOfJson
    let mx ← optOf ty "max" numOfJson
    pure (.ok (realValidate (fun _ => cv) { minVal := mn, maxVal := mx }))
  | "dec" =>
    let mn ← optOf ty "min" numOfJson
    let mx ← optOf ty "max" numOfJson
    pure (.ok (decValidate (fun _ => cv) { minVal := mn, maxVal := mx }))
  | "str" =>
    let long ← ty.getObjValAs? Bool "long"
    let pl ← argOptInt ty "max_len_pos"
    let ml ← argOptInt ty "max_len"
    let dl ← argOptInt ty "dflt_len"
    let st ← ty.getObjValAs? Bool "autostrip"
    match strInit long pl ml dl st with
    | .error e => pure (.error e)
    | .ok c => pure (.ok (strValidate c))
  | _ => throw s!"bad type kind {k}"

def tvalOfJson (j : Json) : Except String TVal :=
  match j with
  | .null => pure .none
  | _ => do
    let t ← j.getObjValAs? String "t"
    match t with
    | "str" => pure (.str (← j.getObjValAs? String "v").toList)
    | "other" => pure (.other (← j.getObjValAs? String "v"))
    | "int" => pure (.other "int")
    | "bool" => pure (.other "bool")
    | "flt" => pure (.other "float")
    | "dec" => pure (.other "Decimal")
    | _ =>
      let a : List Nat ← (do
        match ← j.getObjVal? "v" with
        | .arr a => a.toList.mapM (fun x => fromJson? x)
        | _ => throw "array expected")
      match t, a with
      | "date", [y, m, d] => pure (.date y m d)
      | "time", [h, mi, s, us] => pure (.time h mi s us)
      | "datetime", [y, m, d, h, mi, s, us] => pure (.datetime y m d h mi s us)
      | _, _ => throw s!"bad temporal value {t}"

def jN (n : Nat) : Json := .num (JsonNumber.fromNat n)
def jsonOfTVal : TVal → Json
  | .none => .null
  | .date y m d => Json.mkObj [("t", "date"), ("v", .arr #[jN y, jN m, jN d])]
  | .time h mi s us => Json.mkObj [("t", "time"), ("v", .arr #[jN h, jN mi, jN s, jN us])]
  | .datetime y m d h mi s us => Json.mkObj [("t", "datetime"), ("v", .arr #[jN y, jN m, jN d, jN h, jN mi, jN s, jN us])]
  | .str s => Json.mkObj [("t", "str"), ("cp", cpJson s)]
  | .other s => Json.mkObj [("t", "other"), ("v", .str s)]

def jsonOfTRes : TRes → Json
  | .ok v => Json.mkObj [("ok", jsonOfTVal v)]
  | .error e => Json.mkObj [("error", .str e)]

def handle (j : Json) : Except String Json := do
  let op ← argStr j "op"
  match op with
  | "int_init" =>
    let o ← intOptsOf j
    let u64 ← argBool j "uint64"
    match intInit u64 o with
    | .error e => pure (Json.mkObj [("error", .str e)])
    | .ok c => pure (Json.mkObj [("ok", Json.mkObj [("min", jOptInt c.minVal), ("max", jOptInt c.maxVal),
                                                     ("size", jOptInt c.size), ("unsigned", jsonOfOptBool c.unsigned)])])
  | "gen_int_init" =>
    -- the code regenerated from IntConverter.init (tail) on the option values as Python values
    pure (jsonOfPyM (PonyVerif.Gen.intInitTail (← argPy j "size") (← argPy j "unsigned") (← argPy j "min") (← argPy j "max")))
  | "gen_int_validate" =>
    pure (jsonOfPyM (PonyVerif.Gen.intValidateTail (← argPy j "val") (← argPy j "min_val") (← argPy j "max_val")))
  | "tinit" =>
    match precisionInit (← argInt j "precision") with
    | .ok _ => pure (Json.mkObj [("ok", .null)])
    | .error e => pure (Json.mkObj [("init_error", .str e)])
  | "tvalidate" =>
    let k ← argStr j "kind"
    let p ← argNat j "precision"
    let v ← tvalOfJson (← j.getObjVal? "value")
    -- result of the real str2date / str2time / str2datetime on the candidate when it is a str
    let parsed : TRes ← (match j.getObjVal? "parse" with
      | .ok c => (match c.getObjValAs? String "error" with
        | .ok e => pure (.error e)
        | .error _ => do pure (.ok (← tvalOfJson (← c.getObjVal? "ok"))))
      | .error _ => pure (.error "ValueError"))
    match k with
    | "date" => pure (jsonOfTRes (dateValidate (fun _ => parsed) v))
    | "time" => pure (jsonOfTRes (timeValidateC p (fun _ => parsed) v))
    | "datetime" => pure (jsonOfTRes (datetimeValidateC p (fun _ => parsed) v))
    | _ => throw s!"tvalidate: bad kind {k}"
  | "strip" =>
    let s ← argStr j "s"
    pure (Json.mkObj [("ok", cpJson (strip s.toList))])
  | "validate" =>
    let ty ← j.getObjVal? "type"
    let aj ← j.getObjVal? "attr"
    let parse ← argOptInt j "parse"
    let cv : Except String Num ← (match j.getObjVal? "conv" with
      | .ok c => (match c.getObjValAs? String "error" with
        | .ok e => pure (.error e)
        | .error _ => do
          let n ← numOfJson (← c.getObjVal? "ok")
          pure (.ok n))
      | .error _ => pure (.error "TypeError"))
    let check ← (match j.getObjValAs? Bool "check" with | .ok b => pure b | .error _ => pure true)
    let dflt ← optOf aj "default" valOfJson
    let a : AttrOpts := { required := ← aj.getObjValAs? Bool "required", nullable := ← aj.getObjValAs? Bool "nullable",
                          noneOk := ← aj.getObjValAs? Bool "none_ok", default := dflt, hasCheck := ← aj.getObjValAs? Bool "has_check" }
    let v ← valOfJson (← j.getObjVal? "value")
    let entry ← argStr j "entry"
    match ← convOf ty parse cv with
    | .error e => pure (Json.mkObj [("init_error", .str e)])
    | .ok conv =>
      let chk : Val → Bool := fun _ => check
      match entry with
      | "create" => pure (jsonOfRes (create a conv chk (match v with | .dflt => none | w => some w)))
      | "assign" => pure (jsonOfRes (assign a conv chk .none v))
      | "set" => pure (jsonOfRes (setKw a conv chk .none v))
      | "lookup" => pure (jsonOfRes (lookupKey a conv chk v))
      | "assign_pk" =>
        let old ← valOfJson (← j.getObjVal? "old")
        pure (jsonOfRes (assignPk a conv chk old v))
      | "load" =>
        let k ← ty.getObjValAs? String "k"
        match k with
        | "int" => pure (jsonOfRes (validateDb a (intSql2py (fun _ => parse)) v))
        | "str" => pure (jsonOfRes (validateDb a strSql2py v))
        | _ => throw "load: int or str"
      | _ => throw s!"bad entry {entry}"
  | _ => throw s!"unknown op {op}"
end PonyVerif.Drive.C08
