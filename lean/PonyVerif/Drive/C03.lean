/-
  Driver entry for C03: JSON (bytecode, AST) → `check`, plus the normalised decision tree of the bytecode (walked by the harness
  to compare the model's `run` with the real interpreter).  Glue only — the model is `Model/Bytecode.lean`.
-/
import PonyVerif.Drive.Util
import PonyVerif.Model.Bytecode
namespace PonyVerif.Drive.C03
open Lean PonyVerif.Drive PonyVerif.Bytecode

def asArr (j : Json) : Except String (List Json) :=
  match j with
  | .arr a => pure a.toList
  | _ => throw s!"array expected: {j.compress}"
def asNat (j : Json) : Except String Nat := fromJson? j
def asBool (j : Json) : Except String Bool := fromJson? j
def asStr (j : Json) : Except String String := fromJson? j

def cmpOfJson (l : List Json) : Except String CmpOp := do
  match l with
  | [k, v] =>
    match ← asStr k with
    | "named" => pure (.named (← asStr v))
    | "isin" => pure (.isin (← asBool v))
    | "is" => pure (.is (← asBool v))
    | s => throw s!"cmp kind {s}"
  | _ => throw "cmp: [kind, arg]"

def instrOfJson (j : Json) : Except String Instr := do
  match ← asArr j with
  | [] => throw "empty instruction"
  | k :: args =>
    match ← asStr k, args with
    | "load", [a] => pure (.load (← asNat a))
    | "loadBool", [b] => pure (.loadBool (← asBool b))
    | "loadNone", [] => pure .loadNone
    | "loadLit", [n, t] => pure (.loadLit (← asNat n) (← asBool t))
    | "copy", [n] => pure (.copy (← asNat n))
    | "swap", [n] => pure (.swap (← asNat n))
    | "popTop", [] => pure .popTop
    | "unaryNot", [] => pure .unaryNot
    | "op", [f, n] => pure (.op (← asStr f) (← asNat n))
    | "cmp", [a, b] => pure (.cmp (← cmpOfJson [a, b]))
    | "jumpIf", [b, t] => pure (.jumpIf (← asBool b) (← asNat t))
    | "jumpIfNone", [b, t] => pure (.jumpIfNone (← asBool b) (← asNat t))
    | "jump", [t] => pure (.jump (← asNat t))
    | "jumpBack", [t] => pure (.jumpBack (← asNat t))
    | "nop", [] => pure .nop
    | "forIter", [] => pure .forIter
    | "unpack", [n] => pure (.unpack (← asNat n))
    | "store", [a] => pure (.store (← asNat a))
    | "yield", [] => pure .yieldValue
    | "return", [] => pure .returnValue
    | "unsupported", _ => pure .unsupported
    | s, _ => throw s!"unknown instruction {s}"

mutual
partial def exprOfJson (j : Json) : Except String Expr := do
  match ← asArr j with
  | [] => throw "empty expr"
  | k :: args =>
    match ← asStr k, args with
    | "atom", [n] => pure (.atom (← asNat n))
    | "bool", [b] => pure (.bool (← asBool b))
    | "none", [] => pure .none
    | "lit", [n, t] => pure (.lit (← asNat n) (← asBool t))
    | "not", [e] => pure (.not (← exprOfJson e))
    | "boolop", [o, vs] =>
      match ← asArr vs with
      | v :: rest => pure (.boolop (← asBool o) (← exprOfJson v) (← argsOfJson rest))
      | [] => throw "boolop without values"
    | "ife", [c, t, f] => pure (.ife (← exprOfJson c) (← exprOfJson t) (← exprOfJson f))
    | "cmp", [a, r] => pure (.cmp (← exprOfJson a) (← restOfJson (← asArr r)))
    | "app", [f, a] => pure (.app (← asStr f) (← argsOfJson (← asArr a)))
    | s, _ => throw s!"unknown expr {s}"
partial def argsOfJson (l : List Json) : Except String Args := do
  match l with
  | [] => pure .nil
  | e :: r => pure (.cons (← exprOfJson e) (← argsOfJson r))
partial def restOfJson (l : List Json) : Except String CmpRest := do
  match l with
  | [] => throw "empty comparison chain"
  | [x] =>
    match ← asArr x with
    | [k, v, e] => pure (.last (← cmpOfJson [k, v]) (← exprOfJson e))
    | _ => throw "chain link: [kind, arg, expr]"
  | x :: r =>
    match ← asArr x with
    | [k, v, e] => pure (.more (← cmpOfJson [k, v]) (← exprOfJson e) (← restOfJson r))
    | _ => throw "chain link: [kind, arg, expr]"
end

def clauseOfJson (j : Json) : Except String Clause := do
  match ← asArr j with
  | [t, it, ifs] =>
    pure { targets := ← (← asArr t).mapM asNat, iter := ← exprOfJson it, ifs := ← (← asArr ifs).mapM exprOfJson }
  | _ => throw "clause: [targets, iter, ifs]"

def topOfJson (j : Json) : Except String Top := do
  match ← asArr j with
  | [k, b] => if (← asStr k) == "lam" then pure (.lam (← exprOfJson b)) else throw "top"
  | [k, e, cl] => if (← asStr k) == "gen" then pure (.gen (← exprOfJson e) (← (← asArr cl).mapM clauseOfJson)) else throw "top"
  | _ => throw "top: [lam, body] | [gen, elt, clauses]"

partial def jsonOfTerm : Bytecode.Term → Json
  | .atom n => Json.arr #["atom", toJson n]
  | .bool b => .bool b
  | .none => .null
  | .lit n t => Json.arr #["lit", toJson n, .bool t]
  | .app f a => Json.arr #["app", .str f, .arr (a.map jsonOfTerm).toArray]

def jsonOfQ : Q → Json
  | .truth t => Json.arr #["truth", jsonOfTerm t]
  | .isq t u => Json.arr #["is", jsonOfTerm t, jsonOfTerm u]

def jsonOfOutcome : Outcome Bytecode.Term → Json
  | .ret v => Json.arr #["ret", jsonOfTerm v]
  | .pass l y d => Json.arr #["pass", .arr (l.map fun p => Json.arr #[jsonOfTerm p.1, toJson p.2]).toArray,
      (match y with | none => Json.arr #[] | some t => Json.arr #[jsonOfTerm t]), toJson d]
  | .stuck => Json.arr #["stuck"]

partial def jsonOfTree : Tree (Outcome Bytecode.Term) → Json
  | .leaf o => Json.mkObj [("o", jsonOfOutcome o)]
  | .test q y n => Json.mkObj [("q", jsonOfQ q), ("y", jsonOfTree y), ("n", jsonOfTree n)]

def handle (j : Json) : Except String Json := do
  let op ← argStr j "op"
  match op with
  | "check" =>
      let code ← (← argArr j "code").mapM instrOfJson
      let ct := codeTree code
      let stuck := !(ct.all fun o => !o.isStuck)
      let base0 := [("code_tree", jsonOfTree ct), ("code_stuck", Json.bool stuck), ("code_tree_size", toJson ct.size)]
      -- self-check of the two models on CPython's own compilation: the AST of the SOURCE text against the bytecode
      let base ← match j.getObjVal? "src_ast" with
        | .ok sj =>
          if sj.isNull then pure base0 else do
            let a ← topOfJson sj
            let r := check code a
            pure (base0 ++ [("check_source", Json.bool r)] ++ (if r then [] else [("src_tree", jsonOfTree (astTree a))]))
        | .error _ => pure base0
      match j.getObjVal? "ast" with
      | .ok aj =>
        if aj.isNull then pure (Json.mkObj base) else
        let a ← topOfJson aj
        let r := check code a
        let extra := if (j.getObjValAs? Bool "want_ast_tree").toOption == some true then [("ast_tree", jsonOfTree (astTree a))] else []
        pure (Json.mkObj (base ++ [("check", Json.bool r)] ++ extra))
      | .error _ => pure (Json.mkObj base)
  | "ast_tree" =>
      let a ← topOfJson (← j.getObjVal? "ast")
      pure (Json.mkObj [("ast_tree", jsonOfTree (astTree a))])
  | _ => throw s!"unknown op {op}"
end PonyVerif.Drive.C03
