import PonyVerif.Drive.Util
import PonyVerif.Model.Occ
/-
  line-protocol entry for the C20 model: one request = entity declaration, initial rows, one program of operations per
  thread and the list of thread picks; the reply lists, per pick, the outcome and the acting session's cache afterwards,
  and the final committed rows.
-/
namespace PonyVerif.Drive.C20
open Lean PonyVerif.Drive PonyVerif.Model.Occ

def natList (j : Json) (k : String) : Except String (List Nat) := do
  (← argArr j k).mapM (fun x => fromJson? x)

def parseAction (j : Json) : Except String Action := do
  let k ← argStr j "k"
  match k with
  | "get" => pure (.get (← argNat j "o") (← argBool j "fu"))
  | "fetch" => pure (.fetch (← argNat j "o") (← natList j "as"))
  | "read" => pure (.read (← argNat j "o") (← argNat j "a"))
  | "find" => pure (.find (← argNat j "o") (← argNat j "a") (← argInt j "v"))
  | "select" => pure (.select (← argNat j "a") (← argInt j "v") (← argBool j "fu"))
  | "write" => pure (.write (← argNat j "o") (← argNat j "a") (← argInt j "v"))
  | "flush" => pure .flush
  | "commit" => pure .commit
  | "close" => pure .close
  | "rollback" => pure .rollback
  | _ => throw s!"unknown action {k}"

def jNat (n : Nat) : Json := .num (JsonNumber.fromNat n)
def jInt (n : Int) : Json := .num (JsonNumber.fromInt n)
def jNats (l : List Nat) : Json := .arr (l.map jNat).toArray

def resJson : Res → List (String × Json)
  | .ok none => [("res", "ok"), ("v", .null)]
  | .ok (some v) => [("res", "ok"), ("v", jInt v)]
  | .flushing => [("res", "flushing")]
  | .blocked => [("res", "blocked")]
  | .notLoaded => [("res", "notLoaded")]
  | .optimisticCheckError => [("res", "OptimisticCheckError")]
  | .unrepeatableRead => [("res", "UnrepeatableReadError")]
  | .keyError => [("res", "KeyError")]

def statusJson : Status → Json
  | .loaded => "loaded" | .modified => "modified" | .updated => "updated"

def optPairs (attrs : List Attr) (f : Attr → Option Val) : Json :=
  .arr (attrs.filterMap (fun a => (f a).map (fun v => Json.arr #[jNat a, jInt v]))).toArray

def snapJson (attrs : List Attr) (objs : List Obj) (ss : Sess) : Json :=
  Json.mkObj [
    ("alive", .bool ss.alive), ("inTxn", .bool ss.inTxn), ("immediate", .bool ss.immediate),
    ("toSave", jNats ss.toSave), ("qcache", jNat ss.qcache.length), ("forUpd", jNats (objs.filter ss.forUpd)),
    ("objs", .arr ((objs.filter (fun o => (ss.objs o).present)).map (fun o =>
      let os := ss.objs o
      Json.mkObj [("o", jNat o), ("status", statusJson os.status),
                  ("rbits", jNats (attrs.filter os.rbits)), ("wbits", jNats (attrs.filter os.wbits)),
                  ("dbvals", optPairs attrs os.dbvals), ("vals", optPairs attrs os.vals)])).toArray)]

def optSid : Option Sid → Json
  | none => .null
  | some s => jNat s

def handle (j : Json) : Except String Json := do
  let op ← argStr j "op"
  match op with
  | "run" =>
    let attrs ← natList j "attrs"
    let lazy ← natList j "lazy"
    let vol ← natList j "volatile"
    let nonopt ← natList j "nonopt"
    let sessOpt ← (← argArr j "sessOpt").mapM (fun x => (fromJson? x : Except String Bool))
    let cfg : Cfg := { attrs := attrs, lazy := fun a => lazy.contains a, volatile := fun a => vol.contains a,
                       attrOpt := fun a => !nonopt.contains a, sessOpt := fun s => sessOpt.getD s true }
    let objs0 ← natList j "objs"
    let sessImm ← match j.getObjVal? "sessImm" with
      | .ok (.arr a) => a.toList.mapM (fun x => (fromJson? x : Except String Bool))
      | _ => pure []
    let cfg : Cfg := { cfg with objs := objs0, sessImm := fun s => sessImm.getD s false }
    let rows ← (← argArr j "store").mapM (fun r => do
      match r with
      | .arr #[o, a, v] => pure ((← fromJson? o : Nat), (← fromJson? a : Nat), (← fromJson? v : Int))
      | _ => throw "store: [o,a,v] expected")
    let store : Obj → Attr → Val := fun o a => (lookupPend rows o a).getD 0
    let objs ← natList j "objs"
    let progsL ← (← argArr j "progs").mapM (fun p => do
      match p with
      | .arr ops => ops.toList.mapM parseAction
      | _ => throw "progs: arrays expected")
    let progs : Sid → List Action := fun s => progsL.getD s []
    let picks ← natList j "picks"
    let r0 : Runner := ⟨State.init cfg store, fun _ => 0⟩
    let (rEnd, outs) := picks.foldl (fun (acc : Runner × List Json) s =>
      let (r', out) := pick cfg progs acc.1 s
      let crit : Json := match headCrit cfg acc.1.st s with
        | none => .null
        | some (o, l) => Json.mkObj [("o", jNat o), ("cols", .arr (l.map (fun (a, v) =>
            Json.arr #[jNat a, match v with | none => .null | some x => jInt x])).toArray)]
      let js := match out with
        | none => Json.mkObj [("res", "done")]
        | some o => Json.mkObj (resJson o.res ++ [("upd", match o.upd with | none => .null | some x => jNat x),
                     ("snap", snapJson attrs objs (r'.st.sess s)), ("lock", optSid r'.st.lock), ("pre", optSid r'.st.preLock), ("crit", crit)])
      (r', js :: acc.2)) (r0, [])
    let final := objs.flatMap (fun o => attrs.map (fun a => Json.arr #[jNat o, jNat a, jInt (rEnd.st.store o a)]))
    pure (Json.mkObj [("steps", .arr outs.reverse.toArray), ("store", .arr final.toArray),
                      ("pcs", jNats ((List.range progsL.length).map rEnd.pcs))])
  | _ => throw s!"unknown op {op}"
end PonyVerif.Drive.C20
