import PonyVerif.Drive.Util
import PonyVerif.Model.Rel
/-
  Line-protocol entry for the relationship model (C12).
  request : {"op":"run","schema":[{"a":{"ent":0,"coll":false,"req":false,"casc":false},"b":{..},"sym":false},..],
             "ops":[{"k":"setRef","o":1,"a":[rel,side],"v":null|id} | {"k":"setColl"|"add"|"remove","o":..,"a":..,"items":[..]}
                    | {"k":"clear","o":..,"a":..} | {"k":"create","e":0,"vals":[[[rel,side],{"ref":null|id}|{"coll":[..]}],..]}
                    | {"k":"delete","o":..}]}
  reply   : {"steps":[{"err":null|"ConstraintError",..,"dirty":bool,"inv":bool,"objs":[{"ent":..,"alive":..,"refs":[[rel,side,v]],"colls":[[rel,side,[..]]]}]}]}
-/
namespace PonyVerif.Drive.C12
open Lean PonyVerif.Drive PonyVerif.Model.Rel

def sideOfJson (j : Json) : Except String Side := do
  pure { ent := ← j.getObjValAs? Nat "ent", isColl := ← j.getObjValAs? Bool "coll",
         required := ← j.getObjValAs? Bool "req", cascade := ← j.getObjValAs? Bool "casc" }

def relOfJson (j : Json) : Except String RelDecl := do
  let a ← sideOfJson (← j.getObjVal? "a")
  let sym ← j.getObjValAs? Bool "sym"
  let b ← if sym then pure a else sideOfJson (← j.getObjVal? "b")
  pure { a := a, b := b, sym := sym }

def attrOfJson (j : Json) : Except String Attr := do
  match j with
  | .arr #[r, s] => pure { rel := ← fromJson? r, side := ← fromJson? s }
  | _ => throw "attr: [rel, side] expected"

def natsOfJson (j : Json) : Except String (List Nat) := do
  match j with
  | .arr a => a.toList.mapM fun x => fromJson? x
  | _ => throw "list of ids expected"

def optNat (j : Json) (k : String) : Except String (Option Nat) := do
  match j.getObjVal? k with
  | .ok .null => pure none
  | .ok v => pure (some (← fromJson? v))
  | .error _ => pure none

def valOfJson (j : Json) : Except String Val := do
  match j.getObjVal? "coll" with
  | .ok l => pure (.coll (← natsOfJson l))
  | .error _ => pure (.ref (← optNat j "ref"))

def opOfJson (j : Json) : Except String Op := do
  let k ← argStr j "k"
  match k with
  | "setRef" => pure (.setRef (← argNat j "o") (← attrOfJson (← j.getObjVal? "a")) (← optNat j "v"))
  | "setColl" => pure (.setColl (← argNat j "o") (← attrOfJson (← j.getObjVal? "a")) (← natsOfJson (← j.getObjVal? "items")))
  | "add" => pure (.add (← argNat j "o") (← attrOfJson (← j.getObjVal? "a")) (← natsOfJson (← j.getObjVal? "items")))
  | "remove" => pure (.remove (← argNat j "o") (← attrOfJson (← j.getObjVal? "a")) (← natsOfJson (← j.getObjVal? "items")))
  | "clear" => pure (.clear (← argNat j "o") (← attrOfJson (← j.getObjVal? "a")))
  | "delete" => pure (.delete (← argNat j "o"))
  | "create" =>
      let vs ← argArr j "vals"
      let vals ← vs.mapM fun p => do
        match p with
        | .arr #[a, v] => pure ((← attrOfJson a), (← valOfJson v))
        | _ => throw "vals: [[attr, val], ..] expected"
      pure (.create (← argNat j "e") vals)
  | _ => throw s!"unknown op kind {k}"

def errName : Err → String
  | .objectDeleted => "OperationWithDeletedObjectError"
  | .valueError => "ValueError"
  | .typeError => "TypeError"
  | .constraintError => "ConstraintError"
  | .assertionError => "AssertionError"
  | .recursionError => "RecursionError"
  | .noSuchObject => "NoSuchObject"
  | .noSuchAttr => "NoSuchAttr"

def jAttr (a : Attr) : List Json := [toJson a.rel, toJson a.side]

def dump (sch : Schema) (s : Store) : Json :=
  .arr ((List.range s.n).map fun o => Json.mkObj [
    ("ent", toJson (s.ent o)), ("alive", toJson (s.alive o)),
    ("refs", .arr ((refsOf sch s o).map fun (a, v) => Json.arr (jAttr a ++ [match v with | none => Json.null | some x => toJson x]).toArray).toArray),
    ("colls", .arr ((collsOf sch s o).map fun (a, l) => Json.arr (jAttr a ++ [toJson l]).toArray).toArray)]).toArray

def handle (j : Json) : Except String Json := do
  let op ← argStr j "op"
  match op with
  | "run" =>
      let sch ← (← argArr j "schema").mapM relOfJson
      let ops ← (← argArr j "ops").mapM opOfJson
      let (_, outs) := ops.foldl (fun (acc : Store × List Json) op =>
        let o := stepO sch acc.1 op
        (o.store, Json.mkObj [("err", match o.err with | none => Json.null | some e => Json.str (errName e)),
                               ("inv", toJson (checkInv sch o.store)),
                               ("objs", dump sch o.store)] :: acc.2)) (Store.empty, [])
      pure (Json.mkObj [("steps", .arr outs.reverse.toArray)])
  | _ => throw s!"unknown op {op}"
end PonyVerif.Drive.C12
