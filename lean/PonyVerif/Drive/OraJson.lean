/- JSON glue for the OraPool model (used by Drive/C36.lean; separate file because the names clash with Model.ForkPool) -/
import PonyVerif.Drive.Util
import PonyVerif.Model.OraPool
namespace PonyVerif.Drive.OraJson
open Lean PonyVerif.Drive
open PonyVerif.Model.OraPool
def jSP (p : SPool) : Json := .arr #[.num (JsonNumber.fromNat p.serial), .num (JsonNumber.fromNat p.creator)]
def jOC (c : OConn) : Json := Json.mkObj [("serial", .num (JsonNumber.fromNat c.serial)), ("pool", jSP c.pool)]
def jOut (o : Out) : Json := Json.mkObj [
  ("returned", match o.returned with | none => .null | some c => jOC c), ("stmts", .arr (o.stmts.map jOC).toArray),
  ("released", .arr (o.released.map (fun e => Json.arr #[jOC e.1, jSP e.2])).toArray),
  ("failed", .bool o.failed), ("assertError", .bool o.assertError)]
def jProc (q : Proc) : Json := Json.mkObj [
  ("pid", .num (JsonNumber.fromNat q.pid)), ("cx", jSP q.r.cx), ("poolpid", .num (JsonNumber.fromNat q.r.pid)),
  ("forked", .arr (q.r.forked.map (fun e => Json.arr #[jSP e.1, .num (JsonNumber.fromNat e.2)])).toArray),
  ("held", match q.held with | none => .null | some c => jOC c)]
def parseAct : String → Except String Act
  | "connect" => pure .connect
  | "connectFail" => pure .connectFail
  | "stmt" => pure .stmt
  | "release" => pure .release
  | "drop" => pure .drop
  | "disconnect" => pure .disconnect
  | s => throw s!"unknown act {s}"
def parseEv (j : Json) : Except String Ev := do
  match j with
  | .arr #[.str "fork", p] => pure (.fork (← fromJson? p))
  | .arr #[.str "act", p, .str a] => pure (.act (← fromJson? p) (← parseAct a))
  | _ => throw "event: [\"fork\", p] or [\"act\", p, name]"
def runJson (evs : List Ev) : Json :=
  let (w, outs) := evs.foldl (fun (acc : World × List Json) e =>
    let o : Json := match e with
      | .act p a => .arr ((acc.1.procs.filterMap (fun q => if q.pid = p then some (jOut (localStep acc.1.nextSerial q a).2) else none))).toArray
      | .fork _ => .arr #[]
    (step acc.1 e, acc.2 ++ [o])) (init, [])
  Json.mkObj [("procs", .arr (w.procs.map jProc).toArray), ("outs", .arr outs.toArray)]
end PonyVerif.Drive.OraJson
