import PonyVerif.Drive.Util
import PonyVerif.Model.Cascade
/-
  Line-protocol entry for the deletion model (C15).
  schema  : [{"a":{"ent":0,"coll":false,"req":false,"casc":false,"col":true},"b":{..},"sym":false},..]
  objs    : [{"ent":0,"alive":true,"refs":[[rel,side,null|id],..],"colls":[[rel,side,[ids]],..]},..]
  requests:
    {"op":"run","schema":..,"classes":[[[rel,side],..],..] (optional: `_attrs_` per class id, inherited first),"objs":..,"guard":bool,"deletes":[id,..]}
       -> {"steps":[{"err":null|"ConstraintError",..,"undo_ok":bool,"trail":n,"agree":bool,"nodangling":bool,"objs":[..]}],"db":{..},"fk":bool}
    {"op":"bulk","schema":..,"objs":..,"stmts":[[id,..],..]}     (bulk DELETE statements, one after the other, on the committed image of `objs`)
       -> {"steps":[{"refused":bool,"db":{..},"fk":bool},..]}
    {"op":"linked","pairs":[{"a":{"coll":..,"req":..,"casc":null|bool},"b":{..}},..]} -> {"res":[{"ok":bool,"ca":bool,"cb":bool},..]}
    {"op":"ondelete","schema":..} -> {"res":[[rel,side,"CASCADE"|"SET NULL"|null],..]}   (attributes holding a column)
-/
namespace PonyVerif.Drive.C15
open Lean PonyVerif.Drive PonyVerif.Model.Cascade

def sideOfJson (j : Json) : Except String Side := do
  pure { ent := ← j.getObjValAs? Nat "ent", isColl := ← j.getObjValAs? Bool "coll",
         required := ← j.getObjValAs? Bool "req", cascade := ← j.getObjValAs? Bool "casc",
         hasCol := ← j.getObjValAs? Bool "col" }

def relOfJson (j : Json) : Except String RelDecl := do
  let a ← sideOfJson (← j.getObjVal? "a")
  let sym ← j.getObjValAs? Bool "sym"
  let b ← if sym then pure a else sideOfJson (← j.getObjVal? "b")
  pure { a := a, b := b, sym := sym }

def natsOfJson (j : Json) : Except String (List Nat) := do
  match j with
  | .arr a => a.toList.mapM fun x => fromJson? x
  | _ => throw "list of ids expected"

structure ObjJ where
  ent : Nat
  alive : Bool
  refs : List (Attr × Option Nat)
  colls : List (Attr × List Nat)

def objOfJson (j : Json) : Except String ObjJ := do
  let refs ← (← argArr j "refs").mapM fun r => do
    match r with
    | .arr #[rel, sd, v] =>
      let v' : Option Nat ← match v with
        | .null => pure none
        | x => do pure (some (← fromJson? x))
      pure (({ rel := ← fromJson? rel, side := ← fromJson? sd } : Attr), v')
    | _ => throw "refs: [rel, side, v] expected"
  let colls ← (← argArr j "colls").mapM fun r => do
    match r with
    | .arr #[rel, sd, l] => pure (({ rel := ← fromJson? rel, side := ← fromJson? sd } : Attr), (← natsOfJson l))
    | _ => throw "colls: [rel, side, [ids]] expected"
  pure { ent := ← j.getObjValAs? Nat "ent", alive := ← j.getObjValAs? Bool "alive", refs := refs, colls := colls }

def storeOf (objs : List ObjJ) : Store :=
  let arr := objs.toArray
  { n := arr.size
    ent := fun o => match arr[o]? with | some x => x.ent | none => 0
    alive := fun o => match arr[o]? with | some x => x.alive | none => false
    ref := fun o a => match arr[o]? with
      | some x => match x.refs.find? (fun p => p.1 == a) with
        | some (_, v) => v
        | none => none
      | none => none
    mem := fun o a q => match arr[o]? with
      | some x => match x.colls.find? (fun p => p.1 == a) with
        | some (_, l) => l.contains q
        | none => false
      | none => false }

def errName : Err → String
  | .constraintError => "ConstraintError"
  | .recursionError => "RecursionError"
  | .assertionError => "AssertionError"
  | .objectDeleted => "OperationWithDeletedObjectError"
  | .valueError => "ValueError"
  | .noSuchAttr => "NoSuchAttr"
  | .noSuchObject => "NoSuchObject"

def jAttr (a : Attr) : List Json := [toJson a.rel, toJson a.side]

def dump (sch : Schema) (ct : ClassTable) (s : Store) : Json :=
  .arr ((List.range s.n).map fun o => Json.mkObj [
    ("ent", toJson (s.ent o)), ("alive", toJson (s.alive o)),
    ("refs", .arr ((refsOf sch ct s o).map fun (a, v) => Json.arr (jAttr a ++ [jOptNat v]).toArray).toArray),
    ("colls", .arr ((collsOf sch ct s o).map fun (a, l) => Json.arr (jAttr a ++ [toJson l]).toArray).toArray)]).toArray

def dumpDb (sch : Schema) (ct : ClassTable) (db : Db) : Json :=
  Json.mkObj [
    ("rows", toJson ((List.range db.n).filter fun o => db.row o)),
    ("cols", .arr (((List.range db.n).filter fun o => db.row o).flatMap fun o =>
        ((ct (db.ent o)).filter fun a => holdsCol sch a).map fun a =>
          Json.arr ([toJson o] ++ jAttr a ++ [jOptNat (db.col o a)]).toArray).toArray),
    ("links", .arr ((sch.allAttrs.filter fun c => isLinkAttr sch c).flatMap fun c =>
        (List.range db.n).flatMap fun p => ((List.range db.n).filter fun q => db.link c p q).map fun q =>
          Json.arr (jAttr c ++ [toJson p, toJson q]).toArray).toArray)]

def declOfJson (j : Json) : Except String Decl := do
  let c : Option Bool ← match j.getObjVal? "casc" with
    | .ok .null => pure none
    | .ok v => do pure (some (← fromJson? v))
    | .error _ => pure none
  pure { isColl := ← j.getObjValAs? Bool "coll", required := ← j.getObjValAs? Bool "req", optCascade := c }

/-- "classes": [[[rel,side],..] per class id]; absent = no inheritance (the table computed from the schema) -/
def classTableOfJson (sch : Schema) (j : Json) : Except String ClassTable := do
  match j.getObjVal? "classes" with
  | .error _ => pure sch.classTable
  | .ok (.arr cs) =>
    let lists ← cs.toList.mapM fun c => do
      match c with
      | .arr as => as.toList.mapM fun a => do
          match a with
          | .arr #[rel, sd] => pure (({ rel := ← fromJson? rel, side := ← fromJson? sd } : Attr))
          | _ => throw "classes: [rel, side] expected"
      | _ => throw "classes: list of attribute lists expected"
    let arr := lists.toArray
    pure fun e => match arr[e]? with | some l => l | none => []
  | .ok _ => throw "classes: array expected"

def onDeleteName : OnDelete → Json
  | .cascade => "CASCADE"
  | .setNull => "SET NULL"
  | .noAction => .null

def handle (j : Json) : Except String Json := do
  let op ← argStr j "op"
  match op with
  | "run" =>
      let sch : Schema ← (← argArr j "schema").mapM relOfJson
      let ct ← classTableOfJson sch j
      let objs ← (← argArr j "objs").mapM objOfJson
      let dels ← natsOfJson (← j.getObjVal? "deletes")
      let guard ← argBool j "guard"
      let (s, outs) := dels.foldl (fun (acc : Store × List Json) o =>
        -- the instrumented procedure (undo list replayed on failure); `C15_undo_exact` proves it equals `deleteTop`
        let (s', e) := deleteTopT sch ct guard acc.1 o
        let plain := deleteTop sch ct guard acc.1 o
        let trailLen := if o < acc.1.n then (match deleteT sch ct guard (fuelOf sch acc.1) [] o ⟨acc.1, []⟩ with
          | .ok t => t.trail.length
          | .error (_, t) => t.trail.length) else 0
        (s', Json.mkObj [("err", match e with | none => Json.null | some e => Json.str (errName e)),
                          ("undo_ok", toJson ((dump sch ct s').compress == (dump sch ct plain.1).compress &&
                              (e.isNone || (dump sch ct s').compress == (dump sch ct acc.1).compress))),
                          ("trail", toJson trailLen), ("ranked", toJson (isRankedB sch acc.1)),
                          ("agree", toJson (checkAgree sch s')), ("nodangling", toJson (checkNoDangling sch s')),
                          ("objs", dump sch ct s')] :: acc.2)) (storeOf objs, [])
      let db := commit sch s
      pure (Json.mkObj [("steps", .arr outs.reverse.toArray), ("db", dumpDb sch ct db), ("fk", toJson (checkFk sch db))])
  | "bulk" =>
      let sch : Schema ← (← argArr j "schema").mapM relOfJson
      let ct ← classTableOfJson sch j
      let objs ← (← argArr j "objs").mapM objOfJson
      let stmts ← (← argArr j "stmts").mapM natsOfJson
      let (_, outs) := stmts.foldl (fun (acc : Db × List Json) rows =>
        match dbDelete sch acc.1 rows with
        | none => (acc.1, Json.mkObj [("refused", toJson true), ("db", dumpDb sch ct acc.1), ("fk", toJson (checkFk sch acc.1))] :: acc.2)
        | some db' => (db', Json.mkObj [("refused", toJson false), ("db", dumpDb sch ct db'), ("fk", toJson (checkFk sch db'))] :: acc.2))
        (commit sch (storeOf objs), [])
      pure (Json.mkObj [("steps", .arr outs.reverse.toArray)])
  | "linked" =>
      let ps ← (← argArr j "pairs").mapM fun p => do
        let a ← declOfJson (← p.getObjVal? "a")
        let b ← declOfJson (← p.getObjVal? "b")
        pure (Json.mkObj [("ok", toJson (linkedCheck a b)), ("ca", toJson (effCascade a b)), ("cb", toJson (effCascade b a))])
      pure (Json.mkObj [("res", .arr ps.toArray)])
  | "ondelete" =>
      let sch : Schema ← (← argArr j "schema").mapM relOfJson
      let res := (sch.allAttrs.filter fun a => holdsCol sch a).map fun a =>
        Json.arr (jAttr a ++ [onDeleteName (onDeleteOf sch a)]).toArray
      pure (Json.mkObj [("res", .arr res.toArray), ("link", onDeleteName linkOnDelete)])
  | _ => throw s!"unknown op {op}"
end PonyVerif.Drive.C15
