/-
  PyVal: the universal value type the translator `harness/py2lean.py` targets, and the handful of
  Python primitives it emits.  This file is the *trusted statement* of Python's semantics for those
  primitives (validated differentially on every run: every generated definition is executed by the
  driver on the same inputs as the real function and the results are compared).

  Core Lean only (no Mathlib): the driver executable links against this file.
-/
namespace PonyVerif.Py

inductive PyVal where
  | none
  | bool (b : Bool)
  | int (i : Int)
  | str (s : String)
  | list (l : List PyVal)                 -- Python list or tuple (not distinguished)
  | call (f : String) (args : List PyVal) -- opaque call to a function outside the translated subset
  deriving Repr, Inhabited

inductive PyErr where
  | assertion (msg : String)
  | typeError (msg : String)
  | raised (cls : String) (msg : String)
  | unbound (name : String)
  deriving Repr, Inhabited, DecidableEq

abbrev PyM := Except PyErr

namespace PyVal

mutual
  def beq : PyVal → PyVal → Bool
    | .none, .none => true
    | .bool a, .bool b => a == b
    | .int a, .int b => a == b
    | .str a, .str b => a == b
    | .list a, .list b => beqList a b
    | .call f a, .call g b => f == g && beqList a b
    | _, _ => false
  def beqList : List PyVal → List PyVal → Bool
    | [], [] => true
    | x :: xs, y :: ys => beq x y && beqList xs ys
    | _, _ => false
end

instance : BEq PyVal := ⟨beq⟩

/-- numeric view: Python's `bool` is a subclass of `int`. -/
def asInt? : PyVal → Option Int
  | .int i => some i
  | .bool true => some 1
  | .bool false => some 0
  | _ => Option.none

/-- `bool(v)` for the value kinds of the subset. -/
def truthy : PyVal → Bool
  | .none => false
  | .bool b => b
  | .int i => i != 0
  | .str s => s != ""
  | .list l => !l.isEmpty
  | .call _ _ => true

/-- Python `==` (structural; `True == 1`). -/
def pyEq : PyVal → PyVal → Bool
  | .none, .none => true
  | .str a, .str b => a == b
  | .list a, .list b => beqList a b
  | .call f a, .call g b => f == g && beqList a b
  | a, b => match a.asInt?, b.asInt? with
    | some x, some y => x == y
    | _, _ => false

def isNone : PyVal → Bool
  | .none => true
  | _ => false

private def cmpErr (op : String) : PyErr := .typeError s!"'{op}' not supported between these operands"

def lt (a b : PyVal) : PyM Bool :=
  match a.asInt?, b.asInt? with
  | some x, some y => pure (decide (x < y))
  | _, _ => throw (cmpErr "<")
def le (a b : PyVal) : PyM Bool :=
  match a.asInt?, b.asInt? with
  | some x, some y => pure (decide (x ≤ y))
  | _, _ => throw (cmpErr "<=")
def gt (a b : PyVal) : PyM Bool :=
  match a.asInt?, b.asInt? with
  | some x, some y => pure (decide (x > y))
  | _, _ => throw (cmpErr ">")
def ge (a b : PyVal) : PyM Bool :=
  match a.asInt?, b.asInt? with
  | some x, some y => pure (decide (x ≥ y))
  | _, _ => throw (cmpErr ">=")

def add (a b : PyVal) : PyM PyVal :=
  match a, b with
  | .str x, .str y => pure (.str (x ++ y))
  | .list x, .list y => pure (.list (x ++ y))
  | _, _ => match a.asInt?, b.asInt? with
    | some x, some y => pure (.int (x + y))
    | _, _ => throw (.typeError "unsupported operand type(s) for +")
def sub (a b : PyVal) : PyM PyVal :=
  match a.asInt?, b.asInt? with
  | some x, some y => pure (.int (x - y))
  | _, _ => throw (.typeError "unsupported operand type(s) for -")
def mul (a b : PyVal) : PyM PyVal :=
  match a.asInt?, b.asInt? with
  | some x, some y => pure (.int (x * y))
  | _, _ => throw (.typeError "unsupported operand type(s) for *")
def neg (a : PyVal) : PyM PyVal :=
  match a.asInt? with
  | some x => pure (.int (-x))
  | _ => throw (.typeError "bad operand type for unary -")
/-- Python `//` on ints: floor division; division by zero raises. -/
def floordiv (a b : PyVal) : PyM PyVal :=
  match a.asInt?, b.asInt? with
  | some x, some y => if y = 0 then throw (.raised "ZeroDivisionError" "") else pure (.int (Int.fdiv x y))
  | _, _ => throw (.typeError "unsupported operand type(s) for //")
def mod (a b : PyVal) : PyM PyVal :=
  match a.asInt?, b.asInt? with
  | some x, some y => if y = 0 then throw (.raised "ZeroDivisionError" "") else pure (.int (Int.fmod x y))
  | _, _ => throw (.typeError "unsupported operand type(s) for %")
/-- `a ** b` for a non-negative int exponent. -/
def pow (a b : PyVal) : PyM PyVal :=
  match a.asInt?, b.asInt? with
  | some x, some y => if y < 0 then throw (.typeError "negative exponent outside the subset") else pure (.int (x ^ y.toNat))
  | _, _ => throw (.typeError "unsupported operand type(s) for **")
def max2 (a b : PyVal) : PyM PyVal := do
  -- Python: max(a, b) returns a unless b > a
  if (← gt b a) then pure b else pure a
def min2 (a b : PyVal) : PyM PyVal := do
  if (← lt b a) then pure b else pure a
def len (a : PyVal) : PyM PyVal :=
  match a with
  | .str s => pure (.int s.length)
  | .list l => pure (.int l.length)
  | _ => throw (.typeError "object has no len()")
/-- subscript with an int index (negative indexes count from the end). -/
def getItem (a i : PyVal) : PyM PyVal :=
  match a, i.asInt? with
  | .list l, some k =>
      let n : Int := l.length
      let k' := if k < 0 then k + n else k
      if k' < 0 ∨ k' ≥ n then throw (.raised "IndexError" "list index out of range")
      else match l[k'.toNat]? with
        | some v => pure v
        | Option.none => throw (.raised "IndexError" "list index out of range")
  | _, _ => throw (.typeError "object is not subscriptable in the subset")
/-- `s.replace(old, new)` -/
def replace (s old new : PyVal) : PyM PyVal :=
  match s, old, new with
  | .str s, .str o, .str n => pure (.str (s.replace o n))
  | _, _, _ => throw (.typeError "replace() arguments must be str")
/-- `x in (a, b, …)` -/
def inList (x : PyVal) (l : PyVal) : PyM Bool :=
  match l with
  | .list l => pure (l.any (pyEq x))
  | _ => throw (.typeError "argument of type is not iterable in the subset")

end PyVal
end PonyVerif.Py
