/-
  Simp lemmas: the PyVal primitives on well-typed arguments, in closed form (used by the bridge theorems).
-/
import PonyVerif.Py.Val
namespace PonyVerif.Py.PyVal

@[simp] theorem lt_int (a b : Int) : lt (.int a) (.int b) = .ok (decide (a < b)) := rfl
@[simp] theorem le_int (a b : Int) : le (.int a) (.int b) = .ok (decide (a ≤ b)) := rfl
@[simp] theorem gt_int (a b : Int) : gt (.int a) (.int b) = .ok (decide (a > b)) := rfl
@[simp] theorem ge_int (a b : Int) : ge (.int a) (.int b) = .ok (decide (a ≥ b)) := rfl
@[simp] theorem add_int (a b : Int) : add (.int a) (.int b) = .ok (.int (a + b)) := rfl
@[simp] theorem sub_int (a b : Int) : sub (.int a) (.int b) = .ok (.int (a - b)) := rfl
@[simp] theorem mul_int (a b : Int) : mul (.int a) (.int b) = .ok (.int (a * b)) := rfl
@[simp] theorem neg_int (a : Int) : neg (.int a) = .ok (.int (-a)) := rfl
@[simp] theorem add_str (a b : String) : add (.str a) (.str b) = .ok (.str (a ++ b)) := rfl
@[simp] theorem max2_int (a b : Int) : max2 (.int a) (.int b) = .ok (.int (max a b)) := by
  simp only [max2, gt_int, bind, Except.bind, pure, Except.pure]
  split <;> simp_all <;> omega
@[simp] theorem min2_int (a b : Int) : min2 (.int a) (.int b) = .ok (.int (min a b)) := by
  simp only [min2, lt_int, bind, Except.bind, pure, Except.pure]
  split <;> simp_all <;> omega
@[simp] theorem isNone_none : isNone .none = true := rfl
@[simp] theorem isNone_int (a : Int) : isNone (.int a) = false := rfl
@[simp] theorem isNone_str (a : String) : isNone (.str a) = false := rfl
@[simp] theorem isNone_bool (a : Bool) : isNone (.bool a) = false := rfl
@[simp] theorem isNone_list (a : List PyVal) : isNone (.list a) = false := rfl
@[simp] theorem truthy_int (a : Int) : truthy (.int a) = (a != 0) := rfl
@[simp] theorem truthy_none : truthy .none = false := rfl
@[simp] theorem truthy_bool (b : Bool) : truthy (.bool b) = b := rfl
@[simp] theorem pyEq_int (a b : Int) : pyEq (.int a) (.int b) = (a == b) := rfl
@[simp] theorem pyEq_none_int (b : Int) : pyEq .none (.int b) = false := rfl
@[simp] theorem pyEq_int_none (b : Int) : pyEq (.int b) .none = false := rfl
@[simp] theorem pyEq_none_none : pyEq .none .none = true := rfl
@[simp] theorem pyEq_str (a b : String) : pyEq (.str a) (.str b) = (a == b) := rfl
@[simp] theorem len_str (s : String) : len (.str s) = .ok (.int s.length) := rfl
@[simp] theorem len_list (l : List PyVal) : len (.list l) = .ok (.int l.length) := rfl

/-- monad plumbing of `Except` as the generated `do` blocks unfold it -/
theorem bind_ok {ε α β} (a : α) (f : α → Except ε β) : (Except.ok a >>= f) = f a := rfl
theorem bind_error {ε α β} (e : ε) (f : α → Except ε β) : ((Except.error e : Except ε α) >>= f) = Except.error e := rfl

end PonyVerif.Py.PyVal
