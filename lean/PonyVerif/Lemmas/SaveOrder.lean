/-
  Lemmas for C16: what `save` / `saveRefs` / `saveQueue` do, as a sequence of guarded write steps (`Steps`),
  and the invariants of such sequences.  Core Lean only.
-/
import PonyVerif.Model.SaveOrder
namespace PonyVerif.Model.SaveOrder

/-! ### statuses -/

def Pending (st : Status) : Prop := st = .created ∨ st = .modified ∨ st = .markedToDelete

instance (st : Status) : Decidable (Pending st) := by unfold Pending; exact inferInstance

/-- status after the statement has been executed -/
def savedOf : Status → Status
  | .created => .inserted
  | .modified => .updated
  | .markedToDelete => .deleted
  | s => s

/-- the statement `_save_` emits for an object found in status `st` -/
def stmtOf (st : Status) (x : Nat) : Write :=
  match st with
  | .modified => .update x
  | .markedToDelete => .delete x
  | _ => .insert x

theorem savedOf_not_pending {st : Status} (h : Pending st) : ¬ Pending (savedOf st) := by
  rcases h with h | h | h <;> subst h <;> simp [savedOf, Pending]

theorem savedOf_ne_created {st : Status} (h : Pending st) : savedOf st ≠ .created := by
  rcases h with h | h | h <;> subst h <;> simp [savedOf]

theorem stmtOf_obj (st : Status) (x : Nat) : (stmtOf st x).obj? = some x := by
  cases st <;> rfl

theorem stmtOf_inj {st st' : Status} {x y : Nat} (h : stmtOf st x = stmtOf st' y) : x = y := by
  have := congrArg Write.obj? h
  simpa [stmtOf_obj] using this

theorem statusOf_set (st : List Status) (x y : Nat) (v : Status) :
    statusOf (st.set x v) y = if x = y ∧ x < st.length then v else statusOf st y := by
  unfold statusOf
  rw [List.getElem?_set]
  by_cases h : x = y
  · subst h
    by_cases h2 : x < st.length
    · simp [h2]
    · simp [h2]
  · simp [h]

theorem statusOf_lt {st : List Status} {x : Nat} (h : statusOf st x ≠ .other) : x < st.length := by
  unfold statusOf at h
  by_cases hx : x < st.length
  · exact hx
  · rw [List.getElem?_eq_none (Nat.le_of_not_lt hx)] at h; simp at h

theorem pending_lt {st : List Status} {x : Nat} (h : Pending (statusOf st x)) : x < st.length := by
  apply statusOf_lt
  rcases h with h | h | h <;> rw [h] <;> simp

theorem writeObj_pending {stx : Status} (h : Pending stx) (x : Nat) (s : St) :
    writeObj x stx s = { status := s.status.set x (savedOf stx), out := s.out ++ [stmtOf stx x] } := by
  rcases h with h | h | h <;> subst h <;> rfl

/-! ### guarded write steps -/

/-- `Steps g s s'`: `s'` is reached from `s` by writing objects one at a time, each one pending at the moment it is
    written and — the content of `_save_principal_objects_` — none of the references that its statement carries
    pointing to a still-unsaved (`created`) object. -/
inductive Steps (g : Graph) : St → St → Prop
  | refl (s : St) : Steps g s s
  | step {s s1 : St} (x : Nat) : Steps g s s1 → Pending (statusOf s1.status x) →
      (∀ r ∈ attrsToCheck g (statusOf s1.status x) x, statusOf s1.status r.target ≠ .created) →
      Steps g s (writeObj x (statusOf s1.status x) s1)

theorem Steps.trans {g : Graph} {a b c : St} (h1 : Steps g a b) (h2 : Steps g b c) : Steps g a c := by
  induction h2 with
  | refl => exact h1
  | step x _ hp hr ih => exact Steps.step x ih hp hr

theorem Steps.one {g : Graph} (s : St) (x : Nat) (hp : Pending (statusOf s.status x))
    (hr : ∀ r ∈ attrsToCheck g (statusOf s.status x) x, statusOf s.status r.target ≠ .created) :
    Steps g s (writeObj x (statusOf s.status x) s) := Steps.step x (Steps.refl s) hp hr

/-- the complete description of the state after a sequence of steps, relative to the start state -/
structure Trace (g : Graph) (s0 s : St) (ws : List Write) : Prop where
  out_eq : s.out = s0.out ++ ws
  len_eq : s.status.length = s0.status.length
  /-- an object either kept its status or was pending, is saved now, and its statement is in `ws` -/
  status_cases : ∀ y, statusOf s.status y = statusOf s0.status y ∨
      (Pending (statusOf s0.status y) ∧ statusOf s.status y = savedOf (statusOf s0.status y)
        ∧ stmtOf (statusOf s0.status y) y ∈ ws)
  /-- every new statement is the statement of an object that was pending and is saved now -/
  writes : ∀ w ∈ ws, ∃ y, w = stmtOf (statusOf s0.status y) y ∧ Pending (statusOf s0.status y)
      ∧ statusOf s.status y = savedOf (statusOf s0.status y)
  nodup : ws.Nodup
  /-- order: when an object's statement is executed, every created object it references has been inserted -/
  ordered : ∀ ws1 w ws2, ws = ws1 ++ w :: ws2 → ∀ x, w = stmtOf (statusOf s0.status x) x →
      ∀ r ∈ attrsToCheck g (statusOf s0.status x) x, statusOf s0.status r.target = .created →
        Write.insert r.target ∈ ws1

theorem Steps.trace {g : Graph} {s0 s : St} (h : Steps g s0 s) : ∃ ws, Trace g s0 s ws := by
  induction h with
  | refl =>
    exact ⟨[], { out_eq := by simp, len_eq := rfl, status_cases := fun y => Or.inl rfl,
                 writes := by simp, nodup := List.nodup_nil,
                 ordered := by intro ws1 w ws2 h; simp at h }⟩
  | @step s1 x _ hp hr ih =>
    obtain ⟨ws, T⟩ := ih
    -- `x` still has its initial status (a saved object is not pending)
    have hx0 : statusOf s1.status x = statusOf s0.status x := by
      rcases T.status_cases x with h | ⟨hp0, hs, _⟩
      · exact h
      · exact absurd (hs ▸ hp) (savedOf_not_pending hp0)
    have hnew : stmtOf (statusOf s0.status x) x ∉ ws := by
      intro hmem
      obtain ⟨y, hy, hpy, hsy⟩ := T.writes _ hmem
      have : x = y := stmtOf_inj hy
      subst this
      exact absurd (hsy ▸ hp) (savedOf_not_pending hpy)
    have hxlt : x < s1.status.length := pending_lt hp
    refine ⟨ws ++ [stmtOf (statusOf s0.status x) x], ?_⟩
    rw [writeObj_pending hp, hx0]
    constructor
    · simp [T.out_eq]
    · simp [T.len_eq]
    · intro y
      simp only [statusOf_set]
      by_cases hy : x = y
      · subst hy
        right
        simp [hxlt, hx0 ▸ hp]
      · simp only [hy, false_and, if_false]
        rcases T.status_cases y with h | ⟨a, b, c⟩
        · exact Or.inl h
        · exact Or.inr ⟨a, b, List.mem_append_left _ c⟩
    · intro w hw
      rcases List.mem_append.mp hw with hw | hw
      · obtain ⟨y, hy, hpy, hsy⟩ := T.writes w hw
        refine ⟨y, hy, hpy, ?_⟩
        simp only [statusOf_set]
        by_cases hxy : x = y
        · subst hxy
          exact absurd (hsy ▸ hp) (savedOf_not_pending hpy)
        · simp [hxy, hsy]
      · simp at hw
        refine ⟨x, hw, hx0 ▸ hp, ?_⟩
        simp [statusOf_set, hxlt]
    · rw [List.nodup_append]
      refine ⟨T.nodup, by simp, ?_⟩
      intro a ha b hb
      simp at hb
      subst hb
      intro hab; subst hab; exact hnew ha
    · intro ws1 w ws2 hsplit z hw r hr' hcr
      -- either the split point is inside `ws`, or `w` is the new last statement
      rcases List.append_eq_append_iff.mp hsplit with ⟨as, h1, h2⟩ | ⟨bs, h1, h2⟩
      · -- ws1 = ws ++ as, [new] = as ++ w :: ws2
        cases as with
        | nil =>
          simp at h2
          obtain ⟨hwx, _⟩ := h2
          have hzx : x = z := stmtOf_inj (hwx.trans hw)
          subst hzx
          have hne := hr r (hx0 ▸ hr')
          rcases T.status_cases r.target with h | ⟨_, _, hm⟩
          · exact absurd (h.trans hcr) hne
          · rw [hcr] at hm
            simp at h1; rw [h1]; exact hm
        | cons a as =>
          simp at h2
      · -- ws = ws1 ++ bs, w :: ws2 = bs ++ [new]
        cases bs with
        | nil =>
          simp at h2
          obtain ⟨hwx, _⟩ := h2
          have hzx : x = z := stmtOf_inj (hwx.symm.trans hw)
          subst hzx
          have hne := hr r (hx0 ▸ hr')
          rcases T.status_cases r.target with h | ⟨_, _, hm⟩
          · exact absurd (h.trans hcr) hne
          · rw [hcr] at hm
            simp at h1; rw [← h1]; exact hm
        | cons b bs =>
          simp at h2
          obtain ⟨hb, h3⟩ := h2
          subst hb
          exact T.ordered ws1 w bs h1 z hw r hr' hcr

/-- a status that is not `created` never becomes `created` -/
theorem Steps.mono {g : Graph} {s0 s : St} (h : Steps g s0 s) (y : Nat)
    (hy : statusOf s0.status y ≠ .created) : statusOf s.status y ≠ .created := by
  obtain ⟨ws, T⟩ := h.trace
  rcases T.status_cases y with h | ⟨hp, hs, _⟩
  · rw [h]; exact hy
  · rw [hs]; exact savedOf_ne_created hp

theorem Steps.len {g : Graph} {s0 s : St} (h : Steps g s0 s) : s.status.length = s0.status.length := by
  obtain ⟨ws, T⟩ := h.trace; exact T.len_eq

end PonyVerif.Model.SaveOrder
