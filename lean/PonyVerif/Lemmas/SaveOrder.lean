/-
  Lemmas for C16: what `save` / `saveRefs` / `saveQueue` do, as a sequence of guarded write steps (`Steps`),
  and the invariants of such sequences.  Core Lean only.
-/
import PonyVerif.Model.SaveOrder
namespace PonyVerif.Model.SaveOrder

/-! ### statuses -/

def Pending (st : Status) : Prop := st = .created ∨ st = .modified ∨ st = .markedToDelete

instance (st : Status) : Decidable (Pending st) := by unfold Pending; exact inferInstance

/-- status after the statement has been executed -/
def savedOf : Status → Status
  | .created => .inserted
  | .modified => .updated
  | .markedToDelete => .deleted
  | s => s

/-- the statement `_save_` emits for an object found in status `st` -/
def stmtOf (st : Status) (x : Nat) : Write :=
  match st with
  | .modified => .update x
  | .markedToDelete => .delete x
  | _ => .insert x

theorem savedOf_not_pending {st : Status} (h : Pending st) : ¬ Pending (savedOf st) := by
  rcases h with h | h | h <;> subst h <;> simp [savedOf, Pending]

theorem savedOf_ne_created {st : Status} (h : Pending st) : savedOf st ≠ .created := by
  rcases h with h | h | h <;> subst h <;> simp [savedOf]

theorem stmtOf_obj (st : Status) (x : Nat) : (stmtOf st x).obj? = some x := by
  cases st <;> rfl

theorem stmtOf_inj {st st' : Status} {x y : Nat} (h : stmtOf st x = stmtOf st' y) : x = y := by
  have := congrArg Write.obj? h
  simpa [stmtOf_obj] using this

theorem statusOf_set (st : List Status) (x y : Nat) (v : Status) :
    statusOf (st.set x v) y = if x = y ∧ x < st.length then v else statusOf st y := by
  unfold statusOf
  rw [List.getElem?_set]
  by_cases h : x = y
  · subst h
    by_cases h2 : x < st.length
    · simp [h2]
    · simp [h2]
  · simp [h]

theorem statusOf_lt {st : List Status} {x : Nat} (h : statusOf st x ≠ .other) : x < st.length := by
  unfold statusOf at h
  by_cases hx : x < st.length
  · exact hx
  · rw [List.getElem?_eq_none (Nat.le_of_not_lt hx)] at h; simp at h

theorem pending_lt {st : List Status} {x : Nat} (h : Pending (statusOf st x)) : x < st.length := by
  apply statusOf_lt
  rcases h with h | h | h <;> rw [h] <;> simp

theorem writeObj_pending {stx : Status} (h : Pending stx) (x : Nat) (s : St) :
    writeObj x stx s = { status := s.status.set x (savedOf stx), out := s.out ++ [stmtOf stx x] } := by
  rcases h with h | h | h <;> subst h <;> rfl

/-! ### guarded write steps -/

/-- `Steps g s s'`: `s'` is reached from `s` by writing objects one at a time, each one pending at the moment it is
    written and — the content of `_save_principal_objects_` — none of the references that its statement carries
    pointing to a still-unsaved (`created`) object. -/
inductive Steps (g : Graph) : St → St → Prop
  | refl (s : St) : Steps g s s
  | step {s s1 : St} (x : Nat) : Steps g s s1 → Pending (statusOf s1.status x) →
      (∀ r ∈ attrsToCheck g (statusOf s1.status x) x, statusOf s1.status r.target ≠ .created) →
      Steps g s (writeObj x (statusOf s1.status x) s1)

theorem Steps.trans {g : Graph} {a b c : St} (h1 : Steps g a b) (h2 : Steps g b c) : Steps g a c := by
  induction h2 with
  | refl => exact h1
  | step x _ hp hr ih => exact Steps.step x ih hp hr

theorem Steps.one {g : Graph} (s : St) (x : Nat) (hp : Pending (statusOf s.status x))
    (hr : ∀ r ∈ attrsToCheck g (statusOf s.status x) x, statusOf s.status r.target ≠ .created) :
    Steps g s (writeObj x (statusOf s.status x) s) := Steps.step x (Steps.refl s) hp hr

/-- the complete description of the state after a sequence of steps, relative to the start state -/
structure Trace (g : Graph) (s0 s : St) (ws : List Write) : Prop where
  out_eq : s.out = s0.out ++ ws
  len_eq : s.status.length = s0.status.length
  /-- an object either kept its status or was pending, is saved now, and its statement is in `ws` -/
  status_cases : ∀ y, statusOf s.status y = statusOf s0.status y ∨
      (Pending (statusOf s0.status y) ∧ statusOf s.status y = savedOf (statusOf s0.status y)
        ∧ stmtOf (statusOf s0.status y) y ∈ ws)
  /-- every new statement is the statement of an object that was pending and is saved now -/
  writes : ∀ w ∈ ws, ∃ y, w = stmtOf (statusOf s0.status y) y ∧ Pending (statusOf s0.status y)
      ∧ statusOf s.status y = savedOf (statusOf s0.status y)
  nodup : ws.Nodup
  /-- order: when an object's statement is executed, every created object it references has been inserted -/
  ordered : ∀ ws1 w ws2, ws = ws1 ++ w :: ws2 → ∀ x, w = stmtOf (statusOf s0.status x) x →
      ∀ r ∈ attrsToCheck g (statusOf s0.status x) x, statusOf s0.status r.target = .created →
        Write.insert r.target ∈ ws1

theorem Steps.trace {g : Graph} {s0 s : St} (h : Steps g s0 s) : ∃ ws, Trace g s0 s ws := by
  induction h with
  | refl =>
    exact ⟨[], { out_eq := by simp, len_eq := rfl, status_cases := fun y => Or.inl rfl,
                 writes := by simp, nodup := List.nodup_nil,
                 ordered := by intro ws1 w ws2 h; simp at h }⟩
  | @step s1 x _ hp hr ih =>
    obtain ⟨ws, T⟩ := ih
    -- `x` still has its initial status (a saved object is not pending)
    have hx0 : statusOf s1.status x = statusOf s0.status x := by
      rcases T.status_cases x with h | ⟨hp0, hs, _⟩
      · exact h
      · exact absurd (hs ▸ hp) (savedOf_not_pending hp0)
    have hnew : stmtOf (statusOf s0.status x) x ∉ ws := by
      intro hmem
      obtain ⟨y, hy, hpy, hsy⟩ := T.writes _ hmem
      have : x = y := stmtOf_inj hy
      subst this
      exact absurd (hsy ▸ hp) (savedOf_not_pending hpy)
    have hxlt : x < s1.status.length := pending_lt hp
    refine ⟨ws ++ [stmtOf (statusOf s0.status x) x], ?_⟩
    rw [writeObj_pending hp, hx0]
    constructor
    · simp [T.out_eq]
    · simp [T.len_eq]
    · intro y
      simp only [statusOf_set]
      by_cases hy : x = y
      · subst hy
        right
        simp [hxlt, hx0 ▸ hp]
      · simp only [hy, false_and, if_false]
        rcases T.status_cases y with h | ⟨a, b, c⟩
        · exact Or.inl h
        · exact Or.inr ⟨a, b, List.mem_append_left _ c⟩
    · intro w hw
      rcases List.mem_append.mp hw with hw | hw
      · obtain ⟨y, hy, hpy, hsy⟩ := T.writes w hw
        refine ⟨y, hy, hpy, ?_⟩
        simp only [statusOf_set]
        by_cases hxy : x = y
        · subst hxy
          exact absurd (hsy ▸ hp) (savedOf_not_pending hpy)
        · simp [hxy, hsy]
      · simp at hw
        refine ⟨x, hw, hx0 ▸ hp, ?_⟩
        simp [statusOf_set, hxlt]
    · rw [List.nodup_append]
      refine ⟨T.nodup, by simp, ?_⟩
      intro a ha b hb
      simp at hb
      subst hb
      intro hab; subst hab; exact hnew ha
    · intro ws1 w ws2 hsplit z hw r hr' hcr
      -- either the split point is inside `ws`, or `w` is the new last statement
      rcases List.append_eq_append_iff.mp hsplit with ⟨as, h1, h2⟩ | ⟨bs, h1, h2⟩
      · -- ws1 = ws ++ as, [new] = as ++ w :: ws2
        cases as with
        | nil =>
          simp at h2
          obtain ⟨hwx, _⟩ := h2
          have hzx : x = z := stmtOf_inj (hwx.trans hw)
          subst hzx
          have hne := hr r (hx0 ▸ hr')
          rcases T.status_cases r.target with h | ⟨_, _, hm⟩
          · exact absurd (h.trans hcr) hne
          · rw [hcr] at hm
            simp at h1; rw [h1]; exact hm
        | cons a as =>
          simp at h2
      · -- ws = ws1 ++ bs, w :: ws2 = bs ++ [new]
        cases bs with
        | nil =>
          simp at h2
          obtain ⟨hwx, _⟩ := h2
          have hzx : x = z := stmtOf_inj (hwx.symm.trans hw)
          subst hzx
          have hne := hr r (hx0 ▸ hr')
          rcases T.status_cases r.target with h | ⟨_, _, hm⟩
          · exact absurd (h.trans hcr) hne
          · rw [hcr] at hm
            simp at h1; rw [← h1]; exact hm
        | cons b bs =>
          simp at h2
          obtain ⟨hb, h3⟩ := h2
          subst hb
          exact T.ordered ws1 w bs h1 z hw r hr' hcr

/-- a status that is not `created` never becomes `created` -/
theorem Steps.mono {g : Graph} {s0 s : St} (h : Steps g s0 s) (y : Nat)
    (hy : statusOf s0.status y ≠ .created) : statusOf s.status y ≠ .created := by
  obtain ⟨ws, T⟩ := h.trace
  rcases T.status_cases y with h | ⟨hp, hs, _⟩
  · rw [h]; exact hy
  · rw [hs]; exact savedOf_ne_created hp

theorem Steps.len {g : Graph} {s0 s : St} (h : Steps g s0 s) : s.status.length = s0.status.length := by
  obtain ⟨ws, T⟩ := h.trace; exact T.len_eq

/-- an object that is not pending is never touched -/
theorem Steps.keep {g : Graph} {s0 s : St} (h : Steps g s0 s) (y : Nat)
    (hy : ¬ Pending (statusOf s0.status y)) : statusOf s.status y = statusOf s0.status y := by
  obtain ⟨ws, T⟩ := h.trace
  rcases T.status_cases y with h | ⟨hp, _, _⟩
  · exact h
  · exact absurd hp hy

theorem Steps.keep_not_pending {g : Graph} {s0 s : St} (h : Steps g s0 s) (y : Nat)
    (hy : ¬ Pending (statusOf s0.status y)) : ¬ Pending (statusOf s.status y) := by
  rw [h.keep y hy]; exact hy

/-! ### what `save`, `saveRefs`, `saveQueue` do when they succeed -/

/-- `dependent_objects` is duplicate-free and within range -/
def DGood (n : Nat) (d : List Nat) : Prop := d.Nodup ∧ ∀ z ∈ d, z < n

/-- guarantee of a successful `obj._save_(dependent_objects)` -/
structure SavePost (g : Graph) (x : Nat) (dep : Option (List Nat)) (s s' : St) (d' : List Nat) : Prop where
  steps : Steps g s s'
  pend : Pending (statusOf s.status x)
  saved : statusOf s'.status x = savedOf (statusOf s.status x)
  /-- objects on `dependent_objects` are not touched -/
  frame : ∀ z ∈ dep.getD [], z ≠ x → statusOf s'.status z = statusOf s.status z
  notin : (statusOf s.status x = .created ∨ statusOf s.status x = .modified) → x ∉ dep.getD []
  dsub : ∀ z ∈ dep.getD [], z ∈ d'
  dlen : (dep.getD []).length ≤ d'.length
  dgood : DGood s.status.length (dep.getD []) → DGood s.status.length d'
  /-- what the call appended to `dependent_objects` has been saved -/
  dnew : ∀ z ∈ d', z ∉ dep.getD [] → ¬ Pending (statusOf s'.status z)

def RecSpec (g : Graph) (rec : Nat → List Nat → St → Except Err (St × List Nat)) : Prop :=
  ∀ y d s s' d', statusOf s.status y = .created → rec y d s = .ok (s', d') → SavePost g y (some d) s s' d'

theorem saveRefs_spec {g : Graph} {rec : Nat → List Nat → St → Except Err (St × List Nat)} (hrec : RecSpec g rec) :
    ∀ (rs : List Ref) (d : List Nat) (s s' : St) (d' : List Nat), saveRefs rec rs d s = .ok (s', d') →
      Steps g s s' ∧ (∀ z ∈ d, statusOf s'.status z = statusOf s.status z)
      ∧ (∀ r ∈ rs, statusOf s'.status r.target ≠ .created)
      ∧ (∀ z ∈ d, z ∈ d') ∧ d.length ≤ d'.length ∧ (DGood s.status.length d → DGood s.status.length d')
      ∧ (∀ z ∈ d', z ∉ d → ¬ Pending (statusOf s'.status z)) := by
  intro rs
  induction rs with
  | nil =>
    intro d s s' d' h
    simp [saveRefs] at h
    obtain ⟨rfl, rfl⟩ := h
    exact ⟨Steps.refl _, fun _ _ => rfl, by simp, fun _ h => h, Nat.le_refl _, fun h => h, fun z h1 h2 => absurd h1 h2⟩
  | cons r rs ih =>
    intro d s s' d' h
    simp only [saveRefs] at h
    by_cases hc : statusOf s.status r.target = .created
    · simp only [hc, if_true] at h
      cases hr : rec r.target d s with
      | error e => simp [hr] at h
      | ok p =>
        obtain ⟨s1, d1⟩ := p
        simp only [hr] at h
        have P := hrec _ _ _ _ _ hc hr
        obtain ⟨hst, hfr, hall, hsub, hlen, hdg, hnew⟩ := ih d1 s1 s' d' h
        have hnot : r.target ∉ d := by simpa using P.notin (Or.inl hc)
        have hl1 : s1.status.length = s.status.length := P.steps.len
        refine ⟨P.steps.trans hst, ?_, ?_, ?_, ?_, ?_, ?_⟩
        · intro z hz
          have hz1 : z ∈ d1 := P.dsub z (by simpa using hz)
          rw [hfr z hz1]
          exact P.frame z (by simpa using hz) (fun e => hnot (e ▸ hz))
        · intro r' hr'
          rcases List.mem_cons.mp hr' with rfl | hr'
          · apply hst.mono
            rw [P.saved]; exact savedOf_ne_created P.pend
          · exact hall r' hr'
        · intro z hz; exact hsub z (P.dsub z (by simpa using hz))
        · have := P.dlen; simp at this; omega
        · intro hg
          have := P.dgood (by simpa using hg)
          rw [← hl1]; exact hdg (hl1 ▸ this)
        · intro z hz hzd
          by_cases hz1 : z ∈ d1
          · exact hst.keep_not_pending z (P.dnew z hz1 (by simpa using hzd))
          · exact hnew z hz hz1
    · simp only [hc, if_false] at h
      obtain ⟨hst, hfr, hall, hsub, hlen, hdg, hnew⟩ := ih d s s' d' h
      refine ⟨hst, hfr, ?_, hsub, hlen, hdg, hnew⟩
      intro r' hr'
      rcases List.mem_cons.mp hr' with rfl | hr'
      · exact hst.mono _ hc
      · exact hall r' hr'

theorem statusOf_writeObj {stx : Status} (hp : Pending stx) (x y : Nat) (s : St) :
    statusOf (writeObj x stx s).status y = if x = y ∧ x < s.status.length then savedOf stx else statusOf s.status y := by
  rw [writeObj_pending hp]; exact statusOf_set _ _ _ _

theorem save_spec (g : Graph) : ∀ (fuel x : Nat) (dep : Option (List Nat)) (s s' : St) (d' : List Nat),
    save g fuel x dep s = .ok (s', d') → SavePost g x dep s s' d' := by
  intro fuel
  induction fuel with
  | zero => intro x dep s s' d' h; simp [save] at h
  | succ fuel ih =>
    intro x dep s s' d' h
    simp only [save] at h
    by_cases hcm : statusOf s.status x = .created ∨ statusOf s.status x = .modified
    · simp only [hcm, if_true] at h
      have hp : Pending (statusOf s.status x) := by
        rcases hcm with h | h
        · exact Or.inl h
        · exact Or.inr (Or.inl h)
      have hxlt : x < s.status.length := pending_lt hp
      by_cases hin : inDep dep x = true
      · simp [hin] at h
      · simp only [hin] at h
        have hnot : x ∉ dep.getD [] := by
          cases dep with
          | none => simp
          | some d => simpa [inDep] using hin
        cases hr : saveRefs (fun y d' s' => save g fuel y (some d') s') (attrsToCheck g (statusOf s.status x) x)
            (dep.getD [] ++ [x]) s with
        | error e => simp [hr] at h
        | ok p =>
          obtain ⟨s1, d1⟩ := p
          simp [hr] at h
          obtain ⟨rfl, rfl⟩ := h
          have hrec : RecSpec g (fun y d' s' => save g fuel y (some d') s') := by
            intro y d s s' d' _ hy; exact ih y (some d) s s' d' hy
          obtain ⟨hst, hfr, hall, hsub, hlen, hdg, hnew⟩ := saveRefs_spec hrec _ _ _ _ _ hr
          have hx1 : statusOf s1.status x = statusOf s.status x := hfr x (by simp)
          have hl1 : s1.status.length = s.status.length := hst.len
          have hstep : Steps g s1 (writeObj x (statusOf s.status x) s1) := by
            rw [← hx1]; exact Steps.one s1 x (hx1 ▸ hp) (by rw [hx1]; exact hall)
          exact {
            steps := hst.trans hstep
            pend := hp
            saved := by rw [statusOf_writeObj hp]; simp [hl1, hxlt]
            frame := by
              intro z hz hzx
              rw [statusOf_writeObj hp]
              have : ¬ (x = z ∧ x < s1.status.length) := fun h => hzx h.1.symm
              simp only [this, if_false]
              exact hfr z (by simp [hz])
            notin := fun _ => hnot
            dsub := fun z hz => hsub z (by simp [hz])
            dlen := by simp at hlen; omega
            dgood := by
              intro hg
              apply hdg
              refine ⟨?_, ?_⟩
              · rw [List.nodup_append]
                refine ⟨hg.1, by simp, ?_⟩
                intro a ha b hb; simp at hb; subst hb; intro e; exact hnot (e ▸ ha)
              · intro z hz
                rcases List.mem_append.mp hz with hz | hz
                · exact hg.2 z hz
                · simp at hz; subst hz; exact hxlt
            dnew := by
              intro z hz hzd
              by_cases hzx : z = x
              · subst hzx
                rw [statusOf_writeObj hp]; simp only [hl1, hxlt, and_self, if_true]
                exact savedOf_not_pending hp
              · have : z ∉ dep.getD [] ++ [x] := by simp [hzd, hzx]
                exact hstep.keep_not_pending z (hnew z hz this) }
    · simp only [hcm, if_false] at h
      by_cases hd : statusOf s.status x = .markedToDelete
      · simp [hd] at h
        obtain ⟨rfl, rfl⟩ := h
        have hp : Pending (statusOf s.status x) := Or.inr (Or.inr hd)
        have hxlt : x < s.status.length := pending_lt hp
        have hstep : Steps g s (writeObj x (statusOf s.status x) s) :=
          Steps.one s x hp (by rw [hd]; simp [attrsToCheck])
        rw [hd] at hstep
        exact {
          steps := hstep
          pend := hp
          saved := by rw [statusOf_writeObj (Or.inr (Or.inr rfl))]; simp [hxlt, hd]
          frame := by
            intro z _ hzx
            rw [statusOf_writeObj (Or.inr (Or.inr rfl))]
            have : ¬ (x = z ∧ x < s.status.length) := fun h => hzx h.1.symm
            simp only [this, if_false]
          notin := fun h => absurd h hcm
          dsub := fun z hz => hz
          dlen := Nat.le_refl _
          dgood := fun h => h
          dnew := fun z h1 h2 => absurd h1 h2 }
      · simp [hd] at h

/-- after a successful `save`, the object counts as written -/
theorem Trace.written_of_saved {g : Graph} {s0 s : St} {ws : List Write} (T : Trace g s0 s ws) {x : Nat}
    (hp : Pending (statusOf s0.status x)) (hs : statusOf s.status x = savedOf (statusOf s0.status x)) :
    stmtOf (statusOf s0.status x) x ∈ ws := by
  rcases T.status_cases x with h | ⟨_, _, hm⟩
  · have h2 : Pending (savedOf (statusOf s0.status x)) := by rw [← hs, h]; exact hp
    exact absurd h2 (savedOf_not_pending hp)
  · exact hm

theorem written_iff (s : St) (x : Nat) : written s x = true ↔ ∃ w ∈ s.out, w.obj? = some x := by
  simp [written, List.any_eq_true]

theorem written_mono {g : Graph} {a b : St} (hab : Steps g a b) (x : Nat) (hw : written a x = true) :
    written b x = true := by
  obtain ⟨ws, T⟩ := hab.trace
  rw [written_iff] at hw ⊢
  obtain ⟨w, hw, hx⟩ := hw
  exact ⟨w, by rw [T.out_eq]; exact List.mem_append_left _ hw, hx⟩

/-- result of a successful `saveQueue`: a step sequence after which every object of the queue has been written -/
theorem saveQueue_spec (g : Graph) (fuel : Nat) : ∀ (q : List (Option Nat)) (s s' : St),
    saveQueue g fuel q s = .ok s' → Steps g s s' ∧ ∀ x, some x ∈ q → written s' x = true := by
  intro q
  induction q with
  | nil =>
    intro s s' h
    simp [saveQueue] at h; subst h
    exact ⟨Steps.refl _, by simp⟩
  | cons o q ih =>
    intro s s' h
    -- monotonicity of `written` along steps
    have wmono : ∀ {a b : St}, Steps g a b → ∀ x, written a x = true → written b x = true := by
      intro a b hab x hw
      obtain ⟨ws, T⟩ := hab.trace
      rw [written_iff] at hw ⊢
      obtain ⟨w, hw, hx⟩ := hw
      exact ⟨w, by rw [T.out_eq]; exact List.mem_append_left _ hw, hx⟩
    cases o with
    | none =>
      simp only [saveQueue] at h
      obtain ⟨hst, hall⟩ := ih s s' h
      exact ⟨hst, by intro x hx; simp at hx; exact hall x hx⟩
    | some x =>
      simp only [saveQueue] at h
      by_cases hw : written s x = true
      · simp only [hw, if_true] at h
        obtain ⟨hst, hall⟩ := ih s s' h
        refine ⟨hst, ?_⟩
        intro y hy
        simp at hy
        rcases hy with rfl | hy
        · exact wmono hst _ hw
        · exact hall y hy
      · simp only [hw] at h
        cases hr : save g fuel x none s with
        | error e => simp [hr] at h
        | ok p =>
          obtain ⟨s1, d1⟩ := p
          simp [hr] at h
          have P := save_spec g _ _ _ _ _ _ hr
          obtain ⟨hst, hall⟩ := ih s1 s' h
          refine ⟨P.steps.trans hst, ?_⟩
          intro y hy
          simp at hy
          rcases hy with rfl | hy
          · apply wmono hst
            obtain ⟨ws, T⟩ := P.steps.trace
            rw [written_iff]
            exact ⟨_, by rw [T.out_eq]; exact List.mem_append_right _ (T.written_of_saved P.pend P.saved), stmtOf_obj _ _⟩
          · exact hall y hy

/-! ### the failing runs: fuel is never exhausted, `badStatus` only for a malformed queue, a reported cycle is real -/

theorem filter_split (n : Nat) (l : List Nat) :
    l.length = (l.filter (fun z => !(z == n))).length + (l.filter (fun z => z == n)).length := by
  induction l with
  | nil => rfl
  | cons a l ih =>
    simp only [List.filter_cons]
    by_cases ha : (a == n) = true
    · simp only [ha, Bool.not_true, if_true, List.length_cons]; simp; omega
    · simp only [ha, Bool.not_false, if_true, List.length_cons]; simp; omega

/-- pigeonhole: a duplicate-free list of numbers below `n` has at most `n` entries -/
theorem nodup_bound : ∀ (n : Nat) (l : List Nat), l.Nodup → (∀ z ∈ l, z < n) → l.length ≤ n := by
  intro n
  induction n with
  | zero =>
    intro l _ h
    cases l with
    | nil => simp
    | cons a l => exact absurd (h a (by simp)) (by omega)
  | succ n ih =>
    intro l hn h
    have h1 : (l.filter (fun z => !(z == n))).length ≤ n := by
      apply ih
      · exact hn.sublist List.filter_sublist
      · intro z hz
        simp at hz
        have := h z hz.1
        omega
    have h2 := filter_split n l
    have h3 : (l.filter (· == n)).length ≤ 1 := by
      rw [← List.count_eq_length_filter]
      exact List.nodup_iff_count.mp hn n
    omega

def Unsaved (st : Status) : Prop := st = .created ∨ st = .modified

/-- `a` carries a reference (one that its statement writes) to the still unsaved object `b` -/
def EdgeS (g : Graph) (st : List Status) (a b : Nat) : Prop :=
  ∃ r ∈ attrsToCheck g (statusOf st a) a, r.target = b ∧ statusOf st b = .created

def EdgeIn (g : Graph) (st : List Status) (d : List Nat) (a b : Nat) : Prop := a ∈ d ∧ EdgeS g st a b

/-- every unsaved entry of `dependent_objects` leads to the object about to be saved -/
def Chain (g : Graph) (st : List Status) (d : List Nat) (y : Nat) : Prop :=
  ∀ z ∈ d, Unsaved (statusOf st z) → Relation.TransGen (EdgeIn g st d) z y

theorem transGen_mono {α : Type} {r r' : α → α → Prop} (h : ∀ a b, r a b → r' a b) {a b : α}
    (p : Relation.TransGen r a b) : Relation.TransGen r' a b := by
  induction p with
  | single e => exact .single (h _ _ e)
  | tail _ e ih => exact .tail ih (h _ _ e)

theorem attrs_nonempty_unsaved {g : Graph} {st : Status} {x : Nat} {r : Ref} (h : r ∈ attrsToCheck g st x) :
    Unsaved st := by
  cases st <;> simp [attrsToCheck] at h <;> simp [Unsaved]

/-- an edge of a later state is an edge of the earlier state -/
theorem EdgeS.back {g : Graph} {s0 s : St} (h : Steps g s0 s) {a b : Nat} (e : EdgeS g s.status a b) :
    EdgeS g s0.status a b := by
  obtain ⟨r, hr, ht, hc⟩ := e
  obtain ⟨ws, T⟩ := h.trace
  have ha : statusOf s.status a = statusOf s0.status a := by
    rcases T.status_cases a with h | ⟨hp, hs, _⟩
    · exact h
    · have hu := attrs_nonempty_unsaved hr
      rw [hs] at hu
      rcases hp with hp | hp | hp <;> rw [hp] at hu <;> simp [savedOf, Unsaved] at hu
  have hb : statusOf s0.status b = .created := by
    rcases T.status_cases b with h | ⟨hp, hs, _⟩
    · rw [← h]; exact hc
    · exact absurd (hs ▸ hc) (savedOf_ne_created hp)
  exact ⟨r, ha ▸ hr, ht, hb⟩

/-- a path inside `d` survives when the objects of `d` and its end point keep their status -/
theorem chain_transfer {g : Graph} {st st' : List Status} {d d' : List Nat}
    (hkeep : ∀ a ∈ d, statusOf st' a = statusOf st a) (hsub : ∀ a ∈ d, a ∈ d') {z y : Nat}
    (hy : statusOf st' y = statusOf st y)
    (p : Relation.TransGen (EdgeIn g st d) z y) : Relation.TransGen (EdgeIn g st' d') z y := by
  induction p with
  | @single b e =>
    obtain ⟨hz, r, hr, ht, hc⟩ := e
    exact .single ⟨hsub z hz, r, by rw [hkeep z hz]; exact hr, ht, by rw [hy]; exact hc⟩
  | @tail b c _ e ih =>
    obtain ⟨hb, r, hr, ht, hc⟩ := e
    have hb' := hkeep b hb
    exact .tail (ih hb') ⟨hsub b hb, r, by rw [hb']; exact hr, ht, by rw [hy]; exact hc⟩

/-- what a failing call may report -/
structure ErrConcl (g : Graph) (s : St) (top : Option Nat) (e : Err) : Prop where
  fuel : e ≠ .outOfFuel
  bad : ∀ y, e = .badStatus y → top = some y ∧ ¬ Pending (statusOf s.status y)
  cyc : ∀ c, e = .cycle c → ∃ y, Relation.TransGen (EdgeS g s.status) y y

theorem ErrConcl.back {g : Graph} {s0 s : St} (h : Steps g s0 s) {e : Err} (c : ErrConcl g s none e) :
    ErrConcl g s0 none e where
  fuel := c.fuel
  bad := fun y hy => by have := (c.bad y hy).1; simp at this
  cyc := fun ch hc => by
    obtain ⟨y, p⟩ := c.cyc ch hc
    exact ⟨y, transGen_mono (fun a b e => EdgeS.back h e) p⟩

def RecErr (g : Graph) (fuel : Nat) (rec : Nat → List Nat → St → Except Err (St × List Nat)) : Prop :=
  ∀ y d s e, statusOf s.status y = .created → DGood s.status.length d → fuel + d.length ≥ s.status.length + 1 →
    Chain g s.status d y → rec y d s = .error e → ErrConcl g s none e

/-- the loop over the references of `x` (which is on `dependent_objects`) -/
theorem saveRefs_err {g : Graph} {fuel : Nat} {rec : Nat → List Nat → St → Except Err (St × List Nat)}
    (hrec : RecSpec g rec) (herr : RecErr g fuel rec) (x : Nat) :
    ∀ (rs : List Ref) (d : List Nat) (s : St) (e : Err),
      DGood s.status.length d → fuel + d.length ≥ s.status.length + 1 → x ∈ d →
      (∀ r ∈ rs, r ∈ attrsToCheck g (statusOf s.status x) x) →
      (∀ z ∈ d, Unsaved (statusOf s.status z) → z = x ∨ Relation.TransGen (EdgeIn g s.status d) z x) →
      saveRefs rec rs d s = .error e → ErrConcl g s none e := by
  intro rs
  induction rs with
  | nil => intro d s e _ _ _ _ _ h; simp [saveRefs] at h
  | cons r rs ih =>
    intro d s e hg hf hx hrs hch h
    simp only [saveRefs] at h
    by_cases hc : statusOf s.status r.target = .created
    · simp only [hc, if_true] at h
      have hchain : Chain g s.status d r.target := by
        intro z hz hu
        have hedge : EdgeIn g s.status d x r.target := ⟨hx, r, hrs r (by simp), rfl, hc⟩
        rcases hch z hz hu with rfl | p
        · exact .single hedge
        · exact .tail p hedge
      cases hr : rec r.target d s with
      | error e' =>
        simp [hr] at h; subst h
        exact herr _ _ _ _ hc hg hf hchain hr
      | ok p =>
        obtain ⟨s1, d1⟩ := p
        simp only [hr] at h
        have P := hrec _ _ _ _ _ hc hr
        have hl1 : s1.status.length = s.status.length := P.steps.len
        have hnot : r.target ∉ d := by simpa using P.notin (Or.inl hc)
        have hkeep : ∀ a ∈ d, statusOf s1.status a = statusOf s.status a := by
          intro a ha; exact P.frame a (by simpa using ha) (fun e => hnot (e ▸ ha))
        have hsub : ∀ a ∈ d, a ∈ d1 := fun a ha => P.dsub a (by simpa using ha)
        have hlen : d.length ≤ d1.length := by simpa using P.dlen
        apply ErrConcl.back P.steps
        apply ih d1 s1 e
        · rw [hl1]; exact P.dgood (by simpa using hg)
        · rw [hl1]; omega
        · exact hsub x hx
        · intro r' hr'; rw [hkeep x hx]; exact hrs r' (by simp [hr'])
        · intro z hz hu
          have hzd : z ∈ d := by
            by_cases hzd : z ∈ d
            · exact hzd
            · have := P.dnew z hz (by simpa using hzd)
              exact absurd (by rcases hu with h | h <;> simp [Pending, h]) this
          rw [hkeep z hzd] at hu
          rcases hch z hzd hu with rfl | p
          · exact Or.inl rfl
          · exact Or.inr (chain_transfer hkeep hsub (hkeep x hx) p)
        · exact h
    · simp only [hc, if_false] at h
      exact ih d s e hg hf hx (fun r' hr' => hrs r' (by simp [hr'])) hch h

theorem save_err (g : Graph) : ∀ (fuel x : Nat) (dep : Option (List Nat)) (s : St) (e : Err),
    DGood s.status.length (dep.getD []) → fuel + (dep.getD []).length ≥ s.status.length + 1 →
    (∀ d, dep = some d → statusOf s.status x = .created ∧ Chain g s.status d x) →
    save g fuel x dep s = .error e → ErrConcl g s (match dep with | none => some x | some _ => none) e := by
  intro fuel
  induction fuel with
  | zero =>
    intro x dep s e hg hf _ _
    have := nodup_bound _ _ hg.1 hg.2
    omega
  | succ fuel ih =>
    intro x dep s e hg hf hdep h
    simp only [save] at h
    by_cases hcm : statusOf s.status x = .created ∨ statusOf s.status x = .modified
    · simp only [hcm, if_true] at h
      have hp : Pending (statusOf s.status x) := by
        rcases hcm with h | h
        · exact Or.inl h
        · exact Or.inr (Or.inl h)
      have hxlt : x < s.status.length := pending_lt hp
      by_cases hin : inDep dep x = true
      · simp [hin] at h
        subst h
        cases dep with
        | none => simp [inDep] at hin
        | some d =>
          simp [inDep] at hin
          obtain ⟨hc, hchain⟩ := hdep d rfl
          refine ⟨by simp, by simp, ?_⟩
          intro _ _
          exact ⟨x, transGen_mono (fun a b e => e.2) (hchain x hin (Or.inl hc))⟩
      · simp only [hin] at h
        have hnot : x ∉ dep.getD [] := by
          cases dep with
          | none => simp
          | some d => simpa [inDep] using hin
        cases hr : saveRefs (fun y d' s' => save g fuel y (some d') s') (attrsToCheck g (statusOf s.status x) x)
            (dep.getD [] ++ [x]) s with
        | ok p => obtain ⟨s1, d1⟩ := p; simp [hr] at h
        | error e' =>
          simp [hr] at h; subst h
          have hrec : RecSpec g (fun y d' s' => save g fuel y (some d') s') := by
            intro y d s s' d' _ hy; exact save_spec g fuel y (some d) s s' d' hy
          have herr : RecErr g fuel (fun y d' s' => save g fuel y (some d') s') := by
            intro y d s e hc hg hf hch hy
            have := ih y (some d) s e (by simpa using hg) (by simpa using hf)
              (by intro d' hd'; simp at hd'; subst hd'; exact ⟨hc, hch⟩) hy
            simpa using this
          have hconcl : ErrConcl g s none e' := by
            apply saveRefs_err hrec herr x _ _ _ _ ?_ ?_ (by simp) (fun r hr => hr) ?_ hr
            · refine ⟨?_, ?_⟩
              · rw [List.nodup_append]
                refine ⟨hg.1, by simp, ?_⟩
                intro a ha b hb; simp at hb; subst hb; intro e; exact hnot (e ▸ ha)
              · intro z hz
                rcases List.mem_append.mp hz with hz | hz
                · exact hg.2 z hz
                · simp at hz; subst hz; exact hxlt
            · simp; omega
            · intro z hz hu
              rcases List.mem_append.mp hz with hz | hz
              · right
                cases dep with
                | none => simp at hz
                | some d =>
                  obtain ⟨_, hchain⟩ := hdep d rfl
                  simp at hz
                  exact transGen_mono (fun a b e => ⟨by simp [e.1], e.2⟩) (hchain z hz hu)
              · simp at hz; exact Or.inl hz
          exact ⟨hconcl.fuel, fun y hy => by have := (hconcl.bad y hy).1; simp at this, hconcl.cyc⟩
    · simp only [hcm, if_false] at h
      by_cases hd : statusOf s.status x = .markedToDelete
      · simp [hd] at h
      · simp [hd] at h
        subst h
        cases dep with
        | some d => exact absurd (Or.inl (hdep d rfl).1) hcm
        | none =>
          refine ⟨by simp, ?_, by simp⟩
          intro y hy
          simp at hy; subst hy
          refine ⟨rfl, ?_⟩
          intro hp
          rcases hp with hp | hp | hp
          · exact hcm (Or.inl hp)
          · exact hcm (Or.inr hp)
          · exact hd hp

/-- failing `saveQueue`: never for lack of fuel; `badStatus` only for a queue entry that was not pending and not
    written; a reported cycle exists in the start state -/
theorem saveQueue_err (g : Graph) (fuel : Nat) : ∀ (q : List (Option Nat)) (s : St) (e : Err),
    fuel ≥ s.status.length + 1 → saveQueue g fuel q s = .error e →
      e ≠ .outOfFuel
      ∧ (∀ y, e = .badStatus y → some y ∈ q ∧ ¬ Pending (statusOf s.status y) ∧ written s y = false)
      ∧ (∀ c, e = .cycle c → ∃ y, Relation.TransGen (EdgeS g s.status) y y) := by
  intro q
  induction q with
  | nil => intro s e _ h; simp [saveQueue] at h
  | cons o q ih =>
    intro s e hf h
    cases o with
    | none =>
      simp only [saveQueue] at h
      obtain ⟨h1, h2, h3⟩ := ih s e hf h
      exact ⟨h1, fun y hy => ⟨by simp [(h2 y hy).1], (h2 y hy).2⟩, h3⟩
    | some x =>
      simp only [saveQueue] at h
      by_cases hw : written s x = true
      · simp only [hw, if_true] at h
        obtain ⟨h1, h2, h3⟩ := ih s e hf h
        exact ⟨h1, fun y hy => ⟨by simp [(h2 y hy).1], (h2 y hy).2⟩, h3⟩
      · simp only [hw] at h
        cases hr : save g fuel x none s with
        | error e' =>
          simp [hr] at h; subst h
          have c := save_err g fuel x none s e' (by simp [DGood]) (by simpa using hf) (by simp) hr
          refine ⟨c.fuel, ?_, c.cyc⟩
          intro y hy
          obtain ⟨h1, h2⟩ := c.bad y hy
          simp at h1; subst h1
          exact ⟨by simp, h2, by simpa using hw⟩
        | ok p =>
          obtain ⟨s1, d1⟩ := p
          simp [hr] at h
          have P := save_spec g _ _ _ _ _ _ hr
          have hl1 : s1.status.length = s.status.length := P.steps.len
          obtain ⟨h1, h2, h3⟩ := ih s1 e (by rw [hl1]; exact hf) h
          refine ⟨h1, ?_, ?_⟩
          · intro y hy
            obtain ⟨hyq, hyp, hyw⟩ := h2 y hy
            obtain ⟨ws, T⟩ := P.steps.trace
            refine ⟨by simp [hyq], ?_, ?_⟩
            · intro hp0
              rcases T.status_cases y with hh | ⟨_, _, hm⟩
              · exact hyp (hh ▸ hp0)
              · have : written s1 y = true := by
                  rw [written_iff]
                  exact ⟨_, by rw [T.out_eq]; exact List.mem_append_right _ hm, stmtOf_obj _ _⟩
                rw [this] at hyw; simp at hyw
            · cases hws : written s y with
              | false => rfl
              | true => rw [written_mono P.steps y hws] at hyw; simp at hyw
          · intro c hc
            obtain ⟨y, p⟩ := h3 c hc
            exact ⟨y, transGen_mono (fun a b e => EdgeS.back P.steps e) p⟩

/-! ### the whole queue, from a start state whose `out` holds no object statement -/

/-- a successful run of the queue: the new statements `ws`, their `Trace`, and every queue entry written -/
theorem run_trace {g : Graph} {fuel : Nat} {q : List (Option Nat)} {status : List Status} {pre : List Write} {s : St}
    (hpre : ∀ w ∈ pre, w.obj? = none)
    (h : saveQueue g fuel q { status := status, out := pre } = .ok s) :
    ∃ ws, s.out = pre ++ ws ∧ Trace g { status := status, out := pre } s ws
      ∧ ∀ x, some x ∈ q → Pending (statusOf status x) ∧ stmtOf (statusOf status x) x ∈ ws := by
  obtain ⟨hst, hall⟩ := saveQueue_spec g fuel q _ _ h
  obtain ⟨ws, T⟩ := hst.trace
  refine ⟨ws, T.out_eq, T, ?_⟩
  intro x hx
  have hw := hall x hx
  rw [written_iff, T.out_eq] at hw
  obtain ⟨w, hw, hwx⟩ := hw
  rcases List.mem_append.mp hw with hw | hw
  · rw [hpre w hw] at hwx; simp at hwx
  · obtain ⟨y, hy, hpy, _⟩ := T.writes w hw
    have : y = x := by
      rw [hy, stmtOf_obj] at hwx; simpa using hwx
    subst this
    exact ⟨hpy, hy ▸ hw⟩

theorem filter_unique {α : Type} {p : α → Bool} {a : α} : ∀ {l : List α}, l.Nodup → a ∈ l →
    (∀ b ∈ l, p b = true → b = a) → p a = true → l.filter p = [a] := by
  intro l
  induction l with
  | nil => intro _ h; simp at h
  | cons c l ih =>
    intro hn hm hall hp
    rw [List.nodup_cons] at hn
    by_cases hca : c = a
    · subst hca
      have : l.filter p = [] := by
        rw [List.filter_eq_nil_iff]
        intro b hb hpb
        have := hall b (by simp [hb]) hpb
        subst this
        exact hn.1 hb
      simp [hp, this]
    · have hpc : p c = false := by
        cases hpc : p c with
        | false => rfl
        | true => exact absurd (hall c (by simp) hpc) hca
      have hm' : a ∈ l := by
        rcases List.mem_cons.mp hm with h | h
        · exact absurd h.symm hca
        · exact h
      simp [hpc]
      exact ih hn.2 hm' (fun b hb => hall b (by simp [hb])) hp

/-! ### the statement list against a database that enforces foreign keys immediately -/

/-- a row that exists when the flush starts and is not going to be deleted by it -/
def Stable (status : List Status) (rows0 : List Nat) (y : Nat) : Prop :=
  y ∈ rows0 ∧ statusOf status y ≠ .markedToDelete

theorem applyWrites_append (g : Graph) : ∀ (a b : List Write) (rows : List Nat),
    applyWrites g rows (a ++ b) = (applyWrites g rows a).bind (fun r => applyWrites g r b) := by
  intro a
  induction a with
  | nil => intro b rows; simp [applyWrites]
  | cons w a ih =>
    intro b rows
    simp only [List.cons_append, applyWrites]
    cases applyWrite g rows w with
    | none => simp
    | some r => simp [ih]

theorem stmtOf_insert {st : Status} {x y : Nat} (hp : Pending st) (h : stmtOf st x = .insert y) : st = .created := by
  rcases hp with hp | hp | hp <;> subst hp <;> simp [stmtOf] at h ⊢

theorem applyWrites_trace {g : Graph} {status : List Status} {pre : List Write} {s : St} {ws : List Write}
    {rows0 : List Nat} (T : Trace g { status := status, out := pre } s ws)
    (hrefs : ∀ x, ∀ r ∈ attrsToCheck g (statusOf status x) x,
      statusOf status r.target = .created ∨ Stable status rows0 r.target) :
    ∀ (todo done : List Write) (rows : List Nat), ws = done ++ todo →
      (∀ y, Stable status rows0 y ∨ Write.insert y ∈ done → y ∈ rows) →
      ∃ rows', applyWrites g rows todo = some rows' ∧ (∀ y, Stable status rows0 y ∨ Write.insert y ∈ ws → y ∈ rows') := by
  intro todo
  induction todo with
  | nil =>
    intro done rows hws hinv
    simp at hws; subst hws
    exact ⟨rows, rfl, hinv⟩
  | cons w todo ih =>
    intro done rows hws hinv
    have hw : w ∈ ws := by rw [hws]; simp
    obtain ⟨x, hwx, hp, _⟩ := T.writes w hw
    simp only at hwx hp
    -- every reference the statement of `x` carries points to an existing row
    have htargets : ∀ r ∈ attrsToCheck g (statusOf status x) x, r.target ∈ rows := by
      intro r hr
      rcases hrefs x r hr with hc | hs
      · exact hinv _ (Or.inr (T.ordered done w todo hws x hwx r hr hc))
      · exact hinv _ (Or.inl hs)
    have hnext : ∀ rows1, applyWrite g rows w = some rows1 →
        (∀ y, Stable status rows0 y ∨ Write.insert y ∈ done ++ [w] → y ∈ rows1) →
        ∃ rows', applyWrites g rows (w :: todo) = some rows' ∧ (∀ y, Stable status rows0 y ∨ Write.insert y ∈ ws → y ∈ rows') := by
      intro rows1 h1 hinv1
      simp only [applyWrites, h1]
      exact ih (done ++ [w]) rows1 (by rw [hws]; simp) hinv1
    rcases hp with hc | hm | hd
    · -- INSERT
      have hw' : w = .insert x := by rw [hwx, hc]; rfl
      apply hnext (x :: rows)
      · rw [hw']; simp only [applyWrite]
        have : (refsOf g x).all (fun r => decide (r.target ∈ rows)) = true := by
          rw [List.all_eq_true]; intro r hr
          have := htargets r (by rw [hc]; exact hr)
          simpa using this
        simp [this]
      · intro y hy
        rcases hy with hy | hy
        · exact List.mem_cons_of_mem _ (hinv y (Or.inl hy))
        · rcases List.mem_append.mp hy with hy | hy
          · exact List.mem_cons_of_mem _ (hinv y (Or.inr hy))
          · simp [hw'] at hy; subst hy; simp
    · -- UPDATE
      have hw' : w = .update x := by rw [hwx, hm]; rfl
      apply hnext rows
      · rw [hw']; simp only [applyWrite]
        have : ((refsOf g x).filter (·.dirty)).all (fun r => decide (r.target ∈ rows)) = true := by
          rw [List.all_eq_true]; intro r hr
          have := htargets r (by rw [hm]; exact hr)
          simpa using this
        simp [this]
      · intro y hy
        rcases hy with hy | hy
        · exact hinv y (Or.inl hy)
        · rcases List.mem_append.mp hy with hy | hy
          · exact hinv y (Or.inr hy)
          · simp [hw'] at hy
    · -- DELETE
      have hw' : w = .delete x := by rw [hwx, hd]; rfl
      apply hnext (rows.filter (· ≠ x))
      · rw [hw']; simp only [applyWrite]
      · intro y hy
        have hyx : y ≠ x := by
          rcases hy with hy | hy
          · intro e; subst e; exact hy.2 hd
          · have hy' : Write.insert y ∈ ws := by
              rw [hws]
              rcases List.mem_append.mp hy with hy | hy
              · simp [hy]
              · simp [hw'] at hy
            obtain ⟨z, hz, hpz, _⟩ := T.writes _ hy'
            simp only at hz hpz
            have : z = y := by
              have := congrArg Write.obj? hz
              rw [stmtOf_obj] at this
              simpa [Write.obj?] using this.symm
            subst this
            have := stmtOf_insert hpz hz.symm
            intro e; subst e; rw [hd] at this; simp at this
        have hyr : y ∈ rows := by
          rcases hy with hy | hy
          · exact hinv y (Or.inl hy)
          · rcases List.mem_append.mp hy with hy | hy
            · exact hinv y (Or.inr hy)
            · simp [hw'] at hy
        simp [hyr, hyx]

theorem applyWrites_unlinks (g : Graph) (rows : List Nat) : ∀ (l : List (Nat × Nat)),
    applyWrites g rows (l.map (fun p => Write.unlink p.1 p.2)) = some rows := by
  intro l
  induction l with
  | nil => rfl
  | cons p l ih => simp [applyWrites, applyWrite, ih]

theorem applyWrites_links (g : Graph) (rows : List Nat) : ∀ (l : List (Nat × Nat)),
    (∀ p ∈ l, p.1 ∈ rows ∧ p.2 ∈ rows) → applyWrites g rows (l.map (fun p => Write.link p.1 p.2)) = some rows := by
  intro l
  induction l with
  | nil => intro _; rfl
  | cons p l ih =>
    intro h
    have hp := h p (by simp)
    simp [applyWrites, applyWrite, hp.1, hp.2]
    exact ih (fun q hq => h q (by simp [hq]))

/-! ### the queue with its slots refines to `saveQueue` -/

/-- slot `j` of the queue holds object `x` -/
def Holds (q : List (Option Nat)) (j x : Nat) : Prop := q[j]? = some (some x)

/-- slots and `_save_pos_` agree -/
structure PosInv (qs : Slots) : Prop where
  slot_of_pos : ∀ x p, posOf qs.pos x = some p → Holds qs.queue p x
  pos_of_slot : ∀ j x, Holds qs.queue j x → posOf qs.pos x = some j

theorem posOf_set (pos : List (Option Nat)) (x y : Nat) (v : Option Nat) :
    posOf (pos.set x v) y = if x = y ∧ x < pos.length then v else posOf pos y := by
  unfold posOf
  rw [List.getElem?_set]
  by_cases h : x = y
  · subst h
    by_cases h2 : x < pos.length
    · simp [h2]
    · simp [h2]
  · simp [h]

theorem posOf_lt {pos : List (Option Nat)} {x p : Nat} (h : posOf pos x = some p) : x < pos.length := by
  unfold posOf at h
  by_cases hx : x < pos.length
  · exact hx
  · rw [List.getElem?_eq_none (Nat.le_of_not_lt hx)] at h; simp at h

theorem Holds.lt {q : List (Option Nat)} {j x : Nat} (h : Holds q j x) : j < q.length := by
  unfold Holds at h
  by_cases hj : j < q.length
  · exact hj
  · rw [List.getElem?_eq_none (Nat.le_of_not_lt hj)] at h; simp at h

theorem holds_clearAt (q : List (Option Nat)) (p : Nat) (hp : p < q.length) (j x : Nat) :
    Holds (if p + 1 = q.length then q.dropLast else q.set p none) j x ↔ Holds q j x ∧ j ≠ p := by
  by_cases hl : p + 1 = q.length
  · simp only [hl, if_true]
    unfold Holds
    rw [List.getElem?_dropLast]
    constructor
    · intro h
      by_cases hj : j < q.length - 1
      · simp only [hj, if_true] at h; exact ⟨h, by omega⟩
      · simp [hj] at h
    · rintro ⟨h, hne⟩
      have : j < q.length := Holds.lt h
      have hj : j < q.length - 1 := by omega
      simp only [hj, if_true]; exact h
  · simp only [hl, if_false]
    unfold Holds
    rw [List.getElem?_set]
    by_cases hpj : p = j
    · subst hpj; simp [hp]
    · simp only [hpj, if_false]
      constructor
      · intro h; exact ⟨h, fun e => hpj e.symm⟩
      · intro h; exact h.1

theorem clearSlot_spec {qs : Slots} (I : PosInv qs) (y : Nat) :
    PosInv (clearSlot qs y) ∧ (∀ j x, Holds (clearSlot qs y).queue j x ↔ Holds qs.queue j x ∧ x ≠ y)
      ∧ (clearSlot qs y).queue.length ≤ qs.queue.length := by
  unfold clearSlot
  cases hpos : posOf qs.pos y with
  | none =>
    refine ⟨I, ?_, Nat.le_refl _⟩
    intro j x
    constructor
    · intro h
      refine ⟨h, ?_⟩
      intro e; subst e
      rw [I.pos_of_slot j x h] at hpos; simp at hpos
    · intro h; exact h.1
  | some p =>
    have hhold : Holds qs.queue p y := I.slot_of_pos y p hpos
    have hp : p < qs.queue.length := hhold.lt
    have hy : y < qs.pos.length := posOf_lt hpos
    have key : ∀ j x, Holds (if p + 1 = qs.queue.length then qs.queue.dropLast else qs.queue.set p none) j x
        ↔ Holds qs.queue j x ∧ x ≠ y := by
      intro j x
      rw [holds_clearAt _ _ hp]
      constructor
      · rintro ⟨h, hne⟩
        refine ⟨h, ?_⟩
        intro e; subst e
        have := I.pos_of_slot j x h
        rw [hpos] at this; simp at this; exact hne this.symm
      · rintro ⟨h, hne⟩
        refine ⟨h, ?_⟩
        intro e; subst e
        unfold Holds at h hhold
        rw [h] at hhold; simp at hhold; exact hne hhold
    refine ⟨⟨?_, ?_⟩, key, ?_⟩
    · intro x p' hx
      simp only [posOf_set] at hx
      by_cases hyx : y = x
      · simp [hyx ▸ hy, hyx] at hx
      · simp only [hyx, false_and, if_false] at hx
        exact (key p' x).mpr ⟨I.slot_of_pos x p' hx, fun e => hyx e.symm⟩
    · intro j x h
      obtain ⟨h1, hne⟩ := (key j x).mp h
      simp only [posOf_set]
      have : ¬ (y = x ∧ y < qs.pos.length) := fun e => hne e.1.symm
      simp only [this, if_false]
      exact I.pos_of_slot j x h1
    · simp only
      split
      · simp [List.length_dropLast]
      · simp

theorem clearAll_spec : ∀ (W : List Nat) {qs : Slots}, PosInv qs →
    PosInv (W.foldl clearSlot qs) ∧ (∀ j x, Holds (W.foldl clearSlot qs).queue j x ↔ Holds qs.queue j x ∧ x ∉ W)
      ∧ (W.foldl clearSlot qs).queue.length ≤ qs.queue.length := by
  intro W
  induction W with
  | nil => intro qs I; exact ⟨I, by simp, Nat.le_refl _⟩
  | cons y W ih =>
    intro qs I
    obtain ⟨I1, h1, l1⟩ := clearSlot_spec I y
    obtain ⟨I2, h2, l2⟩ := ih I1
    simp only [List.foldl_cons]
    refine ⟨I2, ?_, Nat.le_trans l2 l1⟩
    intro j x
    rw [h2, h1]
    simp only [List.mem_cons, not_or]
    constructor
    · rintro ⟨⟨a, b⟩, c⟩; exact ⟨a, b, c⟩
    · rintro ⟨a, b, c⟩; exact ⟨⟨a, b⟩, c⟩

/-- everything left in the list is a hole or already written: the loop does nothing -/
theorem saveQueue_skip (g : Graph) (fuel : Nat) : ∀ (l : List (Option Nat)) (s : St),
    (∀ x, some x ∈ l → written s x = true) → saveQueue g fuel l s = .ok s := by
  intro l
  induction l with
  | nil => intro s _; rfl
  | cons o l ih =>
    intro s h
    cases o with
    | none => simp only [saveQueue]; exact ih s (fun x hx => h x (by simp [hx]))
    | some x =>
      simp only [saveQueue, h x (by simp), if_true]
      exact ih s (fun y hy => h y (by simp [hy]))

/-- the state of the slot loop at index `i`, relative to the queue `q0` the flush started with -/
structure SlotRel (q0 : List (Option Nat)) (i : Nat) (r : St × Slots) : Prop where
  inv : PosInv r.2
  len : r.2.queue.length ≤ q0.length
  slots : ∀ j x, i ≤ j → (Holds r.2.queue j x ↔ (Holds q0 j x ∧ written r.1 x = false))

theorem loopS_refines (g : Graph) (fuel : Nat) (q0 : List (Option Nat)) : ∀ (n i : Nat) (r : St × Slots),
    SlotRel q0 i r → n + i ≥ r.2.queue.length →
    (loopS g fuel n i r).map Prod.fst = saveQueue g fuel (q0.drop i) r.1 := by
  intro n
  -- when the index is beyond the current length, the rest of q0 is holes and written objects
  have done : ∀ (i : Nat) (r : St × Slots), SlotRel q0 i r → i ≥ r.2.queue.length →
      saveQueue g fuel (q0.drop i) r.1 = .ok r.1 := by
    intro i r R hi
    apply saveQueue_skip
    intro x hx
    obtain ⟨k, hk⟩ := List.getElem?_of_mem hx
    rw [List.getElem?_drop] at hk
    cases hw : written r.1 x with
    | true => rfl
    | false =>
      have := ((R.slots (i + k) x (by omega)).mpr ⟨hk, hw⟩).lt
      omega
  induction n with
  | zero =>
    intro i r R hn
    simp only [loopS, Except.map]
    rw [done i r R (by omega)]
  | succ n ih =>
    intro i r R hn
    simp only [loopS]
    by_cases hi : i < r.2.queue.length
    · simp only [hi, if_true]
      have hi0 : i < q0.length := Nat.lt_of_lt_of_le hi R.len
      rw [List.drop_eq_getElem_cons hi0]
      -- what the abstract loop sees in slot i
      have hq0 : q0[i]? = some q0[i] := List.getElem?_eq_getElem hi0
      cases hslot : r.2.queue[i]? with
      | none =>
        rw [List.getElem?_eq_getElem hi] at hslot; simp at hslot
      | some o =>
        cases o with
        | some x =>
          simp only
          obtain ⟨hx0, hxw⟩ := (R.slots i x (Nat.le_refl _)).mp hslot
          have hqi : q0[i] = some x := by
            unfold Holds at hx0; rw [hq0] at hx0; simpa using hx0
          rw [hqi]
          simp only [saveQueue, hxw, saveTopS]
          cases hr : save g fuel x none r.1 with
          | error e => simp [Except.map]
          | ok p =>
            obtain ⟨s', d'⟩ := p
            simp only [Bool.false_eq_true, if_false]
            have P := save_spec g _ _ _ _ _ _ hr
            obtain ⟨ws, T⟩ := P.steps.trace
            have hnew : newObjs r.1 s' = ws.filterMap Write.obj? := by
              unfold newObjs; rw [T.out_eq, List.drop_left]
            obtain ⟨I2, h2, l2⟩ := clearAll_spec (newObjs r.1 s') R.inv
            have hwr : ∀ y, written s' y = true ↔ (written r.1 y = true ∨ y ∈ newObjs r.1 s') := by
              intro y
              rw [written_iff, written_iff, T.out_eq, hnew]
              simp only [List.mem_append, List.mem_filterMap]
              constructor
              · rintro ⟨w, hw | hw, hy⟩
                · exact Or.inl ⟨w, hw, hy⟩
                · exact Or.inr ⟨w, hw, hy⟩
              · rintro (⟨w, hw, hy⟩ | ⟨w, hw, hy⟩)
                · exact ⟨w, Or.inl hw, hy⟩
                · exact ⟨w, Or.inr hw, hy⟩
            apply ih (i + 1) (s', (newObjs r.1 s').foldl clearSlot r.2)
            · refine ⟨I2, Nat.le_trans l2 R.len, ?_⟩
              intro j y hj
              simp only
              rw [h2, R.slots j y (by omega)]
              constructor
              · rintro ⟨⟨a, b⟩, c⟩
                refine ⟨a, ?_⟩
                cases hw' : written s' y with
                | false => rfl
                | true =>
                  rcases (hwr y).mp hw' with h | h
                  · rw [h] at b; simp at b
                  · exact absurd h c
              · rintro ⟨a, b⟩
                refine ⟨⟨a, ?_⟩, ?_⟩
                · cases hw' : written r.1 y with
                  | false => rfl
                  | true => rw [(hwr y).mpr (Or.inl hw')] at b; simp at b
                · intro h; rw [(hwr y).mpr (Or.inr h)] at b; simp at b
            · simp only; omega
        | none =>
          simp only
          -- q0[i] is a hole or an object written meanwhile: the abstract loop skips it too
          have hskip : saveQueue g fuel (q0[i] :: q0.drop (i + 1)) r.1 = saveQueue g fuel (q0.drop (i + 1)) r.1 := by
            cases hq : q0[i] with
            | none => simp only [saveQueue]
            | some x =>
              have hw : written r.1 x = true := by
                cases hw : written r.1 x with
                | true => rfl
                | false =>
                  have := (R.slots i x (Nat.le_refl _)).mpr ⟨by unfold Holds; rw [hq0, hq], hw⟩
                  unfold Holds at this; rw [hslot] at this; simp at this
              simp only [saveQueue, hw, if_true]
          rw [hskip]
          apply ih (i + 1) r
          · exact ⟨R.inv, R.len, fun j y hj => R.slots j y (by omega)⟩
          · omega
    · simp only [hi, if_false, Except.map]
      rw [done i r R (by omega)]

/-! ### deletions are never pulled forward: a `marked_to_delete` object is written only at its own slot -/

def KeepsDeletes (x : Nat) (s s' : St) : Prop :=
  ∀ y, statusOf s.status y = .markedToDelete → y ≠ x → statusOf s'.status y = .markedToDelete

theorem saveRefs_keepsDeletes {rec : Nat → List Nat → St → Except Err (St × List Nat)}
    (hrec : ∀ y d s s' d', statusOf s.status y = .created → rec y d s = .ok (s', d') → KeepsDeletes y s s') :
    ∀ (rs : List Ref) (d : List Nat) (s s' : St) (d' : List Nat), saveRefs rec rs d s = .ok (s', d') →
      ∀ y, statusOf s.status y = .markedToDelete → statusOf s'.status y = .markedToDelete := by
  intro rs
  induction rs with
  | nil => intro d s s' d' h y hy; simp [saveRefs] at h; obtain ⟨rfl, rfl⟩ := h; exact hy
  | cons r rs ih =>
    intro d s s' d' h y hy
    simp only [saveRefs] at h
    by_cases hc : statusOf s.status r.target = .created
    · simp only [hc, if_true] at h
      cases hr : rec r.target d s with
      | error e => simp [hr] at h
      | ok p =>
        obtain ⟨s1, d1⟩ := p
        simp only [hr] at h
        have hne : y ≠ r.target := by intro e; rw [e, hc] at hy; simp at hy
        exact ih d1 s1 s' d' h y (hrec _ _ _ _ _ hc hr y hy hne)
    · simp only [hc, if_false] at h
      exact ih d s s' d' h y hy

theorem save_keepsDeletes (g : Graph) : ∀ (fuel x : Nat) (dep : Option (List Nat)) (s s' : St) (d' : List Nat),
    save g fuel x dep s = .ok (s', d') → KeepsDeletes x s s' := by
  intro fuel
  induction fuel with
  | zero => intro x dep s s' d' h; simp [save] at h
  | succ fuel ih =>
    intro x dep s s' d' h y hy hyx
    simp only [save] at h
    have hset : ∀ (stx : Status) (s1 : St), statusOf s1.status y = .markedToDelete →
        statusOf (writeObj x stx s1).status y = .markedToDelete := by
      intro stx s1 h1
      have hne : ¬ (x = y ∧ x < s1.status.length) := fun e => hyx e.1.symm
      cases stx <;> simp only [writeObj] <;> (try exact h1) <;>
        (rw [statusOf_set]; simp only [hne, if_false]; exact h1)
    by_cases hcm : statusOf s.status x = .created ∨ statusOf s.status x = .modified
    · simp only [hcm, if_true] at h
      by_cases hin : inDep dep x = true
      · simp [hin] at h
      · simp only [hin] at h
        cases hr : saveRefs (fun y d' s' => save g fuel y (some d') s') (attrsToCheck g (statusOf s.status x) x)
            (dep.getD [] ++ [x]) s with
        | error e => simp [hr] at h
        | ok p =>
          obtain ⟨s1, d1⟩ := p
          simp [hr] at h
          obtain ⟨rfl, rfl⟩ := h
          apply hset
          exact saveRefs_keepsDeletes (fun y d s s' d' _ hy => ih y (some d) s s' d' hy) _ _ _ _ _ hr y hy
    · simp only [hcm, if_false] at h
      by_cases hd : statusOf s.status x = .markedToDelete
      · simp [hd] at h
        obtain ⟨rfl, rfl⟩ := h
        exact hset _ _ hy
      · simp [hd] at h

theorem saveQueue_append (g : Graph) (fuel : Nat) : ∀ (a b : List (Option Nat)) (s : St),
    saveQueue g fuel (a ++ b) s = (match saveQueue g fuel a s with | .ok s1 => saveQueue g fuel b s1 | .error e => .error e) := by
  intro a
  induction a with
  | nil => intro b s; simp [saveQueue]
  | cons o a ih =>
    intro b s
    cases o with
    | none => simp only [List.cons_append, saveQueue]; exact ih b s
    | some x =>
      simp only [List.cons_append, saveQueue]
      by_cases hw : written s x = true
      · simp only [hw, if_true]; exact ih b s
      · simp only [hw]
        cases save g fuel x none s with
        | error e => simp
        | ok p => obtain ⟨s1, d1⟩ := p; simp only; exact ih b s1

theorem saveQueue_keepsDeletes (g : Graph) (fuel : Nat) : ∀ (q : List (Option Nat)) (s s' : St),
    saveQueue g fuel q s = .ok s' → ∀ y, statusOf s.status y = .markedToDelete → some y ∉ q →
      statusOf s'.status y = .markedToDelete := by
  intro q
  induction q with
  | nil => intro s s' h y hy _; simp [saveQueue] at h; subst h; exact hy
  | cons o q ih =>
    intro s s' h y hy hq
    cases o with
    | none => simp only [saveQueue] at h; exact ih s s' h y hy (by simpa using hq)
    | some x =>
      simp only [saveQueue] at h
      have hxy : y ≠ x := by intro e; subst e; simp at hq
      have hq' : some y ∉ q := by intro e; exact hq (by simp [e])
      by_cases hw : written s x = true
      · simp only [hw, if_true] at h; exact ih s s' h y hy hq'
      · simp only [hw] at h
        cases hr : save g fuel x none s with
        | error e => simp [hr] at h
        | ok p =>
          obtain ⟨s1, d1⟩ := p
          simp [hr] at h
          exact ih s1 s' h y (save_keepsDeletes g _ _ _ _ _ _ hr y hy hxy) hq'

end PonyVerif.Model.SaveOrder
