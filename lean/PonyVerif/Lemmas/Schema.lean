/-
  C26 — invariants of the schema registries (Model/Schema.lean), preserved by every registry operation.
  Core Lean only (this file is imported by the executable mapping model, which carries the invariant in a subtype).
-/
import PonyVerif.Model.Schema
namespace PonyVerif.Model.Schema

/-! ### names -/

theorem lower_length (n : Name) : (lower n).length = n.length := by simp [lower]
theorem upper_length (n : Name) : (upper n).length = n.length := by simp [upper]

theorem normalizeName_length (d : Dialect) (n : Name) : (normalizeName d n).length ≤ maxNameLen d := by
  cases d <;> simp [normalizeName, lower, upper, List.length_take] <;> omega

theorem normalizeName_short (d : Dialect) (n : Name) (h : n.length ≤ maxNameLen d) :
    (normalizeName d n).length = n.length := by
  cases d <;> simp [normalizeName, lower, upper, List.length_take] <;> omega

theorem defaultIndexName_length (d t c p u m) : (defaultIndexName d t c p u m).length ≤ maxNameLen d :=
  normalizeName_length _ _
theorem defaultFkName_length (d t c) : (defaultFkName d t c).length ≤ maxNameLen d := normalizeName_length _ _

/-! ### the invariant -/

def colKeys (s : Schema) : List (Name × Name) := s.columns.map (fun c => (c.table, c.name))

structure Inv (s : Schema) : Prop where
  tablesNodup : (tableNames s).Nodup
  colsNodup : (colKeys s).Nodup
  namesNodup : s.names.Nodup
  namesCount : ∀ n, s.names.count n = (objNames s).count n
  fkTables : ∀ f ∈ s.fks, f.table ∈ tableNames s ∧ f.parent ∈ tableNames s

/-- names tagged `norm` respect the dialect's limit -/
structure LenInv (d : Dialect) (s : Schema) : Prop where
  tables : ∀ t ∈ s.tables, t.src = .norm → t.name.length ≤ maxNameLen d
  columns : ∀ c ∈ s.columns, c.src = .norm → c.name.length ≤ maxNameLen d
  indexes : ∀ i ∈ s.indexes, ∀ n, i.name = some n → i.src = .norm → n.length ≤ maxNameLen d
  fks : ∀ f ∈ s.fks, ∀ n, f.name = some n → f.src = .norm → n.length ≤ maxNameLen d

theorem inv_empty : Inv {} := by
  constructor <;> simp [tableNames, colKeys, objNames]

theorem lenInv_empty (d) : LenInv d {} := by
  constructor <;> simp

theorem objNames_nodup {s : Schema} (h : Inv s) : (objNames s).Nodup := by
  rw [List.nodup_iff_count]
  intro a
  rw [← h.namesCount a]
  exact List.nodup_iff_count.mp h.namesNodup a

theorem mem_names_iff {s : Schema} (h : Inv s) (n : Name) : n ∈ s.names ↔ n ∈ objNames s := by
  rw [← List.count_pos_iff, ← List.count_pos_iff, h.namesCount]

/-! ### updTable -/

@[simp] theorem updTable_tableNames (s : Schema) (n : Name) (f : Table → Table) :
    tableNames (updTable s n f) = tableNames s := by
  simp only [tableNames, updTable, List.map_map]
  apply List.map_congr_left
  intro t _
  simp only [Function.comp]
  split <;> rfl

@[simp] theorem updTable_columns (s n f) : (updTable s n f).columns = s.columns := rfl
@[simp] theorem updTable_indexes (s n f) : (updTable s n f).indexes = s.indexes := rfl
@[simp] theorem updTable_fks (s n f) : (updTable s n f).fks = s.fks := rfl
@[simp] theorem updTable_names (s n f) : (updTable s n f).names = s.names := rfl

theorem updTable_objNames (s n f) : objNames (updTable s n f) = objNames s := by
  have := updTable_tableNames s n f
  simp only [tableNames] at this
  simp [objNames, this]

theorem updTable_inv {s : Schema} (n : Name) (f : Table → Table) (h : Inv s) : Inv (updTable s n f) := by
  constructor
  · simpa using h.tablesNodup
  · simpa [colKeys] using h.colsNodup
  · simpa using h.namesNodup
  · intro a; rw [updTable_objNames]; simpa using h.namesCount a
  · intro f' hf; simpa using h.fkTables f' (by simpa using hf)

theorem updTable_lenInv {d} {s : Schema} (n : Name) (f : Table → Table) (hf : ∀ t, (f t).src = t.src)
    (h : LenInv d s) : LenInv d (updTable s n f) := by
  constructor
  · intro t ht hs
    simp only [updTable, List.mem_map] at ht
    obtain ⟨t0, ht0, rfl⟩ := ht
    split at hs
    · have := h.tables t0 ht0 (by simpa [hf] using hs)
      simpa using this
    · simpa using h.tables t0 ht0 hs
    all_goals (split <;> simp_all)
  · simpa using h.columns
  · simpa using h.indexes
  · simpa using h.fks

/-! ### addTable -/

theorem addTable_inv {s s' : Schema} {n src e} (h : Inv s) (hs : addTable s n src e = .ok s') : Inv s' := by
  unfold addTable at hs
  split at hs; · cases hs
  split at hs; · cases hs
  rename_i h1 h2
  cases hs
  constructor
  · simp only [tableNames, List.map_append, List.map_cons, List.map_nil]
    rw [List.nodup_append]
    refine ⟨h.tablesNodup, by simp, ?_⟩
    intro a ha b hb
    simp at hb; subst hb
    intro hab; subst hab; exact h1 ha
  · simpa [colKeys] using h.colsNodup
  · rw [List.nodup_append]
    refine ⟨h.namesNodup, by simp, ?_⟩
    intro a ha b hb
    simp at hb; subst hb
    intro hab; subst hab; exact h2 ha
  · intro a
    have := h.namesCount a
    simp only [objNames, List.count_append, List.map_append, List.map_cons, List.map_nil] at this ⊢
    omega
  · intro f hf
    have := h.fkTables f hf
    simp only [tableNames, List.map_append, List.mem_append]
    exact ⟨Or.inl this.1, Or.inl this.2⟩

theorem addTable_lenInv {d} {s s' : Schema} {n src e} (h : LenInv d s) (hn : src = .norm → n.length ≤ maxNameLen d)
    (hs : addTable s n src e = .ok s') : LenInv d s' := by
  unfold addTable at hs
  split at hs; · cases hs
  split at hs; · cases hs
  cases hs
  constructor
  · intro t ht
    simp only [List.mem_append, List.mem_singleton] at ht
    rcases ht with ht | rfl
    · exact h.tables t ht
    · exact hn
  · exact h.columns
  · exact h.indexes
  · exact h.fks

theorem addEntity_inv {s s' : Schema} {t e r} (h : Inv s) (hs : addEntity s t e r = .ok s') : Inv s' := by
  unfold addEntity at hs
  split at hs; · cases hs
  cases hs
  exact updTable_inv _ _ h

theorem addEntity_lenInv {d} {s s' : Schema} {t e r} (h : LenInv d s) (hs : addEntity s t e r = .ok s') : LenInv d s' := by
  unfold addEntity at hs
  split at hs; · cases hs
  cases hs
  exact updTable_lenInv _ _ (fun _ => rfl) h

theorem markM2m_inv {s : Schema} (t : Name) (h : Inv s) : Inv (markM2m s t) := updTable_inv _ _ h
theorem markM2m_lenInv {d} {s : Schema} (t : Name) (h : LenInv d s) : LenInv d (markM2m s t) :=
  updTable_lenInv _ _ (fun _ => rfl) h

/-! ### addColumn -/

theorem addColumn_inv {s s' : Schema} {t n src nn} (h : Inv s) (hs : addColumn s t n src nn = .ok s') : Inv s' := by
  unfold addColumn at hs
  split at hs; · cases hs
  split at hs; · cases hs
  rename_i h1 h2
  cases hs
  constructor
  · exact h.tablesNodup
  · simp only [colKeys, List.map_append, List.map_cons, List.map_nil]
    rw [List.nodup_append]
    refine ⟨h.colsNodup, by simp, ?_⟩
    intro a ha b hb
    simp at hb; subst hb
    intro hab; subst hab
    apply h2
    simp only [List.mem_map] at ha
    obtain ⟨c, hc, hk⟩ := ha
    simp only [Prod.mk.injEq] at hk
    simp only [tableCols, List.any_eq_true, List.mem_filter]
    exact ⟨c, ⟨hc, by simp [hk.1]⟩, by simp [hk.2]⟩
  · exact h.namesNodup
  · intro a; simpa [objNames] using h.namesCount a
  · exact h.fkTables

theorem addColumn_lenInv {d} {s s' : Schema} {t n src nn} (h : LenInv d s) (hn : src = .norm → n.length ≤ maxNameLen d)
    (hs : addColumn s t n src nn = .ok s') : LenInv d s' := by
  unfold addColumn at hs
  split at hs; · cases hs
  split at hs; · cases hs
  cases hs
  constructor
  · exact h.tables
  · intro c hc
    simp only [List.mem_append, List.mem_singleton] at hc
    rcases hc with hc | rfl
    · exact h.columns c hc
    · exact hn
  · exact h.indexes
  · exact h.fks

/-! ### addIndex -/

theorem nameTaken_false {s : Schema} {n : Option Name} (h : nameTaken s n = false) : ∀ x, n = some x → x ∉ s.names := by
  intro x hx; subst hx
  simpa [nameTaken] using h

theorem commitIndex_inv {s : Schema} {t nm cols isPk uniq} (h : Inv s)
    (hn : ∀ x, nm.map (·.1) = some x → x ∉ s.names) : Inv (commitIndex s t nm cols isPk uniq) := by
  have h1 : Inv (if isPk ≠ .no then updTable s t (fun t => { t with pkSet := true }) else s) := by
    split
    · exact updTable_inv _ _ h
    · exact h
  have hnames : (if isPk ≠ .no then updTable s t (fun t => { t with pkSet := true }) else s).names = s.names := by
    split <;> rfl
  generalize (if isPk ≠ .no then updTable s t (fun t => { t with pkSet := true }) else s) = s1 at h1 hnames
  unfold commitIndex
  constructor
  · exact h1.tablesNodup
  · have : (List.map (fun c => (c.table, c.name)) (List.map (fun (c : Column) =>
        if (c.table == t && cols.contains c.name) = true then
          { c with isPk := orPk c.isPk (if (cols.length == 1) = true then isPk else .no),
                   isPkPart := c.isPkPart || (isPk != .no),
                   isUnique := c.isUnique || (uniq && (cols.length == 1)) }
        else c) s1.columns)) = colKeys s1 := by
      simp only [colKeys, List.map_map]
      apply List.map_congr_left
      intro c _
      simp only [Function.comp]
      split <;> rfl
    simp only [colKeys]
    first
      | (rw [this]; exact h1.colsNodup)
      | (simp only [colKeys] at this h1; sorry)
  · cases nm with
    | none => simpa using h1.namesNodup
    | some p =>
      simp only [Option.map_some, Option.toList_some]
      rw [List.nodup_append]
      refine ⟨h1.namesNodup, by simp, ?_⟩
      intro a ha b hb
      simp at hb; subst hb
      intro hab; subst hab
      exact hn _ rfl (hnames ▸ ha)
  · intro a
    have := h1.namesCount a
    cases nm with
    | none => simpa [objNames, List.count_append, List.filterMap_append] using this
    | some p =>
      simp only [objNames, List.count_append, List.filterMap_append, Option.map_some, Option.toList_some,
        List.filterMap_cons, List.filterMap_nil] at this ⊢
      omega
  · exact h1.fkTables

end PonyVerif.Model.Schema
