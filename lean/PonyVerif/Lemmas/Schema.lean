/-
  C26 — invariants of the schema registries (Model/Schema.lean), preserved by every registry operation.
  Core Lean only (this file is imported by the executable mapping model, which carries the invariant in a subtype).
-/
import PonyVerif.Model.Schema
namespace PonyVerif.Model.Schema

/-! ### names -/

theorem lower_length (n : Name) : (lower n).length = n.length := by simp [lower]
theorem upper_length (n : Name) : (upper n).length = n.length := by simp [upper]

theorem normalizeName_length (d : Dialect) (n : Name) : (normalizeName d n).length ≤ maxNameLen d := by
  cases d <;> simp [normalizeName, lower, upper, List.length_take] <;> omega

theorem normalizeName_short (d : Dialect) (n : Name) (h : n.length ≤ maxNameLen d) :
    (normalizeName d n).length = n.length := by
  cases d <;> simp [normalizeName, lower, upper, List.length_take] <;> omega

theorem defaultIndexName_length (d t c p u m) : (defaultIndexName d t c p u m).length ≤ maxNameLen d :=
  normalizeName_length _ _
theorem defaultFkName_length (d t c) : (defaultFkName d t c).length ≤ maxNameLen d := normalizeName_length _ _

/-! ### the invariant -/

def colKeys (s : Schema) : List (Name × Name) := s.columns.map (fun c => (c.table, c.name))

structure Inv (s : Schema) : Prop where
  tablesNodup : (tableNames s).Nodup
  colsNodup : (colKeys s).Nodup
  namesNodup : s.names.Nodup
  namesCount : ∀ n, s.names.count n = (objNames s).count n
  fkTables : ∀ f ∈ s.fks, f.table ∈ tableNames s ∧ f.parent ∈ tableNames s

/-- names tagged `norm` respect the dialect's limit -/
structure LenInv (d : Dialect) (s : Schema) : Prop where
  tables : ∀ t ∈ s.tables, t.src = .norm → t.name.length ≤ maxNameLen d
  columns : ∀ c ∈ s.columns, c.src = .norm → c.name.length ≤ maxNameLen d
  indexes : ∀ i ∈ s.indexes, ∀ n, i.name = some n → i.src = .norm → n.length ≤ maxNameLen d
  fks : ∀ f ∈ s.fks, ∀ n, f.name = some n → f.src = .norm → n.length ≤ maxNameLen d

theorem inv_empty : Inv {} := by
  constructor <;> simp [tableNames, colKeys, objNames]

theorem lenInv_empty (d) : LenInv d {} := by
  constructor <;> simp

theorem objNames_nodup {s : Schema} (h : Inv s) : (objNames s).Nodup := by
  rw [List.nodup_iff_count]
  intro a
  rw [← h.namesCount a]
  exact List.nodup_iff_count.mp h.namesNodup a

theorem mem_names_iff {s : Schema} (h : Inv s) (n : Name) : n ∈ s.names ↔ n ∈ objNames s := by
  rw [← List.count_pos_iff, ← List.count_pos_iff, h.namesCount]

/-! ### updTable -/

@[simp] theorem updTable_tableNames (s : Schema) (n : Name) (f : Table → Table) :
    tableNames (updTable s n f) = tableNames s := by
  simp only [tableNames, updTable, List.map_map]
  apply List.map_congr_left
  intro t _
  simp only [Function.comp]
  split <;> rfl

@[simp] theorem updTable_columns (s n f) : (updTable s n f).columns = s.columns := rfl
@[simp] theorem updTable_indexes (s n f) : (updTable s n f).indexes = s.indexes := rfl
@[simp] theorem updTable_fks (s n f) : (updTable s n f).fks = s.fks := rfl
@[simp] theorem updTable_names (s n f) : (updTable s n f).names = s.names := rfl

theorem updTable_objNames (s n f) : objNames (updTable s n f) = objNames s := by
  have := updTable_tableNames s n f
  simp only [tableNames] at this
  simp [objNames, this]

theorem updTable_inv {s : Schema} (n : Name) (f : Table → Table) (h : Inv s) : Inv (updTable s n f) := by
  constructor
  · simpa using h.tablesNodup
  · simpa [colKeys] using h.colsNodup
  · simpa using h.namesNodup
  · intro a; rw [updTable_objNames]; simpa using h.namesCount a
  · intro f' hf; simpa using h.fkTables f' (by simpa using hf)

theorem updTable_lenInv {d} {s : Schema} (n : Name) (f : Table → Table) (hf : ∀ t, (f t).src = t.src)
    (h : LenInv d s) : LenInv d (updTable s n f) := by
  constructor
  · intro t ht hs
    simp only [updTable, List.mem_map] at ht
    obtain ⟨t0, ht0, rfl⟩ := ht
    by_cases hc : (t0.name == n) = true
    · simp only [hc, if_true] at hs ⊢
      exact h.tables t0 ht0 (by simpa [hf] using hs)
    · simp only [hc] at hs ⊢
      exact h.tables t0 ht0 hs
  · simpa using h.columns
  · simpa using h.indexes
  · simpa using h.fks

/-! ### addTable -/

theorem addTable_inv {s s' : Schema} {n src e} (h : Inv s) (hs : addTable s n src e = .ok s') : Inv s' := by
  unfold addTable at hs
  split at hs; · cases hs
  split at hs; · cases hs
  rename_i h1 h2
  cases hs
  constructor
  · simp only [tableNames, List.map_append, List.map_cons, List.map_nil]
    rw [List.nodup_append]
    refine ⟨h.tablesNodup, by simp, ?_⟩
    intro a ha b hb
    simp at hb; subst hb
    intro hab; subst hab; exact h1 ha
  · simpa [colKeys] using h.colsNodup
  · rw [List.nodup_append]
    refine ⟨h.namesNodup, by simp, ?_⟩
    intro a ha b hb
    simp at hb; subst hb
    intro hab; subst hab; exact h2 ha
  · intro a
    have := h.namesCount a
    simp only [objNames, List.count_append, List.map_append, List.map_cons, List.map_nil] at this ⊢
    omega
  · intro f hf
    have := h.fkTables f hf
    simp only [tableNames, List.map_append, List.mem_append]
    exact ⟨Or.inl this.1, Or.inl this.2⟩

theorem addTable_lenInv {d} {s s' : Schema} {n src e} (h : LenInv d s) (hn : src = .norm → n.length ≤ maxNameLen d)
    (hs : addTable s n src e = .ok s') : LenInv d s' := by
  unfold addTable at hs
  split at hs; · cases hs
  split at hs; · cases hs
  cases hs
  constructor
  · intro t ht
    simp only [List.mem_append, List.mem_singleton] at ht
    rcases ht with ht | rfl
    · exact h.tables t ht
    · exact hn
  · exact h.columns
  · exact h.indexes
  · exact h.fks

theorem addEntity_inv {s s' : Schema} {t e r} (h : Inv s) (hs : addEntity s t e r = .ok s') : Inv s' := by
  unfold addEntity at hs
  split at hs; · cases hs
  cases hs
  exact updTable_inv _ _ h

theorem addEntity_lenInv {d} {s s' : Schema} {t e r} (h : LenInv d s) (hs : addEntity s t e r = .ok s') : LenInv d s' := by
  unfold addEntity at hs
  split at hs; · cases hs
  cases hs
  exact updTable_lenInv _ _ (fun _ => rfl) h

theorem markM2m_inv {s : Schema} (t : Name) (h : Inv s) : Inv (markM2m s t) := updTable_inv _ _ h
theorem markM2m_lenInv {d} {s : Schema} (t : Name) (h : LenInv d s) : LenInv d (markM2m s t) :=
  updTable_lenInv _ _ (fun _ => rfl) h

/-! ### addColumn -/

theorem addColumn_inv {s s' : Schema} {t n src nn} (h : Inv s) (hs : addColumn s t n src nn = .ok s') : Inv s' := by
  unfold addColumn at hs
  split at hs; · cases hs
  split at hs; · cases hs
  rename_i h1 h2
  cases hs
  constructor
  · exact h.tablesNodup
  · simp only [colKeys, List.map_append, List.map_cons, List.map_nil]
    rw [List.nodup_append]
    refine ⟨h.colsNodup, by simp, ?_⟩
    intro a ha b hb
    simp at hb; subst hb
    intro hab; subst hab
    apply h2
    simp only [List.mem_map] at ha
    obtain ⟨c, hc, hk⟩ := ha
    simp only [Prod.mk.injEq] at hk
    simp only [tableCols, List.any_eq_true, List.mem_filter]
    exact ⟨c, ⟨hc, by simp [hk.1]⟩, by simp [hk.2]⟩
  · exact h.namesNodup
  · intro a; simpa [objNames] using h.namesCount a
  · exact h.fkTables

theorem addColumn_lenInv {d} {s s' : Schema} {t n src nn} (h : LenInv d s) (hn : src = .norm → n.length ≤ maxNameLen d)
    (hs : addColumn s t n src nn = .ok s') : LenInv d s' := by
  unfold addColumn at hs
  split at hs; · cases hs
  split at hs; · cases hs
  cases hs
  constructor
  · exact h.tables
  · intro c hc
    simp only [List.mem_append, List.mem_singleton] at hc
    rcases hc with hc | rfl
    · exact h.columns c hc
    · exact hn
  · exact h.indexes
  · exact h.fks

/-! ### addIndex -/

theorem nameTaken_false {s : Schema} {n : Option Name} (h : nameTaken s n = false) : ∀ x, n = some x → x ∉ s.names := by
  intro x hx; subst hx
  simpa [nameTaken] using h

theorem setPk_inv {s : Schema} (t : Name) (k : PkKind) (h : Inv s) : Inv (setPk s t k) := by
  unfold setPk; split
  · exact updTable_inv _ _ h
  · exact h
theorem setPk_lenInv {d} {s : Schema} (t : Name) (k : PkKind) (h : LenInv d s) : LenInv d (setPk s t k) := by
  unfold setPk; split
  · exact updTable_lenInv _ _ (fun _ => rfl) h
  · exact h
@[simp] theorem setPk_names (s t k) : (setPk s t k).names = s.names := by unfold setPk; split <;> rfl
@[simp] theorem setPk_columns (s t k) : (setPk s t k).columns = s.columns := by unfold setPk; split <;> rfl
@[simp] theorem setPk_indexes (s t k) : (setPk s t k).indexes = s.indexes := by unfold setPk; split <;> rfl
@[simp] theorem setPk_fks (s t k) : (setPk s t k).fks = s.fks := by unfold setPk; split <;> rfl
@[simp] theorem setPk_tableNames (s t k) : tableNames (setPk s t k) = tableNames s := by
  unfold setPk; split
  · simp
  · rfl

theorem flagColumns_keys (cs : List Column) (t cols k u) :
    (flagColumns cs t cols k u).map (fun c => (c.table, c.name)) = cs.map (fun c => (c.table, c.name)) := by
  simp only [flagColumns, List.map_map]
  apply List.map_congr_left
  intro c _
  simp only [Function.comp]
  split <;> rfl

theorem flagColumns_mem {cs : List Column} {t cols k u} {c : Column} (h : c ∈ flagColumns cs t cols k u) :
    ∃ c0 ∈ cs, c.name = c0.name ∧ c.src = c0.src ∧ c.table = c0.table := by
  simp only [flagColumns, List.mem_map] at h
  obtain ⟨c0, h0, rfl⟩ := h
  refine ⟨c0, h0, ?_⟩
  split <;> simp

theorem commitIndex_inv {s : Schema} {t nm cols isPk uniq} (h : Inv s)
    (hn : ∀ x, nm.map (·.1) = some x → x ∉ s.names) : Inv (commitIndex s t nm cols isPk uniq) := by
  have h1 := setPk_inv t isPk h
  constructor
  · simpa [commitIndex, tableNames] using h1.tablesNodup
  · simp only [commitIndex, colKeys, flagColumns_keys]
    simpa [colKeys] using h.colsNodup
  · cases nm with
    | none => simpa [commitIndex] using h.namesNodup
    | some p =>
      simp only [commitIndex, setPk_names, Option.map_some, Option.toList_some]
      rw [List.nodup_append]
      refine ⟨h.namesNodup, by simp, ?_⟩
      intro a ha b hb
      simp at hb; subst hb
      intro hab; subst hab
      exact hn _ rfl ha
  · intro a
    have := h1.namesCount a
    cases nm with
    | none =>
      simp only [objNames, commitIndex, List.count_append, List.filterMap_append, Option.map_none, Option.toList_none,
        List.filterMap_cons, List.filterMap_nil, List.append_nil, List.count_nil] at this ⊢
      omega
    | some p =>
      simp only [objNames, commitIndex, List.count_append, List.filterMap_append, Option.map_some, Option.toList_some,
        List.filterMap_cons, List.filterMap_nil] at this ⊢
      omega
  · intro f hf
    have := h1.fkTables f (by simpa [commitIndex] using hf)
    simpa [commitIndex, tableNames] using this

theorem commitIndex_lenInv {d} {s : Schema} {t nm cols isPk uniq} (h : LenInv d s)
    (hn : ∀ p, nm = some p → p.2 = .norm → p.1.length ≤ maxNameLen d) : LenInv d (commitIndex s t nm cols isPk uniq) := by
  have h1 := setPk_lenInv (d := d) t isPk h
  constructor
  · exact h1.tables
  · intro c hc hs
    simp only [commitIndex] at hc
    obtain ⟨c0, h0, e1, e2, _⟩ := flagColumns_mem hc
    rw [e1]; exact h1.columns c0 h0 (e2 ▸ hs)
  · intro i hi n hin his
    simp only [commitIndex, List.mem_append, List.mem_singleton] at hi
    rcases hi with hi | rfl
    · exact h1.indexes i hi n hin his
    · cases nm with
      | none => simp at hin
      | some p =>
        simp only [Option.map_some, Option.some.injEq, Option.getD_some] at hin his
        subst hin
        exact hn p rfl his
  · exact h1.fks

theorem addIndex_inv {d} {s s' : Schema} {t arg cols isPk isUnique m2m} (h : Inv s)
    (hs : addIndex d s t arg cols isPk isUnique m2m = .ok s') : Inv s' := by
  unfold addIndex at hs
  split at hs; · cases hs
  split at hs; · cases hs
  split at hs; · cases hs
  simp only at hs
  split at hs
  · split at hs
    · cases hs; exact h
    · split at hs <;> cases hs
  · split at hs; · cases hs
    split at hs; · cases hs
    split at hs; · cases hs
    split at hs; · cases hs
    rename_i hnt
    cases hs
    apply commitIndex_inv h
    intro x hx
    exact nameTaken_false (by simpa using hnt) x hx

theorem addIndex_lenInv {d} {s s' : Schema} {t arg cols isPk isUnique m2m} (h : LenInv d s)
    (hs : addIndex d s t arg cols isPk isUnique m2m = .ok s') : LenInv d s' := by
  unfold addIndex at hs
  split at hs; · cases hs
  split at hs; · cases hs
  split at hs; · cases hs
  simp only at hs
  split at hs
  · split at hs
    · cases hs; exact h
    · split at hs <;> cases hs
  · split at hs; · cases hs
    split at hs; · cases hs
    split at hs; · cases hs
    split at hs; · cases hs
    cases hs
    apply commitIndex_lenInv h
    intro p hp hnorm
    split at hp
    · cases hp; cases hnorm
    · split at hp
      · cases hp
      · cases hp; exact defaultIndexName_length ..

/-! ### addFk -/

theorem mem_tableNames_of_findTable {s : Schema} {n : Name} {t : Table} (h : findTable s n = some t) : n ∈ tableNames s := by
  unfold findTable at h
  have h1 := List.mem_of_find?_eq_some h
  have h2 := List.find?_some h
  simp only [tableNames, List.mem_map]
  exact ⟨t, h1, by simpa using h2⟩

theorem addFk_inv {d} {s s' : Schema} {c n cols p pc ix} (h : Inv s) (hs : addFk d s c n cols p pc ix = .ok s') : Inv s' := by
  unfold addFk at hs
  split at hs
  · cases hs
  · cases hs
  rename_i ctbl ptbl hc hp
  split at hs; · cases hs
  split at hs; · cases hs
  simp only at hs
  split at hs; · cases hs
  split at hs; · cases hs
  split at hs; · cases hs
  rename_i hnames
  have h1 : Inv { s with names := s.names ++ [(match n with | some n => (n, Src.explicit) | none => (defaultFkName d c cols, Src.norm)).1],
                         fks := s.fks ++ [{ table := c, name := some (match n with | some n => (n, Src.explicit) | none => (defaultFkName d c cols, Src.norm)).1,
                                            src := (match n with | some n => (n, Src.explicit) | none => (defaultFkName d c cols, Src.norm)).2,
                                            cols := cols, parent := p, parentCols := pc }] } := by
    constructor
    · exact h.tablesNodup
    · exact h.colsNodup
    · rw [List.nodup_append]
      refine ⟨h.namesNodup, by simp, ?_⟩
      intro a ha b hb
      simp at hb; subst hb
      intro hab; subst hab
      exact hnames ha
    · intro a
      have := h.namesCount a
      simp only [objNames, List.count_append, List.filterMap_append, List.filterMap_cons, List.filterMap_nil] at this ⊢
      omega
    · intro f hf
      simp only [List.mem_append, List.mem_singleton] at hf
      rcases hf with hf | rfl
      · exact h.fkTables f hf
      · exact ⟨mem_tableNames_of_findTable hc, mem_tableNames_of_findTable hp⟩
  split at hs
  · cases hs; exact h1
  · split at hs
    · exact addIndex_inv h1 hs
    · cases hs; exact h1

theorem addFk_lenInv {d} {s s' : Schema} {c n cols p pc ix} (h : LenInv d s) (hs : addFk d s c n cols p pc ix = .ok s') : LenInv d s' := by
  unfold addFk at hs
  split at hs
  · cases hs
  · cases hs
  split at hs; · cases hs
  split at hs; · cases hs
  simp only at hs
  split at hs; · cases hs
  split at hs; · cases hs
  split at hs; · cases hs
  have h1 : LenInv d { s with names := s.names ++ [(match n with | some n => (n, Src.explicit) | none => (defaultFkName d c cols, Src.norm)).1],
                         fks := s.fks ++ [{ table := c, name := some (match n with | some n => (n, Src.explicit) | none => (defaultFkName d c cols, Src.norm)).1,
                                            src := (match n with | some n => (n, Src.explicit) | none => (defaultFkName d c cols, Src.norm)).2,
                                            cols := cols, parent := p, parentCols := pc }] } := by
    constructor
    · exact h.tables
    · exact h.columns
    · exact h.indexes
    · intro f hf x hx hsrc
      simp only [List.mem_append, List.mem_singleton] at hf
      rcases hf with hf | rfl
      · exact h.fks f hf x hx hsrc
      · cases n with
        | some n => simp at hsrc
        | none =>
          simp only [Option.some.injEq] at hx
          subst hx
          exact defaultFkName_length ..
  split at hs
  · cases hs; exact h1
  · split at hs
    · exact addIndex_lenInv h1 hs
    · cases hs; exact h1

/-! ### operation lists -/

theorem applyOp_inv {d} {s s' : Schema} {op : Op} (h : Inv s) (hs : applyOp d s op = .ok s') : Inv s' := by
  cases op with
  | addTable n e => exact addTable_inv h hs
  | addM2mTable n =>
    simp only [applyOp] at hs
    cases h1 : addTable s n .explicit none with
    | error e => simp [h1, Except.map] at hs
    | ok s1 =>
      simp only [h1, Except.map, Except.ok.injEq] at hs
      subst hs
      exact markM2m_inv _ (addTable_inv h h1)
  | addEntity t e r =>
    simp only [applyOp] at hs
    split at hs
    · exact addEntity_inv h hs
    · cases hs
  | addColumn t n nn => exact addColumn_inv h hs
  | addIndex t a c p u m => exact addIndex_inv h hs
  | addFk c n cols p pc ix => exact addFk_inv h hs

theorem applyOp_lenInv {d} {s s' : Schema} {op : Op} (h : LenInv d s) (hs : applyOp d s op = .ok s') : LenInv d s' := by
  cases op with
  | addTable n e => exact addTable_lenInv h (by simp) hs
  | addM2mTable n =>
    simp only [applyOp] at hs
    cases h1 : addTable s n .explicit none with
    | error e => simp [h1, Except.map] at hs
    | ok s1 =>
      simp only [h1, Except.map, Except.ok.injEq] at hs
      subst hs
      exact markM2m_lenInv _ (addTable_lenInv h (by simp) h1)
  | addEntity t e r =>
    simp only [applyOp] at hs
    split at hs
    · exact addEntity_lenInv h hs
    · cases hs
  | addColumn t n nn => exact addColumn_lenInv h (by simp) hs
  | addIndex t a c p u m => exact addIndex_lenInv h hs
  | addFk c n cols p pc ix => exact addFk_lenInv h hs

theorem runOps_inv {d} : ∀ {ops : List Op} {s s' : Schema}, Inv s → LenInv d s → runOps d s ops = .ok s' → Inv s' ∧ LenInv d s'
  | [], s, s', h, hl, hs => by simp only [runOps, Except.ok.injEq] at hs; subst hs; exact ⟨h, hl⟩
  | op :: rest, s, s', h, hl, hs => by
    simp only [runOps] at hs
    split at hs
    · rename_i s1 h1
      exact runOps_inv (applyOp_inv h h1) (applyOp_lenInv hl h1) hs
    · cases hs

end PonyVerif.Model.Schema
