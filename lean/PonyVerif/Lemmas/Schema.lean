/-
  C26 — invariants of the schema registries (Model/Schema.lean), preserved by every registry operation.
  Core Lean only (this file is imported by the executable mapping model, which carries the invariant in a subtype).
-/
import PonyVerif.Model.Schema
namespace PonyVerif.Model.Schema

/-! ### names -/

theorem lower_length (n : Name) : (lower n).length = n.length := by simp [lower]
theorem upper_length (n : Name) : (upper n).length = n.length := by simp [upper]

theorem normalizeName_length (d : Dialect) (n : Name) : (normalizeName d n).length ≤ maxNameLen d := by
  cases d <;> simp [normalizeName, lower, upper, List.length_take] <;> omega

theorem normalizeName_short (d : Dialect) (n : Name) (h : n.length ≤ maxNameLen d) :
    (normalizeName d n).length = n.length := by
  cases d <;> simp [normalizeName, lower, upper, List.length_take] <;> omega

theorem toLower_idem (c : Char) : c.toLower.toLower = c.toLower := by
  unfold Char.toLower
  by_cases h : c.val ≥ 'A'.val ∧ c.val ≤ 'Z'.val
  · simp only [h, and_self, dite_true]
    have e1 : 'A'.val = 65 := by decide
    have e2 : 'Z'.val = 90 := by decide
    have e3 : 'a'.val = 97 := by decide
    have h1 : (65 : UInt32) ≤ c.val := e1 ▸ h.1
    have h2 : c.val ≤ (90 : UInt32) := e2 ▸ h.2
    have : ¬ ((c.val + ('a'.val - 'A'.val)) ≥ 'A'.val ∧ (c.val + ('a'.val - 'A'.val)) ≤ 'Z'.val) := by
      intro ⟨_, hb⟩
      rw [e1, e2, e3] at hb
      rw [UInt32.le_iff_toNat_le] at h1 h2 hb
      rw [UInt32.toNat_add, UInt32.toNat_sub_of_le _ _ (by decide)] at hb
      simp at h1 h2 hb
      omega
    simp only [this, dite_false]
  · simp only [h, dite_false]

theorem lower_idem (n : Name) : lower (lower n) = lower n := by
  simp [lower, List.map_map, Function.comp_def, toLower_idem]

/-- does `normalize_name` lower-case (PostgreSQL, MySQL) -/
def lowerCasing : Dialect → Bool
  | .postgres => true | .mysql => true | _ => false

/-- what `normalize_name` guarantees about its result: it fits the limit, and on the lower-casing dialects it is
    in lower case -/
def NormOk (d : Dialect) (n : Name) : Prop := n.length ≤ maxNameLen d ∧ (lowerCasing d = true → lower n = n)

theorem normalizeName_ok (d : Dialect) (n : Name) : NormOk d (normalizeName d n) := by
  refine ⟨normalizeName_length d n, ?_⟩
  cases d <;> simp [lowerCasing, normalizeName, lower_idem]

theorem defaultIndexName_ok (d t c p u m) : NormOk d (defaultIndexName d t c p u m) := normalizeName_ok _ _
theorem defaultFkName_ok (d t c) : NormOk d (defaultFkName d t c) := normalizeName_ok _ _

/-! ### the invariant -/

def colKeys (s : Schema) : List (Name × Name) := s.columns.map (fun c => (c.table, c.name))

structure Inv (s : Schema) : Prop where
  tablesNodup : (tableNames s).Nodup
  colsNodup : (colKeys s).Nodup
  namesNodup : s.names.Nodup
  namesCount : ∀ n, s.names.count n = (objNames s).count n
  fkTables : ∀ f ∈ s.fks, f.table ∈ tableNames s ∧ f.parent ∈ tableNames s

/-- names tagged `norm` respect the dialect's limit (and are lower case on PostgreSQL / MySQL) -/
structure LenInv (d : Dialect) (s : Schema) : Prop where
  tables : ∀ t ∈ s.tables, t.src = .norm → NormOk d t.name
  columns : ∀ c ∈ s.columns, c.src = .norm → NormOk d c.name
  indexes : ∀ i ∈ s.indexes, ∀ n, i.name = some n → i.src = .norm → NormOk d n
  fks : ∀ f ∈ s.fks, ∀ n, f.name = some n → f.src = .norm → NormOk d n

theorem inv_empty : Inv {} := by
  constructor <;> simp [tableNames, colKeys, objNames]

theorem lenInv_empty (d) : LenInv d {} := by
  constructor <;> simp

theorem objNames_nodup {s : Schema} (h : Inv s) : (objNames s).Nodup := by
  rw [List.nodup_iff_count]
  intro a
  rw [← h.namesCount a]
  exact List.nodup_iff_count.mp h.namesNodup a

theorem mem_names_iff {s : Schema} (h : Inv s) (n : Name) : n ∈ s.names ↔ n ∈ objNames s := by
  rw [← List.count_pos_iff, ← List.count_pos_iff, h.namesCount]

/-! ### updTable -/

@[simp] theorem updTable_tableNames (s : Schema) (n : Name) (f : Table → Table) :
    tableNames (updTable s n f) = tableNames s := by
  simp only [tableNames, updTable, List.map_map]
  apply List.map_congr_left
  intro t _
  simp only [Function.comp]
  split <;> rfl

@[simp] theorem updTable_columns (s n f) : (updTable s n f).columns = s.columns := rfl
@[simp] theorem updTable_indexes (s n f) : (updTable s n f).indexes = s.indexes := rfl
@[simp] theorem updTable_fks (s n f) : (updTable s n f).fks = s.fks := rfl
@[simp] theorem updTable_names (s n f) : (updTable s n f).names = s.names := rfl

theorem updTable_objNames (s n f) : objNames (updTable s n f) = objNames s := by
  have := updTable_tableNames s n f
  simp only [tableNames] at this
  simp [objNames, this]

theorem updTable_inv {s : Schema} (n : Name) (f : Table → Table) (h : Inv s) : Inv (updTable s n f) := by
  constructor
  · simpa using h.tablesNodup
  · simpa [colKeys] using h.colsNodup
  · simpa using h.namesNodup
  · intro a; rw [updTable_objNames]; simpa using h.namesCount a
  · intro f' hf; simpa using h.fkTables f' (by simpa using hf)

theorem updTable_lenInv {d} {s : Schema} (n : Name) (f : Table → Table) (hf : ∀ t, (f t).src = t.src)
    (h : LenInv d s) : LenInv d (updTable s n f) := by
  constructor
  · intro t ht hs
    simp only [updTable, List.mem_map] at ht
    obtain ⟨t0, ht0, rfl⟩ := ht
    by_cases hc : (t0.name == n) = true
    · simp only [hc, if_true] at hs ⊢
      exact h.tables t0 ht0 (by simpa [hf] using hs)
    · simp only [hc] at hs ⊢
      exact h.tables t0 ht0 hs
  · simpa using h.columns
  · simpa using h.indexes
  · simpa using h.fks

/-! ### addTable -/

theorem addTable_inv {s s' : Schema} {n src e} (h : Inv s) (hs : addTable s n src e = .ok s') : Inv s' := by
  unfold addTable at hs
  split at hs; · cases hs
  split at hs; · cases hs
  rename_i h1 h2
  cases hs
  constructor
  · simp only [tableNames, List.map_append, List.map_cons, List.map_nil]
    rw [List.nodup_append]
    refine ⟨h.tablesNodup, by simp, ?_⟩
    intro a ha b hb
    simp at hb; subst hb
    intro hab; subst hab; exact h1 ha
  · simpa [colKeys] using h.colsNodup
  · rw [List.nodup_append]
    refine ⟨h.namesNodup, by simp, ?_⟩
    intro a ha b hb
    simp at hb; subst hb
    intro hab; subst hab; exact h2 ha
  · intro a
    have := h.namesCount a
    simp only [objNames, List.count_append, List.map_append, List.map_cons, List.map_nil] at this ⊢
    omega
  · intro f hf
    have := h.fkTables f hf
    simp only [tableNames, List.map_append, List.mem_append]
    exact ⟨Or.inl this.1, Or.inl this.2⟩

theorem addTable_lenInv {d} {s s' : Schema} {n src e} (h : LenInv d s) (hn : src = .norm → NormOk d n)
    (hs : addTable s n src e = .ok s') : LenInv d s' := by
  unfold addTable at hs
  split at hs; · cases hs
  split at hs; · cases hs
  cases hs
  constructor
  · intro t ht
    simp only [List.mem_append, List.mem_singleton] at ht
    rcases ht with ht | rfl
    · exact h.tables t ht
    · exact hn
  · exact h.columns
  · exact h.indexes
  · exact h.fks

theorem addEntity_inv {s s' : Schema} {t e r} (h : Inv s) (hs : addEntity s t e r = .ok s') : Inv s' := by
  unfold addEntity at hs
  split at hs; · cases hs
  split at hs; · cases hs
  cases hs
  exact updTable_inv _ _ h

theorem addEntity_lenInv {d} {s s' : Schema} {t e r} (h : LenInv d s) (hs : addEntity s t e r = .ok s') : LenInv d s' := by
  unfold addEntity at hs
  split at hs; · cases hs
  split at hs; · cases hs
  cases hs
  exact updTable_lenInv _ _ (fun _ => rfl) h

theorem markM2m_inv {s : Schema} (t : Name) (h : Inv s) : Inv (markM2m s t) := updTable_inv _ _ h
theorem markM2m_lenInv {d} {s : Schema} (t : Name) (h : LenInv d s) : LenInv d (markM2m s t) :=
  updTable_lenInv _ _ (fun _ => rfl) h

/-! ### addColumn -/

theorem addColumn_inv {s s' : Schema} {t n src nn} (h : Inv s) (hs : addColumn s t n src nn = .ok s') : Inv s' := by
  unfold addColumn at hs
  split at hs; · cases hs
  split at hs; · cases hs
  rename_i h1 h2
  cases hs
  constructor
  · exact h.tablesNodup
  · simp only [colKeys, List.map_append, List.map_cons, List.map_nil]
    rw [List.nodup_append]
    refine ⟨h.colsNodup, by simp, ?_⟩
    intro a ha b hb
    simp at hb; subst hb
    intro hab; subst hab
    apply h2
    simp only [List.mem_map] at ha
    obtain ⟨c, hc, hk⟩ := ha
    simp only [Prod.mk.injEq] at hk
    simp only [tableCols, List.any_eq_true, List.mem_filter]
    exact ⟨c, ⟨hc, by simp [hk.1]⟩, by simp [hk.2]⟩
  · exact h.namesNodup
  · intro a; simpa [objNames] using h.namesCount a
  · exact h.fkTables

theorem addColumn_lenInv {d} {s s' : Schema} {t n src nn} (h : LenInv d s) (hn : src = .norm → NormOk d n)
    (hs : addColumn s t n src nn = .ok s') : LenInv d s' := by
  unfold addColumn at hs
  split at hs; · cases hs
  split at hs; · cases hs
  cases hs
  constructor
  · exact h.tables
  · intro c hc
    simp only [List.mem_append, List.mem_singleton] at hc
    rcases hc with hc | rfl
    · exact h.columns c hc
    · exact hn
  · exact h.indexes
  · exact h.fks

/-! ### addIndex -/

theorem nameTaken_false {s : Schema} {n : Option Name} (h : nameTaken s n = false) : ∀ x, n = some x → x ∉ s.names := by
  intro x hx; subst hx
  simpa [nameTaken] using h

theorem setPk_inv {s : Schema} (t : Name) (k : PkKind) (h : Inv s) : Inv (setPk s t k) := by
  unfold setPk; split
  · exact updTable_inv _ _ h
  · exact h
theorem setPk_lenInv {d} {s : Schema} (t : Name) (k : PkKind) (h : LenInv d s) : LenInv d (setPk s t k) := by
  unfold setPk; split
  · exact updTable_lenInv _ _ (fun _ => rfl) h
  · exact h
@[simp] theorem setPk_names (s t k) : (setPk s t k).names = s.names := by unfold setPk; split <;> rfl
@[simp] theorem setPk_columns (s t k) : (setPk s t k).columns = s.columns := by unfold setPk; split <;> rfl
@[simp] theorem setPk_indexes (s t k) : (setPk s t k).indexes = s.indexes := by unfold setPk; split <;> rfl
@[simp] theorem setPk_fks (s t k) : (setPk s t k).fks = s.fks := by unfold setPk; split <;> rfl
@[simp] theorem setPk_tableNames (s t k) : tableNames (setPk s t k) = tableNames s := by
  unfold setPk; split
  · simp
  · rfl

theorem flagColumns_keys (cs : List Column) (t cols k u) :
    (flagColumns cs t cols k u).map (fun c => (c.table, c.name)) = cs.map (fun c => (c.table, c.name)) := by
  simp only [flagColumns, List.map_map]
  apply List.map_congr_left
  intro c _
  simp only [Function.comp]
  split <;> rfl

theorem flagColumns_mem {cs : List Column} {t cols k u} {c : Column} (h : c ∈ flagColumns cs t cols k u) :
    ∃ c0 ∈ cs, c.name = c0.name ∧ c.src = c0.src ∧ c.table = c0.table := by
  simp only [flagColumns, List.mem_map] at h
  obtain ⟨c0, h0, rfl⟩ := h
  refine ⟨c0, h0, ?_⟩
  split <;> simp

theorem commitIndex_inv {s : Schema} {t nm cols isPk uniq} (h : Inv s)
    (hn : ∀ x, nm.map (·.1) = some x → x ∉ s.names) : Inv (commitIndex s t nm cols isPk uniq) := by
  have h1 := setPk_inv t isPk h
  constructor
  · simpa [commitIndex, tableNames] using h1.tablesNodup
  · simp only [commitIndex, colKeys, flagColumns_keys]
    simpa [colKeys] using h.colsNodup
  · cases nm with
    | none => simpa [commitIndex] using h.namesNodup
    | some p =>
      simp only [commitIndex, setPk_names, Option.map_some, Option.toList_some]
      rw [List.nodup_append]
      refine ⟨h.namesNodup, by simp, ?_⟩
      intro a ha b hb
      simp at hb; subst hb
      intro hab; subst hab
      exact hn _ rfl ha
  · intro a
    have := h1.namesCount a
    cases nm with
    | none =>
      simp only [objNames, commitIndex, List.count_append, List.filterMap_append, Option.map_none, Option.toList_none,
        List.filterMap_cons, List.filterMap_nil, List.append_nil] at this ⊢
      omega
    | some p =>
      simp only [objNames, commitIndex, List.count_append, List.filterMap_append, Option.map_some, Option.toList_some,
        List.filterMap_cons, List.filterMap_nil] at this ⊢
      omega
  · intro f hf
    have := h1.fkTables f (by simpa [commitIndex] using hf)
    simpa [commitIndex, tableNames] using this

theorem commitIndex_lenInv {d} {s : Schema} {t nm cols isPk uniq} (h : LenInv d s)
    (hn : ∀ p, nm = some p → p.2 = .norm → NormOk d p.1) : LenInv d (commitIndex s t nm cols isPk uniq) := by
  have h1 := setPk_lenInv (d := d) t isPk h
  constructor
  · exact h1.tables
  · intro c hc hs
    simp only [commitIndex] at hc
    obtain ⟨c0, h0, e1, e2, _⟩ := flagColumns_mem hc
    rw [e1]; exact h1.columns c0 h0 (e2 ▸ hs)
  · intro i hi n hin his
    simp only [commitIndex, List.mem_append, List.mem_singleton] at hi
    rcases hi with hi | rfl
    · exact h1.indexes i hi n hin his
    · cases nm with
      | none => simp at hin
      | some p =>
        simp only [Option.map_some, Option.some.injEq, Option.getD_some] at hin his
        subst hin
        exact hn p rfl his
  · exact h1.fks

theorem indexNameOf_len (d t arg cols isPk isUnique m2m) :
    ∀ p, indexNameOf d t arg cols isPk isUnique m2m = some p → p.2 = .norm → NormOk d p.1 := by
  intro p hp hnorm
  unfold indexNameOf at hp
  split at hp
  · cases hp; cases hnorm
  · split at hp
    · cases hp
    · cases hp; exact defaultIndexName_ok ..

/-- the only two outcomes of a successful `add_index`: nothing changes, or one index is committed under a fresh name -/
theorem addIndex_ok {d} {s s' : Schema} {t arg cols isPk isUnique m2m}
    (hs : addIndex d s t arg cols isPk isUnique m2m = .ok s') :
    s' = s ∨ (nameTaken s ((indexNameOf d t arg cols isPk isUnique m2m).map (·.1)) = false ∧
      ∃ u, s' = commitIndex s t (indexNameOf d t arg cols isPk isUnique m2m) cols isPk u) := by
  unfold addIndex at hs
  cases hf : findTable s t with
  | none => simp [hf] at hs
  | some tbl =>
    simp only [hf] at hs
    by_cases h1 : cols.any (fun c => !(tableCols s t).any (·.name == c)) = true
    · simp [h1] at hs
    · by_cases h2 : arg = .false
      · simp [h1, h2] at hs
      · simp only [h1, h2, if_false] at hs
        cases hx : (tableIdx s t).find? (·.cols == cols) with
        | some ix =>
          simp only [hx, sameIndex] at hs
          by_cases hsame : ix.name = (indexNameOf d t arg cols isPk isUnique m2m).map (·.1) ∧ ix.isPk = isPk ∧ some ix.isUnique = isUnique
          · rw [if_pos hsame] at hs; cases hs; exact Or.inl rfl
          · rw [if_neg hsame] at hs
            by_cases hc : cols = []
            · rw [if_pos hc] at hs; cases hs
            · rw [if_neg hc] at hs; cases hs
        | none =>
          simp only [hx, newIndex] at hs
          by_cases hc : cols = []
          · rw [if_pos hc] at hs; cases hs
          rw [if_neg hc] at hs
          by_cases hp : isPk ≠ .no ∧ tbl.pkSet = true
          · rw [if_pos hp] at hs; cases hs
          rw [if_neg hp] at hs
          by_cases hu : isPk ≠ .no ∧ isUnique = some false
          · rw [if_pos hu] at hs; cases hs
          rw [if_neg hu] at hs
          by_cases hnt : nameTaken s ((indexNameOf d t arg cols isPk isUnique m2m).map (·.1)) = true
          · rw [if_pos hnt] at hs; cases hs
          rw [if_neg hnt] at hs
          cases hs
          exact Or.inr ⟨by simpa using hnt, _, rfl⟩

theorem addIndex_inv {d} {s s' : Schema} {t arg cols isPk isUnique m2m} (h : Inv s)
    (hs : addIndex d s t arg cols isPk isUnique m2m = .ok s') : Inv s' := by
  rcases addIndex_ok hs with rfl | ⟨hnt, u, rfl⟩
  · exact h
  · exact commitIndex_inv h (nameTaken_false hnt)

theorem addIndex_lenInv {d} {s s' : Schema} {t arg cols isPk isUnique m2m} (h : LenInv d s)
    (hs : addIndex d s t arg cols isPk isUnique m2m = .ok s') : LenInv d s' := by
  rcases addIndex_ok hs with rfl | ⟨_, u, rfl⟩
  · exact h
  · exact commitIndex_lenInv h (indexNameOf_len _ _ _ _ _ _ _)

/-! ### addFk -/

theorem mem_tableNames_of_findTable {s : Schema} {n : Name} {t : Table} (h : findTable s n = some t) : n ∈ tableNames s := by
  unfold findTable at h
  have h1 := List.mem_of_find?_eq_some h
  have h2 := List.find?_some h
  simp only [tableNames, List.mem_map]
  exact ⟨t, h1, by simpa using h2⟩

theorem commitFk_inv {s : Schema} {c nm cols p pc} (h : Inv s) (hn : nm.1 ∉ s.names)
    (hc : c ∈ tableNames s) (hp : p ∈ tableNames s) : Inv (commitFk s c nm cols p pc) := by
  constructor
  · exact h.tablesNodup
  · exact h.colsNodup
  · simp only [commitFk]
    rw [List.nodup_append]
    refine ⟨h.namesNodup, by simp, ?_⟩
    intro a ha b hb
    simp at hb; subst hb
    intro hab; subst hab
    exact hn ha
  · intro a
    have := h.namesCount a
    simp only [commitFk, objNames, List.count_append, List.filterMap_append, List.filterMap_cons, List.filterMap_nil] at this ⊢
    omega
  · intro f hf
    simp only [commitFk, List.mem_append, List.mem_singleton] at hf
    rcases hf with hf | rfl
    · exact h.fkTables f hf
    · exact ⟨hc, hp⟩

theorem commitFk_lenInv {d} {s : Schema} {c nm cols p pc} (h : LenInv d s) (hn : nm.2 = .norm → NormOk d nm.1) :
    LenInv d (commitFk s c nm cols p pc) := by
  constructor
  · exact h.tables
  · exact h.columns
  · exact h.indexes
  · intro f hf x hx hsrc
    simp only [commitFk, List.mem_append, List.mem_singleton] at hf
    rcases hf with hf | rfl
    · exact h.fks f hf x hx hsrc
    · simp only [Option.some.injEq] at hx
      subst hx
      exact hn hsrc

theorem fkNameOf_len (d c cols n) : (fkNameOf d c cols n).2 = .norm → NormOk d (fkNameOf d c cols n).1 := by
  cases n with
  | some n => simp [fkNameOf]
  | none => intro _; exact defaultFkName_ok ..

/-- a successful `add_foreign_key` commits the key under a fresh name and then possibly adds the implicit index -/
theorem addFk_ok {d} {s s' : Schema} {c n cols p pc ix} (hs : addFk d s c n cols p pc ix = .ok s') :
    c ∈ tableNames s ∧ p ∈ tableNames s ∧ (fkNameOf d c cols n).1 ∉ s.names ∧
    ∃ m2m, fkIndex d (commitFk s c (fkNameOf d c cols n) cols p pc) c cols ix m2m = .ok s' := by
  unfold addFk at hs
  split at hs
  · cases hs
  · cases hs
  rename_i ctbl ptbl hc hp
  split at hs; · cases hs
  split at hs; · cases hs
  split at hs; · cases hs
  split at hs; · cases hs
  split at hs; · cases hs
  rename_i hnames
  exact ⟨mem_tableNames_of_findTable hc, mem_tableNames_of_findTable hp, hnames, _, hs⟩

theorem fkIndex_inv {d} {s s' : Schema} {c cols ix m2m} (h : Inv s) (hs : fkIndex d s c cols ix m2m = .ok s') : Inv s' := by
  unfold fkIndex at hs
  split at hs
  · cases hs; exact h
  · split at hs
    · exact addIndex_inv h hs
    · cases hs; exact h

theorem fkIndex_lenInv {d} {s s' : Schema} {c cols ix m2m} (h : LenInv d s) (hs : fkIndex d s c cols ix m2m = .ok s') : LenInv d s' := by
  unfold fkIndex at hs
  split at hs
  · cases hs; exact h
  · split at hs
    · exact addIndex_lenInv h hs
    · cases hs; exact h

theorem addFk_inv {d} {s s' : Schema} {c n cols p pc ix} (h : Inv s) (hs : addFk d s c n cols p pc ix = .ok s') : Inv s' := by
  obtain ⟨hc, hp, hn, m2m, h2⟩ := addFk_ok hs
  exact fkIndex_inv (commitFk_inv h hn hc hp) h2

theorem addFk_lenInv {d} {s s' : Schema} {c n cols p pc ix} (h : LenInv d s) (hs : addFk d s c n cols p pc ix = .ok s') : LenInv d s' := by
  obtain ⟨_, _, _, m2m, h2⟩ := addFk_ok hs
  exact fkIndex_lenInv (commitFk_lenInv h (fkNameOf_len _ _ _ _)) h2

/-! ### monotonicity: registry operations never remove or rename a column, never change its nullability, and never
    remove or alter a foreign key or an index -/

/-- the table `t` has a column `c` with NOT NULL flag `nn` -/
def HasCol (s : Schema) (t c : Name) (nn : Bool) : Prop :=
  ∃ col ∈ s.columns, col.table = t ∧ col.name = c ∧ col.notNull = nn

/-- the table `child` has a foreign key on `cols` referencing `parentCols` of `parent` -/
def HasFk (s : Schema) (child : Name) (cols : List Name) (parent : Name) (parentCols : List Name) : Prop :=
  ∃ f ∈ s.fks, f.table = child ∧ f.cols = cols ∧ f.parent = parent ∧ f.parentCols = parentCols

structure Mono (s s' : Schema) : Prop where
  cols : ∀ t c nn, HasCol s t c nn → HasCol s' t c nn
  fks : ∀ f ∈ s.fks, f ∈ s'.fks
  idx : ∀ i ∈ s.indexes, i ∈ s'.indexes

theorem Mono.refl (s : Schema) : Mono s s := ⟨fun _ _ _ h => h, fun _ h => h, fun _ h => h⟩
theorem Mono.trans {a b c : Schema} (h1 : Mono a b) (h2 : Mono b c) : Mono a c :=
  ⟨fun t x nn h => h2.cols t x nn (h1.cols t x nn h), fun f h => h2.fks f (h1.fks f h), fun i h => h2.idx i (h1.idx i h)⟩

theorem HasFk.mono {s s' : Schema} (h : Mono s s') {c cols p pc} : HasFk s c cols p pc → HasFk s' c cols p pc := by
  rintro ⟨f, hf, h1⟩; exact ⟨f, h.fks f hf, h1⟩

theorem mono_of_same {s s' : Schema} (hc : s'.columns = s.columns) (hf : s'.fks = s.fks) (hi : s'.indexes = s.indexes) : Mono s s' := by
  refine ⟨?_, ?_, ?_⟩
  · rintro t c nn ⟨col, h, h1⟩; exact ⟨col, hc ▸ h, h1⟩
  · intro f h; exact hf ▸ h
  · intro i h; exact hi ▸ h

theorem updTable_mono (s : Schema) (n : Name) (f : Table → Table) : Mono s (updTable s n f) := mono_of_same rfl rfl rfl
theorem markM2m_mono (s : Schema) (t : Name) : Mono s (markM2m s t) := updTable_mono _ _ _

theorem addTable_mono {s s' : Schema} {n src e} (hs : addTable s n src e = .ok s') : Mono s s' := by
  unfold addTable at hs
  split at hs; · cases hs
  split at hs; · cases hs
  cases hs; exact mono_of_same rfl rfl rfl

theorem addEntity_mono {s s' : Schema} {t e r} (hs : addEntity s t e r = .ok s') : Mono s s' := by
  unfold addEntity at hs
  split at hs; · cases hs
  split at hs; · cases hs
  cases hs; exact updTable_mono _ _ _

theorem addColumn_mono {s s' : Schema} {t n src nn} (hs : addColumn s t n src nn = .ok s') : Mono s s' ∧ HasCol s' t n nn := by
  unfold addColumn at hs
  split at hs; · cases hs
  split at hs; · cases hs
  cases hs
  refine ⟨⟨?_, fun _ h => h, fun _ h => h⟩, ?_⟩
  · rintro t' c nn' ⟨col, h, h1⟩; exact ⟨col, by simp [h], h1⟩
  · exact ⟨{ table := t, name := n, src := src, notNull := nn, isPk := .no, isPkPart := false, isUnique := false }, by simp, rfl, rfl, rfl⟩

theorem flagColumns_has {cs : List Column} {t cols k u} {c : Column} (h : c ∈ cs) :
    ∃ c' ∈ flagColumns cs t cols k u, c'.table = c.table ∧ c'.name = c.name ∧ c'.notNull = c.notNull := by
  simp only [flagColumns, List.mem_map]
  refine ⟨_, ⟨c, h, rfl⟩, ?_⟩
  split <;> simp

theorem commitIndex_mono (s : Schema) (t nm cols isPk uniq) : Mono s (commitIndex s t nm cols isPk uniq) := by
  refine ⟨?_, ?_, ?_⟩
  · rintro t' c nn ⟨col, h, h1, h2, h3⟩
    obtain ⟨c', hc', e1, e2, e3⟩ := flagColumns_has (t := t) (cols := cols) (k := isPk) (u := uniq) (by simpa using h : col ∈ (setPk s t isPk).columns)
    exact ⟨c', by simpa [commitIndex] using hc', e1.trans h1, e2.trans h2, e3.trans h3⟩
  · intro f h; simpa [commitIndex] using h
  · intro i h; simp [commitIndex, h]

theorem addIndex_mono {d} {s s' : Schema} {t arg cols isPk isUnique m2m}
    (hs : addIndex d s t arg cols isPk isUnique m2m = .ok s') : Mono s s' := by
  rcases addIndex_ok hs with rfl | ⟨_, u, rfl⟩
  · exact Mono.refl _
  · exact commitIndex_mono ..

theorem commitFk_mono (s : Schema) (c nm cols p pc) : Mono s (commitFk s c nm cols p pc) ∧ HasFk (commitFk s c nm cols p pc) c cols p pc := by
  refine ⟨⟨fun _ _ _ h => h, ?_, fun _ h => h⟩, ?_⟩
  · intro f h; simp [commitFk, h]
  · exact ⟨{ table := c, name := some nm.1, src := nm.2, cols := cols, parent := p, parentCols := pc }, by simp [commitFk], rfl, rfl, rfl, rfl⟩

theorem fkIndex_mono {d} {s s' : Schema} {c cols ix m2m} (hs : fkIndex d s c cols ix m2m = .ok s') : Mono s s' := by
  unfold fkIndex at hs
  split at hs
  · cases hs; exact Mono.refl _
  · split at hs
    · exact addIndex_mono hs
    · cases hs; exact Mono.refl _

theorem addFk_mono {d} {s s' : Schema} {c n cols p pc ix} (hs : addFk d s c n cols p pc ix = .ok s') :
    Mono s s' ∧ HasFk s' c cols p pc := by
  obtain ⟨_, _, _, m2m, h2⟩ := addFk_ok hs
  have h1 := commitFk_mono s c (fkNameOf d c cols n) cols p pc
  have h3 := fkIndex_mono h2
  exact ⟨h1.1.trans h3, h1.2.mono h3⟩

/-- the table `t` has an index on exactly the column list `cols` with the given primary-key kind; for a non-primary
    index its uniqueness is `uniq` -/
def HasIdx (s : Schema) (t : Name) (cols : List Name) (isPk : PkKind) (uniq : Bool) : Prop :=
  ∃ i ∈ s.indexes, i.table = t ∧ i.cols = cols ∧ i.isPk = isPk ∧ (isPk = .no → i.isUnique = uniq)

theorem HasIdx.mono {s s' : Schema} (h : Mono s s') {t cols k u} : HasIdx s t cols k u → HasIdx s' t cols k u := by
  rintro ⟨i, hi, h1⟩; exact ⟨i, h.idx i hi, h1⟩

/-- a successful `add_index` leaves an index with the requested table, columns, primary-key kind and uniqueness in
    the schema (either the one it created, or the identical one that existed) -/
theorem addIndex_has {d} {s s' : Schema} {t arg cols isPk isUnique m2m}
    (hs : addIndex d s t arg cols isPk isUnique m2m = .ok s') : HasIdx s' t cols isPk (isUnique.getD false) := by
  unfold addIndex at hs
  cases hf : findTable s t with
  | none => simp [hf] at hs
  | some tbl =>
    simp only [hf] at hs
    by_cases h1 : cols.any (fun c => !(tableCols s t).any (·.name == c)) = true
    · simp [h1] at hs
    · by_cases h2 : arg = .false
      · simp [h1, h2] at hs
      · simp only [h1, h2, if_false] at hs
        cases hx : (tableIdx s t).find? (·.cols == cols) with
        | some ix =>
          simp only [hx, sameIndex] at hs
          by_cases hsame : ix.name = (indexNameOf d t arg cols isPk isUnique m2m).map (·.1) ∧ ix.isPk = isPk ∧ some ix.isUnique = isUnique
          · rw [if_pos hsame] at hs; cases hs
            have hm := List.mem_of_find?_eq_some hx
            have hc := List.find?_some hx
            simp only [tableIdx, List.mem_filter] at hm
            refine ⟨ix, hm.1, by simpa using hm.2, by simpa using hc, hsame.2.1, ?_⟩
            intro _
            rw [← hsame.2.2]; rfl
          · rw [if_neg hsame] at hs
            by_cases hc : cols = []
            · rw [if_pos hc] at hs; cases hs
            · rw [if_neg hc] at hs; cases hs
        | none =>
          simp only [hx, newIndex] at hs
          by_cases hc : cols = []
          · rw [if_pos hc] at hs; cases hs
          rw [if_neg hc] at hs
          by_cases hp : isPk ≠ .no ∧ tbl.pkSet = true
          · rw [if_pos hp] at hs; cases hs
          rw [if_neg hp] at hs
          by_cases hu : isPk ≠ .no ∧ isUnique = some false
          · rw [if_pos hu] at hs; cases hs
          rw [if_neg hu] at hs
          by_cases hnt : nameTaken s ((indexNameOf d t arg cols isPk isUnique m2m).map (·.1)) = true
          · rw [if_pos hnt] at hs; cases hs
          rw [if_neg hnt] at hs
          cases hs
          refine ⟨{ table := t, name := (indexNameOf d t arg cols isPk isUnique m2m).map (·.1),
                     src := ((indexNameOf d t arg cols isPk isUnique m2m).map (·.2)).getD .norm, cols := cols, isPk := isPk,
                     isUnique := if isPk ≠ .no then true else isUnique.getD false }, by simp [commitIndex], rfl, rfl, rfl, ?_⟩
          intro hno
          simp [hno]

/-! ### column flags: `column.is_unique` is what `Column.get_sql` renders as UNIQUE; a single-column unique index reaches
    the DDL only through this flag -/

/-- the column of every single-column unique index (primary keys included) carries the `is_unique` flag -/
def FlagInv (s : Schema) : Prop :=
  ∀ i ∈ s.indexes, i.isUnique = true → ∀ c, i.cols = [c] →
    ∃ col ∈ s.columns, col.table = i.table ∧ col.name = c ∧ col.isUnique = true

theorem flagInv_empty : FlagInv {} := by intro i hi; cases hi

theorem flagInv_of_same {s s' : Schema} (hc : s'.columns = s.columns) (hi : s'.indexes = s.indexes) (h : FlagInv s) : FlagInv s' := by
  intro i hi' hu c hcols
  obtain ⟨col, hcol, h1⟩ := h i (hi ▸ hi') hu c hcols
  exact ⟨col, hc ▸ hcol, h1⟩

theorem addTable_flagInv {s s' : Schema} {n src e} (h : FlagInv s) (hs : addTable s n src e = .ok s') : FlagInv s' := by
  unfold addTable at hs
  split at hs; · cases hs
  split at hs; · cases hs
  cases hs; exact flagInv_of_same rfl rfl h

theorem updTable_flagInv {s : Schema} (n : Name) (f : Table → Table) (h : FlagInv s) : FlagInv (updTable s n f) :=
  flagInv_of_same rfl rfl h

theorem addEntity_flagInv {s s' : Schema} {t e r} (h : FlagInv s) (hs : addEntity s t e r = .ok s') : FlagInv s' := by
  unfold addEntity at hs
  split at hs; · cases hs
  split at hs; · cases hs
  cases hs; exact updTable_flagInv _ _ h

theorem addColumn_flagInv {s s' : Schema} {t n src nn} (h : FlagInv s) (hs : addColumn s t n src nn = .ok s') : FlagInv s' := by
  unfold addColumn at hs
  split at hs; · cases hs
  split at hs; · cases hs
  cases hs
  intro i hi hu c hcols
  obtain ⟨col, hcol, h1⟩ := h i hi hu c hcols
  exact ⟨col, by simp [hcol], h1⟩

theorem flagColumns_unique {cs : List Column} {t cols k u} {c : Column} (h : c ∈ cs) :
    ∃ c' ∈ flagColumns cs t cols k u, c'.table = c.table ∧ c'.name = c.name ∧
      c'.isUnique = (c.isUnique || ((c.table == t && cols.contains c.name) && (u && cols.length == 1))) := by
  simp only [flagColumns, List.mem_map]
  refine ⟨_, ⟨c, h, rfl⟩, ?_⟩
  cases hc : (c.table == t && cols.contains c.name)
  · simp
  · simp

theorem commitIndex_flagInv {s : Schema} {t nm cols isPk uniq} (h : FlagInv s)
    (hcols : ∀ c ∈ cols, ∃ col ∈ s.columns, col.table = t ∧ col.name = c) : FlagInv (commitIndex s t nm cols isPk uniq) := by
  intro i hi hu c hc
  simp only [commitIndex, List.mem_append, List.mem_singleton, setPk_indexes] at hi
  rcases hi with hi | rfl
  · obtain ⟨col, hcol, h1, h2, h3⟩ := h i hi hu c hc
    obtain ⟨c', hc', e1, e2, e3⟩ := flagColumns_unique (t := t) (cols := cols) (k := isPk) (u := uniq) (by simpa using hcol : col ∈ (setPk s t isPk).columns)
    exact ⟨c', by simpa [commitIndex] using hc', e1.trans h1, e2.trans h2, by rw [e3, h3]; rfl⟩
  · simp only at hu hc
    obtain ⟨col, hcol, h1, h2⟩ := hcols c (by rw [hc]; simp)
    obtain ⟨c', hc', e1, e2, e3⟩ := flagColumns_unique (t := t) (cols := cols) (k := isPk) (u := uniq) (by simpa using hcol : col ∈ (setPk s t isPk).columns)
    refine ⟨c', by simpa [commitIndex] using hc', e1.trans h1, e2.trans h2, ?_⟩
    rw [e3, h1, h2, hc, hu]; simp

theorem addIndex_cols {d} {s s' : Schema} {t arg cols isPk isUnique m2m}
    (hs : addIndex d s t arg cols isPk isUnique m2m = .ok s') : ∀ c ∈ cols, ∃ col ∈ s.columns, col.table = t ∧ col.name = c := by
  unfold addIndex at hs
  cases hf : findTable s t with
  | none => simp [hf] at hs
  | some tbl =>
    simp only [hf] at hs
    by_cases h1 : cols.any (fun c => !(tableCols s t).any (·.name == c)) = true
    · simp [h1] at hs
    · intro c hc
      simp only [List.any_eq_true, Bool.not_eq_true', not_exists, not_and, Bool.not_eq_false] at h1
      have := h1 c hc
      simp only [tableCols, List.mem_filter] at this
      obtain ⟨col, ⟨hcol, ht⟩, hn⟩ := this
      exact ⟨col, hcol, by simpa using ht, by simpa using hn⟩

theorem addIndex_flagInv {d} {s s' : Schema} {t arg cols isPk isUnique m2m} (h : FlagInv s)
    (hs : addIndex d s t arg cols isPk isUnique m2m = .ok s') : FlagInv s' := by
  have hcols := addIndex_cols hs
  rcases addIndex_ok hs with rfl | ⟨_, u, rfl⟩
  · exact h
  · exact commitIndex_flagInv h hcols

theorem addFk_flagInv {d} {s s' : Schema} {c n cols p pc ix} (h : FlagInv s) (hs : addFk d s c n cols p pc ix = .ok s') : FlagInv s' := by
  obtain ⟨_, _, _, m2m, h2⟩ := addFk_ok hs
  have h1 : FlagInv (commitFk s c (fkNameOf d c cols n) cols p pc) := flagInv_of_same rfl rfl h
  unfold fkIndex at h2
  split at h2
  · cases h2; exact h1
  · split at h2
    · exact addIndex_flagInv h1 h2
    · cases h2; exact h1

theorem applyOp_flagInv {d} {s s' : Schema} {op : Op} (h : FlagInv s) (hs : applyOp d s op = .ok s') : FlagInv s' := by
  cases op with
  | addTable n e => exact addTable_flagInv h hs
  | addM2mTable n =>
    simp only [applyOp] at hs
    cases h1 : addTable s n .explicit none with
    | error e => simp [h1, Except.map] at hs
    | ok s1 =>
      simp only [h1, Except.map, Except.ok.injEq] at hs
      subst hs
      exact updTable_flagInv _ _ (addTable_flagInv h h1)
  | addEntity t e r =>
    simp only [applyOp] at hs
    split at hs
    · exact addEntity_flagInv h hs
    · cases hs
  | addColumn t n nn => exact addColumn_flagInv h hs
  | addIndex t a c p u m => exact addIndex_flagInv h hs
  | addFk c n cols p pc ix => exact addFk_flagInv h hs

theorem runOps_flagInv {d} : ∀ {ops : List Op} {s s' : Schema}, FlagInv s → runOps d s ops = .ok s' → FlagInv s'
  | [], s, s', h, hs => by simp only [runOps, Except.ok.injEq] at hs; subst hs; exact h
  | op :: rest, s, s', h, hs => by
    simp only [runOps] at hs
    split at hs
    · rename_i s1 h1
      exact runOps_flagInv (applyOp_flagInv h h1) hs
    · cases hs

/-- at most one column of a given name per table -/
theorem col_unique {s : Schema} (h : Inv s) {c1 : Column} (h1 : c1 ∈ s.columns) :
    (s.columns.filter (fun c => c.table == c1.table && c.name == c1.name)).length = 1 := by
  have hk := h.colsNodup
  unfold colKeys at hk
  have hcount := List.nodup_iff_count.mp hk (c1.table, c1.name)
  rw [List.count_eq_countP, List.countP_map] at hcount
  have hpos : 0 < List.countP ((fun x => x == (c1.table, c1.name)) ∘ fun c : Column => (c.table, c.name)) s.columns :=
    List.countP_pos_iff.mpr ⟨c1, h1, by simp⟩
  have : List.countP ((fun x => x == (c1.table, c1.name)) ∘ fun c : Column => (c.table, c.name)) s.columns =
      (s.columns.filter (fun c => c.table == c1.table && c.name == c1.name)).length := by
    rw [List.countP_eq_length_filter]
    congr 1
  omega

/-! ### creation order -/

/-- `p` is a parent table of `c` (a foreign key of `c` references `p ≠ c`) -/
def ParentRel (s : Schema) (p c : Name) : Prop := p ∈ parents s c

/-- every table is preceded by each of its parents, unless the table has an infinite chain of ancestors
    (it lies on, or depends on, a cycle of foreign keys) -/
def GoodOrder (s : Schema) (l : List Name) : Prop :=
  ∀ pre c post, l = pre ++ c :: post → ∀ p ∈ parents s c, p ∈ pre ∨ ¬ Acc (ParentRel s) c

theorem getLast?_split {α} {l : List α} {t : α} (h : l.getLast? = some t) : l = l.dropLast ++ [t] := by
  rcases List.eq_nil_or_concat l with rfl | ⟨l', b, rfl⟩
  · simp at h
  · simp at h; subst h; simp

theorem goodOrder_snoc {s : Schema} {acc : List Name} {t : Name} (h : GoodOrder s acc)
    (ht : (∀ p ∈ parents s t, p ∈ acc) ∨ ¬ Acc (ParentRel s) t) : GoodOrder s (acc ++ [t]) := by
  intro pre c post heq p hp
  rcases List.eq_nil_or_concat post with rfl | ⟨post', x, rfl⟩
  · have := List.append_inj' heq (by simp)
    obtain ⟨h1, h2⟩ := this
    simp at h2; subst h2; subst h1
    rcases ht with ht | ht
    · exact Or.inl (ht p hp)
    · exact Or.inr ht
  · have heq' : acc ++ [t] = (pre ++ c :: post') ++ [x] := by simpa using heq
    obtain ⟨h1, _⟩ := List.append_inj' heq' (by simp)
    exact h pre c post' h1 p hp

theorem not_acc_of_closed {s : Schema} {todo created acc : List Name}
    (hclosed : ∀ t ∈ todo, ∀ p ∈ parents s t, p ∈ acc ∨ p ∈ todo)
    (hpopped : ∀ x ∈ acc, x ∈ created ∨ ¬ Acc (ParentRel s) x)
    (hnone : todo.find? (ready s created) = none) : ∀ t, Acc (ParentRel s) t → t ∉ todo := by
  intro t hacc
  induction hacc with
  | intro t hpre ih =>
    intro ht
    have hnr := (List.find?_eq_none.mp hnone) t ht
    simp only [ready, List.all_eq_true] at hnr
    have : ∃ p ∈ parents s t, p ∉ created := by
      apply Classical.byContradiction
      intro hcon
      apply hnr
      intro p hp
      simp only [List.contains_iff_mem]
      apply Classical.byContradiction
      intro hpa
      exact hcon ⟨p, hp, hpa⟩
    obtain ⟨p, hp, hpc⟩ := this
    rcases hclosed t ht p hp with h | h
    · rcases hpopped p h with h' | h'
      · exact hpc h'
      · exact h' (hpre p hp)
    · exact ih p hp h

theorem orderLoop_spec (s : Schema) : ∀ (fuel : Nat) (todo created acc : List Name), todo.length ≤ fuel →
    (∀ t ∈ todo, ∀ p ∈ parents s t, p ∈ acc ∨ p ∈ todo) → (∀ x ∈ created, x ∈ acc) →
    (∀ x ∈ acc, x ∈ created ∨ ¬ Acc (ParentRel s) x) → GoodOrder s acc →
    (orderLoop s fuel todo created acc).Perm (acc ++ todo) ∧ GoodOrder s (orderLoop s fuel todo created acc) := by
  intro fuel
  induction fuel with
  | zero =>
    intro todo created acc hlen _ _ _ hg
    have : todo = [] := List.eq_nil_of_length_eq_zero (by omega)
    subst this
    simp [orderLoop, hg]
  | succ fuel ih =>
    intro todo created acc hlen hclosed hsub hpopped hg
    simp only [orderLoop]
    cases hf : todo.find? (ready s created) with
    | some t =>
      simp only
      have htm : t ∈ todo := List.mem_of_find?_eq_some hf
      have hr : ready s created t = true := List.find?_some hf
      have hpar : ∀ p ∈ parents s t, p ∈ acc := by
        intro p hp
        simp only [ready, List.all_eq_true] at hr
        exact hsub p (by simpa using hr p hp)
      have hperm : (acc ++ [t] ++ todo.erase t).Perm (acc ++ todo) := by
        rw [List.append_assoc]
        exact List.Perm.append_left _ (List.perm_cons_erase htm).symm
      have := ih (todo.erase t) (created ++ [t]) (acc ++ [t])
        (by rw [List.length_erase_of_mem htm]; omega)
        (by
          intro t' ht' p hp
          rcases hclosed t' (List.mem_of_mem_erase ht') p hp with h | h
          · exact Or.inl (by simp [h])
          · have : p ∈ acc ++ [t] ++ todo.erase t := (hperm.mem_iff).mpr (by simp [h])
            simp only [List.mem_append] at this ⊢
            rcases this with (h1 | h1) | h1
            · exact Or.inl (Or.inl h1)
            · exact Or.inl (Or.inr h1)
            · exact Or.inr h1)
        (by
          intro x hx
          simp only [List.mem_append, List.mem_singleton] at hx ⊢
          rcases hx with hx | hx
          · exact Or.inl (hsub x hx)
          · exact Or.inr hx)
        (by
          intro x hx
          simp only [List.mem_append, List.mem_singleton] at hx ⊢
          rcases hx with hx | hx
          · rcases hpopped x hx with h | h
            · exact Or.inl (Or.inl h)
            · exact Or.inr h
          · exact Or.inl (Or.inr hx))
        (goodOrder_snoc hg (Or.inl hpar))
      exact ⟨this.1.trans hperm, this.2⟩
    | none =>
      simp only
      cases hl : todo.getLast? with
      | none =>
        have : todo = [] := List.getLast?_eq_none_iff.mp hl
        subst this
        simp [hg]
      | some t =>
        simp only
        have hsplit := getLast?_split hl
        have htm : t ∈ todo := by rw [hsplit]; simp
        have hna : ¬ Acc (ParentRel s) t := fun hacc => not_acc_of_closed hclosed hpopped hf t hacc htm
        have hperm : (acc ++ [t] ++ todo.dropLast).Perm (acc ++ todo) := by
          rw [List.append_assoc]
          apply List.Perm.append_left
          conv => rhs; rw [hsplit]
          exact List.perm_append_comm
        have := ih todo.dropLast created (acc ++ [t])
          (by rw [List.length_dropLast]; omega)
          (by
            intro t' ht' p hp
            have ht'' : t' ∈ todo := by rw [hsplit]; simp [ht']
            have : p ∈ acc ++ [t] ++ todo.dropLast := (hperm.mem_iff).mpr (by
              rcases hclosed t' ht'' p hp with h | h <;> simp [h])
            simp only [List.mem_append] at this ⊢
            rcases this with (h1 | h1) | h1
            · exact Or.inl (Or.inl h1)
            · exact Or.inl (Or.inr h1)
            · exact Or.inr h1)
          (by intro x hx; simp [hsub x hx])
          (by
            intro x hx
            simp only [List.mem_append, List.mem_singleton] at hx
            rcases hx with hx | hx
            · exact hpopped x hx
            · exact Or.inr (hx ▸ hna))
          (goodOrder_snoc hg (Or.inr hna))
        exact ⟨this.1.trans hperm, this.2⟩

theorem mem_parents {s : Schema} {t p : Name} (h : p ∈ parents s t) : ∃ f ∈ s.fks, f.table = t ∧ f.parent = p ∧ p ≠ t := by
  simp only [parents, tableFks, List.mem_map, List.mem_filter] at h
  obtain ⟨f, ⟨⟨hf, ht⟩, hne⟩, rfl⟩ := h
  exact ⟨f, hf, by simpa using ht, rfl, by simpa using hne⟩

theorem orderTables_spec {s : Schema} (h : Inv s) :
    (orderTablesToCreate s).Perm (tableNames s) ∧ GoodOrder s (orderTablesToCreate s) := by
  unfold orderTablesToCreate
  have hsort := List.mergeSort_perm (tableNames s) nameLe
  have := orderLoop_spec s ((tableNames s).mergeSort nameLe).length ((tableNames s).mergeSort nameLe) [] [] (Nat.le_refl _)
    (by
      intro t _ p hp
      obtain ⟨f, hf, _, rfl, _⟩ := mem_parents hp
      exact Or.inr ((hsort.mem_iff).mpr (h.fkTables f hf).2))
    (by intro x hx; cases hx)
    (by intro x hx; cases hx)
    (by intro pre c post heq; simp at heq)
  exact ⟨by simpa using this.1.trans (by simpa using hsort), this.2⟩

/-! ### creation script: foreign keys are added only between tables that already exist -/

/-- the foreign key `n` of child table `c` exists in the schema and both of its tables are in `cr` -/
def FkOk (s : Schema) (cr : List Name) (c n : Name) : Prop :=
  c ∈ cr ∧ ∃ f ∈ s.fks, f.table = c ∧ f.name.getD [] = n ∧ f.parent ∈ cr

/-- scan a creation script keeping the list of tables created so far: every ADD FOREIGN KEY command must refer to a
    foreign key of the schema whose child and parent tables have been created before the command -/
def Scan (s : Schema) : List Name → List Cmd → Prop
  | _, [] => True
  | cr, .table t :: rest => Scan s (cr ++ [t]) rest
  | cr, .index _ _ :: rest => Scan s cr rest
  | cr, .fk c n :: rest => FkOk s cr c n ∧ Scan s cr rest

def NoTableOk (s : Schema) (cr : List Name) : Cmd → Prop
  | .table _ => False
  | .index _ _ => True
  | .fk c n => FkOk s cr c n

theorem scan_append_noTable (s : Schema) (cr : List Name) (tail : List Cmd) :
    ∀ (X : List Cmd), (∀ cmd ∈ X, NoTableOk s cr cmd) → Scan s cr tail → Scan s cr (X ++ tail)
  | [], _, ht => ht
  | cmd :: X, hX, ht => by
    have h1 := hX cmd (by simp)
    have h2 := scan_append_noTable s cr tail X (fun c hc => hX c (by simp [hc])) ht
    cases cmd with
    | table t => exact absurd h1 (by simp [NoTableOk])
    | index t n => simpa [Scan] using h2
    | fk c n => exact ⟨h1, h2⟩

theorem mem_sortByName {α} (key : α → Name) (l : List α) (x : α) : x ∈ sortByName key l ↔ x ∈ l :=
  (List.mergeSort_perm l _).mem_iff

theorem objectsToCreate_spec (d : Dialect) (s : Schema) (cr : List Name) (t : Name) (ht : t ∈ cr) :
    ∃ X, objectsToCreate d s cr t = Cmd.table t :: X ∧ ∀ cmd ∈ X, NoTableOk s cr cmd := by
  unfold objectsToCreate
  refine ⟨_, rfl, ?_⟩
  intro cmd hcmd
  simp only [List.mem_append, List.mem_map] at hcmd
  rcases hcmd with ⟨ix, _, rfl⟩ | hfk
  · trivial
  · split at hfk
    · simp only [List.mem_map, List.mem_append] at hfk
      obtain ⟨f, hf, rfl⟩ := hfk
      rcases hf with hf | hf
      · rw [mem_sortByName] at hf
        simp only [tableFks, List.mem_filter] at hf
        obtain ⟨⟨hfs, hft⟩, hpar⟩ := hf
        have hft' : f.table = t := by simpa using hft
        exact ⟨hft' ▸ ht, f, hfs, rfl, rfl, by simpa using hpar⟩
      · simp only [List.mem_flatMap] at hf
        obtain ⟨c, hc, hf⟩ := hf
        rw [mem_sortByName] at hf
        have hc' := (List.mergeSort_perm _ _).mem_iff.mp hc
        simp only [List.mem_filter, Bool.and_eq_true] at hc'
        simp only [tableFks, List.mem_filter] at hf
        obtain ⟨⟨hfs, hft⟩, hpar⟩ := hf
        have hft' : f.table = c := by simpa using hft
        have hpar' : f.parent = t := by simpa using hpar
        have hccr : c ∈ cr := by simpa using hc'.2.2
        exact ⟨hft' ▸ hccr, f, hfs, rfl, rfl, hpar' ▸ ht⟩
    · cases hfk

theorem createLoop_scan (d : Dialect) (s : Schema) : ∀ (rest created : List Name), Scan s created (createLoop d s rest created)
  | [], _ => trivial
  | t :: rest, created => by
    obtain ⟨X, hX, hok⟩ := objectsToCreate_spec d s (created ++ [t]) t (by simp)
    simp only [createLoop, hX, List.cons_append, Scan]
    exact scan_append_noTable s _ _ X hok (createLoop_scan d s rest (created ++ [t]))

/-! ### operation lists -/

theorem applyOp_inv {d} {s s' : Schema} {op : Op} (h : Inv s) (hs : applyOp d s op = .ok s') : Inv s' := by
  cases op with
  | addTable n e => exact addTable_inv h hs
  | addM2mTable n =>
    simp only [applyOp] at hs
    cases h1 : addTable s n .explicit none with
    | error e => simp [h1, Except.map] at hs
    | ok s1 =>
      simp only [h1, Except.map, Except.ok.injEq] at hs
      subst hs
      exact markM2m_inv _ (addTable_inv h h1)
  | addEntity t e r =>
    simp only [applyOp] at hs
    split at hs
    · exact addEntity_inv h hs
    · cases hs
  | addColumn t n nn => exact addColumn_inv h hs
  | addIndex t a c p u m => exact addIndex_inv h hs
  | addFk c n cols p pc ix => exact addFk_inv h hs

theorem applyOp_lenInv {d} {s s' : Schema} {op : Op} (h : LenInv d s) (hs : applyOp d s op = .ok s') : LenInv d s' := by
  cases op with
  | addTable n e => exact addTable_lenInv h (by simp) hs
  | addM2mTable n =>
    simp only [applyOp] at hs
    cases h1 : addTable s n .explicit none with
    | error e => simp [h1, Except.map] at hs
    | ok s1 =>
      simp only [h1, Except.map, Except.ok.injEq] at hs
      subst hs
      exact markM2m_lenInv _ (addTable_lenInv h (by simp) h1)
  | addEntity t e r =>
    simp only [applyOp] at hs
    split at hs
    · exact addEntity_lenInv h hs
    · cases hs
  | addColumn t n nn => exact addColumn_lenInv h (by simp) hs
  | addIndex t a c p u m => exact addIndex_lenInv h hs
  | addFk c n cols p pc ix => exact addFk_lenInv h hs

theorem runOps_inv {d} : ∀ {ops : List Op} {s s' : Schema}, Inv s → LenInv d s → runOps d s ops = .ok s' → Inv s' ∧ LenInv d s'
  | [], s, s', h, hl, hs => by simp only [runOps, Except.ok.injEq] at hs; subst hs; exact ⟨h, hl⟩
  | op :: rest, s, s', h, hl, hs => by
    simp only [runOps] at hs
    split at hs
    · rename_i s1 h1
      exact runOps_inv (applyOp_inv h h1) (applyOp_lenInv hl h1) hs
    · cases hs

end PonyVerif.Model.Schema
