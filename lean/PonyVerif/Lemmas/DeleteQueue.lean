/-
  Lemmas for the delete-queue model: it refines Model/Cascade.delete, and its order lists exactly the objects that died.
-/
import PonyVerif.Model.DeleteQueue
namespace PonyVerif.Model.DeleteQueue
open PonyVerif.Model.Cascade

/-- forget the order -/
def er : RQ → R
  | .ok q => .ok q.store
  | .error e => .error e

theorem iterQ_erase {α : Type} {f : α → Q → RQ} {g : α → Store → R} (h : ∀ x q, er (f x q) = g x q.store) :
    ∀ (l : List α) (q : Q), er (iterQ f l q) = iterE g l q.store := by
  intro l
  induction l with
  | nil => intro q; rfl
  | cons x xs ih =>
    intro q
    simp only [iterQ, iterE]
    have hx := h x q
    cases hf : f x q with
    | error e => rw [hf] at hx; simp only [er] at hx; rw [← hx]; rfl
    | ok q' => rw [hf] at hx; simp only [er] at hx; rw [← hx]; exact ih q'

theorem liftS_erase (r : R) (q : Q) : er (liftS r q) = r := by
  cases r <;> rfl

theorem collStepQ_erase (sch : Schema) {del : ObjId → Q → RQ} {del' : ObjId → Store → R}
    (h : ∀ x q, er (del x q) = del' x q.store) (o : ObjId) (c : Attr) (q : Q) :
    er (collStepQ sch del o c q) = collStep sch del' o c q.store := by
  unfold collStepQ collStep
  cases sch.side c <;> cases sch.side (sch.rev c) <;> simp only [] <;> try rfl
  split
  · rfl
  · split
    · rfl
    · split
      · rfl
      · split
        · exact iterQ_erase h _ q
        · split
          · exact liftS_erase _ q
          · rfl

theorem refStepQ_erase (sch : Schema) (guard : Bool) {del : ObjId → Q → RQ} {del' : ObjId → Store → R}
    (h : ∀ x q, er (del x q) = del' x q.store) (o : ObjId) (a : Attr) (q : Q) :
    er (refStepQ sch guard del o a q) = refStep sch guard del' o a q.store := by
  unfold refStepQ refStep
  cases sch.side a <;> cases sch.side (sch.rev a) <;> simp only [] <;> try rfl
  split
  · rfl
  · cases q.store.ref o a with
    | none => rfl
    | some x =>
      simp only []
      split
      · split
        · exact h x q
        · split
          · split
            · rfl
            · split
              · exact liftS_erase _ q
              · rfl
          · rfl
      · exact liftS_erase _ q

/-- forgetting the order, `deleteQ` IS the `_delete_` of Model/Cascade.lean -/
theorem deleteQ_erase (sch : Schema) (ct : ClassTable) (guard : Bool) :
    ∀ (fuel : Nat) (P : List ObjId) (o : ObjId) (q : Q),
      er (deleteQ sch ct guard fuel P o q) = delete sch ct guard fuel P o q.store := by
  intro fuel
  induction fuel with
  | zero => intro P o q; rfl
  | succ fuel ih =>
    intro P o q
    simp only [deleteQ, delete]
    split
    · rfl
    · split
      · rfl
      · have h1 := iterQ_erase (fun c q => collStepQ_erase sch (fun x q => ih (o :: P) x q) o c q) (ct (q.store.ent o)) q
        cases hq1 : iterQ (collStepQ sch (fun x q => deleteQ sch ct guard fuel (o :: P) x q) o) (ct (q.store.ent o)) q with
        | error e => rw [hq1] at h1; simp only [er] at h1; rw [← h1]; rfl
        | ok q1 =>
          rw [hq1] at h1; simp only [er] at h1; rw [← h1]
          simp only []
          have h2 := iterQ_erase (fun a q => refStepQ_erase sch guard (fun x q => ih (o :: P) x q) o a q) (ct (q.store.ent o)) q1
          cases hq2 : iterQ (refStepQ sch guard (fun x q => deleteQ sch ct guard fuel (o :: P) x q) o) (ct (q.store.ent o)) q1 with
          | error e => rw [hq2] at h2; simp only [er] at h2; rw [← h2]; rfl
          | ok q2 =>
            rw [hq2] at h2; simp only [er] at h2; rw [← h2]
            simp only []
            split <;> rfl

/-! ### the order lists exactly the objects that died, each once -/

/-- `q'` is reached from `q` by queueing exactly the objects `mid` (alive before, dead now, no repetition) -/
structure Ext (q q' : Q) (mid : List ObjId) : Prop where
  order_eq : q'.order = q.order ++ mid
  alive_eq : ∀ x, q'.store.alive x = (q.store.alive x && !mid.contains x)
  were_alive : ∀ x ∈ mid, q.store.alive x = true
  nodup : mid.Nodup

theorem Ext.refl (q : Q) : Ext q q [] := ⟨by simp, by simp, by simp, List.nodup_nil⟩

theorem Ext.trans {q q1 q2 : Q} {m1 m2 : List ObjId} (a : Ext q q1 m1) (b : Ext q1 q2 m2) : Ext q q2 (m1 ++ m2) where
  order_eq := by rw [b.order_eq, a.order_eq, List.append_assoc]
  alive_eq := by
    intro x
    rw [b.alive_eq, a.alive_eq]
    by_cases h1 : x ∈ m1 <;> by_cases h2 : x ∈ m2 <;> simp [h1, h2]
  were_alive := by
    intro x hx
    rcases List.mem_append.mp hx with h | h
    · exact a.were_alive x h
    · have := b.were_alive x h
      rw [a.alive_eq] at this
      simp only [Bool.and_eq_true] at this; exact this.1
  nodup := by
    rw [List.nodup_append]
    refine ⟨a.nodup, b.nodup, ?_⟩
    intro x hx y hy e
    subst e
    have := b.were_alive x hy
    rw [a.alive_eq] at this
    simp [hx] at this

/-- a step that changes only the relationship part -/
theorem Ext.of_store {q : Q} {s : Store} (h : ∀ x, s.alive x = q.store.alive x) : Ext q { q with store := s } [] :=
  ⟨by simp, by intro x; simp [h], by simp, List.nodup_nil⟩

theorem iterQ_ext {α : Type} {f : α → Q → RQ} (h : ∀ x q q', f x q = .ok q' → ∃ m, Ext q q' m) :
    ∀ (l : List α) (q q' : Q), iterQ f l q = .ok q' → ∃ m, Ext q q' m := by
  intro l
  induction l with
  | nil => intro q q' hq; simp [iterQ] at hq; subst hq; exact ⟨[], Ext.refl q⟩
  | cons x xs ih =>
    intro q q' hq
    simp only [iterQ] at hq
    cases hf : f x q with
    | error e => simp [hf] at hq
    | ok q1 =>
      simp only [hf] at hq
      obtain ⟨m1, e1⟩ := h x q q1 hf
      obtain ⟨m2, e2⟩ := ih q1 q' hq
      exact ⟨m1 ++ m2, e1.trans e2⟩

/-! the store-only steps of Model/Cascade keep `alive` -/

theorem iterE_alive {α : Type} {f : α → Store → R} (h : ∀ x s s', f x s = .ok s' → ∀ y, s'.alive y = s.alive y) :
    ∀ (l : List α) (s s' : Store), iterE f l s = .ok s' → ∀ y, s'.alive y = s.alive y := by
  intro l
  induction l with
  | nil => intro s s' hs y; simp [iterE] at hs; subst hs; rfl
  | cons x xs ih =>
    intro s s' hs y
    simp only [iterE] at hs
    cases hf : f x s with
    | error e => simp [hf] at hs
    | ok s1 =>
      simp only [hf] at hs
      rw [ih s1 s' hs y, h x s s1 hf y]

theorem reverseRemove1_alive (c : Attr) (obj item : ObjId) (s s' : Store) (h : reverseRemove1 c obj item s = .ok s') :
    ∀ y, s'.alive y = s.alive y := by
  intro y
  unfold reverseRemove1 at h
  split at h
  · simp at h; subst h; rfl
  · simp at h

theorem clearRef_alive (sch : Schema) (x : ObjId) (a : Attr) (s s' : Store) (h : clearRef sch x a s = .ok s') :
    ∀ y, s'.alive y = s.alive y := by
  intro y
  unfold clearRef at h
  split at h
  · simp at h
  · split at h
    · split at h
      · simp at h
      · split at h
        · simp at h; subst h; rfl
        · split at h
          · rw [reverseRemove1_alive _ _ _ _ _ h y]; rfl
          · simp at h; subst h; rfl
    · simp at h

theorem setCollEmpty_alive (sch : Schema) (o : ObjId) (c : Attr) (s s' : Store) (h : setCollEmpty sch o c s = .ok s') :
    ∀ y, s'.alive y = s.alive y := by
  intro y
  unfold setCollEmpty at h
  split at h
  · simp at h
  · split at h
    · simp only at h
      split at h
      · simp at h; subst h; rfl
      · split at h
        · rename_i s1 hr
          simp at h; subst h
          show s1.alive y = s.alive y
          split at hr
          · exact iterE_alive (fun x s s' hx => clearRef_alive sch x _ s s' hx) _ _ _ hr y
          · exact iterE_alive (fun x s s' hx => reverseRemove1_alive _ x o s s' hx) _ _ _ hr y
        · simp at h
    · simp at h

theorem liftS_ext {r : R} {q q' : Q} (hr : ∀ s', r = .ok s' → ∀ y, s'.alive y = q.store.alive y) (h : liftS r q = .ok q') :
    ∃ m, Ext q q' m := by
  cases r with
  | error e => simp [liftS] at h
  | ok s =>
    simp [liftS] at h; subst h
    exact ⟨[], Ext.of_store (hr s rfl)⟩

theorem collStepQ_ext (sch : Schema) {del : ObjId → Q → RQ} (h : ∀ x q q', del x q = .ok q' → ∃ m, Ext q q' m)
    (o : ObjId) (c : Attr) (q q' : Q) (hq : collStepQ sch del o c q = .ok q') : ∃ m, Ext q q' m := by
  unfold collStepQ at hq
  split at hq
  · split at hq
    · simp at hq; subst hq; exact ⟨[], Ext.refl q⟩
    · split at hq
      · simp at hq
      · split at hq
        · simp at hq; subst hq; exact ⟨[], Ext.refl q⟩
        · split at hq
          · exact iterQ_ext h _ _ _ hq
          · split at hq
            · exact liftS_ext (fun s' hs => setCollEmpty_alive sch o c _ s' hs) hq
            · simp at hq
  · simp at hq

theorem refStepQ_ext (sch : Schema) (guard : Bool) {del : ObjId → Q → RQ}
    (h : ∀ x q q', del x q = .ok q' → ∃ m, Ext q q' m)
    (o : ObjId) (a : Attr) (q q' : Q) (hq : refStepQ sch guard del o a q = .ok q') : ∃ m, Ext q q' m := by
  unfold refStepQ at hq
  split at hq
  · split at hq
    · simp at hq; subst hq; exact ⟨[], Ext.refl q⟩
    · split at hq
      · simp at hq; subst hq; exact ⟨[], Ext.refl q⟩
      · split at hq
        · split at hq
          · exact h _ _ _ hq
          · split at hq
            · split at hq
              · simp at hq; subst hq; exact ⟨[], Ext.refl q⟩
              · split at hq
                · exact liftS_ext (fun s' hs => clearRef_alive sch _ _ _ s' hs) hq
                · simp at hq; subst hq; exact ⟨[], Ext.refl q⟩
            · simp at hq
        · exact liftS_ext (fun s' hs => reverseRemove1_alive _ _ _ _ s' hs) hq
  · simp at hq

/-- every successful `_delete_` queues exactly the objects it kills, each once, after what was queued before -/
theorem deleteQ_ext (sch : Schema) (ct : ClassTable) (guard : Bool) :
    ∀ (fuel : Nat) (P : List ObjId) (o : ObjId) (q q' : Q), deleteQ sch ct guard fuel P o q = .ok q' → ∃ m, Ext q q' m := by
  intro fuel
  induction fuel with
  | zero => intro P o q q' h; simp [deleteQ] at h
  | succ fuel ih =>
    intro P o q q' h
    simp only [deleteQ] at h
    split at h
    · simp at h; subst h; exact ⟨[], Ext.refl q⟩
    · split at h
      · simp at h; subst h; exact ⟨[], Ext.refl q⟩
      · split at h
        · simp at h
        · rename_i q1 hq1
          obtain ⟨m1, e1⟩ := iterQ_ext (fun c q q' hc => collStepQ_ext sch (fun x q q' hx => ih (o :: P) x q q' hx) o c q q' hc) _ _ _ hq1
          split at h
          · simp at h
          · rename_i q2 hq2
            obtain ⟨m2, e2⟩ := iterQ_ext (fun a q q' ha => refStepQ_ext sch guard (fun x q q' hx => ih (o :: P) x q q' hx) o a q q' ha) _ _ _ hq2
            have e12 := e1.trans e2
            split at h
            · simp at h; subst h; exact ⟨_, e12⟩
            · rename_i hal
              simp at h; subst h
              have hal' : q2.store.alive o = true := by simpa using hal
              refine ⟨(m1 ++ m2) ++ [o], e12.trans ⟨rfl, ?_, ?_, by simp⟩⟩
              · intro x
                simp only [Store.setAlive, List.contains_cons, List.contains_nil, Bool.or_false]
                by_cases hx : x = o
                · subst hx; simp
                · have : (x == o) = false := by simpa using hx
                  simp [hx, this]
              · intro x hx; simp at hx; subst hx; exact hal'

end PonyVerif.Model.DeleteQueue
