/-
  Lemmas/KeyIndex.lean — pointwise facts about the index maps and the key-update loop of Model/KeyIndex.lean,
  and the invariant `Inv` (C11).  Core Lean only.
-/
import PonyVerif.Model.KeyIndex
namespace PonyVerif.Model.KeyIndex

/-! ## 1. one index -/
namespace Index

@[simp] theorem get_nil (k : KeyVal) : get [] k = none := rfl

theorem get_cons (k' : KeyVal) (o : ObjId) (r : Index) (k : KeyVal) :
    get ((k', o) :: r) k = if k' = k then some o else get r k := rfl

theorem get_erase (ix : Index) (k k' : KeyVal) : (erase ix k).get k' = if k' = k then none else ix.get k' := by
  induction ix with
  | nil => simp [erase]
  | cons p r ih =>
    obtain ⟨a, o⟩ := p
    unfold erase at ih ⊢
    by_cases ha : a = k
    · subst ha
      simp only [List.filter_cons, ne_eq, not_true_eq_false, decide_false, Bool.false_eq_true, if_false, ih, get_cons]
      by_cases h : k' = a
      · subst h; simp
      · have : ¬ a = k' := fun e => h e.symm
        simp [h, this]
    · simp only [List.filter_cons, ne_eq, ha, not_false_eq_true, decide_true, if_true, get_cons, ih]
      by_cases h : k' = k
      · subst h; simp [ha]
      · simp [h]

theorem get_set (ix : Index) (k : KeyVal) (o : ObjId) (k' : KeyVal) :
    (set ix k o).get k' = if k' = k then some o else ix.get k' := by
  unfold set
  rw [get_cons, get_erase]
  by_cases h : k' = k
  · subst h; simp
  · have : ¬ k = k' := fun e => h e.symm
    simp [h, this]

theorem get_eraseOpt (ix : Index) (p : Option KeyVal) (k' : KeyVal) :
    (eraseOpt ix p).get k' = if p = some k' then none else ix.get k' := by
  cases p with
  | none => simp [eraseOpt]
  | some k =>
    simp only [eraseOpt, get_erase, Option.some.injEq]
    by_cases h : k' = k
    · subst h; simp
    · have : ¬ k = k' := fun e => h e.symm
      simp [h, this]

theorem get_setOpt (ix : Index) (p : Option KeyVal) (o : ObjId) (k' : KeyVal) :
    (setOpt ix p o).get k' = if p = some k' then some o else ix.get k' := by
  cases p with
  | none => simp [setOpt]
  | some k =>
    simp only [setOpt, get_set, Option.some.injEq]
    by_cases h : k' = k
    · subst h; simp
    · have : ¬ k = k' := fun e => h e.symm
      simp [h, this]

end Index

@[simp] theorem setObj_same (f : ObjId → Obj) (o : ObjId) (ob : Obj) : setObj f o ob o = ob := by simp [setObj]
theorem setObj_other (f : ObjId → Obj) (o o' : ObjId) (ob : Obj) (h : o' ≠ o) : setObj f o ob o' = f o' := by simp [setObj, h]
@[simp] theorem setIx_same (f : Nat → Index) (i : Nat) (ix : Index) : setIx f i ix i = ix := by simp [setIx]
theorem setIx_other (f : Nat → Index) (i i' : Nat) (ix : Index) (h : i' ≠ i) : setIx f i ix i' = f i' := by simp [setIx, h]

/-! ## 2. `updKey` -/

/-- when `updKey` succeeds the new index is the old one with `new ↦ o` added and `prev` removed — provided the old tuple
    was indexed to `o` (completeness of the index for `o`) -/
theorem updKey_get {ix ix' : Index} {o : ObjId} {prev new : Option KeyVal}
    (h : updKey ix o prev new = some ix') (hprev : ∀ pv, prev = some pv → ix.get pv = some o) (k : KeyVal) :
    ix'.get k = if new = some k then some o else if prev = some k then none else ix.get k := by
  unfold updKey at h
  by_cases hpn : prev = new
  · simp only [hpn, if_true, Option.some.injEq] at h
    subst h
    by_cases hk : new = some k
    · simp [hk, hprev k (hpn.trans hk)]
    · have : ¬ prev = some k := fun e => hk (hpn ▸ e)
      simp [hk, this]
  · simp only [hpn, if_false] at h
    cases new with
    | none =>
      simp only [Option.some.injEq] at h
      subst h
      simp [Index.get_eraseOpt]
    | some nv =>
      simp only at h
      have hne : prev ≠ some nv := hpn
      cases hg : ix.get nv with
      | none =>
        simp only [hg, Option.some.injEq] at h
        subst h
        rw [Index.get_eraseOpt, Index.get_set]
        by_cases hk : k = nv
        · subst hk; simp [hne]
        · have : ¬ nv = k := fun e => hk e.symm
          simp [hk, this]
      | some o2 =>
        simp only [hg] at h
        by_cases ho : o2 = o
        · simp only [ho, if_true, Option.some.injEq] at h
          subst h
          rw [Index.get_eraseOpt]
          by_cases hk : k = nv
          · subst hk; simp [hne, hg, ho]
          · have : ¬ nv = k := fun e => hk e.symm
            simp [this]
        · simp [ho] at h

/-- `updKey` fails exactly on a conflict: the new tuple is indexed to ANOTHER object -/
theorem updKey_none {ix : Index} {o : ObjId} {prev new : Option KeyVal} :
    updKey ix o prev new = none ↔ prev ≠ new ∧ ∃ nv o2, new = some nv ∧ ix.get nv = some o2 ∧ o2 ≠ o := by
  unfold updKey
  by_cases hpn : prev = new
  · simp [hpn]
  · simp only [hpn, if_false, ne_eq, not_false_eq_true, true_and]
    cases new with
    | none => simp
    | some nv =>
      cases hg : ix.get nv with
      | none => simp [hg]
      | some o2 =>
        by_cases ho : o2 = o
        · subst ho; simp [hg]
        · simp [hg, ho]

/-! ## 3. the key loop and its undo -/

/-- indexes agree pointwise -/
def IxEq (f g : Nat → Index) : Prop := ∀ i k, (f i).get k = (g i).get k

theorem IxEq.refl (f : Nat → Index) : IxEq f f := fun _ _ => rfl
theorem IxEq.symm {f g : Nat → Index} (h : IxEq f g) : IxEq g f := fun i k => (h i k).symm
theorem IxEq.trans {f g h : Nat → Index} (a : IxEq f g) (b : IxEq g h) : IxEq f h := fun i k => (a i k).trans (b i k)

/-- the loop never looks at `ok` of its accumulator and never resets it -/
theorem updKeysGo_ok_mono (o : ObjId) (prev new : Nat → Option KeyVal) (ks : List Nat) (r : KRes)
    (h : (updKeysGo o prev new ks r).ok = true) : r.ok = true := by
  induction ks generalizing r with
  | nil => exact h
  | cons i ks ih =>
    unfold updKeysGo at h
    cases hu : updKey (r.ixs i) o (prev i) (new i) with
    | none => simp [hu] at h
    | some ix' =>
      simp only [hu] at h
      have := ih _ h
      exact this

/-- successful loop: every visited index got `new i ↦ o` and lost `prev i`; the others are untouched -/
theorem updKeysGo_get (o : ObjId) (prev new : Nat → Option KeyVal) (ks : List Nat) (hnd : ks.Nodup) (r : KRes)
    (hprev : ∀ i, i ∈ ks → ∀ pv, prev i = some pv → (r.ixs i).get pv = some o)
    (hok : (updKeysGo o prev new ks r).ok = true) (i : Nat) (k : KeyVal) :
    ((updKeysGo o prev new ks r).ixs i).get k =
      if i ∈ ks then (if new i = some k then some o else if prev i = some k then none else (r.ixs i).get k)
      else (r.ixs i).get k := by
  induction ks generalizing r with
  | nil => simp [updKeysGo]
  | cons j ks ih =>
    have hj : j ∉ ks := (List.nodup_cons.mp hnd).1
    have hnd' : ks.Nodup := (List.nodup_cons.mp hnd).2
    unfold updKeysGo at hok ⊢
    cases hu : updKey (r.ixs j) o (prev j) (new j) with
    | none =>
      simp only [hu] at hok
      have := updKeysGo_ok_mono o prev new [] { r with ok := false } (by simpa [updKeysGo] using hok)
      simp at this
    | some ix' =>
      simp only [hu] at hok ⊢
      have hprev' : ∀ i, i ∈ ks → ∀ pv, prev i = some pv →
          ((setIx r.ixs j ix') i).get pv = some o := by
        intro i hi pv hp
        have hij : i ≠ j := fun e => hj (e ▸ hi)
        rw [setIx_other _ _ _ _ hij]
        exact hprev i (List.mem_cons_of_mem _ hi) pv hp
      rw [ih hnd' _ hprev' hok]
      by_cases hij : i = j
      · subst hij
        simp only [hj, if_false, setIx_same, List.mem_cons, true_or, if_true]
        exact updKey_get hu (hprev i (List.mem_cons_self) ) k
      · have : (i ∈ j :: ks) ↔ i ∈ ks := by simp [hij]
        simp only [this, setIx_other _ _ _ _ hij]

/-- indexes named by a trail -/
def trailIdx (t : Trail) : List Nat := t.map (·.1)

theorem undoKeys_other (o : ObjId) (t : Trail) (ixs : Nat → Index) (j : Nat) (hj : j ∉ trailIdx t) :
    undoKeys o t ixs j = ixs j := by
  induction t generalizing ixs with
  | nil => rfl
  | cons e t ih =>
    obtain ⟨i, p, n⟩ := e
    simp only [trailIdx, List.map_cons, List.mem_cons, not_or] at hj
    unfold undoKeys
    rw [ih _ (by simpa [trailIdx] using hj.2)]
    exact setIx_other _ _ _ _ hj.1

theorem undoKeys_append (o : ObjId) (t u : Trail) (ixs : Nat → Index) :
    undoKeys o (t ++ u) ixs = undoKeys o u (undoKeys o t ixs) := by
  induction t generalizing ixs with
  | nil => rfl
  | cons e t ih =>
    obtain ⟨i, p, n⟩ := e
    simp only [List.cons_append, undoKeys]
    exact ih _

/-- `undoKeys` only reads the indexes its trail names -/
theorem undoKeys_setIx_comm (o : ObjId) (t : Trail) (ixs : Nat → Index) (j : Nat) (x : Index) (hj : j ∉ trailIdx t) :
    undoKeys o t (setIx ixs j x) = setIx (undoKeys o t ixs) j x := by
  induction t generalizing ixs with
  | nil => rfl
  | cons e t ih =>
    obtain ⟨i, p, n⟩ := e
    simp only [trailIdx, List.map_cons, List.mem_cons, not_or] at hj
    have hij : i ≠ j := fun e => hj.1 e.symm
    unfold undoKeys
    have : setIx (setIx ixs j x) i ((((setIx ixs j x) i).eraseOpt n).setOpt p o) =
        setIx (setIx ixs i (((ixs i).eraseOpt n).setOpt p o)) j x := by
      funext a
      simp only [setIx]
      by_cases ha : a = i
      · subst ha; simp [hij]
      · by_cases hb : a = j
        · subst hb; simp [ha]
        · simp [ha, hb]
    rw [this]
    exact ih _ (by simpa [trailIdx] using hj.2)

/-- one undo entry gives back the index before `updKey` -/
theorem undo_entry_get {ix ix' : Index} {o : ObjId} {prev new : Option KeyVal}
    (h : updKey ix o prev new = some ix') (hpn : prev ≠ new)
    (hprev : ∀ pv, prev = some pv → ix.get pv = some o)
    (hnew : ∀ nv, new = some nv → ix.get nv = some o → prev = some nv) (k : KeyVal) :
    ((ix'.eraseOpt new).setOpt prev o).get k = ix.get k := by
  rw [Index.get_setOpt, Index.get_eraseOpt, updKey_get h hprev]
  by_cases hp : prev = some k
  · simp [hp, hprev k hp]
  · simp only [hp, if_false]
    by_cases hn : new = some k
    · simp only [hn, if_true]
      -- the new tuple was not indexed before (or `updKey` would have failed / it was `o` itself, excluded by hnew)
      have hnone : updKey ix o prev new ≠ none := by rw [h]; simp
      rw [Ne, updKey_none] at hnone
      cases hg : ix.get k with
      | none => rfl
      | some o2 =>
        by_cases ho : o2 = o
        · subst ho; exact absurd (hnew k hn hg) hp
        · exact absurd ⟨hpn, k, o2, hn, hg, ho⟩ hnone
    · simp [hn]

/-- the loop followed by the undo of its trail restores every index (whether the loop succeeded or stopped) -/
theorem updKeysGo_undo (o : ObjId) (prev new : Nat → Option KeyVal) (ks : List Nat) (hnd : ks.Nodup) (r r0 : KRes)
    (hdisj : ∀ i, i ∈ ks → i ∉ trailIdx r.trail)
    (hprev : ∀ i, i ∈ ks → ∀ pv, prev i = some pv → (r.ixs i).get pv = some o)
    (hnew : ∀ i, i ∈ ks → ∀ nv, new i = some nv → (r.ixs i).get nv = some o → prev i = some nv)
    (hres : IxEq (undoKeys o r.trail r.ixs) r0.ixs) :
    IxEq (undoKeys o (updKeysGo o prev new ks r).trail (updKeysGo o prev new ks r).ixs) r0.ixs := by
  induction ks generalizing r with
  | nil => simpa [updKeysGo] using hres
  | cons j ks ih =>
    have hj : j ∉ ks := (List.nodup_cons.mp hnd).1
    have hnd' : ks.Nodup := (List.nodup_cons.mp hnd).2
    unfold updKeysGo
    cases hu : updKey (r.ixs j) o (prev j) (new j) with
    | none => simpa using hres
    | some ix' =>
      simp only
      have hjt : j ∉ trailIdx r.trail := hdisj j List.mem_cons_self
      apply ih hnd'
      · intro i hi
        have hij : i ≠ j := fun e => hj (e ▸ hi)
        by_cases hpn : prev j = new j
        · simpa [hpn] using hdisj i (List.mem_cons_of_mem _ hi)
        · simp only [hpn, if_false, trailIdx, List.map_append, List.map_cons, List.map_nil, List.mem_append, List.mem_singleton, not_or]
          exact ⟨hdisj i (List.mem_cons_of_mem _ hi), hij⟩
      · intro i hi pv hp
        have hij : i ≠ j := fun e => hj (e ▸ hi)
        show ((setIx r.ixs j ix') i).get pv = some o
        rw [setIx_other _ _ _ _ hij]
        exact hprev i (List.mem_cons_of_mem _ hi) pv hp
      · intro i hi nv hn hg
        have hij : i ≠ j := fun e => hj (e ▸ hi)
        change ((setIx r.ixs j ix') i).get nv = some o at hg
        rw [setIx_other _ _ _ _ hij] at hg
        exact hnew i (List.mem_cons_of_mem _ hi) nv hn hg
      · by_cases hpn : prev j = new j
        · simp only [hpn, if_true]
          -- nothing recorded and (by `updKey`'s first branch) nothing changed
          have hix : ix' = r.ixs j := by
            unfold updKey at hu; simp [hpn] at hu; exact hu.symm
          rw [hix]
          have : setIx r.ixs j (r.ixs j) = r.ixs := by funext a; simp only [setIx]; by_cases ha : a = j <;> simp [ha]
          rw [this]; exact hres
        · simp only [hpn, if_false]
          rw [undoKeys_append, undoKeys_setIx_comm _ _ _ _ _ hjt]
          intro i k
          simp only [undoKeys]
          by_cases hij : i = j
          · subst hij
            simp only [setIx_same]
            rw [undo_entry_get hu hpn (hprev i List.mem_cons_self) (hnew i List.mem_cons_self)]
            rw [← hres i k, undoKeys_other _ _ _ _ hjt]
          · rw [setIx_other _ _ _ _ hij, setIx_other _ _ _ _ hij]
            exact hres i k

end PonyVerif.Model.KeyIndex
