/-
  Helper lemmas for C29 (decimal digits, the path scanner on emitted segments, `json.dumps` shapes, slice arithmetic).
-/
import PonyVerif.Model.JsonOps
set_option linter.unusedSimpArgs false
set_option linter.unusedVariables false
namespace PonyVerif.Model.JsonOps

/-! ### decimal digits -/

theorem digitChar_isDigit (d : Nat) (h : d < 10) : isDigitC (digitChar d) = true := by
  match d, h with
  | 0, _ => rfl | 1, _ => rfl | 2, _ => rfl | 3, _ => rfl | 4, _ => rfl
  | 5, _ => rfl | 6, _ => rfl | 7, _ => rfl | 8, _ => rfl | 9, _ => rfl

theorem digitVal_digitChar (d : Nat) (h : d < 10) : digitVal (digitChar d) = d := by
  match d, h with
  | 0, _ => rfl | 1, _ => rfl | 2, _ => rfl | 3, _ => rfl | 4, _ => rfl
  | 5, _ => rfl | 6, _ => rfl | 7, _ => rfl | 8, _ => rfl | 9, _ => rfl

theorem natDigits_lt (n : Nat) (h : n < 10) : natDigits n = [digitChar n] := by
  rw [natDigits]; simp [h]

theorem natDigits_ge (n : Nat) (h : ¬ n < 10) : natDigits n = natDigits (n / 10) ++ [digitChar (n % 10)] := by
  rw [natDigits]; simp [h]

theorem natDigits_all_digit (n : Nat) : ∀ c ∈ natDigits n, isDigitC c = true := by
  induction n using Nat.strongRecOn with
  | _ n ih =>
    by_cases h : n < 10
    · rw [natDigits_lt n h]; intro c hc; simp at hc; subst hc; exact digitChar_isDigit n h
    · rw [natDigits_ge n h]; intro c hc
      simp at hc
      rcases hc with hc | hc
      · exact ih (n / 10) (by omega) c hc
      · subst hc; exact digitChar_isDigit _ (by omega)

theorem natDigits_ne_nil (n : Nat) : natDigits n ≠ [] := by
  by_cases h : n < 10
  · rw [natDigits_lt n h]; simp
  · rw [natDigits_ge n h]; simp

theorem ofDigits_append (ds : Text) (c : Char) : ofDigits (ds ++ [c]) = 10 * ofDigits ds + digitVal c := by
  simp [ofDigits, List.foldl_append]

theorem ofDigits_natDigits (n : Nat) : ofDigits (natDigits n) = n := by
  induction n using Nat.strongRecOn with
  | _ n ih =>
    by_cases h : n < 10
    · rw [natDigits_lt n h]; simp [ofDigits, digitVal_digitChar n h]
    · rw [natDigits_ge n h, ofDigits_append, ih (n / 10) (by omega), digitVal_digitChar _ (by omega)]; omega

theorem natDigits_eq_zero (n : Nat) (h : natDigits n = ['0']) : n = 0 := by
  have := ofDigits_natDigits n
  rw [h] at this; simpa [ofDigits, digitVal] using this.symm

theorem natDigits_zero : natDigits 0 = ['0'] := by
  rw [natDigits_lt 0 (by omega)]; rfl

/-! ### takeWhile / dropWhile on a run followed by a stopper -/

theorem takeWhile_run (p : Char → Bool) (ds : Text) (c : Char) (rest : Text)
    (h : ∀ x ∈ ds, p x = true) (hc : p c = false) : (ds ++ c :: rest).takeWhile p = ds := by
  induction ds with
  | nil => simp [List.takeWhile, hc]
  | cons d ds ih =>
    have hd : p d = true := h d (by simp)
    simp [List.takeWhile, hd]
    exact ih (fun x hx => h x (by simp [hx]))

theorem dropWhile_run (p : Char → Bool) (ds : Text) (c : Char) (rest : Text)
    (h : ∀ x ∈ ds, p x = true) (hc : p c = false) : (ds ++ c :: rest).dropWhile p = c :: rest := by
  induction ds with
  | nil => simp [List.dropWhile, hc]
  | cons d ds ih =>
    have hd : p d = true := h d (by simp)
    simp [List.dropWhile, hd]
    exact ih (fun x hx => h x (by simp [hx]))

theorem takeWhile_all (p : Char → Bool) (ds : Text) (h : ∀ x ∈ ds, p x = true) : ds.takeWhile p = ds := by
  induction ds with
  | nil => rfl
  | cons d ds ih =>
    have hd : p d = true := h d (by simp)
    simp [List.takeWhile, hd]
    exact ih (fun x hx => h x (by simp [hx]))

theorem dropWhile_all (p : Char → Bool) (ds : Text) (h : ∀ x ∈ ds, p x = true) : ds.dropWhile p = [] := by
  induction ds with
  | nil => rfl
  | cons d ds ih =>
    have hd : p d = true := h d (by simp)
    simp [List.dropWhile, hd]
    exact ih (fun x hx => h x (by simp [hx]))

/-! ### the scanner on emitted segments -/

/-- what the theorems need of the regex class `\w`: it contains the ASCII identifier start characters and excludes `.`, `[`, `"` -/
structure WordClass (W : Char → Bool) : Prop where
  ident : ∀ c, isIdentStart c = true → W c = true
  dot : W '.' = false
  bracket : W '[' = false
  quote : W '"' = false

/-- a text the next segment can be followed by: the end, or a character outside `\w` -/
def startOk (W : Char → Bool) : Text → Prop
  | [] => True
  | c :: _ => W c = false

theorem isDigitC_rbracket : isDigitC ']' = false := by decide
theorem isDigitC_minus : isDigitC '-' = false := by decide

theorem natDigits_head (n : Nat) : ∃ c t, natDigits n = c :: t ∧ isDigitC c = true := by
  have hne := natDigits_ne_nil n
  match h : natDigits n with
  | [] => exact absurd h hne
  | c :: t => exact ⟨c, t, rfl, natDigits_all_digit n c (by simp [h])⟩

theorem skipHash_false (t : Text) : skipHash false t = t := rfl

theorem skipHash_ne (hash : Bool) (c : Char) (t : Text) (hc : c ≠ '#') : skipHash hash (c :: t) = c :: t := by
  unfold skipHash
  cases hash
  · rfl
  · simp only [if_true]
    split
    · rename_i r h; simp at h; exact absurd h.1 hc
    · rfl

theorem matchSeg_nohash (W : Char → Bool) (hash : Bool) (c : Char) (t : Text) (hc : c ≠ '#') :
    matchSeg W hash ('[' :: c :: t) = matchSeg W false ('[' :: c :: t) := by
  simp only [matchSeg, skipHash_ne hash c t hc, skipHash_ne false c t hc]

theorem dropMinus_ne (c : Char) (t : Text) (hc : c ≠ '-') : dropMinus (c :: t) = c :: t ∧ isNegText (c :: t) = false := by
  constructor
  · unfold dropMinus; split
    · rename_i r h; simp at h; exact absurd h.1 hc
    · rfl
  · unfold isNegText; split
    · rename_i r h; simp at h; exact absurd h.1 hc
    · rfl

theorem matchSeg_idx0 (W : Char → Bool) (i : Int) (rest : Text) :
    matchSeg W false (seg W (.idx i) ++ rest) = some (.idx i, rest) := by
  have hrun := takeWhile_run isDigitC _ ']' rest (natDigits_all_digit i.natAbs) isDigitC_rbracket
  have hdrop := dropWhile_run isDigitC _ ']' rest (natDigits_all_digit i.natAbs) isDigitC_rbracket
  have hne := natDigits_ne_nil i.natAbs
  have hnat := ofDigits_natDigits i.natAbs
  by_cases hi : i < 0
  · have e : seg W (.idx i) ++ rest = '[' :: '-' :: (natDigits i.natAbs ++ ']' :: rest) := by
      simp [seg, intText, hi]
    rw [e]
    simp [matchSeg, skipHash_false, isNegText, dropMinus, hrun, hdrop, hne, hnat]
    omega
  · obtain ⟨c, t, hct, hc⟩ := natDigits_head i.natAbs
    have hcm : c ≠ '-' := by intro h; rw [h] at hc; exact absurd hc (by decide)
    have e : seg W (.idx i) ++ rest = '[' :: c :: (t ++ ']' :: rest) := by
      simp [seg, intText, hi, hct]
    rw [e]
    rw [hct] at hrun hdrop hne hnat
    simp only [List.cons_append] at hrun hdrop
    obtain ⟨hd1, hd2⟩ := dropMinus_ne c (t ++ ']' :: rest) hcm
    simp [matchSeg, skipHash_false, hd1, hd2, hrun, hdrop, hnat]
    omega

theorem matchSeg_idx (W : Char → Bool) (hash : Bool) (i : Int) (rest : Text) :
    matchSeg W hash (seg W (.idx i) ++ rest) = some (.idx i, rest) := by
  have h0 := matchSeg_idx0 W i rest
  by_cases hi : i < 0
  · have e : seg W (.idx i) ++ rest = '[' :: '-' :: (natDigits i.natAbs ++ ']' :: rest) := by simp [seg, intText, hi]
    rw [e] at h0 ⊢
    rw [matchSeg_nohash W hash '-' _ (by decide)]; exact h0
  · obtain ⟨c, t, hct, hc⟩ := natDigits_head i.natAbs
    have hch : c ≠ '#' := by intro h; rw [h] at hc; exact absurd hc (by decide)
    have e : seg W (.idx i) ++ rest = '[' :: c :: (t ++ ']' :: rest) := by simp [seg, intText, hi, hct]
    rw [e] at h0 ⊢
    rw [matchSeg_nohash W hash c _ hch]; exact h0

theorem escQuote_noquote (s : Text) (h : '"' ∉ s) : escQuote s = s := by
  induction s with
  | nil => rfl
  | cons c cs ih =>
    have hc : c ≠ '"' := by intro e; exact h (by simp [e])
    have hcs : '"' ∉ cs := by intro e; exact h (by simp [e])
    simp [escQuote, hc, ih hcs]

theorem isIdent_spec (W : Char → Bool) (hW : WordClass W) (s : Text) (h : isIdent W s = true) :
    s ≠ [] ∧ ∀ c ∈ s, W c = true := by
  cases s with
  | nil => simp [isIdent] at h
  | cons c cs =>
    simp [isIdent] at h
    refine ⟨by simp, ?_⟩
    intro x hx
    simp at hx
    rcases hx with hx | hx
    · subst hx; exact hW.ident _ h.1
    · exact h.2 x hx

theorem takeWhile_startOk (W : Char → Bool) (s rest : Text) (hs : ∀ c ∈ s, W c = true) (hr : startOk W rest) :
    (s ++ rest).takeWhile W = s ∧ (s ++ rest).dropWhile W = rest := by
  cases rest with
  | nil => simp [takeWhile_all W s hs, dropWhile_all W s hs]
  | cons c r => exact ⟨takeWhile_run W s c r hs hr, dropWhile_run W s c r hs hr⟩

theorem matchSeg_name (W : Char → Bool) (hash : Bool) (hW : WordClass W) (s rest : Text) (hs : '"' ∉ s) (hr : startOk W rest) :
    matchSeg W hash (seg W (.name s) ++ rest) = some (.name s, rest) := by
  by_cases hid : isIdent W s = true
  · obtain ⟨hne, hall⟩ := isIdent_spec W hW s hid
    obtain ⟨ht, hd⟩ := takeWhile_startOk W s rest hall hr
    have e : seg W (.name s) ++ rest = '.' :: (s ++ rest) := by simp [seg, hid]
    rw [e]
    simp [matchSeg, ht, hd, hne]
  · have e : seg W (.name s) ++ rest = '.' :: '"' :: (s ++ '"' :: rest) := by
      simp [seg, hid, escQuote_noquote s hs]
    rw [e]
    have hp : ∀ x ∈ s, (fun c : Char => c != '"') x = true := by
      intro x hx; simp; intro e; exact hs (e ▸ hx)
    have ht := takeWhile_run (fun c : Char => c != '"') s '"' rest hp (by simp)
    have hd := dropWhile_run (fun c : Char => c != '"') s '"' rest hp (by simp)
    simp [matchSeg, hW.quote, ht, hd]

def Key.noQuote : Key → Prop
  | .name s => '"' ∉ s
  | .idx _ => True

theorem matchSeg_seg (W : Char → Bool) (hash : Bool) (hW : WordClass W) (k : Key) (rest : Text)
    (hk : k.noQuote) (hr : startOk W rest) :
    matchSeg W hash (seg W k ++ rest) = some (k, rest) := by
  cases k with
  | idx i => exact matchSeg_idx W hash i rest
  | name s => exact matchSeg_name W hash hW s rest hk hr

theorem seg_head (W : Char → Bool) (hW : WordClass W) (k : Key) : ∃ c t, seg W k = c :: t ∧ W c = false := by
  cases k with
  | idx i => exact ⟨'[', _, rfl, hW.bracket⟩
  | name s =>
    by_cases hid : isIdent W s = true
    · exact ⟨'.', s, by simp [seg, hid], hW.dot⟩
    · exact ⟨'.', _, by simp [seg, hid]; rfl, hW.dot⟩

theorem segs_startOk (W : Char → Bool) (hW : WordClass W) (ks : List Key) : startOk W (segs W ks) := by
  cases ks with
  | nil => simp [segs, startOk]
  | cons k ks =>
    obtain ⟨c, t, h, hc⟩ := seg_head W hW k
    simp [segs, h, startOk, hc]

/-- a key is expressible in the path text when it has no double quote -/
def Key.pathSafe : Key → Bool
  | .name s => !s.contains '"'
  | .idx _ => true

theorem parseSegs_segs (W : Char → Bool) (hash : Bool) (hW : WordClass W) (keys : List Key) (hk : ∀ k ∈ keys, k.pathSafe = true) :
    ∀ f, (segs W keys).length ≤ f → parseSegs W hash f (segs W keys) = some keys := by
  induction keys with
  | nil => intro f _; cases f <;> simp [segs, parseSegs]
  | cons k ks ih =>
    intro f hf
    obtain ⟨c, t, h, hc⟩ := seg_head W hW k
    have hk1 : k.noQuote := by
      have := hk k (by simp)
      cases k with
      | idx i => trivial
      | name s => simpa [Key.pathSafe, Key.noQuote] using this
    have hm := matchSeg_seg W hash hW k (segs W ks) hk1 (segs_startOk W hW ks)
    have hlen : (segs W (k :: ks)).length = (t.length + 1) + (segs W ks).length := by
      simp [segs, h]; omega
    cases f with
    | zero => omega
    | succ f =>
      have hrec := ih (fun k hk' => hk k (by simp [hk'])) f (by omega)
      have e : segs W (k :: ks) = c :: (t ++ segs W ks) := by simp [segs, h]
      rw [e, parseSegs]
      have e2 : c :: (t ++ segs W ks) = seg W k ++ segs W ks := by simp [h]
      rw [e2, hm]
      simp [hrec]

/-! ### the JSON1 spelling `[#-N]` read back by the scanner that accepts `#?` -/

theorem matchSeg_hash_skip (W : Char → Bool) (t : Text) : matchSeg W true ('[' :: '#' :: t) = matchSeg W false ('[' :: t) := by
  simp [matchSeg, skipHash]

theorem matchSeg_segJ1 (W : Char → Bool) (hW : WordClass W) (k : Key) (rest : Text) (hk : k.noQuote) (hr : startOk W rest) :
    matchSeg W true (segJ1 W k ++ rest) = some (k, rest) := by
  cases k with
  | name s => exact matchSeg_seg W true hW (.name s) rest hk hr
  | idx i =>
    by_cases hi : i < 0
    · have e : segJ1 W (.idx i) ++ rest = '[' :: '#' :: (intText i ++ ']' :: rest) := by simp [segJ1, hi]
      have e0 : seg W (.idx i) ++ rest = '[' :: (intText i ++ ']' :: rest) := by simp [seg]
      rw [e, matchSeg_hash_skip, ← e0]
      exact matchSeg_idx0 W i rest
    · have e : segJ1 W (.idx i) = seg W (.idx i) := by simp [segJ1, hi]
      rw [e]; exact matchSeg_idx W true i rest

theorem segJ1_head (W : Char → Bool) (hW : WordClass W) (k : Key) : ∃ c t, segJ1 W k = c :: t ∧ W c = false := by
  cases k with
  | name s => exact seg_head W hW (.name s)
  | idx i =>
    by_cases hi : i < 0
    · exact ⟨'[', _, by simp [segJ1, hi]; rfl, hW.bracket⟩
    · have e : segJ1 W (.idx i) = seg W (.idx i) := by simp [segJ1, hi]
      rw [e]; exact seg_head W hW (.idx i)

theorem segsJ1_startOk (W : Char → Bool) (hW : WordClass W) (ks : List Key) : startOk W (segsJ1 W ks) := by
  cases ks with
  | nil => simp [segsJ1, startOk]
  | cons k ks =>
    obtain ⟨c, t, h, hc⟩ := segJ1_head W hW k
    simp [segsJ1, h, startOk, hc]

theorem parseSegs_segsJ1 (W : Char → Bool) (hW : WordClass W) (keys : List Key) (hk : ∀ k ∈ keys, k.pathSafe = true) :
    ∀ f, (segsJ1 W keys).length ≤ f → parseSegs W true f (segsJ1 W keys) = some keys := by
  induction keys with
  | nil => intro f _; cases f <;> simp [segsJ1, parseSegs]
  | cons k ks ih =>
    intro f hf
    obtain ⟨c, t, h, hc⟩ := segJ1_head W hW k
    have hk1 : k.noQuote := by
      have := hk k (by simp)
      cases k with
      | idx i => trivial
      | name s => simpa [Key.pathSafe, Key.noQuote] using this
    have hm := matchSeg_segJ1 W hW k (segsJ1 W ks) hk1 (segsJ1_startOk W hW ks)
    have hlen : (segsJ1 W (k :: ks)).length = (t.length + 1) + (segsJ1 W ks).length := by
      simp [segsJ1, h]; omega
    cases f with
    | zero => omega
    | succ f =>
      have hrec := ih (fun k hk' => hk k (by simp [hk'])) f (by omega)
      have e : segsJ1 W (k :: ks) = c :: (t ++ segsJ1 W ks) := by simp [segsJ1, h]
      rw [e, parseSegs]
      have e2 : c :: (t ++ segsJ1 W ks) = segJ1 W k ++ segsJ1 W ks := by simp [h]
      rw [e2, hm]
      simp [hrec]

/-! ### shapes of `json.dumps` texts -/

theorem escChar_ne_nil (c : Char) : escChar c ≠ [] := by
  unfold escChar
  repeat' split
  all_goals simp

theorem escStr_eq_nil (s : Text) : escStr s = [] ↔ s = [] := by
  cases s with
  | nil => simp [escStr]
  | cons c cs => simp [escStr, escChar_ne_nil]

theorem intText_ne_nil (i : Int) : intText i ≠ [] := by
  unfold intText; split
  · simp
  · exact natDigits_ne_nil _

theorem dumps_ne_nil (v : Json) : dumps v ≠ [] := by
  cases v with
  | null => simp [dumps]
  | bool b => cases b <;> simp [dumps]
  | int i => simp [dumps]; exact intText_ne_nil i
  | fzero b => cases b <;> simp [dumps]
  | float c r => simp [dumps]
  | str s => simp [dumps, quoteStr]
  | arr xs => simp [dumps]
  | obj kvs => simp [dumps]

theorem dumpsList_eq_nil (xs : List Json) : dumpsList xs = [] ↔ xs = [] := by
  match xs with
  | [] => simp [dumpsList]
  | [x] => simp [dumpsList, dumps_ne_nil]
  | x :: y :: r => simp [dumpsList, dumps_ne_nil]

theorem dumpsKvs_eq_nil (kvs : List (Text × Json)) : dumpsKvs kvs = [] ↔ kvs = [] := by
  match kvs with
  | [] => simp [dumpsKvs]
  | [(k, v)] => simp [dumpsKvs, quoteStr]
  | (k, v) :: kv :: r => simp [dumpsKvs, quoteStr]

/-- a text made of digits only that is one of the eight literals is `0` -/
theorem digits_mem_lits (t : Text) (h : ∀ c ∈ t, isDigitC c = true) (hm : t ∈ baseLits ++ floatZeroLits) : t = ['0'] := by
  simp [baseLits, floatZeroLits] at hm
  rcases hm with hm | hm | hm | hm | hm | hm | hm | hm
  all_goals first
    | exact hm
    | (subst hm; exfalso; revert h; decide)

theorem intText_mem_lits (i : Int) : intText i ∈ baseLits ++ floatZeroLits ↔ i = 0 := by
  constructor
  · intro hm
    by_cases hi : i < 0
    · exfalso
      simp [intText, hi, baseLits, floatZeroLits] at hm
      have hd := natDigits_all_digit i.natAbs
      rw [hm] at hd
      exact absurd (hd '.' (by simp)) (by decide)
    · simp [intText, hi] at hm
      have := natDigits_eq_zero _ (digits_mem_lits _ (natDigits_all_digit _) (by simpa using hm))
      omega
  · intro h; subst h; simp [intText, natDigits_zero, baseLits]

theorem intText_zero : intText 0 = ['0'] := by simp [intText, natDigits_zero]

theorem intText_mem_base (i : Int) : intText i ∈ baseLits ↔ i = 0 := by
  constructor
  · intro h; exact (intText_mem_lits i).1 (by simp [h])
  · intro h; subst h; simp [intText_zero, baseLits]

theorem intText_not_mem_fz (i : Int) : intText i ∉ floatZeroLits := by
  intro h
  have h0 := (intText_mem_lits i).1 (by simp [h])
  subst h0
  rw [intText_zero] at h
  revert h; decide

/-- is the value one of the two float zeros -/
def Json.isFloatZero : Json → Bool
  | .fzero _ => true
  | _ => false

theorem floatTextOk_not_lit (t : Text) (h : floatTextOk t = true) : t ∉ baseLits ++ floatZeroLits := by
  intro hm
  simp [baseLits, floatZeroLits] at hm
  rcases hm with hm | hm | hm | hm | hm | hm | hm | hm
  all_goals (subst hm; revert h; decide)

theorem dumps_mem_base (v : Json) (hv : v.topOk = true) : dumps v ∈ baseLits ↔ (pyTruthy v = false ∧ v.isFloatZero = false) := by
  cases v with
  | null => simp [dumps, baseLits, pyTruthy, Json.isFloatZero]
  | bool b => cases b <;> simp [dumps, baseLits, pyTruthy, Json.isFloatZero]
  | int i => simp [dumps, pyTruthy, Json.isFloatZero, intText_mem_base]
  | fzero b => cases b <;> simp [dumps, baseLits, pyTruthy, Json.isFloatZero]
  | float c r =>
    have := floatTextOk_not_lit (c :: r) (by simpa [Json.topOk] using hv)
    simp [dumps, pyTruthy, Json.isFloatZero]
    intro h; exact this (by simp [h])
  | str s =>
    cases s with
    | nil => simp [dumps, quoteStr, escStr, baseLits, pyTruthy, Json.isFloatZero]
    | cons c cs =>
      have := escChar_ne_nil c
      simp [dumps, quoteStr, escStr, baseLits, pyTruthy, Json.isFloatZero]
      intro h
      cases he : escChar c with
      | nil => exact this he
      | cons a as => rw [he] at h; simp at h
  | arr xs =>
    cases xs with
    | nil => simp [dumps, dumpsList, baseLits, pyTruthy, Json.isFloatZero]
    | cons x r =>
      have hne : dumpsList (x :: r) ≠ [] := by simp [dumpsList_eq_nil]
      simp [dumps, baseLits, pyTruthy, Json.isFloatZero]
      intro h
      cases he : dumpsList (x :: r) with
      | nil => exact hne he
      | cons a as => rw [he] at h; simp at h
  | obj kvs =>
    cases kvs with
    | nil => simp [dumps, dumpsKvs, baseLits, pyTruthy, Json.isFloatZero]
    | cons x r =>
      have hne : dumpsKvs (x :: r) ≠ [] := by simp [dumpsKvs_eq_nil]
      simp [dumps, baseLits, pyTruthy, Json.isFloatZero]
      intro h
      cases he : dumpsKvs (x :: r) with
      | nil => exact hne he
      | cons a as => rw [he] at h; simp at h

theorem dumps_mem_fz (v : Json) (hv : v.topOk = true) : dumps v ∈ floatZeroLits ↔ v.isFloatZero = true := by
  cases v with
  | null => simp [dumps, floatZeroLits, Json.isFloatZero]
  | bool b => cases b <;> simp [dumps, floatZeroLits, Json.isFloatZero]
  | int i => simp [dumps, Json.isFloatZero, intText_not_mem_fz]
  | fzero b => cases b <;> simp [dumps, floatZeroLits, Json.isFloatZero]
  | float c r =>
    have := floatTextOk_not_lit (c :: r) (by simpa [Json.topOk] using hv)
    simp [dumps, Json.isFloatZero]
    intro h; exact this (by simp [h])
  | str s => simp [dumps, quoteStr, floatZeroLits, Json.isFloatZero]
  | arr xs => simp [dumps, floatZeroLits, Json.isFloatZero]
  | obj kvs => simp [dumps, floatZeroLits, Json.isFloatZero]

/-! ### navigation and slice arithmetic helpers -/

theorem listGet_nonneg (xs : List α) (i : Int) (hi : 0 ≤ i) : listGet xs i = xs[i.toNat]? := by
  have h0 : ¬ i < 0 := by omega
  by_cases hlt : i < (xs.length : Int)
  · have hc : ¬ (i < 0 ∨ i ≥ (xs.length : Int)) := by omega
    simp [listGet, h0, hc]
    omega
  · have hc : (i < 0 ∨ i ≥ (xs.length : Int)) := by omega
    have hn : xs[i.toNat]? = none := List.getElem?_eq_none (by omega)
    simp [listGet, h0, hc, hn]

theorem getItem_ok_container (v : Json) (k : Key) (w : Json) (h : getItem v k = .ok w) : v.isContainer = true := by
  cases v <;> cases k <;> simp [getItem] at h <;> rfl

/-- on SQLite (`from_one = False`) a negative index is sent as `len + index`, a non-negative one unchanged -/
theorem index_sqlite (p : Bool) (v len : Int) : indexConst false p v len = if v ≥ 0 then v else len + v := by
  simp [indexConst]; split <;> omega

theorem adj_sqlite (p : Bool) (n v : Int) (hn : 0 ≤ n) (h : -n ≤ v) : adjIdx n (indexConst false p v n) = adjIdx n v := by
  rw [index_sqlite]; unfold adjIdx; split <;> split <;> split <;> (try split) <;> omega

theorem adj_clamp (p : Bool) (n v : Int) (hn : 0 ≤ n) : adjIdx n (max (indexConst false p v n) 0) = adjIdx n v := by
  rw [index_sqlite]; unfold adjIdx; split <;> split <;> split <;> (try split) <;> omega

/-- lower / upper bound of a Python slice -/
def loOf (n : Int) : Option Int → Int | none => 0 | some i => adjIdx n i
def hiOf (n : Int) : Option Int → Int | none => n | some i => adjIdx n i

theorem pySlice_eq (xs : List α) (a b : Option Int) :
    pySlice xs a b = (xs.drop (loOf xs.length a).toNat).take (hiOf xs.length b - loOf xs.length a).toNat := by
  cases a <;> cases b <;> rfl

theorem pySlice_congr (xs : List α) (a b a' b' : Option Int)
    (ha : loOf xs.length a' = loOf xs.length a) (hb : hiOf xs.length b' = hiOf xs.length b) : pySlice xs a' b' = pySlice xs a b := by
  rw [pySlice_eq, pySlice_eq, ha, hb]

theorem index_pg (p : Bool) (v len : Int) : indexConst true p v len = if v ≥ 0 then v + (if p then 1 else 0) else len + v + (if p then 1 else 0) := by
  cases p <;> simp [indexConst] <;> split <;> omega


/-! ### PostgreSQL slice = Python slice: both are a window `[p, q)` with the same canonical bounds -/

theorem drop_take_canon (xs : List α) (p c : Nat) :
    (xs.drop p).take c = (xs.drop (min p xs.length)).take (min (p + c) xs.length - min p xs.length) := by
  by_cases hp : xs.length ≤ p
  · have e : min p xs.length = xs.length := by omega
    rw [e, List.drop_eq_nil_of_le hp, List.drop_eq_nil_of_le (Nat.le_refl _)]; simp
  · have e : min p xs.length = p := by omega
    rw [e, List.take_eq_take_iff]
    simp only [List.length_drop]; omega

/-- the elements at positions `[p, q)` (0-based, `p ≥ 0`) -/
def win (xs : List α) (p q : Int) : List α := (xs.drop p.toNat).take (q - p).toNat

theorem win_canon (xs : List α) (p q : Int) (hp : 0 ≤ p) :
    win xs p q = win xs (min p xs.length) (min (max p q) xs.length) := by
  unfold win
  rw [drop_take_canon xs p.toNat]
  have e1 : min p.toNat xs.length = (min p (xs.length : Int)).toNat := by omega
  have e2 : min (p.toNat + (q - p).toNat) xs.length - min p.toNat xs.length
      = (min (max p q) (xs.length : Int) - min p (xs.length : Int)).toNat := by omega
  rw [e2, e1]

theorem win_congr (xs : List α) (p q p' q' : Int) (hp : 0 ≤ p) (hp' : 0 ≤ p')
    (h1 : min p (xs.length : Int) = min p' xs.length) (h2 : min (max p q) (xs.length : Int) = min (max p' q') xs.length) :
    win xs p q = win xs p' q' := by
  rw [win_canon xs p q hp, win_canon xs p' q' hp', h1, h2]

/-- lower bounds: PostgreSQL `max(l,1) - 1` vs Python `adjIdx` -/
def pgLo (n : Int) : Option Int → Int | none => 0 | some a => max (indexConst true true a n) 1 - 1
def pgHi (n : Int) : Option Int → Int | none => n | some b => min (indexConst true false b n) n

theorem pgLo_nonneg (n : Int) (a : Option Int) : 0 ≤ pgLo n a := by
  cases a <;> simp [pgLo] <;> omega

theorem loOf_nonneg (n : Int) (hn : 0 ≤ n) (a : Option Int) : 0 ≤ loOf n a := by
  cases a with
  | none => simp [loOf]
  | some a => simp only [loOf, adjIdx]; split <;> split <;> omega

theorem pg_lo_eq (n : Int) (hn : 0 ≤ n) (a : Option Int) : min (pgLo n a) n = min (loOf n a) n := by
  cases a with
  | none => simp [pgLo, loOf]
  | some a =>
    simp only [pgLo, loOf, index_pg, adjIdx, if_true]
    by_cases ha : a ≥ 0
    · have h0 : ¬ a < 0 := by omega
      simp only [ha, h0, if_true, if_false]; split <;> omega
    · have h0 : a < 0 := by omega
      simp only [ha, h0, if_true, if_false]; split <;> omega

theorem pg_hi_eq (n : Int) (hn : 0 ≤ n) (a b : Option Int) :
    min (max (pgLo n a) (pgHi n b)) n = min (max (loOf n a) (hiOf n b)) n := by
  have hlo := pg_lo_eq n hn a
  have h1 := pgLo_nonneg n a
  have h2 := loOf_nonneg n hn a
  cases b with
  | none => simp only [pgHi, hiOf]; omega
  | some b =>
    simp only [pgHi, hiOf, index_pg, adjIdx, Bool.false_eq_true, if_false]
    by_cases hb : b ≥ 0
    · have h0 : ¬ b < 0 := by omega
      simp only [hb, h0, if_true, if_false]; split <;> omega
    · have h0 : b < 0 := by omega
      simp only [hb, h0, if_true, if_false]; split <;> omega

theorem pgSlice_win (xs : List α) (a b : Option Int) : pgSlice xs a b = win xs (pgLo xs.length a) (pgHi xs.length b) := by
  cases a <;> cases b <;> simp only [pgSlice, pgArraySlice, win, pgLo, pgHi, Option.map] <;> congr 2 <;> omega

theorem pySlice_win (xs : List α) (a b : Option Int) : pySlice xs a b = win xs (loOf xs.length a) (hiOf xs.length b) := by
  rw [pySlice_eq]; rfl

end PonyVerif.Model.JsonOps
