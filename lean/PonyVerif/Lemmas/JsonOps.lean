/-
  Helper lemmas for C29 (decimal digits, the path scanner on emitted segments, `json.dumps` shapes, slice arithmetic).
-/
import PonyVerif.Model.JsonOps
set_option linter.unusedSimpArgs false
set_option linter.unusedVariables false
namespace PonyVerif.Model.JsonOps

/-! ### decimal digits -/

theorem digitChar_isDigit (d : Nat) (h : d < 10) : isDigitC (digitChar d) = true := by
  match d, h with
  | 0, _ => rfl | 1, _ => rfl | 2, _ => rfl | 3, _ => rfl | 4, _ => rfl
  | 5, _ => rfl | 6, _ => rfl | 7, _ => rfl | 8, _ => rfl | 9, _ => rfl

theorem digitVal_digitChar (d : Nat) (h : d < 10) : digitVal (digitChar d) = d := by
  match d, h with
  | 0, _ => rfl | 1, _ => rfl | 2, _ => rfl | 3, _ => rfl | 4, _ => rfl
  | 5, _ => rfl | 6, _ => rfl | 7, _ => rfl | 8, _ => rfl | 9, _ => rfl

theorem natDigits_lt (n : Nat) (h : n < 10) : natDigits n = [digitChar n] := by
  rw [natDigits]; simp [h]

theorem natDigits_ge (n : Nat) (h : ¬ n < 10) : natDigits n = natDigits (n / 10) ++ [digitChar (n % 10)] := by
  rw [natDigits]; simp [h]

theorem natDigits_all_digit (n : Nat) : ∀ c ∈ natDigits n, isDigitC c = true := by
  induction n using Nat.strongRecOn with
  | _ n ih =>
    by_cases h : n < 10
    · rw [natDigits_lt n h]; intro c hc; simp at hc; subst hc; exact digitChar_isDigit n h
    · rw [natDigits_ge n h]; intro c hc
      simp at hc
      rcases hc with hc | hc
      · exact ih (n / 10) (by omega) c hc
      · subst hc; exact digitChar_isDigit _ (by omega)

theorem natDigits_ne_nil (n : Nat) : natDigits n ≠ [] := by
  by_cases h : n < 10
  · rw [natDigits_lt n h]; simp
  · rw [natDigits_ge n h]; simp

theorem ofDigits_append (ds : Text) (c : Char) : ofDigits (ds ++ [c]) = 10 * ofDigits ds + digitVal c := by
  simp [ofDigits, List.foldl_append]

theorem ofDigits_natDigits (n : Nat) : ofDigits (natDigits n) = n := by
  induction n using Nat.strongRecOn with
  | _ n ih =>
    by_cases h : n < 10
    · rw [natDigits_lt n h]; simp [ofDigits, digitVal_digitChar n h]
    · rw [natDigits_ge n h, ofDigits_append, ih (n / 10) (by omega), digitVal_digitChar _ (by omega)]; omega

theorem natDigits_eq_zero (n : Nat) (h : natDigits n = ['0']) : n = 0 := by
  have := ofDigits_natDigits n
  rw [h] at this; simpa [ofDigits, digitVal] using this.symm

theorem natDigits_zero : natDigits 0 = ['0'] := by
  rw [natDigits_lt 0 (by omega)]; rfl

/-! ### takeWhile / dropWhile on a run followed by a stopper -/

theorem takeWhile_run (p : Char → Bool) (ds : Text) (c : Char) (rest : Text)
    (h : ∀ x ∈ ds, p x = true) (hc : p c = false) : (ds ++ c :: rest).takeWhile p = ds := by
  induction ds with
  | nil => simp [List.takeWhile, hc]
  | cons d ds ih =>
    have hd : p d = true := h d (by simp)
    simp [List.takeWhile, hd]
    exact ih (fun x hx => h x (by simp [hx]))

theorem dropWhile_run (p : Char → Bool) (ds : Text) (c : Char) (rest : Text)
    (h : ∀ x ∈ ds, p x = true) (hc : p c = false) : (ds ++ c :: rest).dropWhile p = c :: rest := by
  induction ds with
  | nil => simp [List.dropWhile, hc]
  | cons d ds ih =>
    have hd : p d = true := h d (by simp)
    simp [List.dropWhile, hd]
    exact ih (fun x hx => h x (by simp [hx]))

theorem takeWhile_all (p : Char → Bool) (ds : Text) (h : ∀ x ∈ ds, p x = true) : ds.takeWhile p = ds := by
  induction ds with
  | nil => rfl
  | cons d ds ih =>
    have hd : p d = true := h d (by simp)
    simp [List.takeWhile, hd]
    exact ih (fun x hx => h x (by simp [hx]))

theorem dropWhile_all (p : Char → Bool) (ds : Text) (h : ∀ x ∈ ds, p x = true) : ds.dropWhile p = [] := by
  induction ds with
  | nil => rfl
  | cons d ds ih =>
    have hd : p d = true := h d (by simp)
    simp [List.dropWhile, hd]
    exact ih (fun x hx => h x (by simp [hx]))

/-! ### the scanner on emitted segments -/

/-- what the theorems need of the regex class `\w`: it contains the ASCII identifier start characters and excludes `.`, `[`, `"` -/
structure WordClass (W : Char → Bool) : Prop where
  ident : ∀ c, isIdentStart c = true → W c = true
  dot : W '.' = false
  bracket : W '[' = false
  quote : W '"' = false

/-- a text the next segment can be followed by: the end, or a character outside `\w` -/
def startOk (W : Char → Bool) : Text → Prop
  | [] => True
  | c :: _ => W c = false

theorem isDigitC_rbracket : isDigitC ']' = false := by decide
theorem isDigitC_minus : isDigitC '-' = false := by decide

theorem natDigits_head (n : Nat) : ∃ c t, natDigits n = c :: t ∧ isDigitC c = true := by
  have hne := natDigits_ne_nil n
  match h : natDigits n with
  | [] => exact absurd h hne
  | c :: t => exact ⟨c, t, rfl, natDigits_all_digit n c (by simp [h])⟩

theorem matchSeg_idx (W : Char → Bool) (i : Int) (rest : Text) :
    matchSeg W (seg W (.idx i) ++ rest) = some (.idx i, rest) := by
  by_cases hi : i < 0
  · have e : seg W (.idx i) ++ rest = '[' :: '-' :: (natDigits i.natAbs ++ ']' :: rest) := by
      simp [seg, intText, hi]
    rw [e]
    simp only [matchSeg]
    rw [takeWhile_run isDigitC _ ']' rest (natDigits_all_digit _) isDigitC_rbracket,
        dropWhile_run isDigitC _ ']' rest (natDigits_all_digit _) isDigitC_rbracket]
    have hne := natDigits_ne_nil i.natAbs
    simp [hne, ofDigits_natDigits]
    omega
  · obtain ⟨c, t, hct, hc⟩ := natDigits_head i.natAbs
    have hcm : c ≠ '-' := by intro h; rw [h] at hc; exact absurd hc (by decide)
    have e : seg W (.idx i) ++ rest = '[' :: (natDigits i.natAbs ++ ']' :: rest) := by
      simp [seg, intText, hi]
    rw [e]
    have hrun := takeWhile_run isDigitC _ ']' rest (natDigits_all_digit i.natAbs) isDigitC_rbracket
    have hdrop := dropWhile_run isDigitC _ ']' rest (natDigits_all_digit i.natAbs) isDigitC_rbracket
    have hne := natDigits_ne_nil i.natAbs
    have hnat := ofDigits_natDigits i.natAbs
    rw [hct] at hrun hdrop hne hnat ⊢
    simp only [List.cons_append] at hrun hdrop ⊢
    unfold matchSeg
    split
    · rename_i r heq
      simp only [List.cons.injEq, true_and] at heq
      subst heq
      split
      · rename_i r' heq'; simp at heq'; exact absurd heq'.1 hcm
      · simp [hrun, hdrop, hnat]; omega
    · rename_i heq; simp at heq
    · rename_i h1 h2; exact absurd rfl (h1 _)

end PonyVerif.Model.JsonOps
