import PonyVerif.Model.TxnProtocol
/-
  helper lemmas for C17 (Props/C17.lean): the invariant linking the recogniser of L with the transactional database
-/
namespace PonyVerif.Lemmas.TxnProtocol
open PonyVerif.Model.TxnProtocol

/-- link between the recogniser's phase, the statements collected for the open transaction, and the database -/
def Inv (p : Phase) (cur : List (List RowWrite)) (d : Db) : Prop :=
  (p = .txn → d.pending = some (applyTx d.committed cur)) ∧ (p ≠ .txn → d.pending = none)

theorem applyTx_snoc (s : Store) (cur : List (List RowWrite)) (ws : List RowWrite) :
    applyTx s (cur ++ [ws]) = applyStmt (applyTx s cur) ws := by
  simp [applyTx, List.foldl_append]

/-- one event: either it is the COMMIT of the open transaction (the committed state takes ALL collected statements)
    or the committed state does not move -/
theorem step_inv {p p' : Phase} {cur : List (List RowWrite)} {d : Db} {e : Ev}
    (hI : Inv p cur d) (hn : next p e = some p') :
    if p = .txn ∧ e = ⟨.commit, true⟩
    then (exec d e).committed = applyTx d.committed cur ∧ Inv p' [] (exec d e)
    else (exec d e).committed = d.committed ∧ Inv p' (curAfter p cur e) (exec d e) := by
  obtain ⟨s, ok⟩ := e
  obtain ⟨h1, h2⟩ := hI
  cases p <;> cases s <;> cases ok <;> simp [next] at hn <;> subst hn <;>
    simp [exec, curAfter, Inv] at * <;> simp_all [applyTx_snoc] <;> simp [applyTx]

theorem head_mem_boundaries (pre : Store) (l : List (List (List RowWrite))) : pre ∈ boundaries pre l := by
  cases l <;> simp [boundaries]

theorem run_cons (d : Db) (e : Ev) (t : List Ev) : run d (e :: t) = run (exec d e) t := rfl

theorem accepts_cons {p : Phase} {e : Ev} {t : List Ev} (h : accepts p (e :: t) = true) :
    ∃ p', next p e = some p' ∧ accepts p' t = true := by
  simp only [accepts, runL] at h
  cases hn : next p e with
  | none => simp [hn] at h
  | some p' => exact ⟨p', rfl, by simpa [hn, accepts] using h⟩

/-- general form (any phase, any open transaction): after any prefix the committed state is a transaction boundary -/
theorem crash_mem_boundaries (t : List Ev) : ∀ (p : Phase) (cur : List (List RowWrite)) (d : Db),
    Inv p cur d → accepts p t = true → ∀ k, crash (run d (t.take k)) ∈ boundaries d.committed (txns p cur t) := by
  induction t with
  | nil => intro p cur d _ _ k; simp [run, crash, txns, boundaries]
  | cons e t ih =>
    intro p cur d hI hA k
    cases k with
    | zero => simpa [run, crash] using head_mem_boundaries _ _
    | succ k =>
      obtain ⟨p', hn, hA'⟩ := accepts_cons hA
      have hs := step_inv hI hn
      simp only [List.take_succ_cons, run_cons, txns, hn]
      split
      · next hc =>
        rw [if_pos hc] at hs
        have := ih p' [] (exec d e) hs.2 hA' k
        rw [hs.1] at this
        simp only [boundaries]
        exact List.mem_cons_of_mem _ this
      · next hc =>
        rw [if_neg hc] at hs
        have := ih p' (curAfter p cur e) (exec d e) hs.2 hA' k
        rw [hs.1] at this
        exact this

/-- general form: when the trace has been run completely the committed state is the LAST boundary -/
theorem final_eq_all (t : List Ev) : ∀ (p : Phase) (cur : List (List RowWrite)) (d : Db),
    Inv p cur d → accepts p t = true → crash (run d t) = (txns p cur t).foldl applyTx d.committed := by
  induction t with
  | nil => intro p cur d _ _; simp [run, crash, txns]
  | cons e t ih =>
    intro p cur d hI hA
    obtain ⟨p', hn, hA'⟩ := accepts_cons hA
    have hs := step_inv hI hn
    simp only [run_cons, txns, hn]
    split
    · next hc =>
      rw [if_pos hc] at hs
      rw [ih p' [] (exec d e) hs.2 hA', hs.1]; rfl
    · next hc =>
      rw [if_neg hc] at hs
      rw [ih p' _ (exec d e) hs.2 hA', hs.1]

/-- the boundaries are exactly: `pre` with the first j transactions WHOLLY applied -/
theorem mem_boundaries (l : List (List (List RowWrite))) : ∀ (pre s : Store),
    s ∈ boundaries pre l ↔ ∃ j, j ≤ l.length ∧ s = (l.take j).foldl applyTx pre := by
  induction l with
  | nil => intro pre s; simp [boundaries]
  | cons tx r ih =>
    intro pre s
    simp only [boundaries, List.mem_cons, ih]
    constructor
    · rintro (h | ⟨j, hj, h⟩)
      · exact ⟨0, by simp, by simpa using h⟩
      · exact ⟨j + 1, by simpa using hj, by simpa using h⟩
    · rintro ⟨j, hj, h⟩
      cases j with
      | zero => left; simpa using h
      | succ j => right; exact ⟨j, by simpa using hj, by simpa using h⟩

theorem inv_init (p : Phase) (hp : p ≠ .txn) (pre : Store) : Inv p [] (Db.init pre) := by
  simp [Inv, Db.init, hp]

theorem runL_append (a b : List Ev) : ∀ (p : Phase), runL p (a ++ b) = (runL p a).bind (fun q => runL q b) := by
  induction a with
  | nil => intro p; simp [runL]
  | cons e a ih =>
    intro p
    simp only [List.cons_append, runL]
    cases next p e with
    | none => simp
    | some p' => simpa using ih p'


end PonyVerif.Lemmas.TxnProtocol
