/-
  C19 helper lemmas: a weakest-precondition calculus for the exception/state monad of `Model/ConnLock.lean`
  and the specifications of the provider / pool / session-cache functions.
-/
import PonyVerif.Model.ConnLock
namespace PonyVerif.Model.ConnLock

/-- `wp m Q E s`: running `m` from `s` ends normally in a state satisfying `Q`, or raises into a state satisfying `E` -/
def wp (m : M α) (Q : α → St → Prop) (E : Exc → St → Prop) (s : St) : Prop :=
  match m s with
  | (.ok a, s') => Q a s'
  | (.error e, s') => E e s'

theorem wp_mono {m : M α} {Q Q' : α → St → Prop} {E E' : Exc → St → Prop} {s : St}
    (h : wp m Q E s) (hq : ∀ a s', Q a s' → Q' a s') (he : ∀ e s', E e s' → E' e s') : wp m Q' E' s := by
  unfold wp at *
  split <;> rename_i heq <;> simp [heq] at h
  · exact hq _ _ h
  · exact he _ _ h

@[simp] theorem wp_pure (a : α) (Q : α → St → Prop) (E) (s) : wp (pure a : M α) Q E s = Q a s := rfl
@[simp] theorem wp_ret (a : α) (Q : α → St → Prop) (E) (s) : wp (ret a : M α) Q E s = Q a s := rfl
@[simp] theorem wp_raise (e : Exc) (Q : α → St → Prop) (E) (s) : wp (raise e : M α) Q E s = E e s := rfl
@[simp] theorem wp_getS (Q : St → St → Prop) (E) (s) : wp getS Q E s = Q s s := rfl
@[simp] theorem wp_modS (f) (Q : Unit → St → Prop) (E) (s) : wp (modS f) Q E s = Q () (f s) := rfl
@[simp] theorem wp_modC (f) (Q : Unit → St → Prop) (E) (s) :
    wp (modC f) Q E s = Q () { s with cache := f s.cache } := rfl

@[simp] theorem wp_bind (m : M α) (f : α → M β) (Q : β → St → Prop) (E) (s) :
    wp (m >>= f) Q E s = wp m (fun a s' => wp (f a) Q E s') E s := by
  show wp (bindM m f) Q E s = _
  unfold wp bindM
  split <;> rename_i heq <;> (split at heq) <;> rename_i heq2 <;> simp_all

@[simp] theorem wp_tryCatch (m : M α) (h : Exc → M α) (Q : α → St → Prop) (E) (s) :
    wp (tryCatch m h) Q E s = wp m Q (fun e s' => wp (h e) Q E s') s := by
  unfold wp tryCatch
  split <;> rename_i heq <;> (split at heq) <;> rename_i heq2 <;> simp_all

@[simp] theorem wp_tryFinally (m : M α) (fin : M Unit) (Q : α → St → Prop) (E) (s) :
    wp (tryFinally m fin) Q E s
      = wp m (fun a s' => wp fin (fun _ s'' => Q a s'') E s') (fun e s' => wp fin (fun _ s'' => E e s'') E s') s := by
  unfold wp tryFinally
  rcases hm : m s with ⟨r, s1⟩
  rcases hf : fin s1 with ⟨r2, s2⟩
  cases r <;> cases r2 <;> simp_all

@[simp] theorem wp_ite (c : Prop) [Decidable c] (m1 m2 : M α) (Q : α → St → Prop) (E) (s) :
    wp (if c then m1 else m2) Q E s = if c then wp m1 Q E s else wp m2 Q E s := by
  split <;> rfl

@[simp] theorem wp_assertM (c : Bool) (Q : Unit → St → Prop) (E) (s) :
    wp (assertM c) Q E s = if c then Q () s else E .assertion { s with bad := true } := by
  unfold wp assertM; cases c <;> simp

@[simp] theorem wp_wrap (m : M α) (Q : α → St → Prop) (E) (s) :
    wp (wrap m) Q E s = wp m Q (fun e s' => E (match e with | .raw => .wrapped | e => e) s') s := by
  unfold wrap
  rw [wp_tryCatch]
  congr 1
  funext e s'
  cases e <;> rfl

@[simp] theorem wp_dbcall (cf : Cfg) (c : Call) (k : Nat) (Q : Unit → St → Prop) (E) (s) :
    wp (dbcall cf c k) Q E s =
      if cf.fails s.n then E .raw { s with n := s.n + 1, trace := Ev.call c k false :: s.trace }
      else Q () { s with n := s.n + 1, trace := Ev.call c k true :: s.trace } := by
  unfold wp dbcall
  cases h : cf.fails s.n <;> simp [h]


/-- `PRAGMA foreign_keys` after a successful statement -/
def fkAfter : Sql → Bool → Bool
  | .pragmaFkOn, _ => true
  | .pragmaFkOff, _ => false
  | _, fk => fk

def dirtyAfter : Sql → Bool → Bool
  | .begin, _ => true
  | _, d => d

@[simp] theorem wp_conExecute (cf : Cfg) (k : Nat) (q : Sql) (Q : Unit → St → Prop) (E) (s) :
    wp (conExecute cf k q) Q E s =
      if cf.fails s.n then E .raw { s with n := s.n + 1, trace := Ev.call (.execute q) k false :: s.trace, dirty := dirtyAfter q s.dirty }
      else Q () { s with n := s.n + 1, trace := Ev.call (.execute q) k true :: s.trace, dirty := dirtyAfter q s.dirty,
                         fk := fkAfter q s.fk } := by
  cases q <;> simp [conExecute, fkAfter, dirtyAfter] <;> split <;> rfl

/-! ### invariants, written as functions of the fields they depend on (so that `simp` normalises them after updates) -/

/-- lock bookkeeping recomputed from the recorded events (newest first) -/
def lockState : List Ev → Option Phase
  | [] => some .idle
  | .call _ _ _ :: t => lockState t
  | .preAcquire :: t => (lockState t).bind (Phase.step · .preAcq)
  | .acquire :: t => (lockState t).bind (Phase.step · .acq)
  | .preRelease :: t => (lockState t).bind (Phase.step · .preRel)
  | .release :: t => (lockState t).bind (Phase.step · .rel)

def phaseOfLock : Bool → Phase
  | true => .hasTx
  | false => .idle

/-- accounting: the pooled connection is open; every other connection ever opened was closed exactly once -/
def AccF (pc : Option Nat) (nc : Nat) (cl : List Nat) : Prop :=
  (∀ k, pc = some k → k < nc ∧ k ∉ cl) ∧ (∀ k, k < nc → pc ≠ some k → cl.count k = 1) ∧
  (∀ k, k ∈ cl → k < nc) ∧ (∀ k, cl.count k ≤ 1)

/-- lock discipline so far: no misuse, and the recorded lock events are consistent with the lock bits -/
def WBF (tr : List Ev) (pre lock bad : Bool) : Prop :=
  bad = false ∧ pre = false ∧ lockState tr = some (phaseOfLock lock)

/-- the part of the pool invariant that does not depend on the oracle.  `p` (chosen by the theorem that uses the specs):
    "`pool.pid` exists whenever `pool.con` does, and — with `_connect` as released (`cf.initGuard = false`), where a failed
    initialisation leaves `pool.con` assigned — `pool.pid` exists (the thread has completed a `_connect` before)" -/
def PF (cf : Cfg) (p : Bool) (pc : Option Nat) (pid : Bool) : Prop :=
  p = true → (pc.isSome = true → pid = true) ∧ (cf.initGuard = false → pid = true)

/-- `q`: "no DB-API call fails from now on, and `pool.pid` exists whenever `pool.con` does" -/
def FlF (cf : Cfg) (q p : Bool) (n : Nat) (pc : Option Nat) (pid : Bool) : Prop :=
  (q = true → (∀ i, n ≤ i → cf.fails i = false) ∧ (pc.isSome = true → pid = true)) ∧ PF cf p pc pid

@[simp] theorem PF_none (cf p pid) : PF cf p none pid ↔ (p = true → cf.initGuard = false → pid = true) := by simp [PF]
@[simp] theorem PF_true (cf p pc) : PF cf p pc true ↔ True := by simp [PF]

/-- the base invariant -/
def G (cf : Cfg) (q p : Bool) (s : St) : Prop :=
  AccF s.poolCon s.nextCon s.closed ∧ WBF s.trace s.pre s.lock s.bad ∧ FlF cf q p s.n s.poolCon s.poolPid

@[simp] theorem WBF_call (c k ok tr pr l b) : WBF (Ev.call c k ok :: tr) pr l b = WBF tr pr l b := by
  simp [WBF, lockState]

theorem FlF_ok {cf q p n pc pid} (h : FlF cf q p n pc pid) (hf : cf.fails n = false) : FlF cf q p (n + 1) pc pid := by
  refine ⟨fun hq => ⟨fun i hi => (h.1 hq).1 i (by omega), (h.1 hq).2⟩, h.2⟩

theorem FlF_fail {cf q p n pc pid} (h : FlF cf q p n pc pid) (hf : cf.fails n = true) : q = false := by
  cases q with
  | false => rfl
  | true => have := (h.1 rfl).1 n (Nat.le_refl _); simp_all

theorem FlF_false {cf p n pc pid} (n') (h : FlF cf false p n pc pid) : FlF cf false p n' pc pid := by
  exact ⟨fun hq => by simp at hq, h.2⟩

theorem FlF_q {cf q p n pc pid} (h : FlF cf q p n pc pid) (hq : q = true) : cf.fails n = false :=
  (h.1 hq).1 n (Nat.le_refl _)

/-- a DB-API call that keeps `pool.con`: both branches of `wp_dbcall` at once -/
theorem FlF_step {cf q p n pc pid} (h : FlF cf q p n pc pid) :
    (cf.fails n = false → FlF cf q p (n + 1) pc pid) ∧ (cf.fails n = true → q = false ∧ FlF cf q p (n + 1) pc pid) := by
  refine ⟨FlF_ok h, fun hf => ?_⟩
  have hq := FlF_fail h hf
  subst hq
  exact ⟨rfl, FlF_false _ h⟩


theorem FlF_cases {cf q p n pc pid} (h : FlF cf q p n pc pid) :
    (cf.fails n = true ∧ q = false ∧ FlF cf q p (n + 1) pc pid) ∨ (cf.fails n = false ∧ FlF cf q p (n + 1) pc pid) := by
  cases hf : cf.fails n
  · exact .inr ⟨rfl, (FlF_step h).1 hf⟩
  · exact .inl ⟨rfl, (FlF_step h).2 hf⟩

theorem FlF_pc {cf q p n pc pid} (pc' : Option Nat) (h : FlF cf q p n pc pid) (hpc : pc'.isSome = true → pc.isSome = true) :
    FlF cf q p n pc' pid :=
  ⟨fun hq => ⟨(h.1 hq).1, fun h' => (h.1 hq).2 (hpc h')⟩, fun hp => ⟨fun h' => (h.2 hp).1 (hpc h'), (h.2 hp).2⟩⟩

theorem AccF_drop {con nc cl} (h : AccF (some con) nc cl) : AccF none nc (con :: cl) := by
  obtain ⟨h1, h2, h3, h4⟩ := h
  have hc := h1 con rfl
  refine ⟨by simp, ?_, ?_, ?_⟩
  · intro k hk _
    by_cases hkc : con = k
    · subst hkc; simp [List.count_cons, List.count_eq_zero.mpr hc.2]
    · have := h2 k hk (by simpa using hkc)
      simp [List.count_cons, this, hkc]
  · intro k hk
    simp at hk
    rcases hk with rfl | hk
    · exact hc.1
    · exact h3 k hk
  · intro k
    by_cases hkc : con = k
    · subst hkc; simp [List.count_cons, List.count_eq_zero.mpr hc.2]
    · have := h4 k
      simp [List.count_cons, hkc]; omega

theorem AccF_new {nc cl} (h : AccF none nc cl) : AccF (some nc) (nc + 1) cl := by
  obtain ⟨_, h2, h3, h4⟩ := h
  refine ⟨?_, ?_, ?_, h4⟩
  · intro k hk
    simp at hk; subst hk
    exact ⟨by omega, fun hm => by have := h3 _ hm; omega⟩
  · intro k hk hne
    have : k < nc := by
      rcases Nat.lt_or_ge k nc with h | h
      · exact h
      · exfalso; apply hne; congr; omega
    exact h2 k this (by simp)
  · intro k hk
    have := h3 k hk; omega

/-- the functions below the provider leave these fields alone -/
def PoolFr (s s' : St) : Prop := s'.lock = s.lock ∧ s'.cache = s.cache ∧ s'.hasCache = s.hasCache

theorem spec_poolDrop (cf : Cfg) (q p : Bool) (con : Nat) (s : St) (hG : G cf q p s) (hc : s.poolCon = some con) :
    wp (poolDrop cf con)
      (fun _ s' => G cf q p s' ∧ s'.poolCon = none ∧ s'.dirty = false ∧ PoolFr s s')
      (fun _ s' => (G cf q p s' ∧ s'.poolCon = none ∧ s'.dirty = false ∧ PoolFr s s') ∧ q = false) s := by
  obtain ⟨hA, hW, hF⟩ := hG
  rw [hc] at hA
  have hA' := AccF_drop hA
  have hF' := FlF_step (FlF_pc none hF (by simp))
  simp only [poolDrop, conClose, wp_bind, wp_getS, wp_modS, wp_assertM, wp_dbcall, hc]
  simp only [decide_true, if_true]
  split <;> rename_i hf
  · have := hF'.2 hf
    simp_all [G, PoolFr]
  · have := hF'.1 (by simpa using hf)
    simp_all [G, PoolFr]


@[simp] theorem FlF_false_iff {cf p n pc pid} : FlF cf false p n pc pid ↔ PF cf p pc pid := by
  simp [FlF]

theorem FlF_true_elim {cf p n pc pid} (h : FlF cf true p n pc pid) :
    (∀ i, n ≤ i → cf.fails i = false) ∧ (pc.isSome = true → pid = true) ∧ PF cf p pc pid :=
  ⟨(h.1 rfl).1, (h.1 rfl).2, h.2⟩

theorem FlF_true_intro {cf p n n' pc pid} (hq : ∀ i, n ≤ i → cf.fails i = false) (hn : n ≤ n')
    (h1 : pc.isSome = true → pid = true) (h2 : PF cf p pc pid) : FlF cf true p n' pc pid :=
  ⟨fun _ => ⟨fun i hi => hq i (by omega), h1⟩, h2⟩

theorem spec_poolRelease (cf : Cfg) (q p : Bool) (con : Nat) (s : St) (hG : G cf q p s) (hc : s.poolCon = some con) :
    wp (poolRelease cf con)
      (fun _ s' => G cf q p s' ∧ s'.poolCon = some con ∧ s'.dirty = false ∧ PoolFr s s')
      (fun _ s' => (G cf q p s' ∧ s'.poolCon = none ∧ s'.dirty = false ∧ PoolFr s s') ∧ q = false) s := by
  obtain ⟨hA, hW, hF⟩ := hG
  have hF' := FlF_step hF
  simp only [poolRelease, conRollback, wp_bind, wp_getS, wp_modS, wp_assertM, wp_dbcall, wp_tryCatch, wp_raise, hc]
  simp only [decide_true, if_true]
  split <;> rename_i hf
  · obtain ⟨hq, hF1⟩ := hF'.2 hf
    subst hq
    refine wp_mono (spec_poolDrop cf false p con _ ?_ ?_) ?_ ?_
    · simp_all [G]
    · simp [hc]
    · intro _ s' h; exact ⟨⟨h.1, h.2.1, h.2.2.1, h.2.2.2⟩, rfl⟩
    · intro _ s' h; exact ⟨⟨h.1.1, h.1.2.1, h.1.2.2.1, h.1.2.2.2⟩, rfl⟩
  · have := hF'.1 (by simpa using hf)
    simp_all [G, PoolFr]

theorem spec_poolConnect (cf : Cfg) (q p : Bool) (s : St) (hG : G cf q p s) :
    wp (poolConnect cf)
      (fun r s' => G cf q p s' ∧ s'.poolCon = some r.1 ∧ (s'.dirty = true → s.dirty = true) ∧ PoolFr s s')
      (fun _ s' => (G cf q p s' ∧ (s'.dirty = true → s.dirty = true) ∧ PoolFr s s') ∧ q = false) s := by
  obtain ⟨hA, hW, hF⟩ := hG
  cases hpc : s.poolCon with
  | some k =>
    cases hpid : s.poolPid with
    | false =>
      have hq : q = false := by
        cases q with
        | false => rfl
        | true => have := (FlF_true_elim hF).2.1; simp_all
      subst hq
      simp_all [poolConnect, G, PoolFr]
    | true => simp_all [poolConnect, G, PoolFr]
  | none =>
    rw [hpc] at hA hF
    have hA' := AccF_new hA
    have hA'' := AccF_drop hA'
    cases hg : cf.initGuard <;> cases q
    case false.true | true.true =>
      obtain ⟨hq, -, hp⟩ := FlF_true_elim hF
      have h0 := hq s.n (Nat.le_refl _)
      have h1 := hq (s.n + 1) (by omega)
      have h2 := hq (s.n + 1 + 1) (by omega)
      have hF' : FlF cf true p (s.n + 1 + 1 + 1) (some s.nextCon) true := FlF_true_intro hq (by omega) (by simp) (by simp)
      simp_all [poolConnect, poolConnectNew, G, PoolFr, fkAfter, dirtyAfter, PF]
    case false.false | true.false =>
      simp only [poolConnect, poolConnectNew, conClose, wp_bind, wp_getS, wp_modS, wp_dbcall, wp_raise, wp_pure, wp_conExecute,
        wp_tryCatch, wp_ite, hpc, hg]
      simp only [Option.isSome_none, Bool.false_and, Bool.false_eq_true, if_false, if_true, wp_bind, wp_getS, wp_modS, wp_dbcall,
        wp_raise, wp_pure, wp_ite, wp_conExecute, wp_tryCatch]
      repeat' split
      all_goals simp_all [G, PoolFr, fkAfter, dirtyAfter, PF]

theorem wp_releaseLock (Q : Unit → St → Prop) (E) (s) :
    wp releaseLock Q E s = if s.lock then Q () { s with lock := false, trace := Ev.release :: s.trace }
                           else E .unlocked { s with bad := true } := by
  unfold wp releaseLock; cases h : s.lock <;> simp

theorem wp_preAcquire (Q : Unit → St → Prop) (E) (s) :
    wp preAcquire Q E s = if s.pre then E .deadlock { s with bad := true }
                          else Q () { s with pre := true, trace := Ev.preAcquire :: s.trace } := by
  unfold wp preAcquire; cases h : s.pre <;> simp

theorem wp_txAcquire (Q : Unit → St → Prop) (E) (s) :
    wp txAcquire Q E s = if s.lock then E .deadlock { s with bad := true }
                         else Q () { s with lock := true, trace := Ev.acquire :: s.trace } := by
  unfold wp txAcquire; cases h : s.lock <;> simp

theorem wp_preRelease (Q : Unit → St → Prop) (E) (s) :
    wp preRelease Q E s = if s.pre then Q () { s with pre := false, trace := Ev.preRelease :: s.trace }
                          else E .unlocked { s with bad := true } := by
  unfold wp preRelease; cases h : s.pre <;> simp

@[simp] theorem wp_acquireLock (Q : Unit → St → Prop) (E) (s) :
    wp acquireLock Q E s =
      if s.pre then E .deadlock { s with bad := true }
      else if s.lock then E .deadlock { s with pre := false, trace := Ev.preRelease :: Ev.preAcquire :: s.trace, bad := true }
      else Q () { s with lock := true, pre := false, trace := Ev.preRelease :: Ev.acquire :: Ev.preAcquire :: s.trace } := by
  simp only [acquireLock, wp_bind, wp_tryFinally, wp_preAcquire, wp_txAcquire, wp_preRelease]
  cases h : s.pre <;> cases h2 : s.lock <;> simp

theorem WBF_release {tr pr b} (h : WBF tr pr true b) : WBF (Ev.release :: tr) pr false b := by
  simp_all [WBF, lockState, phaseOfLock, Phase.step]

theorem WBF_acquire {tr pr b} (h : WBF tr pr false b) :
    WBF (Ev.preRelease :: Ev.acquire :: Ev.preAcquire :: tr) false true b := by
  simp_all [WBF, lockState, phaseOfLock, Phase.step]

/-- everything of the cache object except `in_transaction` -/
def CFr (c c' : Cache) : Prop :=
  c'.conn = c.conn ∧ c'.immediate = c.immediate ∧ c'.savedFk = c.savedFk ∧ c'.pending = c.pending

def Fr3 (s s' : St) : Prop := s'.poolCon = s.poolCon ∧ s'.hasCache = s.hasCache

/-- what `release` guarantees: the connection is idle in the pool or gone, nothing is locked -/
def RelPost (cf : Cfg) (q p : Bool) (con : Nat) (s s' : St) : Prop :=
  G cf q p s' ∧ s'.lock = false ∧ s'.cache.inTx = false ∧ CFr s.cache s'.cache ∧ s'.dirty = false ∧
  s'.hasCache = s.hasCache ∧ (s'.poolCon = some con ∨ s'.poolCon = none)

/-- introduce the postcondition of a callee as separate hypotheses (facts inside ONE hypothesis cannot simplify each other) -/
macro "mono_intro" : tactic =>
  `(tactic| (intro _ _; simp only [Fr3, CFr, PoolFr, RelPost, and_imp]; intros))

/-- unfold the invariants to facts about fields and let `simp_all` finish -/
macro "inv_simp" : tactic => `(tactic| simp_all [G, WBF, lockState, phaseOfLock, Phase.step, CFr, Fr3, PoolFr])

/-- `SQLiteProvider.commit` / `.rollback`: whatever happens, the lock is free and `in_transaction` is False afterwards -/
theorem spec_provCommit (cf : Cfg) (q p : Bool) (con : Nat) (s : St) (hG : G cf q p s) (hl : s.lock = s.cache.inTx) :
    wp (provCommit cf con)
      (fun _ s' => G cf q p s' ∧ s'.lock = false ∧ s'.cache.inTx = false ∧ CFr s.cache s'.cache ∧ s'.dirty = false ∧ Fr3 s s')
      (fun _ s' => (G cf q p s' ∧ s'.lock = false ∧ s'.cache.inTx = false ∧ CFr s.cache s'.cache ∧
                    (s'.dirty = true → s.dirty = true) ∧ Fr3 s s') ∧ q = false) s := by
  obtain ⟨hA, hW, hF⟩ := hG
  simp only [provCommit, withLockRelease, baseCommit, conCommit, wp_bind, wp_getS, wp_modS, wp_modC, wp_dbcall,
    wp_tryFinally, wp_wrap, wp_ite, wp_releaseLock, wp_pure]
  cases hin : s.cache.inTx <;> rw [hin] at hl <;> rcases FlF_cases hF with ⟨hf, hq, hF1⟩ | ⟨hf, hF1⟩ <;> inv_simp

theorem spec_provRollback (cf : Cfg) (q p : Bool) (con : Nat) (s : St) (hG : G cf q p s) (hl : s.lock = s.cache.inTx) :
    wp (provRollback cf con)
      (fun _ s' => G cf q p s' ∧ s'.lock = false ∧ s'.cache.inTx = false ∧ CFr s.cache s'.cache ∧ s'.dirty = false ∧ Fr3 s s')
      (fun _ s' => (G cf q p s' ∧ s'.lock = false ∧ s'.cache.inTx = false ∧ CFr s.cache s'.cache ∧
                    (s'.dirty = true → s.dirty = true) ∧ Fr3 s s') ∧ q = false) s := by
  obtain ⟨hA, hW, hF⟩ := hG
  simp only [provRollback, withLockRelease, baseRollback, conRollback, wp_bind, wp_getS, wp_modS, wp_modC, wp_dbcall,
    wp_tryFinally, wp_wrap, wp_ite, wp_releaseLock, wp_pure]
  cases hin : s.cache.inTx <;> rw [hin] at hl <;> rcases FlF_cases hF with ⟨hf, hq, hF1⟩ | ⟨hf, hF1⟩ <;> inv_simp


theorem spec_provDrop (cf : Cfg) (q p : Bool) (con : Nat) (s : St) (hG : G cf q p s) (hl : s.lock = s.cache.inTx)
    (hc : s.poolCon = some con) :
    wp (provDrop cf con)
      (fun _ s' => G cf q p s' ∧ s'.lock = false ∧ s'.cache.inTx = false ∧ CFr s.cache s'.cache ∧ s'.dirty = false ∧
                   s'.poolCon = none ∧ s'.hasCache = s.hasCache)
      (fun _ s' => (G cf q p s' ∧ s'.lock = false ∧ s'.cache.inTx = false ∧ CFr s.cache s'.cache ∧ s'.dirty = false ∧
                    s'.poolCon = none ∧ s'.hasCache = s.hasCache) ∧ q = false) s := by
  simp only [provDrop, withLockRelease, baseDrop, wp_bind, wp_getS, wp_tryFinally, wp_wrap, wp_modC, wp_ite,
    wp_releaseLock, wp_pure]
  refine wp_mono (spec_poolDrop cf q p con s hG hc) ?_ ?_
  · intro _ s' h
    obtain ⟨⟨hA', hW', hF'⟩, hpc, hd, hl', hc', hh⟩ := h
    cases hin : s.cache.inTx <;> rw [hin] at hl <;> inv_simp
  · intro _ s' h
    obtain ⟨⟨⟨hA', hW', hF'⟩, hpc, hd, hl', hc', hh⟩, hq⟩ := h
    cases hin : s.cache.inTx <;> rw [hin] at hl <;> inv_simp


/-- facts available when no call fails from index `n` on -/
theorem quiet_facts {cf p n pc pid} (h : FlF cf true p n pc pid) :
    (cf.fails n = false ∧ cf.fails (n + 1) = false ∧ cf.fails (n + 1 + 1) = false ∧ cf.fails (n + 1 + 1 + 1) = false ∧
     cf.fails (n + 1 + 1 + 1 + 1) = false) ∧
    (FlF cf true p (n + 1) pc pid ∧ FlF cf true p (n + 1 + 1) pc pid ∧ FlF cf true p (n + 1 + 1 + 1) pc pid ∧
     FlF cf true p (n + 1 + 1 + 1 + 1) pc pid ∧ FlF cf true p (n + 1 + 1 + 1 + 1 + 1) pc pid) := by
  obtain ⟨hq, h1, h2⟩ := FlF_true_elim h
  exact ⟨⟨hq _ (by omega), hq _ (by omega), hq _ (by omega), hq _ (by omega), hq _ (by omega)⟩,
    FlF_true_intro hq (by omega) h1 h2, FlF_true_intro hq (by omega) h1 h2, FlF_true_intro hq (by omega) h1 h2,
    FlF_true_intro hq (by omega) h1 h2, FlF_true_intro hq (by omega) h1 h2⟩

/-- `SQLiteProvider.set_transaction_mode`: ends holding the lock exactly when it has set `in_transaction` -/
theorem spec_setTransactionMode (cf : Cfg) (q p : Bool) (con : Nat) (s : St) (hG : G cf q p s)
    (hin : s.cache.inTx = false) (hl : s.lock = false) (hddl : cf.ddl = true → s.cache.immediate = true) :
    wp (setTransactionMode cf con)
      (fun _ s' => G cf q p s' ∧ s'.cache.inTx = s.cache.immediate ∧ s'.lock = s.cache.immediate ∧
                   s'.cache.conn = s.cache.conn ∧ s'.cache.immediate = s.cache.immediate ∧ s'.cache.pending = s.cache.pending ∧
                   Fr3 s s' ∧ (s'.dirty = true → s.dirty = true ∨ s.cache.immediate = true))
      (fun _ s' => (G cf q p s' ∧ s'.cache.inTx = false ∧ s'.lock = false ∧
                    s'.cache.conn = s.cache.conn ∧ s'.cache.immediate = s.cache.immediate ∧ s'.cache.pending = s.cache.pending ∧
                    Fr3 s s') ∧ q = false) s := by
  obtain ⟨hA, hW, hF⟩ := hG
  obtain ⟨hb, hpre, hls⟩ := hW
  rw [hl] at hls
  cases q with
  | true =>
    obtain ⟨⟨h0, h1, h2, h3, h4⟩, hF1, hF2, hF3, hF4, hF5⟩ := quiet_facts hF
    cases himm : s.cache.immediate <;> cases hd : cf.ddl <;> cases hfk : s.fk <;>
      simp [setTransactionMode, conCursor, hin, himm, hd, hfk, hl, hpre, h0, h1, h2, h3, fkAfter, dirtyAfter] <;>
      simp_all [G, WBF, lockState, phaseOfLock, Phase.step, CFr, Fr3]
  | false =>
    cases himm : s.cache.immediate with
    | false =>
      have hd : cf.ddl = false := by
        cases h : cf.ddl
        · rfl
        · exact absurd (hddl h) (by simp [himm])
      clear hddl
      cases hfk : s.fk <;>
        simp [setTransactionMode, conCursor, hin, himm, hd, hfk, hl, hpre, fkAfter, dirtyAfter] <;>
        (try simp only [wp_releaseLock]) <;>
        (repeat' split) <;> simp_all [G, WBF, lockState, phaseOfLock, Phase.step, CFr, Fr3]
    | true =>
      clear hddl
      cases hd : cf.ddl <;> cases hfk : s.fk <;>
        simp [setTransactionMode, conCursor, hin, himm, hd, hfk, hl, hpre, fkAfter, dirtyAfter] <;>
        (try simp only [wp_releaseLock]) <;>
        (repeat' split) <;> simp_all [G, WBF, lockState, phaseOfLock, Phase.step, CFr, Fr3]

theorem spec_baseRelease (cf : Cfg) (q p : Bool) (con : Nat) (s : St) (hG : G cf q p s) (hc : s.poolCon = some con)
    (hin : s.cache.inTx = false) (hl : s.lock = false) :
    wp (baseRelease cf con) (fun _ s' => RelPost cf q p con s s') (fun _ s' => RelPost cf q p con s s' ∧ q = false) s := by
  simp only [baseRelease, wp_wrap, wp_ite]
  split
  · refine wp_mono (spec_provDrop cf q p con s hG (by rw [hl, hin]) hc) ?_ ?_
    · intro _ s' h; simp_all [RelPost]
    · intro _ s' h; obtain ⟨h, hq⟩ := h; (try subst hq); simp_all [RelPost]
  · refine wp_mono (spec_poolRelease cf q p con s hG hc) ?_ ?_
    · intro _ s' h; simp_all [RelPost, PoolFr, CFr]
    · intro _ s' h; obtain ⟨h, hq⟩ := h; (try subst hq); simp_all [RelPost, PoolFr, CFr]

theorem spec_provRelease (cf : Cfg) (q p : Bool) (con : Nat) (s : St) (hG : G cf q p s) (hc : s.poolCon = some con)
    (hin : s.cache.inTx = false) (hl : s.lock = false) :
    wp (provRelease cf con) (fun _ s' => RelPost cf q p con s s') (fun _ s' => RelPost cf q p con s s' ∧ q = false) s := by
  simp only [provRelease, wp_wrap, wp_bind, wp_getS, wp_ite, wp_tryCatch, conCursor, wp_dbcall, wp_conExecute, wp_raise, wp_pure]
  split
  · obtain ⟨hA, hW, hF⟩ := hG
    rcases FlF_cases hF with ⟨hf, hq, hF1⟩ | ⟨hf, hF1⟩
    · subst hq
      simp only [hf, if_true]
      refine wp_mono (spec_poolDrop cf false p con _ ⟨hA, by simpa using hW, hF1⟩ hc) ?_ ?_
      · intro _ s' h; simp_all [RelPost, PoolFr, CFr]
      · intro _ s' h; obtain ⟨h, hq⟩ := h; (try subst hq); simp_all [RelPost, PoolFr, CFr]
    · rcases FlF_cases hF1 with ⟨hf2, hq, hF2⟩ | ⟨hf2, hF2⟩
      · subst hq
        simp only [hf, hf2, if_true, if_false, Bool.false_eq_true]
        refine wp_mono (spec_poolDrop cf false p con _ ⟨hA, by simpa using hW, hF2⟩ hc) ?_ ?_
        · intro _ s' h; simp_all [RelPost, PoolFr, CFr]
        · intro _ s' h; obtain ⟨h, hq⟩ := h; (try subst hq); simp_all [RelPost, PoolFr, CFr]
      · simp only [hf, hf2, if_false, Bool.false_eq_true]
        refine wp_mono (spec_baseRelease cf q p con _ ⟨hA, by simpa using hW, hF2⟩ hc hin hl) ?_ ?_
        · intro _ s' h; simp_all [RelPost, PoolFr, CFr]
        · intro _ s' h; obtain ⟨h, hq⟩ := h; (try subst hq); simp_all [RelPost, PoolFr, CFr]
  · refine wp_mono (spec_baseRelease cf q p con s hG hc hin hl) ?_ ?_
    · intro _ s' h; exact h
    · intro _ s' h; exact h

/-- `Database.call_on_connect`: only `commit()` calls on the new connection; nothing the protocol depends on changes -/
theorem spec_callOnConnect (cf : Cfg) (q p : Bool) (con : Nat) (n : Nat) : ∀ (s : St), G cf q p s → s.dirty = false →
    wp (callOnConnect cf con n)
      (fun _ s' => G cf q p s' ∧ s'.poolCon = s.poolCon ∧ s'.dirty = false ∧ PoolFr s s')
      (fun _ s' => (G cf q p s' ∧ s'.poolCon = s.poolCon ∧ s'.dirty = false ∧ PoolFr s s') ∧ q = false) s := by
  induction n with
  | zero => intro s hG hd; simp [callOnConnect, hG, hd, PoolFr]
  | succ n ih =>
    intro s hG hd
    obtain ⟨hA, hW, hF⟩ := hG
    simp only [callOnConnect, conCommit, wp_bind, wp_dbcall, wp_modS]
    rcases FlF_cases hF with ⟨hf, hq, hF1⟩ | ⟨hf, hF1⟩
    · subst hq; simp_all [G, PoolFr]
    · simp only [hf, Bool.false_eq_true, if_false]
      refine wp_mono (ih _ ⟨hA, by simpa using hW, hF1⟩ rfl) ?_ ?_
      · intro _ s' h; exact ⟨h.1, h.2.1, h.2.2.1, h.2.2.2⟩
      · intro _ s' h; exact ⟨⟨h.1.1, h.1.2.1, h.1.2.2.1, h.1.2.2.2⟩, h.2⟩

theorem spec_cacheConnectTail (cf : Cfg) (q p : Bool) (con : Nat) (s1 : St) (hG1 : G cf q p s1) (hpc1 : s1.poolCon = some con)
    (hconn : s1.cache.conn = none) (hin : s1.cache.inTx = false) (hl : s1.lock = false) (hd : s1.dirty = false)
    (hddl : cf.ddl = true → s1.cache.immediate = true) :
    wp (cacheConnectTail cf con)
      (fun con' s' => con' = con ∧ G cf q p s' ∧ s'.cache.conn = some con ∧ s'.poolCon = some con ∧ s'.cache.inTx = s1.cache.immediate ∧
                     s'.lock = s1.cache.immediate ∧ s'.cache.immediate = s1.cache.immediate ∧
                     s'.cache.pending = s1.cache.pending ∧ s'.hasCache = s1.hasCache)
      (fun _ s' => (G cf q p s' ∧ s'.cache.conn = none ∧ s'.cache.inTx = false ∧ s'.lock = false ∧ s'.dirty = false ∧
                    s'.cache.immediate = s1.cache.immediate ∧ s'.cache.pending = s1.cache.pending ∧
                    s'.hasCache = s1.hasCache) ∧ q = false) s1 := by
  simp only [cacheConnectTail, wp_bind, wp_tryCatch, wp_raise, wp_modC, wp_pure]
  refine wp_mono (spec_setTransactionMode cf q p con s1 hG1 hin hl hddl) ?_ ?_
  · mono_intro
    simp_all [G]
  · intro _ s2 h
    obtain ⟨⟨hG2, hin2, hl2, hcn2, him2, hp2, hfr2⟩, hq⟩ := h
    refine wp_mono (spec_provDrop cf q p con s2 hG2 (by rw [hl2, hin2]) (by simp_all [Fr3])) ?_ ?_
    · mono_intro; simp_all [Fr3, G]
    · mono_intro; simp_all [Fr3, G]

theorem spec_cacheConnect (cf : Cfg) (q p : Bool) (s : St) (hG : G cf q p s) (hconn : s.cache.conn = none)
    (hin : s.cache.inTx = false) (hl : s.lock = false) (hd : s.dirty = false)
    (hddl : cf.ddl = true → s.cache.immediate = true) :
    wp (cacheConnect cf)
      (fun con s' => G cf q p s' ∧ s'.cache.conn = some con ∧ s'.poolCon = some con ∧ s'.cache.inTx = s.cache.immediate ∧
                     s'.lock = s.cache.immediate ∧ s'.cache.immediate = s.cache.immediate ∧
                     s'.cache.pending = s.cache.pending ∧ s'.hasCache = s.hasCache)
      (fun _ s' => (G cf q p s' ∧ s'.cache.conn = none ∧ s'.cache.inTx = false ∧ s'.lock = false ∧ s'.dirty = false ∧
                    s'.cache.immediate = s.cache.immediate ∧ s'.cache.pending = s.cache.pending ∧
                    s'.hasCache = s.hasCache) ∧ q = false) s := by
  simp only [cacheConnect, baseConnect, wp_bind, wp_getS, wp_assertM, wp_wrap, wp_ite, wp_raise, wp_pure, hconn, hin]
  simp only [decide_true, if_true, Bool.false_eq_true, if_false]
  have tail : ∀ (con : Nat) (s2 : St), G cf q p s2 → s2.poolCon = some con → s2.dirty = false → PoolFr s s2 →
      wp (cacheConnectTail cf con)
        (fun con s' => G cf q p s' ∧ s'.cache.conn = some con ∧ s'.poolCon = some con ∧ s'.cache.inTx = s.cache.immediate ∧
                       s'.lock = s.cache.immediate ∧ s'.cache.immediate = s.cache.immediate ∧
                       s'.cache.pending = s.cache.pending ∧ s'.hasCache = s.hasCache)
        (fun _ s' => (G cf q p s' ∧ s'.cache.conn = none ∧ s'.cache.inTx = false ∧ s'.lock = false ∧ s'.dirty = false ∧
                      s'.cache.immediate = s.cache.immediate ∧ s'.cache.pending = s.cache.pending ∧
                      s'.hasCache = s.hasCache) ∧ q = false) s2 := by
    intro con s2 hG2 hpc2 hd2 ⟨hl2, hc2, hh2⟩
    refine wp_mono (spec_cacheConnectTail cf q p con s2 hG2 hpc2 (by rw [hc2, hconn]) (by rw [hc2, hin]) (by rw [hl2, hl]) hd2
      (by rw [hc2]; exact hddl)) ?_ ?_
    · rintro con' s' ⟨rfl, h⟩
      simpa [hc2, hh2] using h
    · rintro _ s' ⟨h, hq⟩
      exact ⟨by simpa [hc2, hh2] using h, hq⟩
  refine wp_mono (spec_poolConnect cf q p s hG) ?_ ?_
  · rintro ⟨con, isNew⟩ s1 ⟨hG1, hpc1, hd1, hfr1⟩
    have hd1' : s1.dirty = false := by cases h : s1.dirty <;> simp_all
    simp only
    cases isNew with
    | false => simpa using tail con s1 hG1 hpc1 hd1' hfr1
    | true =>
      simp only [if_true]
      refine wp_mono (spec_callOnConnect cf q p con cf.onConnect s1 hG1 hd1') ?_ ?_
      · rintro _ s2 ⟨hG2, hpc2, hd2, hl2, hc2, hh2⟩
        exact tail con s2 hG2 (by rw [hpc2, hpc1]) hd2 ⟨by rw [hl2, hfr1.1], by rw [hc2, hfr1.2.1], by rw [hh2, hfr1.2.2]⟩
      · rintro _ s2 ⟨⟨hG2, hpc2, hd2, hl2, hc2, hh2⟩, hq⟩
        obtain ⟨h1, h2, h3⟩ := hfr1
        refine ⟨⟨hG2, ?_, ?_, ?_, hd2, ?_, ?_, ?_⟩, hq⟩ <;> simp_all
  · mono_intro
    rename_i s1 _ hd1 _ _ _ _
    have hd1' : s1.dirty = false := by cases h : s1.dirty <;> simp_all
    simp_all [G]

/-- the session-cache invariant (holds between the operations of a session and between sessions) -/
def CInv (cf : Cfg) (s : St) : Prop :=
  s.lock = s.cache.inTx ∧ (s.cache.inTx = true → s.cache.conn.isSome = true) ∧
  (∀ k, s.cache.conn = some k → s.poolCon = some k) ∧ (s.hasCache = false → s.cache.conn = none) ∧
  (s.dirty = true → s.cache.conn.isSome = true) ∧ (s.hasCache = true → cf.ddl = true → s.cache.immediate = true)

def Inv (cf : Cfg) (q p : Bool) (s : St) : Prop := G cf q p s ∧ CInv cf s

/-- the cache stays registered and keeps its `immediate` flag and its pending statements -/
def Keep (s s' : St) : Prop :=
  s'.hasCache = true ∧ s'.cache.immediate = s.cache.immediate ∧ s'.cache.pending = s.cache.pending

/-- like `mono_intro`, also opening the session-level invariants -/
macro "mono_intro2" : tactic =>
  `(tactic| (intro _ _; simp only [Inv, CInv, Keep, G, Fr3, CFr, PoolFr, RelPost, and_imp]; intros))

theorem spec_cacheReconnect (cf : Cfg) (q p : Bool) (e : Exc) (con : Nat) (s : St) (hI : Inv cf q p s)
    (hh : s.hasCache = true) (hconn : s.cache.conn = some con) :
    wp (cacheReconnect cf e)
      (fun con' s' => Inv cf q p s' ∧ Keep s s' ∧ s'.cache.conn = some con' ∧ s'.cache.inTx = s'.cache.immediate)
      (fun _ s' => Inv cf q p s' ∧ Keep s s') s := by
  obtain ⟨hG, hl, htx, hcp, hdead, hdirty, hddl⟩ := hI
  simp only [cacheReconnect, wp_bind, wp_ite, wp_raise, wp_getS, wp_pure, hconn, wp_modC]
  split
  · simp_all [Inv, CInv, Keep]
  · refine wp_mono (spec_provDrop cf q p con _ (by simpa [G] using hG) (by simpa using hl) (by simpa using hcp con hconn)) ?_ ?_
    · mono_intro
      rename_i s1 hG1 hl1 hin1 hc1 _ _ _ hd1 hp1 hh1
      refine wp_mono (spec_cacheConnect cf q p s1 hG1 (by simpa using hc1) hin1 hl1 hd1 (by simp_all)) ?_ ?_
      · mono_intro; simp_all [Inv, CInv, Keep]
      · mono_intro; simp_all [Inv, CInv, Keep]
    · mono_intro; simp_all [Inv, CInv, Keep]

theorem spec_prepareCore (cf : Cfg) (q p : Bool) (s : St) (hI : Inv cf q p s) (hh : s.hasCache = true) :
    wp (prepareCore cf)
      (fun con s' => Inv cf q p s' ∧ Keep s s' ∧ s'.cache.conn = some con ∧ (s'.cache.immediate = true → s'.cache.inTx = true))
      (fun _ s' => (Inv cf q p s' ∧ Keep s s') ∧ q = false) s := by
  obtain ⟨hG, hl, htx, hcp, hdead, hdirty, hddl⟩ := hI
  simp only [prepareCore, wp_bind, wp_getS]
  cases hconn : s.cache.conn with
  | none =>
    have hin : s.cache.inTx = false := by cases h : s.cache.inTx <;> simp_all
    have hd : s.dirty = false := by cases h : s.dirty <;> simp_all
    simp only
    refine wp_mono (spec_cacheConnect cf q p s hG hconn hin (by rw [hl, hin]) hd (hddl hh)) ?_ ?_
    · mono_intro; simp_all [Inv, CInv, Keep]
    · mono_intro; simp_all [Inv, CInv, Keep]
  | some con =>
    simp only [wp_ite, wp_tryCatch, wp_bind, wp_pure]
    split
    · rename_i hc
      have hin : s.cache.inTx = false := by simp_all
      refine wp_mono (spec_setTransactionMode cf q p con s hG hin (by rw [hl, hin]) (hddl hh)) ?_ ?_
      · mono_intro; simp_all [Inv, CInv, Keep]
      · mono_intro
        rename_i e s1 _ _ _ _ _ _ _ _ _
        refine wp_mono (spec_cacheReconnect cf q p e con s1 (by simp_all [Inv, CInv]) (by simp_all) (by simp_all)) ?_ ?_
        · mono_intro; simp_all [Inv, CInv, Keep]
        · mono_intro; simp_all [Inv, CInv, Keep]
    · rename_i hc
      simp_all [Inv, CInv, Keep]


theorem spec_execTail (cf : Cfg) (q p : Bool) (con : Nat) (sql : Sql) (many : Bool) (s : St) (hI : Inv cf q p s)
    (hh : s.hasCache = true) (hconn' : s.cache.conn.isSome = true) (himm : s.cache.immediate = true → s.cache.inTx = true) :
    wp (execTail cf con sql many)
      (fun _ s' => Inv cf q p s' ∧ Keep s s' ∧ s'.cache.conn.isSome = true ∧ (s'.cache.immediate = true → s'.cache.inTx = true))
      (fun _ s' => (Inv cf q p s' ∧ Keep s s') ∧ q = false) s := by
  obtain ⟨con0, hconn⟩ := Option.isSome_iff_exists.mp hconn'
  obtain ⟨⟨hA, hW, hF⟩, hl, htx, hcp, hdead, hdirty, hddl⟩ := hI
  simp only [execTail, conCursor, provExecute, conExecuteMany, wp_bind, wp_dbcall, wp_tryCatch, wp_wrap, wp_ite, wp_getS,
    wp_modC, wp_pure, wp_conExecute]
  rcases FlF_cases hF with ⟨hf, hq, hF1⟩ | ⟨hf, hF1⟩
  · subst hq
    simp_all [Inv, CInv, Keep, G]
  · simp only [hf, Bool.false_eq_true, if_false]
    cases many <;> simp only [Bool.false_eq_true, if_false, if_true]
    all_goals
      rcases FlF_cases hF1 with ⟨hf2, hq, hF2⟩ | ⟨hf2, hF2⟩
      · subst hq
        simp only [hf2, if_true]
        refine wp_mono (spec_cacheReconnect cf false p _ con0 _ ?_ ?_ ?_) ?_ ?_
        · simp_all [Inv, CInv, G]
        · simpa using hh
        · simpa using hconn
        · mono_intro2
          (repeat' split) <;> simp_all [Inv, CInv, Keep, G]
        · mono_intro2; simp_all [Inv, CInv, Keep, G]
      · simp only [hf2, Bool.false_eq_true, if_false]
        split <;> simp_all [Inv, CInv, Keep, G]

/-- `db_session.immediate` is `immediate or ddl or serializable or not optimistic` -/
def Cfg.WF (cf : Cfg) : Prop := cf.ddl = true → cf.immediate = true

theorem spec_getCache (cf : Cfg) (q p : Bool) (s : St) (hwf : cf.WF) (hI : Inv cf q p s) :
    wp (getCache cf)
      (fun _ s' => Inv cf q p s' ∧ s'.hasCache = true ∧ (s.hasCache = true → s' = s) ∧
                   (s.hasCache = false → s'.cache.conn = none ∧ s'.cache.inTx = false))
      (fun _ _ => False) s := by
  obtain ⟨hG, hl, htx, hcp, hdead, hdirty, hddl⟩ := hI
  simp only [getCache, wp_bind, wp_getS, wp_ite, wp_modS, wp_pure]
  cases hh : s.hasCache
  · have hc := hdead hh
    have hin : s.cache.inTx = false := by cases h : s.cache.inTx <;> simp_all
    have hd : s.dirty = false := by cases h : s.dirty <;> simp_all
    simp_all [Inv, CInv, G, Cfg.WF]
  · simp_all [Inv, CInv, G]

theorem spec_execNoFlush (cf : Cfg) (q p : Bool) (many : Bool) (s : St) (hI : Inv cf q p s) (hh : s.hasCache = true) :
    wp (execNoFlush cf many)
      (fun _ s' => Inv cf q p s' ∧ s'.hasCache = true ∧ s'.cache.inTx = true ∧ s'.cache.conn.isSome = true ∧
                   s'.cache.immediate = true ∧ s'.cache.pending = s.cache.pending)
      (fun _ s' => (Inv cf q p s' ∧ s'.hasCache = true ∧ s'.cache.immediate = true ∧ s'.cache.pending = s.cache.pending) ∧ q = false) s := by
  simp only [execNoFlush, getCache, wp_bind, wp_getS, wp_ite, wp_modS, wp_modC, wp_pure, hh]
  simp only [Bool.not_true, Bool.false_eq_true, if_false, wp_pure]
  refine wp_mono (spec_prepareCore cf q p _ ?_ (by simpa using hh)) ?_ ?_
  · obtain ⟨hG, hl, htx, hcp, hdead, hdirty, hddl⟩ := hI
    simp_all [Inv, CInv, G]
  · rintro con s1 ⟨hI1, ⟨hk1, hk2, hk3⟩, hc1, hP1⟩
    refine wp_mono (spec_execTail cf q p con .write many s1 hI1 hk1 (by simp [hc1]) hP1) ?_ ?_
    · rintro _ s2 ⟨hI2, ⟨hj1, hj2, hj3⟩, hc2, hP2⟩
      simp_all
    · rintro _ s2 ⟨⟨hI2, ⟨hj1, hj2, hj3⟩⟩, hq⟩
      simp_all
  · rintro _ s1 ⟨⟨hI1, ⟨hk1, hk2, hk3⟩⟩, hq⟩
    simp_all

theorem spec_flushLoop (cf : Cfg) (q p : Bool) (ws : List Bool) : ∀ (s : St), Inv cf q p s → s.hasCache = true →
    s.cache.immediate = true →
    wp (flushLoop cf ws)
      (fun _ s' => Inv cf q p s' ∧ s'.hasCache = true ∧ s'.cache.immediate = true ∧
                   ((ws = [] ∧ s' = s) ∨ (s'.cache.inTx = true ∧ s'.cache.conn.isSome = true ∧ s'.cache.pending = [])))
      (fun _ s' => (Inv cf q p s' ∧ s'.hasCache = true ∧ s'.cache.immediate = true) ∧ q = false) s := by
  induction ws with
  | nil => intro s hI hh himm; simp_all [flushLoop]
  | cons w rest ih =>
    intro s hI hh himm
    simp only [flushLoop, wp_bind, wp_modC]
    refine wp_mono (spec_execNoFlush cf q p w s hI hh) ?_ ?_
    · intro _ s1 ⟨hI1, hh1, hin1, hc1, him1, hp1⟩
      refine wp_mono (ih _ ?_ hh1 him1) ?_ ?_
      · obtain ⟨hG, hl, htx, hcp, hdead, hdirty, hddl⟩ := hI1
        simp_all [Inv, CInv, G]
      · intro _ s2 ⟨hI2, hh2, him2, hcase⟩
        refine ⟨hI2, hh2, him2, .inr ?_⟩
        rcases hcase with ⟨hr, rfl⟩ | h
        · simp_all
        · exact h
      · intro _ s2 h; exact h
    · intro _ s1 ⟨⟨hI1, hh1, him1, _⟩, hq⟩; exact ⟨⟨hI1, hh1, him1⟩, hq⟩

/-- "a cache that wants a transaction has one" (what `prepare_connection_for_query_execution` establishes) -/
def TxReady (s : St) : Prop := s.cache.immediate = true → s.cache.inTx = true

theorem spec_cacheFlush (cf : Cfg) (q p : Bool) (s : St) (hI : Inv cf q p s) (hh : s.hasCache = true) :
    wp (cacheFlush cf)
      (fun _ s' => Inv cf q p s' ∧ s'.hasCache = true ∧ (s.cache.inTx = true → s'.cache.inTx = true) ∧
                   (s.cache.pending ≠ [] → s'.cache.inTx = true ∧ s'.cache.conn.isSome = true) ∧
                   (s.cache.conn.isSome = true → s'.cache.conn.isSome = true) ∧ (TxReady s → TxReady s'))
      (fun _ s' => (Inv cf q p s' ∧ s'.hasCache = true) ∧ q = false) s := by
  simp only [cacheFlush, wp_bind, wp_getS, wp_modC, wp_tryFinally, wp_ite, wp_pure]
  refine wp_mono (spec_flushLoop cf q p s.cache.pending _ ?_ (by simpa using hh) (by simp)) ?_ ?_
  · obtain ⟨hG, hl, htx, hcp, hdead, hdirty, hddl⟩ := hI
    simp_all [Inv, CInv, G]
  · rintro _ s1 ⟨hI1, hh1, him1, hcase⟩
    obtain ⟨hG1, hl1, htx1, hcp1, hdead1, hdirty1, hddl1⟩ := hI1
    obtain ⟨hG, hl, htx, hcp, hdead, hdirty, hddl⟩ := hI
    rcases hcase with ⟨hnil, rfl⟩ | ⟨hin1, hc1, hp1⟩
    · cases hin : s.cache.inTx <;> simp_all [Inv, CInv, G, TxReady]
    · simp_all [Inv, CInv, G, TxReady]
  · rintro _ s1 ⟨⟨hI1, hh1, him1⟩, hq⟩
    obtain ⟨hG1, hl1, htx1, hcp1, hdead1, hdirty1, hddl1⟩ := hI1
    obtain ⟨hG, hl, htx, hcp, hdead, hdirty, hddl⟩ := hI
    cases hin : s1.cache.inTx <;> simp_all [Inv, CInv, G]

theorem spec_prepare (cf : Cfg) (q p : Bool) (s : St) (hI : Inv cf q p s) (hh : s.hasCache = true) :
    wp (prepare cf)
      (fun _ s' => Inv cf q p s' ∧ s'.hasCache = true ∧ s'.cache.conn.isSome = true ∧ TxReady s' ∧
                   (s.cache.immediate = true → s'.cache.inTx = true))
      (fun _ s' => (Inv cf q p s' ∧ s'.hasCache = true) ∧ q = false) s := by
  simp only [prepare, wp_bind, wp_getS, wp_ite, wp_pure]
  refine wp_mono (spec_prepareCore cf q p s hI hh) ?_ ?_
  · rintro con s1 ⟨hI1, ⟨hk1, hk2, hk3⟩, hc1, hP1⟩
    split
    · refine wp_mono (spec_cacheFlush cf q p s1 hI1 hk1) ?_ ?_
      · rintro _ s2 ⟨hI2, hh2, hin2, hpend2, hc2, hP2⟩
        simp_all [TxReady]
      · rintro _ s2 ⟨⟨hI2, hh2⟩, hq⟩; simp_all
    · simp_all [TxReady]
  · rintro _ s1 ⟨⟨hI1, ⟨hk1, hk2, hk3⟩⟩, hq⟩; simp_all

theorem spec_execSql (cf : Cfg) (q p : Bool) (start many : Bool) (s : St) (hwf : cf.WF) (hI : Inv cf q p s) :
    wp (execSql cf start many)
      (fun _ s' => Inv cf q p s' ∧ s'.hasCache = true)
      (fun _ s' => Inv cf q p s' ∧ q = false) s := by
  simp only [execSql, wp_bind]
  refine wp_mono (spec_getCache cf q p s hwf hI) ?_ (by intro _ _ h; exact h.elim)
  rintro _ s1 ⟨hI1, hh1, -, -⟩
  have hI1' : Inv cf q p { s1 with cache := { s1.cache with immediate := true } } := by
    obtain ⟨hG1, hl1, htx1, hcp1, hdead1, hdirty1, hddl1⟩ := hI1
    simp_all [Inv, CInv, G]
  cases start <;> simp only [wp_ite, wp_modC, wp_pure, wp_bind, Bool.false_eq_true, if_false, if_true]
  · refine wp_mono (spec_prepare cf q p s1 hI1 hh1) ?_ ?_
    · rintro con s2 ⟨hI2, hh2, hc2, hP2, -⟩
      refine wp_mono (spec_execTail cf q p con _ many s2 hI2 hh2 hc2 hP2) ?_ ?_
      · rintro _ s3 ⟨hI3, ⟨hj1, hj2, hj3⟩, -, -⟩; exact ⟨hI3, hj1⟩
      · rintro _ s3 ⟨⟨hI3, -⟩, hq⟩; exact ⟨hI3, hq⟩
    · rintro _ s2 ⟨⟨hI2, hh2⟩, hq⟩; exact ⟨hI2, hq⟩
  · refine wp_mono (spec_prepare cf q p _ hI1' (by simpa using hh1)) ?_ ?_
    · rintro con s2 ⟨hI2, hh2, hc2, hP2, -⟩
      refine wp_mono (spec_execTail cf q p con _ many s2 hI2 hh2 hc2 hP2) ?_ ?_
      · rintro _ s3 ⟨hI3, ⟨hj1, hj2, hj3⟩, -, -⟩; exact ⟨hI3, hj1⟩
      · rintro _ s3 ⟨⟨hI3, -⟩, hq⟩; exact ⟨hI3, hq⟩
    · rintro _ s2 ⟨⟨hI2, hh2⟩, hq⟩; exact ⟨hI2, hq⟩

/-- `SessionCache.close`: however it ends, the cache is gone, nothing is locked, the connection is pooled-and-idle or closed -/
theorem spec_cacheClose (cf : Cfg) (q p : Bool) (rb : Bool) (s : St) (hI : Inv cf q p s)
    (hrb : rb = false → s.cache.inTx = false) :
    wp (cacheClose cf rb)
      (fun _ s' => Inv cf q p s' ∧ s'.hasCache = false)
      (fun _ s' => (Inv cf q p s' ∧ s'.hasCache = false) ∧ q = false) s := by
  obtain ⟨hG, hl, htx, hcp, hdead, hdirty, hddl⟩ := hI
  simp only [cacheClose, wp_bind, wp_getS, wp_ite, wp_assertM, wp_modS, wp_modC, wp_pure, wp_tryCatch, wp_raise]
  cases hconn : s.cache.conn with
  | none =>
    have hin : s.cache.inTx = false := by cases h : s.cache.inTx <;> simp_all
    have hd : s.dirty = false := by cases h : s.dirty <;> simp_all
    cases rb <;> simp_all [Inv, CInv, G]
  | some con =>
    have hpc := hcp con hconn
    cases rb with
    | true =>
      simp only [Bool.not_true, Bool.false_eq_true, if_false, if_true, wp_pure, wp_bind, wp_modC, wp_tryCatch, wp_raise, wp_ite]
      refine wp_mono (spec_provRollback cf q p con _ (by simpa [G] using hG) (by simpa using hl)) ?_ ?_
      · rintro _ s2 ⟨hG2, hl2, hin2, ⟨hc2, -, -, -⟩, hd2, hpc2, hh2⟩
        refine wp_mono (spec_provRelease cf q p con s2 hG2 (by simpa [hpc] using hpc2) hin2 hl2) ?_ ?_
        · rintro _ s3 ⟨hG3, hl3, hin3, ⟨hc3, -, -, -⟩, hd3, hh3, -⟩
          simp_all [Inv, CInv]
        · rintro _ s3 ⟨⟨hG3, hl3, hin3, ⟨hc3, -, -, -⟩, hd3, hh3, -⟩, hq⟩
          simp_all [Inv, CInv]
      · rintro _ s2 ⟨⟨hG2, hl2, hin2, ⟨hc2, -, -, -⟩, hd2, hpc2, hh2⟩, hq⟩
        refine wp_mono (spec_provDrop cf q p con s2 hG2 (by rw [hl2, hin2]) (by simpa [hpc] using hpc2)) ?_ ?_
        · rintro _ s3 ⟨hG3, hl3, hin3, ⟨hc3, -, -, -⟩, hd3, hpc3, hh3⟩
          simp_all [Inv, CInv]
        · rintro _ s3 ⟨⟨hG3, hl3, hin3, ⟨hc3, -, -, -⟩, hd3, hpc3, hh3⟩, -⟩
          simp_all [Inv, CInv]
    | false =>
      have hin := hrb rfl
      simp only [Bool.not_false, if_true, hin, decide_true, Bool.false_eq_true, if_false, wp_pure, wp_bind, wp_modS, wp_modC]
      refine wp_mono (spec_provRelease cf q p con _ (by simpa [G] using hG) (by simpa using hpc) (by simpa using hin)
        (by simpa [hin] using hl)) ?_ ?_
      · rintro _ s3 ⟨hG3, hl3, hin3, ⟨hc3, -, -, -⟩, hd3, hh3, -⟩
        simp_all [Inv, CInv]
      · rintro _ s3 ⟨⟨hG3, hl3, hin3, ⟨hc3, -, -, -⟩, hd3, hh3, -⟩, hq⟩
        simp_all [Inv, CInv]

/-- `SessionCache.commit`: either committed (no transaction, lock free) or the cache has been closed -/
theorem spec_cacheCommit (cf : Cfg) (q p : Bool) (s : St) (hI : Inv cf q p s) (hh : s.hasCache = true) :
    wp (cacheCommit cf)
      (fun _ s' => Inv cf q p s' ∧ s'.hasCache = true ∧ s'.cache.inTx = false)
      (fun _ s' => (Inv cf q p s' ∧ s'.hasCache = false) ∧ q = false) s := by
  simp only [cacheCommit, wp_tryCatch, wp_bind, wp_getS, wp_ite, wp_pure, wp_raise, wp_modC]
  -- the handler: `cache.rollback(); raise`
  have handler : ∀ (s1 : St), Inv cf q p s1 → q = false →
      wp (cacheClose cf true) (fun _ s' => (Inv cf q p s' ∧ s'.hasCache = false) ∧ q = false)
        (fun _ s' => (Inv cf q p s' ∧ s'.hasCache = false) ∧ q = false) s1 := by
    intro s1 hI1 hq
    refine wp_mono (spec_cacheClose cf q p true s1 hI1 (by simp)) ?_ ?_
    · intro _ s' h; exact ⟨h, hq⟩
    · intro _ s' h; exact h
  -- after the flush
  have rest : ∀ (s1 : St), Inv cf q p s1 → s1.hasCache = true →
      wp (do
          let s ← getS
          if s.cache.inTx then
            match s.cache.conn with
            | none => assertM false
            | some con => provCommit cf con
          modC (fun c => { c with immediate := true }))
        (fun _ s' => Inv cf q p s' ∧ s'.hasCache = true ∧ s'.cache.inTx = false)
        (fun _ s' => wp (cacheClose cf true) (fun _ s' => (Inv cf q p s' ∧ s'.hasCache = false) ∧ q = false)
          (fun _ s' => (Inv cf q p s' ∧ s'.hasCache = false) ∧ q = false) s') s1 := by
    intro s1 hI1 hh1
    obtain ⟨hG, hl, htx, hcp, hdead, hdirty, hddl⟩ := hI1
    simp only [wp_bind, wp_getS, wp_ite, wp_modC, wp_pure]
    cases hin : s1.cache.inTx with
    | false => simp_all [Inv, CInv, G]
    | true =>
      obtain ⟨con, hconn⟩ := Option.isSome_iff_exists.mp (htx hin)
      simp only [hconn, if_true, wp_bind, wp_modC]
      refine wp_mono (spec_provCommit cf q p con s1 hG hl) ?_ ?_
      · rintro _ s2 ⟨hG2, hl2, hin2, ⟨hc2, hi2, -, -⟩, hd2, hpc2, hh2⟩
        simp_all [Inv, CInv, G]
      · rintro _ s2 ⟨⟨hG2, hl2, hin2, ⟨hc2, hi2, -, -⟩, hd2, hpc2, hh2⟩, hq⟩
        refine handler s2 ?_ hq
        have : s2.dirty = true → s2.cache.conn.isSome = true := by intro h; simp_all
        simp_all [Inv, CInv]
  simp only [wp_tryCatch, wp_bind, wp_getS, wp_ite, wp_pure, wp_raise, wp_modC] at rest
  split
  · refine wp_mono (spec_cacheFlush cf q p s hI hh) ?_ ?_
    · rintro _ s1 ⟨hI1, hh1, -⟩
      exact rest s1 hI1 hh1
    · rintro _ s1 ⟨⟨hI1, hh1⟩, hq⟩
      exact handler s1 hI1 hq
  · exact rest s hI hh

/-- `core.rollback()` -/
theorem spec_coreRollback (cf : Cfg) (q p : Bool) (s : St) (hI : Inv cf q p s) :
    wp (coreRollback cf)
      (fun _ s' => Inv cf q p s' ∧ s'.hasCache = false)
      (fun _ s' => (Inv cf q p s' ∧ s'.hasCache = false) ∧ q = false) s := by
  simp only [coreRollback, wp_bind, wp_getS, wp_ite, wp_tryCatch, wp_raise, wp_pure]
  cases hh : s.hasCache with
  | false => simp_all
  | true =>
    simp only [if_true]
    exact wp_mono (spec_cacheClose cf q p true s hI (by simp)) (fun _ _ h => h) (fun _ _ h => h)

/-- `core.commit()` -/
theorem spec_coreCommit (cf : Cfg) (q p : Bool) (s : St) (hI : Inv cf q p s) :
    wp (coreCommit cf)
      (fun _ s' => Inv cf q p s' ∧ (s'.hasCache = true → s'.cache.inTx = false))
      (fun _ s' => (Inv cf q p s' ∧ s'.hasCache = false) ∧ q = false) s := by
  simp only [coreCommit, wp_bind, wp_getS, wp_ite, wp_tryCatch, wp_raise, wp_pure]
  cases hh : s.hasCache with
  | false => simp_all
  | true =>
    simp only [if_true]
    refine wp_mono (spec_cacheFlush cf q p s hI hh) ?_ ?_
    · rintro _ s1 ⟨hI1, hh1, -⟩
      refine wp_mono (spec_cacheCommit cf q p s1 hI1 hh1) ?_ ?_
      · rintro _ s2 ⟨hI2, hh2, hin2⟩; exact ⟨hI2, fun _ => hin2⟩
      · intro _ s2 h; exact h
    · rintro _ s1 ⟨⟨hI1, hh1⟩, hq⟩
      refine wp_mono (spec_coreRollback cf q p s1 hI1) ?_ ?_
      · intro _ s2 h; exact ⟨h, hq⟩
      · intro _ s2 h; exact h

theorem spec_getConnection (cf : Cfg) (q p : Bool) (s : St) (hwf : cf.WF) (hI : Inv cf q p s) :
    wp (getConnection cf) (fun _ s' => Inv cf q p s') (fun _ s' => Inv cf q p s' ∧ q = false) s := by
  simp only [getConnection, wp_bind]
  refine wp_mono (spec_getCache cf q p s hwf hI) ?_ (by intro _ _ h; exact h.elim)
  rintro _ s1 ⟨hI1, hh1, -, -⟩
  obtain ⟨hG, hl, htx, hcp, hdead, hdirty, hddl⟩ := hI1
  simp only [wp_getS, wp_ite, wp_bind, wp_modC, wp_assertM, wp_pure]
  cases hin : s1.cache.inTx with
  | true =>
    have := htx hin
    cases hc : s1.cache.conn <;> simp_all [Inv, CInv]
  | false =>
    simp only [Bool.not_false, if_true]
    refine wp_mono (spec_prepare cf q p _ (by simp_all [Inv, CInv, G]) (by simpa using hh1)) ?_ ?_
    · rintro _ s2 ⟨hI2, hh2, hc2, hP2, hin2⟩
      obtain ⟨hG2, hl2, htx2, hcp2, hdead2, hdirty2, hddl2⟩ := hI2
      have hin2' := hin2 rfl
      cases hc : s2.cache.conn <;> simp_all [Inv, CInv, G]
    · rintro _ s2 ⟨⟨hI2, hh2⟩, hq⟩; exact ⟨hI2, hq⟩

theorem spec_runOp (cf : Cfg) (q p : Bool) (op : Op) (s : St) (hwf : cf.WF) (hI : Inv cf q p s) :
    wp (runOp cf op) (fun _ s' => Inv cf q p s') (fun _ s' => Inv cf q p s' ∧ q = false) s := by
  cases op with
  | query =>
    simp only [runOp, wp_bind]
    refine wp_mono (spec_getCache cf q p s hwf hI) ?_ (by intro _ _ h; exact h.elim)
    rintro _ s1 ⟨hI1, hh1, -, -⟩
    refine wp_mono (spec_prepare cf q p s1 hI1 hh1) ?_ ?_
    · rintro _ s2 ⟨hI2, -⟩
      exact wp_mono (spec_execSql cf q p false false s2 hwf hI2) (fun _ _ h => h.1) (fun _ _ h => h)
    · rintro _ s2 ⟨⟨hI2, -⟩, hq⟩; exact ⟨hI2, hq⟩
  | select => exact wp_mono (spec_execSql cf q p false false s hwf hI) (fun _ _ h => h.1) (fun _ _ h => h)
  | write many => exact wp_mono (spec_execSql cf q p true many s hwf hI) (fun _ _ h => h.1) (fun _ _ h => h)
  | modify ws =>
    simp only [runOp, wp_bind, wp_modC]
    refine wp_mono (spec_getCache cf q p s hwf hI) ?_ (by intro _ _ h; exact h.elim)
    rintro _ s1 ⟨⟨hG, hl, htx, hcp, hdead, hdirty, hddl⟩, hh1, -, -⟩
    simp_all [Inv, CInv, G]
  | flush =>
    simp only [runOp, wp_bind, wp_getS, wp_ite, wp_pure]
    cases hh : s.hasCache with
    | false => simpa using hI
    | true => exact wp_mono (spec_cacheFlush cf q p s hI hh) (fun _ _ h => h.1) (fun _ _ h => ⟨h.1.1, h.2⟩)
  | commit => exact wp_mono (spec_coreCommit cf q p s hI) (fun _ _ h => h.1) (fun _ _ h => ⟨h.1.1, h.2⟩)
  | rollback => exact wp_mono (spec_coreRollback cf q p s hI) (fun _ _ h => h.1) (fun _ _ h => ⟨h.1.1, h.2⟩)
  | getConnection => exact spec_getConnection cf q p s hwf hI

theorem spec_runBody (cf : Cfg) (q p : Bool) (hwf : cf.WF) (prog : List (Op × Bool)) : ∀ (s : St), Inv cf q p s →
    wp (runBody cf prog) (fun _ s' => Inv cf q p s') (fun _ s' => Inv cf q p s' ∧ q = false) s := by
  induction prog with
  | nil => intro s hI; simpa [runBody] using hI
  | cons oc rest ih =>
    intro s hI
    obtain ⟨op, caught⟩ := oc
    simp only [runBody, wp_bind, wp_ite, wp_tryCatch, wp_pure]
    cases caught with
    | true =>
      simp only [if_true]
      refine wp_mono (spec_runOp cf q p op s hwf hI) ?_ ?_
      · intro _ s1 h1; exact ih s1 h1
      · intro _ s1 h1; exact ih s1 h1.1
    | false =>
      simp only [Bool.false_eq_true, if_false]
      refine wp_mono (spec_runOp cf q p op s hwf hI) ?_ ?_
      · intro _ s1 h1; exact ih s1 h1
      · intro _ s1 h1; exact h1

/-- `db_session.__exit__` -/
theorem spec_exitSession (cf : Cfg) (q p : Bool) (r : Except Exc Unit) (s : St) (hI : Inv cf q p s) :
    wp (exitSession cf r)
      (fun _ s' => Inv cf q p s' ∧ s'.hasCache = false)
      (fun _ s' => Inv cf q p s' ∧ s'.hasCache = false ∧ (q = false ∨ ∃ e, r = .error e)) s := by
  cases r with
  | ok u =>
    simp only [exitSession, wp_bind, wp_getS, wp_ite, wp_pure, wp_tryCatch, wp_raise]
    have handler : ∀ (e : Exc) (s1 : St), (Inv cf q p s1 ∧ s1.hasCache = false) ∧ q = false →
        wp (coreRollback cf) (fun _ s' => Inv cf q p s' ∧ s'.hasCache = false ∧ (q = false ∨ ∃ e, (Except.ok u : Except Exc Unit) = .error e))
          (fun _ s' => Inv cf q p s' ∧ s'.hasCache = false ∧ (q = false ∨ ∃ e, (Except.ok u : Except Exc Unit) = .error e)) s1 := by
      intro e s1 h
      refine wp_mono (spec_coreRollback cf q p s1 h.1.1) ?_ ?_
      · intro _ s2 h2; exact ⟨h2.1, h2.2, .inl h.2⟩
      · intro _ s2 h2; exact ⟨h2.1.1, h2.1.2, .inl h.2⟩
    refine wp_mono (spec_coreCommit cf q p s hI) ?_ ?_
    · rintro _ s1 ⟨hI1, hin1⟩
      cases hh : s1.hasCache with
      | false => simp_all
      | true =>
        simp only [if_true]
        refine wp_mono (spec_cacheClose cf q p false s1 hI1 (fun _ => hin1 hh)) ?_ ?_
        · intro _ s2 h; exact h
        · intro e s2 h; exact handler e s2 h
    · intro e s1 h; exact handler e s1 h
  | error e =>
    simp only [exitSession, wp_bind, wp_tryCatch, wp_pure, wp_raise]
    refine wp_mono (spec_coreRollback cf q p s hI) ?_ ?_
    · intro _ s1 h; exact ⟨h.1, h.2, .inr ⟨e, rfl⟩⟩
    · intro _ s1 h; exact ⟨h.1.1, h.1.2, .inr ⟨e, rfl⟩⟩

/-- `with db_session: …` — the central statement: whatever the body does and whichever DB-API calls fail, the session
    ends with the invariant re-established and its cache gone; if no call fails and the body does not raise, it ends normally -/
theorem spec_dbSession (cf : Cfg) (q p : Bool) (hwf : cf.WF) (prog : List (Op × Bool)) (br : Bool) (s : St)
    (hI : Inv cf q p s) :
    wp (dbSession cf prog br)
      (fun _ s' => Inv cf q p s' ∧ s'.hasCache = false)
      (fun _ s' => Inv cf q p s' ∧ s'.hasCache = false ∧ (q = false ∨ br = true)) s := by
  have hbody : wp (do runBody cf prog; if br then raise .body : M Unit)
      (fun _ s' => Inv cf q p s' ∧ br = false) (fun _ s' => Inv cf q p s' ∧ (q = false ∨ br = true)) s := by
    simp only [wp_bind, wp_ite, wp_raise, wp_pure]
    refine wp_mono (spec_runBody cf q p hwf prog s hI) ?_ ?_
    · intro _ s1 h1; cases br <;> simp_all
    · intro _ s1 h1; exact ⟨h1.1, .inl h1.2⟩
  rcases hrun : (do runBody cf prog; if br then raise .body : M Unit) s with ⟨r, s1⟩
  have heq : dbSession cf prog br s = exitSession cf r s1 := by
    unfold dbSession; rw [hrun]
  have hw : wp (dbSession cf prog br) (fun _ s' => Inv cf q p s' ∧ s'.hasCache = false)
      (fun _ s' => Inv cf q p s' ∧ s'.hasCache = false ∧ (q = false ∨ br = true)) s
      = wp (exitSession cf r) (fun _ s' => Inv cf q p s' ∧ s'.hasCache = false)
      (fun _ s' => Inv cf q p s' ∧ s'.hasCache = false ∧ (q = false ∨ br = true)) s1 := by
    unfold wp; rw [heq]
  rw [hw]
  unfold wp at hbody
  rw [hrun] at hbody
  cases r with
  | ok u =>
    refine wp_mono (spec_exitSession cf q p _ s1 hbody.1) ?_ ?_
    · intro _ s2 h; exact h
    · intro _ s2 h
      refine ⟨h.1, h.2.1, ?_⟩
      rcases h.2.2 with h | ⟨e, h⟩
      · exact .inl h
      · cases h
  | error e =>
    refine wp_mono (spec_exitSession cf q p _ s1 hbody.1) ?_ ?_
    · intro _ s2 h; exact h
    · intro _ s2 h; exact ⟨h.1, h.2.1, hbody.2⟩


/-- `Database.disconnect()`: the pooled connection is closed (exactly once), a left-over cache is rolled back first -/
theorem spec_dbDisconnect (cf : Cfg) (q p : Bool) (s : St) (hI : Inv cf q p s) :
    wp (dbDisconnect cf)
      (fun _ s' => Inv cf q p s' ∧ s'.hasCache = false ∧ s'.poolCon = none)
      (fun _ s' => (Inv cf q p s' ∧ s'.hasCache = false) ∧ q = false) s := by
  have pd : ∀ (s1 : St), Inv cf q p s1 → s1.hasCache = false →
      wp (wrap (poolDisconnect cf)) (fun _ s' => Inv cf q p s' ∧ s'.hasCache = false ∧ s'.poolCon = none)
        (fun _ s' => (Inv cf q p s' ∧ s'.hasCache = false) ∧ q = false) s1 := by
    intro s1 hI1 hh1
    obtain ⟨⟨hA, hW, hF⟩, hl, htx, hcp, hdead, hdirty, hddl⟩ := hI1
    have hc := hdead hh1
    have hin : s1.cache.inTx = false := by cases h : s1.cache.inTx <;> simp_all
    simp only [poolDisconnect, conClose, wp_wrap, wp_bind, wp_getS, wp_modS, wp_dbcall, wp_pure]
    cases hpc : s1.poolCon with
    | none => simp_all [Inv, CInv, G]
    | some con =>
      rw [hpc] at hA hF
      have hA' := AccF_drop hA
      simp only [wp_bind, wp_modS, wp_dbcall]
      rcases FlF_cases (FlF_pc none hF (by simp)) with ⟨hf, hq, hF1⟩ | ⟨hf, hF1⟩
      · subst hq; simp_all [Inv, CInv, G]
      · simp_all [Inv, CInv, G]
  simp only [dbDisconnect, wp_bind, wp_getS, wp_ite, wp_pure]
  cases hh : s.hasCache with
  | false => simpa using pd s hI hh
  | true =>
    simp only [if_true]
    refine wp_mono (spec_cacheClose cf q p true s hI (by simp)) ?_ ?_
    · rintro _ s1 ⟨hI1, hh1⟩; exact pd s1 hI1 hh1
    · intro _ s1 h; exact h

end PonyVerif.Model.ConnLock
