/-
  Lemmas/SessStoreOps.lean — every operation of Model/SessStore.lean preserves the session invariant and the
  simulation relation with the reference machine (`Sim`).
-/
import PonyVerif.Lemmas.SessStore
namespace PonyVerif.Model.SessStore

/-- the simulation relation: the invariant holds, the committed states agree, and the session's logical view (cache over
    transaction) is exactly what the program has -/
structure Sim (b : Both) : Prop where
  inv : Inv b.w
  committed : b.w.committed = b.s.committed
  view : abs b.w = b.s.working

/-! ### small facts -/

theorem mem_clearSlot {q : List (Option Key)} {k k' : Key} :
    some k' ∈ q.map (fun s => if s = some k then none else s) ↔ some k' ∈ q ∧ k' ≠ k := by
  simp only [List.mem_map]
  constructor
  · rintro ⟨s, hs, he⟩
    by_cases h : s = some k
    · simp [h] at he
    · simp [h] at he; subst he
      refine ⟨hs, ?_⟩; rintro rfl; exact h rfl
  · rintro ⟨hs, hne⟩
    refine ⟨some k', hs, ?_⟩
    have : ¬ (some k' = some k) := by simpa using hne
    simp [this]

theorem nodup_clearSlot {q : List (Option Key)} (k : Key) (h : (q.filterMap id).Nodup) :
    ((q.map (fun s => if s = some k then none else s)).filterMap id).Nodup := by
  induction q with
  | nil => simp
  | cons s q ih =>
    cases s with
    | none => simpa using ih (by simpa using h)
    | some k' =>
      have h' : k' ∉ q.filterMap id ∧ (q.filterMap id).Nodup := by simpa using h
      by_cases hk : k' = k
      · subst hk; simpa using ih h'.2
      · have : ¬ (some k' = some k) := by simpa using hk
        simp only [List.map_cons, this, if_false, List.filterMap_cons, id]
        refine List.nodup_cons.mpr ⟨?_, ih h'.2⟩
        intro hm
        simp only [List.mem_filterMap, id] at hm
        obtain ⟨s, hs, rfl⟩ := hm
        have := (mem_clearSlot.mp hs).1
        exact h'.1 (by simp [List.mem_filterMap]; exact this)

theorem nodup_push {q : List (Option Key)} {k : Key} (h : (q.filterMap id).Nodup) (hk : some k ∉ q) :
    ((q ++ [some k]).filterMap id).Nodup := by
  simp only [List.filterMap_append, List.filterMap_cons, id, List.filterMap_nil]
  rw [List.nodup_append]
  refine ⟨h, by simp, ?_⟩
  intro a ha b hb
  simp at hb; subst hb
  rintro rfl
  simp only [List.mem_filterMap, id] at ha
  obtain ⟨s, hs, rfl⟩ := ha
  exact hk hs

theorem abs_empty_cache (c t : Db) : abs ⟨c, t, Cache.empty⟩ = t := by
  apply Db.ext'
  · intro k; rfl
  · intro l; simp [abs_links, member, Cache.empty]

theorem inv_empty_cache (c t : Db) : Inv ⟨c, t, Cache.empty⟩ := by
  refine ⟨⟨?_, ?_, by simp [Cache.empty], ?_⟩, ?_, ?_, by simp [Cache.empty], ?_⟩ <;> simp [Cache.empty]

theorem not_pending_of_not_indexed {s : Status} (h : s.indexed = false) : s.pending = false := by
  cases s <;> simp [Status.indexed, Status.pending] at h ⊢

theorem not_queued_of_not_pending {w : World} (h : Inv w) {k : Key}
    (hk : ∀ o, w.cache.objs k = some o → o.status.pending = false) : some k ∉ w.cache.queue := by
  intro hm
  obtain ⟨o, ho, hp⟩ := h.q.queueMem k hm
  simp [hk o ho] at hp

/-- added and removed pairs are disjoint -/
theorem added_not_removed {w : World} (h : Inv w) {l : Link} (hr : l ∈ w.cache.removed) : l ∉ w.cache.added := by
  intro ha
  have h1 := h.addedFresh l ha
  have h2 := h.removedIn l hr
  simp [h1] at h2

/-! ### the SELECT of a row that is not pending in the cache -/

theorem fetch_none {w : World} {k : Key} (hr : w.txn.rows k = none) : fetch w k = (w, .notFound) := by
  simp [fetch, hr]

theorem fetch_some {w : World} {k : Key} {row : Row} (hr : w.txn.rows k = some row) :
    fetch w k = ({ w with cache := w.cache.setObj k { status := .loaded, vals := row, wbits := [] } }, .found row) := by
  simp [fetch, hr]

theorem fetch_spec {w : World} (h : Inv w) (k : Key)
    (hk : ∀ o, w.cache.objs k = some o → o.status.pending = false) :
    Inv (fetch w k).1 ∧ abs (fetch w k).1 = abs w ∧ (fetch w k).1.committed = w.committed ∧
      (fetch w k).1.txn = w.txn ∧
      ((fetch w k).2 = match (abs w).rows k with | some r => .found r | none => .notFound) := by
  have hnq := not_queued_of_not_pending h hk
  have habs : (abs w).rows k = w.txn.rows k := by
    rw [abs_rows]; unfold absRow
    cases ho : w.cache.objs k with
    | none => rfl
    | some o =>
      have h1 := h.q.objs k o ho
      have h2 := hk o ho
      unfold ObjOk at h1
      cases hs : o.status <;> simp [hs, Status.pending] at h1 h2 ⊢ <;> simp [h1]
  cases hr : w.txn.rows k with
  | none => rw [fetch_none hr, habs, hr]; exact ⟨h, rfl, rfl, rfl, rfl⟩
  | some row =>
    rw [fetch_some hr, habs, hr]
    refine ⟨⟨⟨?_, ?_, h.q.queueNodup, ?_⟩, ?_, h.addedFresh, h.addedNodup, h.removedIn⟩, ?_, rfl, rfl, rfl⟩
    · intro k' o' ho'
      by_cases hkk : k' = k
      · subst hkk; simp at ho'; subst ho'; simp [ObjOk, hr]
      · simp [hkk] at ho'; exact h.q.objs k' o' ho'
    · intro k' hk'
      have hkk : k' ≠ k := by rintro rfl; exact hnq hk'
      obtain ⟨o', ho', hp'⟩ := h.q.queueMem k' hk'
      exact ⟨o', by simp [hkk, ho'], hp'⟩
    · intro k' o' ho' hp'
      by_cases hkk : k' = k
      · subst hkk; simp at ho'; subst ho'; simp [Status.pending] at hp'
      · simp [hkk] at ho'; exact h.q.pendingQueued k' o' ho' hp'
    · intro hm
      obtain ⟨c1, c2, c3⟩ := h.clean hm
      refine ⟨?_, c2, c3⟩
      intro k' o' ho'
      by_cases hkk : k' = k
      · subst hkk; simp at ho'; subst ho'; rfl
      · simp [hkk] at ho'; exact c1 k' o' ho'
    · apply Db.ext'
      · intro k'
        by_cases hkk : k' = k
        · subst hkk; rw [habs, hr, abs_rows]; simp [absRow]
        · rw [abs_rows, abs_rows]; simp [absRow, hkk]
      · intro l; rfl

/-! ### every operation -/

theorem create_refused {w : World} {k : Key} {vals : List Cell} (hi : w.cache.inIndex k = true) :
    step w (.create k vals) = (w, .refused .cacheIndexError, []) := by
  simp [step, create, hi]

theorem create_ok {w : World} {k : Key} {vals : List Cell} (hi : w.cache.inIndex k = false) :
    step w (.create k vals) =
      ({ w with cache := { (w.cache.setObj k { status := .created, vals := rowOfList vals, wbits := [] }).push k with
                           modified := true } }, .ok, []) := by
  simp [step, create, hi]

theorem create_sim {b : Both} (h : Sim b) (k : Key) (vals : List Cell) (hok : OpOk b.s (.create k vals)) :
    Sim (stepBoth b (.create k vals)) := by
  unfold stepBoth
  cases hi : b.w.cache.inIndex k with
  | true => rw [create_refused hi]; exact h
  | false =>
    rw [create_ok hi]
    dsimp only
    have hfresh : (abs b.w).rows k = none := by rw [h.view]; exact hok
    have hni : ∀ o, b.w.cache.objs k = some o → o.status.indexed = false := by
      intro o ho; simpa [Cache.inIndex, ho] using hi
    have hrow : b.w.txn.rows k = none := by
      cases ho : b.w.cache.objs k with
      | none => simpa [abs_rows, absRow, ho] using hfresh
      | some o =>
        have h1 := h.inv.q.objs k o ho
        have h2 := hni o ho
        unfold ObjOk at h1
        cases hs : o.status <;> simp [hs, Status.indexed] at h1 h2 ⊢ <;> exact h1
    have hnq : some k ∉ b.w.cache.queue :=
      not_queued_of_not_pending h.inv (fun o ho => not_pending_of_not_indexed (hni o ho))
    refine ⟨⟨⟨?_, ?_, ?_, ?_⟩, by simp, h.inv.addedFresh, h.inv.addedNodup, h.inv.removedIn⟩, h.committed, ?_⟩
    · intro k' o' ho'
      by_cases hk : k' = k
      · subst hk; simp at ho'; subst ho'; simpa [ObjOk] using hrow
      · simp [hk] at ho'; exact h.inv.q.objs k' o' ho'
    · intro k' hk'
      by_cases hk : k' = k
      · subst hk; exact ⟨{ status := .created, vals := rowOfList vals, wbits := [] }, by simp, rfl⟩
      · have hk'' : some k' ∈ b.w.cache.queue := by simpa [hk] using hk'
        obtain ⟨o', ho', hp'⟩ := h.inv.q.queueMem k' hk''
        exact ⟨o', by simp [hk, ho'], hp'⟩
    · simpa using nodup_push h.inv.q.queueNodup hnq
    · intro k' o' ho' hp'
      by_cases hk : k' = k
      · subst hk; simp
      · simp [hk] at ho'
        have := h.inv.q.pendingQueued k' o' ho' hp'
        simp [this]
    · show abs _ = (b.s.working.setRow k (some (rowOfList vals)))
      apply Db.ext'
      · intro k'
        rw [abs_rows, Db.setRow_rows, ← h.view, abs_rows]
        by_cases hk : k' = k
        · subst hk; simp [absRow]
        · simp [absRow, hk]
      · intro l
        rw [Db.setRow_links, ← h.view]; rfl

/-- the object written by an assignment to a non-new object -/
def setObjOf (o : Obj) (c : Nat) (v : Cell) : Obj :=
  { status := .modified, vals := o.vals.set c v, wbits := if o.wbits.contains c then o.wbits else o.wbits ++ [c] }

theorem set_step (w : World) (k : Key) (c : Nat) (v : Cell) :
    step w (.set k c v) = ((setAttr w k c v).1, (setAttr w k c v).2, []) := rfl

theorem setAttr_none {w : World} {k : Key} {c : Nat} {v : Cell} (ho : w.cache.objs k = none) :
    setAttr w k c v = (w, .refused .noSuchObject) := by simp [setAttr, ho]

theorem setAttr_del {w : World} {k : Key} {c : Nat} {v : Cell} {o : Obj} (ho : w.cache.objs k = some o)
    (hd : o.status.isDel = true) : setAttr w k c v = (w, .refused .objectDeleted) := by simp [setAttr, ho, hd]

theorem setAttr_created {w : World} {k : Key} {c : Nat} {v : Cell} {o : Obj} (ho : w.cache.objs k = some o)
    (hc : o.status = .created) :
    setAttr w k c v = ({ w with cache := w.cache.setObj k { o with vals := o.vals.set c v } }, .ok) := by
  simp [setAttr, ho, hc, Status.isDel]

theorem setAttr_modified {w : World} {k : Key} {c : Nat} {v : Cell} {o : Obj} (ho : w.cache.objs k = some o)
    (hm : o.status = .modified) :
    setAttr w k c v = ({ w with cache := w.cache.setObj k (setObjOf o c v) }, .ok) := by
  simp [setAttr, ho, hm, Status.isDel, setObjOf]

theorem setAttr_clean {w : World} {k : Key} {c : Nat} {v : Cell} {o : Obj} (ho : w.cache.objs k = some o)
    (hd : o.status.isDel = false) (hc : o.status ≠ .created) (hm : o.status ≠ .modified) :
    setAttr w k c v = ({ w with cache := { (w.cache.setObj k (setObjOf o c v)).push k with modified := true } }, .ok) := by
  simp [setAttr, ho, hd, hc, hm, setObjOf]

theorem setObjOf_ok {txn : Db} {k : Key} {o : Obj} (c : Nat) (v : Cell) (h : ObjOk txn k o)
    (hd : o.status.isDel = false) (hc : o.status ≠ .created) : ObjOk txn k (setObjOf o c v) := by
  unfold ObjOk at h ⊢
  have hcw : c ∈ (setObjOf o c v).wbits := by
    unfold setObjOf
    by_cases hcc : c ∈ o.wbits
    · simp [hcc]
    · simp [hcc]
  have hsub : ∀ c', c' ∉ (setObjOf o c v).wbits → c' ∉ o.wbits := by
    intro c' hc'
    unfold setObjOf at hc'
    by_cases hcc : c ∈ o.wbits
    · simpa [hcc] using hc'
    · simp [hcc] at hc'; exact hc'.1
  have hset : ∀ c', c' ∉ (setObjOf o c v).wbits → (setObjOf o c v).vals c' = o.vals c' := by
    intro c' hc'
    have : c' ≠ c := by rintro rfl; exact hc' hcw
    simp [setObjOf, Row.set, this]
  have hst : (setObjOf o c v).status = .modified := rfl
  rw [hst]
  cases hs : o.status <;> simp [hs, Status.isDel] at h hd hc
  · exact ⟨o.vals, h, fun c' hc' => (hset c' hc').symm⟩
  · obtain ⟨row, hr, hag⟩ := h
    exact ⟨row, hr, fun c' hc' => (hag c' (hsub c' hc')).trans (hset c' hc').symm⟩
  · exact ⟨o.vals, h, fun c' hc' => (hset c' hc').symm⟩
  · exact ⟨o.vals, h, fun c' hc' => (hset c' hc').symm⟩

theorem set_sim {b : Both} (h : Sim b) (k : Key) (c : Nat) (v : Cell) : Sim (stepBoth b (.set k c v)) := by
  unfold stepBoth
  rw [set_step]
  cases ho : b.w.cache.objs k with
  | none => rw [setAttr_none ho]; exact h
  | some o =>
    cases hd : o.status.isDel with
    | true => rw [setAttr_del ho hd]; exact h
    | false =>
      have hrow : b.s.working.rows k = some o.vals := by
        rw [← h.view, abs_rows]; unfold absRow
        cases hs : o.status <;> simp [ho, hs, Status.isDel] at hd ⊢
      have hview : ∀ (w' : World), (∀ k', absRow w' k' = if k' = k then some (o.vals.set c v) else absRow b.w k') →
          (∀ l, member w' l = member b.w l) → abs w' = b.s.working.setRow k (some (o.vals.set c v)) := by
        intro w' h1 h2
        apply Db.ext'
        · intro k'; rw [abs_rows, h1 k', Db.setRow_rows, ← h.view, abs_rows]
        · intro l; rw [abs_links, h2 l, Db.setRow_links, ← h.view, abs_links]
      have hspec : specStep b.s (.set k c v) .ok = { b.s with working := b.s.working.setRow k (some (o.vals.set c v)) } := by
        simp [specStep, specApply, hrow]
      by_cases hc : o.status = .created
      · rw [setAttr_created ho hc]
        dsimp only
        rw [hspec]
        refine ⟨⟨⟨?_, ?_, h.inv.q.queueNodup, ?_⟩, ?_, h.inv.addedFresh, h.inv.addedNodup, h.inv.removedIn⟩, h.committed, ?_⟩
        · intro k' o' ho'
          by_cases hk : k' = k
          · subst hk; simp at ho'; subst ho'
            have := h.inv.q.objs k' o ho
            unfold ObjOk at this ⊢; simpa [hc] using this
          · simp [hk] at ho'; exact h.inv.q.objs k' o' ho'
        · intro k' hk'
          by_cases hk : k' = k
          · subst hk; exact ⟨{ o with vals := o.vals.set c v }, by simp, by simp [hc, Status.pending]⟩
          · obtain ⟨o', ho', hp'⟩ := h.inv.q.queueMem k' hk'
            exact ⟨o', by simp [hk, ho'], hp'⟩
        · intro k' o' ho' hp'
          by_cases hk : k' = k
          · subst hk; exact h.inv.q.pendingQueued k' o ho (by simp [hc, Status.pending])
          · simp [hk] at ho'; exact h.inv.q.pendingQueued k' o' ho' hp'
        · intro hm
          obtain ⟨c1, c2, c3⟩ := h.inv.clean hm
          have := c1 k o ho; simp [hc, Status.pending] at this
        · show abs _ = b.s.working.setRow k (some (o.vals.set c v))
          apply hview
          · intro k'; unfold absRow
            by_cases hk : k' = k
            · subst hk; simp [hc]
            · simp [hk]
          · intro l; rfl
      · have hobj := setObjOf_ok c v (h.inv.q.objs k o ho) hd hc
        by_cases hmo : o.status = .modified
        · rw [setAttr_modified ho hmo]
          dsimp only
          rw [hspec]
          refine ⟨⟨⟨?_, ?_, h.inv.q.queueNodup, ?_⟩, ?_, h.inv.addedFresh, h.inv.addedNodup, h.inv.removedIn⟩, h.committed, ?_⟩
          · intro k' o' ho'
            by_cases hk : k' = k
            · subst hk; simp at ho'; subst ho'; exact hobj
            · simp [hk] at ho'; exact h.inv.q.objs k' o' ho'
          · intro k' hk'
            by_cases hk : k' = k
            · subst hk; exact ⟨setObjOf o c v, by simp, by simp [setObjOf, Status.pending]⟩
            · obtain ⟨o', ho', hp'⟩ := h.inv.q.queueMem k' hk'
              exact ⟨o', by simp [hk, ho'], hp'⟩
          · intro k' o' ho' hp'
            by_cases hk : k' = k
            · subst hk; exact h.inv.q.pendingQueued k' o ho (by simp [hmo, Status.pending])
            · simp [hk] at ho'; exact h.inv.q.pendingQueued k' o' ho' hp'
          · intro hm
            obtain ⟨c1, c2, c3⟩ := h.inv.clean hm
            have := c1 k o ho; simp [hmo, Status.pending] at this
          · show abs _ = b.s.working.setRow k (some (o.vals.set c v))
            apply hview
            · intro k'; unfold absRow
              by_cases hk : k' = k
              · subst hk; simp [setObjOf]
              · simp [hk]
            · intro l; rfl
        · rw [setAttr_clean ho hd hc hmo]
          dsimp only
          rw [hspec]
          have hnp : o.status.pending = false := by
            cases hs : o.status <;> simp [hs, Status.isDel, Status.pending] at hd hc hmo ⊢
          have hnq : some k ∉ b.w.cache.queue :=
            not_queued_of_not_pending h.inv (fun o' ho' => by rw [ho] at ho'; cases ho'; exact hnp)
          refine ⟨⟨⟨?_, ?_, ?_, ?_⟩, by simp, h.inv.addedFresh, h.inv.addedNodup, h.inv.removedIn⟩, h.committed, ?_⟩
          · intro k' o' ho'
            by_cases hk : k' = k
            · subst hk; simp at ho'; subst ho'; exact hobj
            · simp [hk] at ho'; exact h.inv.q.objs k' o' ho'
          · intro k' hk'
            by_cases hk : k' = k
            · subst hk; exact ⟨setObjOf o c v, by simp, by simp [setObjOf, Status.pending]⟩
            · have hk'' : some k' ∈ b.w.cache.queue := by simpa [hk] using hk'
              obtain ⟨o', ho', hp'⟩ := h.inv.q.queueMem k' hk''
              exact ⟨o', by simp [hk, ho'], hp'⟩
          · simpa using nodup_push h.inv.q.queueNodup hnq
          · intro k' o' ho' hp'
            by_cases hk : k' = k
            · subst hk; simp
            · simp [hk] at ho'
              have := h.inv.q.pendingQueued k' o' ho' hp'
              simp [this]
          · show abs _ = b.s.working.setRow k (some (o.vals.set c v))
            apply hview
            · intro k'; unfold absRow
              by_cases hk : k' = k
              · subst hk; simp [setObjOf]
              · simp [hk]
            · intro l; rfl

theorem delete_step (w : World) (k : Key) :
    step w (.delete k) = ((deleteObj w k).1, (deleteObj w k).2, []) := rfl

theorem deleteObj_none {w : World} {k : Key} (ho : w.cache.objs k = none) :
    deleteObj w k = (w, .refused .noSuchObject) := by simp [deleteObj, ho]

theorem deleteObj_del {w : World} {k : Key} {o : Obj} (ho : w.cache.objs k = some o) (hd : o.status.isDel = true) :
    deleteObj w k = (w, .ok) := by simp [deleteObj, ho, hd]

theorem deleteObj_created {w : World} {k : Key} {o : Obj} (ho : w.cache.objs k = some o) (hc : o.status = .created) :
    deleteObj w k = ({ w with cache := (w.cache.clearSlot k).setObj k { o with status := .cancelled } }, .ok) := by
  simp [deleteObj, ho, hc, Status.isDel]

theorem deleteObj_other {w : World} {k : Key} {o : Obj} (ho : w.cache.objs k = some o) (hd : o.status.isDel = false)
    (hc : o.status ≠ .created) :
    deleteObj w k = ({ w with cache := { (((if o.status = .modified then w.cache.clearSlot k else w.cache).setObj k
        { o with status := .markedToDelete }).push k) with modified := true } }, .ok) := by
  simp [deleteObj, ho, hd, hc]

theorem delete_sim {b : Both} (h : Sim b) (k : Key) : Sim (stepBoth b (.delete k)) := by
  unfold stepBoth
  rw [delete_step]
  cases ho : b.w.cache.objs k with
  | none => rw [deleteObj_none ho]; exact h
  | some o =>
    have hview : ∀ (w' : World), (∀ k', absRow w' k' = if k' = k then none else absRow b.w k') →
        (∀ l, member w' l = member b.w l) → abs w' = b.s.working.setRow k none := by
      intro w' h1 h2
      apply Db.ext'
      · intro k'; rw [abs_rows, h1 k', Db.setRow_rows, ← h.view, abs_rows]
      · intro l; rw [abs_links, h2 l, Db.setRow_links, ← h.view, abs_links]
    have hspec : specStep b.s (.delete k) .ok = { b.s with working := b.s.working.setRow k none } := rfl
    cases hd : o.status.isDel with
    | true =>
      rw [deleteObj_del ho hd]
      dsimp only
      rw [hspec]
      refine ⟨h.inv, h.committed, ?_⟩
      show abs b.w = b.s.working.setRow k none
      apply hview
      · intro k'; by_cases hk : k' = k
        · subst hk; unfold absRow; cases hs : o.status <;> simp [ho, hs, Status.isDel] at hd ⊢
        · simp [hk]
      · intro l; rfl
    | false =>
      by_cases hc : o.status = .created
      · rw [deleteObj_created ho hc]
        dsimp only
        rw [hspec]
        refine ⟨⟨⟨?_, ?_, ?_, ?_⟩, ?_, h.inv.addedFresh, h.inv.addedNodup, h.inv.removedIn⟩, h.committed, ?_⟩
        · intro k' o' ho'
          by_cases hk : k' = k
          · subst hk; simp at ho'; subst ho'
            have := h.inv.q.objs k' o ho
            unfold ObjOk at this ⊢; simpa [hc] using this
          · simp [hk] at ho'; exact h.inv.q.objs k' o' ho'
        · intro k' hk'
          have hk'' : some k' ∈ b.w.cache.queue.map (fun s => if s = some k then none else s) := hk'
          obtain ⟨hk1, hk2⟩ := mem_clearSlot.mp hk''
          obtain ⟨o', ho', hp'⟩ := h.inv.q.queueMem k' hk1
          exact ⟨o', by simp [hk2, ho'], hp'⟩
        · exact nodup_clearSlot k h.inv.q.queueNodup
        · intro k' o' ho' hp'
          by_cases hk : k' = k
          · subst hk; simp at ho'; subst ho'; simp [Status.pending] at hp'
          · simp [hk] at ho'
            show some k' ∈ b.w.cache.queue.map (fun s => if s = some k then none else s)
            exact mem_clearSlot.mpr ⟨h.inv.q.pendingQueued k' o' ho' hp', hk⟩
        · intro hm
          obtain ⟨c1, c2, c3⟩ := h.inv.clean hm
          have := c1 k o ho; simp [hc, Status.pending] at this
        · show abs _ = b.s.working.setRow k none
          apply hview
          · intro k'; unfold absRow
            by_cases hk : k' = k
            · subst hk; simp
            · simp [hk]
          · intro l; rfl
      · rw [deleteObj_other ho hd hc]
        dsimp only
        rw [hspec]
        -- the queue after the optional hole: k is not in it
        generalize hc0 : (if o.status = .modified then b.w.cache.clearSlot k else b.w.cache) = c0
        have hc0objs : c0.objs = b.w.cache.objs := by subst hc0; split <;> rfl
        have hc0added : c0.added = b.w.cache.added := by subst hc0; split <;> rfl
        have hc0removed : c0.removed = b.w.cache.removed := by subst hc0; split <;> rfl
        have hc0mem : ∀ k', some k' ∈ c0.queue ↔ some k' ∈ b.w.cache.queue ∧ k' ≠ k := by
          intro k'
          subst hc0
          split
          · exact mem_clearSlot
          · rename_i hmo
            constructor
            · intro hm
              refine ⟨hm, ?_⟩
              rintro rfl
              obtain ⟨o', ho', hp'⟩ := h.inv.q.queueMem k' hm
              rw [ho] at ho'; cases ho'
              cases hs : o.status <;> simp [hs, Status.isDel, Status.pending] at hd hc hmo hp'
            · exact fun hm => hm.1
        have hc0nd : (c0.queue.filterMap id).Nodup := by
          subst hc0; split
          · exact nodup_clearSlot k h.inv.q.queueNodup
          · exact h.inv.q.queueNodup
        have hknot : some k ∉ c0.queue := fun hm => ((hc0mem k).mp hm).2 rfl
        refine ⟨⟨⟨?_, ?_, ?_, ?_⟩, by simp, by simpa [hc0added] using h.inv.addedFresh,
          by simpa [hc0added] using h.inv.addedNodup, by simpa [hc0removed] using h.inv.removedIn⟩, h.committed, ?_⟩
        · intro k' o' ho'
          by_cases hk : k' = k
          · subst hk; simp at ho'; subst ho'; simp [ObjOk]
          · simp [hk, hc0objs] at ho'; exact h.inv.q.objs k' o' ho'
        · intro k' hk'
          by_cases hk : k' = k
          · subst hk; exact ⟨{ o with status := .markedToDelete }, by simp, by simp [Status.pending]⟩
          · have hk'' : some k' ∈ c0.queue := by simpa [hk] using hk'
            have := (hc0mem k').mp hk''
            obtain ⟨o', ho', hp'⟩ := h.inv.q.queueMem k' this.1
            exact ⟨o', by simp [hk, hc0objs, ho'], hp'⟩
        · simpa using nodup_push hc0nd hknot
        · intro k' o' ho' hp'
          by_cases hk : k' = k
          · subst hk; simp
          · simp [hk, hc0objs] at ho'
            have := (hc0mem k').mpr ⟨h.inv.q.pendingQueued k' o' ho' hp', hk⟩
            simp [this]
        · show abs _ = b.s.working.setRow k none
          apply hview
          · intro k'; unfold absRow
            by_cases hk : k' = k
            · subst hk; simp
            · simp [hk, hc0objs]
          · intro l; simp [member, hc0added, hc0removed]

/-- a change of `added` / `removed` / `modified` that keeps the link-level clauses of the invariant -/
theorem inv_links {w : World} (h : Inv w) (added removed : List Link)
    (h1 : ∀ l, l ∈ added → w.txn.links l = false) (h2 : added.Nodup) (h3 : ∀ l, l ∈ removed → w.txn.links l = true) :
    Inv { w with cache := { w.cache with added := added, removed := removed, modified := true } } :=
  ⟨⟨h.q.objs, h.q.queueMem, h.q.queueNodup, h.q.pendingQueued⟩, by simp, h1, h2, h3⟩

theorem link_view {b : Both} (h : Sim b) (l : Link) (v : Bool) (w' : World)
    (hr : ∀ k, absRow w' k = absRow b.w k) (hl : ∀ l', member w' l' = if l' = l then v else member b.w l') :
    abs w' = (b.s.working.setLink l v) := by
  apply Db.ext'
  · intro k; rw [abs_rows, hr k, Db.setLink_rows, ← h.view, abs_rows]
  · intro l'; rw [abs_links, hl l', Db.setLink_links, ← h.view, abs_links]

theorem link_step (w : World) (l : Link) : step w (.link l) = ((linkOp w l).1, (linkOp w l).2, []) := rfl
theorem unlink_step (w : World) (l : Link) : step w (.unlink l) = ((unlinkOp w l).1, (unlinkOp w l).2, []) := rfl

theorem contains_filter_ne {ls : List Link} {l l' : Link} (h : l' ≠ l) :
    (ls.filter (fun x => decide (x ≠ l))).contains l' = ls.contains l' := by
  rw [Bool.eq_iff_iff]; simp [List.mem_filter, h]

theorem contains_true {ls : List Link} {l : Link} (h : l ∈ ls) : ls.contains l = true := by simpa using h
theorem contains_false {ls : List Link} {l : Link} (h : l ∉ ls) : ls.contains l = false := by simpa using h

theorem link_sim {b : Both} (h : Sim b) (l : Link) : Sim (stepBoth b (.link l)) := by
  unfold stepBoth
  rw [link_step]
  have hspec : specStep b.s (.link l) .ok = { b.s with working := b.s.working.setLink l true } := rfl
  cases ha : alive b.w l.a with
  | some e =>
    have : linkOp b.w l = (b.w, .refused e) := by simp [linkOp, ha]
    rw [this]; exact h
  | none =>
    cases hb : alive b.w l.b with
    | some e =>
      have : linkOp b.w l = (b.w, .refused e) := by simp [linkOp, ha, hb]
      rw [this]; exact h
    | none =>
      cases hm : member b.w l with
      | true =>
        have : linkOp b.w l = ({ b.w with cache := { b.w.cache with modified := true } }, .ok) := by simp [linkOp, ha, hb, hm]
        rw [this]; dsimp only; rw [hspec]
        refine ⟨inv_links h.inv _ _ h.inv.addedFresh h.inv.addedNodup h.inv.removedIn, h.committed, ?_⟩
        apply link_view h l true
        · intro k; rfl
        · intro l'; by_cases hl : l' = l
          · subst hl; simpa [member] using hm
          · simp [hl, member]
      | false =>
        by_cases hrm : l ∈ b.w.cache.removed
        · have : linkOp b.w l = ({ b.w with cache := { b.w.cache with removed := b.w.cache.removed.filter (· ≠ l), modified := true } }, .ok) := by
            simp [linkOp, ha, hb, hm, hrm]
          rw [this]; dsimp only; rw [hspec]
          refine ⟨inv_links h.inv _ _ h.inv.addedFresh h.inv.addedNodup
            (fun l' hl' => h.inv.removedIn l' (List.mem_filter.mp hl').1), h.committed, ?_⟩
          apply link_view h l true
          · intro k; rfl
          · intro l'; by_cases hl : l' = l
            · subst hl; simp [member, h.inv.removedIn l' hrm]
            · unfold member; dsimp only; rw [contains_filter_ne hl]; simp [hl]
        · have : linkOp b.w l = ({ b.w with cache := { b.w.cache with added := l :: b.w.cache.added, modified := true } }, .ok) := by
            simp [linkOp, ha, hb, hm, hrm]
          rw [this]; dsimp only; rw [hspec]
          have hnm' := hm
          unfold member at hnm'
          rw [contains_false hrm] at hnm'
          simp only [Bool.or_eq_false_iff, Bool.and_eq_false_iff] at hnm'
          have hfresh : b.w.txn.links l = false := by
            rcases hnm'.1 with h1 | h1
            · exact h1
            · cases h1
          have hna : l ∉ b.w.cache.added := by
            intro hh; rw [contains_true hh] at hnm'; cases hnm'.2
          refine ⟨inv_links h.inv _ _ ?_ (List.nodup_cons.mpr ⟨hna, h.inv.addedNodup⟩) h.inv.removedIn, h.committed, ?_⟩
          · intro l' hl'
            rcases List.mem_cons.mp hl' with rfl | hl'
            · exact hfresh
            · exact h.inv.addedFresh l' hl'
          · apply link_view h l true
            · intro k; rfl
            · intro l'; by_cases hl : l' = l
              · subst hl; simp [member]
              · simp [hl, member]

theorem unlink_sim {b : Both} (h : Sim b) (l : Link) : Sim (stepBoth b (.unlink l)) := by
  unfold stepBoth
  rw [unlink_step]
  have hspec : specStep b.s (.unlink l) .ok = { b.s with working := b.s.working.setLink l false } := rfl
  cases ha : alive b.w l.a with
  | some e =>
    have : unlinkOp b.w l = (b.w, .refused e) := by simp [unlinkOp, ha]
    rw [this]; exact h
  | none =>
    cases hb : alive b.w l.b with
    | some e =>
      have : unlinkOp b.w l = (b.w, .refused e) := by simp [unlinkOp, ha, hb]
      rw [this]; exact h
    | none =>
      by_cases hrm : l ∈ b.w.cache.removed
      · have : unlinkOp b.w l = (b.w, .ok) := by simp [unlinkOp, ha, hb, hrm]
        rw [this]; dsimp only; rw [hspec]
        refine ⟨h.inv, h.committed, ?_⟩
        apply link_view h l false
        · intro k; rfl
        · intro l'; by_cases hl : l' = l
          · subst hl
            have := added_not_removed h.inv hrm
            simp [member, hrm, this]
          · simp [hl]
      · cases hm : member b.w l with
        | false =>
          have : unlinkOp b.w l = ({ b.w with cache := { b.w.cache with modified := true } }, .ok) := by
            simp [unlinkOp, ha, hb, hrm, hm]
          rw [this]; dsimp only; rw [hspec]
          refine ⟨inv_links h.inv _ _ h.inv.addedFresh h.inv.addedNodup h.inv.removedIn, h.committed, ?_⟩
          apply link_view h l false
          · intro k; rfl
          · intro l'; by_cases hl : l' = l
            · subst hl; simpa [member] using hm
            · simp [hl, member]
        | true =>
          by_cases hadm : l ∈ b.w.cache.added
          · have : unlinkOp b.w l = ({ b.w with cache := { b.w.cache with added := b.w.cache.added.filter (· ≠ l), modified := true } }, .ok) := by
              simp [unlinkOp, ha, hb, hrm, hm, hadm]
            rw [this]; dsimp only; rw [hspec]
            refine ⟨inv_links h.inv _ _ (fun l' hl' => h.inv.addedFresh l' (List.mem_filter.mp hl').1)
              (List.Nodup.sublist List.filter_sublist h.inv.addedNodup) h.inv.removedIn, h.committed, ?_⟩
            apply link_view h l false
            · intro k; rfl
            · intro l'; by_cases hl : l' = l
              · subst hl; simp [member, h.inv.addedFresh l' hadm]
              · unfold member; dsimp only; rw [contains_filter_ne hl]; simp [hl]
          · have : unlinkOp b.w l = ({ b.w with cache := { b.w.cache with removed := l :: b.w.cache.removed, modified := true } }, .ok) := by
              simp [unlinkOp, ha, hb, hrm, hm, hadm]
            rw [this]; dsimp only; rw [hspec]
            have hin : b.w.txn.links l = true := by
              unfold member at hm
              rw [contains_false hadm] at hm; simp at hm; exact hm.1
            refine ⟨inv_links h.inv _ _ h.inv.addedFresh h.inv.addedNodup ?_, h.committed, ?_⟩
            · intro l' hl'
              rcases List.mem_cons.mp hl' with rfl | hl'
              · exact hin
              · exact h.inv.removedIn l' hl'
            · apply link_view h l false
              · intro k; rfl
              · intro l'; by_cases hl : l' = l
                · subst hl; simp [member, hadm]
                · simp [hl, member]

theorem flush_sim {b : Both} (h : Sim b) : Sim (stepBoth b .flush) := by
  obtain ⟨w', ws, e, hi, _, ha, hc⟩ := flushIfModified_spec h.inv
  unfold stepBoth step
  simp only [e, specStep, specApply]
  exact ⟨hi, hc.trans h.committed, ha.trans h.view⟩

theorem commit_spec {w : World} (h : Inv w) :
    ∃ w' ws, commitOp w = (w', .ok, ws) ∧ Inv w' ∧ Clean w' ∧ abs w' = abs w ∧ w'.committed = abs w ∧ w'.txn = abs w := by
  obtain ⟨w', ws, e, hi, hcl, ha, _⟩ := flushIfModified_spec h
  have htx : w'.txn = abs w := by rw [← ha]; exact (abs_eq_txn_of_clean hi.q.objs hcl).symm
  refine ⟨{ w' with committed := w'.txn }, ws, by simp [commitOp, e], ?_, hcl, ?_, htx, htx⟩
  · exact ⟨⟨hi.q.objs, hi.q.queueMem, hi.q.queueNodup, hi.q.pendingQueued⟩, hi.clean, hi.addedFresh, hi.addedNodup, hi.removedIn⟩
  · rw [← ha]; rfl

theorem commit_sim {b : Both} (h : Sim b) : Sim (stepBoth b .commit) := by
  obtain ⟨w', ws, e, hi, _, ha, hc, _⟩ := commit_spec h.inv
  unfold stepBoth step
  simp only [e, specStep, specApply]
  exact ⟨hi, hc.trans h.view, ha.trans h.view⟩

theorem endOk_sim {b : Both} (h : Sim b) : Sim (stepBoth b .endOk) := by
  obtain ⟨w', ws, e, hi, _, ha, hc, ht⟩ := commit_spec h.inv
  unfold stepBoth step
  simp only [e, specStep, specApply]
  refine ⟨inv_empty_cache _ _, hc.trans h.view, ?_⟩
  show abs ⟨w'.committed, w'.txn, Cache.empty⟩ = _
  rw [abs_empty_cache, ht]; exact h.view

theorem abort_sim {b : Both} (h : Sim b) : Sim ⟨abort b.w, { b.s with working := b.s.committed }⟩ := by
  refine ⟨inv_empty_cache _ _, h.committed, ?_⟩
  show abs ⟨b.w.committed, b.w.committed, Cache.empty⟩ = _
  rw [abs_empty_cache]; exact h.committed

theorem load_sim {b : Both} (h : Sim b) (k : Key) : Sim (stepBoth b (.load k)) := by
  unfold stepBoth step loadObj
  by_cases hi : b.w.cache.inIndex k = true
  · simp only [hi, if_true]
    cases ho : b.w.cache.objs k with
    | none => simp [specStep, specApply]; exact h
    | some o =>
      by_cases hs : o.status = .markedToDelete
      · simp [hs, specStep, specApply]; exact h
      · simp [hs, specStep, specApply]; exact h
  · simp only [hi]
    obtain ⟨w', ws, e, hinv, hcl, ha, hc⟩ := flushIfModified_spec h.inv
    simp only [e]
    obtain ⟨f1, f2, f3, _, f5⟩ := fetch_spec hinv k (fun o ho => hcl.1 k o ho)
    have hout : specStep b.s (.load k) (fetch w' k).2 = b.s := by
      rw [f5]; cases (abs w').rows k <;> rfl
    show Sim ⟨(fetch w' k).1, specStep b.s (.load k) (fetch w' k).2⟩
    rw [hout]
    exact ⟨f1, f3.trans (hc.trans h.committed), f2.trans (ha.trans h.view)⟩

theorem seed_sim {b : Both} (h : Sim b) (k : Key) : Sim (stepBoth b (.seed k)) := by
  unfold stepBoth step
  by_cases hi : b.w.cache.inIndex k = true
  · simp [hi, specStep, specApply]; exact h
  · simp only [hi]
    have hk : ∀ o, b.w.cache.objs k = some o → o.status.pending = false := by
      intro o ho
      apply not_pending_of_not_indexed
      simpa [Cache.inIndex, ho] using hi
    obtain ⟨f1, f2, f3, _, _⟩ := fetch_spec h.inv k hk
    exact ⟨f1, f3.trans h.committed, f2.trans h.view⟩

/-- every operation of a well-formed program keeps the two machines in step -/
theorem step_sim {b : Both} (h : Sim b) (op : Op) (hok : OpOk b.s op) : Sim (stepBoth b op) := by
  cases op with
  | create k vals => exact create_sim h k vals hok
  | set k c v => exact set_sim h k c v
  | link l => exact link_sim h l
  | unlink l => exact unlink_sim h l
  | delete k => exact delete_sim h k
  | load k => exact load_sim h k
  | seed k => exact seed_sim h k
  | hasLink l => exact h
  | flush => exact flush_sim h
  | commit => exact commit_sim h
  | rollback => exact abort_sim h
  | endOk => exact endOk_sim h
  | endErr => exact abort_sim h

theorem run_sim : ∀ (ops : List Op) (b : Both), Sim b → ValidFrom b ops → Sim (runBoth b ops)
  | [], _, h, _ => h
  | op :: ops, b, h, hv => run_sim ops (stepBoth b op) (step_sim h op hv.1) hv.2

theorem sim_init (d : Db) : Sim ⟨World.init d, Spec.init d⟩ :=
  ⟨inv_empty_cache d d, rfl, abs_empty_cache d d⟩

end PonyVerif.Model.SessStore
