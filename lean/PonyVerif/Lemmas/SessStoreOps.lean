/-
  Lemmas/SessStoreOps.lean — every operation of Model/SessStore.lean preserves the session invariant and the
  simulation relation with the reference machine (`Sim`).
-/
import PonyVerif.Lemmas.SessStore
namespace PonyVerif.Model.SessStore

/-- the simulation relation: the invariant holds, the committed states agree, and the session's logical view (cache over
    transaction) is exactly what the program has -/
structure Sim (b : Both) : Prop where
  inv : Inv b.w
  committed : b.w.committed = b.s.committed
  view : abs b.w = b.s.working

/-! ### small facts -/

theorem mem_clearSlot {q : List (Option Key)} {k k' : Key} :
    some k' ∈ q.map (fun s => if s = some k then none else s) ↔ some k' ∈ q ∧ k' ≠ k := by
  simp only [List.mem_map]
  constructor
  · rintro ⟨s, hs, he⟩
    by_cases h : s = some k
    · simp [h] at he
    · simp [h] at he; subst he
      refine ⟨hs, ?_⟩; rintro rfl; exact h rfl
  · rintro ⟨hs, hne⟩
    refine ⟨some k', hs, ?_⟩
    have : ¬ (some k' = some k) := by simpa using hne
    simp [this]

theorem nodup_clearSlot {q : List (Option Key)} (k : Key) (h : (q.filterMap id).Nodup) :
    ((q.map (fun s => if s = some k then none else s)).filterMap id).Nodup := by
  induction q with
  | nil => simp
  | cons s q ih =>
    cases s with
    | none => simpa using ih (by simpa using h)
    | some k' =>
      have h' : k' ∉ q.filterMap id ∧ (q.filterMap id).Nodup := by simpa using h
      by_cases hk : k' = k
      · subst hk; simpa using ih h'.2
      · have : ¬ (some k' = some k) := by simpa using hk
        simp only [List.map_cons, this, if_false, List.filterMap_cons, id]
        refine List.nodup_cons.mpr ⟨?_, ih h'.2⟩
        intro hm
        simp only [List.mem_filterMap, id] at hm
        obtain ⟨s, hs, rfl⟩ := hm
        have := (mem_clearSlot.mp hs).1
        exact h'.1 (by simp [List.mem_filterMap]; exact this)

theorem nodup_push {q : List (Option Key)} {k : Key} (h : (q.filterMap id).Nodup) (hk : some k ∉ q) :
    ((q ++ [some k]).filterMap id).Nodup := by
  simp only [List.filterMap_append, List.filterMap_cons, id, List.filterMap_nil]
  rw [List.nodup_append]
  refine ⟨h, by simp, ?_⟩
  intro a ha b hb
  simp at hb; subst hb
  rintro rfl
  simp only [List.mem_filterMap, id] at ha
  obtain ⟨s, hs, rfl⟩ := ha
  exact hk hs

theorem abs_empty_cache (c t : Db) : abs ⟨c, t, Cache.empty⟩ = t := by
  apply Db.ext'
  · intro k; rfl
  · intro l; simp [abs_links, member, Cache.empty]

theorem inv_empty_cache (c t : Db) : Inv ⟨c, t, Cache.empty⟩ := by
  refine ⟨⟨?_, ?_, by simp [Cache.empty], ?_⟩, ?_, ?_, by simp [Cache.empty], ?_⟩ <;> simp [Cache.empty]

theorem not_pending_of_not_indexed {s : Status} (h : s.indexed = false) : s.pending = false := by
  cases s <;> simp [Status.indexed, Status.pending] at h ⊢

theorem not_queued_of_not_pending {w : World} (h : Inv w) {k : Key}
    (hk : ∀ o, w.cache.objs k = some o → o.status.pending = false) : some k ∉ w.cache.queue := by
  intro hm
  obtain ⟨o, ho, hp⟩ := h.q.queueMem k hm
  simp [hk o ho] at hp

/-- added and removed pairs are disjoint -/
theorem added_not_removed {w : World} (h : Inv w) {l : Link} (hr : l ∈ w.cache.removed) : l ∉ w.cache.added := by
  intro ha
  have h1 := h.addedFresh l ha
  have h2 := h.removedIn l hr
  simp [h1] at h2

/-! ### the SELECT of a row that is not pending in the cache -/

theorem fetch_none {w : World} {k : Key} (hr : w.txn.rows k = none) : fetch w k = (w, .notFound) := by
  simp [fetch, hr]

theorem fetch_some {w : World} {k : Key} {row : Row} (hr : w.txn.rows k = some row) :
    fetch w k = ({ w with cache := w.cache.setObj k { status := .loaded, vals := row, wbits := [] } }, .found row) := by
  simp [fetch, hr]

theorem fetch_spec {w : World} (h : Inv w) (k : Key)
    (hk : ∀ o, w.cache.objs k = some o → o.status.pending = false) :
    Inv (fetch w k).1 ∧ abs (fetch w k).1 = abs w ∧ (fetch w k).1.committed = w.committed ∧
      (fetch w k).1.txn = w.txn ∧
      ((fetch w k).2 = match (abs w).rows k with | some r => .found r | none => .notFound) := by
  have hnq := not_queued_of_not_pending h hk
  have habs : (abs w).rows k = w.txn.rows k := by
    rw [abs_rows]; unfold absRow
    cases ho : w.cache.objs k with
    | none => rfl
    | some o =>
      have h1 := h.q.objs k o ho
      have h2 := hk o ho
      unfold ObjOk at h1
      cases hs : o.status <;> simp [hs, Status.pending] at h1 h2 ⊢ <;> simp [h1]
  cases hr : w.txn.rows k with
  | none => rw [fetch_none hr, habs, hr]; exact ⟨h, rfl, rfl, rfl, rfl⟩
  | some row =>
    rw [fetch_some hr, habs, hr]
    refine ⟨⟨⟨?_, ?_, h.q.queueNodup, ?_⟩, ?_, h.addedFresh, h.addedNodup, h.removedIn⟩, ?_, rfl, rfl, rfl⟩
    · intro k' o' ho'
      by_cases hkk : k' = k
      · subst hkk; simp at ho'; subst ho'; simp [ObjOk, hr]
      · simp [hkk] at ho'; exact h.q.objs k' o' ho'
    · intro k' hk'
      have hkk : k' ≠ k := by rintro rfl; exact hnq hk'
      obtain ⟨o', ho', hp'⟩ := h.q.queueMem k' hk'
      exact ⟨o', by simp [hkk, ho'], hp'⟩
    · intro k' o' ho' hp'
      by_cases hkk : k' = k
      · subst hkk; simp at ho'; subst ho'; simp [Status.pending] at hp'
      · simp [hkk] at ho'; exact h.q.pendingQueued k' o' ho' hp'
    · intro hm
      obtain ⟨c1, c2, c3⟩ := h.clean hm
      refine ⟨?_, c2, c3⟩
      intro k' o' ho'
      by_cases hkk : k' = k
      · subst hkk; simp at ho'; subst ho'; rfl
      · simp [hkk] at ho'; exact c1 k' o' ho'
    · apply Db.ext'
      · intro k'
        by_cases hkk : k' = k
        · subst hkk; rw [habs, hr, abs_rows]; simp [absRow]
        · rw [abs_rows, abs_rows]; simp [absRow, hkk]
      · intro l; rfl

/-! ### every operation -/

theorem create_refused {w : World} {k : Key} {vals : List Cell} (hi : w.cache.inIndex k = true) :
    step w (.create k vals) = (w, .refused .cacheIndexError, []) := by
  simp [step, create, hi]

theorem create_ok {w : World} {k : Key} {vals : List Cell} (hi : w.cache.inIndex k = false) :
    step w (.create k vals) =
      ({ w with cache := { (w.cache.setObj k { status := .created, vals := rowOfList vals, wbits := [] }).push k with
                           modified := true } }, .ok, []) := by
  simp [step, create, hi]

theorem create_sim {b : Both} (h : Sim b) (k : Key) (vals : List Cell) (hok : OpOk b.s (.create k vals)) :
    Sim (stepBoth b (.create k vals)) := by
  unfold stepBoth
  cases hi : b.w.cache.inIndex k with
  | true => rw [create_refused hi]; exact h
  | false =>
    rw [create_ok hi]
    dsimp only
    have hfresh : (abs b.w).rows k = none := by rw [h.view]; exact hok
    have hni : ∀ o, b.w.cache.objs k = some o → o.status.indexed = false := by
      intro o ho; simpa [Cache.inIndex, ho] using hi
    have hrow : b.w.txn.rows k = none := by
      cases ho : b.w.cache.objs k with
      | none => simpa [abs_rows, absRow, ho] using hfresh
      | some o =>
        have h1 := h.inv.q.objs k o ho
        have h2 := hni o ho
        unfold ObjOk at h1
        cases hs : o.status <;> simp [hs, Status.indexed] at h1 h2 ⊢ <;> exact h1
    have hnq : some k ∉ b.w.cache.queue :=
      not_queued_of_not_pending h.inv (fun o ho => not_pending_of_not_indexed (hni o ho))
    refine ⟨⟨⟨?_, ?_, ?_, ?_⟩, by simp, h.inv.addedFresh, h.inv.addedNodup, h.inv.removedIn⟩, h.committed, ?_⟩
    · intro k' o' ho'
      by_cases hk : k' = k
      · subst hk; simp at ho'; subst ho'; simpa [ObjOk] using hrow
      · simp [hk] at ho'; exact h.inv.q.objs k' o' ho'
    · intro k' hk'
      by_cases hk : k' = k
      · subst hk; exact ⟨{ status := .created, vals := rowOfList vals, wbits := [] }, by simp, rfl⟩
      · have hk'' : some k' ∈ b.w.cache.queue := by simpa [hk] using hk'
        obtain ⟨o', ho', hp'⟩ := h.inv.q.queueMem k' hk''
        exact ⟨o', by simp [hk, ho'], hp'⟩
    · simpa using nodup_push h.inv.q.queueNodup hnq
    · intro k' o' ho' hp'
      by_cases hk : k' = k
      · subst hk; simp
      · simp [hk] at ho'
        have := h.inv.q.pendingQueued k' o' ho' hp'
        simp [this]
    · show abs _ = (b.s.working.setRow k (some (rowOfList vals)))
      apply Db.ext'
      · intro k'
        rw [abs_rows, Db.setRow_rows, ← h.view, abs_rows]
        by_cases hk : k' = k
        · subst hk; simp [absRow]
        · simp [absRow, hk]
      · intro l
        rw [Db.setRow_links, ← h.view]; rfl

#exit
theorem set_sim {b : Both} (h : Sim b) (k : Key) (c : Nat) (v : Cell) : Sim (stepBoth b (.set k c v)) := by
  unfold stepBoth step setAttr
  cases ho : b.w.cache.objs k with
  | none => simp [specStep]; exact h
  | some o =>
    by_cases hd : o.status.isDel = true
    · simp [hd, specStep]; exact h
    · have hrow : b.s.working.rows k = some o.vals := by
        rw [← h.view, abs_rows]; unfold absRow
        cases hs : o.status <;> simp [ho, hs, Status.isDel] at hd ⊢
      have hview : ∀ (w' : World), (∀ k', absRow w' k' = if k' = k then some (o.vals.set c v) else absRow b.w k') →
          (∀ l, member w' l = member b.w l) → abs w' = (specApply b.s (.set k c v)).working := by
        intro w' h1 h2
        simp only [specApply, hrow]
        apply Db.ext'
        · intro k'; rw [abs_rows, h1 k', Db.setRow_rows, ← h.view, abs_rows]
        · intro l; rw [abs_links, h2 l, Db.setRow_links, ← h.view, abs_links]
      simp only [hd]
      by_cases hc : o.status = .created
      · simp only [hc, if_true]
        refine ⟨⟨⟨?_, ?_, h.inv.q.queueNodup, ?_⟩, ?_, h.inv.addedFresh, h.inv.addedNodup, h.inv.removedIn⟩, h.committed, ?_⟩
        · intro k' o' ho'
          by_cases hk : k' = k
          · subst hk; simp at ho'; subst ho'
            have := h.inv.q.objs k' o ho
            unfold ObjOk at this ⊢; simpa [hc] using this
          · simp [hk] at ho'; exact h.inv.q.objs k' o' ho'
        · intro k' hk'
          by_cases hk : k' = k
          · subst hk; exact ⟨_, by simp, by simp [hc, Status.pending]⟩
          · obtain ⟨o', ho', hp'⟩ := h.inv.q.queueMem k' hk'
            exact ⟨o', by simp [hk, ho'], hp'⟩
        · intro k' o' ho' hp'
          by_cases hk : k' = k
          · subst hk; exact h.inv.q.pendingQueued k' o ho (by simp [hc, Status.pending])
          · simp [hk] at ho'; exact h.inv.q.pendingQueued k' o' ho' hp'
        · intro hm
          obtain ⟨c1, c2, c3⟩ := h.inv.clean hm
          have := c1 k o ho; simp [hc, Status.pending] at this
        · simp only [specStep]
          apply hview
          · intro k'; unfold absRow
            by_cases hk : k' = k
            · subst hk; simp [hc]
            · simp [hk]
          · intro l; rfl
      · simp only [hc, if_false]
        have hobj : ∀ (o' : Obj), o' = { status := .modified, vals := o.vals.set c v,
            wbits := if o.wbits.contains c then o.wbits else o.wbits ++ [c] } → ObjOk b.w.txn k o' := by
          intro o' he; subst he
          have := h.inv.q.objs k o ho
          unfold ObjOk at this ⊢
          have hcw : c ∈ (if o.wbits.contains c then o.wbits else o.wbits ++ [c]) := by
            by_cases hcc : o.wbits.contains c = true
            · simp [hcc]; simpa using hcc
            · simp [hcc]
          have hsub : ∀ c', c' ∉ (if o.wbits.contains c then o.wbits else o.wbits ++ [c]) → c' ∉ o.wbits := by
            intro c' hc'
            by_cases hcc : o.wbits.contains c = true
            · simpa [hcc] using hc'
            · simp [hcc] at hc'; exact hc'.1
          simp only []
          cases hs : o.status <;> simp [hs, Status.isDel] at this hd hc
          · -- loaded
            refine ⟨o.vals, this, ?_⟩
            intro c' hc'
            have : c' ≠ c := by rintro rfl; exact hc' hcw
            simp [Row.set, this]
          · -- modified
            obtain ⟨row, hr, hag⟩ := this
            refine ⟨row, hr, ?_⟩
            intro c' hc'
            have hne : c' ≠ c := by rintro rfl; exact hc' hcw
            simp [Row.set, hne, hag c' (hsub c' hc')]
          · refine ⟨o.vals, this, ?_⟩
            intro c' hc'
            have : c' ≠ c := by rintro rfl; exact hc' hcw
            simp [Row.set, this]
          · refine ⟨o.vals, this, ?_⟩
            intro c' hc'
            have : c' ≠ c := by rintro rfl; exact hc' hcw
            simp [Row.set, this]
        by_cases hmo : o.status = .modified
        · simp only [hmo, if_true]
          refine ⟨⟨⟨?_, ?_, h.inv.q.queueNodup, ?_⟩, ?_, h.inv.addedFresh, h.inv.addedNodup, h.inv.removedIn⟩, h.committed, ?_⟩
          · intro k' o' ho'
            by_cases hk : k' = k
            · subst hk; simp at ho'; exact hobj o' ho'.symm
            · simp [hk] at ho'; exact h.inv.q.objs k' o' ho'
          · intro k' hk'
            by_cases hk : k' = k
            · subst hk; exact ⟨_, by simp, by simp [Status.pending]⟩
            · obtain ⟨o', ho', hp'⟩ := h.inv.q.queueMem k' hk'
              exact ⟨o', by simp [hk, ho'], hp'⟩
          · intro k' o' ho' hp'
            by_cases hk : k' = k
            · subst hk; exact h.inv.q.pendingQueued k' o ho (by simp [hmo, Status.pending])
            · simp [hk] at ho'; exact h.inv.q.pendingQueued k' o' ho' hp'
          · intro hm
            obtain ⟨c1, c2, c3⟩ := h.inv.clean hm
            have := c1 k o ho; simp [hmo, Status.pending] at this
          · simp only [specStep]
            apply hview
            · intro k'; unfold absRow
              by_cases hk : k' = k
              · subst hk; simp
              · simp [hk]
            · intro l; rfl
        · simp only [hmo, if_false]
          have hnp : o.status.pending = false := by
            cases hs : o.status <;> simp [hs, Status.isDel, Status.pending] at hd hc hmo ⊢
          have hnq : some k ∉ b.w.cache.queue :=
            not_queued_of_not_pending h.inv (fun o' ho' => by rw [ho] at ho'; cases ho'; exact hnp)
          refine ⟨⟨⟨?_, ?_, ?_, ?_⟩, by simp, h.inv.addedFresh, h.inv.addedNodup, h.inv.removedIn⟩, h.committed, ?_⟩
          · intro k' o' ho'
            by_cases hk : k' = k
            · subst hk; simp at ho'; exact hobj o' ho'.symm
            · simp [hk] at ho'; exact h.inv.q.objs k' o' ho'
          · intro k' hk'
            simp at hk'
            by_cases hk : k' = k
            · subst hk; exact ⟨_, by simp, by simp [Status.pending]⟩
            · obtain ⟨o', ho', hp'⟩ := h.inv.q.queueMem k' (by simpa [hk] using hk')
              exact ⟨o', by simp [hk, ho'], hp'⟩
          · simpa using nodup_push h.inv.q.queueNodup hnq
          · intro k' o' ho' hp'
            by_cases hk : k' = k
            · subst hk; simp
            · simp [hk] at ho'; simp; exact Or.inl (h.inv.q.pendingQueued k' o' ho' hp')
          · simp only [specStep]
            apply hview
            · intro k'; unfold absRow
              by_cases hk : k' = k
              · subst hk; simp
              · simp [hk]
            · intro l; rfl

theorem delete_sim {b : Both} (h : Sim b) (k : Key) : Sim (stepBoth b (.delete k)) := by
  unfold stepBoth step deleteObj
  cases ho : b.w.cache.objs k with
  | none => simp [specStep]; exact h
  | some o =>
    have hview : ∀ (w' : World), (∀ k', absRow w' k' = if k' = k then none else absRow b.w k') →
        (∀ l, member w' l = member b.w l) → abs w' = (specApply b.s (.delete k)).working := by
      intro w' h1 h2
      simp only [specApply]
      apply Db.ext'
      · intro k'; rw [abs_rows, h1 k', Db.setRow_rows, ← h.view, abs_rows]
      · intro l; rw [abs_links, h2 l, Db.setRow_links, ← h.view, abs_links]
    by_cases hd : o.status.isDel = true
    · simp only [hd, if_true, specStep]
      refine ⟨h.inv, h.committed, ?_⟩
      apply hview
      · intro k'; by_cases hk : k' = k
        · subst hk; unfold absRow; cases hs : o.status <;> simp [ho, hs, Status.isDel] at hd ⊢
        · simp [hk]
      · intro l; rfl
    · simp only [hd]
      by_cases hc : o.status = .created
      · simp only [hc, if_true]
        refine ⟨⟨⟨?_, ?_, ?_, ?_⟩, ?_, h.inv.addedFresh, h.inv.addedNodup, h.inv.removedIn⟩, h.committed, ?_⟩
        · intro k' o' ho'
          by_cases hk : k' = k
          · subst hk; simp at ho'; subst ho'
            have := h.inv.q.objs k' o ho
            unfold ObjOk at this ⊢; simpa [hc] using this
          · simp [hk] at ho'; exact h.inv.q.objs k' o' ho'
        · intro k' hk'
          simp only [Cache.setObj_queue, Cache.clearSlot] at hk'
          obtain ⟨hk1, hk2⟩ := mem_clearSlot.mp hk'
          obtain ⟨o', ho', hp'⟩ := h.inv.q.queueMem k' hk1
          exact ⟨o', by simp [hk2, ho'], hp'⟩
        · simpa [Cache.clearSlot] using nodup_clearSlot k h.inv.q.queueNodup
        · intro k' o' ho' hp'
          by_cases hk : k' = k
          · subst hk; simp at ho'; subst ho'; simp [Status.pending] at hp'
          · simp [hk] at ho'
            simp only [Cache.setObj_queue, Cache.clearSlot]
            exact mem_clearSlot.mpr ⟨h.inv.q.pendingQueued k' o' ho' hp', hk⟩
        · intro hm
          obtain ⟨c1, c2, c3⟩ := h.inv.clean (by simpa using hm)
          have := c1 k o ho; simp [hc, Status.pending] at this
        · simp only [specStep]
          apply hview
          · intro k'; unfold absRow
            by_cases hk : k' = k
            · subst hk; simp
            · simp [hk]
          · intro l; rfl
      · simp only [hc, if_false]
        -- the queue after the optional hole: k is not in it
        let c0 : Cache := if o.status = .modified then b.w.cache.clearSlot k else b.w.cache
        have hc0objs : c0.objs = b.w.cache.objs := by simp only [c0]; split <;> rfl
        have hc0added : c0.added = b.w.cache.added := by simp only [c0]; split <;> rfl
        have hc0removed : c0.removed = b.w.cache.removed := by simp only [c0]; split <;> rfl
        have hc0mem : ∀ k', some k' ∈ c0.queue ↔ some k' ∈ b.w.cache.queue ∧ k' ≠ k := by
          intro k'
          simp only [c0]
          split
          · exact mem_clearSlot
          · rename_i hmo
            constructor
            · intro hm
              refine ⟨hm, ?_⟩
              rintro rfl
              obtain ⟨o', ho', hp'⟩ := h.inv.q.queueMem k' hm
              rw [ho] at ho'; cases ho'
              cases hs : o.status <;> simp [hs, Status.isDel, Status.pending] at hd hc hmo hp'
            · exact fun hm => hm.1
        have hc0nd : (c0.queue.filterMap id).Nodup := by
          simp only [c0]; split
          · exact nodup_clearSlot k h.inv.q.queueNodup
          · exact h.inv.q.queueNodup
        have hknot : some k ∉ c0.queue := fun hm => ((hc0mem k).mp hm).2 rfl
        show Sim ⟨{ b.w with cache := { (c0.setObj k { o with status := .markedToDelete }).push k with modified := true } }, _⟩
        refine ⟨⟨⟨?_, ?_, ?_, ?_⟩, by simp, by simpa [hc0added] using h.inv.addedFresh,
          by simpa [hc0added] using h.inv.addedNodup, by simpa [hc0removed] using h.inv.removedIn⟩, h.committed, ?_⟩
        · intro k' o' ho'
          by_cases hk : k' = k
          · subst hk; simp at ho'; subst ho'; simp [ObjOk]
          · simp [hk, hc0objs] at ho'; exact h.inv.q.objs k' o' ho'
        · intro k' hk'
          simp at hk'
          by_cases hk : k' = k
          · subst hk; exact ⟨_, by simp, by simp [Status.pending]⟩
          · have := (hc0mem k').mp (by simpa [hk] using hk')
            obtain ⟨o', ho', hp'⟩ := h.inv.q.queueMem k' this.1
            exact ⟨o', by simp [hk, hc0objs, ho'], hp'⟩
        · simpa using nodup_push hc0nd hknot
        · intro k' o' ho' hp'
          by_cases hk : k' = k
          · subst hk; simp
          · simp [hk, hc0objs] at ho'
            simp; exact Or.inl ((hc0mem k').mpr ⟨h.inv.q.pendingQueued k' o' ho' hp', hk⟩)
        · simp only [specStep]
          apply hview
          · intro k'; unfold absRow
            by_cases hk : k' = k
            · subst hk; simp
            · simp [hk, hc0objs]
          · intro l; simp [member, hc0added, hc0removed]

theorem alive_none {w : World} {k : Key} (h : alive w k = none) :
    ∃ o, w.cache.objs k = some o ∧ o.status.isDel = false := by
  unfold alive at h
  cases ho : w.cache.objs k with
  | none => simp [ho] at h
  | some o => simp [ho] at h; exact ⟨o, rfl, h⟩

/-- a change of `added` / `removed` / `modified` that keeps the link-level clauses of the invariant -/
theorem inv_links {w : World} (h : Inv w) (added removed : List Link)
    (h1 : ∀ l, l ∈ added → w.txn.links l = false) (h2 : added.Nodup) (h3 : ∀ l, l ∈ removed → w.txn.links l = true) :
    Inv { w with cache := { w.cache with added := added, removed := removed, modified := true } } :=
  ⟨⟨h.q.objs, h.q.queueMem, h.q.queueNodup, h.q.pendingQueued⟩, by simp, h1, h2, h3⟩

theorem link_view {b : Both} (h : Sim b) (l : Link) (v : Bool) (w' : World)
    (hr : ∀ k, absRow w' k = absRow b.w k) (hl : ∀ l', member w' l' = if l' = l then v else member b.w l') :
    abs w' = (b.s.working.setLink l v) := by
  apply Db.ext'
  · intro k; rw [abs_rows, hr k, Db.setLink_rows, ← h.view, abs_rows]
  · intro l'; rw [abs_links, hl l', Db.setLink_links, ← h.view, abs_links]

theorem link_sim {b : Both} (h : Sim b) (l : Link) : Sim (stepBoth b (.link l)) := by
  unfold stepBoth step linkOp
  cases ha : alive b.w l.a with
  | some e => simp [specStep]; exact h
  | none =>
    cases hb : alive b.w l.b with
    | some e => simp [specStep]; exact h
    | none =>
      simp only []
      by_cases hm : member b.w l = true
      · simp only [hm, if_true, specStep, specApply]
        refine ⟨inv_links h.inv _ _ h.inv.addedFresh h.inv.addedNodup h.inv.removedIn, h.committed, ?_⟩
        apply link_view h l true
        · intro k; rfl
        · intro l'; by_cases hl : l' = l
          · subst hl; simpa [member] using hm
          · simp [hl, member]
      · simp only [hm]
        by_cases hr : b.w.cache.removed.contains l = true
        · simp only [hr, if_true, specStep, specApply]
          have hrm : l ∈ b.w.cache.removed := by simpa using hr
          refine ⟨inv_links h.inv _ _ h.inv.addedFresh h.inv.addedNodup
            (fun l' hl' => h.inv.removedIn l' (List.mem_filter.mp hl').1), h.committed, ?_⟩
          apply link_view h l true
          · intro k; rfl
          · intro l'; by_cases hl : l' = l
            · subst hl; simp [member, h.inv.removedIn l' hrm]
            · have : (List.filter (fun x => decide (x ≠ l)) b.w.cache.removed).contains l' = b.w.cache.removed.contains l' := by
                rw [Bool.eq_iff_iff]; simp [List.mem_filter, hl]
              simp [hl, member, this]
        · simp only [hr]
          have hnm : member b.w l = false := by simpa using hm
          have hnr : l ∉ b.w.cache.removed := by simpa using hr
          have hnm' := hnm
          unfold member at hnm'
          simp only [Bool.or_eq_false_iff, Bool.and_eq_false_iff] at hnm'
          have hfresh : b.w.txn.links l = false := by
            rcases hnm'.1 with h1 | h1
            · exact h1
            · simp at h1; exact absurd h1 hnr
          have hna : l ∉ b.w.cache.added := by simpa using hnm'.2
          simp only [if_false, specStep, specApply]
          refine ⟨inv_links h.inv _ _ ?_ (List.nodup_cons.mpr ⟨hna, h.inv.addedNodup⟩) h.inv.removedIn, h.committed, ?_⟩
          · intro l' hl'
            rcases List.mem_cons.mp hl' with rfl | hl'
            · exact hfresh
            · exact h.inv.addedFresh l' hl'
          · apply link_view h l true
            · intro k; rfl
            · intro l'; by_cases hl : l' = l
              · subst hl; simp [member]
              · simp [hl, member, List.contains_cons]

theorem unlink_sim {b : Both} (h : Sim b) (l : Link) : Sim (stepBoth b (.unlink l)) := by
  unfold stepBoth step unlinkOp
  cases ha : alive b.w l.a with
  | some e => simp [specStep]; exact h
  | none =>
    cases hb : alive b.w l.b with
    | some e => simp [specStep]; exact h
    | none =>
      simp only []
      by_cases hr : b.w.cache.removed.contains l = true
      · simp only [hr, if_true, specStep, specApply]
        have hrm : l ∈ b.w.cache.removed := by simpa using hr
        refine ⟨h.inv, h.committed, ?_⟩
        apply link_view h l false
        · intro k; rfl
        · intro l'; by_cases hl : l' = l
          · subst hl
            have := added_not_removed h.inv hrm
            simp [member, hr]; simpa using this
          · simp [hl]
      · simp only [hr]
        have hnr : l ∉ b.w.cache.removed := by simpa using hr
        by_cases hm : member b.w l = true
        · simp only [hm, Bool.not_true, if_false]
          by_cases had : b.w.cache.added.contains l = true
          · simp only [had, if_true, specStep, specApply]
            have hadm : l ∈ b.w.cache.added := by simpa using had
            refine ⟨inv_links h.inv _ _ (fun l' hl' => h.inv.addedFresh l' (List.mem_filter.mp hl').1)
              (List.Nodup.filter _ h.inv.addedNodup) h.inv.removedIn, h.committed, ?_⟩
            apply link_view h l false
            · intro k; rfl
            · intro l'; by_cases hl : l' = l
              · subst hl; simp [member, h.inv.addedFresh l' hadm]
              · have : (List.filter (fun x => decide (x ≠ l)) b.w.cache.added).contains l' = b.w.cache.added.contains l' := by
                  rw [Bool.eq_iff_iff]; simp [List.mem_filter, hl]
                simp [hl, member, this]
          · simp only [had, if_false, specStep, specApply]
            have hin : b.w.txn.links l = true := by
              unfold member at hm
              simp [had] at hm; exact hm.1
            refine ⟨inv_links h.inv _ _ h.inv.addedFresh h.inv.addedNodup ?_, h.committed, ?_⟩
            · intro l' hl'
              rcases List.mem_cons.mp hl' with rfl | hl'
              · exact hin
              · exact h.inv.removedIn l' hl'
            · apply link_view h l false
              · intro k; rfl
              · intro l'; by_cases hl : l' = l
                · subst hl; simpa [member] using had
                · simp [hl, member, List.contains_cons]
        · simp only [hm, Bool.not_false, if_true, specStep, specApply]
          refine ⟨inv_links h.inv _ _ h.inv.addedFresh h.inv.addedNodup h.inv.removedIn, h.committed, ?_⟩
          apply link_view h l false
          · intro k; rfl
          · intro l'; by_cases hl : l' = l
            · subst hl; simpa [member] using hm
            · simp [hl, member]

theorem flush_sim {b : Both} (h : Sim b) : Sim (stepBoth b .flush) := by
  obtain ⟨w', ws, e, hi, _, ha, hc⟩ := flushIfModified_spec h.inv
  unfold stepBoth step
  simp only [e, specStep, specApply]
  exact ⟨hi, hc.trans h.committed, ha.trans h.view⟩

theorem commit_spec {w : World} (h : Inv w) :
    ∃ w' ws, commitOp w = (w', .ok, ws) ∧ Inv w' ∧ Clean w' ∧ abs w' = abs w ∧ w'.committed = abs w ∧ w'.txn = abs w := by
  obtain ⟨w', ws, e, hi, hcl, ha, _⟩ := flushIfModified_spec h
  have htx : w'.txn = abs w := by rw [← ha]; exact (abs_eq_txn_of_clean hi.q.objs hcl).symm
  refine ⟨{ w' with committed := w'.txn }, ws, by simp [commitOp, e], ?_, hcl, ?_, htx, htx⟩
  · exact ⟨⟨hi.q.objs, hi.q.queueMem, hi.q.queueNodup, hi.q.pendingQueued⟩, hi.clean, hi.addedFresh, hi.addedNodup, hi.removedIn⟩
  · rw [← ha]; rfl

theorem commit_sim {b : Both} (h : Sim b) : Sim (stepBoth b .commit) := by
  obtain ⟨w', ws, e, hi, _, ha, hc, _⟩ := commit_spec h.inv
  unfold stepBoth step
  simp only [e, specStep, specApply]
  exact ⟨hi, hc.trans h.view, ha.trans h.view⟩

theorem endOk_sim {b : Both} (h : Sim b) : Sim (stepBoth b .endOk) := by
  obtain ⟨w', ws, e, hi, _, ha, hc, ht⟩ := commit_spec h.inv
  unfold stepBoth step
  simp only [e, specStep, specApply]
  refine ⟨inv_empty_cache _ _, hc.trans h.view, ?_⟩
  show abs ⟨w'.committed, w'.txn, Cache.empty⟩ = _
  rw [abs_empty_cache, ht]; exact h.view

theorem abort_sim {b : Both} (h : Sim b) : Sim ⟨abort b.w, { b.s with working := b.s.committed }⟩ := by
  refine ⟨inv_empty_cache _ _, h.committed, ?_⟩
  show abs ⟨b.w.committed, b.w.committed, Cache.empty⟩ = _
  rw [abs_empty_cache]; exact h.committed

theorem load_sim {b : Both} (h : Sim b) (k : Key) : Sim (stepBoth b (.load k)) := by
  unfold stepBoth step loadObj
  by_cases hi : b.w.cache.inIndex k = true
  · simp only [hi, if_true]
    cases ho : b.w.cache.objs k with
    | none => simp [specStep, specApply]; exact h
    | some o =>
      by_cases hs : o.status = .markedToDelete
      · simp [hs, specStep, specApply]; exact h
      · simp [hs, specStep, specApply]; exact h
  · simp only [hi]
    obtain ⟨w', ws, e, hinv, hcl, ha, hc⟩ := flushIfModified_spec h.inv
    simp only [e]
    obtain ⟨f1, f2, f3, _, f5⟩ := fetch_spec hinv k (fun o ho => hcl.1 k o ho)
    have hout : specStep b.s (.load k) (fetch w' k).2 = b.s := by
      rw [f5]; cases (abs w').rows k <;> rfl
    show Sim ⟨(fetch w' k).1, specStep b.s (.load k) (fetch w' k).2⟩
    rw [hout]
    exact ⟨f1, f3.trans (hc.trans h.committed), f2.trans (ha.trans h.view)⟩

theorem seed_sim {b : Both} (h : Sim b) (k : Key) : Sim (stepBoth b (.seed k)) := by
  unfold stepBoth step
  by_cases hi : b.w.cache.inIndex k = true
  · simp [hi, specStep, specApply]; exact h
  · simp only [hi]
    have hk : ∀ o, b.w.cache.objs k = some o → o.status.pending = false := by
      intro o ho
      apply not_pending_of_not_indexed
      simpa [Cache.inIndex, ho] using hi
    obtain ⟨f1, f2, f3, _, _⟩ := fetch_spec h.inv k hk
    exact ⟨f1, f3.trans h.committed, f2.trans h.view⟩

/-- every operation of a well-formed program keeps the two machines in step -/
theorem step_sim {b : Both} (h : Sim b) (op : Op) (hok : OpOk b.s op) : Sim (stepBoth b op) := by
  cases op with
  | create k vals => exact create_sim h k vals hok
  | set k c v => exact set_sim h k c v
  | link l => exact link_sim h l
  | unlink l => exact unlink_sim h l
  | delete k => exact delete_sim h k
  | load k => exact load_sim h k
  | seed k => exact seed_sim h k
  | hasLink l => exact h
  | flush => exact flush_sim h
  | commit => exact commit_sim h
  | rollback => exact abort_sim h
  | endOk => exact endOk_sim h
  | endErr => exact abort_sim h

theorem run_sim : ∀ (ops : List Op) (b : Both), Sim b → ValidFrom b ops → Sim (runBoth b ops)
  | [], _, h, _ => h
  | op :: ops, b, h, hv => run_sim ops (stepBoth b op) (step_sim h op hv.1) hv.2

theorem sim_init (d : Db) : Sim ⟨World.init d, Spec.init d⟩ :=
  ⟨inv_empty_cache d d, rfl, abs_empty_cache d d⟩

end PonyVerif.Model.SessStore
