/-
  C04 — which binding a name of a query gets: the creating scope's, as Python itself resolves it.
-/
import PonyVerif.Model.Scope
namespace PonyVerif.Model.Scope

theorem lookup_upd (a b : Env) (n : String) : (upd a b).lookup n = (b.lookup n).orElse (fun _ => a.lookup n) := by
  unfold upd
  induction b with
  | nil => simp [List.lookup]
  | cons kv t ih =>
    obtain ⟨k, v⟩ := kv
    simp only [List.cons_append, List.lookup]
    split <;> simp_all

theorem lookup_popAll_mem (a : Env) (names : List String) (n : String) (h : n ∈ names) : (popAll a names).lookup n = none := by
  unfold popAll
  induction a with
  | nil => simp [List.lookup]
  | cons kv t ih =>
    obtain ⟨k, v⟩ := kv
    simp only [List.filter]
    split
    · rename_i hk
      simp only [List.lookup]
      split
      · rename_i heq
        have : n = k := by simpa using heq
        subst this; simp [h] at hk
      · exact ih
    · exact ih

theorem lookup_popAll_not_mem (a : Env) (names : List String) (n : String) (h : n ∉ names) :
    (popAll a names).lookup n = a.lookup n := by
  unfold popAll
  induction a with
  | nil => simp [List.lookup]
  | cons kv t ih =>
    obtain ⟨k, v⟩ := kv
    simp only [List.filter]
    split
    · simp only [List.lookup]; split <;> simp_all
    · rename_i hk
      simp only [List.lookup]
      split
      · rename_i heq
        have : n = k := by simpa using heq
        subst this; simp [h] at hk
      · exact ih

/-- a generator handed to select()/get()/exists()/… without explicit dictionaries: a name of its own frame (free variable) has the
    value of that frame, whatever the calling frame binds -/
theorem generator_own (s : Scopes) (n : String) (v : Int) (he : s.explicitGlobals = none) (hc : s.cells = [])
    (h : s.ownLocals.lookup n = some v) : resolve .generator s n = some v := by
  simp [resolve, namespaces, he, hc, lookup_upd, h, List.lookup]

/-- … and a name it loads as a global has the value of the module it was written in (or is undefined there), whatever the
    calling frame's locals and globals bind -/
theorem generator_global (s : Scopes) (n : String) (he : s.explicitGlobals = none) (hc : s.cells = [])
    (hg : n ∈ s.globalNames) (hl : s.ownLocals.lookup n = none) : resolve .generator s n = s.ownGlobals.lookup n := by
  simp [resolve, namespaces, he, hc, lookup_upd, hl, List.lookup, lookup_popAll_mem _ _ _ hg]

/-- a function (lambda): a closure cell wins -/
theorem function_cell (s : Scopes) (n : String) (v : Int) (h : s.cells.lookup n = some v) :
    resolve .function s n = some v := by
  simp [resolve, namespaces, lookup_upd, h]

/-- … and a name it loads as a global has the value of its own module -/
theorem function_global (s : Scopes) (n : String) (he : s.explicitGlobals = none) (hg : n ∈ s.globalNames)
    (hl : s.cells.lookup n = none) : resolve .function s n = s.ownGlobals.lookup n := by
  simp [resolve, namespaces, he, lookup_upd, hl, lookup_popAll_mem _ _ _ hg]

/-- a name the code object does not mention (`raw_sql('$x')`) is looked up in the calling frame's locals, then in the query's
    own globals -/
theorem unmentioned_name (s : Scopes) (n : String) (he : s.explicitGlobals = none) (hg : n ∉ s.globalNames)
    (hl : s.ownLocals.lookup n = none) (hc : s.cells.lookup n = none) :
    resolve .generator s n = (s.callerLocals.lookup n).orElse (fun _ => s.ownGlobals.lookup n) := by
  simp [resolve, namespaces, he, lookup_upd, hl, hc, lookup_popAll_not_mem _ _ _ hg]

/-- the text of a query is evaluated in the calling frame -/
theorem text_caller (s : Scopes) (n : String) (he : s.explicitGlobals = none) (hc : s.cells = []) :
    resolve .text s n = (s.callerLocals.lookup n).orElse (fun _ => s.callerGlobals.lookup n) := by
  simp [resolve, namespaces, he, hc, lookup_upd, List.lookup]

/-- explicit dictionaries: the generator's own frame still wins over the given locals -/
theorem explicit_generator_own (s : Scopes) (g : Env) (n : String) (v : Int) (he : s.explicitGlobals = some g) (hc : s.cells = [])
    (h : s.ownLocals.lookup n = some v) : resolve .generator s n = some v := by
  simp [resolve, namespaces, he, hc, lookup_upd, h, List.lookup]

end PonyVerif.Model.Scope
