/-
  C04 — lifting a parse from the level of the expression to the level of its context, and the list parsers.
-/
import PonyVerif.Lemmas.PyPrint
namespace PonyVerif.Model.PyPrint

/-- one level up: the higher level finds no prefix token of its own in front and no operator of its own behind -/
theorem pE_lift_step (f k : Nat) (ts rest : List Tok) (x : Expr) (hk : 2 ≤ k) (hk16 : k < 16)
    (h : pE f k ts = some (x, rest)) (hs : Stops (k+1) rest)
    (hp : ∀ t ts', ts = t :: ts' → prefixLvl t ≤ k) : pE (f+1) (k+1) ts = some (x, rest) := by
  have hf : f ≠ 0 := by intro h0; subst h0; simp [pE_zero] at h
  obtain ⟨g, rfl⟩ : ∃ g, f = g + 1 := ⟨f - 1, by omega⟩
  have hk' : k = 2 ∨ k = 3 ∨ (4 ≤ k ∧ k ≤ 9) ∨ k = 10 ∨ k = 11 ∨ k = 12 ∨ k = 13 ∨ k = 14 ∨ k = 15 := by omega
  rcases hk' with rfl | rfl | hk' | rfl | rfl | rfl | rfl | rfl | rfl
  · -- 3: no `**` behind
    rw [pE.eq_def]; simp [h]
    cases rest with
    | nil => rfl
    | cons t r => cases t <;> simp_all [Stops, contLvl]; rename_i op; cases op <;> simp_all [BinOp.prio]
  · -- 4: no unary sign in front
    rw [pE.eq_def]; simp
    cases ts with
    | nil => simpa using h
    | cons t r =>
      have := hp t r rfl
      cases t <;> simp_all [prefixLvl]
      rename_i op; cases op <;> simp_all [prefixLvl]
  · rw [pE_binlvl (g+1) (k+1) ts rest x (by omega) (by omega) (by simpa using h)]
    exact pBin_stop g (k+1) x rest hs
  · rw [pE.eq_def]; simp [h]
    cases rest with
    | nil => rfl
    | cons t r => cases t <;> simp_all [Stops, contLvl]
  · rw [pE.eq_def]; simp
    cases ts with
    | nil => simpa using h
    | cons t r =>
      have := hp t r rfl
      cases t <;> simp_all [prefixLvl]
  · rw [pE.eq_def]; simp [h]
    cases rest with
    | nil => rfl
    | cons t r => cases t <;> simp_all [Stops, contLvl]
  · rw [pE.eq_def]; simp [h]
    cases rest with
    | nil => rfl
    | cons t r => cases t <;> simp_all [Stops, contLvl]
  · rw [pE.eq_def]; simp [h]
    cases rest with
    | nil => rfl
    | cons t r => cases t <;> simp_all [Stops, contLvl]
  · rw [pE.eq_def]; simp
    cases ts with
    | nil => simpa using h
    | cons t r =>
      have := hp t r rfl
      cases t <;> simp_all [prefixLvl]

/-- `d` levels up -/
theorem pE_lift (d f k : Nat) (ts rest : List Tok) (x : Expr) (hk : 2 ≤ k) (hk16 : k + d ≤ 16)
    (h : pE f k ts = some (x, rest)) (hs : Stops (k+d) rest)
    (hp : ∀ t ts', ts = t :: ts' → prefixLvl t ≤ k) : pE (f+d) (k+d) ts = some (x, rest) := by
  induction d with
  | zero => simpa using h
  | succ d ih =>
    have := ih (by omega) (hs.mono (by omega))
    exact pE_lift_step (f+d) (k+d) ts rest x (by omega) (by omega) this hs
      (fun t ts' e => Nat.le_trans (hp t ts' e) (by omega))


/-! ### fuel that suffices -/

mutual
def cost : Expr → Nat
  | .name _ => 40 | .const _ => 40 | .negConst _ => 100 | .fstr _ => 40
  | .boolOp _ a b m => 100 + cost a + cost b + costEs m
  | .not e => 100 + cost e
  | .compare l _ r m => 100 + cost l + cost r + costCmp m
  | .bin _ l r => 100 + cost l + cost r
  | .unary _ e => 100 + cost e
  | .ifExp a b c => 100 + cost a + cost b + cost c
  | .lambda ps b => 100 + costParams ps + cost b
  | .attr e _ => 100 + cost e
  | .call f a => 100 + cost f + costArgs a
  | .subscript e i => 100 + cost e + costIdx i
  | .subscriptT e is => 100 + cost e + costIdxs is
  | .list a => 100 + costArgs a
  | .tuple a => 100 + costArgs a
  | .dict k => 100 + costKVs k
def costEs : Exprs → Nat
  | .nil => 1
  | .cons e t => 100 + cost e + costEs t
def costCmp : CmpTail → Nat
  | .nil => 1
  | .cons _ e t => 100 + cost e + costCmp t
def costArgs : Args → Nat
  | .nil => 1
  | .pos e t => 100 + cost e + costArgs t
  | .star e t => 100 + cost e + costArgs t
  | .kw _ e t => 100 + cost e + costArgs t
  | .dstar e t => 100 + cost e + costArgs t
def costOpt : OptE → Nat
  | .none => 1
  | .some e => 100 + cost e
def costIdx : Idx → Nat
  | .ie e => 200 + cost e
  | .sl a b c => 100 + costOpt a + costOpt b + costOpt c
def costIdxs : Idxs → Nat
  | .nil => 1
  | .cons i t => 100 + costIdx i + costIdxs t
def costParams : Params → Nat
  | .nil => 1
  | .plain _ t => 100 + costParams t
  | .dflt _ e t => 100 + cost e + costParams t
  | .var _ t => 100 + costParams t
  | .kwvar _ t => 100 + costParams t
def costKVs : KVs → Nat
  | .nil => 1
  | .cons k v t => 100 + cost k + cost v + costKVs t
end

theorem codePrio_le (e : Expr) : codePrio e ≤ 16 := by
  cases e with
  | boolOp o a b m => cases o <;> simp [codePrio]
  | bin op l r => have := op.prio_le; simp [codePrio]; omega
  | _ => simp [codePrio]

/-- the expression parses, at every level that admits its priority, to its normal form -/
def EGoal (e : Expr) : Prop :=
  ∀ lvl rest fuel, codePrio e ≤ lvl → 2 ≤ lvl → lvl ≤ 16 → Stops lvl rest → cost e + 20 ≤ fuel →
    pE fuel lvl (toks e ++ rest) = some (norm e, rest)

/-- a primary parses, at level 2, into the state of the trailer loop -/
def PGoal (e : Expr) : Prop :=
  ∀ rest fuel, codePrio e ≤ 2 → rest.head? ≠ some .assign → cost e ≤ fuel →
    ∃ f', fuel ≤ f' + cost e ∧ pE fuel 2 (toks e ++ rest) = pPost f' (norm e) rest

/-- from the trailer-loop form at level 2 to the general form -/
theorem EGoal_of_base (e : Expr) (k : Nat) (hk : 2 ≤ k) (hke : codePrio e ≤ k) (hkm : k = 2 ∨ k = codePrio e) (hk16 : k ≤ 16)
    (hb : ∀ rest fuel, Stops k rest → cost e < fuel → pE fuel k (toks e ++ rest) = some (norm e, rest)) : EGoal e := by
  intro lvl rest fuel hl h2 h16 hs hf
  by_cases hlk : lvl ≤ k
  · -- lvl between the priority and k can only happen when k = 2 > priority
    have : lvl = k ∨ lvl < k := by omega
    rcases this with rfl | hlt
    · exact hb rest fuel hs (by omega)
    · -- priority ≤ lvl < k: then k > 2 is the priority itself, impossible
      omega
  · obtain ⟨d, rfl⟩ : ∃ d, lvl = k + d := ⟨lvl - k, by omega⟩
    obtain ⟨g, rfl⟩ : ∃ g, fuel = g + d := ⟨fuel - d, by omega⟩
    refine pE_lift d g k _ rest (norm e) hk h16 (hb rest g (hs.mono (by omega)) (by omega)) hs ?_
    intro t ts' heq
    obtain ⟨t0, ts0, h1, _, h3, _⟩ := first_toks e rest hs.noAssign
    rw [h1] at heq
    cases heq
    omega


/-- a primary in trailer-loop form parses in general form -/
theorem EGoal_of_PGoal (e : Expr) (h2 : codePrio e ≤ 2) (hP : PGoal e) : EGoal e := by
  apply EGoal_of_base e 2 (by omega) h2 (Or.inl rfl) (by omega)
  intro rest fuel hs hf
  obtain ⟨f', hf', heq⟩ := hP rest fuel h2 hs.noAssign (Nat.le_of_lt hf)
  rw [heq]
  obtain ⟨g, rfl⟩ : ∃ g, f' = g + 1 := ⟨f' - 1, by omega⟩
  exact pPost_stop g (norm e) rest hs

/-- the decorator's output parses at every level the grammar allows in that position -/
theorem wrap_parse (c : Expr) (hE : EGoal c) (p m : Nat) (rest : List Tok) (f : Nat) (hpm : p ≤ m + 1) (hm : 2 ≤ m)
    (hm16 : m ≤ 16) (hs : Stops m rest) (hf : cost c + 40 ≤ f) : pE f m (wrapT p c ++ rest) = some (norm c, rest) := by
  unfold wrapT
  split
  · -- parenthesised: an atom
    obtain ⟨d, rfl⟩ : ∃ d, m = 2 + d := ⟨m - 2, by omega⟩
    obtain ⟨g, rfl⟩ : ∃ g, f = (g + 1) + d := ⟨f - d - 1, by omega⟩
    refine pE_lift d (g+1) 2 _ rest (norm c) (by omega) hm16 ?_ hs ?_
    · obtain ⟨t0, ts0, h1, h2, _, _⟩ := first_toks c (.rpar :: rest) (by simp)
      have hc := hE 16 (.rpar :: rest) g (codePrio_le c)
        (by omega) (by omega) (by simp [Stops, contLvl]) (by omega)
      rw [h1] at hc
      have : Tok.lpar :: (toks c ++ [Tok.rpar]) ++ rest = .lpar :: t0 :: ts0 := by simp [← h1]
      rw [this, pE_paren g t0 ts0 rest (norm c) h2 hc]
      obtain ⟨g', rfl⟩ : ∃ g', g = g' + 1 := ⟨g - 1, by omega⟩
      exact pPost_stop g' (norm c) rest (hs.mono (by omega))
    · intro t ts' heq; simp at heq; rw [← heq.1]; simp [prefixLvl]
  · exact hE m rest f (by omega) hm hm16 hs (by omega)


/-- `primary_src`'s output parses at level 2 into the state of the trailer loop -/
theorem prim_parse (c : Expr) (hP : PGoal c) (hE : EGoal c) (rest : List Tok) (f : Nat)
    (hr : rest.head? ≠ some .assign) (hf : cost c + 40 ≤ f) :
    ∃ f', f ≤ f' + cost c + 1 ∧ pE f 2 (primT c ++ rest) = pPost f' (norm c) rest := by
  unfold primT
  split
  · obtain ⟨g, rfl⟩ : ∃ g, f = g + 1 := ⟨f - 1, by omega⟩
    refine ⟨g, by omega, ?_⟩
    obtain ⟨t0, ts0, h1, h2, _, _⟩ := first_toks c (.rpar :: rest) (by simp)
    have hc := hE 16 (.rpar :: rest) g (codePrio_le c) (by omega) (by omega) (by simp [Stops, contLvl]) (by omega)
    rw [h1] at hc
    have : Tok.lpar :: (toks c ++ [Tok.rpar]) ++ rest = .lpar :: t0 :: ts0 := by simp [← h1]
    rw [this, pE_paren g t0 ts0 rest (norm c) h2 hc]
  · obtain ⟨f', h1, h2⟩ := hP rest f (by omega) hr (by omega)
    exact ⟨f', by omega, h2⟩

end PonyVerif.Model.PyPrint
