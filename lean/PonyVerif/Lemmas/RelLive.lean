/-
  Lemmas/RelLive.lean — "no live object references a deleted object".
  A deleted object keeps its own (stale) relationship values; what matters is that nobody LIVE still points at it.
  `CleanAt s o b`: every value `q` that the (dead) object `o` still shows under `b` is dead too or does not point back.
  `DeadClean`: all dead objects are clean.  With `Agree` this gives `Live` (live_of_clean).
  `delete_clean`: `Entity._delete_` (cascade, any depth) leaves every object it deletes clean.
-/
import PonyVerif.Lemmas.RelCreate
import PonyVerif.Lemmas.RelUndo
namespace PonyVerif.Model.Rel

def CleanAt (sch : Schema) (s : Store) (o : ObjId) (b : Attr) : Prop :=
  ∀ q, hasB sch s o b q = true → s.alive q = false ∨ hasB sch s q (sch.rev b) o = false

/-- every deleted object is clean under every attribute of its entity -/
def DeadClean (sch : Schema) (s : Store) : Prop :=
  ∀ o, o < s.n → s.alive o = false → ∀ b ∈ sch.attrsOf (s.ent o), CleanAt sch s o b

/-- no live object references a deleted object (through a link whose reverse attribute belongs to the entity of the target,
    as every link has that Pony or the model can create) -/
def Live (sch : Schema) (s : Store) : Prop :=
  ∀ p b q, p < s.n → s.alive p = true → hasB sch s p b q = true → sch.rev b ∈ sch.attrsOf (s.ent q) → s.alive q = true

/-- the objects deleted between `s` and `s'` are clean in `s'` -/
def NDC (sch : Schema) (s s' : Store) : Prop :=
  ∀ x, x < s.n → s.alive x = true → s'.alive x = false → ∀ b ∈ sch.attrsOf (s.ent x), CleanAt sch s' x b

section live
variable {sch : Schema}

theorem live_of_clean {s : Store} (hR : Range s) (hA : Agree sch s) (hC : DeadClean sch s) : Live sch s := by
  intro p b q hp hal hh hty
  cases hq : s.alive q with
  | true => rfl
  | false =>
    have hqn := hasB_lt hR hp hh
    have hm := hA p b q hp hal hh
    rcases hC q hqn hq _ hty p hm with h' | h'
    · rw [hal] at h'; cases h'
    · rw [Schema.rev_rev, hh] at h'; cases h'

theorem CleanAt.sub {s s' : Store} {o : ObjId} {b : Attr} (hs : Sub s s') (h : CleanAt sch s o b) : CleanAt sch s' o b := by
  intro q hh
  rcases h q (hs.has hh) with h' | h'
  · left
    cases hal : s'.alive q with
    | false => rfl
    | true => rw [hs.alive q hal] at h'; cases h'
  · right
    cases hm : hasB sch s' q (sch.rev b) o with
    | false => rfl
    | true => rw [hs.has hm] at h'; cases h'

theorem NDC.of_alive {s s' : Store} (h : s'.alive = s.alive) : NDC sch s s' := by
  intro x _ ha hd; rw [h, ha] at hd; cases hd

theorem NDC.refl (s : Store) : NDC sch s s := NDC.of_alive rfl

theorem NDC.trans {s s1 s2 : Store} (h1 : NDC sch s s1) (hs1 : Sub s s1) (h2 : NDC sch s1 s2) (hs2 : Sub s1 s2) : NDC sch s s2 := by
  intro x hx ha hd b hb
  cases h : s1.alive x with
  | false => exact (h1 x hx ha h b hb).sub hs2
  | true =>
    have hx1 : x < s1.n := by rw [hs1.n]; exact hx
    have := h2 x hx1 h hd b (by rw [hs1.ent]; exact hb)
    exact this

theorem DeadClean.step {s s' : Store} (hC : DeadClean sch s) (hs : Sub s s') (hN : NDC sch s s') : DeadClean sch s' := by
  intro o ho hd b hb
  rw [hs.n] at ho
  rw [hs.ent] at hb
  cases h : s.alive o with
  | false => exact (hC o ho h b hb).sub hs
  | true => exact hN o ho h hd b hb

theorem iter_post {α : Type} (f : α → St → Res) (I : St → Prop) (Q : α → Store → Prop)
    (hQ : ∀ x s s', Sub s s' → Q x s → Q x s')
    (hstep : ∀ x st st', I st → f x st = .ok st' → I st' ∧ Q x st'.store ∧ Sub st.store st'.store) :
    ∀ (xs : List α) (st st' : St), I st → iter f xs st = .ok st' →
      I st' ∧ (∀ x ∈ xs, Q x st'.store) ∧ Sub st.store st'.store := by
  intro xs
  induction xs with
  | nil => intro st st' hI h; simp at h; cases h; exact ⟨hI, by simp, Sub.refl _⟩
  | cons x xs ih =>
    intro st st' hI h
    obtain ⟨st1, h1, h2⟩ := iter_cons_ok h
    obtain ⟨hI1, hQ1, hS1⟩ := hstep x st st1 hI h1
    obtain ⟨hI2, hQ2, hS2⟩ := ih st1 st' hI1 h2
    refine ⟨hI2, ?_, hS1.trans hS2⟩
    intro y hy
    rcases List.mem_cons.mp hy with rfl | hy
    · exact hQ _ _ _ hS2 hQ1
    · exact hQ2 y hy

/-- a loop of cascade deletes: everything it deletes is clean afterwards -/
theorem iterDel_clean {del : ObjId → St → Res} (hdel : DelSpec sch del)
    (hclean : ∀ x st st' (E : ObjId → Attr → Prop), del x st = .ok st' → x < st.store.n → Range st.store → D sch st.store E → NDC sch st.store st'.store)
    (E : ObjId → Attr → Prop) :
    ∀ (items : List ObjId) (st st' : St), iter del items st = .ok st' → (∀ x ∈ items, x < st.store.n) →
      Range st.store → D sch st.store E → NDC sch st.store st'.store := by
  intro items
  induction items with
  | nil => intro st st' h _ _ _; simp at h; cases h; exact NDC.refl _
  | cons i rest ih =>
    intro st st' h hlt hR hD
    obtain ⟨st1, h1, h2⟩ := iter_cons_ok h
    obtain ⟨hD1, hS1, _, _⟩ := hdel i st st1 E (fun _ => True) h1 (hlt i (by simp)) hR hD
    have hN1 := hclean i st st1 E h1 (hlt i (by simp)) hR hD
    have hlt' : ∀ x ∈ rest, x < st1.store.n := by intro x hx; rw [hS1.n]; exact hlt x (by simp [hx])
    have hN2 := ih st1 st' h2 hlt' (hS1.range hR) hD1
    obtain ⟨_, hS2, _, _⟩ := iterDel_ok hdel E (fun _ => True) rest st1 st' h2 hlt' (hS1.range hR) hD1
    exact hN1.trans hS1 hN2 hS2

/-- invariant of a `_delete_` frame that also tracks cleanliness -/
structure FrameInv2 (sch : Schema) (E : ObjId → Attr → Prop) (s0 s : Store) : Prop where
  fr : FrameInv sch E (fun _ => True) s0 s
  ndc : NDC sch s0 s

theorem FrameInv2.step {E : ObjId → Attr → Prop} {s0 s s' : Store} (h : FrameInv2 sch E s0 s)
    (hd : D sch s' E) (hs : Sub s s') (hc : Cleared (fun _ => True) s s') (hn : NDC sch s s') : FrameInv2 sch E s0 s' :=
  ⟨h.fr.step hd hs hc, h.ndc.trans h.fr.sub hn hs⟩

theorem delete_clean : ∀ (fuel : Nat) (o : ObjId) (st st' : St) (E : ObjId → Attr → Prop),
    delete sch fuel o st = .ok st' → o < st.store.n → Range st.store → D sch st.store E → NDC sch st.store st'.store := by
  intro fuel
  induction fuel with
  | zero => intro o st st' E h; simp [delete] at h
  | succ fuel ih =>
    intro o st st' E h ho hR hD
    have hspec := delete_spec (sch := sch) fuel
    simp only [delete] at h
    split at h
    · cases h; exact NDC.refl _
    · rename_i hal
      have hal0 : st.store.alive o = true := by simpa using hal
      obtain ⟨stB, hAB, hfin⟩ := Res.bind_ok h
      obtain ⟨stA, hA1, hB1⟩ := Res.bind_ok hAB
      have hI0 : FrameInv2 sch (fun p b => E p b ∨ p = o) st.store st.store :=
        ⟨⟨hD.mono (fun _ _ h => Or.inl h), Sub.refl _, Cleared.refl _ _⟩, NDC.refl _⟩
      -- collection attributes
      obtain ⟨hIA, hQA, hSA⟩ := iter_post _ (fun s => FrameInv2 sch (fun p b => E p b ∨ p = o) st.store s.store)
        (fun (c : Attr) (s : Store) => sch.isCollAttr c = true → CleanAt sch s o c)
        (fun c s s' hs hq hc => (hq hc).sub hs)
        (by
          intro c s s' hI hf
          have ho' : o < s.store.n := by rw [hI.fr.sub.n]; exact ho
          have hR' := hI.fr.sub.range hR
          split at hf
          · rename_i d rd hd hrd
            have hic : sch.isCollAttr c = d.isColl := by simp [Schema.isCollAttr, hd]
            split at hf
            · rename_i hcoll
              cases hf
              refine ⟨hI, ?_, Sub.refl _⟩
              intro hc; rw [hic] at hc; simp [hc] at hcoll
            · rename_i hcoll
              have hcoll' : d.isColl = true := by simpa using hcoll
              split at hf
              · rename_i hemp
                cases hf
                refine ⟨hI, fun _ q hq => ?_, Sub.refl _⟩
                rw [hasB_coll_eq hd hcoll'] at hq
                have hqn := hR'.2 o c q ho' hq
                have : q ∈ s.store.members o c := by
                  unfold Store.members; rw [List.mem_filter]; exact ⟨List.mem_range.mpr hqn, hq⟩
                simp only [List.isEmpty_iff] at hemp
                rw [hemp] at this; cases this
              · split at hf
                · have hlt : ∀ x ∈ s.store.members o c, x < s.store.n := fun x hx => (mem_filter_range.mp hx).1
                  obtain ⟨h1, h2, h3, hdead⟩ := iterDel_ok hspec _ (fun _ => True) _ _ _ hf hlt hR' hI.fr.d
                  have hn := iterDel_clean hspec (fun x st st' E h hx hR hD => ih x st st' E h hx hR hD) _ _ _ _ hf hlt hR' hI.fr.d
                  refine ⟨hI.step h1 h2 h3 hn, fun _ q hq => ?_, h2⟩
                  left
                  have hq0 := h2.has hq
                  rw [hasB_coll_eq hd hcoll'] at hq0
                  have hqn := hR'.2 o c q ho' hq0
                  exact hdead q (by unfold Store.members; rw [List.mem_filter]; exact ⟨List.mem_range.mpr hqn, hq0⟩)
                · rename_i hcasc
                  split at hf
                  · obtain ⟨h1, h2, h3, h4, h5⟩ := setCollNil_ok (P := fun _ => True) hf hd hcoll' (by simpa using hcasc) ho' hR' hI.fr.d trivial
                    refine ⟨hI.step h1 h2 h3 (NDC.of_alive h4), fun _ q hq => ?_, h2⟩
                    rw [h5 q] at hq; cases hq
                  · cases hf
          · cases hf) _ _ _ hI0 hA1
      -- reference attributes
      obtain ⟨hIB, hQB, hSB⟩ := iter_post _ (fun s => FrameInv2 sch (fun p b => E p b ∨ p = o) st.store s.store)
        (fun (a : Attr) (s : Store) => sch.isCollAttr a = false → CleanAt sch s o a)
        (fun c s s' hs hq hc => (hq hc).sub hs)
        (by
          intro a s s' hI hf
          have ho' : o < s.store.n := by rw [hI.fr.sub.n]; exact ho
          have hR' := hI.fr.sub.range hR
          split at hf
          · rename_i d rd hd hrd
            have hic : sch.isCollAttr a = d.isColl := by simp [Schema.isCollAttr, hd]
            split at hf
            · rename_i hcoll
              cases hf
              refine ⟨hI, ?_, Sub.refl _⟩
              intro hc; rw [hic, hcoll] at hc; cases hc
            · rename_i hcoll
              have hcoll' : d.isColl = false := by simpa using hcoll
              split at hf
              · rename_i hnone
                cases hf
                refine ⟨hI, fun _ q hq => ?_, Sub.refl _⟩
                rw [hasB_ref_eq hd hcoll', hnone] at hq; simp at hq
              · rename_i x hx
                have hval : ∀ (t : Store) q, Sub s.store t → hasB sch t o a q = true → q = x := by
                  intro t q hs hq
                  have := hs.has hq
                  rw [hasB_ref_eq hd hcoll', hx] at this
                  have e : x = q := by simpa using this
                  exact e.symm
                split at hf
                · rename_i hrc
                  have hrc' : rd.isColl = false := by simpa using hrc
                  split at hf
                  · have hxn := hR'.1 o a x ho' hx
                    obtain ⟨h1, h2, h3, hdead⟩ := hspec x s s' _ (fun _ => True) hf hxn hR' hI.fr.d
                    have hn := ih x s s' _ hf hxn hR' hI.fr.d
                    refine ⟨hI.step h1 h2 h3 hn, fun _ q hq => ?_, h2⟩
                    left; rw [hval _ q h2 hq]; exact hdead
                  · split at hf
                    · split at hf
                      · rename_i hxo
                        obtain ⟨hs', _, _⟩ := attrClearRev_ok hf
                        have hst : s'.store = s.store.setRef x (sch.rev a) none := by
                          rw [hs']; unfold clearRevStore; rw [hxo]
                          have : sch.isCollAttr (sch.rev (sch.rev a)) = false := by
                            rw [sch.rev_rev]; simp [Schema.isCollAttr, hd, hcoll']
                          simp [this]
                        obtain ⟨h1, h2, h3⟩ := delClear_ok (P := fun _ => True) hd hcoll' hrd hrc' hxo hI.fr.d (Or.inr rfl) trivial
                        rw [← hst] at h1 h2 h3
                        refine ⟨hI.step h1 h2 h3 (NDC.of_alive (by rw [hst]; rfl)), fun _ q hq => ?_, h2⟩
                        right
                        rw [hval _ q h2 hq, hst, hasB_setRef hrd hrc']
                        simp
                      · rename_i hxo
                        cases hf
                        refine ⟨hI, fun _ q hq => ?_, Sub.refl _⟩
                        right
                        rw [hval _ q (Sub.refl _) hq, hasB_ref_eq hrd hrc']
                        cases hr : s.store.ref x (sch.rev a) with
                        | none => simp
                        | some w =>
                          have : w ≠ o := by intro e; apply hxo; rw [hr, e]
                          simp [this]
                    · cases hf
                · rename_i hrc
                  have hrc' : rd.isColl = true := by simpa using hrc
                  obtain ⟨_, hst⟩ := reverseRemove1_ok (iter_single_ok hf)
                  obtain ⟨h1, h2, h3⟩ := delRemove_ok (x := x) (P := fun _ => True) hd hcoll' hrd hrc' hI.fr.d (Or.inr rfl)
                  rw [← hst] at h1 h2 h3
                  refine ⟨hI.step h1 h2 h3 (NDC.of_alive (by rw [hst]; rfl)), fun _ q hq => ?_, h2⟩
                  right
                  rw [hval _ q h2 hq, hst, hasB_setMem hrd hrc']
                  simp
          · cases hf) _ _ _ hIA hB1
      -- the end of the frame
      have hfinal : st'.store = stB.store.setAlive o false := by
        split at hfin
        · rename_i hdead
          have e := Res.ok.inj hfin
          rw [← e]
          have hdead' : stB.store.alive o = false := by simpa using hdead
          generalize stB.store = sB at hdead' ⊢
          cases sB with
          | mk n ent alive ref mem =>
            simp only [Store.setAlive, Store.mk.injEq, true_and, and_true]
            funext p
            split
            · rename_i hpo; rw [hpo]; exact hdead'
            · rfl
        · have e := Res.ok.inj hfin
          rw [← e]; rfl
      have hkill : Sub stB.store (stB.store.setAlive o false) := by
        refine ⟨rfl, rfl, ?_, fun _ _ => Or.inl rfl, fun _ _ _ h => h⟩
        intro p hp; simp only [Store.setAlive] at hp; split at hp
        · cases hp
        · exact hp
      rw [hfinal]
      intro x hx hax hdx b hb
      by_cases hxo : x = o
      · subst hxo
        have hent : stB.store.ent = st.store.ent := hIB.fr.sub.ent
        cases hc : sch.isCollAttr b with
        | true =>
          have := hQA b hb hc
          exact (this.sub hSB).sub hkill
        | false => exact (hQB b hb hc).sub hkill
      · have hdB : stB.store.alive x = false := by
          simp only [Store.setAlive, if_neg hxo] at hdx; exact hdx
        exact (hIB.ndc x hx hax hdB b hb).sub hkill

theorem sub_setRow_shrink {s : Store} (o : ObjId) (c : Attr) (f : ObjId → Bool) (h : ∀ x, f x = true → s.mem o c x = true) :
    Sub s (s.setRow o c f) := by
  refine ⟨rfl, rfl, fun _ h => h, fun _ _ => Or.inl rfl, ?_⟩
  intro p b q hm
  simp only [Store.setRow] at hm
  split at hm
  · rename_i hc; obtain ⟨rfl, rfl⟩ := hc; exact h q hm
  · exact hm

/-- `SetInstance.remove` only removes; what its cascade deletes is clean -/
theorem collRemove_sub {fuel : Nat} {o : ObjId} {c : Attr} {items : List ObjId} {st st' : St} {cd : Side}
    (h : collRemove sch fuel o c items st = .ok st') (hc : sch.side c = some cd) (hcd : cd.isColl = true)
    (hA : Agree sch st.store) (hR : Range st.store) :
    Sub st.store st'.store ∧ NDC sch st.store st'.store := by
  have hspec := delete_spec (sch := sch) fuel
  unfold collRemove at h
  split at h
  · cases h
  · split at h
    · rename_i d rd hd hrd
      rw [hc] at hd; cases hd
      simp only at h
      obtain ⟨st1, h1, h2⟩ := Res.bind_ok h
      cases h2
      have hrr := sch.rev_rev c
      have hc' : sch.side (sch.rev (sch.rev c)) = some cd := by rw [hrr]; exact hc
      have hold : ∀ x, x ∈ (List.range st.store.n).filter (fun x => items.contains x && st.store.mem o c x) → x < st.store.n := by
        intro x hx; exact (mem_filter_range.mp hx).1
      generalize (List.range st.store.n).filter (fun x => items.contains x && st.store.mem o c x) = old at *
      have hrow : Sub st1.store (st1.store.setRow o c fun x => st1.store.mem o c x && !old.contains x) :=
        sub_setRow_shrink o c _ (by intro x hx; simp only [Bool.and_eq_true] at hx; exact hx.1)
      simp only [St.setStore_store]
      split at h1
      · rename_i hcoll
        have hrd' : rd.isColl = false := by simpa using hcoll
        split at h1
        · obtain ⟨_, hS1, _, _⟩ := iterDel_ok hspec (fun _ _ => False) (fun _ => True) _ _ _ h1 hold hR (D_false_iff.mpr hA)
          have hN1 := iterDel_clean hspec (fun x st st' E h hx hR hD => delete_clean fuel x st st' E h hx hR hD) (fun _ _ => False) _ _ _ h1 hold hR (D_false_iff.mpr hA)
          exact ⟨hS1.trans hrow, hN1.trans hS1 (NDC.of_alive rfl) hrow⟩
        · obtain ⟨_, hRf, hF, hM, _⟩ := iterClear_ok hrd hrd' hc' hcd _ _ _ h1
          have hS1 : Sub st.store st1.store := hF.sub (by intro p b; rw [hRf]; split <;> simp) hM
          exact ⟨hS1.trans hrow, NDC.of_alive (by simp only [Store.setRow]; exact hF.alive)⟩
      · rename_i hcoll
        have hrd' : rd.isColl = true := by simpa using hcoll
        obtain ⟨_, hRf, hF, hM, _⟩ := reverseRemove_ok hrd hrd' o _ _ _ h1
        have hS1 : Sub st.store st1.store := hF.sub (by intro p b; rw [hRf]; exact Or.inl rfl) hM
        exact ⟨hS1.trans hrow, NDC.of_alive (by simp only [Store.setRow]; exact hF.alive)⟩
    · cases h

/-- `SetInstance.clear` (= `Set.__set__(obj, ())`) only removes; what its cascade deletes is clean -/
theorem clear_sub {fuel : Nat} {o : ObjId} {c : Attr} {st st' : St} {cd : Side}
    (h : setCollCore sch (fun x => delete sch fuel x) false o c [] st = .ok st') (hc : sch.side c = some cd) (hcd : cd.isColl = true)
    (hA : Agree sch st.store) (hR : Range st.store) :
    Sub st.store st'.store ∧ NDC sch st.store st'.store := by
  have hspec := delete_spec (sch := sch) fuel
  unfold setCollCore at h
  split at h
  · cases h
  · split at h
    · rename_i d rd hd hrd
      rw [hc] at hd; cases hd
      simp only at h
      split at h
      · cases h; exact ⟨Sub.refl _, NDC.refl _⟩
      · obtain ⟨st2, h12, h2⟩ := Res.bind_ok h
        cases h2
        have hrr := sch.rev_rev c
        have hc' : sch.side (sch.rev (sch.rev c)) = some cd := by rw [hrr]; exact hc
        have hadd : (List.range st.store.n).filter (fun x => ([] : List ObjId).contains x && !st.store.mem o c x) = [] := by simp
        have hrem : ∀ x, x ∈ (List.range st.store.n).filter (fun x => st.store.mem o c x && !([] : List ObjId).contains x) → x < st.store.n := by
          intro x hx; exact (mem_filter_range.mp hx).1
        rw [hadd] at h12
        generalize (List.range st.store.n).filter (fun x => st.store.mem o c x && !([] : List ObjId).contains x) = toRemove at *
        simp only [rewriteRow_store]
        have hrow : Sub st2.store (st2.store.setRow o c (finalRow (!rd.isColl && cd.cascade) [] st2.store)) :=
          sub_setRow_shrink o c _ (by intro x hx; simp [finalRow] at hx)
        split at h12
        · rename_i hcoll
          have hrd' : rd.isColl = false := by simpa using hcoll
          obtain ⟨st1, h1, h2⟩ := Res.bind_ok h12
          have e21 : st2 = st1 := by simp at h2; exact h2.symm
          rw [e21] at hrow ⊢
          split at h1
          · obtain ⟨_, hS1, _, _⟩ := iterDel_ok hspec (fun _ _ => False) (fun _ => True) _ _ _ h1 hrem hR (D_false_iff.mpr hA)
            have hN1 := iterDel_clean hspec (fun x st st' E h hx hR hD => delete_clean fuel x st st' E h hx hR hD) (fun _ _ => False) _ _ _ h1 hrem hR (D_false_iff.mpr hA)
            exact ⟨hS1.trans hrow, hN1.trans hS1 (NDC.of_alive rfl) hrow⟩
          · obtain ⟨_, hRf, hF, hM, _⟩ := iterClear_ok hrd hrd' hc' hcd _ _ _ h1
            have hS1 : Sub st.store st1.store := hF.sub (by intro p b; rw [hRf]; split <;> simp) hM
            exact ⟨hS1.trans hrow, NDC.of_alive (by simp only [Store.setRow]; exact hF.alive)⟩
        · rename_i hcoll
          have hrd' : rd.isColl = true := by simpa using hcoll
          obtain ⟨st1, h1, h2⟩ := Res.bind_ok h12
          have e21 : st2 = st1 := by simp [reverseAdd] at h2; exact h2.symm
          rw [e21] at hrow ⊢
          obtain ⟨_, hRf, hF, hM, _⟩ := reverseRemove_ok hrd hrd' o _ _ _ h1
          have hS1 : Sub st.store st1.store := hF.sub (by intro p b; rw [hRf]; exact Or.inl rfl) hM
          exact ⟨hS1.trans hrow, NDC.of_alive (by simp only [Store.setRow]; exact hF.alive)⟩
    · cases h

/-- `DeadClean` only looks at the rows of existing objects -/
theorem deadClean_of_eqBelow {s t : Store} (hR : Range s) (hC : DeadClean sch s) (h : EqBelow s.n t s) : DeadClean sch t := by
  obtain ⟨hn, hrows⟩ := h
  have hhas : ∀ p b q, p < s.n → hasB sch t p b q = hasB sch s p b q := by
    intro p b q hp
    obtain ⟨_, _, h3, h4⟩ := hrows p hp
    unfold hasB
    cases sch.side b with
    | none => rfl
    | some d => simp only [h3, h4]
  intro o ho hd b hb q hq
  rw [hn] at ho
  obtain ⟨h1, h2, _, _⟩ := hrows o ho
  rw [h1] at hd; rw [h2] at hb
  rw [hhas o b q ho] at hq
  have hqn := hasB_lt hR ho hq
  rcases hC o ho hd b hb q hq with h' | h'
  · left; rw [(hrows q hqn).1]; exact h'
  · right; rw [hhas q _ o hqn]; exact h'

/-- a call that deletes nothing and only adds links between objects that are alive afterwards keeps the dead objects clean -/
theorem deadClean_additive {s s' : Store} (hR : Range s) (hC : DeadClean sch s) (hn : s.n ≤ s'.n)
    (hal : ∀ p, p < s.n → s'.alive p = s.alive p) (hent : ∀ p, p < s.n → s'.ent p = s.ent p)
    (hfresh : ∀ p, s.n ≤ p → p < s'.n → s'.alive p = true)
    (hnew : ∀ p b q, hasB sch s' p b q = true → hasB sch s p b q = true ∨ (s'.alive p = true ∧ s'.alive q = true)) :
    DeadClean sch s' := by
  intro o ho hd b hb q hq
  have hon : o < s.n := by
    cases Nat.lt_or_ge o s.n with
    | inl h => exact h
    | inr h => rw [hfresh o h ho] at hd; cases hd
  have hd0 : s.alive o = false := by rw [← hal o hon]; exact hd
  rw [hent o hon] at hb
  rcases hnew o b q hq with h' | ⟨h', _⟩
  · have hqn := hasB_lt hR hon h'
    rcases hC o hon hd0 b hb q h' with h'' | h''
    · left; rw [hal q hqn]; exact h''
    · right
      cases hm : hasB sch s' q (sch.rev b) o with
      | false => rfl
      | true =>
        rcases hnew q _ o hm with g | ⟨_, g⟩
        · rw [g] at h''; cases h''
        · rw [g] at hd; cases hd
  · rw [h'] at hd; cases hd

end live
end PonyVerif.Model.Rel
