/-
  Lemmas: the OR/AND expansion of an n-tuple ordering comparison computes the lexicographic order, for every n.
-/
import PonyVerif.Model.TupleCmp
import PonyVerif.Lemmas.Translate
namespace PonyVerif.Model.Q

theorem K.and_ofBool (p q : Bool) : K.and (K.ofBool p) (K.ofBool q) = K.ofBool (p && q) := by cases p <;> cases q <;> rfl
theorem K.or_ofBool (p q : Bool) : K.or (K.ofBool p) (K.ofBool q) = K.ofBool (p || q) := by cases p <;> cases q <;> rfl

theorem cmpInt_strict_ne (op : CmpOp) (x y : Int) (h : x ≠ y) : cmpInt op.strict x y = cmpInt op x y := by
  cases op <;> simp [CmpOp.strict, cmpInt] <;> omega

theorem cmpInt_strict_refl (op : CmpOp) (h : op.isOrdering = true) (x : Int) : cmpInt op.strict x x = false := by
  cases op <;> simp_all [CmpOp.strict, cmpInt, CmpOp.isOrdering]

theorem cmpInt_refl (op : CmpOp) (x : Int) : cmpInt op x x = pyTupleCmp op [] := by
  cases op <;> simp [cmpInt, pyTupleCmp]

/-- the value of the expansion is Python's tuple comparison -/
theorem lexCmp_eq_py (op : CmpOp) (h : op.isOrdering = true) : ∀ (ps : List (Int × Int)), ps ≠ [] → lexCmp op ps = pyTupleCmp op ps
  | [], hne => absurd rfl hne
  | [(x, y)], _ => by
    simp only [lexCmp, pyTupleCmp]
    by_cases hxy : x = y
    · subst hxy; simp [cmpInt_refl]; rfl
    · simp [hxy]
  | (x, y) :: q :: rest, _ => by
    have ih := lexCmp_eq_py op h (q :: rest) (by simp)
    simp only [lexCmp, pyTupleCmp] at ih ⊢
    by_cases hxy : x = y
    · subst hxy; simp [cmpInt_strict_refl op h, ih]
    · simp [hxy, cmpInt_strict_ne op x y hxy]

theorem evalOr_nil (L : LikeFn) (d : Dialect) (env : SEnv) : evalOr L d env .nil = some .ff := by simp [evalOr, evalAll]

theorem evalOr_cons (L : LikeFn) (d : Dialect) (env : SEnv) (h : Sql) (t : SqlList) :
    evalOr L d env (.cons h t) = match evalCond L d env h, evalOr L d env t with
      | some a, some b => some (K.or a b)
      | _, _ => none := by
  simp only [evalOr, evalAll_cons]
  cases evalCond L d env h <;> cases evalAll L d env t <;> simp
  rw [foldl_or_init]

theorem evalAnd_nil (L : LikeFn) (d : Dialect) (env : SEnv) : evalAnd L d env .nil = some .tt := by simp [evalAnd, evalAll]

theorem evalCond_cmp_int (L : LikeFn) (d : Dialect) (env : SEnv) (o : CmpOp) (a b : Sql) (x y : Int)
    (ha : eval L d env a = some (.int x)) (hb : eval L d env b = some (.int y)) :
    evalCond L d env (.cmp o a b) = some (K.ofBool (cmpInt o x y)) := by
  rw [evalCond_cmp, ha, hb]; rfl

theorem evalCond_clauseOf (L : LikeFn) (d : Dialect) (env : SEnv) (pre : SqlList) (c : Sql) (P q : Bool)
    (hpre : evalAnd L d env pre = some (K.ofBool P)) (hpn : pre = .nil → P = true) (hc : evalCond L d env c = some (K.ofBool q)) :
    evalCond L d env (clauseOf pre c) = some (K.ofBool (P && q)) := by
  cases pre with
  | nil => simp [clauseOf, hc, hpn rfl]
  | cons h t =>
    simp only [clauseOf, evalCond_and, evalAnd_append, hpre, evalAnd_single, hc, K.and_ofBool]

/-- the operands evaluate to (non-NULL) integers -/
def OperandsEval (L : LikeFn) (d : Dialect) (env : SEnv) : List (Sql × Sql) → List (Int × Int) → Prop
  | [], [] => True
  | (a, b) :: ps, (x, y) :: vs => eval L d env a = some (.int x) ∧ eval L d env b = some (.int y) ∧ OperandsEval L d env ps vs
  | _, _ => False

theorem expandFrom_eval (L : LikeFn) (d : Dialect) (env : SEnv) (op : CmpOp) : ∀ (ps : List (Sql × Sql)) (vs : List (Int × Int)) (pre : SqlList) (P : Bool),
    evalAnd L d env pre = some (K.ofBool P) → (pre = .nil → P = true) → OperandsEval L d env ps vs → ps ≠ [] →
    evalOr L d env (expandFrom pre op ps) = some (K.ofBool (P && lexCmp op vs))
  | [], _, _, _, _, _, _, hne => absurd rfl hne
  | [(a, b)], vs, pre, P, hpre, hpn, hev, _ => by
    match vs, hev with
    | [(x, y)], ⟨ha, hb, _⟩ =>
      simp only [expandFrom, evalOr_cons, evalOr_nil, lexCmp,
        evalCond_clauseOf L d env pre _ P _ hpre hpn (evalCond_cmp_int L d env op a b x y ha hb), K.or_ff]
  | (a, b) :: q :: rest, vs, pre, P, hpre, hpn, hev, _ => by
    match vs, hev with
    | (x, y) :: w :: vs', ⟨ha, hb, hrest⟩ =>
      have hpre' : evalAnd L d env (pre.append (.cons (.cmp .eq a b) .nil)) = some (K.ofBool (P && (x == y))) := by
        simp only [evalAnd_append, hpre, evalAnd_single, evalCond_cmp_int L d env .eq a b x y ha hb, K.and_ofBool, cmpInt]
      have hpn' : pre.append (.cons (.cmp .eq a b) .nil) = .nil → (P && (x == y)) = true := by
        intro h; cases pre <;> simp [SqlList.append] at h
      have ih := expandFrom_eval L d env op (q :: rest) (w :: vs') _ _ hpre' hpn' hrest (by simp)
      simp only [expandFrom, evalOr_cons, ih, lexCmp,
        evalCond_clauseOf L d env pre _ P _ hpre hpn (evalCond_cmp_int L d env op.strict a b x y ha hb), K.or_ofBool]
      congr 2
      cases P <;> simp

end PonyVerif.Model.Q
