/-
  C04 — one-step facts about the list parsers (arguments, display elements, slices, parameters, key/value pairs).
-/
import PonyVerif.Lemmas.PyPrint2
namespace PonyVerif.Model.PyPrint

theorem pBoolTail_stop (f : Nat) (isOr : Bool) (ts : List Tok) (h : Stops (if isOr then 14 else 13) ts) :
    pBoolTail (f+1) isOr ts = some (.nil, ts) := by
  rw [pBoolTail.eq_def]
  cases ts with
  | nil => simp
  | cons t r => cases isOr <;> cases t <;> simp_all [Stops, contLvl]
theorem pBoolTail_or (f : Nat) (r r1 r2 : List Tok) (e : Expr) (t : Exprs) (h : pE f 13 r = some (e, r1))
    (h2 : pBoolTail f true r1 = some (t, r2)) : pBoolTail (f+1) true (.kOr :: r) = some (.cons e t, r2) := by
  rw [pBoolTail.eq_def]; simp [h, h2]
theorem pBoolTail_and (f : Nat) (r r1 r2 : List Tok) (e : Expr) (t : Exprs) (h : pE f 12 r = some (e, r1))
    (h2 : pBoolTail f false r1 = some (t, r2)) : pBoolTail (f+1) false (.kAnd :: r) = some (.cons e t, r2) := by
  rw [pBoolTail.eq_def]; simp [h, h2]

theorem pCmpTail_stop (f : Nat) (ts : List Tok) (h : Stops 11 ts) : pCmpTail (f+1) ts = some (.nil, ts) := by
  rw [pCmpTail.eq_def]
  cases ts with
  | nil => simp
  | cons t r => cases t <;> simp_all [Stops, contLvl]
theorem pCmpTail_step (f : Nat) (op : CmpOp) (r r1 r2 : List Tok) (e : Expr) (t : CmpTail) (h : pE f 10 r = some (e, r1))
    (h2 : pCmpTail f r1 = some (t, r2)) : pCmpTail (f+1) (.cmp op :: r) = some (.cons op e t, r2) := by
  rw [pCmpTail.eq_def]; simp [h, h2]

/-! call arguments -/
theorem pArgs_nil (f : Nat) (r : List Tok) : pArgs (f+1) (.rpar :: r) = some (.nil, r) := by
  rw [pArgs.eq_def]
theorem pArgs_star_more (f : Nat) (r r1 r2 : List Tok) (e : Expr) (t : Args) (h : pE f 16 r = some (e, .comma :: r1))
    (h2 : pArgs f r1 = some (t, r2)) : pArgs (f+1) (.bin .mult :: r) = some (.star e t, r2) := by
  rw [pArgs.eq_def]; simp [h, h2]
theorem pArgs_star_last (f : Nat) (r r1 : List Tok) (e : Expr) (h : pE f 16 r = some (e, .rpar :: r1)) :
    pArgs (f+1) (.bin .mult :: r) = some (.star e .nil, r1) := by
  rw [pArgs.eq_def]; simp [h]
theorem pArgs_dstar_more (f : Nat) (r r1 r2 : List Tok) (e : Expr) (t : Args) (h : pE f 16 r = some (e, .comma :: r1))
    (h2 : pArgs f r1 = some (t, r2)) : pArgs (f+1) (.bin .pow :: r) = some (.dstar e t, r2) := by
  rw [pArgs.eq_def]; simp [h, h2]
theorem pArgs_dstar_last (f : Nat) (r r1 : List Tok) (e : Expr) (h : pE f 16 r = some (e, .rpar :: r1)) :
    pArgs (f+1) (.bin .pow :: r) = some (.dstar e .nil, r1) := by
  rw [pArgs.eq_def]; simp [h]
theorem pArgs_kw_more (f : Nat) (n : String) (r r1 r2 : List Tok) (e : Expr) (t : Args)
    (h : pE f 16 r = some (e, .comma :: r1)) (h2 : pArgs f r1 = some (t, r2)) :
    pArgs (f+1) (.name n :: .assign :: r) = some (.kw n e t, r2) := by
  rw [pArgs.eq_def]; simp [h, h2]
theorem pArgs_kw_last (f : Nat) (n : String) (r r1 : List Tok) (e : Expr) (h : pE f 16 r = some (e, .rpar :: r1)) :
    pArgs (f+1) (.name n :: .assign :: r) = some (.kw n e .nil, r1) := by
  rw [pArgs.eq_def]; simp [h]
theorem pArgs_pos_more (f : Nat) (t0 : Tok) (ts' r1 r2 : List Tok) (e : Expr) (t : Args) (ht : startTok t0 = true)
    (hn : ∀ n, t0 = .name n → ts'.head? ≠ some .assign)
    (h : pE f 16 (t0 :: ts') = some (e, .comma :: r1)) (h2 : pArgs f r1 = some (t, r2)) :
    pArgs (f+1) (t0 :: ts') = some (.pos e t, r2) := by
  rw [pArgs.eq_def]
  cases t0 <;> simp [startTok] at ht <;> (try simp [h, h2])
  · rename_i n
    have := hn n rfl
    cases ts' with
    | nil => simp [h, h2]
    | cons t1 r => cases t1 <;> simp_all
  · rename_i op; cases op <;> simp at ht <;> simp [h, h2]
theorem pArgs_pos_last (f : Nat) (t0 : Tok) (ts' r1 : List Tok) (e : Expr) (ht : startTok t0 = true)
    (hn : ∀ n, t0 = .name n → ts'.head? ≠ some .assign)
    (h : pE f 16 (t0 :: ts') = some (e, .rpar :: r1)) : pArgs (f+1) (t0 :: ts') = some (.pos e .nil, r1) := by
  rw [pArgs.eq_def]
  cases t0 <;> simp [startTok] at ht <;> (try simp [h])
  · rename_i n
    have := hn n rfl
    cases ts' with
    | nil => simp [h]
    | cons t1 r => cases t1 <;> simp_all
  · rename_i op; cases op <;> simp at ht <;> simp [h]

/-! display elements -/
theorem pItems_nil (f : Nat) (c : Tok) (r : List Tok) : pItems (f+1) c (c :: r) = some (.nil, r) := by
  rw [pItems.eq_def]; simp
theorem pItems_star_more (f : Nat) (c : Tok) (r r1 r2 : List Tok) (e : Expr) (t : Args) (hc : c = .rpar ∨ c = .rbrk)
    (h : pE f 10 r = some (e, .comma :: r1)) (h2 : pItems f c r1 = some (t, r2)) :
    pItems (f+1) c (.bin .mult :: r) = some (.star e t, r2) := by
  rw [pItems.eq_def]; rcases hc with rfl | rfl <;> simp [h, h2]
theorem pItems_star_last (f : Nat) (c : Tok) (r r1 : List Tok) (e : Expr) (hc : c = .rpar ∨ c = .rbrk)
    (h : pE f 10 r = some (e, c :: r1)) : pItems (f+1) c (.bin .mult :: r) = some (.star e .nil, r1) := by
  rw [pItems.eq_def]; rcases hc with rfl | rfl <;> simp [h]
theorem pItems_pos_more (f : Nat) (c t0 : Tok) (ts' r1 r2 : List Tok) (e : Expr) (t : Args) (hc : c = .rpar ∨ c = .rbrk)
    (ht : startTok t0 = true) (h : pE f 16 (t0 :: ts') = some (e, .comma :: r1)) (h2 : pItems f c r1 = some (t, r2)) :
    pItems (f+1) c (t0 :: ts') = some (.pos e t, r2) := by
  rw [pItems.eq_def]
  rcases hc with rfl | rfl <;> cases t0 <;> simp [startTok] at ht <;> (try simp [h, h2]) <;>
    (rename_i op; cases op <;> simp at ht <;> simp [h, h2])
theorem pItems_pos_last (f : Nat) (c t0 : Tok) (ts' r1 : List Tok) (e : Expr) (hc : c = .rpar ∨ c = .rbrk)
    (ht : startTok t0 = true) (h : pE f 16 (t0 :: ts') = some (e, c :: r1)) :
    pItems (f+1) c (t0 :: ts') = some (.pos e .nil, r1) := by
  rw [pItems.eq_def]
  rcases hc with rfl | rfl <;> cases t0 <;> simp [startTok] at ht <;> (try simp [h]) <;>
    (rename_i op; cases op <;> simp at ht <;> simp [h])

/-! slices -/
theorem pOpt_none (f : Nat) (t0 : Tok) (ts' : List Tok) (h : t0 = .colon ∨ t0 = .comma ∨ t0 = .rbrk) :
    pOpt (f+1) (t0 :: ts') = some (.none, t0 :: ts') := by
  rw [pOpt.eq_def]; rcases h with rfl | rfl | rfl <;> simp
theorem pOpt_some (f : Nat) (t0 : Tok) (ts' r : List Tok) (e : Expr) (ht : startTok t0 = true)
    (h : pE f 16 (t0 :: ts') = some (e, r)) : pOpt (f+1) (t0 :: ts') = some (.some e, r) := by
  rw [pOpt.eq_def]
  cases t0 <;> simp [startTok] at ht <;> simp [h]
theorem pIdx_ie (f : Nat) (ts : List Tok) (t1 : Tok) (r1 : List Tok) (e : Expr) (h : pOpt f ts = some (.some e, t1 :: r1))
    (h1 : t1 ≠ .colon) : pIdx (f+1) ts = some (.ie e, t1 :: r1) := by
  rw [pIdx.eq_def]; simp [h]
  cases t1 <;> simp_all
theorem pIdx_sl2 (f : Nat) (ts r1 : List Tok) (t2 : Tok) (r2 : List Tok) (lo hi : OptE) (h : pOpt f ts = some (lo, .colon :: r1))
    (h2 : pOpt f r1 = some (hi, t2 :: r2)) (hc : t2 ≠ .colon) : pIdx (f+1) ts = some (.sl lo hi .none, t2 :: r2) := by
  rw [pIdx.eq_def]; simp [h, h2]
  cases t2 <;> simp_all
theorem pIdx_sl3 (f : Nat) (ts r1 r2 r3 : List Tok) (lo hi st : OptE) (h : pOpt f ts = some (lo, .colon :: r1))
    (h2 : pOpt f r1 = some (hi, .colon :: r2)) (h3 : pOpt f r2 = some (st, r3)) :
    pIdx (f+1) ts = some (.sl lo hi st, r3) := by
  rw [pIdx.eq_def]; simp [h, h2, h3]
theorem pSub_one (f : Nat) (ts r1 : List Tok) (i : Idx) (h : pIdx f ts = some (i, .rbrk :: r1)) :
    pSub (f+1) ts = some (.one i, r1) := by
  rw [pSub.eq_def]; simp [h]
theorem pSub_many (f : Nat) (ts r1 r2 : List Tok) (i : Idx) (t : Idxs) (h : pIdx f ts = some (i, .comma :: r1))
    (h2 : pIdxs f r1 = some (t, r2)) : pSub (f+1) ts = some (.many (.cons i t), r2) := by
  rw [pSub.eq_def]; simp [h, h2]
theorem pIdxs_nil (f : Nat) (r : List Tok) : pIdxs (f+1) (.rbrk :: r) = some (.nil, r) := by
  rw [pIdxs.eq_def]
theorem pIdxs_last (f : Nat) (t0 : Tok) (ts' r1 : List Tok) (i : Idx) (ht : t0 ≠ .rbrk)
    (h : pIdx f (t0 :: ts') = some (i, .rbrk :: r1)) : pIdxs (f+1) (t0 :: ts') = some (.cons i .nil, r1) := by
  rw [pIdxs.eq_def]
  cases t0 <;> simp_all
theorem pIdxs_more (f : Nat) (t0 : Tok) (ts' r1 r2 : List Tok) (i : Idx) (t : Idxs) (ht : t0 ≠ .rbrk)
    (h : pIdx f (t0 :: ts') = some (i, .comma :: r1)) (h2 : pIdxs f r1 = some (t, r2)) :
    pIdxs (f+1) (t0 :: ts') = some (.cons i t, r2) := by
  rw [pIdxs.eq_def]
  cases t0 <;> simp_all

/-! lambda parameters -/
theorem pParams_nil (f : Nat) (r : List Tok) : pParams (f+1) (.colon :: r) = some (.nil, r) := by
  rw [pParams.eq_def]
theorem pParams_plain_more (f : Nat) (n : String) (r r2 : List Tok) (t : Params) (h : pParams f r = some (t, r2)) :
    pParams (f+1) (.name n :: .comma :: r) = some (.plain n t, r2) := by
  rw [pParams.eq_def]; simp [h]
theorem pParams_plain_last (f : Nat) (n : String) (r : List Tok) :
    pParams (f+1) (.name n :: .colon :: r) = some (.plain n .nil, r) := by
  rw [pParams.eq_def]
theorem pParams_var_more (f : Nat) (n : String) (r r2 : List Tok) (t : Params) (h : pParams f r = some (t, r2)) :
    pParams (f+1) (.bin .mult :: .name n :: .comma :: r) = some (.var n t, r2) := by
  rw [pParams.eq_def]; simp [h]
theorem pParams_var_last (f : Nat) (n : String) (r : List Tok) :
    pParams (f+1) (.bin .mult :: .name n :: .colon :: r) = some (.var n .nil, r) := by
  rw [pParams.eq_def]
theorem pParams_kwvar_more (f : Nat) (n : String) (r r2 : List Tok) (t : Params) (h : pParams f r = some (t, r2)) :
    pParams (f+1) (.bin .pow :: .name n :: .comma :: r) = some (.kwvar n t, r2) := by
  rw [pParams.eq_def]; simp [h]
theorem pParams_kwvar_last (f : Nat) (n : String) (r : List Tok) :
    pParams (f+1) (.bin .pow :: .name n :: .colon :: r) = some (.kwvar n .nil, r) := by
  rw [pParams.eq_def]
theorem pParams_dflt_more (f : Nat) (n : String) (r r1 r2 : List Tok) (e : Expr) (t : Params)
    (h : pE f 16 r = some (e, .comma :: r1)) (h2 : pParams f r1 = some (t, r2)) :
    pParams (f+1) (.name n :: .assign :: r) = some (.dflt n e t, r2) := by
  rw [pParams.eq_def]; simp [h, h2]
theorem pParams_dflt_last (f : Nat) (n : String) (r r1 : List Tok) (e : Expr) (h : pE f 16 r = some (e, .colon :: r1)) :
    pParams (f+1) (.name n :: .assign :: r) = some (.dflt n e .nil, r1) := by
  rw [pParams.eq_def]; simp [h]

/-! key/value pairs -/
theorem pKVs_nil (f : Nat) (r : List Tok) : pKVs (f+1) (.rbrc :: r) = some (.nil, r) := by
  rw [pKVs.eq_def]
theorem pKVs_more (f : Nat) (t0 : Tok) (ts' r1 r2 r3 : List Tok) (k v : Expr) (t : KVs) (ht : startTok t0 = true)
    (h : pE f 16 (t0 :: ts') = some (k, .colon :: r1)) (h2 : pE f 16 r1 = some (v, .comma :: r2))
    (h3 : pKVs f r2 = some (t, r3)) : pKVs (f+1) (t0 :: ts') = some (.cons k v t, r3) := by
  rw [pKVs.eq_def]
  cases t0 <;> simp [startTok] at ht <;> simp [h, h2, h3]
theorem pKVs_last (f : Nat) (t0 : Tok) (ts' r1 r2 : List Tok) (k v : Expr) (ht : startTok t0 = true)
    (h : pE f 16 (t0 :: ts') = some (k, .colon :: r1)) (h2 : pE f 16 r1 = some (v, .rbrc :: r2)) :
    pKVs (f+1) (t0 :: ts') = some (.cons k v .nil, r2) := by
  rw [pKVs.eq_def]
  cases t0 <;> simp [startTok] at ht <;> simp [h, h2]

end PonyVerif.Model.PyPrint
