/-
  C04 — coverage: every name a query does not bind lies inside a member of `PreTranslator(...).externals`.
-/
import PonyVerif.Lemmas.PreTrans
namespace PonyVerif.Model.PreTrans

mutual
/-- labels of the nodes the PreTranslator visits below (and including) a node: a Lambda's body only -/
def labsOf : Node → List Nat
  | .mk kind lab _ ch => lab :: (match kind with | .lambda => labsBody ch | _ => labsAll ch)
def labsAll : Nodes → List Nat
  | .nil => []
  | .cons n t => labsOf n ++ labsAll t
def labsBody : Nodes → List Nat
  | .nil => []
  | .cons n .nil => labsOf n
  | .cons _ (.cons m t) => labsBody (.cons m t)
end

mutual
/-- positions of the names that no enclosing context (query variable, lambda parameter) binds -/
def freeLeaves (ctx : List String) : Node → List Nat
  | .mk kind lab names ch =>
    match kind with
    | .lambda => freeBody (names ++ ctx) ch
    | .nameLoad => (if names.any (fun n => ctx.contains n) then [] else [lab]) ++ freeAll ctx ch
    | _ => freeAll ctx ch
def freeAll (ctx : List String) : Nodes → List Nat
  | .nil => []
  | .cons n t => freeLeaves ctx n ++ freeAll ctx t
def freeBody (ctx : List String) : Nodes → List Nat
  | .nil => []
  | .cons n .nil => freeLeaves ctx n
  | .cons _ (.cons m t) => freeBody ctx (.cons m t)
end

mutual
/-- positions that lie inside a node whose label is in `E` -/
def coverSet (E : List Nat) : Node → List Nat
  | .mk kind lab names ch =>
    if E.contains lab then labsOf (.mk kind lab names ch)
    else (match kind with | .lambda => coverBody E ch | _ => coverAll E ch)
def coverAll (E : List Nat) : Nodes → List Nat
  | .nil => []
  | .cons n t => coverSet E n ++ coverAll E t
def coverBody (E : List Nat) : Nodes → List Nat
  | .nil => []
  | .cons n .nil => coverSet E n
  | .cons _ (.cons m t) => coverBody E (.cons m t)
end

theorem classifyBody_cons2 (sf : Bool) (ctx : List String) (a m : Node) (t : Nodes) :
    classifyBody sf ctx (.cons a (.cons m t)) = classifyBody sf ctx (.cons m t) := by
  simp [classifyBody]

/-! monotonicity of `coverSet` in the set of labels -/
mutual
theorem cover_mono (E E' : List Nat) (h : ∀ x, x ∈ E → x ∈ E') : (n : Node) → ∀ l, l ∈ coverSet E n → l ∈ coverSet E' n
  | .mk kind lab names ch, l, hl => by
    simp only [coverSet] at hl ⊢
    by_cases h1 : E.contains lab = true
    · have : E'.contains lab = true := by simp at h1 ⊢; exact h lab h1
      simp only [h1, if_true] at hl; simp only [this, if_true]; exact hl
    · simp only [h1] at hl
      by_cases h2 : E'.contains lab = true
      · simp only [h2, if_true]
        cases kind <;> simp only [labsOf, List.mem_cons] <;> right
        case lambda => exact coverBody_sub E ch l (by simpa using hl)
        all_goals exact coverAll_sub E ch l (by simpa using hl)
      · simp only [h2]
        cases kind
        case lambda => exact coverBody_mono E E' h ch l (by simpa using hl)
        all_goals exact coverAll_mono E E' h ch l (by simpa using hl)
theorem coverAll_mono (E E' : List Nat) (h : ∀ x, x ∈ E → x ∈ E') : (ns : Nodes) → ∀ l, l ∈ coverAll E ns → l ∈ coverAll E' ns
  | .nil, l, hl => by simp [coverAll] at hl
  | .cons n t, l, hl => by
    simp only [coverAll, List.mem_append] at hl ⊢
    rcases hl with hl | hl
    · exact Or.inl (cover_mono E E' h n l hl)
    · exact Or.inr (coverAll_mono E E' h t l hl)
theorem coverBody_mono (E E' : List Nat) (h : ∀ x, x ∈ E → x ∈ E') : (ns : Nodes) → ∀ l, l ∈ coverBody E ns → l ∈ coverBody E' ns
  | .nil, l, hl => by simp [coverBody] at hl
  | .cons n .nil, l, hl => by simp only [coverBody] at hl ⊢; exact cover_mono E E' h n l hl
  | .cons _ (.cons m t), l, hl => by simp only [coverBody] at hl ⊢; exact coverBody_mono E E' h (.cons m t) l hl
/-- what is covered lies in the tree -/
theorem cover_sub (E : List Nat) : (n : Node) → ∀ l, l ∈ coverSet E n → l ∈ labsOf n
  | .mk kind lab names ch, l, hl => by
    simp only [coverSet] at hl
    split at hl
    · exact hl
    · cases kind <;> simp only [labsOf, List.mem_cons] <;> right
      case lambda => exact coverBody_sub E ch l hl
      all_goals exact coverAll_sub E ch l hl
theorem coverAll_sub (E : List Nat) : (ns : Nodes) → ∀ l, l ∈ coverAll E ns → l ∈ labsAll ns
  | .nil, l, hl => by simp [coverAll] at hl
  | .cons n t, l, hl => by
    simp only [coverAll, labsAll, List.mem_append] at hl ⊢
    rcases hl with hl | hl
    · exact Or.inl (cover_sub E n l hl)
    · exact Or.inr (coverAll_sub E t l hl)
theorem coverBody_sub (E : List Nat) : (ns : Nodes) → ∀ l, l ∈ coverBody E ns → l ∈ labsBody ns
  | .nil, l, hl => by simp [coverBody] at hl
  | .cons n .nil, l, hl => by simp only [coverBody, labsBody] at hl ⊢; exact cover_sub E n l hl
  | .cons _ (.cons m t), l, hl => by simp only [coverBody, labsBody] at hl ⊢; exact coverBody_sub E (.cons m t) l hl
end


mutual
theorem free_sub (ctx : List String) : (n : Node) → ∀ l, l ∈ freeLeaves ctx n → l ∈ labsOf n
  | .mk kind lab names ch, l, hl => by
    cases kind <;> simp only [freeLeaves, labsOf, List.mem_cons, List.mem_append] at hl ⊢
    case lambda => exact Or.inr (freeBody_sub _ ch l hl)
    case nameLoad =>
      rcases hl with hl | hl
      · split at hl <;> simp_all
      · exact Or.inr (freeAll_sub ctx ch l hl)
    all_goals exact Or.inr (freeAll_sub ctx ch l hl)
theorem freeAll_sub (ctx : List String) : (ns : Nodes) → ∀ l, l ∈ freeAll ctx ns → l ∈ labsAll ns
  | .nil, l, hl => by simp [freeAll] at hl
  | .cons n t, l, hl => by
    simp only [freeAll, labsAll, List.mem_append] at hl ⊢
    rcases hl with hl | hl
    · exact Or.inl (free_sub ctx n l hl)
    · exact Or.inr (freeAll_sub ctx t l hl)
theorem freeBody_sub (ctx : List String) : (ns : Nodes) → ∀ l, l ∈ freeBody ctx ns → l ∈ labsBody ns
  | .nil, l, hl => by simp [freeBody] at hl
  | .cons n .nil, l, hl => by simp only [freeBody, labsBody] at hl ⊢; exact free_sub ctx n l hl
  | .cons _ (.cons m t), l, hl => by simp only [freeBody, labsBody] at hl ⊢; exact freeBody_sub ctx (.cons m t) l hl
end

/-- `node.constant` in closed form -/
def constFlag (sf : Bool) (ctx : List String) (kind : Kind) (ch : Nodes) : Bool :=
  match kind with
  | .const => true
  | .slice => ch.isNil
  | .keyword => (classifyAll sf ctx ch).firstConst
  | _ => false

/-- `classify` of a node that is not a Lambda, in closed form -/
theorem classify_eq (sf : Bool) (ctx : List String) (kind : Kind) (lab : Nat) (names : List String) (ch : Nodes) (hk : kind ≠ .lambda) :
    classify sf ctx (.mk kind lab names ch) =
      if (extFlag sf ctx kind names ch && !constFlag sf ctx kind ch) = true then
        { ext := true, const := false,
          exts := ((classifyAll sf ctx ch).exts.filter (fun m => !ch.labs.contains m.lab)) ++
            [{ lab := lab, demote := nonExternalizable kind, promo := (classifyAll sf ctx ch).promo }] }
      else { ext := extFlag sf ctx kind names ch, const := constFlag sf ctx kind ch, exts := (classifyAll sf ctx ch).exts } := by
  cases kind
  case lambda => exact absurd rfl hk
  case nameLoad =>
    by_cases hb : names.any (fun n => ctx.contains n) = true
    · simp only [classify, extFlag, constFlag, hb, if_true]
    · simp only [classify, extFlag, constFlag, hb]; simp
  case slice =>
    by_cases hn : ch.isNil = true
    · simp [classify, extFlag, constFlag, hn]
    · simp [classify, extFlag, constFlag, hn]
  case starred => cases sf <;> simp [classify, extFlag, constFlag]
  all_goals simp [classify, extFlag, constFlag]

/- the externals a subtree leaves are labels of that subtree -/
mutual
theorem exts_sub (sf : Bool) (ctx : List String) : (n : Node) → ∀ m, m ∈ (classify sf ctx n).exts → m.lab ∈ labsOf n
  | .mk kind lab names ch, m, hm => by
    by_cases hk : kind = .lambda
    · subst hk
      simp only [classify] at hm
      simp only [labsOf, List.mem_cons]; exact Or.inr (extsBody_sub sf _ ch m hm)
    · rw [classify_eq sf ctx kind lab names ch hk] at hm
      have hl : labsOf (.mk kind lab names ch) = lab :: labsAll ch := by cases kind <;> simp_all [labsOf]
      rw [hl, List.mem_cons]
      split at hm
      · simp only [List.mem_append, List.mem_filter, List.mem_singleton] at hm
        rcases hm with hm | hm
        · exact Or.inr (extsAll_sub sf ctx ch m hm.1)
        · subst hm; exact Or.inl rfl
      · exact Or.inr (extsAll_sub sf ctx ch m hm)
theorem extsAll_sub (sf : Bool) (ctx : List String) : (ns : Nodes) → ∀ m, m ∈ (classifyAll sf ctx ns).exts → m.lab ∈ labsAll ns
  | .nil, m, hm => by simp [classifyAll] at hm
  | .cons n t, m, hm => by
    simp only [classifyAll, labsAll, List.mem_append] at hm ⊢
    rcases hm with hm | hm
    · exact Or.inl (exts_sub sf ctx n m hm)
    · exact Or.inr (extsAll_sub sf ctx t m hm)
theorem extsBody_sub (sf : Bool) (ctx : List String) : (ns : Nodes) → ∀ m, m ∈ classifyBody sf ctx ns → m.lab ∈ labsBody ns
  | .nil, m, hm => by simp [classifyBody] at hm
  | .cons n .nil, m, hm => by simp only [classifyBody, labsBody] at hm ⊢; exact exts_sub sf ctx n m hm
  | .cons a (.cons b t), m, hm => by
    rw [classifyBody_cons2] at hm; simp only [labsBody]; exact extsBody_sub sf ctx (.cons b t) m hm
end


theorem final_append (A B : List Member) : final (A ++ B) = final A ++ final B := by simp [final]
theorem mem_final_of_mem {m : Member} {E : List Member} (hm : m ∈ E) {x : Nat} (hx : x ∈ finalOf m) : x ∈ final E := by
  simp only [final, List.mem_flatMap]; exact ⟨m, hm, hx⟩
theorem lab_mem_labsOf (n : Node) : n.lab ∈ labsOf n := by
  cases n with | mk k l ns c => simp [labsOf, Node.lab]
theorem labs_sub_labsAll : (ns : Nodes) → ∀ x, x ∈ ns.labs → x ∈ labsAll ns
  | .nil, x, hx => by simp [Nodes.labs] at hx
  | .cons n t, x, hx => by
    simp only [Nodes.labs, List.mem_cons] at hx
    simp only [labsAll, List.mem_append]
    rcases hx with rfl | hx
    · exact Or.inl (lab_mem_labsOf n)
    · exact Or.inr (labs_sub_labsAll t x hx)
theorem labsOf_nonlambda (kind : Kind) (lab : Nat) (names : List String) (ch : Nodes) (hk : kind ≠ .lambda) :
    labsOf (.mk kind lab names ch) = lab :: labsAll ch := by cases kind <;> simp_all [labsOf]
theorem cover_self (E : List Nat) (n : Node) (h : n.lab ∈ E) : coverSet E n = labsOf n := by
  cases n with | mk k l ns c => simp only [Node.lab] at h; simp [coverSet, h]
theorem cover_lift_all (E : List Nat) (kind : Kind) (lab : Nat) (names : List String) (ch : Nodes) (hk : kind ≠ .lambda)
    (l : Nat) (hl : l ∈ coverAll E ch) : l ∈ coverSet E (.mk kind lab names ch) := by
  simp only [coverSet]
  split
  · rw [labsOf_nonlambda kind lab names ch hk]; exact List.mem_cons_of_mem _ (coverAll_sub E ch l hl)
  · cases kind <;> simp_all
theorem cover_lift_body (E : List Nat) (lab : Nat) (names : List String) (ch : Nodes)
    (l : Nat) (hl : l ∈ coverBody E ch) : l ∈ coverSet E (.mk .lambda lab names ch) := by
  simp only [coverSet]
  split
  · simp only [labsOf]; exact List.mem_cons_of_mem _ (coverBody_sub E ch l hl)
  · exact hl

/-- a subtree whose own label is among the externals it leaves is external and not constant (labels being distinct) -/
theorem self_in_exts (sf : Bool) (ctx : List String) (n : Node) (hnd : (labsOf n).Nodup) (m : Member) (hm : m ∈ (classify sf ctx n).exts)
    (hl : m.lab = n.lab) : ((classify sf ctx n).ext && !(classify sf ctx n).const) = true := by
  cases n with
  | mk kind lab names ch =>
    simp only [Node.lab] at hl
    by_cases hk : kind = .lambda
    · subst hk
      simp only [classify] at hm
      have := extsBody_sub sf _ ch m hm
      simp only [labsOf, List.nodup_cons] at hnd
      rw [hl] at this; exact absurd this hnd.1
    · rw [classify_eq sf ctx kind lab names ch hk] at hm ⊢
      split
      · rfl
      · rename_i hf
        simp only [hf] at hm
        have := extsAll_sub sf ctx ch m (by simpa using hm)
        rw [labsOf_nonlambda kind lab names ch hk, List.nodup_cons] at hnd
        rw [hl] at this; exact absurd this hnd.1


/-- the set the demotion pass leaves for the children of a demoted node -/
def keptOf (sf : Bool) (ctx : List String) (F : List Nat) (cs : Nodes) : List Nat :=
  final ((classifyAll sf ctx cs).exts.filter (fun m => !F.contains m.lab)) ++ (classifyAll sf ctx cs).promo

theorem keptOf_cons (sf : Bool) (ctx : List String) (F : List Nat) (c : Node) (t : Nodes) (x : Nat) :
    x ∈ keptOf sf ctx F (.cons c t) ↔
      x ∈ final ((classify sf ctx c).exts.filter (fun m => !F.contains m.lab)) ∨
      (((classify sf ctx c).ext && !(classify sf ctx c).const) = true ∧ x = c.lab) ∨ x ∈ keptOf sf ctx F t := by
  simp only [keptOf, classifyAll, List.filter_append, final_append, List.mem_append]
  by_cases h : ((classify sf ctx c).ext && !(classify sf ctx c).const) = true
  · simp only [h, if_true, List.mem_singleton, true_and]; grind
  · simp only [h, if_false, List.not_mem_nil, false_and]; grind

mutual
theorem covNode (sf : Bool) (ctx : List String) : (n : Node) → (labsOf n).Nodup → ∀ l, l ∈ freeLeaves ctx n →
    l ∈ coverSet (final (classify sf ctx n).exts) n
  | .mk kind lab names ch, hnd, l, hl => by
    by_cases hk : kind = .lambda
    · subst hk
      simp only [freeLeaves] at hl
      simp only [labsOf, List.nodup_cons] at hnd
      simp only [classify]
      exact cover_lift_body _ lab names ch l (covBody sf (names ++ ctx) ch hnd.2 l hl)
    · have hlabs := labsOf_nonlambda kind lab names ch hk
      have hnd' : (labsAll ch).Nodup := by rw [hlabs, List.nodup_cons] at hnd; exact hnd.2
      rw [classify_eq sf ctx kind lab names ch hk]
      by_cases hf : (extFlag sf ctx kind names ch && !constFlag sf ctx kind ch) = true
      · simp only [hf, if_true]
        by_cases hd : nonExternalizable kind = true
        · -- demoted: replaced by its external children; what its other children left stays
          have hfree : l ∈ freeAll ctx ch := by
            cases kind <;> simp_all [freeLeaves, nonExternalizable]
          have hK := covK sf ctx ch ch.labs hnd' (fun x _ hx => hx) l hfree
          apply cover_lift_all _ kind lab names ch hk
          refine coverAll_mono _ _ ?_ ch l hK
          intro x hx
          simp only [keptOf, List.mem_append] at hx
          simp only [final_append, List.mem_append]
          rcases hx with hx | hx
          · exact Or.inl hx
          · exact Or.inr (by simp [final, finalOf, hd, hx])
        · -- stays a member itself
          have : lab ∈ final ((classifyAll sf ctx ch).exts.filter (fun m => !ch.labs.contains m.lab) ++
              [{ lab := lab, demote := nonExternalizable kind, promo := (classifyAll sf ctx ch).promo }]) := by
            simp [final, finalOf, hd]
          rw [cover_self _ _ (by simpa [Node.lab] using this)]
          exact free_sub ctx _ l hl
      · simp only [hf]
        have hfree : l ∈ freeAll ctx ch := by
          cases kind
          case nameLoad =>
            simp only [freeLeaves, List.mem_append] at hl
            rcases hl with hl | hl
            · exfalso
              split at hl
              · simp at hl
              · rename_i hb
                apply hf
                have hb' : (names.any fun n => ctx.contains n) = false := by simpa using hb
                simp only [extFlag, constFlag, hb']
                simp
            · exact hl
          all_goals simp_all [freeLeaves]
        exact cover_lift_all _ kind lab names ch hk l (covAll sf ctx ch hnd' l hfree)
theorem covAll (sf : Bool) (ctx : List String) : (cs : Nodes) → (labsAll cs).Nodup → ∀ l, l ∈ freeAll ctx cs →
    l ∈ coverAll (final (classifyAll sf ctx cs).exts) cs
  | .nil, _, l, hl => by simp [freeAll] at hl
  | .cons c t, hnd, l, hl => by
    simp only [labsAll, List.nodup_append] at hnd
    simp only [freeAll, List.mem_append] at hl
    simp only [classifyAll, coverAll, final_append, List.mem_append]
    rcases hl with hl | hl
    · exact Or.inl (cover_mono _ _ (fun x hx => List.mem_append_left _ hx) c l (covNode sf ctx c hnd.1 l hl))
    · exact Or.inr (coverAll_mono _ _ (fun x hx => List.mem_append_right _ hx) t l (covAll sf ctx t hnd.2.1 l hl))
theorem covK (sf : Bool) (ctx : List String) : (cs : Nodes) → ∀ (F : List Nat), (labsAll cs).Nodup →
    (∀ x, x ∈ labsAll cs → x ∈ F → x ∈ cs.labs) → ∀ l, l ∈ freeAll ctx cs → l ∈ coverAll (keptOf sf ctx F cs) cs
  | .nil, _, _, _, l, hl => by simp [freeAll] at hl
  | .cons c t, F, hnd, hsep, l, hl => by
    simp only [labsAll, List.nodup_append] at hnd
    obtain ⟨hndc, hndt, hdis⟩ := hnd
    simp only [freeAll, List.mem_append] at hl
    simp only [coverAll, List.mem_append]
    rcases hl with hl | hl
    · left
      by_cases he : ((classify sf ctx c).ext && !(classify sf ctx c).const) = true
      · have : c.lab ∈ keptOf sf ctx F (.cons c t) := (keptOf_cons sf ctx F c t c.lab).2 (Or.inr (Or.inl ⟨he, rfl⟩))
        rw [cover_self _ _ this]; exact free_sub ctx c l hl
      · refine cover_mono _ _ ?_ c l (covNode sf ctx c hndc l hl)
        intro x hx
        refine (keptOf_cons sf ctx F c t x).2 (Or.inl ?_)
        -- nothing the child left is filtered out: its members are strictly inside it
        have hfil : (classify sf ctx c).exts.filter (fun m => !F.contains m.lab) = (classify sf ctx c).exts := by
          apply List.filter_eq_self.2
          intro m hm
          have h1 := exts_sub sf ctx c m hm
          simp only [Bool.not_eq_true', List.contains_eq_mem, decide_eq_false_iff_not]
          intro hF
          have h2 := hsep m.lab (by simp only [labsAll, List.mem_append]; exact Or.inl h1) hF
          simp only [Nodes.labs, List.mem_cons] at h2
          rcases h2 with h2 | h2
          · exact he (self_in_exts sf ctx c hndc m hm h2)
          · exact hdis m.lab h1 m.lab (labs_sub_labsAll t _ h2) rfl
        rw [hfil]; exact hx
    · right
      refine coverAll_mono _ _ ?_ t l (covK sf ctx t F hndt ?_ l hl)
      · intro x hx; exact (keptOf_cons sf ctx F c t x).2 (Or.inr (Or.inr hx))
      · intro x hx hF
        have h2 := hsep x (by simp only [labsAll, List.mem_append]; exact Or.inr hx) hF
        simp only [Nodes.labs, List.mem_cons] at h2
        rcases h2 with h2 | h2
        · exact absurd rfl (hdis c.lab (lab_mem_labsOf c) x hx |> fun h => by rw [h2] at h; exact h)
        · exact h2
theorem covBody (sf : Bool) (ctx : List String) : (cs : Nodes) → (labsBody cs).Nodup → ∀ l, l ∈ freeBody ctx cs →
    l ∈ coverBody (final (classifyBody sf ctx cs)) cs
  | .nil, _, l, hl => by simp [freeBody] at hl
  | .cons n .nil, hnd, l, hl => by
    simp only [labsBody, freeBody, classifyBody, coverBody] at hnd hl ⊢
    exact covNode sf ctx n hnd l hl
  | .cons a (.cons b t), hnd, l, hl => by
    simp only [labsBody, freeBody, coverBody] at hnd hl ⊢
    rw [classifyBody_cons2]
    exact covBody sf ctx (.cons b t) hnd l hl
end

/-- every name the query does not bind lies inside a member of `PreTranslator(...).externals` -/
theorem coverage (sf : Bool) (ctx : List String) (n : Node) (hnd : (labsOf n).Nodup) (l : Nat) (hl : l ∈ freeLeaves ctx n) :
    l ∈ coverSet (externals sf ctx n) n :=
  covNode sf ctx n hnd l hl

end PonyVerif.Model.PreTrans
