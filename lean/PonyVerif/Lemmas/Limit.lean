/- helper lemmas for C24 (pointwise characterisations of LIMIT/OFFSET windows and Python slices) -/
import PonyVerif.Model.Limit
namespace PonyVerif.Model.Limit

theorem window_getElem? (l o : Option Nat) (R : List α) (i : Nat) :
    (window (l, o) R)[i]? = if (match l with | none => true | some l' => decide (i < l')) then R[o.getD 0 + i]? else none := by
  cases l <;> simp [window, List.getElem?_take, List.getElem?_drop]

theorem pySlice_getElem? (R : List α) (a b : Option Nat) (i : Nat) :
    (pySlice R a b)[i]? = if (match b with | none => true | some b' => decide (a.getD 0 + i < b')) then R[a.getD 0 + i]? else none := by
  cases b <;> simp [pySlice, List.getElem?_take, List.getElem?_drop]

end PonyVerif.Model.Limit
