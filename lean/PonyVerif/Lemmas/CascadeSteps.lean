/-
  Lemmas/CascadeSteps.lean — the non-recursive steps of `_delete_` (reverse_remove, Attribute.__set__(None), Set.__set__(()))
  keep the invariants of Lemmas/Cascade.lean.
-/
import PonyVerif.Lemmas.Cascade
namespace PonyVerif.Model.Cascade

theorem nbeq {p x : Nat} (h : ¬ p = x) : (p == x) = false := by simpa using h

section steps
variable {sch : Schema} {ct : ClassTable} {Q : ObjId → Prop}

/-- what the callers of a direct step get -/
structure StepOk (sch : Schema) (Q : ObjId → Prop) (s s' : Store) : Prop where
  trans : Trans sch Q s s'
  agree : AgreeX sch Q s'
  nodang : NoDangX sch Q s'
  alive : s'.alive = s.alive

/-- `reverse.reverse_remove((x,), o)` in the reference loop of `o`: `o` leaves the collection `c` of `x` -/
theorem reverseRemove1_ok {c : Attr} {dc : Side} {x o : ObjId} {s s' : Store}
    (hc : sch.side c = some dc) (hdc : dc.isColl = true) (hrc : sch.isCollAttr (sch.rev c) = false) (hQ : Q o)
    (h : reverseRemove1 c x o s = .ok s') (hA : AgreeX sch Q s) (hN : NoDangX sch Q s) :
    StepOk sch Q s s' ∧ hasB sch s' x c o = false := by
  unfold reverseRemove1 at h
  split at h
  · cases h
    have hh := fun p b q => hasB_setMemFalse (sch := sch) (s := s) hc hdc x o p b q
    obtain ⟨h1, h2, h3⟩ := removal (sch := sch) (P := Q) (s := s) (s' := s.setMem x c o false)
      (X := fun p b q => decide (p = x) && decide (b = c) && decide (q = o)) rfl rfl rfl hh
      (by intro p b q hx _; simp at hx; obtain ⟨⟨rfl, rfl⟩, rfl⟩ := hx; exact Or.inl hQ)
      (by intro p b q d hx _ hb hd; simp at hx; obtain ⟨⟨rfl, rfl⟩, rfl⟩ := hx; rw [hc] at hb; cases hb; rw [hdc] at hd; cases hd)
      (by intro p b q hx _ _; simp at hx; obtain ⟨⟨rfl, rfl⟩, rfl⟩ := hx; exact ⟨hQ, hrc⟩) hA hN
    refine ⟨⟨h1, h2, h3, rfl⟩, ?_⟩
    rw [hh]; simp
  · cases h

/-- `reverse.__set__(x, None)` in the one-to-one branch of the reference loop of `o`: `x` forgets `o` -/
theorem clearRef_o2o_ok {a : Attr} {d rd : Side} {x o : ObjId} {s s' : Store}
    (ha : sch.side a = some d) (hd : d.isColl = false) (hra : sch.side (sch.rev a) = some rd) (hrd : rd.isColl = false)
    (hx : s.ref x a = some o) (hQ : Q o)
    (h : clearRef sch x a s = .ok s') (hA : AgreeX sch Q s) (hN : NoDangX sch Q s) :
    StepOk sch Q s s' ∧ hasB sch s' x a o = false := by
  unfold clearRef at h
  split at h
  · cases h
  · simp only [ha, hra] at h
    split at h
    · cases h
    · rename_i hreq
      simp only [hx, hrd] at h
      simp at h
      subst h
      have hh := fun p b q => hasB_clearRef (sch := sch) (s := s) ha hd hx p b q
      have hica : sch.isCollAttr (sch.rev a) = false := by simp [Schema.isCollAttr, hra, hrd]
      obtain ⟨h1, h2, h3⟩ := removal (sch := sch) (P := Q) (s := s) (s' := s.setRef x a none)
        (X := fun p b q => decide (p = x) && decide (b = a) && decide (q = o)) rfl rfl rfl hh
        (by intro p b q hx' _; simp at hx'; obtain ⟨⟨rfl, rfl⟩, rfl⟩ := hx'; exact Or.inl hQ)
        (by intro p b q d' hx' _ hb _; simp at hx'; obtain ⟨⟨rfl, rfl⟩, rfl⟩ := hx'; rw [ha] at hb; cases hb; simpa using hreq)
        (by intro p b q hx' _ _; simp at hx'; obtain ⟨⟨rfl, rfl⟩, rfl⟩ := hx'; exact ⟨hQ, hica⟩) hA hN
      refine ⟨⟨h1, h2, h3, rfl⟩, ?_⟩
      rw [hh]; simp

/-! ### `Set.__set__(obj, (), undo_funcs)` -/

/-- the many-to-many loop `reverse.reverse_remove(to_remove, obj)` as a function of the store -/
theorem revRemoveLoop {c' : Attr} {o : ObjId} : ∀ (items : List ObjId) (s s1 : Store),
    iterE (fun x => reverseRemove1 c' x o) items s = .ok s1 →
    s1.n = s.n ∧ s1.ent = s.ent ∧ s1.alive = s.alive ∧ s1.ref = s.ref ∧
    ∀ p b q, s1.mem p b q = (s.mem p b q && !(decide (b = c') && decide (q = o) && items.contains p)) := by
  intro items
  induction items with
  | nil => intro s s1 h; cases h; simp
  | cons x xs ih =>
    intro s s1 h
    obtain ⟨s0, h0, h1⟩ := iterE_cons_ok h
    unfold reverseRemove1 at h0
    split at h0
    · cases h0
      obtain ⟨e1, e2, e3, e4, e5⟩ := ih _ _ h1
      refine ⟨e1, e2, e3, e4, ?_⟩
      intro p b q
      rw [e5]
      simp only [Store.setMem, List.contains_cons]
      by_cases hpx : p = x
      · subst hpx
        by_cases hb : b = c' <;> by_cases hq : q = o <;> simp_all
      · simp [hpx, nbeq hpx]
    · cases h0

/-- the one-to-many loop `for item in to_remove: reverse.__set__(item, None)` as a function of the store, when every item
    still points to `o` -/
theorem clearLoop {c : Attr} {rd dc : Side} {o : ObjId} (hrc : sch.side (sch.rev c) = some rd) (hc : sch.side c = some dc)
    (hdc : dc.isColl = true) : ∀ (items : List ObjId) (s s1 : Store), items.Nodup →
    (∀ y ∈ items, s.ref y (sch.rev c) = some o) →
    iterE (fun item => clearRef sch item (sch.rev c)) items s = .ok s1 →
    rd.required = false ∧ s1.n = s.n ∧ s1.ent = s.ent ∧ s1.alive = s.alive ∧
    (∀ p b, s1.ref p b = if b = sch.rev c ∧ items.contains p = true then none else s.ref p b) ∧
    (∀ p b q, s1.mem p b q = (s.mem p b q && !(decide (p = o) && decide (b = c) && items.contains q))) ∨ items = [] := by
  intro items
  induction items with
  | nil => intro s s1 _ _ h; exact Or.inr rfl
  | cons x xs ih =>
    intro s s1 hnd hall h
    left
    obtain ⟨s0, h0, h1⟩ := iterE_cons_ok h
    have hx := hall x (by simp)
    unfold clearRef at h0
    split at h0
    · cases h0
    · simp only [hrc, sch.rev_rev, hc] at h0
      split at h0
      · cases h0
      · rename_i hreq
        simp only [hx, hdc, if_true] at h0
        unfold reverseRemove1 at h0
        split at h0
        · cases h0
          have hnd' := (List.nodup_cons.mp hnd)
          have hall' : ∀ y ∈ xs, ((s.setRef x (sch.rev c) none).setMem o c x false).ref y (sch.rev c) = some o := by
            intro y hy
            have : y ≠ x := fun e => hnd'.1 (e ▸ hy)
            simp only [Store.setMem, Store.setRef, this, false_and, if_false]
            exact hall y (by simp [hy])
          rcases ih _ _ hnd'.2 hall' h1 with ⟨_, e1, e2, e3, e4, e5⟩ | rfl
          · refine ⟨by simpa using hreq, e1, e2, e3, ?_, ?_⟩
            · intro p b
              rw [e4]
              simp only [Store.setMem, Store.setRef, List.contains_cons]
              by_cases hb : b = sch.rev c <;> by_cases hpx : p = x <;> by_cases hpc : xs.contains p = true <;> simp_all
            · intro p b q
              rw [e5]
              simp only [Store.setMem, Store.setRef, List.contains_cons]
              by_cases hp : p = o <;> by_cases hb : b = c <;> by_cases hqx : q = x <;> by_cases hqc : xs.contains q = true <;> simp_all
          · cases h1
            refine ⟨by simpa using hreq, rfl, rfl, rfl, ?_, ?_⟩
            · intro p b
              simp only [Store.setMem, Store.setRef, List.contains_cons, List.contains_nil, Bool.or_false]
              by_cases hb : b = sch.rev c <;> by_cases hpx : p = x <;> simp_all
            · intro p b q
              simp only [Store.setMem, Store.setRef, List.contains_cons, List.contains_nil, Bool.or_false]
              by_cases hp : p = o <;> by_cases hb : b = c <;> by_cases hqx : q = x <;> simp_all
        · cases h0

theorem mem_members {s : Store} {o : ObjId} {c : Attr} {x : ObjId} : x ∈ s.members o c ↔ x < s.n ∧ s.mem o c x = true := by
  unfold Store.members
  rw [List.mem_filter, List.mem_range]

theorem members_nodup (s : Store) (o : ObjId) (c : Attr) : (s.members o c).Nodup := by
  unfold Store.members
  exact List.filter_sublist.nodup List.nodup_range

/-- `attr.__set__(obj, (), undo_funcs)` for a collection without cascade_delete: every link of the collection goes, on both sides -/
theorem setCollEmpty_ok {c : Attr} {dc : Side} {o : ObjId} {s s' : Store}
    (hc : sch.side c = some dc) (hdc : dc.isColl = true) (hcasc : dc.cascade = false) (hQ : Q o)
    (h : setCollEmpty sch o c s = .ok s') (hR : Range sch ct s) (hA : AgreeX sch Q s) (hN : NoDangX sch Q s) :
    StepOk sch Q s s' ∧ ∀ q, hasB sch s' o c q = false := by
  unfold setCollEmpty at h
  split at h
  · cases h
  · rename_i hal
    have hal' : s.alive o = true := by simpa using hal
    split at h
    · rename_i rd hrd
      simp only at h
      split at h
      · -- nothing to remove
        rename_i hemp
        cases h
        refine ⟨⟨Trans.refl _ _ _, hA, hN, rfl⟩, ?_⟩
        intro q
        cases hq : hasB sch s o c q with
        | false => rfl
        | true =>
          have hlt := hR.lt o c q hq
          rw [hasB_coll_eq hc hdc] at hq
          have : q ∈ s.members o c := mem_members.mpr ⟨hlt, hq⟩
          have hnil : s.members o c = [] := by simpa using hemp
          rw [hnil] at this; cases this
      · rename_i hne
        split at h
        · rename_i s1 hr
          cases h
          have hicc : sch.isCollAttr c = true := by simp [Schema.isCollAttr, hc, hdc]
          -- the characterisation of the final store, the same for both kinds
          have key : (rd.isColl = false → rd.required = false) ∧ (s1.clearRow o c).n = s.n ∧ (s1.clearRow o c).ent = s.ent ∧
              (s1.clearRow o c).alive = s.alive ∧
              ∀ p b q, hasB sch (s1.clearRow o c) p b q = (hasB sch s p b q &&
                !((decide (b = sch.rev c) && decide (q = o) && (s.members o c).contains p) || (decide (p = o) && decide (b = c)))) := by
            by_cases hrdc : rd.isColl = true
            · -- many-to-many
              simp only [hrdc, Bool.not_true, Bool.false_eq_true, if_false] at hr
              obtain ⟨e1, e2, e3, e4, e5⟩ := revRemoveLoop _ _ _ hr
              refine ⟨(by intro hf; rw [hrdc] at hf; cases hf), e1, e2, e3, ?_⟩
              intro p b q
              unfold hasB
              cases hb : sch.side b with
              | none => simp
              | some e =>
                simp only
                by_cases hec : e.isColl = true
                · simp only [hec, if_true, Store.clearRow, e5]
                  by_cases hp : p = o <;> by_cases hbc : b = c <;> by_cases hbr : b = sch.rev c <;> by_cases hq : q = o <;> simp_all
                · have hec' : e.isColl = false := by simpa using hec
                  simp only [hec', Store.clearRow, e4]
                  have hne1 : b ≠ c := by
                    intro heq; subst heq; rw [hc] at hb; cases hb; rw [hdc] at hec'; cases hec'
                  have hne2 : b ≠ sch.rev c := by
                    intro heq; subst heq; rw [hrd] at hb; cases hb; rw [hrdc] at hec'; cases hec'
                  simp_all
            · -- one-to-many
              have hrd' : rd.isColl = false := by simpa using hrdc
              simp only [hrd', Bool.not_false, if_true] at hr
              have hall : ∀ y ∈ s.members o c, s.ref y (sch.rev c) = some o := by
                intro y hy
                have hm := (mem_members.mp hy).2
                have hh : hasB sch s o c y = true := by rw [hasB_coll_eq hc hdc]; exact hm
                rcases hA o c y hal' hh with hmir | ⟨_, hf⟩
                · rw [hasB_ref_eq hrd hrd'] at hmir; simpa using hmir
                · rw [hicc] at hf; cases hf
              rcases clearLoop (sch := sch) hrd hc hdc _ _ _ (members_nodup s o c) hall hr with ⟨hreq, e1, e2, e3, e4, e5⟩ | hnil
              · refine ⟨fun _ => hreq, e1, e2, e3, ?_⟩
                intro p b q
                unfold hasB
                cases hb : sch.side b with
                | none => simp
                | some e =>
                  simp only
                  by_cases hec : e.isColl = true
                  · simp only [hec, if_true, Store.clearRow, e5]
                    have hne1 : b ≠ sch.rev c := by
                      intro heq; subst heq; rw [hrd] at hb; cases hb; rw [hrd'] at hec; cases hec
                    by_cases hp : p = o <;> by_cases hbc : b = c <;> simp_all
                  · have hec' : e.isColl = false := by simpa using hec
                    simp only [hec', Store.clearRow, e4]
                    have hne1 : b ≠ c := by
                      intro heq; subst heq; rw [hc] at hb; cases hb; rw [hdc] at hec'; cases hec'
                    by_cases hbr : b = sch.rev c
                    · subst hbr
                      by_cases hpc : (s.members o c).contains p = true
                      · have hpm : p ∈ s.members o c := by simpa using hpc
                        have := hall p hpm
                        simp only [hpc, and_self, if_true, this]
                        by_cases hq : q = o
                        · subst hq; simp
                        · have : ¬ o = q := fun e => hq e.symm
                          simp [hq, this]
                      · simp_all
                    · simp_all
              · rw [hnil] at hne; simp at hne
          obtain ⟨kreq, kn, ke, ka, kh⟩ := key
          have hcascf : sch.isCascade c = false := by simp [Schema.isCascade, hc, hcasc]
          obtain ⟨h1, h2, h3⟩ := removal (sch := sch) (P := Q) (s := s) (s' := s1.clearRow o c)
            (X := fun p b q => (decide (b = sch.rev c) && decide (q = o) && (s.members o c).contains p) || (decide (p = o) && decide (b = c)))
            kn ke ka kh
            (by
              intro p b q hx _
              simp at hx
              rcases hx with ⟨⟨_, rfl⟩, _⟩ | ⟨rfl, rfl⟩
              · exact Or.inl hQ
              · exact Or.inr ⟨hcascf, hQ⟩)
            (by
              intro p b q d hx hs hb hd
              simp at hx
              rcases hx with ⟨⟨rfl, rfl⟩, hp⟩ | ⟨rfl, rfl⟩
              · rw [hrd] at hb; cases hb; exact kreq hd
              · rw [hc] at hb; cases hb; rw [hdc] at hd; cases hd)
            (by
              intro p b q hx hs hs'
              exfalso
              rw [kh] at hs'
              simp at hx
              rcases hx with ⟨⟨rfl, rfl⟩, hp⟩ | ⟨rfl, rfl⟩
              · rw [sch.rev_rev] at hs'
                simp at hs'
              · have hlt := hR.lt p b q hs
                rw [hasB_coll_eq hc hdc] at hs
                have hm : q ∈ s.members p b := mem_members.mpr ⟨hlt, hs⟩
                simp at hs'
                exact hs'.2.1 hm)
            hA hN
          refine ⟨⟨h1, h2, h3, ka⟩, ?_⟩
          intro q
          rw [kh]; simp
        · cases h
    · cases h

end steps
end PonyVerif.Model.Cascade
