/-
  Lemmas/Cascade.lean — invariants of the deletion model (Model/Cascade.lean), part 1: schema facts, primitive updates seen
  through `hasB`, the invariants relative to the set `P` of objects whose `_delete_` is in progress, and the generic
  "cells are only removed" step.
-/
import PonyVerif.Model.Cascade
namespace PonyVerif.Model.Cascade

/-! ## Schema facts -/

theorem Schema.rev_rev (sch : Schema) (a : Attr) : sch.rev (sch.rev a) = a := by
  unfold Schema.rev
  cases h : sch[a.rel]? with
  | none => simp [h]
  | some r =>
    by_cases hs : r.sym
    · simp [hs, h]
    · simp [hs, h]

theorem Schema.rev_inj (sch : Schema) {a b : Attr} (h : sch.rev a = sch.rev b) : a = b := by
  have := congrArg sch.rev h
  simpa [Schema.rev_rev] using this

def Schema.isCollAttr (sch : Schema) (a : Attr) : Bool :=
  match sch.side a with
  | some d => d.isColl
  | none => false

theorem Schema.mem_allAttrs {sch : Schema} {a : Attr} {d : Side} (h : sch.side a = some d) : a ∈ sch.allAttrs := by
  unfold Schema.side at h
  have hlt : a.rel < sch.length := by
    cases hh : sch[a.rel]? with
    | none => simp [hh] at h
    | some r => exact (List.getElem?_eq_some_iff.mp hh).1
  unfold Schema.allAttrs
  rw [List.mem_flatMap]
  refine ⟨a.rel, List.mem_range.mpr hlt, ?_⟩
  cases a with
  | mk rel side => cases side <;> simp

theorem Schema.mem_attrsOf {sch : Schema} {a : Attr} {d : Side} (h : sch.side a = some d) : a ∈ sch.attrsOf d.ent := by
  unfold Schema.attrsOf
  rw [List.mem_filter]
  exact ⟨Schema.mem_allAttrs h, by simp [h]⟩

theorem Schema.of_mem_attrsOf {sch : Schema} {a : Attr} {e : EntId} (h : a ∈ sch.attrsOf e) : ∃ d, sch.side a = some d ∧ d.ent = e := by
  unfold Schema.attrsOf at h
  rw [List.mem_filter] at h
  cases hs : sch.side a with
  | none => simp [hs] at h
  | some d => exact ⟨d, rfl, by simpa [hs] using h.2⟩

/-! ## Primitive store updates seen through `hasB` -/

section prim
variable {sch : Schema} {s : Store}

theorem hasB_side {p : ObjId} {b : Attr} {q : ObjId} (h : hasB sch s p b q = true) : ∃ d, sch.side b = some d := by
  unfold hasB at h
  cases hb : sch.side b with
  | none => simp [hb] at h
  | some d => exact ⟨d, rfl⟩

theorem hasB_ref_eq {a : Attr} {d : Side} (ha : sch.side a = some d) (hd : d.isColl = false) (p q : ObjId) :
    hasB sch s p a q = (s.ref p a == some q) := by simp [hasB, ha, hd]

theorem hasB_coll_eq {a : Attr} {d : Side} (ha : sch.side a = some d) (hd : d.isColl = true) (p q : ObjId) :
    hasB sch s p a q = s.mem p a q := by simp [hasB, ha, hd]

/-- clearing a reference cell removes exactly the cell `(x, a, u)` -/
theorem hasB_clearRef {a : Attr} {d : Side} (ha : sch.side a = some d) (hd : d.isColl = false) {x u : ObjId}
    (hu : s.ref x a = some u) (p : ObjId) (b : Attr) (q : ObjId) :
    hasB sch (s.setRef x a none) p b q = (hasB sch s p b q && !(decide (p = x) && decide (b = a) && decide (q = u))) := by
  unfold hasB Store.setRef
  by_cases h : p = x ∧ b = a
  · obtain ⟨rfl, rfl⟩ := h
    simp only [ha, hd, hu]
    by_cases hq : q = u
    · subst hq; simp
    · have : ¬ u = q := fun e => hq e.symm
      simp [hq, this]
  · cases hb : sch.side b with
    | none => simp
    | some e =>
      have : ¬ (decide (p = x) && decide (b = a) && decide (q = u)) = true := by
        intro hc; simp at hc; exact h ⟨hc.1.1, hc.1.2⟩
      simp only [h, if_false]
      simp [this]

theorem hasB_setMemFalse {a : Attr} {d : Side} (ha : sch.side a = some d) (hd : d.isColl = true) (o x : ObjId)
    (p : ObjId) (b : Attr) (q : ObjId) :
    hasB sch (s.setMem o a x false) p b q = (hasB sch s p b q && !(decide (p = o) && decide (b = a) && decide (q = x))) := by
  unfold hasB Store.setMem
  by_cases h : p = o ∧ b = a ∧ q = x
  · obtain ⟨rfl, rfl, rfl⟩ := h; simp [ha, hd]
  · cases hb : sch.side b with
    | none => simp
    | some e =>
      have : ¬ (decide (p = o) && decide (b = a) && decide (q = x)) = true := by
        intro hc; simp at hc; exact h ⟨hc.1.1, hc.1.2, hc.2⟩
      simp only [h, if_false]
      simp [this]

theorem hasB_clearRow {a : Attr} {d : Side} (ha : sch.side a = some d) (hd : d.isColl = true) (o : ObjId)
    (p : ObjId) (b : Attr) (q : ObjId) :
    hasB sch (s.clearRow o a) p b q = (hasB sch s p b q && !(decide (p = o) && decide (b = a))) := by
  unfold hasB Store.clearRow
  by_cases h : p = o ∧ b = a
  · obtain ⟨rfl, rfl⟩ := h; simp [ha, hd]
  · cases hb : sch.side b with
    | none => simp
    | some e =>
      have : ¬ (decide (p = o) && decide (b = a)) = true := by
        intro hc; simp at hc; exact h hc
      simp only [h, if_false]
      simp [this]

@[simp] theorem hasB_setAlive (o : ObjId) (v : Bool) (p : ObjId) (b : Attr) (q : ObjId) :
    hasB sch (s.setAlive o v) p b q = hasB sch s p b q := rfl

end prim

/-! ## `Except` / `iterE` -/

theorem iterE_nil {α : Type} (f : α → Store → R) (s : Store) : iterE f [] s = .ok s := rfl

theorem iterE_cons_ok {α : Type} {f : α → Store → R} {x : α} {xs : List α} {s s' : Store}
    (h : iterE f (x :: xs) s = .ok s') : ∃ s1, f x s = .ok s1 ∧ iterE f xs s1 = .ok s' := by
  simp only [iterE] at h
  cases hf : f x s with
  | error e => rw [hf] at h; cases h
  | ok s1 => rw [hf] at h; exact ⟨s1, rfl, h⟩

/-- loop rule: `I` is a preorder on stores kept by every step, `G` a state predicate kept by every step,
    `Q x` is established by the step for `x` and kept along `I` -/
theorem iterE_rule {α : Type} {f : α → Store → R} {I : Store → Store → Prop} {G : Store → Prop} {Q : α → Store → Prop}
    (hrefl : ∀ s, I s s) (htrans : ∀ s1 s2 s3, I s1 s2 → I s2 s3 → I s1 s3)
    (hQ : ∀ x s s', I s s' → Q x s → Q x s')
    (hstep : ∀ x s s', G s → f x s = .ok s' → I s s' ∧ G s' ∧ Q x s') :
    ∀ (xs : List α) (s s' : Store), G s → iterE f xs s = .ok s' → I s s' ∧ G s' ∧ ∀ x ∈ xs, Q x s' := by
  intro xs
  induction xs with
  | nil => intro s s' hG h; cases h; exact ⟨hrefl _, hG, by simp⟩
  | cons x xs ih =>
    intro s s' hG h
    obtain ⟨s1, h1, h2⟩ := iterE_cons_ok h
    obtain ⟨hI1, hG1, hQ1⟩ := hstep x s s1 hG h1
    obtain ⟨hI2, hG2, hQ2⟩ := ih s1 s' hG1 h2
    refine ⟨htrans _ _ _ hI1 hI2, hG2, ?_⟩
    intro y hy
    rcases List.mem_cons.mp hy with rfl | hy
    · exact hQ _ _ _ hI2 hQ1
    · exact hQ2 y hy

/-! ## Invariants (relative to `P`: the objects whose `_delete_` is in progress) -/

/-- stored ids are ids of existing objects; an object holds values only under attributes of its own class (inherited ones included) -/
structure Range (sch : Schema) (ct : ClassTable) (s : Store) : Prop where
  lt : ∀ p b q, hasB sch s p b q = true → q < s.n
  ent : ∀ p b q, hasB sch s p b q = true → b ∈ ct (s.ent p)

/-- both ends agree: what a live object `p` holds under `b` holds `p` under `b.reverse` — except that REFERENCE cells of an
    object whose deletion is in progress may be stale (the partner's side is already unlinked) -/
def AgreeX (sch : Schema) (P : ObjId → Prop) (s : Store) : Prop :=
  ∀ p b q, s.alive p = true → hasB sch s p b q = true →
    hasB sch s q (sch.rev b) p = true ∨ (P p ∧ sch.isCollAttr b = false)

/-- no live object, except those being deleted, holds a deleted object -/
def NoDangX (sch : Schema) (P : ObjId → Prop) (s : Store) : Prop :=
  ∀ p b q, s.alive p = true → ¬ P p → hasB sch s p b q = true → s.alive q = true

/-- `s'` arises from `s` by removals only -/
structure Sub (sch : Schema) (s s' : Store) : Prop where
  n : s'.n = s.n
  ent : s'.ent = s.ent
  alive : ∀ p, s'.alive p = true → s.alive p = true
  has : ∀ p b q, hasB sch s' p b q = true → hasB sch s p b q = true

theorem Sub.refl (sch : Schema) (s : Store) : Sub sch s s := ⟨rfl, rfl, fun _ h => h, fun _ _ _ h => h⟩

theorem Sub.trans {sch : Schema} {s s1 s2 : Store} (h1 : Sub sch s s1) (h2 : Sub sch s1 s2) : Sub sch s s2 :=
  ⟨h2.n.trans h1.n, h2.ent.trans h1.ent, fun p h => h1.alive p (h2.alive p h), fun p b q h => h1.has p b q (h2.has p b q h)⟩

theorem Sub.dead {sch : Schema} {s s' : Store} (h : Sub sch s s') {p : ObjId} (hp : s.alive p = false) : s'.alive p = false := by
  cases hal : s'.alive p with
  | false => rfl
  | true => rw [h.alive p hal] at hp; cases hp

theorem Sub.range {sch : Schema} {ct : ClassTable} {s s' : Store} (h : Sub sch s s') (hR : Range sch ct s) : Range sch ct s' :=
  ⟨fun p b q hh => by rw [h.n]; exact hR.lt p b q (h.has p b q hh),
   fun p b q hh => by rw [h.ent]; exact hR.ent p b q (h.has p b q hh)⟩

/-- a removed cell: its target is dead or in progress, or the attribute does not cascade and its holder is dead or in progress -/
def Rem (sch : Schema) (P : ObjId → Prop) (s s' : Store) : Prop :=
  ∀ p b q, hasB sch s p b q = true → hasB sch s' p b q = false →
    (s'.alive q = false ∨ P q) ∨ (sch.isCascade b = false ∧ (s'.alive p = false ∨ P p))

def CEdge (sch : Schema) (s : Store) (p q : ObjId) : Prop :=
  ∃ b, sch.isCascade b = true ∧ hasB sch s p b q = true

/-- whoever died had all its cascade children die (or they are in progress) -/
def Closed (sch : Schema) (P : ObjId → Prop) (s s' : Store) : Prop :=
  ∀ p q, s.alive p = true → s'.alive p = false → CEdge sch s p q → s'.alive q = false ∨ P q

/-- reference cells of Required attributes are never cleared -/
def KeepReq (sch : Schema) (s s' : Store) : Prop :=
  ∀ p b q d, sch.side b = some d → d.required = true → d.isColl = false → hasB sch s p b q = true → hasB sch s' p b q = true

structure Trans (sch : Schema) (P : ObjId → Prop) (s s' : Store) : Prop where
  sub : Sub sch s s'
  rem : Rem sch P s s'
  closed : Closed sch P s s'
  keepreq : KeepReq sch s s'

theorem Trans.refl (sch : Schema) (P : ObjId → Prop) (s : Store) : Trans sch P s s :=
  ⟨Sub.refl sch s, fun p b q h h' => (by rw [h] at h'; cases h'), fun p q h h' _ => (by rw [h] at h'; cases h'),
   fun _ _ _ _ _ _ _ h => h⟩

theorem Trans.trans {sch : Schema} {P : ObjId → Prop} {s s1 s2 : Store} (h1 : Trans sch P s s1) (h2 : Trans sch P s1 s2) :
    Trans sch P s s2 := by
  refine ⟨h1.sub.trans h2.sub, ?_, ?_, ?_⟩
  · intro p b q hs h2'
    cases h1c : hasB sch s1 p b q with
    | false =>
      rcases h1.rem p b q hs h1c with (hd | hP) | ⟨hc, hd | hP⟩
      · exact Or.inl (Or.inl (h2.sub.dead hd))
      · exact Or.inl (Or.inr hP)
      · exact Or.inr ⟨hc, Or.inl (h2.sub.dead hd)⟩
      · exact Or.inr ⟨hc, Or.inr hP⟩
    | true => exact h2.rem p b q h1c h2'
  · intro p q hal hd ⟨b, hb, hh⟩
    cases hp1 : s1.alive p with
    | false =>
      rcases h1.closed p q hal hp1 ⟨b, hb, hh⟩ with hq | hq
      · exact Or.inl (h2.sub.dead hq)
      · exact Or.inr hq
    | true =>
      cases h1c : hasB sch s1 p b q with
      | true => exact h2.closed p q hp1 hd ⟨b, hb, h1c⟩
      | false =>
        rcases h1.rem p b q hh h1c with (hq | hq) | ⟨hc, _⟩
        · exact Or.inl (h2.sub.dead hq)
        · exact Or.inr hq
        · rw [hb] at hc; cases hc
  · intro p b q d hb hr hc hh
    exact h2.keepreq p b q d hb hr hc (h1.keepreq p b q d hb hr hc hh)

/-- weakening of the in-progress set when the extra object `o` is dead at the end -/
theorem Trans.drop {sch : Schema} {P : ObjId → Prop} {o : ObjId} {s s' : Store}
    (h : Trans sch (fun x => x = o ∨ P x) s s') (ho : s'.alive o = false) : Trans sch P s s' := by
  refine ⟨h.sub, ?_, ?_, h.keepreq⟩
  · intro p b q hs hs'
    rcases h.rem p b q hs hs' with (hd | (rfl | hP)) | ⟨hc, hd | (rfl | hP)⟩
    · exact Or.inl (Or.inl hd)
    · exact Or.inl (Or.inl ho)
    · exact Or.inl (Or.inr hP)
    · exact Or.inr ⟨hc, Or.inl hd⟩
    · exact Or.inr ⟨hc, Or.inl ho⟩
    · exact Or.inr ⟨hc, Or.inr hP⟩
  · intro p q hal hd he
    rcases h.closed p q hal hd he with hq | (rfl | hq)
    · exact Or.inl hq
    · exact Or.inl ho
    · exact Or.inr hq

/-! ## The generic removal step -/

/-- A step that removes the cells in `X` and changes nothing else keeps the invariants, provided every removed cell has its
    target in progress (or does not cascade and has its holder in progress), is not a Required reference, and a mirror that
    survives belongs to an object in progress and is a reference cell. -/
theorem removal {sch : Schema} {P : ObjId → Prop} {s s' : Store} {X : ObjId → Attr → ObjId → Bool}
    (hn : s'.n = s.n) (he : s'.ent = s.ent) (hal : s'.alive = s.alive)
    (hh : ∀ p b q, hasB sch s' p b q = (hasB sch s p b q && !X p b q))
    (hX : ∀ p b q, X p b q = true → hasB sch s p b q = true → P q ∨ (sch.isCascade b = false ∧ P p))
    (hK : ∀ p b q d, X p b q = true → hasB sch s p b q = true → sch.side b = some d → d.isColl = false → d.required = false)
    (hM : ∀ p b q, X p b q = true → hasB sch s p b q = true → hasB sch s' q (sch.rev b) p = true →
        P q ∧ sch.isCollAttr (sch.rev b) = false)
    (hA : AgreeX sch P s) (hN : NoDangX sch P s) :
    Trans sch P s s' ∧ AgreeX sch P s' ∧ NoDangX sch P s' := by
  have hsub : Sub sch s s' := ⟨hn, he, fun p h => by rw [hal] at h; exact h, fun p b q h => by
    rw [hh] at h; simp at h; exact h.1⟩
  refine ⟨⟨hsub, ?_, ?_, ?_⟩, ?_, ?_⟩
  · intro p b q hs hs'
    rw [hh, hs] at hs'
    have hx : X p b q = true := by simpa using hs'
    rcases hX p b q hx hs with hq | ⟨hc, hp⟩
    · exact Or.inl (Or.inr hq)
    · exact Or.inr ⟨hc, Or.inr hp⟩
  · intro p q ha hd _
    rw [hal, ha] at hd; cases hd
  · intro p b q d hb hr hc hs
    rw [hh, hs]
    cases hx : X p b q with
    | false => rfl
    | true => have := hK p b q d hx hs hb hc; rw [hr] at this; cases this
  · intro p b q hp hs'
    rw [hal] at hp
    have hs : hasB sch s p b q = true := hsub.has p b q hs'
    rcases hA p b q hp hs with hm | hm
    · cases hm' : hasB sch s' q (sch.rev b) p with
      | true => exact Or.inl rfl
      | false =>
        right
        rw [hh, hm] at hm'
        have hx : X q (sch.rev b) p = true := by simpa using hm'
        have := hM q (sch.rev b) p hx hm (by rw [sch.rev_rev]; exact hs')
        rw [sch.rev_rev] at this
        exact this
    · exact Or.inr hm
  · intro p b q hp hnp hs'
    rw [hal] at hp ⊢
    exact hN p b q hp hnp (hsub.has p b q hs')

end PonyVerif.Model.Cascade
