/-
  Lemmas/UndoInv.lean — what SUCCESSFUL pieces of a call keep: key-index entries only disappear, and only for objects that
  became deleted; int attribute values and the deleted flag of other objects are untouched.  From this: the well-formedness
  hypothesis of theorem C13 is an invariant of the calls that do not move key entries themselves.
-/
import PonyVerif.Lemmas.Undo
set_option linter.unusedSimpArgs false
set_option linter.unusedVariables false
namespace PonyVerif.Model.Undo

/-- relation between the store before and after a successful piece of a call that registers no key entries -/
structure Keep (sch : Schema) (s s' : Store) : Prop where
  n : s'.n = s.n
  idxSub : ∀ a v o, s'.idx a v = some o → s.idx a v = some o
  idxKept : ∀ a v o, s.idx a v = some o → s'.idx a v = some o ∨ (s'.row o).status.isDel = true
  cidxSub : ∀ k vs o, s'.cidx k vs = some o → s.cidx k vs = some o
  cidxKept : ∀ k vs o, s.cidx k vs = some o → s'.cidx k vs = some o ∨ (s'.row o).status.isDel = true
  scal : ∀ o a, sch.isKeyPart a = true → (s'.row o).val a = (s.row o).val a
  dead : ∀ o, (s.row o).status.isDel = true → (s'.row o).status.isDel = true
  stat : ∀ o, (s'.row o).status = (s.row o).status ∨ (s'.row o).status = .modified ∨ (s'.row o).status = .marked ∨ (s'.row o).status = .cancelled

theorem Keep.refl (sch : Schema) (s : Store) : Keep sch s s :=
  ⟨rfl, fun _ _ _ h => h, fun _ _ _ h => Or.inl h, fun _ _ _ h => h, fun _ _ _ h => Or.inl h, fun _ _ _ => rfl, fun _ h => h, fun _ => Or.inl rfl⟩

theorem Keep.trans {sch : Schema} {s s1 s2 : Store} (h1 : Keep sch s s1) (h2 : Keep sch s1 s2) : Keep sch s s2 := by
  refine ⟨h2.n.trans h1.n, fun a v o h => h1.idxSub a v o (h2.idxSub a v o h), ?_, fun k vs o h => h1.cidxSub k vs o (h2.cidxSub k vs o h), ?_,
    fun o a ha => (h2.scal o a ha).trans (h1.scal o a ha), fun o h => h2.dead o (h1.dead o h), ?_⟩
  · intro a v o h
    rcases h1.idxKept a v o h with h' | h'
    · exact h2.idxKept a v o h'
    · exact Or.inr (h2.dead o h')
  · intro k vs o h
    rcases h1.cidxKept k vs o h with h' | h'
    · exact h2.cidxKept k vs o h'
    · exact Or.inr (h2.dead o h')
  · intro o
    rcases h2.stat o with e | e | e | e
    · rw [e]; exact h1.stat o
    · exact Or.inr (Or.inl e)
    · exact Or.inr (Or.inr (Or.inl e))
    · exact Or.inr (Or.inr (Or.inr e))

/-- a step that leaves both key indexes alone -/
theorem Keep.of_rows {sch : Schema} {s s' : Store} (hn : s'.n = s.n) (hi : s'.idx = s.idx) (hc : s'.cidx = s.cidx)
    (h : ∀ o, ((s'.row o).status = (s.row o).status ∨ ((s'.row o).status = .modified ∧ (s.row o).status.isDel = false)) ∧
              ∀ a, sch.isKeyPart a = true → (s'.row o).val a = (s.row o).val a) : Keep sch s s' := by
  refine ⟨hn, fun a v o e => by rw [← hi]; exact e, fun a v o e => Or.inl (by rw [hi]; exact e),
    fun k vs o e => by rw [← hc]; exact e, fun k vs o e => Or.inl (by rw [hc]; exact e), fun o a ha => (h o).2 a ha, ?_, ?_⟩
  · intro o hd
    rcases (h o).1 with e | ⟨_, e⟩
    · rw [e]; exact hd
    · rw [e] at hd; cases hd
  · intro o
    rcases (h o).1 with e | ⟨e, _⟩
    · exact Or.inl e
    · exact Or.inr (Or.inl e)

/-- the same for a result: nothing is claimed about a failing piece -/
def KeepR (sch : Schema) (st : St) (r : Res) : Prop := ∀ st', r = .ok st' → Keep sch st.store st'.store

theorem KeepR.ok {sch : Schema} {st st' : St} (h : Keep sch st.store st'.store) : KeepR sch st (.ok st') := by
  intro st'' e; cases e; exact h
theorem KeepR.err (sch : Schema) (st : St) (e : Err) (st' : St) : KeepR sch st (.err e st') := by
  intro st'' h; cases h

theorem keepR_bind {sch : Schema} {st : St} {r : Res} {g : St → Res} (h1 : KeepR sch st r) (h2 : ∀ st1, r = .ok st1 → KeepR sch st1 (g st1)) :
    KeepR sch st (r.bind g) := by
  cases r with
  | ok st1 => intro st' e; exact (h1 st1 rfl).trans (h2 st1 rfl st' e)
  | err e st1 => exact KeepR.err _ _ _ _

theorem keepR_iter {sch : Schema} {α : Type} {f : α → St → Res} (hf : ∀ x st, KeepR sch st (f x st)) :
    ∀ (xs : List α) (st : St), KeepR sch st (iter f xs st) := by
  intro xs
  induction xs with
  | nil => intro st; exact KeepR.ok (Keep.refl _ _)
  | cons x xs ih => intro st; exact keepR_bind (hf x st) (fun st1 _ => ih st1)

section prims
variable {sch : Schema}

theorem keep_upd_nostatus (s : Store) (o : ObjId) (f : Row → Row) (s' : Store) (hn : s'.n = s.n) (hi : s'.idx = s.idx) (hc : s'.cidx = s.cidx)
    (hr : s'.row = (s.upd o f).row) (hf : ∀ r, (f r).status = r.status ∧ (f r).val = r.val) : Keep sch s s' := by
  apply Keep.of_rows hn hi hc
  intro p
  rw [hr]
  by_cases hp : p = o
  · rw [hp, upd_row_same]; exact ⟨Or.inl (hf _).1, fun a _ => by rw [(hf _).2]⟩
  · rw [upd_row_other _ _ _ _ hp]; exact ⟨Or.inl rfl, fun _ _ => rfl⟩

theorem keepR_reverseAdd (c : AttrId) (objs : List ObjId) (item : ObjId) (st : St) : KeepR sch st (reverseAdd c objs item st) := by
  unfold reverseAdd
  intro st' h
  have h0 : Keep sch st.store (touchKey c st).store := keep_upd_nostatus st.store 0 (fun r => r) _ rfl rfl rfl (by simp [touchKey, St.setStore, upd_id]) (fun r => ⟨rfl, rfl⟩)
  refine h0.trans (keepR_iter (fun obj st => ?_) objs _ st' h)
  unfold reverseAdd1
  dsimp only
  split
  · exact KeepR.err _ _ _ _
  · exact KeepR.ok (keep_upd_nostatus st.store obj (fun r => r.revAdd c item ((st.store.row obj).removed c item)) _ rfl rfl rfl rfl (fun r => ⟨rfl, rfl⟩))

theorem keepR_reverseRemove (c : AttrId) (objs : List ObjId) (item : ObjId) (st : St) : KeepR sch st (reverseRemove c objs item st) := by
  unfold reverseRemove
  intro st' h
  have h0 : Keep sch st.store (touchKey c st).store := keep_upd_nostatus st.store 0 (fun r => r) _ rfl rfl rfl (by simp [touchKey, St.setStore, upd_id]) (fun r => ⟨rfl, rfl⟩)
  refine h0.trans (keepR_iter (fun obj st => ?_) objs _ st' h)
  unfold reverseRemove1
  dsimp only
  split
  · exact KeepR.err _ _ _ _
  · exact KeepR.ok (keep_upd_nostatus st.store obj (fun r => r.revRemove c item ((st.store.row obj).added c item)) _ rfl rfl rfl rfl (fun r => ⟨rfl, rfl⟩))

/-- the write of a relationship attribute (reverse call): marks the object, touches no key -/
theorem keep_refWrite (bit : Bool) (o : ObjId) (a : AttrId) (v : Option Nat) (st : St) (ha : sch.isKeyPart a = false)
    (hnd : (st.store.row o).status.isDel = false) : Keep sch st.store (refWrite bit o a v st).store := by
  unfold refWrite
  dsimp only
  obtain ⟨hspec, hv, hidx0, hcidx0⟩ := mark_spec o (if bit then [a] else []) false st.store
  generalize mark o (if bit then [a] else []) false st.store = mk at hspec hv hidx0 hcidx0
  obtain ⟨s1, pop⟩ := mk
  simp only at hspec hv hidx0 hcidx0 ⊢
  have hst : (s1.row o).status = (st.store.row o).status ∨ ((s1.row o).status = .modified ∧ (st.store.row o).status.isDel = false) := by
    have hq := hspec.q
    cases pop
    · simp only [Bool.false_eq_true, if_false] at hq; exact Or.inl hq.2.2
    · simp only [if_true] at hq; exact Or.inr ⟨hq.2.2.2, hnd⟩
  have base : Keep sch st.store s1 := by
    apply Keep.of_rows hspec.n hidx0 hcidx0
    intro p
    by_cases hp : p = o
    · rw [hp]; exact ⟨hst, fun a' _ => by rw [hv]⟩
    · rw [hspec.other p hp]; exact ⟨Or.inl rfl, fun _ _ => rfl⟩
  split
  · exact base
  · refine base.trans ?_
    show Keep sch s1 (s1.upd o fun r => { r with val := set1 r.val a v })
    refine Keep.of_rows (s := s1) (s' := s1.upd o fun r => { r with val := set1 r.val a v }) rfl rfl rfl ?_
    intro p
    by_cases hp : p = o
    · rw [hp, upd_row_same]
      refine ⟨Or.inl rfl, fun a' ha' => ?_⟩
      have hne : a' ≠ a := fun e => by rw [e, ha] at ha'; cases ha'
      simp [set1, hne]
    · rw [upd_row_other _ _ _ _ hp]; exact ⟨Or.inl rfl, fun _ _ => rfl⟩

theorem keepR_attrClearRev (o : ObjId) (a : AttrId) (st : St) : KeepR sch st (attrClearRev sch o a st) := by
  unfold attrClearRev
  split
  · exact KeepR.err _ _ _ _
  · split
    · exact KeepR.err _ _ _ _
    · rename_i hnd
      split
      · exact KeepR.err _ _ _ _
      · rename_i hsc
        have hw : ∀ bit v, Keep sch st.store (refWrite bit o a v st).store :=
          fun bit v => keep_refWrite bit o a v st (by simpa using hsc) (by simpa using hnd)
        split
        · dsimp only
          split
          · exact KeepR.err _ _ _ _
          · split
            · exact KeepR.ok (hw _ _)
            · split
              · intro st' h; exact (hw _ _).trans (keepR_reverseRemove _ _ _ _ st' h)
              · exact KeepR.ok (hw _ _)
        · exact KeepR.err _ _ _ _

theorem keepR_attrSetRev (o : ObjId) (a : AttrId) (x : ObjId) (st : St) : KeepR sch st (attrSetRev sch o a x st) := by
  unfold attrSetRev
  split
  · exact KeepR.err _ _ _ _
  · split
    · exact KeepR.err _ _ _ _
    · rename_i hnd
      split
      · exact KeepR.err _ _ _ _
      · rename_i hsc
        have hw : ∀ bit v, Keep sch st.store (refWrite bit o a v st).store :=
          fun bit v => keep_refWrite bit o a v st (by simpa using hsc) (by simpa using hnd)
        split
        · dsimp only
          split
          · exact KeepR.ok (hw _ _)
          · split
            · exact KeepR.ok (hw _ _)
            · split
              · intro st' h; exact (hw _ _).trans (keepR_reverseRemove _ _ _ _ st' h)
              · split
                · exact KeepR.err _ _ _ _
                · split
                  · exact KeepR.ok (hw _ _)
                  · intro st' h; exact (hw _ _).trans (keepR_attrClearRev _ _ _ st' h)
        · exact KeepR.err _ _ _ _

theorem keep_rewriteSet (s : Store) (o : ObjId) (c : AttrId) (new toAdd toRemove : ObjId → Bool) :
    Keep sch s (rewriteSet s o c new toAdd toRemove) := by
  obtain ⟨A, R, N, h⟩ := rewriteSet_shape s o c new toAdd toRemove
  rw [h]
  exact keep_upd_nostatus s o (fun r => r.putColl c new A R N) _ rfl rfl rfl rfl (fun r => ⟨rfl, rfl⟩)

/-- `Set.__set__`, with or without an undo list -/
theorem keepR_setColl {del : ObjId → St → Res} (hdel : ∀ x st, KeepR sch st (del x st)) (isRev : Bool) (o : ObjId) (c : AttrId)
    (items : List ObjId) (st : St) : KeepR sch st (setColl sch del isRev o c items st) := by
  unfold setColl
  split
  · exact KeepR.err _ _ _ _
  · split
    · dsimp only
      split
      · exact KeepR.ok (Keep.refl _ _)
      · apply keepR_bind
        · split
          · apply keepR_bind
            · split
              · exact keepR_iter hdel _ _
              · exact keepR_iter (fun item st => keepR_attrClearRev item _ st) _ _
            · intro st1 _; exact keepR_iter (fun item st => keepR_attrSetRev item _ o st) _ _
          · apply keepR_bind (keepR_reverseRemove _ _ _ _)
            intro st1 _; exact keepR_reverseAdd _ _ _ _
        · intro st1 _
          apply KeepR.ok
          cases isRev
          · exact keep_rewriteSet _ _ _ _ _ _
          · exact keep_rewriteSet _ _ _ _ _ _
    · exact KeepR.err _ _ _ _

theorem keep_afterPop {o : ObjId} {s s1 S : Store} {ks : List IdxKey} (hp : Popped o s s1 ks)
    (hn : S.n = s1.n) (hi : S.idx = s1.idx) (hc : S.cidx = s1.cidx) (hother : ∀ p, p ≠ o → S.row p = s1.row p)
    (hst : (S.row o).status = .marked ∨ (S.row o).status = .cancelled) (hval : (S.row o).val = (s1.row o).val) : Keep sch s S := by
  have hdel : (S.row o).status.isDel = true := by rcases hst with e | e <;> rw [e] <;> rfl
  refine ⟨hn.trans hp.n, ?_, ?_, ?_, ?_, ?_, ?_, ?_⟩
  · intro a v o' h
    rw [hi, hp.idx] at h
    split at h
    · cases h
    · exact h
  · intro a v o' h
    by_cases hc' : ks.contains (IdxKey.simple a v) = true
    · have := hp.idxWas a v hc'
      rw [h] at this; cases this
      exact Or.inr hdel
    · left; rw [hi, hp.idx]; simp only [hc', if_false]; exact h
  · intro k vs o' h
    rw [hc, hp.cidx] at h
    split at h
    · cases h
    · exact h
  · intro k vs o' h
    by_cases hc' : ks.contains (IdxKey.comp k vs) = true
    · have := hp.cidxWas k vs hc'
      rw [h] at this; cases this
      exact Or.inr hdel
    · left; rw [hc, hp.cidx]; simp only [hc', if_false]; exact h
  · intro p a _
    by_cases hpo : p = o
    · rw [hpo, hval, hp.row]
    · rw [hother p hpo, hp.row]
  · intro p hd
    by_cases hpo : p = o
    · rw [hpo]; exact hdel
    · rw [hother p hpo, hp.row]; exact hd
  · intro p
    by_cases hpo : p = o
    · rw [hpo]; rcases hst with e | e
      · exact Or.inr (Or.inr (Or.inl e))
      · exact Or.inr (Or.inr (Or.inr e))
    · rw [hother p hpo, hp.row]; exact Or.inl rfl

theorem keepR_finishDelete (o : ObjId) (st : St) : KeepR sch st (finishDelete sch o st) := by
  unfold finishDelete
  dsimp only
  split
  · exact KeepR.ok (Keep.refl _ _)
  · have hpop := popKeys_spec sch o st.store
    generalize popKeys sch o st.store = pk at hpop
    obtain ⟨s1, keys, missing⟩ := pk
    simp only at hpop ⊢
    split
    · exact KeepR.err _ _ _ _
    · split
      · split
        · exact KeepR.err _ _ _ _
        · split
          · apply KeepR.ok
            exact keep_afterPop hpop rfl rfl rfl (fun q hq => by simp [St.setStore, St.log, Store.upd, hq])
              (Or.inr (by simp [St.setStore, St.log, Store.upd])) (by simp [St.setStore, St.log, Store.upd])
          · split
            · apply KeepR.ok
              exact keep_afterPop hpop rfl rfl rfl (fun q hq => by simp [St.setStore, St.log, Store.upd, hq])
                (Or.inr (by simp [St.setStore, St.log, Store.upd])) (by simp [St.setStore, St.log, Store.upd])
            · exact KeepR.err _ _ _ _
      · split
        · exact KeepR.err _ _ _ _
        · rename_i s2 hs2
          have hs2' : s2.n = s1.n ∧ s2.idx = s1.idx ∧ s2.cidx = s1.cidx ∧ s2.row = s1.row := by
            split at hs2
            · split at hs2
              · cases hs2
              · cases hs2; exact ⟨rfl, rfl, rfl, rfl⟩
            · split at hs2
              · cases hs2
              · cases hs2; exact ⟨rfl, rfl, rfl, rfl⟩
          obtain ⟨e1, e2, e3, e4⟩ := hs2'
          apply KeepR.ok
          exact keep_afterPop hpop e1 e2 e3 (fun q hq => by simp [St.setStore, St.log, Store.upd, hq, e4])
            (Or.inl (by simp [St.setStore, St.log, Store.upd])) (by simp [St.setStore, St.log, Store.upd, e4])

theorem keepR_delete : ∀ (fuel : Nat) (o : ObjId) (st : St), KeepR sch st (delete sch fuel o st) := by
  intro fuel
  induction fuel with
  | zero => intro o st; simp only [delete]; exact KeepR.err _ _ _ _
  | succ fuel ih =>
    intro o st
    simp only [delete]
    split
    · exact KeepR.err _ _ _ _
    · split
      · exact KeepR.ok (Keep.refl _ _)
      · apply keepR_bind
        · apply keepR_bind
          · apply keepR_iter
            intro c s
            split
            · split
              · exact KeepR.ok (Keep.refl _ _)
              · split
                · exact KeepR.err _ _ _ _
                · split
                  · exact KeepR.ok (Keep.refl _ _)
                  · split
                    · exact keepR_iter (fun x st => ih x st) _ _
                    · split
                      · exact keepR_setColl (fun x st => ih x st) true o c [] s
                      · exact KeepR.err _ _ _ _
            · exact KeepR.ok (Keep.refl _ _)
          · intro st1 _
            apply keepR_iter
            intro a s
            split
            · split
              · exact KeepR.ok (Keep.refl _ _)
              · split
                · exact KeepR.ok (Keep.refl _ _)
                · split
                  · split
                    · exact ih _ _
                    · split
                      · split
                        · exact keepR_attrClearRev _ _ _
                        · exact KeepR.ok (Keep.refl _ _)
                      · exact KeepR.err _ _ _ _
                  · exact keepR_reverseRemove _ _ _ _
            · exact KeepR.ok (Keep.refl _ _)
        · intro stB _; exact keepR_finishDelete o stB

theorem keepR_updateReverse (fuel : Nat) (d rd : AttrDecl) (o : ObjId) (a : AttrId) (old v : Option ObjId) (st : St) :
    KeepR sch st (updateReverse sch fuel d rd o a old v st) := by
  unfold updateReverse
  split
  · apply keepR_bind
    · split
      · exact KeepR.ok (Keep.refl _ _)
      · split
        · exact KeepR.ok (Keep.refl _ _)
        · split
          · exact keepR_delete _ _ _
          · split
            · exact KeepR.err _ _ _ _
            · exact keepR_attrClearRev _ _ _
    · intro st1 _
      split
      · exact KeepR.ok (Keep.refl _ _)
      · exact keepR_attrSetRev _ _ _ _
  · apply keepR_bind
    · split
      · exact KeepR.ok (Keep.refl _ _)
      · exact keepR_reverseRemove _ _ _ _
    · intro st1 _
      split
      · exact KeepR.ok (Keep.refl _ _)
      · exact keepR_reverseAdd _ _ _ _

end prims

/-! ### from `Keep` to the index invariant -/

theorem uniq_isKeyPart (sch : Schema) (a : AttrId) (h : (match sch.decl a with | some d => d.unique | none => false) = true) : sch.isKeyPart a = true := by
  unfold Schema.isKeyPart
  split at h
  · simp [*]
  · cases h

theorem mem_keyAttrs_isKeyPart (sch : Schema) (k : KeyId) (a : AttrId) (h : a ∈ sch.keyAttrs k) : sch.isKeyPart a = true := by
  have hk : k < sch.ckeys.length := by
    unfold Schema.keyAttrs at h
    by_cases hlt : k < sch.ckeys.length
    · exact hlt
    · rw [List.getElem?_eq_none (Nat.le_of_not_lt hlt)] at h; simp at h
  have hmem : k ∈ sch.ckeysWith a := by
    unfold Schema.ckeysWith
    exact List.mem_filter.mpr ⟨List.mem_range.mpr hk, by simpa using h⟩
  have : (sch.ckeysWith a).isEmpty = false := by
    cases hl : sch.ckeysWith a with
    | nil => rw [hl] at hmem; cases hmem
    | cons x xs => rfl
  unfold Schema.isKeyPart
  simp [this]

/-- entries of the key indexes belong to declared keys and point to objects of the session -/
structure IdxDom (sch : Schema) (s : Store) : Prop where
  idx : ∀ a v o, s.idx a v = some o → (match sch.decl a with | some d => d.unique | none => false) = true ∧ o < s.n
  cidx : ∀ k vs o, s.cidx k vs = some o → k < sch.ckeys.length ∧ o < s.n

theorem IdxDom.of_eqv {sch : Schema} {s R : Store} (h : IdxDom sch s) (he : Eqv s.n R s) : IdxDom sch R :=
  ⟨fun a v o e => by rw [he.idx] at e; rw [he.n]; exact h.idx a v o e, fun k vs o e => by rw [he.cidx] at e; rw [he.n]; exact h.cidx k vs o e⟩

theorem map_val_congr (sch : Schema) (k : KeyId) (f g : AttrId → Option Nat)
    (h : ∀ a, sch.isKeyPart a = true → f a = g a) : (sch.keyAttrs k).map f = (sch.keyAttrs k).map g :=
  List.map_congr_left (fun a ha => h a (mem_keyAttrs_isKeyPart sch k a ha))

theorem IdxOk.of_keep {sch : Schema} {s s' : Store} (h : IdxOk sch s) (hd : IdxDom sch s) (hk : Keep sch s s') :
    IdxOk sch s' ∧ IdxDom sch s' := by
  refine ⟨?_, ⟨fun a v o e => by rw [hk.n]; exact hd.idx a v o (hk.idxSub a v o e), fun k vs o e => by rw [hk.n]; exact hd.cidx k vs o (hk.cidxSub k vs o e)⟩⟩
  intro o ho hl
  have ho' : o < s.n := hk.n ▸ ho
  have hl' : (s.row o).status.isDel = false := by
    cases hdl : (s.row o).status.isDel
    · rfl
    · rw [hk.dead o hdl] at hl; cases hl
  have hko := h o ho' hl'
  have hv : ∀ a, sch.isKeyPart a = true → (s'.row o).val a = (s.row o).val a := fun a ha => hk.scal o a ha
  refine ⟨?_, ?_, ?_, ?_⟩
  · intro a v e
    have e' := hk.idxSub a v o e
    rw [hv a (uniq_isKeyPart sch a (hd.idx a v o e').1)]
    exact hko.idxVal a v e'
  · intro a u e hu
    rw [hv a (uniq_isKeyPart sch a hu)] at e
    rcases hk.idxKept a u o (hko.valIdx a u e hu) with e' | e'
    · exact e'
    · rw [e'] at hl; cases hl
  · intro k vs e
    rw [map_val_congr sch k _ _ hv]
    exact hko.cidxVal k vs (hk.cidxSub k vs o e)
  · intro k us e hlt
    rw [map_val_congr sch k _ _ hv] at e
    rcases hk.cidxKept k us o (hko.valCidx k us e hlt) with e' | e'
    · exact e'
    · rw [e'] at hl; cases hl

/-! ### successful user calls that move no key entries themselves -/

section top
variable {sch : Schema} {s0 : Store}

/-- if the call succeeds: the save queue stays consistent and the key indexes only lost entries of deleted objects -/
def OkInv (sch : Schema) (s0 : Store) (st : St) (r : Res) : Prop :=
  ∀ st', r = .ok st' → Good s0 st → SaveOk st'.store ∧ Keep sch st.store st'.store

theorem OkInv.of {st : St} {r : Res} (h : Step s0 st r.st) (hk : KeepR sch st r) : OkInv sch s0 st r := by
  intro st' hr g
  refine ⟨?_, hk st' hr⟩
  rw [hr] at h; exact (h.good g).save

theorem OkInv.err (st : St) (e : Err) (st' : St) : OkInv sch s0 st (.err e st') := by
  intro st'' h; cases h

theorem OkInv.bind_tail {st : St} {r : Res} {g : St → Res} (h : Step s0 st r.st) (hk : KeepR sch st r)
    (hg : ∀ st1, ∃ S, g st1 = .ok (st1.setStore S) ∧ (SaveOk st1.store → SaveOk S) ∧ Keep sch st1.store S) : OkInv sch s0 st (r.bind g) := by
  cases r with
  | err e st1 => exact OkInv.err _ _ _
  | ok st1 =>
    intro st' hr gd
    obtain ⟨S, hS, hsave, hkeep⟩ := hg st1
    simp only [Res.bind, hS, Res.ok.injEq] at hr
    rw [← hr]
    exact ⟨hsave (h.good gd).save, (hk st1 rfl).trans hkeep⟩

/-- a tail that rewrites SetData / values of non-key attributes and the modified-collections bookkeeping -/
theorem tail_ok (s S : Store) (hn : S.n = s.n) (hq : S.toSave = s.toSave) (hi : S.idx = s.idx) (hc : S.cidx = s.cidx)
    (hr : ∀ q, (S.row q).status = (s.row q).status ∧ (S.row q).savePos = (s.row q).savePos ∧
      ∀ a, sch.isKeyPart a = true → (S.row q).val a = (s.row q).val a) :
    (SaveOk s → SaveOk S) ∧ Keep sch s S :=
  ⟨fun h => h.of_eq hq hn (fun q => ⟨(hr q).2.1, (hr q).1⟩), Keep.of_rows hn hi hc (fun q => ⟨Or.inl (hr q).1, (hr q).2.2⟩)⟩

theorem okInv_collAdd (o : ObjId) (c : AttrId) (items : List ObjId) (st : St) : OkInv sch s0 st (collAdd sch o c items st) := by
  unfold collAdd
  split
  · exact OkInv.err _ _ _
  · split
    · dsimp only
      split
      · exact OkInv.of (Step.refl _ _) (KeepR.ok (Keep.refl _ _))
      · apply OkInv.bind_tail
        · split
          · exact step_iter (fun item st => step_attrSetRev sch item _ o st) _ _
          · exact step_reverseAdd _ _ _ _
        · split
          · exact keepR_iter (fun item st => keepR_attrSetRev item _ o st) _ _
          · exact keepR_reverseAdd _ _ _ _
        · intro st1
          refine ⟨_, rfl, ?_⟩
          refine tail_ok st1.store _ rfl rfl rfl rfl (fun q => ?_)
          by_cases hq : q = o <;> simp [Store.upd, hq]
    · exact OkInv.err _ _ _

theorem okInv_collRemove (fuel : Nat) (o : ObjId) (c : AttrId) (items : List ObjId) (st : St) : OkInv sch s0 st (collRemove sch fuel o c items st) := by
  unfold collRemove
  split
  · exact OkInv.err _ _ _
  · split
    · dsimp only
      split
      · exact OkInv.of (Step.refl _ _) (KeepR.ok (Keep.refl _ _))
      · apply OkInv.bind_tail
        · split
          · split
            · exact step_iter (fun x st => step_delete _ x st) _ _
            · exact step_iter (fun item st => step_attrClearRev sch item _ st) _ _
          · exact step_reverseRemove _ _ _ _
        · split
          · split
            · exact keepR_iter (fun x st => keepR_delete _ x st) _ _
            · exact keepR_iter (fun item st => keepR_attrClearRev item _ st) _ _
          · exact keepR_reverseRemove _ _ _ _
        · intro st1
          refine ⟨_, rfl, ?_⟩
          refine tail_ok st1.store _ rfl rfl rfl rfl (fun q => ?_)
          by_cases hq : q = o <;> simp [Store.upd, hq]
    · exact OkInv.err _ _ _

theorem tail_rewriteSet (s : Store) (o : ObjId) (c : AttrId) (new toAdd toRemove : ObjId → Bool) :
    (SaveOk s → SaveOk (rewriteSet s o c new toAdd toRemove)) ∧ Keep sch s (rewriteSet s o c new toAdd toRemove) := by
  obtain ⟨A, R, N, h⟩ := rewriteSet_shape s o c new toAdd toRemove
  rw [h]
  refine tail_ok s _ rfl rfl rfl rfl (fun q => ?_)
  by_cases hq : q = o <;> simp [Store.upd, hq, Row.putColl]

/-- `obj.coll = items` / `obj.coll.clear()` called by the user -/
theorem okInv_setColl (fuel : Nat) (o : ObjId) (c : AttrId) (items : List ObjId) (st : St) :
    OkInv sch s0 st (setColl sch (fun x => delete sch fuel x) false o c items st) := by
  unfold setColl
  split
  · exact OkInv.err _ _ _
  · split
    · dsimp only
      split
      · exact OkInv.of (Step.refl _ _) (KeepR.ok (Keep.refl _ _))
      · apply OkInv.bind_tail
        · split
          · apply step_bind
            · split
              · exact step_iter (fun x st => step_delete _ x st) _ _
              · exact step_iter (fun item st => step_attrClearRev sch item _ st) _ _
            · intro st1 _; exact step_iter (fun item st => step_attrSetRev sch item _ o st) _ _
          · apply step_bind (step_reverseRemove _ _ _ _)
            intro st1 _; exact step_reverseAdd _ _ _ _
        · split
          · apply keepR_bind
            · split
              · exact keepR_iter (fun x st => keepR_delete _ x st) _ _
              · exact keepR_iter (fun item st => keepR_attrClearRev item _ st) _ _
            · intro st1 _; exact keepR_iter (fun item st => keepR_attrSetRev item _ o st) _ _
          · apply keepR_bind (keepR_reverseRemove _ _ _ _)
            intro st1 _; exact keepR_reverseAdd _ _ _ _
        · intro st1
          exact ⟨_, rfl, tail_rewriteSet _ _ _ _ _ _⟩
    · exact OkInv.err _ _ _

theorem runMoves_nil (sch : Schema) (o : ObjId) (nv : AttrId → Option Nat) (s : Store) : runMoves sch o [] [] nv s = .done s [] := by
  simp [runMoves, movesS, movesC]

/-- `obj.attr = v` for an attribute that is not part of a key (a reference or a plain int attribute) -/
theorem okInv_attrSetTop (fuel : Nat) (o : ObjId) (a : AttrId) (v : Option Nat) (st : St) (ho : o < st.store.n)
    (hnk : sch.isKeyPart a = false) (hnd : (st.store.row o).status.isDel = false) :
    OkInv sch s0 st (attrSetTop sch fuel o a v st) := by
  unfold attrSetTop
  dsimp only
  split
  · exact OkInv.err _ _ _
  · split
    · exact OkInv.err _ _ _
    · rename_i d hd
      have hu : d.unique = false ∧ sch.ckeysWith a = [] := by
        unfold Schema.isKeyPart at hnk
        rw [hd] at hnk
        simp only [Bool.or_eq_false_iff, Bool.not_eq_false'] at hnk
        exact ⟨hnk.1, by simpa [List.isEmpty_iff] using hnk.2⟩
      obtain ⟨hspec, hv, hidx0, hcidx0⟩ := mark_spec o (if d.bit then [a] else []) false st.store
      generalize hmk : mark o (if d.bit then [a] else []) false st.store = mk at hspec hv hidx0 hcidx0
      obtain ⟨s1, pop⟩ := mk
      simp only at hspec hv hidx0 hcidx0 ⊢
      have hst : (s1.row o).status = (st.store.row o).status ∨ ((s1.row o).status = .modified ∧ (st.store.row o).status.isDel = false) := by
        have hq := hspec.q
        cases pop
        · simp only [Bool.false_eq_true, if_false] at hq; exact Or.inl hq.2.2
        · simp only [if_true] at hq; exact Or.inr ⟨hq.2.2.2, hnd⟩
      have base : Keep sch st.store s1 := by
        apply Keep.of_rows hspec.n hidx0 hcidx0
        intro p
        by_cases hp : p = o
        · rw [hp]; exact ⟨hst, fun a' _ => by rw [hv]⟩
        · rw [hspec.other p hp]; exact ⟨Or.inl rfl, fun _ _ => rfl⟩
      have hwriteF : ∀ F : Row → AttrId → Option Nat, (∀ a', a' ≠ a → F (s1.row o) a' = (s1.row o).val a') →
          Keep sch s1 (s1.upd o fun r => { r with val := F r }) := by
        intro F hF
        refine Keep.of_rows (s := s1) rfl rfl rfl ?_
        intro p
        by_cases hp : p = o
        · rw [hp, upd_row_same]
          refine ⟨Or.inl rfl, fun a' ha' => ?_⟩
          have hne : a' ≠ a := fun e => by rw [e, hnk] at ha'; cases ha'
          exact hF a' hne
        · rw [upd_row_other _ _ _ _ hp]; exact ⟨Or.inl rfl, fun _ _ => rfl⟩
      have hwrite : Keep sch s1 (s1.upd o fun r => { r with val := set1 (st.store.row o).val a v }) :=
        hwriteF (fun _ => set1 (st.store.row o).val a v) (fun a' hne => by simp [set1, hne, hv])
      have hwrite' : Keep sch s1 (s1.upd o fun r => { r with val := set1 r.val a v }) :=
        hwriteF (fun r => set1 r.val a v) (fun a' hne => by simp [set1, hne])
      have hsave1 : Good s0 st → SaveOk (s1.upd o fun r => { r with val := set1 (st.store.row o).val a v }) :=
        fun g => (hspec.setVal (fun _ => set1 (st.store.row o).val a v)).saveOk g.save
      have hsave1' : Good s0 st → SaveOk (s1.upd o fun r => { r with val := set1 r.val a v }) :=
        fun g => (hspec.setVal (fun r => set1 r.val a v)).saveOk g.save
      split
      · intro st' hr g
        cases hr
        exact ⟨hsave1' g, base.trans hwrite'⟩
      · split
        · intro st' hr g
          cases hr
          exact ⟨hspec.saveOk g.save, base⟩
        · rw [hu.1, hu.2]
          simp only [Bool.false_eq_true, if_false, runMoves_nil]
          have hstep : Step s0 st ((st.setStore (s1.upd o fun r => { r with val := set1 (st.store.row o).val a v })).log
              (.attrSet o a (st.store.row o).status (st.store.row o).wbits pop ((st.store.row o).val a) [])) := by
            refine step_markEntry _ (some (a, (st.store.row o).val a)) ho (hspec.setVal (fun _ => set1 (st.store.row o).val a v))
              (by simp only [fixVal, upd_row_same]; rw [set1_set1, set1_self]) (fun t => rfl) ?_
            intro _ T e1 e2; exact ⟨e1.trans hidx0, e2.trans hcidx0⟩
          split
          · split
            · rename_i rd _
              intro st' hr g
              have hG := hstep.good g
              have h2 := step_updateReverse (sch := sch) (s0 := s0) fuel d rd o a ((st.store.row o).val a) v
                ((st.setStore (s1.upd o fun r => { r with val := set1 (st.store.row o).val a v })).log
                  (.attrSet o a (st.store.row o).status (st.store.row o).wbits pop ((st.store.row o).val a) []))
              rw [hr] at h2
              exact ⟨(h2.good hG).save, (base.trans hwrite).trans (keepR_updateReverse _ _ _ _ _ _ _ _ st' hr)⟩
            · exact OkInv.err _ _ _
          · intro st' hr g
            cases hr
            exact ⟨hsave1 g, base.trans hwrite⟩

/-- user calls that register no key entries themselves: delete (with its cascades), every collection call, and the
    assignment of an attribute that is not part of a key (a reference, a collection, a plain int attribute) -/
def quiet (sch : Schema) : Op → Bool
  | .delete _ => true
  | .add _ _ _ => true
  | .remove _ _ _ => true
  | .clear _ _ => true
  | .set _ a _ => !sch.isKeyPart a
  | .flush _ => true
  | _ => false

theorem okInv_run1 (op : Op) (s : Store) (hq : quiet sch op = true) : OkInv sch s { store := s } (run1 sch op { store := s }) := by
  unfold run1
  dsimp only
  cases op with
  | flush ids => intro st' h g; cases h; exact ⟨g.save, Keep.refl _ _⟩
  | create e pk vals => cases hq
  | setMany o kw => cases hq
  | set o a v =>
    simp only
    split
    · exact OkInv.err _ _ _
    · rename_i hok
      split
      · exact OkInv.err _ _ _
      · rename_i hnd
        split
        · exact OkInv.err _ _ _
        · split
          · exact okInv_setColl _ _ _ _ _
          · have holt : o < s.n := by
              unfold attrOk at hok
              split at hok
              · assumption
              · cases hok
            exact okInv_attrSetTop _ _ _ _ _ holt (by simpa [quiet] using hq) (by simpa using hnd)
  | add o c items =>
    simp only
    split
    · exact OkInv.err _ _ _
    · split
      · exact OkInv.err _ _ _
      · split
        · exact OkInv.err _ _ _
        · exact okInv_collAdd _ _ _ _
  | remove o c items =>
    simp only
    split
    · exact OkInv.err _ _ _
    · split
      · exact OkInv.err _ _ _
      · split
        · exact OkInv.err _ _ _
        · exact okInv_collRemove _ _ _ _ _
  | clear o c =>
    simp only
    split
    · exact OkInv.err _ _ _
    · split
      · exact okInv_setColl _ _ _ _ _
      · exact OkInv.err _ _ _
  | delete o =>
    simp only
    split
    · exact OkInv.of (step_delete _ _ _) (keepR_delete _ _ _)
    · exact OkInv.err _ _ _

/-- a successful quiet call keeps the well-formedness facts -/
theorem quiet_call_keeps (op : Op) (s : Store) (st' : St) (hq : quiet sch op = true) (hs : SaveOk s) (hk : IdxOk sch s) (hd : IdxDom sch s)
    (h : run1 sch op { store := s } = .ok st') : SaveOk st'.store ∧ IdxOk sch st'.store ∧ IdxDom sch st'.store := by
  have g0 : Good s ({ store := s } : St) := ⟨hs, Nat.le_refl _, fun t ht => ht.symm⟩
  obtain ⟨h1, h2⟩ := okInv_run1 (sch := sch) op s hq st' h g0
  exact ⟨h1, IdxOk.of_keep hk hd h2⟩

end top

/-! ### flush -/

section flush

theorem flushPk_fold (ids : List (ObjId × Nat)) (s : Store) (l : List ObjId) : ∀ (acc : Store),
    (l.foldl (flushPk ids s) acc).n = acc.n ∧ (l.foldl (flushPk ids s) acc).row = acc.row ∧
    (l.foldl (flushPk ids s) acc).idx = acc.idx ∧ (l.foldl (flushPk ids s) acc).cidx = acc.cidx := by
  induction l with
  | nil => intro acc; exact ⟨rfl, rfl, rfl, rfl⟩
  | cons o l ih =>
    intro acc
    simp only [List.foldl_cons]
    obtain ⟨h1, h2, h3, h4⟩ := ih (flushPk ids s acc o)
    rw [h1, h2, h3, h4]
    unfold flushPk
    dsimp only
    split
    · split <;> exact ⟨rfl, rfl, rfl, rfl⟩
    · split <;> exact ⟨rfl, rfl, rfl, rfl⟩
    · exact ⟨rfl, rfl, rfl, rfl⟩

theorem flushRow_spec (ids : List (ObjId × Nat)) (s : Store) (o : ObjId) :
    (flushRow ids s o).val = (s.row o).val ∧ (flushRow ids s o).status.isDel = (s.row o).status.isDel ∧
    ((s.row o).status.queued = true → (flushRow ids s o).savePos = none) ∧
    ((s.row o).status.queued = false → (flushRow ids s o).savePos = (s.row o).savePos) := by
  unfold flushRow
  dsimp only
  cases (s.row o).status <;> simp [Status.isDel, Status.queued]

/-- flush keeps the well-formedness facts -/
theorem flush_keeps (sch : Schema) (ids : List (ObjId × Nat)) (s : Store) (hs : SaveOk s) (hk : IdxOk sch s) (hd : IdxDom sch s) :
    SaveOk (flush sch ids s) ∧ IdxOk sch (flush sch ids s) ∧ IdxDom sch (flush sch ids s) := by
  unfold flush
  split
  · exact ⟨hs, hk, hd⟩
  · obtain ⟨h1, h2, h3, h4⟩ := flushPk_fold ids s (List.range s.n) { s with row := flushRow ids s }
    dsimp only
    generalize List.foldl (flushPk ids s) { s with row := flushRow ids s } (List.range s.n) = F at h1 h2 h3 h4 ⊢
    have h1' : F.n = s.n := h1
    have h2' : F.row = flushRow ids s := h2
    have h3' : F.idx = s.idx := h3
    have h4' : F.cidx = s.cidx := h4
    refine ⟨?_, ?_, ?_⟩
    · intro o ho
      have ho' : o < s.n := h1' ▸ ho
      show (∀ p, (F.row o).savePos = some p → ([] : List (Option ObjId))[p]? = some (some o)) ∧ ((F.row o).status.queued = false → (F.row o).savePos = none)
      rw [h2']
      obtain ⟨_, _, f3, f4⟩ := flushRow_spec ids s o
      have hnone : (flushRow ids s o).savePos = none := by
        cases hq : (s.row o).status.queued
        · rw [f4 hq]; exact (hs o ho').2 hq
        · exact f3 hq
      rw [hnone]
      exact ⟨fun p hp => (by cases hp), fun _ => rfl⟩
    · intro o ho hl
      have ho' : o < s.n := h1' ▸ ho
      obtain ⟨f1, f2, _, _⟩ := flushRow_spec ids s o
      have hrow : (F.row o) = flushRow ids s o := by rw [h2']
      have hl' : (s.row o).status.isDel = false := by
        have : (F.row o).status.isDel = false := hl
        rw [hrow, f2] at this; exact this
      have hko := hk o ho' hl'
      refine ⟨?_, ?_, ?_, ?_⟩
      · intro a v e
        show (F.row o).val a = some v
        rw [hrow, f1]; exact hko.idxVal a v (h3' ▸ e)
      · intro a u e hu
        have e' : (F.row o).val a = some u := e
        rw [hrow, f1] at e'
        show F.idx a u = some o
        rw [h3']; exact hko.valIdx a u e' hu
      · intro k vs e
        show tuple ((sch.keyAttrs k).map (F.row o).val) = some vs
        rw [hrow, f1]; exact hko.cidxVal k vs (h4' ▸ e)
      · intro k us e hlt
        have e' : tuple ((sch.keyAttrs k).map (F.row o).val) = some us := e
        rw [hrow, f1] at e'
        show F.cidx k us = some o
        rw [h4']; exact hko.valCidx k us e' hlt
    · refine ⟨fun a v o e => ?_, fun k vs o e => ?_⟩
      · have := hd.idx a v o (h3' ▸ e)
        exact ⟨this.1, by show o < F.n; rw [h1']; exact this.2⟩
      · have := hd.cidx k vs o (h4' ▸ e)
        exact ⟨this.1, by show o < F.n; rw [h1']; exact this.2⟩

end flush
end PonyVerif.Model.Undo
