/-
  Lemmas/KeyDb.lean — `Inv_dbkeys` (no two rows agree on a primary / unique / composite key) and its preservation by the
  database statements, flush, commit, rollback and the second writer of Model/KeyDb.lean (C14).  Core Lean only.
-/
import PonyVerif.Model.KeyDb
import PonyVerif.Lemmas.KeyIndexStep
namespace PonyVerif.Model.KeyDb
open PonyVerif.Model.KeyIndex

/-! ## 1. clashes -/

theorem keyClash_iff (sch : Schema) (a b : DbRow) :
    keyClash sch a b = true ↔ ∃ i, i ∈ allKeys sch ∧ ∃ v, rowKv sch a i = some v ∧ rowKv sch b i = some v := by
  unfold keyClash
  rw [List.any_eq_true]
  constructor
  · rintro ⟨i, hi, h⟩
    cases ha : rowKv sch a i with
    | none => simp [ha] at h
    | some v =>
      simp only [ha, beq_iff_eq] at h
      exact ⟨i, hi, v, ha, h⟩
  · rintro ⟨i, hi, v, ha, hb⟩
    exact ⟨i, hi, by simp [ha, hb]⟩

theorem keyClash_symm (sch : Schema) (a b : DbRow) : keyClash sch a b = keyClash sch b a := by
  have h : ∀ x y, keyClash sch x y = true → keyClash sch y x = true := by
    intro x y h
    rw [keyClash_iff] at h ⊢
    obtain ⟨i, hi, v, hx, hy⟩ := h
    exact ⟨i, hi, v, hy, hx⟩
  cases h1 : keyClash sch a b with
  | true => exact (h a b h1).symm
  | false =>
    cases h2 : keyClash sch b a with
    | true => rw [h b a h2] at h1; cases h1
    | false => rfl

theorem clash_symm (sch : Schema) (a b : DbRow) : clash sch a b = clash sch b a := by
  unfold clash
  rw [keyClash_symm sch a b]
  by_cases h : a.pk = b.pk
  · simp [h]
  · have : ¬ b.pk = a.pk := fun e => h e.symm
    simp [h, this]

theorem clash_false {sch : Schema} {a b : DbRow} (h : clash sch a b = false) : a.pk ≠ b.pk ∧ keyClash sch a b = false := by
  unfold clash at h
  simp only [Bool.or_eq_false_iff, decide_eq_false_iff_not] at h
  exact h

/-- `Inv_dbkeys`: no two rows of the table have the same primary key or agree on a unique / composite key (NULLs exempt) -/
def KeysOk (sch : Schema) (t : Table) : Prop := t.Pairwise fun a b => clash sch a b = false

theorem keysOk_nil (sch : Schema) : KeysOk sch [] := List.Pairwise.nil

/-- the statement of `Inv_dbkeys` in words -/
theorem keysOk_spec {sch : Schema} {t : Table} (h : KeysOk sch t) (i j : Nat) (hi : i < t.length) (hj : j < t.length) (hij : i ≠ j) :
    t[i].pk ≠ t[j].pk ∧ ∀ k v, k < sch.keys.length → rowKv sch t[i] k = some v → rowKv sch t[j] k ≠ some v := by
  have hc : clash sch t[i] t[j] = false := by
    rcases Nat.lt_or_gt_of_ne hij with h1 | h1
    · exact List.pairwise_iff_getElem.mp h i j hi hj h1
    · rw [clash_symm]; exact List.pairwise_iff_getElem.mp h j i hj hi h1
  obtain ⟨h1, h2⟩ := clash_false hc
  refine ⟨h1, ?_⟩
  intro k v hk ha hb
  have : keyClash sch t[i] t[j] = true := (keyClash_iff sch _ _).mpr ⟨k, (mem_allKeys sch k).mpr hk, v, ha, hb⟩
  rw [this] at h2; cases h2

/-! ## 2. the three statements keep `Inv_dbkeys` -/

theorem dbInsert_ok {sch : Schema} {t t' : Table} {r : DbRow} (h : KeysOk sch t) (hi : dbInsert sch t r = some t') : KeysOk sch t' := by
  unfold dbInsert at hi
  split at hi
  · cases hi
  · rename_i hany
    simp only [Option.some.injEq] at hi
    subst hi
    unfold KeysOk
    rw [List.pairwise_append]
    refine ⟨h, List.pairwise_singleton _ _, ?_⟩
    intro a ha b hb
    simp only [List.mem_singleton] at hb
    subst hb
    rw [clash_symm]
    simp only [Bool.not_eq_true, List.any_eq_false] at hany
    have := hany a ha
    simpa using this

theorem dbInsert_none {sch : Schema} {t : Table} {r : DbRow} :
    dbInsert sch t r = none ↔ ∃ x, x ∈ t ∧ clash sch r x = true := by
  unfold dbInsert
  split
  · rename_i h
    simp only [true_iff]
    exact List.any_eq_true.mp h
  · rename_i h
    simp only [reduceCtorEq, false_iff]
    intro ⟨x, hx, hc⟩
    exact h (List.any_eq_true.mpr ⟨x, hx, hc⟩)

theorem dbDelete_ok {sch : Schema} {t : Table} (h : KeysOk sch t) (pk : KeyVal) : KeysOk sch (dbDelete t pk) :=
  List.Pairwise.filter _ h

theorem dbUpdate_ok {sch : Schema} {t t' : Table} {r : DbRow} (h : KeysOk sch t) (hu : dbUpdate sch t r = some t') : KeysOk sch t' := by
  unfold dbUpdate at hu
  split at hu
  · cases hu
  · rename_i hany
    simp only [Option.some.injEq] at hu
    subst hu
    unfold KeysOk
    rw [List.pairwise_map]
    have hno : ∀ x, x ∈ t → x.pk ≠ r.pk → keyClash sch r x = false := by
      intro x hx hp
      simp only [Bool.not_eq_true, List.any_eq_false, List.mem_filter, decide_eq_true_eq, and_imp] at hany
      have := hany x hx hp
      simpa using this
    apply List.Pairwise.imp_of_mem _ h
    intro a b ha hb hab
    obtain ⟨hpk, hkc⟩ := clash_false hab
    by_cases ea : a.pk = r.pk
    · by_cases eb : b.pk = r.pk
      · exact absurd (ea.trans eb.symm) hpk
      · simp only [ea, eb, if_true, if_false]
        unfold clash
        have : ¬ r.pk = b.pk := fun e => eb e.symm
        simp [this, hno b hb eb]
    · by_cases eb : b.pk = r.pk
      · simp only [ea, eb, if_true, if_false]
        rw [clash_symm]
        unfold clash
        have : ¬ r.pk = a.pk := fun e => ea e.symm
        simp [this, hno a ha ea]
      · simp only [ea, eb, if_false]
        exact hab

/-! ## 3. the world invariant -/

structure WInv (sch : Schema) (w : World) : Prop where
  committed : KeysOk sch w.committed
  txn : KeysOk sch w.txn
  coherent : w.inTxn = false → w.txn = w.committed     -- outside a transaction the session sees the committed table

theorem WInv.init (sch : Schema) : WInv sch World.init := ⟨keysOk_nil _, keysOk_nil _, fun _ => rfl⟩

/-- what `flushObj` can do to the database: nothing to the committed table; the session's view only inside a
    transaction, and only through accepted statements -/
theorem flushObj_inv {sch : Schema} {w : World} (h : WInv sch w) (o : ObjId) (ids : List Int) :
    WInv sch (flushObj sch w o ids).w ∧ (flushObj sch w o ids).w.committed = w.committed ∧
      ((flushObj sch w o ids).w.txn ≠ w.txn → (flushObj sch w o ids).w.inTxn = true) ∧
      (w.inTxn = true → (flushObj sch w o ids).w.inTxn = true) := by
  have keep : WInv sch { w with inTxn := true, immediate := true } := ⟨h.committed, h.txn, fun e => by cases e⟩
  unfold flushObj
  simp only
  split
  · -- created
    have hgo : ∀ (pk : KeyVal) (newId : Option Int) (ids' : List Int),
        WInv sch (flushInsert sch w o pk newId ids').w ∧ (flushInsert sch w o pk newId ids').w.committed = w.committed ∧
          ((flushInsert sch w o pk newId ids').w.txn ≠ w.txn → (flushInsert sch w o pk newId ids').w.inTxn = true) ∧
          (w.inTxn = true → (flushInsert sch w o pk newId ids').w.inTxn = true) := by
      intro pk newId ids'
      unfold flushInsert
      cases hi : dbInsert sch w.txn (objRow (w.sess.obj o) pk) with
      | none => exact ⟨keep, rfl, fun _ => rfl, fun _ => rfl⟩
      | some t' =>
        have hk := dbInsert_ok h.txn hi
        simp only
        split
        · exact ⟨⟨h.committed, hk, fun e => by cases e⟩, rfl, fun _ => rfl, fun _ => rfl⟩
        · exact ⟨⟨h.committed, hk, fun e => by cases e⟩, rfl, fun _ => rfl, fun _ => rfl⟩
    split
    · exact hgo _ _ _
    · split
      · split
        · exact ⟨keep, rfl, fun _ => rfl, fun _ => rfl⟩
        · exact ⟨h, rfl, fun e => absurd rfl e, fun e => e⟩
      · exact hgo _ _ _
  · -- modified
    split
    · exact ⟨h, rfl, fun e => absurd rfl e, fun e => e⟩
    · split
      · split
        · exact ⟨keep, rfl, fun _ => rfl, fun _ => rfl⟩
        · split
          · exact ⟨keep, rfl, fun _ => rfl, fun _ => rfl⟩
          · split
            · exact ⟨keep, rfl, fun _ => rfl, fun _ => rfl⟩
            · rename_i t' hu
              exact ⟨⟨h.committed, dbUpdate_ok h.txn hu, fun e => by cases e⟩, rfl, fun _ => rfl, fun _ => rfl⟩
      · exact ⟨⟨h.committed, h.txn, h.coherent⟩, rfl, fun e => absurd rfl e, fun e => e⟩
  · -- marked_to_delete
    split
    · exact ⟨h, rfl, fun e => absurd rfl e, fun e => e⟩
    · exact ⟨⟨h.committed, dbDelete_ok h.txn _, fun e => by cases e⟩, rfl, fun _ => rfl, fun _ => rfl⟩
  · exact ⟨h, rfl, fun e => absurd rfl e, fun e => e⟩

theorem flushGo_inv {sch : Schema} (q : List ObjId) {w : World} (h : WInv sch w) (ids : List Int) (sv : Bool) :
    WInv sch (flushGo sch q w ids sv).1 ∧ (flushGo sch q w ids sv).1.committed = w.committed := by
  induction q generalizing w ids sv with
  | nil => exact ⟨h, rfl⟩
  | cons o q ih =>
    unfold flushGo
    simp only
    obtain ⟨h1, h2, _, _⟩ := flushObj_inv h o ids
    split
    · exact ⟨h1, h2⟩
    · obtain ⟨a, b⟩ := ih h1 (flushObj sch w o ids).ids (sv || (flushObj sch w o ids).saved)
      exact ⟨a, b.trans h2⟩

theorem flush_inv {sch : Schema} {w : World} (h : WInv sch w) (ids : List Int) :
    WInv sch (flush sch w ids).1 ∧ (flush sch w ids).1.committed = w.committed := by
  unfold flush
  split
  · exact ⟨h, rfl⟩
  · split
    · exact ⟨h, rfl⟩
    · obtain ⟨a, b⟩ := flushGo_inv w.sess.queue h ids false
      split
      · rename_i w' e saved hg
        rw [hg] at a b
        exact ⟨⟨a.committed, a.txn, a.coherent⟩, b⟩
      · rename_i w' saved hg
        rw [hg] at a b
        exact ⟨⟨a.committed, a.txn, a.coherent⟩, b⟩

theorem flushOne_inv {sch : Schema} {w : World} (h : WInv sch w) (o : ObjId) (ids : List Int) (da : Bool) :
    WInv sch (flushOne sch w o ids da).1 ∧ (flushOne sch w o ids da).1.committed = w.committed := by
  unfold flushOne
  split
  · exact ⟨h, rfl⟩
  · split
    · exact ⟨h, rfl⟩
    · split
      · exact ⟨h, rfl⟩
      · split
        · exact flush_inv h ids
        · obtain ⟨a, b, _, _⟩ := flushObj_inv h o ids
          exact ⟨a, b⟩

theorem rollback_inv {sch : Schema} {w : World} (h : WInv sch w) : WInv sch (rollback w) :=
  ⟨h.committed, h.committed, fun _ => rfl⟩

theorem commit_inv {sch : Schema} {w : World} (h : WInv sch w) (ids : List Int) : WInv sch (commit sch w ids).1 := by
  unfold commit
  obtain ⟨a, _⟩ := flush_inv h ids
  split
  · rename_i w' e hf
    rw [hf] at a
    exact rollback_inv a
  · rename_i w' hf
    rw [hf] at a
    exact ⟨a.txn, a.txn, fun _ => rfl⟩

theorem fetch_inv {sch : Schema} {w : World} (h : WInv sch w) (c : Nat) (pk : KeyVal) (ids : List Int) :
    WInv sch (fetch sch w c pk ids).1 ∧ (fetch sch w c pk ids).1.committed = w.committed := by
  unfold fetch
  split
  · exact ⟨⟨h.committed, h.txn, h.coherent⟩, rfl⟩
  · exact ⟨⟨h.committed, h.txn, h.coherent⟩, rfl⟩
  · rename_i s1 _
    have h1 : WInv sch { w with sess := s1, inTxn := w.inTxn || w.immediate } :=
      ⟨h.committed, h.txn, fun e => h.coherent (by
        simp only [Bool.or_eq_false_iff] at e; exact e.1)⟩
    simp only
    have hf : WInv sch (if ({ w with sess := s1, inTxn := w.inTxn || w.immediate } : World).modified
          then flush sch { w with sess := s1, inTxn := w.inTxn || w.immediate } ids
          else (({ w with sess := s1, inTxn := w.inTxn || w.immediate } : World), (none : Option WErr))).1 ∧
        (if ({ w with sess := s1, inTxn := w.inTxn || w.immediate } : World).modified
          then flush sch { w with sess := s1, inTxn := w.inTxn || w.immediate } ids
          else (({ w with sess := s1, inTxn := w.inTxn || w.immediate } : World), (none : Option WErr))).1.committed = w.committed := by
      split
      · exact flush_inv h1 ids
      · exact ⟨h1, rfl⟩
    split
    · rename_i w2 e hq
      rw [hq] at hf
      exact hf
    · rename_i w2 hq
      rw [hq] at hf
      split
      · exact hf
      · split
        · exact ⟨⟨hf.1.committed, hf.1.txn, hf.1.coherent⟩, hf.2⟩
        · exact ⟨⟨hf.1.committed, hf.1.txn, hf.1.coherent⟩, hf.2⟩

theorem ext_inv {sch : Schema} {w : World} (h : WInv sch w) (st : ExtStmt) : WInv sch (ext sch w st).1 := by
  unfold ext
  split
  · exact h
  · cases st with
    | insert r =>
      simp only
      split
      · exact h
      · rename_i t' hi
        have := dbInsert_ok h.committed hi
        exact ⟨this, this, fun _ => rfl⟩
    | update pk a v =>
      simp only
      split
      · exact h
      · split
        · exact h
        · rename_i t' hu
          have := dbUpdate_ok h.committed hu
          exact ⟨this, this, fun _ => rfl⟩
    | delete pk =>
      have := dbDelete_ok h.committed pk
      exact ⟨this, this, fun _ => rfl⟩

theorem stepW_inv {sch : Schema} {w : World} (h : WInv sch w) (op : WOp) : WInv sch (stepW sch w op).1 := by
  unfold stepW
  cases op with
  | sess op =>
    simp only
    split
    · exact ⟨h.committed, h.txn, h.coherent⟩
    · exact h
  | fetch c pk ids => exact (fetch_inv h c pk ids).1
  | flush ids => exact (flush_inv h ids).1
  | flushOne o ids da => exact (flushOne_inv h o ids da).1
  | commit ids => exact commit_inv h ids
  | rollback => exact rollback_inv h
  | ext r => exact ext_inv h r

/-- only `commit` and the second writer change what other connections see -/
theorem stepW_committed {sch : Schema} {w : World} (h : WInv sch w) (op : WOp)
    (hc : ∀ ids, op ≠ .commit ids) (he : ∀ r, op ≠ .ext r) : (stepW sch w op).1.committed = w.committed := by
  unfold stepW
  cases op with
  | sess op => simp only; split <;> rfl
  | fetch c pk ids => exact (fetch_inv h c pk ids).2
  | flush ids => exact (flush_inv h ids).2
  | flushOne o ids da => exact (flushOne_inv h o ids da).2
  | commit ids => exact absurd rfl (hc ids)
  | rollback => rfl
  | ext r => exact absurd rfl (he r)

/-- a failing `commit()` leaves the database as it was and the session's view equal to it -/
theorem commit_err {sch : Schema} {w : World} (h : WInv sch w) (ids : List Int) (e : WErr) (he : (commit sch w ids).2 = some e) :
    (commit sch w ids).1.committed = w.committed ∧ (commit sch w ids).1.txn = w.committed ∧ (commit sch w ids).1.inTxn = false := by
  unfold commit at he ⊢
  obtain ⟨_, b⟩ := flush_inv h ids
  split
  · rename_i w' e' hf
    rw [hf] at b
    exact ⟨b, b, rfl⟩
  · rename_i w' hf
    simp [hf] at he

/-! ## 4. rows by primary key -/

theorem getRow_cons (x : DbRow) (t : Table) (pk : KeyVal) : getRow (x :: t) pk = if x.pk = pk then some x else getRow t pk := by
  unfold getRow
  rw [List.find?_cons]
  by_cases e : x.pk = pk <;> simp [e]

theorem getRow_append_one (t : Table) (r : DbRow) (pk : KeyVal) :
    getRow (t ++ [r]) pk = match getRow t pk with
      | some y => some y
      | none => if r.pk = pk then some r else none := by
  induction t with
  | nil => simp [getRow_cons, getRow]
  | cons x t ih =>
    rw [List.cons_append, getRow_cons, getRow_cons]
    by_cases e : x.pk = pk
    · simp [e]
    · simp only [e, if_false]; exact ih

theorem getRow_none_of_no_pk (t : Table) (pk : KeyVal) (h : ∀ x, x ∈ t → x.pk ≠ pk) : getRow t pk = none := by
  induction t with
  | nil => rfl
  | cons x t ih =>
    rw [getRow_cons]
    have := h x List.mem_cons_self
    simp only [this, if_false]
    exact ih (fun y hy => h y (List.mem_cons_of_mem _ hy))

/-- INSERT: the new row is found under its primary key, every other primary key finds what it found before -/
theorem getRow_insert {sch : Schema} {t t' : Table} {r : DbRow} (h : dbInsert sch t r = some t') (pk : KeyVal) :
    getRow t' pk = if pk = r.pk then some r else getRow t pk := by
  unfold dbInsert at h
  split at h
  · cases h
  · rename_i hany
    simp only [Option.some.injEq] at h
    subst h
    simp only [Bool.not_eq_true, List.any_eq_false] at hany
    rw [getRow_append_one]
    by_cases e : pk = r.pk
    · subst e
      have : getRow t r.pk = none := by
        apply getRow_none_of_no_pk
        intro x hx e2
        have := hany x hx
        unfold clash at this
        simp [e2] at this
      simp [this]
    · have hr : ¬ r.pk = pk := fun e2 => e e2.symm
      simp only [e, if_false, hr]
      cases getRow t pk <;> rfl

/-- DELETE: only the row with that primary key disappears -/
theorem getRow_delete (t : Table) (k pk : KeyVal) : getRow (dbDelete t k) pk = if pk = k then none else getRow t pk := by
  induction t with
  | nil => simp [dbDelete, getRow]
  | cons x t ih =>
    unfold dbDelete at ih ⊢
    by_cases hx : x.pk = k
    · simp only [List.filter_cons, hx, ne_eq, not_true_eq_false, decide_false, Bool.false_eq_true, if_false, ih, getRow_cons]
      by_cases e : pk = k
      · simp [e]
      · have : ¬ k = pk := fun e2 => e e2.symm
        simp [e, this]
    · simp only [List.filter_cons, ne_eq, hx, not_false_eq_true, decide_true, if_true, getRow_cons, ih]
      by_cases e2 : x.pk = pk
      · have : ¬ pk = k := fun e3 => hx (e2.trans e3)
        simp [e2, this]
      · simp [e2]

theorem getRow_map (t : Table) (r : DbRow) (pk : KeyVal) :
    getRow (t.map fun x => if x.pk = r.pk then r else x) pk =
      if pk = r.pk then (getRow t pk).map (fun _ => r) else getRow t pk := by
  induction t with
  | nil => simp [getRow]
  | cons x t ih =>
    rw [List.map_cons, getRow_cons, getRow_cons, ih]
    by_cases hx : x.pk = r.pk
    · by_cases e : pk = r.pk
      · have : x.pk = pk := hx.trans e.symm
        simp [hx, e]
      · have h1 : ¬ r.pk = pk := fun e2 => e e2.symm
        have h2 : ¬ x.pk = pk := fun e2 => e (e2.symm.trans hx)
        simp [hx, e, h1, h2]
    · by_cases e2 : x.pk = pk
      · have : ¬ pk = r.pk := fun e3 => hx (e2.trans e3)
        simp [hx, e2, this]
      · simp [hx, e2]

/-- UPDATE: only the row with that primary key changes -/
theorem getRow_update {sch : Schema} {t t' : Table} {r : DbRow} (h : dbUpdate sch t r = some t') (pk : KeyVal) :
    getRow t' pk = if pk = r.pk then (getRow t pk).map (fun _ => r) else getRow t pk := by
  unfold dbUpdate at h
  split at h
  · cases h
  · simp only [Option.some.injEq] at h
    subst h
    exact getRow_map t r pk

theorem getRow_pk {t : Table} {k : KeyVal} {r : DbRow} (h : getRow t k = some r) : r.pk = k := by
  unfold getRow at h
  have := List.find?_some h
  simpa using this

/-! ## 5. what one `_save_()` does to the rows -/

/-- a saved NEW object: exactly its row appears (under the explicit or the generated primary key), with the session's values;
    every other primary key finds what it found before -/
theorem flushObj_created_rows {sch : Schema} {w : World} {o : ObjId} {ids : List Int}
    (hst : (w.sess.obj o).status = .created) (he : (flushObj sch w o ids).err = none) :
    ∃ k, ((w.sess.obj o).pk = some k ∨ ((w.sess.obj o).pk = none ∧ ∃ id r, ids = id :: r ∧ k = [id])) ∧
      ∀ pk', getRow (flushObj sch w o ids).w.txn pk' = if pk' = k then some (objRow (w.sess.obj o) k) else getRow w.txn pk' := by
  have hgo : ∀ (pk : KeyVal) (newId : Option Int) (ids' : List Int), (flushInsert sch w o pk newId ids').err = none →
      ∀ pk', getRow (flushInsert sch w o pk newId ids').w.txn pk' = if pk' = pk then some (objRow (w.sess.obj o) pk) else getRow w.txn pk' := by
    intro pk newId ids'
    unfold flushInsert
    cases hi : dbInsert sch w.txn (objRow (w.sess.obj o) pk) with
    | none => intro h; cases h
    | some t' =>
      simp only
      split
      · intro h; cases h
      · intro _ pk'
        exact getRow_insert hi pk'
  unfold flushObj at he ⊢
  simp only [hst] at he ⊢
  cases hpk : (w.sess.obj o).pk with
  | some k =>
    simp only [hpk] at he ⊢
    exact ⟨k, by simp, hgo k none ids he⟩
  | none =>
    simp only [hpk] at he ⊢
    cases ids with
    | nil =>
      simp only at he
      split at he <;> cases he
    | cons id r =>
      simp only at he ⊢
      exact ⟨[id], by simp, hgo [id] (some id) r he⟩

/-- a saved MODIFIED object: exactly its row changes, and it gets the session's values in the written columns -/
theorem flushObj_modified_rows {sch : Schema} {w : World} {o : ObjId} {ids : List Int} {k : KeyVal}
    (hst : (w.sess.obj o).status = .modified) (hpk : (w.sess.obj o).pk = some k)
    (hw : (List.range sch.nattrs).any (w.sess.obj o).wbits = true) (he : (flushObj sch w o ids).err = none) :
    ∃ old, getRow w.txn k = some old ∧
      ∀ pk', getRow (flushObj sch w o ids).w.txn pk' = if pk' = k then some (updRow (w.sess.obj o) old) else getRow w.txn pk' := by
  unfold flushObj at he ⊢
  simp only [hst, hpk, hw, if_true] at he ⊢
  cases hold : getRow w.txn k with
  | none => simp [hold] at he
  | some old =>
    simp only [hold] at he ⊢
    split at he
    · cases he
    · rename_i hopt
      rw [if_neg hopt]
      cases hu : dbUpdate sch w.txn (updRow (w.sess.obj o) old) with
      | none => simp [hu] at he
      | some t' =>
        simp only
        refine ⟨old, rfl, ?_⟩
        intro pk'
        have hk : (updRow (w.sess.obj o) old).pk = k := show old.pk = k from getRow_pk hold
        rw [getRow_update hu pk', hk]
        by_cases e : pk' = k
        · subst e; simp [hold]
        · simp [e]

/-- the session after a successful save of a modified object -/
theorem flushObj_modified_sess {sch : Schema} {w : World} {o : ObjId} {ids : List Int} {k : KeyVal}
    (hst : (w.sess.obj o).status = .modified) (hpk : (w.sess.obj o).pk = some k)
    (hw : (List.range sch.nattrs).any (w.sess.obj o).wbits = true) (he : (flushObj sch w o ids).err = none) :
    (flushObj sch w o ids).w.sess = (saveUpdated w.sess o).1 := by
  unfold flushObj at he ⊢
  simp only [hst, hpk, hw, if_true] at he ⊢
  cases hold : getRow w.txn k with
  | none => simp [hold] at he
  | some old =>
    simp only [hold] at he ⊢
    split at he
    · cases he
    · rename_i hopt
      rw [if_neg hopt]
      cases hu : dbUpdate sch w.txn (updRow (w.sess.obj o) old) with
      | none => simp [hu] at he
      | some t' => rfl

/-- a saved DELETED object: exactly its row disappears -/
theorem flushObj_deleted_rows {sch : Schema} {w : World} {o : ObjId} {ids : List Int} {k : KeyVal}
    (hst : (w.sess.obj o).status = .markedToDelete) (hpk : (w.sess.obj o).pk = some k) (pk' : KeyVal) :
    getRow (flushObj sch w o ids).w.txn pk' = if pk' = k then none else getRow w.txn pk' := by
  unfold flushObj
  simp only [hst, hpk]
  exact getRow_delete w.txn k pk'

/-! ## 6. the whole queue: no INSERT is lost -/

theorem saveCreated_frame (s : Sess) (o : ObjId) (id : Option Int) :
    (saveCreated s o id).1.n = s.n ∧ ∀ x, x ≠ o → (saveCreated s o id).1.obj x = s.obj x := by
  unfold saveCreated
  simp only
  split
  · exact ⟨rfl, fun _ _ => rfl⟩
  · split
    · exact ⟨rfl, fun _ _ => rfl⟩
    · split
      · exact ⟨rfl, fun x hx => setObj_other _ _ _ _ hx⟩
      · split
        · exact ⟨rfl, fun _ _ => rfl⟩
        · split
          · split
            · exact ⟨rfl, fun x hx => setObj_other _ _ _ _ hx⟩
            · exact ⟨rfl, fun _ _ => rfl⟩
          · exact ⟨rfl, fun x hx => setObj_other _ _ _ _ hx⟩

theorem saveUpdated_frame (s : Sess) (o : ObjId) :
    (saveUpdated s o).1.n = s.n ∧ ∀ x, x ≠ o → (saveUpdated s o).1.obj x = s.obj x := by
  unfold saveUpdated
  simp only
  split
  · exact ⟨rfl, fun _ _ => rfl⟩
  · split
    · exact ⟨rfl, fun _ _ => rfl⟩
    · exact ⟨rfl, fun x hx => setObj_other _ _ _ _ hx⟩

theorem saveDeleted_frame (s : Sess) (o : ObjId) :
    (saveDeleted s o).1.n = s.n ∧ ∀ x, x ≠ o → (saveDeleted s o).1.obj x = s.obj x := by
  unfold saveDeleted
  simp only
  split
  · exact ⟨rfl, fun _ _ => rfl⟩
  · split
    · exact ⟨rfl, fun _ _ => rfl⟩
    · exact ⟨rfl, fun x hx => setObj_other _ _ _ _ hx⟩

/-- one `_save_()` changes no other object of the session and keeps the session's index invariant -/
theorem flushObj_sess {sch : Schema} (w : World) (o : ObjId) (ids : List Int) (hI : Inv sch w.sess) :
    Inv sch (flushObj sch w o ids).w.sess ∧ (flushObj sch w o ids).w.sess.n = w.sess.n ∧
      ∀ x, x ≠ o → (flushObj sch w o ids).w.sess.obj x = w.sess.obj x := by
  have hins : ∀ pk id ids', Inv sch (flushInsert sch w o pk id ids').w.sess ∧ (flushInsert sch w o pk id ids').w.sess.n = w.sess.n ∧
      ∀ x, x ≠ o → (flushInsert sch w o pk id ids').w.sess.obj x = w.sess.obj x := by
    intro pk id ids'
    unfold flushInsert
    split
    · exact ⟨hI, rfl, fun _ _ => rfl⟩
    · split
      · exact ⟨hI, rfl, fun _ _ => rfl⟩
      · exact ⟨saveCreated_inv hI o id, (saveCreated_frame w.sess o id).1, (saveCreated_frame w.sess o id).2⟩
  unfold flushObj
  simp only
  split
  · split
    · exact hins _ _ _
    · split
      · split <;> exact ⟨hI, rfl, fun _ _ => rfl⟩
      · exact hins _ _ _
  · split
    · exact ⟨hI, rfl, fun _ _ => rfl⟩
    · split
      · split
        · exact ⟨hI, rfl, fun _ _ => rfl⟩
        · split
          · exact ⟨hI, rfl, fun _ _ => rfl⟩
          · split
            · exact ⟨hI, rfl, fun _ _ => rfl⟩
            · exact ⟨saveUpdated_inv hI o, (saveUpdated_frame w.sess o).1, (saveUpdated_frame w.sess o).2⟩
      · exact ⟨saveUpdated_inv hI o, (saveUpdated_frame w.sess o).1, (saveUpdated_frame w.sess o).2⟩
  · split
    · exact ⟨hI, rfl, fun _ _ => rfl⟩
    · exact ⟨saveDeleted_inv hI o, (saveDeleted_frame w.sess o).1, (saveDeleted_frame w.sess o).2⟩
  · exact ⟨hI, rfl, fun _ _ => rfl⟩

theorem saveCreated_result (s : Sess) (o : ObjId) (id : Option Int) (ho : o < s.n) (hst : (s.obj o).status = .created)
    (herr : (saveCreated s o id).2.err = none) :
    ((saveCreated s o id).1.obj o).status = .inserted ∧
    (∀ k, (s.obj o).pk = some k → ((saveCreated s o id).1.obj o).pk = some k) ∧
    ((s.obj o).pk = none → ∀ i, id = some i → ((saveCreated s o id).1.obj o).pk = some [i]) := by
  unfold saveCreated at herr ⊢
  have h1 : ¬ o ≥ s.n := Nat.not_le_of_lt ho
  simp only [h1, if_false, hst, ne_eq, not_true_eq_false] at herr ⊢
  cases hpk : (s.obj o).pk with
  | some k => simp [hpk]
  | none =>
    simp only [hpk] at herr ⊢
    cases id with
    | none => simp at herr
    | some i =>
      simp only at herr ⊢
      cases hg : s.pkIx.get [i] with
      | none => simp [hg]
      | some o2 =>
        simp only [hg] at herr ⊢
        by_cases e : o2 = o
        · simp [e]
        · simp [e] at herr

/-- a NEW object saved without error: its row is in the session's view under the key it now holds (explicit or generated) -/
theorem flushObj_created_result {sch : Schema} (w : World) (o : ObjId) (ids : List Int) (ho : o < w.sess.n)
    (hst : (w.sess.obj o).status = .created) (he : (flushObj sch w o ids).err = none) :
    ∃ k, ((flushObj sch w o ids).w.sess.obj o).pk = some k ∧ ((flushObj sch w o ids).w.sess.obj o).status.holdsPk = true ∧
      ∀ pk', getRow (flushObj sch w o ids).w.txn pk' = if pk' = k then some (objRow (w.sess.obj o) k) else getRow w.txn pk' := by
  obtain ⟨k, hk0, hrows⟩ := flushObj_created_rows hst he
  have hsave : ∃ id : Option Int, (flushObj sch w o ids).w.sess = (saveCreated w.sess o id).1 ∧ (saveCreated w.sess o id).2.err = none ∧
      ((w.sess.obj o).pk = none → ∃ i, id = some i ∧ k = [i]) := by
    unfold flushObj at he ⊢
    simp only [hst] at he ⊢
    rcases hk0 with hp | ⟨hp, i, r, hids, hk⟩
    · simp only [hp] at he ⊢
      unfold flushInsert at he ⊢
      cases hi : dbInsert sch w.txn (objRow (w.sess.obj o) k) with
      | none => simp [hi] at he
      | some t' =>
        simp only [hi] at he ⊢
        cases hs : (saveCreated w.sess o none).2.err with
        | some e => simp [hs] at he
        | none => exact ⟨none, by simp [hs], hs, fun h => by cases h⟩
    · subst hk hids
      simp only [hp] at he ⊢
      unfold flushInsert at he ⊢
      cases hi : dbInsert sch w.txn (objRow (w.sess.obj o) [i]) with
      | none => simp [hi] at he
      | some t' =>
        simp only [hi] at he ⊢
        cases hs : (saveCreated w.sess o (some i)).2.err with
        | some e => simp [hs] at he
        | none => exact ⟨some i, by simp [hs], hs, fun _ => ⟨i, rfl, rfl⟩⟩
  obtain ⟨id, hsess, herr, hauto⟩ := hsave
  obtain ⟨r1, r2, r3⟩ := saveCreated_result w.sess o id ho hst herr
  refine ⟨k, ?_, by rw [hsess, r1]; rfl, hrows⟩
  rw [hsess]
  cases hp : (w.sess.obj o).pk with
  | some k1 =>
    rcases hk0 with h | ⟨h, _⟩
    · rw [hp] at h; cases h; exact r2 k hp
    · rw [hp] at h; cases h
  | none =>
    obtain ⟨i, a, b⟩ := hauto hp
    rw [b]; exact r3 hp i a

/-- one successful `_save_()` of `o` leaves the row of every OTHER object that holds a primary key where it was -/
theorem flushObj_keeps_row {sch : Schema} (w : World) (o : ObjId) (ids : List Int) (hI : Inv sch w.sess) (ho : o < w.sess.n)
    (he : (flushObj sch w o ids).err = none) (x : ObjId) (hx : x < w.sess.n) (hxo : x ≠ o) (k : KeyVal)
    (hpk : (w.sess.obj x).pk = some k) (hh : (w.sess.obj x).status.holdsPk = true) :
    getRow (flushObj sch w o ids).w.txn k = getRow w.txn k := by
  obtain ⟨hI', hn', hfr⟩ := flushObj_sess w o ids hI
  -- in the session AFTER the save `x` is unchanged and still holds `k`
  have hx' : x < (flushObj sch w o ids).w.sess.n := hn' ▸ hx
  have hpk' : ((flushObj sch w o ids).w.sess.obj x).pk = some k := by rw [hfr x hxo]; exact hpk
  have hh' : ((flushObj sch w o ids).w.sess.obj x).status.holdsPk = true := by rw [hfr x hxo]; exact hh
  cases hst : (w.sess.obj o).status with
  | created =>
    obtain ⟨k0, hopk, host, hrows⟩ := flushObj_created_result w o ids ho hst he
    rw [hrows k]
    have hne : k ≠ k0 := by
      intro e; subst e
      have := hI'.pk_complete o k (hn' ▸ ho) hopk host
      rw [hI'.pk_complete x k hx' hpk' hh'] at this
      exact hxo (Option.some.inj this)
    simp [hne]
  | modified =>
    cases hpo : (w.sess.obj o).pk with
    | none => unfold flushObj at he; simp [hst, hpo] at he
    | some k0 =>
      have hne : k ≠ k0 := by
        intro e; subst e
        have a := hI.pk_complete o k ho hpo (by rw [hst]; rfl)
        rw [hI.pk_complete x k hx hpk hh] at a
        exact hxo (Option.some.inj a)
      by_cases hw : (List.range sch.nattrs).any (w.sess.obj o).wbits = true
      · obtain ⟨old, _, hrows⟩ := flushObj_modified_rows hst hpo hw he
        rw [hrows k]; simp [hne]
      · unfold flushObj; simp [hst, hpo, hw]
  | markedToDelete =>
    cases hpo : (w.sess.obj o).pk with
    | none => unfold flushObj at he; simp [hst, hpo] at he
    | some k0 =>
      have hne : k ≠ k0 := by
        intro e; subst e
        have a := hI.pk_complete o k ho hpo (by rw [hst]; rfl)
        rw [hI.pk_complete x k hx hpk hh] at a
        exact hxo (Option.some.inj a)
      rw [flushObj_deleted_rows hst hpo k]; simp [hne]
  | loaded => unfold flushObj at he; simp [hst] at he
  | inserted => unfold flushObj at he; simp [hst] at he
  | updated => unfold flushObj at he; simp [hst] at he
  | deleted => unfold flushObj at he; simp [hst] at he
  | cancelled => unfold flushObj at he; simp [hst] at he

/-- the rest of the queue leaves the row of an object that is not in it where it was -/
theorem flushGo_keeps_row {sch : Schema} (q : List ObjId) (w : World) (ids : List Int) (sv : Bool) (hI : Inv sch w.sess)
    (hq : ∀ o, o ∈ q → o < w.sess.n) (w' : World) (sv' : Bool) (hg : flushGo sch q w ids sv = (w', none, sv'))
    (x : ObjId) (hx : x < w.sess.n) (hxq : x ∉ q) (k : KeyVal) (hpk : (w.sess.obj x).pk = some k)
    (hh : (w.sess.obj x).status.holdsPk = true) :
    getRow w'.txn k = getRow w.txn k ∧ w'.sess.obj x = w.sess.obj x := by
  induction q generalizing w ids sv with
  | nil => simp only [flushGo, Prod.mk.injEq] at hg; rw [← hg.1]; exact ⟨rfl, rfl⟩
  | cons o q ih =>
    unfold flushGo at hg
    simp only at hg
    cases he : (flushObj sch w o ids).err with
    | some e => simp [he] at hg
    | none =>
      simp only [he] at hg
      have ho := hq o List.mem_cons_self
      have hxo : x ≠ o := fun e => hxq (e ▸ List.mem_cons_self)
      obtain ⟨hI1, hn1, hfr⟩ := flushObj_sess w o ids hI
      have hrow := flushObj_keeps_row w o ids hI ho he x hx hxo k hpk hh
      obtain ⟨a, b⟩ := ih (flushObj sch w o ids).w (flushObj sch w o ids).ids (sv || (flushObj sch w o ids).saved) hI1
        (fun y hy => hn1 ▸ hq y (List.mem_cons_of_mem _ hy)) hg (hn1 ▸ hx) (fun h => hxq (List.mem_cons_of_mem _ h))
        (by rw [hfr x hxo]; exact hpk) (by rw [hfr x hxo]; exact hh)
      exact ⟨a.trans hrow, b.trans (hfr x hxo)⟩

/-- NO INSERT IS LOST: after a flush loop that ran without error, every object of the queue that was `created` has its row in
    the table the session sees, under the primary key it now holds (explicit or generated), with the values it had -/
theorem flushGo_inserts {sch : Schema} (q : List ObjId) (hnd : q.Nodup) (w : World) (ids : List Int) (sv : Bool) (hI : Inv sch w.sess)
    (hq : ∀ o, o ∈ q → o < w.sess.n) (w' : World) (sv' : Bool) (hg : flushGo sch q w ids sv = (w', none, sv'))
    (o : ObjId) (ho : o ∈ q) (hst : (w.sess.obj o).status = .created) :
    ∃ k, (w'.sess.obj o).pk = some k ∧ getRow w'.txn k = some (objRow (w.sess.obj o) k) := by
  induction q generalizing w ids sv with
  | nil => cases ho
  | cons p q ih =>
    have hp : p ∉ q := (List.nodup_cons.mp hnd).1
    have hnd' := (List.nodup_cons.mp hnd).2
    unfold flushGo at hg
    simp only at hg
    cases he : (flushObj sch w p ids).err with
    | some e => simp [he] at hg
    | none =>
      simp only [he] at hg
      obtain ⟨hI1, hn1, hfr⟩ := flushObj_sess w p ids hI
      have hq1 : ∀ y, y ∈ q → y < (flushObj sch w p ids).w.sess.n := fun y hy => hn1 ▸ hq y (List.mem_cons_of_mem _ hy)
      rcases List.mem_cons.mp ho with e | hoq
      · subst e
        obtain ⟨k, hk1, hk2, hrows⟩ := flushObj_created_result w o ids (hq o List.mem_cons_self) hst he
        obtain ⟨a, b⟩ := flushGo_keeps_row q _ _ _ hI1 hq1 w' sv' hg o (hn1 ▸ hq o List.mem_cons_self) hp k hk1 hk2
        refine ⟨k, by rw [b]; exact hk1, ?_⟩
        rw [a, hrows k]; simp
      · have hop : o ≠ p := fun e => hp (e ▸ hoq)
        have := ih hnd' (flushObj sch w p ids).w (flushObj sch w p ids).ids (sv || (flushObj sch w p ids).saved) hI1 hq1 hg hoq
          (by rw [hfr o hop]; exact hst)
        rw [hfr o hop] at this
        exact this

/-! ## 7. the whole queue: updates, deletes, and nothing else -/

/-- the generated ids a save leaves for the rest of the queue are among those it was given -/
theorem flushObj_ids {sch : Schema} (w : World) (p : ObjId) (ids : List Int) : ∀ i, i ∈ (flushObj sch w p ids).ids → i ∈ ids := by
  have hins : ∀ pk id ids', (flushInsert sch w p pk id ids').ids = ids' := by
    intro pk id ids'; unfold flushInsert; split
    · rfl
    · split <;> rfl
  unfold flushObj
  simp only
  split
  · split
    · rw [hins]; exact fun i h => h
    · split
      · split <;> exact fun i h => h
      · rename_i id r
        rw [hins]; exact fun i h => List.mem_cons_of_mem _ h
  · split
    · exact fun i h => h
    · split
      · split
        · exact fun i h => h
        · split
          · exact fun i h => h
          · split <;> exact fun i h => h
      · exact fun i h => h
  · split <;> exact fun i h => h
  · exact fun i h => h

/-- one successful `_save_()` of `p` touches no row but `p`'s own: any primary key that `p` does not hold and that is not
    one of the ids the database may generate finds what it found before -/
theorem flushObj_only_own_row {sch : Schema} (w : World) (p : ObjId) (ids : List Int) (he : (flushObj sch w p ids).err = none)
    (k : KeyVal) (hk : (w.sess.obj p).pk ≠ some k) (hid : ∀ i, i ∈ ids → k ≠ [i]) :
    getRow (flushObj sch w p ids).w.txn k = getRow w.txn k := by
  cases hst : (w.sess.obj p).status with
  | created =>
    obtain ⟨k0, hk0, hrows⟩ := flushObj_created_rows hst he
    rw [hrows k]
    have : k ≠ k0 := by
      intro e; subst e
      rcases hk0 with h | ⟨_, i, r, hids, hki⟩
      · exact hk h
      · exact hid i (hids ▸ List.mem_cons_self) hki
    simp [this]
  | modified =>
    cases hpo : (w.sess.obj p).pk with
    | none => unfold flushObj at he; simp [hst, hpo] at he
    | some k0 =>
      have hne : k ≠ k0 := fun e => hk (e ▸ hpo)
      by_cases hw : (List.range sch.nattrs).any (w.sess.obj p).wbits = true
      · obtain ⟨old, _, hrows⟩ := flushObj_modified_rows hst hpo hw he
        rw [hrows k]; simp [hne]
      · unfold flushObj; simp [hst, hpo, hw]
  | markedToDelete =>
    cases hpo : (w.sess.obj p).pk with
    | none => unfold flushObj at he; simp [hst, hpo] at he
    | some k0 =>
      have hne : k ≠ k0 := fun e => hk (e ▸ hpo)
      rw [flushObj_deleted_rows hst hpo k]; simp [hne]
  | loaded => unfold flushObj at he; simp [hst] at he
  | inserted => unfold flushObj at he; simp [hst] at he
  | updated => unfold flushObj at he; simp [hst] at he
  | deleted => unfold flushObj at he; simp [hst] at he
  | cancelled => unfold flushObj at he; simp [hst] at he

/-- the whole loop touches only the rows of the queued objects (and of generated ids) -/
theorem flushGo_other_rows {sch : Schema} (q : List ObjId) (w : World) (ids : List Int) (sv : Bool) (hI : Inv sch w.sess)
    (w' : World) (sv' : Bool) (hg : flushGo sch q w ids sv = (w', none, sv'))
    (k : KeyVal) (hk : ∀ p, p ∈ q → (w.sess.obj p).pk ≠ some k) (hid : ∀ i, i ∈ ids → k ≠ [i]) (hnd : q.Nodup) :
    getRow w'.txn k = getRow w.txn k := by
  induction q generalizing w ids sv with
  | nil => simp only [flushGo, Prod.mk.injEq] at hg; rw [← hg.1]
  | cons p q ih =>
    have hp : p ∉ q := (List.nodup_cons.mp hnd).1
    unfold flushGo at hg
    simp only at hg
    cases he : (flushObj sch w p ids).err with
    | some e => simp [he] at hg
    | none =>
      simp only [he] at hg
      obtain ⟨hI1, _, hfr⟩ := flushObj_sess w p ids hI
      have h1 := flushObj_only_own_row w p ids he k (hk p List.mem_cons_self) hid
      have h2 := ih (flushObj sch w p ids).w (flushObj sch w p ids).ids (sv || (flushObj sch w p ids).saved) hI1 hg
        (fun x hx => by
          have hxp : x ≠ p := fun e => hp (e ▸ hx)
          rw [hfr x hxp]; exact hk x (List.mem_cons_of_mem _ hx))
        (fun i hi => hid i (flushObj_ids w p ids i hi)) (List.nodup_cons.mp hnd).2
      exact h2.trans h1

theorem saveUpdated_result (s : Sess) (o : ObjId) (ho : o < s.n) (hst : (s.obj o).status = .modified) :
    ((saveUpdated s o).1.obj o).pk = (s.obj o).pk ∧ ((saveUpdated s o).1.obj o).status = .updated := by
  unfold saveUpdated
  have h1 : ¬ o ≥ s.n := Nat.not_le_of_lt ho
  simp [h1, hst]

/-- a loop that ended well only met objects with pending writes (`created` / `modified` / `marked_to_delete`): each still holds its key -/
theorem flushGo_pending {sch : Schema} (q : List ObjId) (hnd : q.Nodup) (w : World) (ids : List Int) (sv : Bool) (hI : Inv sch w.sess)
    (w' : World) (sv' : Bool) (hg : flushGo sch q w ids sv = (w', none, sv')) :
    ∀ x, x ∈ q → (w.sess.obj x).status.holdsPk = true := by
  induction q generalizing w ids sv with
  | nil => intro x hx; cases hx
  | cons p q ih =>
    have hp : p ∉ q := (List.nodup_cons.mp hnd).1
    unfold flushGo at hg
    simp only at hg
    cases he : (flushObj sch w p ids).err with
    | some e => simp [he] at hg
    | none =>
      simp only [he] at hg
      obtain ⟨hI1, _, hfr⟩ := flushObj_sess w p ids hI
      intro x hx
      rcases List.mem_cons.mp hx with e | hxq
      · subst e
        cases hst : (w.sess.obj x).status <;> first | rfl | (unfold flushObj at he; simp [hst] at he)
      · have hxp : x ≠ p := fun e => hp (e ▸ hxq)
        have := ih (List.nodup_cons.mp hnd).2 _ _ _ hI1 hg x hxq
        rwa [hfr x hxp] at this

/-- NO UPDATE IS LOST and NO DELETE COMES BACK: per queued object, relative to the row the session's connection saw before -/
theorem flushGo_updates_deletes {sch : Schema} (q : List ObjId) (hnd : q.Nodup) (w : World) (ids : List Int) (sv : Bool) (hI : Inv sch w.sess)
    (hq : ∀ o, o ∈ q → o < w.sess.n) (w' : World) (sv' : Bool) (hg : flushGo sch q w ids sv = (w', none, sv'))
    (o : ObjId) (ho : o ∈ q) (k : KeyVal) (hpk : (w.sess.obj o).pk = some k) :
    ((w.sess.obj o).status = .modified → (List.range sch.nattrs).any (w.sess.obj o).wbits = true →
        ∃ old, getRow w.txn k = some old ∧ getRow w'.txn k = some (updRow (w.sess.obj o) old)) ∧
    ((w.sess.obj o).status = .markedToDelete → (∀ i, i ∈ ids → k ≠ [i]) → getRow w'.txn k = none) := by
  induction q generalizing w ids sv with
  | nil => cases ho
  | cons p q ih =>
    have hp : p ∉ q := (List.nodup_cons.mp hnd).1
    have hnd' := (List.nodup_cons.mp hnd).2
    unfold flushGo at hg
    simp only at hg
    cases he : (flushObj sch w p ids).err with
    | some e => simp [he] at hg
    | none =>
      simp only [he] at hg
      obtain ⟨hI1, hn1, hfr⟩ := flushObj_sess w p ids hI
      have hq1 : ∀ y, y ∈ q → y < (flushObj sch w p ids).w.sess.n := fun y hy => hn1 ▸ hq y (List.mem_cons_of_mem _ hy)
      rcases List.mem_cons.mp ho with e | hoq
      · subst e
        have hon := hq o List.mem_cons_self
        constructor
        · intro hst hw
          obtain ⟨old, hold, hrows⟩ := flushObj_modified_rows hst hpk hw he
          -- after its own save `o` is `updated` and still holds `k`: the rest of the queue keeps the row
          have hso : (flushObj sch w o ids).w.sess.obj o = (saveUpdated w.sess o).1.obj o := by
            rw [flushObj_modified_sess hst hpk hw he]
          obtain ⟨su1, su2⟩ := saveUpdated_result w.sess o hon hst
          obtain ⟨a, _⟩ := flushGo_keeps_row q _ _ _ hI1 hq1 w' sv' hg o (hn1 ▸ hon) hp k
            (by rw [hso, su1]; exact hpk) (by rw [hso, su2]; rfl)
          exact ⟨old, hold, by rw [a, hrows k]; simp⟩
        · intro hst hid
          have h1 : getRow (flushObj sch w o ids).w.txn k = none := by
            rw [flushObj_deleted_rows hst hpk k]; simp
          -- no other queued object holds `k` (they all held their keys together with `o` at the start)
          have hrest := flushGo_other_rows q _ _ _ hI1 w' sv' hg k
            (fun x hx => by
              have hxo : x ≠ o := fun e => hp (e ▸ hx)
              rw [hfr x hxo]
              intro hxk
              have hx' := hq x (List.mem_cons_of_mem _ hx)
              have hsx : (w.sess.obj x).status.holdsPk = true := by
                have := flushGo_pending q hnd' _ _ _ hI1 w' sv' hg x hx
                rwa [hfr x hxo] at this
              have a := hI.pk_complete x k hx' hxk hsx
              rw [hI.pk_complete o k hon hpk (by rw [hst]; rfl)] at a
              exact hxo (Option.some.inj a).symm)
            (fun i hi => hid i (flushObj_ids w o ids i hi)) hnd'
          rw [hrest]; exact h1
      · have hop : o ≠ p := fun e => hp (e ▸ hoq)
        have := ih hnd' (flushObj sch w p ids).w (flushObj sch w p ids).ids (sv || (flushObj sch w p ids).saved) hI1 hq1 hg hoq
          (by rw [hfr o hop]; exact hpk)
        rw [hfr o hop] at this
        have hon := hq o (List.mem_cons_of_mem _ hoq)
        constructor
        · intro hst hw
          obtain ⟨old, hold, hnew⟩ := this.1 hst hw
          have hkeep := flushObj_keeps_row w p ids hI (hq p List.mem_cons_self) he o hon hop k hpk (by rw [hst]; rfl)
          exact ⟨old, hkeep ▸ hold, hnew⟩
        · intro hst hid
          exact this.2 hst (fun i hi => hid i (flushObj_ids w p ids i hi))

/-- what a `commit()` that returned normally did, in terms of the loop: the committed table is the session's view after the loop -/
theorem commit_ok_flushGo {sch : Schema} {w : World} {ids : List Int} (hm : w.modified = true) (hp : w.pendingSaved = false)
    (hc : (stepW sch w (.commit ids)).2 = none) :
    ∃ w' sv, flushGo sch w.sess.queue w ids false = (w', none, sv) ∧ (stepW sch w (.commit ids)).1.committed = w'.txn := by
  simp only [stepW, commit, flush, hp, hm, Bool.false_eq_true, if_false, Bool.not_true] at hc ⊢
  cases hg : flushGo sch w.sess.queue w ids false with
  | mk w' r =>
    obtain ⟨e, sv⟩ := r
    cases e with
    | some e => simp [hg] at hc
    | none => exact ⟨w', sv, rfl, by simp⟩

end PonyVerif.Model.KeyDb
