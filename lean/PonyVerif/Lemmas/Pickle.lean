/- helper lemmas for C31: values after `_db_set_(unpickling=True)` -/
import PonyVerif.Model.Pickle
namespace PonyVerif.Model.Pickle

theorem lookup_append' (l₁ l₂ : List (String × Nat)) (a : String) :
    (l₁ ++ l₂).lookup a = (l₁.lookup a).or (l₂.lookup a) := by
  induction l₁ with
  | nil => simp
  | cons e l ih =>
    obtain ⟨k, v⟩ := e
    by_cases h : a == k
    · simp [List.lookup, h]
    · simp [List.lookup, h, ih]

theorem lookup_filter_missing (vals d : List (String × Nat)) (a : String) (h : vals.lookup a = none) :
    (d.filter (fun e => (vals.lookup e.1).isNone)).lookup a = d.lookup a := by
  induction d with
  | nil => rfl
  | cons e l ih =>
    obtain ⟨k, v⟩ := e
    by_cases hk : a == k
    · have : a = k := by simpa using hk
      subst this
      simp [List.filter, h, List.lookup]
    · by_cases hv : (vals.lookup k).isNone
      · simp [List.filter, hv, List.lookup, hk, ih]
      · simp [List.filter, hv, List.lookup, hk, ih]

/-- the value of attribute `a` after unpickling into an object: the session's value if it had one, else the pickled one -/
theorem lookup_setMissing (vals d : List (String × Nat)) (a : String) :
    (setMissing vals d).lookup a = (vals.lookup a).or (d.lookup a) := by
  unfold setMissing
  rw [lookup_append']
  cases h : vals.lookup a with
  | some v => simp
  | none => simp [lookup_filter_missing vals d a h]

end PonyVerif.Model.Pickle
