/-
  Lemmas/KeyLookup.lean — invariant of Model/KeyLookup.lean (the key index describes exactly the live objects of the cache; the
  table satisfies its UNIQUE constraint; rows and clean objects agree), its preservation by every operation, the flush theorem and
  the answers of the lookups.
-/
import PonyVerif.Model.KeyLookup
namespace PonyVerif.Model.KeyLookup

@[simp] theorem setObj_objs (w : World) (i j : Id) (o : Obj) : (setObj w i o).objs j = if j = i then some o else w.objs j := rfl
@[simp] theorem setObj_idx (w : World) (i : Id) (o : Obj) : (setObj w i o).idx = w.idx := rfl
@[simp] theorem setObj_rows (w : World) (i : Id) (o : Obj) : (setObj w i o).rows = w.rows := rfl
@[simp] theorem setObj_ids (w : World) (i : Id) (o : Obj) : (setObj w i o).ids = w.ids := rfl
@[simp] theorem setObj_modified (w : World) (i : Id) (o : Obj) : (setObj w i o).modified = w.modified := rfl
@[simp] theorem setIdx_objs (w : World) (v : KV) (r : Option Id) : (setIdx w v r).objs = w.objs := rfl
@[simp] theorem setIdx_idx (w : World) (v u : KV) (r : Option Id) : (setIdx w v r).idx u = if u = v then r else w.idx u := rfl
@[simp] theorem setIdx_rows (w : World) (v : KV) (r : Option Id) : (setIdx w v r).rows = w.rows := rfl
@[simp] theorem setIdx_ids (w : World) (v : KV) (r : Option Id) : (setIdx w v r).ids = w.ids := rfl
@[simp] theorem setIdx_modified (w : World) (v : KV) (r : Option Id) : (setIdx w v r).modified = w.modified := rfl
@[simp] theorem addId_objs (w : World) (i : Id) : (addId w i).objs = w.objs := rfl
@[simp] theorem addId_idx (w : World) (i : Id) : (addId w i).idx = w.idx := rfl
@[simp] theorem addId_rows (w : World) (i : Id) : (addId w i).rows = w.rows := rfl
@[simp] theorem addId_modified (w : World) (i : Id) : (addId w i).modified = w.modified := rfl
theorem mem_addId (w : World) (i j : Id) : j ∈ (addId w i).ids ↔ j ∈ w.ids ∨ j = i := by
  unfold addId; by_cases h : i ∈ w.ids
  · simp [h]; intro e; subst e; exact h
  · simp [h]; exact or_comm
@[simp] theorem unindex_objs (w : World) (kv : Option KV) : (unindex w kv).objs = w.objs := by cases kv <;> rfl
@[simp] theorem unindex_rows (w : World) (kv : Option KV) : (unindex w kv).rows = w.rows := by cases kv <;> rfl
@[simp] theorem unindex_ids (w : World) (kv : Option KV) : (unindex w kv).ids = w.ids := by cases kv <;> rfl
@[simp] theorem unindex_modified (w : World) (kv : Option KV) : (unindex w kv).modified = w.modified := by cases kv <;> rfl
theorem unindex_idx (w : World) (kv : Option KV) (u : KV) : (unindex w kv).idx u = if kv = some u then none else w.idx u := by
  cases kv with
  | none => simp [unindex]
  | some v => simp [unindex]; by_cases h : u = v <;> simp [h, eq_comm]

/-- what the table holds for a cached object, by status -/
def Agree (w : World) (i : Id) (o : Obj) : Prop :=
  match o.st with
  | .loaded | .saved => w.rows i = some o.kv
  | .modified => w.rows i ≠ none ∧ o.written = true
  | .created => w.rows i = none
  | .marked | .gone => True

structure Inv (w : World) : Prop where
  idxOk : ∀ v i, w.idx v = some i ↔ ∃ o, w.objs i = some o ∧ o.st.alive = true ∧ o.kv = some v
  cover : ∀ i, w.rows i ≠ none → i ∈ w.ids
  coverObj : ∀ i, w.objs i ≠ none → i ∈ w.ids
  agree : ∀ i o, w.objs i = some o → Agree w i o
  clean : w.modified = false → ∀ i o, w.objs i = some o → o.st.pending = false
  uniq : ∀ i j v, w.rows i = some (some v) → w.rows j = some (some v) → i = j

theorem inv_init (ids : List Id) (rows : Id → Option (Option KV)) (hc : ∀ i, rows i ≠ none → i ∈ ids)
    (hu : ∀ i j v, rows i = some (some v) → rows j = some (some v) → i = j) : Inv (World.init ids rows) := by
  refine ⟨?_, hc, ?_, ?_, ?_, hu⟩ <;> simp [World.init]

theorem uniqueOn_spec {ids : List Id} {rows : Id → Option (Option KV)} (h : uniqueOn ids rows = true)
    {i j : Id} {v : KV} (hi : i ∈ ids) (hj : j ∈ ids) (ri : rows i = some (some v)) (rj : rows j = some (some v)) : i = j := by
  unfold uniqueOn at h
  have := (List.all_eq_true.mp h) i hi
  have := (List.all_eq_true.mp this) j hj
  simpa [ri, rj] using this

theorem objAfter_alive (o : Obj) : (objAfter o).st.alive = o.st.alive := by
  cases o with | mk st kv wr => cases st <;> rfl
theorem objAfter_kv (o : Obj) : (objAfter o).kv = o.kv := by
  cases o with | mk st kv wr => cases st <;> rfl
theorem objAfter_not_pending (o : Obj) : (objAfter o).st.pending = false := by
  cases o with | mk st kv wr => cases st <;> rfl

/-- the row the flush leaves is the row the program has -/
theorem rowAfter_eq_view {w : World} (h : Inv w) (i : Id) : rowAfter w i = view w i := by
  unfold rowAfter view
  cases ho : w.objs i with
  | none => rfl
  | some o =>
    have ha := h.agree i o ho
    cases o with | mk st kv wr =>
    cases st <;> simp [Agree, St.alive] at ha ⊢ <;> simp [ha]

theorem rows_eq_view_of_clean {w : World} (h : Inv w) (hm : w.modified = false) (i : Id) : w.rows i = view w i := by
  unfold view
  cases ho : w.objs i with
  | none => rfl
  | some o =>
    have ha := h.agree i o ho
    have hp := h.clean hm i o ho
    cases o with | mk st kv wr =>
    cases st <;> simp [Agree, St.alive, St.pending] at ha hp ⊢ <;> exact ha

/-- The flush: when the database accepts it, the table holds exactly what the program has, the program's view is unchanged,
    the key index is untouched, nothing is pending, and the invariant holds again. -/
theorem flush_spec {w w' : World} (h : Inv w) (e : flush w = .ok w') :
    Inv w' ∧ (∀ i, w'.rows i = view w i) ∧ (∀ i, view w' i = view w i) ∧ w'.idx = w.idx ∧ w'.modified = false ∧ w'.ids = w.ids := by
  unfold flush at e
  by_cases hm : w.modified = true
  · simp only [hm, Bool.not_true, Bool.false_eq_true, if_false] at e
    split at e
    · cases e
    · split at e
      · rename_i hu
        injection e with e; subst e
        have hcov : ∀ i, rowAfter w i ≠ none → i ∈ w.ids := by
          intro i hi
          unfold rowAfter at hi
          cases ho : w.objs i with
          | none => simp [ho] at hi; exact h.cover i hi
          | some o => exact h.coverObj i (by simp [ho])
        refine ⟨⟨?_, hcov, ?_, ?_, ?_, ?_⟩, fun i => rowAfter_eq_view h i, ?_, rfl, rfl, rfl⟩
        · intro v i
          rw [h.idxOk v i]
          constructor
          · rintro ⟨o, ho, ha, hk⟩
            exact ⟨objAfter o, by simp [ho], by rw [objAfter_alive]; exact ha, by rw [objAfter_kv]; exact hk⟩
          · rintro ⟨o', ho', ha, hk⟩
            simp only [Option.map_eq_some_iff] at ho'
            obtain ⟨o, ho, rfl⟩ := ho'
            exact ⟨o, ho, by rw [← objAfter_alive]; exact ha, by rw [← objAfter_kv]; exact hk⟩
        · intro i hi
          apply h.coverObj i
          intro hn; simp [hn] at hi
        · intro i o' ho'
          simp only [Option.map_eq_some_iff] at ho'
          obtain ⟨o, ho, rfl⟩ := ho'
          have ha := h.agree i o ho
          unfold Agree at ha ⊢
          unfold objAfter rowAfter
          cases hs : o.st <;> simp [hs, ho] at ha ⊢
          · exact ha
          · simp [ha.2]
          · exact ha
        · intro _ i o' ho'
          simp only [Option.map_eq_some_iff] at ho'
          obtain ⟨o, _, rfl⟩ := ho'
          exact objAfter_not_pending o
        · intro i j v ri rj
          have ri' : rowAfter w i = some (some v) := ri
          have rj' : rowAfter w j = some (some v) := rj
          exact uniqueOn_spec hu (hcov i (by rw [ri']; simp)) (hcov j (by rw [rj']; simp)) ri' rj'
        · intro i
          show view _ i = view w i
          unfold view
          cases ho : w.objs i with
          | none => simp [ho]; exact rowAfter_eq_view h i ▸ (by unfold view; simp [ho])
          | some o =>
            have hr := rowAfter_eq_view h i
            unfold view at hr; simp only [ho] at hr
            simp only [ho, Option.map_some, objAfter_alive, objAfter_kv]
            unfold objAfter
            cases hs : o.st <;> simp [hs, St.alive] at hr ⊢ <;> simp [hr]
      · cases e
  · have hm' : w.modified = false := by simpa using hm
    simp only [hm', Bool.not_false, if_true] at e
    injection e with e; subst e
    exact ⟨h, rows_eq_view_of_clean h hm', fun _ => rfl, rfl, hm', rfl⟩

/-! ### the modifying calls -/

theorem create_inv {w : World} (h : Inv w) (i : Id) (kv : Option KV) (hok : OpOk w (.create i kv)) : Inv (create w i kv).1 := by
  obtain ⟨hview, hrow⟩ := hok
  have hfree : ∀ o, w.objs i = some o → o.st.alive = false := by
    intro o ho
    unfold view at hview; simp only [ho] at hview
    cases ha : o.st.alive <;> simp [ha] at hview ⊢
  have hnew : ∀ (w1 : World), w1 = (create.createNew w i kv).1 → Inv w1 := by
    intro w1 e; subst e
    unfold create.createNew
    cases kv with
    | none =>
      refine ⟨?_, ?_, ?_, ?_, by simp, h.uniq⟩
      · intro v j
        simp only [setObj_idx, addId_idx, setObj_objs, addId_objs]
        rw [h.idxOk v j]
        by_cases hj : j = i
        · subst hj
          constructor
          · rintro ⟨o, ho, ha, _⟩; rw [hfree o ho] at ha; cases ha
          · rintro ⟨o, ho, _, hk⟩; simp at ho; subst ho; simp at hk
        · simp [hj]
      · intro j hj; simp only [setObj_ids]; exact (mem_addId w i j).mpr (Or.inl (h.cover j hj))
      · intro j hj
        simp only [setObj_ids]
        by_cases hji : j = i
        · exact (mem_addId w i j).mpr (Or.inr hji)
        · simp [hji] at hj; exact (mem_addId w i j).mpr (Or.inl (h.coverObj j hj))
      · intro j o ho
        by_cases hji : j = i
        · subst hji; simp at ho; subst ho; simp [Agree, hrow]
        · simp [hji] at ho; exact h.agree j o ho
    | some v =>
      by_cases hv : (w.idx v).isSome = true
      · simp only [hv, if_true]; exact h
      · have hv' : w.idx v = none := by simpa using hv
        simp only [hv, Bool.false_eq_true, if_false]
        refine ⟨?_, ?_, ?_, ?_, by simp, h.uniq⟩
        · intro u j
          simp only [setIdx_idx, setIdx_objs, setObj_objs, addId_objs, setObj_idx, addId_idx]
          by_cases hu : u = v
          · subst hu
            simp only [if_true, Option.some.injEq]
            constructor
            · intro e; subst e; exact ⟨⟨.created, some u, false⟩, by simp, rfl, rfl⟩
            · rintro ⟨o, ho, ha, hk⟩
              by_cases hji : j = i
              · exact hji.symm
              · simp [hji] at ho
                have := (h.idxOk u j).mpr ⟨o, ho, ha, hk⟩
                rw [hv'] at this; cases this
          · simp only [hu, if_false]
            rw [h.idxOk u j]
            by_cases hji : j = i
            · subst hji
              constructor
              · rintro ⟨o, ho, ha, _⟩; rw [hfree o ho] at ha; cases ha
              · rintro ⟨o, ho, _, hk⟩; simp at ho; subst ho; simp at hk; exact absurd hk.symm hu
            · simp [hji]
        · intro j hj; simp only [setIdx_ids, setObj_ids]; exact (mem_addId w i j).mpr (Or.inl (h.cover j hj))
        · intro j hj
          simp only [setIdx_ids, setObj_ids]
          by_cases hji : j = i
          · exact (mem_addId w i j).mpr (Or.inr hji)
          · simp [hji] at hj; exact (mem_addId w i j).mpr (Or.inl (h.coverObj j hj))
        · intro j o ho
          by_cases hji : j = i
          · subst hji; simp at ho; subst ho; simp [Agree, hrow]
          · simp [hji] at ho; exact h.agree j o ho
  unfold create
  cases ho : w.objs i with
  | none => exact hnew _ rfl
  | some o =>
    by_cases hg : o.st = .gone
    · simp only [hg, ne_eq, not_true_eq_false, if_false]; exact hnew _ rfl
    · simp only [ne_eq, hg, not_false_eq_true, if_true]; exact h

/-- the index after the object's old key was dropped and (possibly) its new key entered -/
theorem reindex_inv {w : World} (h : Inv w) {i : Id} {o : Obj} (ho : w.objs i = some o) (halive : o.st.alive = true)
    (o' : Obj) (ha' : o'.st.alive = true)
    (idx' : KV → Option Id)
    (hidx : ∀ u, idx' u = if o'.kv = some u then some i else if o.kv = some u then none else w.idx u)
    (hfree : ∀ u, o'.kv = some u → o.kv ≠ some u → w.idx u = none) :
    ∀ v j, idx' v = some j ↔ ∃ p, (if j = i then some o' else w.objs j) = some p ∧ p.st.alive = true ∧ p.kv = some v := by
  intro v j
  rw [hidx v]
  by_cases hn : o'.kv = some v
  · simp only [hn, if_true, Option.some.injEq]
    constructor
    · intro e; subst e; exact ⟨o', by simp, ha', hn⟩
    · rintro ⟨p, hp, hpa, hpk⟩
      by_cases hji : j = i
      · exact hji.symm
      · simp only [hji, if_false] at hp
        have hj := (h.idxOk v j).mpr ⟨p, hp, hpa, hpk⟩
        by_cases hov : o.kv = some v
        · have hi := (h.idxOk v i).mpr ⟨o, ho, halive, hov⟩
          rw [hj] at hi; injection hi with hi; exact absurd hi hji
        · rw [hfree v hn hov] at hj; cases hj
  · simp only [hn, if_false]
    by_cases hov : o.kv = some v
    · simp only [hov, if_true]
      constructor
      · intro e; cases e
      · rintro ⟨p, hp, hpa, hpk⟩
        by_cases hji : j = i
        · subst hji; simp at hp; subst hp; exact absurd hpk hn
        · simp only [hji, if_false] at hp
          have hj := (h.idxOk v j).mpr ⟨p, hp, hpa, hpk⟩
          have hi := (h.idxOk v i).mpr ⟨o, ho, halive, hov⟩
          rw [hj] at hi; injection hi with hi; exact absurd hi hji
    · simp only [hov, if_false]
      rw [h.idxOk v j]
      by_cases hji : j = i
      · subst hji
        constructor
        · rintro ⟨p, hp, _, hpk⟩; rw [ho] at hp; cases hp; exact absurd hpk hov
        · rintro ⟨p, hp, _, hpk⟩; simp at hp; subst hp; exact absurd hpk hn
      · simp [hji]

theorem setKey_inv {w : World} (h : Inv w) (i : Id) (kv : Option KV) : Inv (setKey w i kv).1 := by
  unfold setKey
  cases ho : w.objs i with
  | none => exact h
  | some o =>
    by_cases halive : o.st.alive = true
    · simp only [halive, Bool.not_true, Bool.false_eq_true, if_false]
      generalize ho' : (⟨if o.st = .created then .created else .modified, kv, o.st ≠ .created⟩ : Obj) = o'
      have hst : o'.st.alive = true := by subst ho'; simp only []; split <;> rfl
      have hkv : o'.kv = kv := by subst ho'; rfl
      have build : ∀ (w1 : World), w1.ids = w.ids → w1.rows = w.rows →
          (∀ j, w1.objs j = if j = i then some o' else w.objs j) →
          (w1.modified = (w.modified || decide (o.st ≠ .created))) →
          (∀ u, w1.idx u = if kv = some u then some i else if o.kv = some u then none else w.idx u) →
          (∀ u, kv = some u → o.kv ≠ some u → w.idx u = none) → Inv w1 := by
        intro w1 hids hrows hobjs hmod hidx hfree
        refine ⟨?_, by rw [hrows, hids]; exact h.cover, ?_, ?_, ?_, by rw [hrows]; exact h.uniq⟩
        · intro v j
          rw [hobjs j]
          exact reindex_inv h ho halive o' hst w1.idx (by intro u; rw [hidx u, hkv]) (by intro u hu; exact hfree u (hkv ▸ hu)) v j
        · intro j hj; rw [hids]; rw [hobjs j] at hj
          by_cases hji : j = i
          · subst hji; exact h.coverObj j (by simp [ho])
          · simp [hji] at hj; exact h.coverObj j hj
        · intro j p hp; rw [hobjs j] at hp
          by_cases hji : j = i
          · subst hji; simp at hp; subst hp
            have ha := h.agree j o ho
            subst ho'
            unfold Agree at ha ⊢; rw [hrows]
            cases hs : o.st <;> simp [hs, St.alive] at ha halive ⊢ <;> simp [ha]
          · simp [hji] at hp; have := h.agree j p hp; unfold Agree at this ⊢; rw [hrows]; exact this
        · intro hm j p hp
          rw [hmod] at hm
          simp only [Bool.or_eq_false_iff, decide_eq_false_iff_not, ne_eq, Classical.not_not] at hm
          have := h.clean hm.1 i o ho
          rw [hm.2] at this; simp [St.pending] at this
      by_cases hsame : o.kv = kv
      · simp only [hsame, if_true]
        refine build _ (by rfl) (by rfl) (fun j => by rfl) (by rfl) ?_ ?_
        · intro u
          subst hsame
          by_cases hu : o.kv = some u
          · simp [hu]; exact (h.idxOk u i).mpr ⟨o, ho, halive, hu⟩
          · simp [hu]
        · intro u hu hne; subst hsame; exact absurd hu hne
      · simp only [hsame, if_false]
        cases kv with
        | none =>
          simp only []
          refine build _ (by simp) (by simp) (fun j => by simp) (by rfl) ?_ ?_
          · intro u; simp [unindex_idx]
          · intro u hu; cases hu
        | some v =>
          simp only []
          cases hv : w.idx v with
          | none =>
            simp only []
            refine build _ (by simp) (by simp) (fun j => by simp) (by rfl) ?_ ?_
            · intro u
              simp only [setObj_idx, setIdx_idx, unindex_idx, Option.some.injEq]
              by_cases huv : u = v
              · subst huv; simp
              · have : ¬ v = u := fun e => huv e.symm
                simp [huv, this]
            · intro u hu _; injection hu with hu; subst hu; exact hv
          | some j =>
            simp only []
            by_cases hji : j = i
            · -- the index maps the new key to this very object: impossible when the key changes
              exfalso
              subst hji
              obtain ⟨p, hp, _, hpk⟩ := (h.idxOk v j).mp hv
              rw [ho] at hp; cases hp; exact hsame hpk
            · simp only [hji, if_false]; exact h
    · have : o.st.alive = false := by simpa using halive
      simp only [this, Bool.not_false, if_true]; exact h


theorem delete_inv {w : World} (h : Inv w) (i : Id) : Inv (delete w i).1 := by
  unfold delete
  cases ho : w.objs i with
  | none => exact h
  | some o =>
    by_cases halive : o.st.alive = true
    · simp only [halive, Bool.not_true, Bool.false_eq_true, if_false]
      have hidx : ∀ (st : St), st.alive = false → ∀ v j, (unindex w o.kv).idx v = some j ↔
          ∃ p, (if j = i then some { o with st := st } else w.objs j) = some p ∧ p.st.alive = true ∧ p.kv = some v := by
        intro st hst v j
        rw [unindex_idx]
        by_cases hov : o.kv = some v
        · simp only [hov, if_true]
          constructor
          · intro e; cases e
          · rintro ⟨p, hp, hpa, hpk⟩
            by_cases hji : j = i
            · subst hji; simp at hp; subst hp; simp [hst] at hpa
            · simp only [hji, if_false] at hp
              have hj := (h.idxOk v j).mpr ⟨p, hp, hpa, hpk⟩
              have hi := (h.idxOk v i).mpr ⟨o, ho, halive, hov⟩
              rw [hj] at hi; injection hi with hi; exact absurd hi hji
        · simp only [hov, if_false]
          rw [h.idxOk v j]
          by_cases hji : j = i
          · subst hji
            constructor
            · rintro ⟨p, hp, _, hpk⟩; rw [ho] at hp; cases hp; exact absurd hpk hov
            · rintro ⟨p, hp, hpa, _⟩; simp at hp; subst hp; simp [hst] at hpa
          · simp [hji]
      by_cases hc : o.st = .created
      · simp only [hc, if_true]
        refine ⟨by simpa using hidx .gone rfl, by simpa using h.cover, ?_, ?_, ?_, by simpa using h.uniq⟩
        · intro j hj
          by_cases hji : j = i
          · subst hji; simpa using h.coverObj j (by simp [ho])
          · simp [hji] at hj; simpa using h.coverObj j hj
        · intro j p hp
          by_cases hji : j = i
          · subst hji; simp at hp; subst hp; simp [Agree]
          · simp [hji] at hp; have := h.agree j p hp; unfold Agree at this ⊢; simpa using this
        · intro hm j p hp
          simp at hm
          by_cases hji : j = i
          · subst hji; simp at hp; subst hp; rfl
          · simp [hji] at hp; exact h.clean hm j p hp
      · simp only [hc, if_false]
        refine ⟨by simpa using hidx .marked rfl, by simpa using h.cover, ?_, ?_, by simp, by simpa using h.uniq⟩
        · intro j hj
          by_cases hji : j = i
          · subst hji; simpa using h.coverObj j (by simp [ho])
          · simp [hji] at hj; simpa using h.coverObj j hj
        · intro j p hp
          by_cases hji : j = i
          · subst hji; simp at hp; subst hp; simp [Agree]
          · simp [hji] at hp; have := h.agree j p hp; unfold Agree at this ⊢; simpa using this
    · have : o.st.alive = false := by simpa using halive
      simp only [this, Bool.not_false, if_true]; exact h

/-! ### lookups -/

/-- entering a fetched row into the cache when nothing is pending: no index clash, the program's view does not change -/
theorem enter_spec {w : World} (h : Inv w) (hm : w.modified = false) (i : Id) (kv : Option KV) (hr : w.rows i = some kv)
    (hgone : ∀ o, w.objs i = some o → o.st = .gone) :
    (fetch.enter w i kv).2 = .found i ∧ Inv (fetch.enter w i kv).1 ∧ (∀ j, view (fetch.enter w i kv).1 j = view w j) ∧
      (fetch.enter w i kv).1.modified = false := by
  have hrv := rows_eq_view_of_clean h hm
  have hviewj : ∀ (w1 : World), w1.rows = w.rows → (∀ j, w1.objs j = if j = i then some ⟨.loaded, kv, false⟩ else w.objs j) →
      ∀ j, view w1 j = view w j := by
    intro w1 hr1 ho1 j
    unfold view; rw [ho1 j, hr1]
    by_cases hji : j = i
    · subst hji; simp only [if_true, St.alive]
      cases hoj : w.objs j with
      | none => simp [hr]
      | some o => simp [hgone o hoj, St.alive, hr]
    · simp [hji]
  have hrest : ∀ (w1 : World), w1.rows = w.rows → w1.ids = w.ids → w1.modified = w.modified →
      (∀ j, w1.objs j = if j = i then some ⟨.loaded, kv, false⟩ else w.objs j) →
      (∀ v j, w1.idx v = some j ↔ ∃ o, w1.objs j = some o ∧ o.st.alive = true ∧ o.kv = some v) → Inv w1 := by
    intro w1 hr1 hi1 hm1 ho1 hidx
    refine ⟨hidx, by rw [hr1, hi1]; exact h.cover, ?_, ?_, ?_, by rw [hr1]; exact h.uniq⟩
    · intro j hj; rw [hi1]; rw [ho1 j] at hj
      by_cases hji : j = i
      · subst hji; exact h.cover j (by simp [hr])
      · simp [hji] at hj; exact h.coverObj j hj
    · intro j o hoj; rw [ho1 j] at hoj
      by_cases hji : j = i
      · subst hji; simp at hoj; subst hoj; simp [Agree, hr1, hr]
      · simp [hji] at hoj; have := h.agree j o hoj; unfold Agree at this ⊢; rw [hr1]; exact this
    · intro hm' j o hoj; rw [ho1 j] at hoj; rw [hm1] at hm'
      by_cases hji : j = i
      · subst hji; simp at hoj; subst hoj; rfl
      · simp [hji] at hoj; exact h.clean hm' j o hoj
  cases kv with
  | none =>
    have e : fetch.enter w i none = (setObj w i ⟨.loaded, none, false⟩, .found i) := rfl
    rw [e]
    refine ⟨rfl, hrest _ rfl rfl rfl (fun j => rfl) ?_, hviewj _ rfl (fun j => rfl), hm⟩
    intro v j
    simp only [setObj_idx, setObj_objs]
    rw [h.idxOk v j]
    by_cases hji : j = i
    · subst hji
      constructor
      · rintro ⟨o, ho, ha, _⟩; rw [hgone o ho] at ha; cases ha
      · rintro ⟨o, ho, _, hk⟩; simp at ho; subst ho; simp at hk
    · simp [hji]
  | some v =>
    cases hv : w.idx v with
    | some j =>
      -- a live cached object holds the key: its row holds it too (nothing is pending), so the table would hold the key twice
      exfalso
      obtain ⟨o, ho, ha, hk⟩ := (h.idxOk v j).mp hv
      have hjv : view w j = some (some v) := by unfold view; simp [ho, ha, hk]
      have hj : w.rows j = some (some v) := by rw [hrv j, hjv]
      have := h.uniq i j v hr hj
      subst this
      rw [hgone o ho] at ha; cases ha
    | none =>
      have e : fetch.enter w i (some v) = (setIdx (setObj w i ⟨.loaded, some v, false⟩) v (some i), .found i) := by
        simp [fetch.enter, hv]
      rw [e]
      refine ⟨rfl, hrest _ rfl rfl rfl (fun j => rfl) ?_, hviewj _ rfl (fun j => rfl), hm⟩
      intro u j
      simp only [setIdx_idx, setIdx_objs, setObj_objs, setObj_idx]
      by_cases hu : u = v
      · subst hu
        simp only [if_true, Option.some.injEq]
        constructor
        · intro e; subst e; exact ⟨⟨.loaded, some u, false⟩, by simp, rfl, rfl⟩
        · rintro ⟨o, ho, ha, hk⟩
          by_cases hji : j = i
          · exact hji.symm
          · simp [hji] at ho
            have := (h.idxOk u j).mpr ⟨o, ho, ha, hk⟩
            rw [hv] at this; cases this
      · simp only [hu, if_false]
        rw [h.idxOk u j]
        by_cases hji : j = i
        · subst hji
          constructor
          · rintro ⟨o, ho, ha, _⟩; rw [hgone o ho] at ha; cases ha
          · rintro ⟨o, ho, _, hk⟩; simp at ho; subst ho; simp at hk; exact absurd hk.symm hu
        · simp [hji]

/-- a SELECT by primary key after a flush: found iff the program has the object; the view is unchanged -/
theorem fetch_spec {w : World} (h : Inv w) (hm : w.modified = false) (i : Id) :
    (fetch w i).2 = (match view w i with | some _ => Outcome.found i | none => Outcome.notFound) ∧
    Inv (fetch w i).1 ∧ (∀ j, view (fetch w i).1 j = view w j) ∧ (fetch w i).1.modified = false := by
  have hrv := rows_eq_view_of_clean h hm
  cases hr : w.rows i with
  | none =>
    have e : fetch w i = (w, .notFound) := by simp [fetch, hr]
    rw [e, ← hrv i, hr]; exact ⟨rfl, h, fun _ => rfl, hm⟩
  | some kv =>
    have hview : view w i = some kv := by rw [← hrv i, hr]
    rw [hview]
    cases ho : w.objs i with
    | none =>
      have e : fetch w i = fetch.enter w i kv := by simp [fetch, hr, ho]
      rw [e]; exact enter_spec h hm i kv hr (fun o hoo => by rw [ho] at hoo; cases hoo)
    | some o =>
      by_cases hg : o.st = .gone
      · have e : fetch w i = fetch.enter w i kv := by simp [fetch, hr, ho, hg]
        rw [e]; exact enter_spec h hm i kv hr (fun o' hoo => by rw [ho] at hoo; cases hoo; exact hg)
      · have e : fetch w i = (w, .found i) := by simp [fetch, hr, ho, hg]
        rw [e]; exact ⟨rfl, h, fun _ => rfl, hm⟩

end PonyVerif.Model.KeyLookup
