/-
  Lemmas/UndoKeys.lean — the forward effect of the index moves of Attribute.__set__ / Entity.set / Entity.__init__ on the
  key-index invariant (the calls that register key entries themselves).
-/
import PonyVerif.Lemmas.UndoInv
set_option linter.unusedSimpArgs false
set_option linter.unusedVariables false
namespace PonyVerif.Model.Undo

/-- forward effect of one simple-index move -/
theorem moveSimple_fwd (o : ObjId) (a : AttrId) (old new : Option Nat) (sc sc' : Store) (m : List IdxMove)
    (h1 : ∀ v, new = some v → sc.idx a v = some o → old = new)
    (h2 : ∀ u, old = some u → sc.idx a u = some o)
    (h : moveSimple o a old new sc = some (sc', m, false)) :
    (∀ x, sc'.idx a x = if new = some x then some o else if old = some x then none else sc.idx a x) ∧
    (old ≠ new → ∀ v, new = some v → sc.idx a v = none) := by
  by_cases heq : old = new
  · simp only [moveSimple, heq, if_true, Option.some.injEq, Prod.mk.injEq] at h
    obtain ⟨rfl, _, _⟩ := h
    refine ⟨fun x => ?_, fun hne => absurd heq hne⟩
    by_cases hx : new = some x
    · simp only [hx, if_true]; exact h2 x (heq.trans hx)
    · simp only [hx, if_false, heq]
  · cases new with
    | none =>
      cases old with
      | none => exact absurd rfl heq
      | some u =>
        have hu := h2 u rfl
        simp [moveSimple, hu] at h
        obtain ⟨rfl, _⟩ := h
        refine ⟨fun x => ?_, fun _ v hv => by cases hv⟩
        by_cases hx : u = x
        · simp [set2, hx]
        · simp [set2, hx, Ne.symm hx]
    | some v =>
      cases hv : sc.idx a v with
      | some o2 =>
        by_cases ho2 : o2 = o
        · exact absurd (h1 v rfl (ho2 ▸ hv)) heq
        · simp [moveSimple, heq, hv, ho2] at h
      | none =>
        cases old with
        | none =>
          simp [moveSimple, hv] at h
          obtain ⟨rfl, _⟩ := h
          refine ⟨fun x => ?_, fun _ v' hv' => by cases hv'; exact hv⟩
          by_cases hx : v = x
          · simp [set2, hx]
          · simp [set2, hx, Ne.symm hx]
        | some u =>
          have hu := h2 u rfl
          have huv : u ≠ v := fun e => heq (by rw [e])
          have hu' : set2 sc.idx a v (some o) a u = some o := by simp [set2, huv, hu]
          simp [moveSimple, heq, hv, hu'] at h
          obtain ⟨rfl, _⟩ := h
          refine ⟨fun x => ?_, fun _ v' hv' => by cases hv'; exact hv⟩
          by_cases hxv : v = x
          · have : x ≠ u := fun e => huv (by rw [← e, hxv])
            simp [set2, hxv, this]
          · by_cases hxu : u = x
            · simp [set2, hxu, hxv]
            · simp [set2, hxv, hxu, Ne.symm hxv, Ne.symm hxu]

/-- forward effect of one composite-index move -/
theorem moveComp_fwd (o : ObjId) (a : KeyId) (old new : Option (List Nat)) (sc sc' : Store) (m : List IdxMove)
    (h1 : ∀ v, new = some v → sc.cidx a v = some o → old = new)
    (h2 : ∀ u, old = some u → sc.cidx a u = some o)
    (h : moveComp o a old new sc = some (sc', m, false)) :
    (∀ x, sc'.cidx a x = if new = some x then some o else if old = some x then none else sc.cidx a x) ∧
    (old ≠ new → ∀ v, new = some v → sc.cidx a v = none) := by
  by_cases heq : old = new
  · simp only [moveComp, heq, if_true, Option.some.injEq, Prod.mk.injEq] at h
    obtain ⟨rfl, _, _⟩ := h
    refine ⟨fun x => ?_, fun hne => absurd heq hne⟩
    by_cases hx : new = some x
    · simp only [hx, if_true]; exact h2 x (heq.trans hx)
    · simp only [hx, if_false, heq]
  · cases new with
    | none =>
      cases old with
      | none => exact absurd rfl heq
      | some u =>
        have hu := h2 u rfl
        simp [moveComp, hu] at h
        obtain ⟨rfl, _⟩ := h
        refine ⟨fun x => ?_, fun _ v hv => by cases hv⟩
        by_cases hx : u = x
        · simp [setK, hx]
        · simp [setK, hx, Ne.symm hx]
    | some v =>
      cases hv : sc.cidx a v with
      | some o2 =>
        by_cases ho2 : o2 = o
        · exact absurd (h1 v rfl (ho2 ▸ hv)) heq
        · simp [moveComp, heq, hv, ho2] at h
      | none =>
        cases old with
        | none =>
          simp [moveComp, hv] at h
          obtain ⟨rfl, _⟩ := h
          refine ⟨fun x => ?_, fun _ v' hv' => by cases hv'; exact hv⟩
          by_cases hx : v = x
          · simp [setK, hx]
          · simp [setK, hx, Ne.symm hx]
        | some u =>
          have hu := h2 u rfl
          have huv : u ≠ v := fun e => heq (by rw [e])
          have hu' : setK sc.cidx a v (some o) a u = some o := by simp [setK, huv, hu]
          simp [moveComp, heq, hv, hu'] at h
          obtain ⟨rfl, _⟩ := h
          refine ⟨fun x => ?_, fun _ v' hv' => by cases hv'; exact hv⟩
          by_cases hxv : v = x
          · have : x ≠ u := fun e => huv (by rw [← e, hxv])
            simp [setK, hxv, this]
          · by_cases hxu : u = x
            · simp [setK, hxu, hxv]
            · simp [setK, hxv, hxu, Ne.symm hxv, Ne.symm hxu]


/-- the invariant of the index-move loops, forward direction: `A` / `K` are the simple / composite indexes moved so far -/
structure FwdInv (o : ObjId) (s sc : Store) (cur nv : AttrId → Option Nat) (tcur tnv : KeyId → Option (List Nat)) (A : List AttrId) (K : List KeyId) : Prop where
  n : sc.n = s.n
  row : sc.row = s.row
  idxDone : ∀ a, a ∈ A → ∀ x, sc.idx a x = if nv a = some x then some o else if cur a = some x then none else s.idx a x
  idxRest : ∀ a, a ∉ A → sc.idx a = s.idx a
  cidxDone : ∀ k, k ∈ K → ∀ x, sc.cidx k x = if tnv k = some x then some o else if tcur k = some x then none else s.cidx k x
  cidxRest : ∀ k, k ∉ K → sc.cidx k = s.cidx k
  free : ∀ a, a ∈ A → cur a ≠ nv a → ∀ v, nv a = some v → s.idx a v = none
  cfree : ∀ k, k ∈ K → tcur k ≠ tnv k → ∀ v, tnv k = some v → s.cidx k v = none

theorem movesC_fwd (sch : Schema) (o : ObjId) (s : Store) (nv : AttrId → Option Nat) (hk : KeyOk sch s o) (A : List AttrId) :
    ∀ (ks : List KeyId) (sc : Store) (acc : List IdxMove) (K : List KeyId), ks.Nodup → (∀ k, k ∈ ks → k ∉ K) → (∀ k, k ∈ ks → k < sch.ckeys.length) →
      FwdInv o s sc (s.row o).val nv (fun k => tuple ((sch.keyAttrs k).map (s.row o).val)) (fun k => tuple ((sch.keyAttrs k).map nv)) A K →
      ∀ s2 m, movesC sch o (s.row o).val nv ks sc acc = .done s2 m →
      FwdInv o s s2 (s.row o).val nv (fun k => tuple ((sch.keyAttrs k).map (s.row o).val)) (fun k => tuple ((sch.keyAttrs k).map nv)) A (ks.reverse ++ K) := by
  intro ks
  induction ks with
  | nil => intro sc acc K _ _ _ h s2 m hd; simp only [movesC] at hd; cases hd; simpa using h
  | cons k ks ih =>
    intro sc acc K hnd hdisj hlen h s2 m hd
    simp only [movesC] at hd
    have hkK : k ∉ K := hdisj k List.mem_cons_self
    have hsck : sc.cidx k = s.cidx k := h.cidxRest k hkK
    have g1 : ∀ vs, tuple ((sch.keyAttrs k).map nv) = some vs → sc.cidx k vs = some o → tuple ((sch.keyAttrs k).map (s.row o).val) = tuple ((sch.keyAttrs k).map nv) :=
      fun vs hvs hhit => by rw [hsck] at hhit; rw [hk.cidxVal k vs hhit]; exact hvs.symm
    have g2 : ∀ us, tuple ((sch.keyAttrs k).map (s.row o).val) = some us → sc.cidx k us = some o :=
      fun us hus => by rw [hsck]; exact hk.valCidx k us hus (hlen k List.mem_cons_self)
    cases hmc : moveComp o k (tuple ((sch.keyAttrs k).map (s.row o).val)) (tuple ((sch.keyAttrs k).map nv)) sc with
    | none => rw [hmc] at hd; cases hd
    | some r =>
      obtain ⟨sc', m', fl⟩ := r
      rw [hmc] at hd
      cases fl with
      | true => cases hd
      | false =>
        simp only at hd
        obtain ⟨f1, f2⟩ := moveComp_fwd o k _ _ sc sc' m' g1 g2 hmc
        rcases moveComp_spec o k _ _ sc g1 g2 with hnone | ⟨sc'', m'', hsome, e1, e2, _, _, e5, _, e7, _⟩
        · rw [hnone] at hmc; cases hmc
        · rw [hsome] at hmc; cases hmc
          have := ih sc' (acc ++ m') (k :: K) (List.nodup_cons.mp hnd).2
            (fun k' hk' hmem => by
              rcases List.mem_cons.mp hmem with rfl | hmem
              · exact (List.nodup_cons.mp hnd).1 hk'
              · exact hdisj k' (List.mem_cons_of_mem _ hk') hmem)
            (fun k' hk' => hlen k' (List.mem_cons_of_mem _ hk'))
            ⟨e1.trans h.n, e2.trans h.row, fun a ha x => by rw [e5]; exact h.idxDone a ha x, fun a ha => by rw [e5]; exact h.idxRest a ha,
             fun k' hk' x => by
               rcases List.mem_cons.mp hk' with rfl | hk'
               · rw [f1 x, hsck]
               · have hne : k' ≠ k := fun e => hkK (e ▸ hk')
                 rw [e7 k' hne]; exact h.cidxDone k' hk' x,
             fun k' hk' => by
               have hne : k' ≠ k := fun e => hk' (e ▸ List.mem_cons_self)
               rw [e7 k' hne]; exact h.cidxRest k' (fun hm => hk' (List.mem_cons_of_mem _ hm)),
             h.free,
             fun k' hk' hne v hv => by
               rcases List.mem_cons.mp hk' with rfl | hk'
               · rw [← hsck]; exact f2 hne v hv
               · exact h.cfree k' hk' hne v hv⟩ s2 m hd
          simpa [List.reverse_cons, List.append_assoc] using this

theorem movesS_fwd (sch : Schema) (o : ObjId) (s : Store) (comps : List KeyId) (nv : AttrId → Option Nat) (hk : KeyOk sch s o)
    (hcn : comps.Nodup) (hcl : ∀ k, k ∈ comps → k < sch.ckeys.length) :
    ∀ (as : List AttrId) (sc : Store) (acc : List IdxMove) (A : List AttrId), as.Nodup → (∀ a, a ∈ as → a ∉ A) →
      (∀ a, a ∈ as → (match sch.decl a with | some d => d.unique | none => false) = true) →
      FwdInv o s sc (s.row o).val nv (fun k => tuple ((sch.keyAttrs k).map (s.row o).val)) (fun k => tuple ((sch.keyAttrs k).map nv)) A [] →
      ∀ s2 m, movesS sch o comps (s.row o).val nv as sc acc = .done s2 m →
      FwdInv o s s2 (s.row o).val nv (fun k => tuple ((sch.keyAttrs k).map (s.row o).val)) (fun k => tuple ((sch.keyAttrs k).map nv)) (as.reverse ++ A) (comps.reverse ++ []) := by
  intro as
  induction as with
  | nil =>
    intro sc acc A _ _ _ h s2 m hd
    simp only [movesS] at hd
    simpa using movesC_fwd sch o s nv hk A comps sc acc [] hcn (fun _ _ h => by cases h) hcl h s2 m hd
  | cons a as ih =>
    intro sc acc A hnd hdisj huniq h s2 m hd
    simp only [movesS] at hd
    have haA : a ∉ A := hdisj a List.mem_cons_self
    have hsca : sc.idx a = s.idx a := h.idxRest a haA
    have g1 : ∀ v, nv a = some v → sc.idx a v = some o → (s.row o).val a = nv a :=
      fun v hv hhit => by rw [hsca] at hhit; rw [hk.idxVal a v hhit]; exact hv.symm
    have g2 : ∀ u, (s.row o).val a = some u → sc.idx a u = some o :=
      fun u hu => by rw [hsca]; exact hk.valIdx a u hu (huniq a List.mem_cons_self)
    cases hmc : moveSimple o a ((s.row o).val a) (nv a) sc with
    | none => rw [hmc] at hd; cases hd
    | some r =>
      obtain ⟨sc', m', fl⟩ := r
      rw [hmc] at hd
      cases fl with
      | true => cases hd
      | false =>
        simp only at hd
        obtain ⟨f1, f2⟩ := moveSimple_fwd o a _ _ sc sc' m' g1 g2 hmc
        rcases moveSimple_spec o a _ _ sc g1 g2 with hnone | ⟨sc'', m'', hsome, e1, e2, _, _, e5, _, e7, _⟩
        · rw [hnone] at hmc; cases hmc
        · rw [hsome] at hmc; cases hmc
          have := ih sc' (acc ++ m') (a :: A) (List.nodup_cons.mp hnd).2
            (fun a' ha' hmem => by
              rcases List.mem_cons.mp hmem with rfl | hmem
              · exact (List.nodup_cons.mp hnd).1 ha'
              · exact hdisj a' (List.mem_cons_of_mem _ ha') hmem)
            (fun a' ha' => huniq a' (List.mem_cons_of_mem _ ha'))
            ⟨e1.trans h.n, e2.trans h.row,
             fun a' ha' x => by
               rcases List.mem_cons.mp ha' with rfl | ha'
               · rw [f1 x, hsca]
               · have hne : a' ≠ a := fun e => haA (e ▸ ha')
                 rw [e7 a' hne]; exact h.idxDone a' ha' x,
             fun a' ha' => by
               have hne : a' ≠ a := fun e => ha' (e ▸ List.mem_cons_self)
               rw [e7 a' hne]; exact h.idxRest a' (fun hm => ha' (List.mem_cons_of_mem _ hm)),
             fun k hk' x => by rw [e5]; exact h.cidxDone k hk' x, fun k hk' => by rw [e5]; exact h.cidxRest k hk',
             fun a' ha' hne v hv => by
               rcases List.mem_cons.mp ha' with rfl | ha'
               · rw [← hsca]; exact f2 hne v hv
               · exact h.free a' ha' hne v hv,
             h.cfree⟩ s2 m hd
          simpa [List.reverse_cons, List.append_assoc] using this

/-- `KeyOk` with the attribute values of the object given explicitly -/
structure KeyOkV (sch : Schema) (s : Store) (o : ObjId) (v : AttrId → Option Nat) : Prop where
  idxVal : ∀ a x, s.idx a x = some o → v a = some x
  valIdx : ∀ a u, v a = some u → (match sch.decl a with | some d => d.unique | none => false) = true → s.idx a u = some o
  cidxVal : ∀ k vs, s.cidx k vs = some o → tuple ((sch.keyAttrs k).map v) = some vs
  valCidx : ∀ k us, tuple ((sch.keyAttrs k).map v) = some us → k < sch.ckeys.length → s.cidx k us = some o

theorem KeyOk.toV {sch : Schema} {s : Store} {o : ObjId} (h : KeyOk sch s o) : KeyOkV sch s o (s.row o).val := ⟨h.idxVal, h.valIdx, h.cidxVal, h.valCidx⟩
theorem KeyOkV.toKeyOk {sch : Schema} {s : Store} {o : ObjId} (h : KeyOkV sch s o (s.row o).val) : KeyOk sch s o := ⟨h.idxVal, h.valIdx, h.cidxVal, h.valCidx⟩

/-- the key-index invariant where object `X` is judged by the values `nv` it is about to get -/
def IdxOkV (sch : Schema) (s : Store) (X : ObjId) (nv : AttrId → Option Nat) : Prop :=
  ∀ o, o < s.n → (s.row o).status.isDel = false → KeyOkV sch s o (if o = X then nv else (s.row o).val)

/-- only the values of key parts matter -/
theorem KeyOkV.congr {sch : Schema} {s : Store} {o : ObjId} {v1 v2 : AttrId → Option Nat} (h : KeyOkV sch s o v1) (hd : IdxDom sch s)
    (he : ∀ a, sch.isKeyPart a = true → v1 a = v2 a) : KeyOkV sch s o v2 := by
  refine ⟨?_, ?_, ?_, ?_⟩
  · intro a x e; rw [← he a (uniq_isKeyPart sch a (hd.idx a x o e).1)]; exact h.idxVal a x e
  · intro a u e hu; rw [← he a (uniq_isKeyPart sch a hu)] at e; exact h.valIdx a u e hu
  · intro k vs e; rw [← map_val_congr sch k v1 v2 he]; exact h.cidxVal k vs e
  · intro k us e hlt; rw [← map_val_congr sch k v1 v2 he] at e; exact h.valCidx k us e hlt

/-- `Keep` carries the invariant (object `X` keeps being judged by `nv`) -/
theorem IdxOkV.of_keep {sch : Schema} {s s' : Store} {X : ObjId} {nv : AttrId → Option Nat} (h : IdxOkV sch s X nv) (hd : IdxDom sch s) (hk : Keep sch s s') :
    IdxOkV sch s' X nv ∧ IdxDom sch s' := by
  refine ⟨?_, ⟨fun a v o e => by rw [hk.n]; exact hd.idx a v o (hk.idxSub a v o e), fun k vs o e => by rw [hk.n]; exact hd.cidx k vs o (hk.cidxSub k vs o e)⟩⟩
  intro o ho hl
  have ho' : o < s.n := hk.n ▸ ho
  have hl' : (s.row o).status.isDel = false := by
    cases hdl : (s.row o).status.isDel
    · rfl
    · rw [hk.dead o hdl] at hl; cases hl
  have hko := h o ho' hl'
  have hv : ∀ a, sch.isKeyPart a = true → (if o = X then nv else (s.row o).val) a = (if o = X then nv else (s'.row o).val) a := by
    intro a ha
    by_cases hx : o = X
    · simp [hx]
    · simp only [hx, if_false]; exact (hk.scal o a ha).symm
  refine ⟨?_, ?_, ?_, ?_⟩
  · intro a v e
    have e' := hk.idxSub a v o e
    rw [← hv a (uniq_isKeyPart sch a (hd.idx a v o e').1)]
    exact hko.idxVal a v e'
  · intro a u e hu
    rw [← hv a (uniq_isKeyPart sch a hu)] at e
    rcases hk.idxKept a u o (hko.valIdx a u e hu) with e' | e'
    · exact e'
    · rw [e'] at hl; cases hl
  · intro k vs e
    rw [← map_val_congr sch k _ _ hv]
    exact hko.cidxVal k vs (hk.cidxSub k vs o e)
  · intro k us e hlt
    rw [← map_val_congr sch k _ _ hv] at e
    rcases hk.cidxKept k us o (hko.valCidx k us e hlt) with e' | e'
    · exact e'
    · rw [e'] at hl; cases hl

/-- after the index moves of object `o`: every other object is untouched and `o` is registered under its new values -/
theorem fwd_idxOkV {sch : Schema} {o : ObjId} {s s2 : Store} {nv : AttrId → Option Nat} {A : List AttrId} {K : List KeyId}
    (h : FwdInv o s s2 (s.row o).val nv (fun k => tuple ((sch.keyAttrs k).map (s.row o).val)) (fun k => tuple ((sch.keyAttrs k).map nv)) A K)
    (hok : IdxOk sch s) (hd : IdxDom sch s) (ho : o < s.n) (hl : (s.row o).status.isDel = false)
    (huniq : ∀ a, a ∈ A → (match sch.decl a with | some d => d.unique | none => false) = true) (hcl : ∀ k, k ∈ K → k < sch.ckeys.length)
    (C1 : ∀ a, (match sch.decl a with | some d => d.unique | none => false) = true → a ∉ A → nv a = (s.row o).val a)
    (C2 : ∀ k, k < sch.ckeys.length → k ∉ K → tuple ((sch.keyAttrs k).map nv) = tuple ((sch.keyAttrs k).map (s.row o).val)) :
    IdxOkV sch s2 o nv ∧ IdxDom sch s2 := by
  have hko := hok o ho hl
  constructor
  · intro p hp hlp
    rw [h.row] at hlp
    have hp' : p < s.n := h.n ▸ hp
    by_cases hpo : p = o
    · subst hpo
      simp only [if_true]
      refine ⟨?_, ?_, ?_, ?_⟩
      · intro a x e
        by_cases ha : a ∈ A
        · rw [h.idxDone a ha x] at e
          split at e
          · assumption
          · split at e
            · cases e
            · rename_i h2 h3; exact absurd (hko.idxVal a x e) h3
        · rw [h.idxRest a ha] at e
          rw [C1 a (hd.idx a x p e).1 ha]; exact hko.idxVal a x e
      · intro a u e hu
        by_cases ha : a ∈ A
        · rw [h.idxDone a ha u]; simp [e]
        · rw [h.idxRest a ha]; rw [C1 a hu ha] at e; exact hko.valIdx a u e hu
      · intro k x e
        by_cases ha : k ∈ K
        · rw [h.cidxDone k ha x] at e
          split at e
          · assumption
          · split at e
            · cases e
            · rename_i h2 h3; exact absurd (hko.cidxVal k x e) h3
        · rw [h.cidxRest k ha] at e
          rw [C2 k (hd.cidx k x p e).1 ha]; exact hko.cidxVal k x e
      · intro k u e hlt
        by_cases ha : k ∈ K
        · rw [h.cidxDone k ha u]; simp [e]
        · rw [h.cidxRest k ha]; rw [C2 k hlt ha] at e; exact hko.valCidx k u e hlt
    · simp only [hpo, if_false]
      rw [h.row]
      have hkp := hok p hp' hlp
      refine ⟨?_, ?_, ?_, ?_⟩
      · intro a x e
        by_cases ha : a ∈ A
        · rw [h.idxDone a ha x] at e
          split at e
          · cases e; exact absurd rfl hpo
          · split at e
            · cases e
            · exact hkp.idxVal a x e
        · rw [h.idxRest a ha] at e; exact hkp.idxVal a x e
      · intro a u e hu
        have e0 := hkp.valIdx a u e hu
        by_cases ha : a ∈ A
        · rw [h.idxDone a ha u]
          by_cases h1 : nv a = some u
          · exfalso
            by_cases hcn : (s.row o).val a = nv a
            · have := hko.valIdx a u (hcn.trans h1) hu
              rw [e0] at this; cases this; exact hpo rfl
            · have := h.free a ha hcn u h1
              rw [e0] at this; cases this
          · simp only [h1, if_false]
            by_cases h2 : (s.row o).val a = some u
            · exfalso
              have := hko.valIdx a u h2 hu
              rw [e0] at this; cases this; exact hpo rfl
            · simp only [h2, if_false]; exact e0
        · rw [h.idxRest a ha]; exact e0
      · intro k x e
        by_cases ha : k ∈ K
        · rw [h.cidxDone k ha x] at e
          split at e
          · cases e; exact absurd rfl hpo
          · split at e
            · cases e
            · exact hkp.cidxVal k x e
        · rw [h.cidxRest k ha] at e; exact hkp.cidxVal k x e
      · intro k u e hlt
        have e0 := hkp.valCidx k u e hlt
        by_cases ha : k ∈ K
        · rw [h.cidxDone k ha u]
          by_cases h1 : tuple ((sch.keyAttrs k).map nv) = some u
          · exfalso
            by_cases hcn : tuple ((sch.keyAttrs k).map (s.row o).val) = tuple ((sch.keyAttrs k).map nv)
            · have := hko.valCidx k u (hcn.trans h1) hlt
              rw [e0] at this; cases this; exact hpo rfl
            · have := h.cfree k ha hcn u h1
              rw [e0] at this; cases this
          · simp only [h1, if_false]
            by_cases h2 : tuple ((sch.keyAttrs k).map (s.row o).val) = some u
            · exfalso
              have := hko.valCidx k u h2 hlt
              rw [e0] at this; cases this; exact hpo rfl
            · simp only [h2, if_false]; exact e0
        · rw [h.cidxRest k ha]; exact e0
  · refine ⟨fun a x q e => ?_, fun k x q e => ?_⟩
    · by_cases ha : a ∈ A
      · rw [h.idxDone a ha x] at e
        split at e
        · cases e; exact ⟨huniq a ha, h.n ▸ ho⟩
        · split at e
          · cases e
          · rw [h.n]; exact hd.idx a x q e
      · rw [h.idxRest a ha] at e; rw [h.n]; exact hd.idx a x q e
    · by_cases ha : k ∈ K
      · rw [h.cidxDone k ha x] at e
        split at e
        · cases e; exact ⟨hcl k ha, h.n ▸ ho⟩
        · split at e
          · cases e
          · rw [h.n]; exact hd.cidx k x q e
      · rw [h.cidxRest k ha] at e; rw [h.n]; exact hd.cidx k x q e

theorem runMoves_fwd (sch : Schema) (o : ObjId) (simple : List AttrId) (comps : List KeyId) (nv : AttrId → Option Nat) (s s2 : Store) (m : List IdxMove)
    (hk : KeyOk sch s o) (hsn : simple.Nodup) (hcn : comps.Nodup) (hcl : ∀ k, k ∈ comps → k < sch.ckeys.length)
    (huniq : ∀ a, a ∈ simple → (match sch.decl a with | some d => d.unique | none => false) = true)
    (hd : runMoves sch o simple comps nv s = .done s2 m) :
    FwdInv o s s2 (s.row o).val nv (fun k => tuple ((sch.keyAttrs k).map (s.row o).val)) (fun k => tuple ((sch.keyAttrs k).map nv))
      (simple.reverse ++ []) (comps.reverse ++ []) := by
  unfold runMoves at hd
  exact movesS_fwd sch o s comps nv hk hcn hcl simple s [] [] hsn (fun _ _ h => by cases h) huniq
    ⟨rfl, rfl, fun _ h => (by cases h), fun _ _ => rfl, fun _ h => (by cases h), fun _ _ => rfl, fun _ h => (by cases h), fun _ h => (by cases h)⟩ s2 m hd

theorem not_mem_ckeysWith (sch : Schema) (a : AttrId) (k : KeyId) (hlt : k < sch.ckeys.length) (h : k ∉ sch.ckeysWith a) : a ∉ sch.keyAttrs k := by
  intro hmem
  apply h
  unfold Schema.ckeysWith
  exact List.mem_filter.mpr ⟨List.mem_range.mpr hlt, by simpa using hmem⟩

theorem map_set1_of_not_mem (l : List AttrId) (f : AttrId → Option Nat) (a : AttrId) (v : Option Nat) (h : a ∉ l) : l.map (set1 f a v) = l.map f :=
  List.map_congr_left (fun x hx => by
    have : x ≠ a := fun e => h (e ▸ hx)
    simp [set1, this])

/-- after the moves of `o` and the write of its new values the key-index invariant holds again -/
theorem idxOk_after_write {sch : Schema} {s2 : Store} {o : ObjId} {nv : AttrId → Option Nat} (h : IdxOkV sch s2 o nv) (hd : IdxDom sch s2)
    (S : Store) (hn : S.n = s2.n) (hi : S.idx = s2.idx) (hc : S.cidx = s2.cidx)
    (hother : ∀ p, p ≠ o → (S.row p).status.isDel = (s2.row p).status.isDel ∧ ∀ a, sch.isKeyPart a = true → (S.row p).val a = (s2.row p).val a)
    (ho : (S.row o).status.isDel = (s2.row o).status.isDel ∧ ∀ a, sch.isKeyPart a = true → (S.row o).val a = nv a) :
    IdxOk sch S ∧ IdxDom sch S := by
  have hdS : IdxDom sch S := ⟨fun a v q e => by rw [hi] at e; rw [hn]; exact hd.idx a v q e, fun k vs q e => by rw [hc] at e; rw [hn]; exact hd.cidx k vs q e⟩
  refine ⟨?_, hdS⟩
  intro p hp hl
  have hp' : p < s2.n := hn ▸ hp
  by_cases hpo : p = o
  · rw [hpo] at hp' hl ⊢
    rw [ho.1] at hl
    have := h o hp' hl
    simp only [if_true] at this
    have h2 : KeyOkV sch S o nv := ⟨fun a x e => this.idxVal a x (hi ▸ e), fun a u e hu => by rw [hi]; exact this.valIdx a u e hu,
      fun k vs e => this.cidxVal k vs (hc ▸ e), fun k us e hlt => by rw [hc]; exact this.valCidx k us e hlt⟩
    exact (h2.congr hdS (fun a ha => (ho.2 a ha).symm)).toKeyOk
  · rw [(hother p hpo).1] at hl
    have := h p hp' hl
    simp only [hpo, if_false] at this
    have h2 : KeyOkV sch S p (s2.row p).val := ⟨fun a x e => this.idxVal a x (hi ▸ e), fun a u e hu => by rw [hi]; exact this.valIdx a u e hu,
      fun k vs e => this.cidxVal k vs (hc ▸ e), fun k us e hlt => by rw [hc]; exact this.valCidx k us e hlt⟩
    exact (h2.congr hdS (fun a ha => ((hother p hpo).2 a ha).symm)).toKeyOk

section top
variable {sch : Schema} {s0 : Store}

/-- if the call succeeds, the session stays well-formed -/
def OkWF (sch : Schema) (s0 : Store) (st : St) (r : Res) : Prop :=
  ∀ st', r = .ok st' → Good s0 st → IdxOk sch st.store → IdxDom sch st.store → SaveOk st'.store ∧ IdxOk sch st'.store ∧ IdxDom sch st'.store

theorem OkWF.err (st : St) (e : Err) (st' : St) : OkWF sch s0 st (.err e st') := by
  intro st'' h; cases h

theorem OkWF.of_okInv {st : St} {r : Res} (h : OkInv sch s0 st r) : OkWF sch s0 st r := by
  intro st' hr g hk hd
  obtain ⟨h1, h2⟩ := h st' hr g
  exact ⟨h1, IdxOk.of_keep hk hd h2⟩

/-- `obj.attr = v` for an attribute that is part of a key -/
theorem okWF_attrSetTop_key (fuel : Nat) (o : ObjId) (a : AttrId) (v : Option Nat) (st : St) (ho : o < st.store.n)
    (hkp : sch.isKeyPart a = true) (hnd : (st.store.row o).status.isDel = false) :
    OkWF sch s0 st (attrSetTop sch fuel o a v st) := by
  intro st' hr g hok hdm
  unfold attrSetTop at hr
  dsimp only at hr
  split at hr
  · cases hr
  · split at hr
    · cases hr
    · rename_i d hd
      obtain ⟨hspec, hv, hidx0, hcidx0⟩ := mark_spec o (if d.bit then [a] else []) false st.store
      generalize hmk : mark o (if d.bit then [a] else []) false st.store = mk at hspec hv hidx0 hcidx0 hr
      obtain ⟨s1, pop⟩ := mk
      simp only at hspec hv hidx0 hcidx0 hr
      have hst : (s1.row o).status = (st.store.row o).status ∨ ((s1.row o).status = .modified ∧ (st.store.row o).status.isDel = false) := by
        have hq := hspec.q
        cases pop
        · simp only [Bool.false_eq_true, if_false] at hq; exact Or.inl hq.2.2
        · simp only [if_true] at hq; exact Or.inr ⟨hq.2.2.2, hnd⟩
      have base : Keep sch st.store s1 := by
        apply Keep.of_rows hspec.n hidx0 hcidx0
        intro p
        by_cases hp : p = o
        · rw [hp]; exact ⟨hst, fun a' _ => by rw [hv]⟩
        · rw [hspec.other p hp]; exact ⟨Or.inl rfl, fun _ _ => rfl⟩
      obtain ⟨hok1, hdm1⟩ := IdxOk.of_keep hok hdm base
      have ho1 : o < s1.n := hspec.n ▸ ho
      have hnd1 : (s1.row o).status.isDel = false := by
        rcases hst with e | ⟨e, _⟩
        · rw [e]; exact hnd
        · rw [e]; rfl
      split at hr
      · rename_i hpl; simp [hkp] at hpl
      · split at hr
        · cases hr
          exact ⟨hspec.saveOk g.save, hok1, hdm1⟩
        · cases hmv : runMoves sch o (if d.unique then [a] else []) (sch.ckeysWith a) (set1 (st.store.row o).val a v) s1 with
          | missing s2 m => rw [hmv] at hr; cases hr
          | conflict s2 m => rw [hmv] at hr; cases hr
          | done s2 m =>
            rw [hmv] at hr
            simp only at hr
            have hsimpleU : ∀ a', a' ∈ (if d.unique then [a] else []) → (match sch.decl a' with | some d => d.unique | none => false) = true := by
              intro a' ha'; split at ha'
              · rename_i hu; simp only [List.mem_singleton] at ha'; rw [ha', hd]; exact hu
              · cases ha'
            have hfwd := runMoves_fwd sch o (if d.unique then [a] else []) (sch.ckeysWith a) (set1 (st.store.row o).val a v) s1 s2 m
              (hok1 o ho1 hnd1) (by split <;> simp) (ckeysWith_nodup sch a) (ckeysWith_lt sch a) hsimpleU hmv
            obtain ⟨hV, hdm2⟩ := fwd_idxOkV hfwd hok1 hdm1 ho1 hnd1
              (fun a' ha' => hsimpleU a' (by simpa using ha'))
              (fun k hk' => ckeysWith_lt sch a k (by simpa using hk'))
              (fun a' hu hna => by
                have hne : a' ≠ a := by
                  intro e
                  apply hna
                  rw [e, hd] at hu
                  simp only at hu
                  rw [e]; simp [hu]
                rw [hv]; simp [set1, hne])
              (fun k hlt hnk => by
                have : a ∉ sch.keyAttrs k := not_mem_ckeysWith sch a k hlt (by simpa using hnk)
                rw [hv, map_set1_of_not_mem _ _ _ _ this])
            -- the store after the value write
            have hS := idxOk_after_write hV hdm2 (s2.upd o fun r => { r with val := set1 (st.store.row o).val a v }) rfl rfl rfl
              (fun p hp => by rw [upd_row_other _ _ _ _ hp]; exact ⟨rfl, fun _ _ => rfl⟩)
              (by rw [upd_row_same]; exact ⟨rfl, fun _ _ => rfl⟩)
            -- the save queue: from the restorability walk
            obtain ⟨f1, f2, f3, f4, f5, f6⟩ : MovesOk o s1 s2 m := by
              have := runMoves_spec sch o (if d.unique then [a] else []) (sch.ckeysWith a) (set1 (st.store.row o).val a v) s1
                ((hok o ho hnd).of_eq hidx0 hcidx0 hv) (by split <;> simp) (ckeysWith_nodup sch a) (ckeysWith_lt sch a) hsimpleU
              rw [hmv] at this; exact this
            have hstep : Step s0 st ((st.setStore (s2.upd o fun r => { r with val := set1 (st.store.row o).val a v })).log
                (.attrSet o a (st.store.row o).status (st.store.row o).wbits pop ((st.store.row o).val a) m)) := by
              refine step_markEntry _ (some (a, (st.store.row o).val a)) ho ((hspec.frame f1 f2 f3 f4 f5).setVal (fun _ => set1 (st.store.row o).val a v))
                (by simp only [fixVal, upd_row_same]; rw [set1_set1, set1_self]) (fun t => rfl) ?_
              intro _ T e1 e2
              obtain ⟨g1, g2⟩ := f6 T e1 e2
              exact ⟨g1.trans hidx0, g2.trans hcidx0⟩
            have hG := hstep.good g
            split at hr
            · split at hr
              · rename_i rd _
                have h2 := step_updateReverse (sch := sch) (s0 := s0) fuel d rd o a ((st.store.row o).val a) v
                  ((st.setStore (s2.upd o fun r => { r with val := set1 (st.store.row o).val a v })).log
                    (.attrSet o a (st.store.row o).status (st.store.row o).wbits pop ((st.store.row o).val a) m))
                have hk2 := keepR_updateReverse (sch := sch) fuel d rd o a ((st.store.row o).val a) v
                  ((st.setStore (s2.upd o fun r => { r with val := set1 (st.store.row o).val a v })).log
                    (.attrSet o a (st.store.row o).status (st.store.row o).wbits pop ((st.store.row o).val a) m)) st' hr
                rw [hr] at h2
                exact ⟨(h2.good hG).save, IdxOk.of_keep hS.1 hS.2 hk2⟩
              · cases hr
            · cases hr
              exact ⟨hG.save, hS.1, hS.2⟩

/-- schema well-formedness used for `obj.set(**kw)` and the constructor: the attributes of a composite key belong to the entity of the key -/
def KeysWf (sch : Schema) : Prop := ∀ k a d, a ∈ sch.keyAttrs k → sch.decl a = some d → sch.entOfKey k = some d.ent

theorem mem_attrsOf (sch : Schema) (a : AttrId) (d : AttrDecl) (h : sch.decl a = some d) : a ∈ sch.attrsOf d.ent := by
  unfold Schema.attrsOf
  refine List.mem_filter.mpr ⟨List.mem_range.mpr ?_, by simp [h]⟩
  unfold Schema.decl at h
  by_cases hlt : a < sch.attrs.length
  · exact hlt
  · rw [List.getElem?_eq_none (Nat.le_of_not_lt hlt)] at h; cases h

theorem find_none_of_not_any (l : List (AttrId × Option Nat)) (a : AttrId) (h : (l.any fun p => p.1 == a) = false) :
    l.find? (fun p => p.1 == a) = none := by
  rw [List.find?_eq_none]
  intro p hp
  have := List.any_eq_false.mp h p hp
  simpa using this

theorem bind_eq_ok {r : Res} {g : St → Res} {st' : St} (h : r.bind g = .ok st') : ∃ st1, r = .ok st1 ∧ g st1 = .ok st' := by
  cases r with
  | ok st1 => exact ⟨st1, rfl, h⟩
  | err e st1 => cases h

/-- `Entity.set` -/
theorem okWF_setMany (fuel : Nat) (o : ObjId) (kw : List (AttrId × Arg)) (st : St) (ho : o < st.store.n)
    (hnd : (st.store.row o).status.isDel = false) (hwf : KeysWf sch)
    (hkw : ∀ p, p ∈ kw → ∃ d, sch.decl p.1 = some d ∧ d.ent = (st.store.row o).ent) :
    OkWF sch s0 st (setMany sch fuel o kw st) := by
  intro st' hr g hok hdm
  unfold setMany at hr
  dsimp only at hr
  generalize hav : (List.map (fun p => (p.1, argVal p.2)) (List.filter (fun p => !match sch.decl p.1 with | some d => decide (d.kind = Kind.coll) | none => false) kw)) = avdict at hr
  generalize hcv : (List.map (fun p => (p.1, argItems p.2)) (List.filter (fun p => match sch.decl p.1 with | some d => decide (d.kind = Kind.coll) | none => false) kw)) = collAv at hr
  have havd : ∀ p, p ∈ avdict → ∃ d, sch.decl p.1 = some d ∧ d.ent = (st.store.row o).ent := by
    intro p hp
    rw [← hav] at hp
    obtain ⟨q, hq, rfl⟩ := List.mem_map.mp hp
    exact hkw q (List.mem_filter.mp hq).1
  have hmkspec : ∀ mk : Store × Bool, (mk = (if avdict.isEmpty = true then (st.store, false)
        else mark o (List.filter (fun a => match sch.decl a with | some d => d.bit | none => false) (List.map (fun x => x.1) avdict)) true st.store)) →
      MarkSpec st.store o mk.1 mk.2 ∧ (mk.1.row o).val = (st.store.row o).val ∧ mk.1.idx = st.store.idx ∧ mk.1.cidx = st.store.cidx := by
    intro mk hmk
    split at hmk
    · rw [hmk]; exact ⟨⟨rfl, rfl, rfl, fun _ _ => rfl, ⟨rfl, rfl, rfl, rfl, rfl, rfl⟩, ⟨rfl, rfl, rfl⟩⟩, rfl, rfl, rfl⟩
    · rw [hmk]; exact mark_spec _ _ _ _
  generalize hmk : (if avdict.isEmpty = true then (st.store, false)
        else mark o (List.filter (fun a => match sch.decl a with | some d => d.bit | none => false) (List.map (fun x => x.1) avdict)) true st.store) = mk at hr
  obtain ⟨hspec, hv, hidx0, hcidx0⟩ := hmkspec mk hmk.symm
  obtain ⟨s1, pop⟩ := mk
  simp only at hspec hv hidx0 hcidx0 hr
  have hst : (s1.row o).status = (st.store.row o).status ∨ ((s1.row o).status = .modified ∧ (st.store.row o).status.isDel = false) := by
    have hq := hspec.q
    cases pop
    · simp only [Bool.false_eq_true, if_false] at hq; exact Or.inl hq.2.2
    · simp only [if_true] at hq; exact Or.inr ⟨hq.2.2.2, hnd⟩
  have base : Keep sch st.store s1 := by
    apply Keep.of_rows hspec.n hidx0 hcidx0
    intro p
    by_cases hp : p = o
    · rw [hp]; exact ⟨hst, fun a' _ => by rw [hv]⟩
    · rw [hspec.other p hp]; exact ⟨Or.inl rfl, fun _ _ => rfl⟩
  obtain ⟨hok1, hdm1⟩ := IdxOk.of_keep hok hdm base
  have ho1 : o < s1.n := hspec.n ▸ ho
  have hnd1 : (s1.row o).status.isDel = false := by
    rcases hst with e | ⟨e, _⟩
    · rw [e]; exact hnd
    · rw [e]; rfl
  -- a write of values that leaves key parts alone
  have hwrite : ∀ (S0 : Store) (av : List (AttrId × Option Nat)), (∀ a, sch.isKeyPart a = true → (match av.find? (fun p => p.1 == a) with | some p => p.2 | none => (S0.row o).val a) = (S0.row o).val a) →
      (SaveOk S0 → SaveOk (S0.upd o fun r => { r with val := fun a => match av.find? (fun p => p.1 == a) with | some p => p.2 | none => r.val a })) ∧
      Keep sch S0 (S0.upd o fun r => { r with val := fun a => match av.find? (fun p => p.1 == a) with | some p => p.2 | none => r.val a }) := by
    intro S0 av hkeep
    refine tail_ok S0 _ rfl rfl rfl rfl (fun q => ?_)
    by_cases hq : q = o
    · rw [hq, upd_row_same]; exact ⟨rfl, rfl, fun a ha => hkeep a ha⟩
    · rw [upd_row_other _ _ _ _ hq]; exact ⟨rfl, rfl, fun _ _ => rfl⟩
  split at hr
  · -- only plain int attributes: obj._vals_.update(avdict); return
    rename_i hplain
    cases hr
    simp only [Bool.and_eq_true] at hplain
    have hpl := hplain.2
    obtain ⟨w1, w2⟩ := hwrite s1 avdict (by
      intro a ha
      cases hf : avdict.find? (fun p => p.1 == a) with
      | none => rfl
      | some p =>
        exfalso
        have hp := List.mem_of_find?_eq_some hf
        have hpa : p.1 = a := by simpa using List.find?_some hf
        have := List.all_eq_true.mp hpl p hp
        obtain ⟨d, hd, _⟩ := havd p hp
        rw [hd] at this
        simp only [Bool.and_eq_true, Bool.not_eq_true', decide_eq_true_eq] at this
        rw [hpa, ha] at this; cases this.2)
    exact ⟨w1 (hspec.saveOk g.save), IdxOk.of_keep hok1 hdm1 w2⟩
  · generalize hav2 : List.filter (fun p => (st.store.row o).val p.1 != p.2) avdict = av2 at hr
    have hav2d : ∀ p, p ∈ av2 → ∃ d, sch.decl p.1 = some d ∧ d.ent = (st.store.row o).ent := by
      intro p hp; rw [← hav2] at hp; exact havd p (List.mem_filter.mp hp).1
    generalize hnv : (fun a => match List.find? (fun p => p.1 == a) av2 with | some p => p.2 | none => (st.store.row o).val a) = newVal at hr
    generalize hsimple : List.filter (fun a => (match sch.decl a with | some d => d.unique | none => false) && av2.any fun p => p.1 == a)
      (sch.attrsOf (st.store.row o).ent) = simple at hr
    generalize hcomps : List.filter (fun k => (sch.keyAttrs k).any fun a => av2.any fun p => p.1 == a) (sch.ckeysOf (st.store.row o).ent) = comps at hr
    have hsn : simple.Nodup := by rw [← hsimple]; exact List.Pairwise.filter _ (attrsOf_nodup sch _)
    have hcn : comps.Nodup := by rw [← hcomps]; exact List.Pairwise.filter _ (ckeysOf_nodup sch _)
    have hcl : ∀ k, k ∈ comps → k < sch.ckeys.length := by
      intro k hk'; rw [← hcomps] at hk'; exact ckeysOf_lt sch _ k (List.mem_filter.mp hk').1
    have huq : ∀ a, a ∈ simple → (match sch.decl a with | some d => d.unique | none => false) = true := by
      intro a ha; rw [← hsimple] at ha
      have := (List.mem_filter.mp ha).2
      simp only [Bool.and_eq_true] at this
      exact this.1
    have hnvnone : ∀ a, (av2.any fun p => p.1 == a) = false → newVal a = (s1.row o).val a := by
      intro a ha; rw [← hnv, hv]; simp only [find_none_of_not_any av2 a ha]
    cases hmv : runMoves sch o simple comps newVal s1 with
    | missing s2 m => rw [hmv] at hr; cases hr
    | conflict s2 m => rw [hmv] at hr; cases hr
    | done s2 m =>
      rw [hmv] at hr
      simp only at hr
      have hfwd := runMoves_fwd sch o simple comps newVal s1 s2 m (hok1 o ho1 hnd1) hsn hcn hcl huq hmv
      obtain ⟨hV, hdm2⟩ := fwd_idxOkV hfwd hok1 hdm1 ho1 hnd1
        (fun a' ha' => huq a' (by simpa using ha'))
        (fun k hk' => hcl k (by simpa using hk'))
        (fun a' hu hna => by
          apply hnvnone
          cases hany : (av2.any fun p => p.1 == a')
          · rfl
          · exfalso
            apply hna
            simp only [List.append_nil, List.mem_reverse]
            rw [← hsimple]
            obtain ⟨p, hp, hpa⟩ := List.any_eq_true.mp hany
            obtain ⟨d, hd, hde⟩ := hav2d p hp
            have hpa' : p.1 = a' := by simpa using hpa
            refine List.mem_filter.mpr ⟨?_, by simp [hu, hany]⟩
            rw [← hpa', ← hde]; exact mem_attrsOf sch p.1 d hd)
        (fun k hlt hnk => by
          congr 1
          apply List.map_congr_left
          intro a ha
          apply hnvnone
          cases hany : (av2.any fun p => p.1 == a)
          · rfl
          · exfalso
            apply hnk
            simp only [List.append_nil, List.mem_reverse]
            rw [← hcomps]
            obtain ⟨p, hp, hpa⟩ := List.any_eq_true.mp hany
            obtain ⟨d, hd, hde⟩ := hav2d p hp
            have hpa' : p.1 = a := by simpa using hpa
            refine List.mem_filter.mpr ⟨?_, ?_⟩
            · unfold Schema.ckeysOf
              refine List.mem_filter.mpr ⟨List.mem_range.mpr hlt, ?_⟩
              rw [hwf k a d ha (hpa' ▸ hd), hde]; simp
            · exact List.any_eq_true.mpr ⟨a, ha, hany⟩)
      obtain ⟨f1, f2, f3, f4, f5, f6⟩ : MovesOk o s1 s2 m := by
        have := runMoves_spec sch o simple comps newVal s1 ((hok o ho hnd).of_eq hidx0 hcidx0 hv) hsn hcn hcl huq
        rw [hmv] at this; exact this
      have hentry : Step s0 st ((st.setStore s2).log (.setMany o (st.store.row o).status (st.store.row o).wbits pop m)) := by
        refine step_markEntry _ none ho (hspec.frame f1 f2 f3 f4 f5) (by simp only [fixVal]; rw [f2, hv])
          (fun t => by simp only [undo1]; rw [upd_fixNone]) ?_
        intro _ T e1 e2
        obtain ⟨g1, g2⟩ := f6 T e1 e2
        exact ⟨g1.trans hidx0, g2.trans hcidx0⟩
      obtain ⟨st3, hrN, htail⟩ := bind_eq_ok hr
      have hstepN : Step s0 ((st.setStore s2).log (.setMany o (st.store.row o).status (st.store.row o).wbits pop m)) (Res.ok st3).st := by
        rw [← hrN]
        apply step_bind
        · apply step_iter
          intro p s
          split
          · split
            · split
              · exact step_updateReverse _ _ _ _ _ _ _ _
              · exact Step.refl _ _
            · exact Step.refl _ _
          · exact Step.refl _ _
        · intro st1 _
          apply step_iter
          intro p s
          exact step_setColl (fun x st => step_delete _ x st) true o p.1 p.2 s _ rfl (Or.inl rfl)
      have hkeepN : KeepR sch ((st.setStore s2).log (.setMany o (st.store.row o).status (st.store.row o).wbits pop m)) (Res.ok st3) := by
        rw [← hrN]
        apply keepR_bind
        · apply keepR_iter
          intro p s
          split
          · split
            · split
              · exact keepR_updateReverse _ _ _ _ _ _ _ _
              · exact KeepR.err _ _ _ _
            · exact KeepR.ok (Keep.refl _ _)
          · exact KeepR.ok (Keep.refl _ _)
        · intro st1 _
          apply keepR_iter
          intro p s
          exact keepR_setColl (fun x st => keepR_delete _ x st) true o p.1 p.2 s
      have hr := htail
      simp only [Res.ok.injEq] at hr
      · have hk3 : Keep sch s2 st3.store := hkeepN st3 rfl
        have hG3 := hstepN.good (hentry.good g)
        obtain ⟨hV3, hdm3⟩ := IdxOkV.of_keep hV hdm2 hk3
        rw [← hr]
        have hS := idxOk_after_write hV3 hdm3 (st3.store.upd o fun r => { r with val := fun a => match av2.find? (fun p => p.1 == a) with | some p => p.2 | none => r.val a }) rfl rfl rfl
          (fun p hp => by rw [upd_row_other _ _ _ _ hp]; exact ⟨rfl, fun _ _ => rfl⟩)
          (by
            rw [upd_row_same]
            refine ⟨rfl, fun a ha => ?_⟩
            show (match av2.find? (fun p => p.1 == a) with | some p => p.2 | none => (st3.store.row o).val a) = newVal a
            rw [← hnv]
            cases hf : av2.find? (fun p => p.1 == a) with
            | some p => simp only [hf]
            | none =>
              simp only [hf]
              rw [hk3.scal o a ha, f2, base.scal o a ha])
        refine ⟨?_, hS.1, hS.2⟩
        refine SaveOk.of_eq hG3.save rfl rfl (fun q => ?_)
        by_cases hq : q = o
        · rw [hq]; simp [St.setStore, Store.upd, Res.st]
        · simp [St.setStore, Store.upd, hq, Res.st]

/-- every user call except the constructor (whose proof is not finished): flush, delete with its cascades, every
    collection call, every single attribute assignment (key attributes included) -/
def covered : Op → Bool
  | .create _ _ _ => false
  | .setMany _ _ => false
  | _ => true

theorem okWF_run1 (op : Op) (s : Store) (hq : covered op = true) : OkWF sch s { store := s } (run1 sch op { store := s }) := by
  cases op with
  | create e pk vals => cases hq
  | setMany o kw => cases hq
  | flush ids => exact OkWF.of_okInv (okInv_run1 _ s rfl)
  | add o c items => exact OkWF.of_okInv (okInv_run1 _ s rfl)
  | remove o c items => exact OkWF.of_okInv (okInv_run1 _ s rfl)
  | clear o c => exact OkWF.of_okInv (okInv_run1 _ s rfl)
  | delete o => exact OkWF.of_okInv (okInv_run1 _ s rfl)
  | set o a v =>
    by_cases hkp : sch.isKeyPart a = true
    · unfold run1
      dsimp only
      split
      · exact OkWF.err _ _ _
      · rename_i hok
        split
        · exact OkWF.err _ _ _
        · rename_i hnd
          split
          · exact OkWF.err _ _ _
          · split
            · exact OkWF.of_okInv (okInv_setColl _ _ _ _ _)
            · have holt : o < s.n := by
                unfold attrOk at hok
                split at hok
                · assumption
                · cases hok
              exact okWF_attrSetTop_key _ _ _ _ _ holt hkp (by simpa using hnd)
    · exact OkWF.of_okInv (okInv_run1 _ s (by simp [quiet, hkp]))

/-- a successful covered call keeps the well-formedness facts -/
theorem covered_call_keeps (op : Op) (s : Store) (st' : St) (hq : covered op = true) (hs : SaveOk s) (hk : IdxOk sch s) (hd : IdxDom sch s)
    (h : run1 sch op { store := s } = .ok st') : SaveOk st'.store ∧ IdxOk sch st'.store ∧ IdxDom sch st'.store := by
  have g0 : Good s ({ store := s } : St) := ⟨hs, Nat.le_refl _, fun t ht => ht.symm⟩
  exact okWF_run1 (sch := sch) op s hq st' h g0 hk hd

end top
end PonyVerif.Model.Undo
