/-
  C19, threads: N sessions that share only the two provider locks (the pool, the session cache and the connection are
  thread-local).  A session is represented by the chronological list of its lock events — for the sessions of
  `Model/ConnLock.lean` that list follows the protocol `(preAcq acq preRel … rel)*` for EVERY failure oracle
  (`lockEvents_run`, `C19_lock_protocol` in Props/C19.lean), which is all this file assumes about them.
-/
import PonyVerif.Lemmas.ConnLock
namespace PonyVerif.Model.ConnLock.Interleave
open PonyVerif.Model.ConnLock

structure WInv (w : World) : Prop where
  wb : ∀ (j : Nat) (t : Thread), w.threads[j]? = some t → t.WB
  pre : w.threads.countP Thread.holdsPre = if w.pre then 1 else 0
  tx : w.threads.countP Thread.holdsTx = if w.tx then 1 else 0

theorem countP_set {α} (p : α → Bool) : ∀ (l : List α) (i : Nat) (t t' : α), l[i]? = some t →
    (l.set i t').countP p + (if p t then 1 else 0) = l.countP p + (if p t' then 1 else 0)
  | [], i, t, t', h => by simp at h
  | a :: l, 0, t, t', h => by
    simp at h; subst h
    simp [List.countP_cons]; omega
  | a :: l, i + 1, t, t', h => by
    simp at h
    have := countP_set p l i t t' h
    simp [List.countP_cons]; omega

theorem step_inv {w w' : World} {i : Nat} (hI : WInv w) (hs : step w i = some w') : WInv w' := by
  unfold step at hs
  split at hs; · simp at hs
  rename_i t ht
  split at hs; · simp at hs
  rename_i e r hr
  split at hs; · simp at hs
  rename_i ph hph
  have hwb : Thread.WB ⟨ph, r⟩ := by
    have := hI.wb i t ht
    unfold Thread.WB at this ⊢
    rw [hr] at this
    simpa [Phase.run, hph] using this
  have hwb' : ∀ ts, ts = w.threads.set i ⟨ph, r⟩ → ∀ (j : Nat) (t' : Thread), ts[j]? = some t' → t'.WB := by
    intro ts hts j t' hj
    subst hts
    rw [List.getElem?_set] at hj
    split at hj
    · split at hj
      · simp at hj; subst hj; exact hwb
      · simp at hj
    · exact hI.wb j t' hj
  have hcp := countP_set Thread.holdsPre w.threads i t ⟨ph, r⟩ ht
  have hct := countP_set Thread.holdsTx w.threads i t ⟨ph, r⟩ ht
  have hp := hI.pre
  have htx := hI.tx
  cases e <;> cases hphase : t.phase <;> simp [Phase.step, hphase] at hph <;> subst hph <;>
    simp only [] at hs <;> (split at hs <;> simp at hs) <;> subst hs <;>
    refine ⟨hwb' _ rfl, ?_, ?_⟩ <;>
    simp_all [Thread.holdsPre, Thread.holdsTx] <;> omega

theorem runSchedule_inv (sched : List Nat) : ∀ {w : World}, WInv w → WInv (runSchedule w sched) := by
  induction sched with
  | nil => intro w h; exact h
  | cons i is ih =>
    intro w h
    unfold runSchedule
    split
    · rename_i w' hs; exact ih (step_inv h hs)
    · exact ih h

theorem initial_inv (sessions : List (List LEv)) (h : ∀ evs ∈ sessions, Phase.run .idle evs = some .idle) :
    WInv (initial sessions) := by
  refine ⟨?_, ?_, ?_⟩
  · intro j t hj
    simp [initial, List.getElem?_map] at hj
    obtain ⟨evs, hevs, rfl⟩ := hj
    exact h evs (List.mem_of_getElem? hevs)
  · simp [initial, List.countP_eq_zero, Thread.holdsPre]
  · simp [initial, List.countP_eq_zero, Thread.holdsTx]

/-- mutual exclusion: at most one thread holds the transaction lock -/
theorem mutex {w : World} (hI : WInv w) : w.threads.countP Thread.holdsTx ≤ 1 := by
  rw [hI.tx]; split <;> omega

/-- a thread that has finished holds neither lock -/
theorem finished_idle {w : World} (hI : WInv w) {j : Nat} {t : Thread} (ht : w.threads[j]? = some t) (hfin : t.rest = []) :
    t.phase = .idle := by
  have := hI.wb j t ht
  unfold Thread.WB at this
  rw [hfin] at this
  simpa [Phase.run] using this

theorem exists_of_countP_pos {α} (p : α → Bool) (l : List α) (h : 0 < l.countP p) : ∃ (j : Nat) (t : α), l[j]? = some t ∧ p t = true := by
  obtain ⟨t, ht, hp⟩ := List.countP_pos_iff.mp h
  obtain ⟨j, hj, rfl⟩ := List.getElem_of_mem ht
  exact ⟨j, _, List.getElem?_eq_getElem hj, hp⟩

theorem countP_pos_of {α} (p : α → Bool) (l : List α) {j : Nat} {t : α} (ht : l[j]? = some t) (hp : p t = true) : 0 < l.countP p :=
  List.countP_pos_iff.mpr ⟨t, List.mem_of_getElem? ht, hp⟩

theorem flag_true_of_pos {b : Bool} {n : Nat} (h : n = if b then 1 else 0) (hpos : 0 < n) : b = true := by
  cases b <;> simp_all

theorem flag_false_of_zero {b : Bool} {n : Nat} (h : n = if b then 1 else 0) (hz : ¬ 0 < n) : b = false := by
  cases b <;> simp_all

/-- what the next event of a protocol-conforming thread is -/
theorem next_event {t : Thread} (hwb : t.WB) :
    (t.phase = .idle ∧ (t.rest = [] ∨ ∃ r, t.rest = .preAcq :: r)) ∨ (t.phase = .hasPre ∧ ∃ r, t.rest = .acq :: r) ∨
    (t.phase = .hasBoth ∧ ∃ r, t.rest = .preRel :: r) ∨ (t.phase = .hasTx ∧ ∃ r, t.rest = .rel :: r) := by
  obtain ⟨ph, rest⟩ := t
  unfold Thread.WB at hwb
  cases rest with
  | nil => simp [Phase.run] at hwb; simp [hwb]
  | cons e r => cases ph <;> cases e <;> simp_all [Phase.run, Phase.step]

/-- no deadlock: while some thread is unfinished, some thread can take its next step -/
theorem progress {w : World} (hI : WInv w) (hun : ∃ (j : Nat) (t : Thread), w.threads[j]? = some t ∧ t.rest ≠ []) :
    ∃ i, (step w i).isSome = true := by
  have hp := hI.pre
  have htx := hI.tx
  by_cases hT : 0 < w.threads.countP Thread.holdsTx
  · -- the holder of the transaction lock can always move on
    obtain ⟨j, t, ht, hh⟩ := exists_of_countP_pos _ _ hT
    have hwtx : w.tx = true := flag_true_of_pos htx hT
    refine ⟨j, ?_⟩
    rcases next_event (hI.wb j t ht) with ⟨h1, _⟩ | ⟨h1, _⟩ | ⟨h1, r, h2⟩ | ⟨h1, r, h2⟩
    · simp [Thread.holdsTx, h1] at hh
    · simp [Thread.holdsTx, h1] at hh
    · have hwpre : w.pre = true :=
        flag_true_of_pos hp (countP_pos_of Thread.holdsPre w.threads ht (by simp [Thread.holdsPre, h1]))
      simp [step, ht, h2, h1, Phase.step, hwpre]
    · simp [step, ht, h2, h1, Phase.step, hwtx]
  · have hwtx : w.tx = false := flag_false_of_zero htx hT
    by_cases hP : 0 < w.threads.countP Thread.holdsPre
    · -- nobody holds the transaction lock: the holder of the pre-lock acquires it
      obtain ⟨j, t, ht, hh⟩ := exists_of_countP_pos _ _ hP
      refine ⟨j, ?_⟩
      rcases next_event (hI.wb j t ht) with ⟨h1, _⟩ | ⟨h1, r, h2⟩ | ⟨h1, r, h2⟩ | ⟨h1, _⟩
      · simp [Thread.holdsPre, h1] at hh
      · simp [step, ht, h2, h1, Phase.step, hwtx]
      · exfalso; exact hT (countP_pos_of Thread.holdsTx w.threads ht (by simp [Thread.holdsTx, h1]))
      · simp [Thread.holdsPre, h1] at hh
    · -- both locks are free: any unfinished thread can start
      have hwpre : w.pre = false := flag_false_of_zero hp hP
      obtain ⟨j, t, ht, hne⟩ := hun
      refine ⟨j, ?_⟩
      rcases next_event (hI.wb j t ht) with ⟨h1, h2 | ⟨r, h2⟩⟩ | ⟨h1, _⟩ | ⟨h1, _⟩ | ⟨h1, _⟩
      · exact absurd h2 hne
      · simp [step, ht, h2, h1, Phase.step, hwpre]
      · exfalso; exact hP (countP_pos_of Thread.holdsPre w.threads ht (by simp [Thread.holdsPre, h1]))
      · exfalso; exact hT (countP_pos_of Thread.holdsTx w.threads ht (by simp [Thread.holdsTx, h1]))
      · exfalso; exact hT (countP_pos_of Thread.holdsTx w.threads ht (by simp [Thread.holdsTx, h1]))

/-- a later session is not blocked by earlier ones: when every other thread has finished, thread `i` can take its step -/
theorem not_blocked_by_finished {w : World} (hI : WInv w) {i : Nat} {t : Thread} (ht : w.threads[i]? = some t)
    (hne : t.rest ≠ []) (hothers : ∀ (j : Nat) (t' : Thread), j ≠ i → w.threads[j]? = some t' → t'.rest = []) :
    (step w i).isSome = true := by
  obtain ⟨k, hk⟩ := progress hI ⟨i, t, ht, hne⟩
  by_cases hki : k = i
  · subst hki; exact hk
  · exfalso
    unfold step at hk
    cases hkt : w.threads[k]? with
    | none => simp [hkt] at hk
    | some t' =>
      have := hothers k t' hki hkt
      simp [hkt, this] at hk

end PonyVerif.Model.ConnLock.Interleave
