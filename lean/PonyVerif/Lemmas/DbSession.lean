/-
  C18 — helper definitions and lemmas about Model/DbSession.lean.
-/
import PonyVerif.Model.DbSession
namespace PonyVerif.Model.DbSession
open PonyVerif.Gen

/-- the thread is outside every db_session and holds no uncommitted change -/
def Clean (s : St) : Prop := s.counter = 0 ∧ s.session = none ∧ s.pending = []

/-- what code running *inside* an open session may do to the thread state: it can only add pending writes (and ghost
    trace events); it neither commits nor rolls back nor changes the nesting counter / the outermost session -/
structure Preserves (s s' : St) : Prop where
  counter : s'.counter = s.counter
  session : s'.session = s.session
  committed : s'.committed = s.committed
  ncommit : s'.ncommit = s.ncommit
  pending : ∃ ws, s'.pending = s.pending ++ ws

/-- a body (any piece of code run while a session is open) that respects `Preserves` -/
def InnerOK (f : St → St × Outcome) : Prop :=
  ∀ s, 0 < s.counter → s.session.isSome = true → Preserves s (f s).1

/-- what ANY code running inside an open session — including code that calls `commit()` / `rollback()` itself —
    leaves untouched: the nesting counter and the outermost session -/
structure Bal (s s' : St) : Prop where
  counter : s'.counter = s.counter
  session : s'.session = s.session

def InnerBal (f : St → St × Outcome) : Prop :=
  ∀ s, 0 < s.counter → s.session.isSome = true → Bal s (f s).1

theorem Bal.refl (s : St) : Bal s s := ⟨rfl, rfl⟩
theorem Bal.trans {a b c : St} (h1 : Bal a b) (h2 : Bal b c) : Bal a c :=
  ⟨h2.counter.trans h1.counter, h2.session.trans h1.session⟩
theorem Preserves.bal {s s' : St} (h : Preserves s s') : Bal s s' := ⟨h.counter, h.session⟩
theorem InnerOK.bal {f : St → St × Outcome} (h : InnerOK f) : InnerBal f := fun s hc hs => (h s hc hs).bal

theorem Preserves.refl (s : St) : Preserves s s := ⟨rfl, rfl, rfl, rfl, ⟨[], by simp⟩⟩

theorem Preserves.trans {a b c : St} (h1 : Preserves a b) (h2 : Preserves b c) : Preserves a c := by
  obtain ⟨w1, hw1⟩ := h1.pending
  obtain ⟨w2, hw2⟩ := h2.pending
  exact ⟨h2.counter.trans h1.counter, h2.session.trans h1.session, h2.committed.trans h1.committed,
    h2.ncommit.trans h1.ncommit, ⟨w1 ++ w2, by rw [hw2, hw1, List.append_assoc]⟩⟩

/-! ### bridges: what the definitions regenerated from the source (Gen/DbSessionGen.lean) compute at the places where
the model uses them.  These lemmas are re-checked against the regenerated file on every run; every later proof goes
through them, so a change of the source at one of these places breaks the theorems that depend on it. -/

theorem allowedDecision_eq (o : Opts) (exc : Option Exc) :
    allowedDecision o exc = (match exc with | none => .yes | some e => o.allowed e) := by
  cases exc <;> cases hc : o.allowedCallable <;> simp [allowedDecision, DbSessionGen.canCommit, hc]

theorem commitOrRollback_eq (env : Env) (o : Opts) (exc : Option Exc) (s : St) :
    commitOrRollback env o exc s =
      (let r : St × Option Exc :=
        match exc with
        | none => commit env s
        | some e =>
          match o.allowed e with
          | .raises e' => (rollback s, some e')
          | .yes => commit env s
          | .no => (rollback s, none)
       ({ r.1 with session := none }, r.2)) := by
  simp only [commitOrRollback, allowedDecision_eq, DbSessionGen.commitBranchCommits, DbSessionGen.elseBranchRollsBack,
    DbSessionGen.clearsSession, if_true]
  cases exc with
  | none => rfl
  | some e => cases o.allowed e <;> rfl

theorem enter_eq (o : Opts) (s : St) :
    enter o s =
      (match s.session with
       | none => if s.counter ≠ 0 then .error .assertion else .ok { s with session := some o.sess, counter := s.counter + 1 }
       | some cur =>
         if o.ddl && !cur.ddl then .error .ddlInsideNonDdl
         else if o.serializable && !cur.serializable then .error .serInsideNonSer
         else .ok { s with counter := s.counter + 1 }) := by
  simp only [enter, DbSessionGen.counterAfterEnter]
  rfl

theorem exit_eq (env : Env) (o : Opts) (exc : Option Exc) (s : St) :
    exit env o exc s =
      (let s1 := { s with counter := s.counter - 1 }
       if s1.counter = 0 then
         if s1.session.map (·.sid) ≠ some o.sid then (s1, some .assertion)
         else commitOrRollback env o exc s1
       else (s1, none)) := by
  simp only [exit, DbSessionGen.counterAfterExit, DbSessionGen.exitIsOutermost, DbSessionGen.exitPassesExc, if_true]
  by_cases h : s.counter - 1 = 0 <;> simp [h]

theorem doRetry_eq (env : Env) (o : Opts) (e : Exc) :
    doRetry env o e = if env.shouldRetry e then .yes else o.retryable e := by
  cases hc : o.retryCallable <;> simp [doRetry, DbSessionGen.doRetry, hc]

theorem loopExc_eq (e : Exc) : loopExc e = some e := by
  simp [loopExc, DbSessionGen.loopExitPassesExc]

theorem loopFuel_eq (retry : Nat) : DbSessionGen.loopFuel retry = retry + 1 := rfl

theorem attempt_eq (env : Env) (o : Opts) (run : Nat → St → St × Outcome) (i : Nat) (s1 : St) :
    attempt env o run i s1 =
      (let b := run i s1
       let c : St × Option Exc := match b.2 with
         | .ret => commit env b.1
         | .raise e => (b.1, some e)
       let a : Att := ⟨s1, b.1, b.2, c.2⟩
       match c.2 with
       | none =>
         let x := exit env o none c.1
         (x.1, .done (match x.2 with | none => .ret | some e' => .raise e'), a)
       | some e =>
         match doRetry env o e with
         | .yes =>
           let x := exit env o (some e) (rollback c.1)
           (x.1, (match x.2 with | some e' => .done (.raise e') | none => .again e), a)
         | .no =>
           let x := exit env o (some e) c.1
           (x.1, .done (.raise (x.2.getD e)), a)
         | .raises e' =>
           let x := exit env o (some e) c.1
           (x.1, .done (.raise (x.2.getD e')), a)) := by
  simp only [attempt, loopExc_eq, DbSessionGen.commitAfterBody, DbSessionGen.retryPathRollsBack, if_true]
  rfl

theorem flaskExit_eq (env : Env) (ponySession : Option Opts) (exception : Option Exc) (s : St) :
    flaskExit env ponySession exception s =
      (match ponySession with
       | none => (s, none)
       | some session => exit env session exception s) := by
  simp only [flaskExit, DbSessionGen.flaskExitPassesType, if_true]
  rfl

theorem isAllowedException_eq (isResp isErr : Bool) :
    DbSessionGen.isAllowedException isResp isErr = (isResp && !isErr) := rfl

/-- would this `commit()` go through? (nothing pending: nothing to do) -/
def commitOK (env : Env) (n : Nat) (ws : List Write) : Bool :=
  ws.isEmpty || (env.commitFail n).isNone

/-- the exception a `commit()` of `ws` as the n-th real commit raises -/
def commitErr (env : Env) (n : Nat) (ws : List Write) : Option Exc :=
  if ws = [] then none else env.commitFail n

/-- does `_commit_or_rollback` choose `commit()`? -/
def wantsCommit (o : Opts) : Option Exc → Bool
  | none => true
  | some e => o.allowed e == .yes

theorem commitOK_iff (env : Env) (n : Nat) (ws : List Write) : commitOK env n ws = true ↔ commitErr env n ws = none := by
  unfold commitOK commitErr
  cases ws <;> simp [Option.isNone_iff_eq_none]

theorem commit_spec (env : Env) (s : St) :
    (commit env s).1 = { s with pending := [],
                                committed := s.committed ++ (if commitOK env s.ncommit s.pending then s.pending else []),
                                ncommit := if s.pending = [] then s.ncommit else s.ncommit + 1 } ∧
    (commit env s).2 = commitErr env s.ncommit s.pending := by
  unfold commit commitOK commitErr
  by_cases hp : s.pending = []
  · simp [hp]
    cases s; simp_all
  · cases hf : env.commitFail s.ncommit <;> simp [hp]

/-- the exception `_commit_or_rollback` raises itself -/
def corErr (env : Env) (o : Opts) (exc : Option Exc) (n : Nat) (ws : List Write) : Option Exc :=
  match exc with
  | none => commitErr env n ws
  | some e =>
    match o.allowed e with
    | .raises e' => some e'
    | .yes => commitErr env n ws
    | .no => none

theorem cor_spec (env : Env) (o : Opts) (exc : Option Exc) (s : St) :
    (commitOrRollback env o exc s).1 =
      { s with pending := [], session := none,
               committed := s.committed ++ (if wantsCommit o exc && commitOK env s.ncommit s.pending then s.pending else []),
               ncommit := if wantsCommit o exc && !(s.pending.isEmpty) then s.ncommit + 1 else s.ncommit } ∧
    (commitOrRollback env o exc s).2 = corErr env o exc s.ncommit s.pending := by
  rw [commitOrRollback_eq]
  unfold corErr wantsCommit
  cases exc with
  | none =>
    have h := commit_spec env s
    simp only [h.1, h.2]
    by_cases hp : s.pending = [] <;> simp [hp]
  | some e =>
    cases ha : o.allowed e with
    | yes =>
      have h := commit_spec env s
      simp only [ha, h.1, h.2]
      by_cases hp : s.pending = [] <;> simp [hp]
    | no => simp [ha, rollback]
    | raises e' => simp [ha, rollback]

/-- right after the outermost `_enter()` of session `o` -/
def Entered (o : Opts) (s : St) : Prop := s.counter = 1 ∧ s.session = some o.sess

theorem enter_clean (o : Opts) (s : St) (h : Clean s) :
    enter o s = .ok { s with session := some o.sess, counter := 1 } := by
  obtain ⟨h1, h2, _⟩ := h
  simp [enter_eq, h1, h2]

theorem exit_entered (env : Env) (o : Opts) (exc : Option Exc) (s : St) (h : Entered o s) :
    exit env o exc s = commitOrRollback env o exc { s with counter := 0 } := by
  obtain ⟨h1, h2⟩ := h
  simp [exit_eq, h1, h2, Opts.sess]

theorem exit_inner (env : Env) (o : Opts) (exc : Option Exc) (s : St) (h : 1 < s.counter) :
    exit env o exc s = ({ s with counter := s.counter - 1 }, none) := by
  have : s.counter - 1 ≠ 0 := by omega
  simp [exit_eq, this]

/-- the state in which the body of an outermost session `o` starts -/
def entered (o : Opts) (s : St) : St := { s with session := some o.sess, counter := 1 }

theorem entered_Entered (o : Opts) (s : St) : Entered o (entered o s) := ⟨rfl, rfl⟩

theorem Preserves.entered {o : Opts} {s s' : St} (h : Entered o s) (hp : Preserves s s') : Entered o s' :=
  ⟨hp.counter.trans h.1, hp.session.trans h.2⟩

theorem Bal.entered {o : Opts} {s s' : St} (h : Entered o s) (hp : Bal s s') : Entered o s' :=
  ⟨hp.counter.trans h.1, hp.session.trans h.2⟩

/-- the outermost `__exit__`: everything about the result -/
theorem exit_top' (env : Env) (o : Opts) (exc : Option Exc) (b : St) (he : Entered o b) :
    Clean (exit env o exc b).1 ∧
    (exit env o exc b).1.committed =
      b.committed ++ (if wantsCommit o exc && commitOK env b.ncommit b.pending then b.pending else []) ∧
    (exit env o exc b).1.trace = b.trace ∧
    (exit env o exc b).2 = corErr env o exc b.ncommit b.pending := by
  rw [exit_entered env o exc b he]
  have h := cor_spec env o exc { b with counter := 0 }
  rw [h.1, h.2]
  simp [Clean]

/-- the outermost `__exit__` after a body that respected `Preserves` -/
theorem exit_top (env : Env) (o : Opts) (exc : Option Exc) (s1 b : St) (he : Entered o s1) (hp : Preserves s1 b) :
    Clean (exit env o exc b).1 ∧
    (exit env o exc b).1.committed =
      s1.committed ++ (if wantsCommit o exc && commitOK env s1.ncommit b.pending then b.pending else []) ∧
    (exit env o exc b).1.trace = b.trace ∧
    (exit env o exc b).2 = corErr env o exc s1.ncommit b.pending := by
  have h := exit_top' env o exc b (hp.entered he)
  rw [hp.committed, hp.ncommit] at h
  exact h

theorem cm_top (env : Env) (o : Opts) (run : St → St × Outcome) (s : St) (hc : Clean s) (hr : InnerBal run)
    (h0 : o.retry = 0) :
    let b := run (entered o s)
    Clean (cm env o run s).1 ∧
    (cm env o run s).1.committed =
      b.1.committed ++ (if wantsCommit o b.2.exc? && commitOK env b.1.ncommit b.1.pending then b.1.pending else []) ∧
    (cm env o run s).1.trace = b.1.trace ∧
    (cm env o run s).2 = (match corErr env o b.2.exc? b.1.ncommit b.1.pending with
                           | some e' => .raise e'
                           | none => b.2) := by
  intro b
  have hp : Bal (entered o s) b.1 := hr (entered o s) (by simp [entered]) (by simp [entered])
  have hx := exit_top' env o b.2.exc? b.1 (hp.entered (entered_Entered o s))
  have hcm : cm env o run s = ((exit env o b.2.exc? b.1).1,
      match (exit env o b.2.exc? b.1).2 with | some e' => .raise e' | none => b.2) := by
    simp only [cm, h0, enter_clean o s hc]
    rfl
  rw [hcm]
  refine ⟨hx.1, hx.2.1, hx.2.2.1, ?_⟩
  simp only [hx.2.2.2]

/-- does this execution of the decorated function's body end with its writes committed? -/
def attCommits (env : Env) (o : Opts) (a : Att) : Bool :=
  commitOK env a.after.ncommit a.writes &&
  match a.bodyOut with
  | .ret => true
  | .raise e => (doRetry env o e != .yes) && (o.allowed e == .yes)

/-- what one iteration of the retry loop produces, as a function of what the `except:` clause saw -/
def attOutSpec (env : Env) (o : Opts) (a : Att) : AttOut :=
  match a.exc with
  | none => .done .ret
  | some e =>
    match doRetry env o e with
    | .yes => (match o.allowed e with | .raises e' => .done (.raise e') | _ => .again e)
    | .no => .done (.raise ((corErr env o (some e) a.after.ncommit (if a.bodyOut = .ret then [] else a.writes)).getD e))
    | .raises e' => .done (.raise ((corErr env o (some e) a.after.ncommit (if a.bodyOut = .ret then [] else a.writes)).getD e'))

theorem attempt_spec (env : Env) (o : Opts) (run : Nat → St → St × Outcome) (i : Nat) (s1 : St)
    (he : Entered o s1) (hr : InnerBal (run i)) (bs : St) (bo : Outcome) (hb : run i s1 = (bs, bo)) :
    (attempt env o run i s1).2.2 = ⟨s1, bs, bo, match bo with
                                    | .ret => commitErr env bs.ncommit bs.pending
                                    | .raise e => some e⟩ ∧
    Clean (attempt env o run i s1).1 ∧ (attempt env o run i s1).1.trace = bs.trace ∧
    (attempt env o run i s1).1.committed =
      bs.committed ++ (if attCommits env o (attempt env o run i s1).2.2 then bs.pending else []) ∧
    (attempt env o run i s1).2.1 = attOutSpec env o (attempt env o run i s1).2.2 := by
  have hp : Bal s1 bs := by
    have := hr s1 (by rw [he.1]; decide) (by rw [he.2]; rfl)
    rwa [hb] at this
  have heb : Entered o bs := hp.entered he
  have hc := commit_spec env bs
  cases bo with
  | ret =>
    cases hce : commitErr env bs.ncommit bs.pending with
    | none =>
      have hok : commitOK env bs.ncommit bs.pending = true := (commitOK_iff _ _ _).2 hce
      have hx := exit_top' env o none (commit env bs).1 (by rw [hc.1]; exact heb)
      simp only [attempt_eq, hb, hc.2, hce]
      refine ⟨trivial, hx.1, ?_, ?_, ?_⟩
      · rw [hx.2.2.1, hc.1]
      · rw [hx.2.1, hc.1]
        simp [attCommits, Att.writes, commitOK]
      · rw [hx.2.2.2, hc.1]
        simp [attOutSpec, corErr, commitErr]
    | some e =>
      have hnok : commitOK env bs.ncommit bs.pending = false := by
        cases h : commitOK env bs.ncommit bs.pending with
        | false => rfl
        | true => rw [(commitOK_iff _ _ _).1 h] at hce; cases hce
      have hec : Entered o (commit env bs).1 := by rw [hc.1]; exact heb
      have hpc : (commit env bs).1.pending = [] := by rw [hc.1]
      have hcc : (commit env bs).1.committed = bs.committed := by rw [hc.1]; simp [hnok]
      have hct : (commit env bs).1.trace = bs.trace := by rw [hc.1]
      have hx := exit_top' env o (some e) (commit env bs).1 hec
      rw [hpc, hcc, hct] at hx
      have hrb : rollback (commit env bs).1 = (commit env bs).1 := by
        simp only [rollback]; rw [← hpc]
      simp only [attempt_eq, hb, hc.2, hce]
      cases hd : doRetry env o e with
      | yes =>
        simp only [hrb]
        refine ⟨trivial, ?_, ?_, ?_, ?_⟩
        · exact hx.1
        · exact hx.2.2.1
        · have : (exit env o (some e) (commit env bs).1).1.committed = bs.committed := by simpa using hx.2.1
          simp [this, attCommits, Att.writes, hnok]
        · rw [hx.2.2.2]
          simp only [attOutSpec, hd, corErr, commitErr]
          cases o.allowed e <;> simp
      | no =>
        dsimp only
        refine ⟨rfl, hx.1, hx.2.2.1, ?_, ?_⟩
        · have : (exit env o (some e) (commit env bs).1).1.committed = bs.committed := by simpa using hx.2.1
          simp [this, attCommits, Att.writes, hnok]
        · rw [hx.2.2.2]; simp [attOutSpec, Att.writes, hd, corErr, commitErr]
      | raises e' =>
        dsimp only
        refine ⟨rfl, hx.1, hx.2.2.1, ?_, ?_⟩
        · have : (exit env o (some e) (commit env bs).1).1.committed = bs.committed := by simpa using hx.2.1
          simp [this, attCommits, Att.writes, hnok]
        · rw [hx.2.2.2]; simp [attOutSpec, Att.writes, hd, corErr, commitErr]
  | raise e =>
    simp only [attempt_eq, hb]
    cases hd : doRetry env o e with
    | yes =>
      have her : Entered o (rollback bs) := heb
      have hx := exit_top' env o (some e) (rollback bs) her
      have hx2 : (exit env o (some e) (rollback bs)).1.committed = bs.committed := by
        rw [hx.2.1]; simp [rollback]
      dsimp only
      refine ⟨rfl, hx.1, hx.2.2.1, ?_, ?_⟩
      · simp [hx2, attCommits, Att.writes, hd]
      · rw [hx.2.2.2]
        simp only [attOutSpec, hd, corErr, commitErr, rollback]
        cases o.allowed e <;> simp
    | no =>
      have hx := exit_top' env o (some e) bs heb
      dsimp only
      refine ⟨rfl, hx.1, hx.2.2.1, ?_, ?_⟩
      · rw [hx.2.1]; simp [attCommits, Att.writes, hd, wantsCommit, Bool.and_comm]
      · rw [hx.2.2.2]; simp [attOutSpec, Att.writes, hd]
    | raises e' =>
      have hx := exit_top' env o (some e) bs heb
      dsimp only
      refine ⟨rfl, hx.1, hx.2.2.1, ?_, ?_⟩
      · rw [hx.2.1]; simp [attCommits, Att.writes, hd, wantsCommit, Bool.and_comm]
      · rw [hx.2.2.2]; simp [attOutSpec, Att.writes, hd]

/-- the record `a` is what execution number `i` of the body really did, started right after the outermost `_enter()`
    with nothing pending and the database equal to `c` -/
structure Faithful (env : Env) (o : Opts) (run : Nat → St → St × Outcome) (c : List Write) (i : Nat) (a : Att) : Prop where
  entered : Entered o a.start
  pending : a.start.pending = []
  committed : a.start.committed = c
  after : a.after = (run i a.start).1
  bodyOut : a.bodyOut = (run i a.start).2
  exc : a.exc = match a.bodyOut with
                | .ret => commitErr env a.after.ncommit a.writes
                | .raise e => some e

/-- `log` records consecutive executions `i, i+1, …`; every one but the last ended in "go on with the next `i`", and
    the next one starts with the database exactly as the previous body left it (`a.after.committed`: the old database
    plus what that body committed ITSELF — the retry machinery adds nothing) -/
inductive Chain (env : Env) (o : Opts) (run : Nat → St → St × Outcome) : List Write → Nat → List Att → Prop where
  | last (c : List Write) (i : Nat) (a : Att) : Faithful env o run c i a → Chain env o run c i [a]
  | cons (c : List Write) (i : Nat) (a : Att) (rest : List Att) : Faithful env o run c i a → (∃ e, attOutSpec env o a = .again e) →
      Chain env o run a.after.committed (i + 1) rest → Chain env o run c i (a :: rest)

theorem again_spec {env : Env} {o : Opts} {a : Att} {e : Exc} (h : attOutSpec env o a = .again e) :
    a.exc = some e ∧ doRetry env o e = .yes := by
  unfold attOutSpec at h
  cases hx : a.exc with
  | none => simp [hx] at h
  | some e' =>
    simp only [hx] at h
    cases hd : doRetry env o e' with
    | yes =>
      simp only [hd] at h
      cases ha : o.allowed e' <;> simp [ha] at h <;> subst h <;> exact ⟨rfl, hd⟩
    | no => simp [hd] at h
    | raises e'' => simp [hd] at h

theorem again_not_commits {env : Env} {o : Opts} {run : Nat → St → St × Outcome} {c : List Write} {i : Nat} {a : Att}
    {e : Exc} (hf : Faithful env o run c i a) (h : attOutSpec env o a = .again e) : attCommits env o a = false := by
  obtain ⟨hx, hd⟩ := again_spec h
  have hexc := hf.exc
  unfold attCommits
  cases hb : a.bodyOut with
  | ret =>
    rw [hb] at hexc
    rw [hx] at hexc
    cases hok : commitOK env a.after.ncommit a.writes with
    | false => simp
    | true => rw [(commitOK_iff _ _ _).1 hok] at hexc; cases hexc
  | raise e' =>
    rw [hb, hx] at hexc
    simp only [Option.some.injEq] at hexc
    subst hexc
    simp [hd]

theorem iter_facts (env : Env) (o : Opts) (run : Nat → St → St × Outcome) (i : Nat) (s : St) (hc : Clean s)
    (hr : InnerBal (run i)) :
    Faithful env o run s.committed i (attempt env o run i (entered o s)).2.2 ∧
    Clean (attempt env o run i (entered o s)).1 ∧
    (attempt env o run i (entered o s)).1.committed =
      (attempt env o run i (entered o s)).2.2.after.committed ++ (if attCommits env o (attempt env o run i (entered o s)).2.2
                      then (attempt env o run i (entered o s)).2.2.writes else []) ∧
    (attempt env o run i (entered o s)).2.1 = attOutSpec env o (attempt env o run i (entered o s)).2.2 := by
  rcases hb : run i (entered o s) with ⟨bs, bo⟩
  have h := attempt_spec env o run i (entered o s) (entered_Entered o s) hr bs bo hb
  obtain ⟨h1, h2, _, h4, h5⟩ := h
  refine ⟨?_, h2, ?_, h5⟩
  · rw [h1]
    refine ⟨entered_Entered o s, ?_, rfl, ?_, ?_, ?_⟩
    · simpa [entered] using hc.2.2
    · simp [hb]
    · simp [hb]
    · cases bo <;> rfl
  · rw [h4, h1]; rfl

theorem loop_unfold (env : Env) (o : Opts) (run : Nat → St → St × Outcome) (fuel i : Nat) (last : Option Exc) (s : St)
    (hc : Clean s) :
    loop env o run (fuel + 1) i last s =
      match attempt env o run i (entered o s) with
      | (s2, .done out, a) => ⟨s2, out, [a]⟩
      | (s2, .again e, a) =>
        let r := loop env o run fuel (i + 1) (some e) s2
        ⟨r.st, r.out, a :: r.log⟩ := by
  rw [loop, enter_clean o s hc]
  rfl

theorem loop_spec (env : Env) (o : Opts) (run : Nat → St → St × Outcome) (hr : ∀ j, InnerBal (run j)) :
    ∀ (fuel i : Nat) (last : Option Exc) (s : St), Clean s →
      Chain env o run s.committed i (loop env o run (fuel + 1) i last s).log ∧
      (loop env o run (fuel + 1) i last s).log.length ≤ fuel + 1 ∧ Clean (loop env o run (fuel + 1) i last s).st ∧
      ∃ a, (loop env o run (fuel + 1) i last s).log.getLast? = some a ∧
        (loop env o run (fuel + 1) i last s).st.committed = a.after.committed ++ (if attCommits env o a then a.writes else []) ∧
        (loop env o run (fuel + 1) i last s).out = (match attOutSpec env o a with | .done out => out | .again e => .raise e) ∧
        (∀ e, attOutSpec env o a = .again e → (loop env o run (fuel + 1) i last s).log.length = fuel + 1) := by
  intro fuel
  induction fuel with
  | zero =>
    intro i last s hc
    obtain ⟨hf, hcl, hcm, hout⟩ := iter_facts env o run i s hc (hr i)
    rw [loop_unfold env o run 0 i last s hc]
    rcases ht : attempt env o run i (entered o s) with ⟨s2, ao, a⟩
    rw [ht] at hf hcl hcm hout
    simp only at hf hcl hcm hout
    cases ao with
    | done out =>
      refine ⟨Chain.last _ i a hf, by simp, hcl, a, by simp, hcm, ?_, ?_⟩
      · simp [← hout]
      · intro e he; rw [← hout] at he; cases he
    | again e =>
      have hnc := again_not_commits hf hout.symm
      simp only [loop]
      refine ⟨Chain.last _ i a hf, by simp, hcl, a, by simp, hcm, ?_, ?_⟩
      · simp [← hout]
      · intro _ _; rfl
  | succ n ih =>
    intro i last s hc
    obtain ⟨hf, hcl, hcm, hout⟩ := iter_facts env o run i s hc (hr i)
    rw [loop_unfold env o run (n + 1) i last s hc]
    rcases ht : attempt env o run i (entered o s) with ⟨s2, ao, a⟩
    rw [ht] at hf hcl hcm hout
    simp only at hf hcl hcm hout
    cases ao with
    | done out =>
      refine ⟨Chain.last _ i a hf, by simp, hcl, a, by simp, hcm, ?_, ?_⟩
      · simp [← hout]
      · intro e he; rw [← hout] at he; cases he
    | again e =>
      have hnc := again_not_commits hf hout.symm
      have hs2 : s2.committed = a.after.committed := by rw [hcm, hnc]; simp
      obtain ⟨ih1, ih2, ih3, a', ih4, ih5, ih6, ih7⟩ := ih (i + 1) (some e) s2 hcl
      rw [hs2] at ih1
      have hne : (loop env o run (n + 1) (i + 1) (some e) s2).log ≠ [] := by
        intro h; rw [h] at ih4; cases ih4
      refine ⟨Chain.cons _ i a _ hf ⟨e, hout.symm⟩ ih1, by simp; omega, ih3, a', ?_, ih5, ih6, ?_⟩
      · simp only [List.getLast?_cons_of_ne_nil hne] ; exact ih4
      · intro e' he'; simp [ih7 e' he']

/-! ### nested use: while a session is open, nothing below commits or rolls back -/

theorem enter_inner (o : Opts) (s : St) (hs : s.session.isSome = true) :
    (∃ e, enter o s = .error e) ∨ enter o s = .ok { s with counter := s.counter + 1 } := by
  unfold enter
  cases hss : s.session with
  | none => rw [hss] at hs; cases hs
  | some cur =>
    dsimp only
    split
    · exact .inl ⟨_, rfl⟩
    · split
      · exact .inl ⟨_, rfl⟩
      · exact .inr rfl

theorem cm_inner (env : Env) (o : Opts) (run : St → St × Outcome) (hr : InnerOK run) : InnerOK (cm env o run) := by
  intro s hc hs
  unfold cm
  split
  · exact Preserves.refl s
  · rcases enter_inner o s hs with ⟨e, he⟩ | he
    · rw [he]; exact Preserves.refl s
    · rw [he]
      dsimp only
      have hp := hr { s with counter := s.counter + 1 } (by simp; omega) (by simpa using hs)
      rw [exit_inner env o _ _ (by rw [hp.counter]; simp; omega)]
      obtain ⟨ws, hws⟩ := hp.pending
      exact ⟨by simp [hp.counter], by simp [hp.session], by simp [hp.committed], by simp [hp.ncommit], ⟨ws, by simpa using hws⟩⟩

theorem decorated_inner (env : Env) (o : Opts) (run : Nat → St → St × Outcome) (hr : InnerOK (run 0)) :
    InnerOK (fun s => ((decorated env o run s).st, (decorated env o run s).out)) := by
  intro s hc hs
  have hne : s.counter ≠ 0 := by omega
  simp only [decorated, hne, ne_eq, not_false_eq_true, if_true]
  split
  · exact Preserves.refl s
  · exact hr s hc hs

/-- the bodies of the consumer's own sessions -/
theorem readBody_inner : InnerOK (fun s : St =>
    if s.session.isSome then ({ s with trace := s.trace ++ [.saw (s.committed ++ s.pending)] }, Outcome.ret)
    else (s, Outcome.raise .noSession)) := by
  intro s _ hs
  simp only [hs, if_true]
  exact ⟨rfl, rfl, rfl, rfl, ⟨[], by simp⟩⟩

theorem writeBody_inner (w : Write) : InnerOK (fun s : St => (addWrites s [w], Outcome.ret)) := by
  intro s _ _
  exact ⟨rfl, rfl, rfl, rfl, ⟨[w], rfl⟩⟩

theorem betweenRun_inner (env : Env) (b : Between) : InnerOK (betweenRun env b) := by
  cases b with
  | none => intro s _ _; exact Preserves.refl s
  | read => exact cm_inner env {} _ readBody_inner
  | write w => exact cm_inner env {} _ (writeBody_inner w)

theorem iterGen_inner (env : Env) (o : Opts) (steps : List (Seg × Resume)) : InnerOK (iterGen env o steps) := by
  intro s hc hs
  unfold iterGen
  split
  · exact Preserves.refl s
  · cases steps with
    | nil => exact Preserves.refl s
    | cons st rest =>
      obtain ⟨seg, r⟩ := st
      have hb := betweenRun_inner env seg.before s hc hs
      simp only [iterLoop]
      rcases hbr : betweenRun env seg.before s with ⟨s0, bo⟩
      rw [hbr] at hb
      cases bo with
      | raise e => exact hb
      | ret =>
        have hs0 : s0.session.isSome = true := by rw [hb.session]; exact hs
        simp only [wrappedInteract, hs0, if_true]
        exact hb

theorem flask_inner (env : Env) (hooked : Bool) (view : St → St × Outcome) (hr : InnerOK view) :
    InnerOK (flaskRequest env hooked view) := by
  intro s hc hs
  unfold flaskRequest
  cases hooked with
  | false =>
    simp only [Bool.false_eq_true, if_false, flaskExit_eq]
    exact hr s hc hs
  | true =>
    have he : enter (defaultOpts env) s = .ok { s with counter := s.counter + 1 } := by
      rw [enter_eq]
      cases hss : s.session with
      | none => rw [hss] at hs; cases hs
      | some cur => simp [defaultOpts]
    simp only [if_true, flaskEnter, ne_eq]
    have h0 : (defaultOpts env).retry = 0 := rfl
    simp only [h0, not_true_eq_false, if_false, he, flaskExit_eq]
    have hp := hr { s with counter := s.counter + 1 } (by simp; omega) (by simpa using hs)
    rw [exit_inner env _ _ _ (by rw [hp.counter]; simp; omega)]
    obtain ⟨ws, hws⟩ := hp.pending
    exact ⟨by simp [hp.counter], by simp [hp.session], by simp [hp.committed], by simp [hp.ncommit], ⟨ws, by simpa using hws⟩⟩

theorem exec_inner (env : Env) (p : Prog) : p.noManual → InnerOK (exec env p) := by
  induction p with
  | skip => intro _ s _ _; exact Preserves.refl s
  | write w =>
    intro _ s _ hs
    simp only [exec, hs, if_true, addWrites]
    exact ⟨rfl, rfl, rfl, rfl, ⟨[w], rfl⟩⟩
  | mark n => intro _ s _ _; exact ⟨rfl, rfl, rfl, rfl, ⟨[], by simp [exec]⟩⟩
  | observe =>
    intro _ s _ hs
    simp only [exec, hs, if_true]
    exact ⟨rfl, rfl, rfl, rfl, ⟨[], by simp⟩⟩
  | commit => intro hm; exact absurd hm (by simp [Prog.noManual])
  | rollback => intro hm; exact absurd hm (by simp [Prog.noManual])
  | raise e => intro _ s _ _; exact Preserves.refl s
  | seq a b iha ihb =>
    intro hm s hc hs
    simp only [Prog.noManual] at hm
    have h1 := iha hm.1 s hc hs
    simp only [exec]
    rcases hr : exec env a s with ⟨s1, o1⟩
    rw [hr] at h1
    cases o1 with
    | ret =>
      dsimp only
      exact h1.trans (ihb hm.2 s1 (by rw [h1.counter]; exact hc) (by rw [h1.session]; exact hs))
    | raise e => exact h1
  | tryCatch p c h ihp ihh =>
    intro hm s hc hs
    simp only [Prog.noManual] at hm
    have h1 := ihp hm.1 s hc hs
    simp only [exec]
    rcases hr : exec env p s with ⟨s1, o1⟩
    rw [hr] at h1
    cases o1 with
    | ret => exact h1
    | raise e =>
      dsimp only
      split
      · exact h1.trans (ihh hm.2 s1 (by rw [h1.counter]; exact hc) (by rw [h1.session]; exact hs))
      · exact h1
  | withSession o p ih => intro hm; exact cm_inner env o _ (ih (by simpa [Prog.noManual] using hm))
  | call o f ih =>
    intro hm
    simp only [Prog.noManual] at hm
    exact decorated_inner env o _ (ih 0 (hm 0))
  | iter o steps => intro _; exact iterGen_inner env o steps
  | flask hooked view ih => intro hm; exact flask_inner env hooked _ (ih (by simpa [Prog.noManual] using hm))

/-! ### the same for ANY program, including bodies that call `commit()` / `rollback()` themselves: the nesting counter
and the outermost session are untouched (so the outermost `__exit__` is still the one that decides) -/

theorem cm_bal (env : Env) (o : Opts) (run : St → St × Outcome) (hr : InnerBal run) : InnerBal (cm env o run) := by
  intro s hc hs
  unfold cm
  split
  · exact Bal.refl s
  · rcases enter_inner o s hs with ⟨e, he⟩ | he
    · rw [he]; exact Bal.refl s
    · rw [he]
      dsimp only
      have hp := hr { s with counter := s.counter + 1 } (by simp; omega) (by simpa using hs)
      rw [exit_inner env o _ _ (by rw [hp.counter]; simp; omega)]
      exact ⟨by simp [hp.counter], by simp [hp.session]⟩

theorem decorated_bal (env : Env) (o : Opts) (run : Nat → St → St × Outcome) (hr : InnerBal (run 0)) :
    InnerBal (fun s => ((decorated env o run s).st, (decorated env o run s).out)) := by
  intro s hc hs
  have hne : s.counter ≠ 0 := by omega
  simp only [decorated, hne, ne_eq, not_false_eq_true, if_true]
  split
  · exact Bal.refl s
  · exact hr s hc hs

theorem flask_bal (env : Env) (hooked : Bool) (view : St → St × Outcome) (hr : InnerBal view) :
    InnerBal (flaskRequest env hooked view) := by
  intro s hc hs
  unfold flaskRequest
  cases hooked with
  | false =>
    simp only [Bool.false_eq_true, if_false, flaskExit_eq]
    exact hr s hc hs
  | true =>
    have he : enter (defaultOpts env) s = .ok { s with counter := s.counter + 1 } := by
      rw [enter_eq]
      cases hss : s.session with
      | none => rw [hss] at hs; cases hs
      | some cur => simp [defaultOpts]
    simp only [if_true, flaskEnter, ne_eq]
    have h0 : (defaultOpts env).retry = 0 := rfl
    simp only [h0, not_true_eq_false, if_false, he, flaskExit_eq]
    have hp := hr { s with counter := s.counter + 1 } (by simp; omega) (by simpa using hs)
    rw [exit_inner env _ _ _ (by rw [hp.counter]; simp; omega)]
    exact ⟨by simp [hp.counter], by simp [hp.session]⟩

theorem exec_bal (env : Env) (p : Prog) : InnerBal (exec env p) := by
  induction p with
  | skip => intro s _ _; exact Bal.refl s
  | write w => intro s _ hs; simp only [exec, hs, if_true, addWrites]; exact ⟨rfl, rfl⟩
  | mark n => intro s _ _; exact ⟨rfl, rfl⟩
  | observe => intro s _ hs; simp only [exec, hs, if_true]; exact ⟨rfl, rfl⟩
  | commit =>
    intro s _ _
    have h := commit_spec env s
    simp only [exec]
    rw [h.1]
    exact ⟨rfl, rfl⟩
  | rollback => intro s _ _; exact ⟨rfl, rfl⟩
  | raise e => intro s _ _; exact Bal.refl s
  | seq a b iha ihb =>
    intro s hc hs
    have h1 := iha s hc hs
    simp only [exec]
    rcases hr : exec env a s with ⟨s1, o1⟩
    rw [hr] at h1
    cases o1 with
    | ret =>
      dsimp only
      exact h1.trans (ihb s1 (by rw [h1.counter]; exact hc) (by rw [h1.session]; exact hs))
    | raise e => exact h1
  | tryCatch p c h ihp ihh =>
    intro s hc hs
    have h1 := ihp s hc hs
    simp only [exec]
    rcases hr : exec env p s with ⟨s1, o1⟩
    rw [hr] at h1
    cases o1 with
    | ret => exact h1
    | raise e =>
      dsimp only
      split
      · exact h1.trans (ihh s1 (by rw [h1.counter]; exact hc) (by rw [h1.session]; exact hs))
      · exact h1
  | withSession o p ih => exact cm_bal env o _ ih
  | call o f ih => exact decorated_bal env o _ (ih 0)
  | iter o steps => exact (iterGen_inner env o steps).bal
  | flask hooked view ih => exact flask_bal env hooked _ ih

/-! ### generator functions -/

/-- which of the segment's writes one step of a wrapped generator commits (n = number of real commits so far) -/
def stepCommits (env : Env) (n : Nat) (seg : Seg) : Resume → List Write
  | .next =>
    if seg.manualCommit then
      if commitOK env n seg.writes then
        seg.writes ++ (if seg.fin = .ret ∧ commitOK env (if seg.writes = [] then n else n + 1) seg.late then seg.late else [])
      else []
    else if seg.fin = .ret ∧ commitOK env n (seg.writes ++ seg.late) then seg.writes ++ seg.late else []
  | _ => []

/-- what one step of a wrapped generator produces -/
def stepOutSpec (env : Env) (n : Nat) (seg : Seg) : Resume → StepOut
  | .close => .raised .generatorExit
  | .throw e => .raised e
  | .next =>
    match (if seg.manualCommit then commitErr env n seg.writes else none) with
    | some e => .raised e
    | none =>
      let n' := if seg.manualCommit ∧ seg.writes ≠ [] then n + 1 else n
      let rest := if seg.manualCommit then seg.late else seg.writes ++ seg.late
      match seg.fin with
      | .raise e => .raised e
      | .ret => (match commitErr env n' rest with | none => .stopped | some e => .raised e)
      | .yield => if rest ≠ [] then .raised .genSuspendDirty else .yielded

theorem step_spec (env : Env) (o : Opts) (seg : Seg) (resume : Resume) (s : St) (hc : Clean s) :
    Clean (wrappedInteract env o seg resume [] s).1 ∧
    (wrappedInteract env o seg resume [] s).2.1 = [] ∧
    (wrappedInteract env o seg resume [] s).1.trace = s.trace ∧
    (wrappedInteract env o seg resume [] s).1.committed = s.committed ++ stepCommits env s.ncommit seg resume ∧
    (wrappedInteract env o seg resume [] s).2.2 = stepOutSpec env s.ncommit seg resume := by
  obtain ⟨c, ss, p, cm, n, t⟩ := s
  obtain ⟨h1, h2, h3⟩ := hc
  simp only at h1 h2 h3
  subst h1 h2 h3
  cases resume with
  | close => simp [wrappedInteract, rollback, Clean, stepCommits, stepOutSpec, DbSessionGen.genCounterInside, DbSessionGen.genCounterAfter]
  | throw e => simp [wrappedInteract, rollback, Clean, stepCommits, stepOutSpec, DbSessionGen.genCounterInside, DbSessionGen.genCounterAfter]
  | next =>
    obtain ⟨bf, ws, mc, late, fin⟩ := seg
    cases mc <;> cases fin <;> cases ws <;> cases late <;> cases hf : env.commitFail n <;> cases hf1 : env.commitFail (n + 1) <;>
      simp [wrappedInteract, commit, rollback, addWrites, Clean, stepCommits, stepOutSpec, commitOK, commitErr, hf, hf1,
        DbSessionGen.genCounterInside, DbSessionGen.genCounterAfter]

/-- the consumer's own session while the generator is suspended: it runs like any top-level session (the thread is
    clean at a suspension), leaves the thread clean, and the database only grows -/
theorem betweenRun_clean (env : Env) (b : Between) (s : St) (hc : Clean s) :
    Clean (betweenRun env b s).1 ∧ s.committed <+: (betweenRun env b s).1.committed := by
  cases b with
  | none => exact ⟨hc, List.prefix_refl _⟩
  | read =>
    have h := cm_top env {} _ s hc readBody_inner.bal rfl
    refine ⟨h.1, ?_⟩
    have hp := readBody_inner (entered {} s) (by simp [entered]) (by simp [entered])
    show s.committed <+: (cm env {} _ s).1.committed
    rw [h.2.1, hp.committed]
    exact List.prefix_append _ _
  | write w =>
    have h := cm_top env {} _ s hc (writeBody_inner w).bal rfl
    refine ⟨h.1, ?_⟩
    show s.committed <+: (cm env {} _ s).1.committed
    rw [h.2.1]
    exact List.prefix_append _ _

theorem iterLoop_clean (env : Env) (o : Opts) :
    ∀ (steps : List (Seg × Resume)) (s : St), Clean s →
      Clean (iterLoop env o steps [] s).1 ∧ s.committed <+: (iterLoop env o steps [] s).1.committed := by
  intro steps
  induction steps with
  | nil => intro s hc; exact ⟨hc, List.prefix_refl _⟩
  | cons st rest ih =>
    intro s hc
    obtain ⟨seg, r⟩ := st
    obtain ⟨hb1, hb2⟩ := betweenRun_clean env seg.before s hc
    simp only [iterLoop]
    rcases hbr : betweenRun env seg.before s with ⟨s0, bo⟩
    rw [hbr] at hb1 hb2
    cases bo with
    | raise e => exact ⟨hb1, hb2⟩
    | ret =>
      dsimp only
      obtain ⟨h1, h2, _, h4, _⟩ := step_spec env o seg r s0 hb1
      rcases hw : wrappedInteract env o seg r [] s0 with ⟨s1, copy1, out⟩
      rw [hw] at h1 h2 h4
      simp only at h1 h2 h4
      have hpre : s.committed <+: s1.committed := by
        refine hb2.trans ?_
        rw [h4]; exact List.prefix_append _ _
      cases out with
      | yielded =>
        dsimp only
        rw [h2]
        obtain ⟨i1, i2⟩ := ih s1 h1
        exact ⟨i1, hpre.trans i2⟩
      | stopped => exact ⟨h1, hpre⟩
      | raised e => exact ⟨h1, hpre⟩

theorem iterGen_clean (env : Env) (o : Opts) (steps : List (Seg × Resume)) (s : St) (hc : Clean s) :
    Clean (iterGen env o steps s).1 ∧ s.committed <+: (iterGen env o steps s).1.committed := by
  unfold iterGen
  split
  · exact ⟨hc, List.prefix_refl _⟩
  · exact ⟨(iterLoop_clean env o steps s hc).1, (iterLoop_clean env o steps s hc).2⟩

/-! ### Flask -/

theorem flask_eq_cm (env : Env) (view : St → St × Outcome) (s : St) (hc : Clean s) :
    flaskRequest env true view s = cm env (defaultOpts env) view s := by
  have h0 : (defaultOpts env).retry = 0 := rfl
  simp only [flaskRequest, flaskEnter, cm, h0, ne_eq, not_true_eq_false, if_false, if_true, enter_clean _ s hc, flaskExit_eq]

/-! ### nothing leaks out of a top-level construct -/

theorem decorated_top (env : Env) (o : Opts) (run : Nat → St → St × Outcome) (s : St) (hc : Clean s) :
    decorated env o run s = loop env o run (o.retry + 1) 0 none s := by
  simp [decorated, hc.1, loopFuel_eq]

theorem exec_clean (env : Env) (p : Prog) : ∀ s, Clean s → Clean (exec env p s).1 := by
  induction p with
  | skip => intro s hc; exact hc
  | write w => intro s hc; simp [exec, hc.2.1]; exact hc
  | mark n => intro s hc; exact hc
  | observe => intro s hc; simp [exec, hc.2.1]; exact hc
  | commit =>
    intro s hc
    have h := commit_spec env s
    simp only [exec]
    rw [h.1]
    exact ⟨hc.1, hc.2.1, rfl⟩
  | rollback => intro s hc; exact ⟨hc.1, hc.2.1, rfl⟩
  | raise e => intro s hc; exact hc
  | seq a b iha ihb =>
    intro s hc
    have h1 := iha s hc
    simp only [exec]
    rcases hr : exec env a s with ⟨s1, o1⟩
    rw [hr] at h1
    cases o1 with
    | ret => exact ihb s1 h1
    | raise e => exact h1
  | tryCatch p c h ihp ihh =>
    intro s hc
    have h1 := ihp s hc
    simp only [exec]
    rcases hr : exec env p s with ⟨s1, o1⟩
    rw [hr] at h1
    cases o1 with
    | ret => exact h1
    | raise e =>
      dsimp only
      split
      · exact ihh s1 h1
      · exact h1
  | withSession o p _ =>
    intro s hc
    simp only [exec]
    by_cases h0 : o.retry = 0
    · exact (cm_top env o _ s hc (exec_bal env p) h0).1
    · simp [cm, h0]; exact hc
  | call o f _ =>
    intro s hc
    simp only [exec, decorated_top env o _ s hc]
    exact (loop_spec env o _ (fun j => exec_bal env (f j)) o.retry 0 none s hc).2.2.1
  | iter o steps => intro s hc; exact (iterGen_clean env o steps s hc).1
  | flask hooked view ih =>
    intro s hc
    cases hooked with
    | true =>
      simp only [exec, flask_eq_cm env _ s hc]
      exact (cm_top env _ _ s hc (exec_bal env view) rfl).1
    | false =>
      simp only [exec, flaskRequest, Bool.false_eq_true, if_false, flaskExit]
      exact ih s hc

/-- what `Chain` says about each recorded execution -/
theorem chain_all {env : Env} {o : Opts} {run : Nat → St → St × Outcome} :
    ∀ {c : List Write} {i : Nat} {log : List Att}, Chain env o run c i log →
      (∀ a ∈ log, Entered o a.start ∧ a.start.pending = []) ∧
      (∀ a ∈ log.dropLast, ∃ e, a.exc = some e ∧ doRetry env o e = .yes ∧ attCommits env o a = false) ∧
      (∀ j (h : j < log.length), ∃ c', Faithful env o run c' (i + j) log[j]) ∧
      (∃ a0, log.head? = some a0 ∧ a0.start.committed = c) ∧
      (∀ j (h : j + 1 < log.length), log[j + 1].start.committed = log[j].after.committed) := by
  intro c i log hch
  induction hch with
  | last c i a hf =>
    refine ⟨?_, ?_, ?_, ⟨a, rfl, hf.committed⟩, ?_⟩
    · intro x hx
      simp only [List.mem_singleton] at hx
      subst hx
      exact ⟨hf.entered, hf.pending⟩
    · intro x hx; simp at hx
    · intro j h
      have : j = 0 := by simpa using h
      subst this
      exact ⟨c, by simpa using hf⟩
    · intro j h; simp at h
  | cons c i a rest hf hag _ ih =>
    obtain ⟨ih1, ih2, ih3, ⟨a0, ih4, ih4'⟩, ih5⟩ := ih
    obtain ⟨e, he⟩ := hag
    refine ⟨?_, ?_, ?_, ⟨a, rfl, hf.committed⟩, ?_⟩
    · intro x hx
      rcases List.mem_cons.1 hx with rfl | hx
      · exact ⟨hf.entered, hf.pending⟩
      · exact ih1 x hx
    · intro x hx
      cases rest with
      | nil => simp at hx
      | cons y ys =>
        rw [List.dropLast_cons_cons] at hx
        rcases List.mem_cons.1 hx with rfl | hx
        · exact ⟨e, (again_spec he).1, (again_spec he).2, again_not_commits hf he⟩
        · exact ih2 x hx
    · intro j h
      cases j with
      | zero => exact ⟨c, by simpa using hf⟩
      | succ k =>
        have hk : k < rest.length := by simpa using h
        obtain ⟨c', hc'⟩ := ih3 k hk
        exact ⟨c', by simpa [Nat.add_assoc, Nat.add_comm 1 k] using hc'⟩
    · intro j h
      cases j with
      | zero =>
        cases rest with
        | nil => simp at h
        | cons y ys =>
          simp only [List.head?_cons, Option.some.injEq] at ih4
          subst ih4
          simpa using ih4'
      | succ k =>
        have hk : k + 1 < rest.length := by simpa using h
        simpa using ih5 k hk

/-- when no body calls `commit()` / `rollback()` itself, every recorded execution starts AND ends with the database as
    it was before the call, and makes no real commit -/
theorem chain_noManual {env : Env} {o : Opts} {run : Nat → St → St × Outcome} (hr : ∀ j, InnerOK (run j)) :
    ∀ {c : List Write} {i : Nat} {log : List Att}, Chain env o run c i log →
      ∀ a ∈ log, a.start.committed = c ∧ a.after.committed = c ∧ a.after.ncommit = a.start.ncommit := by
  intro c i log hch
  induction hch with
  | last c i a hf =>
    intro x hx
    simp only [List.mem_singleton] at hx
    subst hx
    have hp := hr i x.start (by rw [hf.entered.1]; decide) (by rw [hf.entered.2]; rfl)
    rw [← hf.after] at hp
    exact ⟨hf.committed, hp.committed.trans hf.committed, hp.ncommit⟩
  | cons c i a rest hf _ _ ih =>
    have hp := hr i a.start (by rw [hf.entered.1]; decide) (by rw [hf.entered.2]; rfl)
    rw [← hf.after] at hp
    have hac : a.after.committed = c := hp.committed.trans hf.committed
    intro x hx
    rcases List.mem_cons.1 hx with rfl | hx
    · exact ⟨hf.committed, hac, hp.ncommit⟩
    · rw [hac] at ih; exact ih x hx

end PonyVerif.Model.DbSession
