/- helper lemmas for C36: per-process invariants of the pool record and their preservation by every step -/
import PonyVerif.Model.ForkPool
namespace PonyVerif.Model.ForkPool

/-- the recorded pid is the creator of the pooled connection (and the attribute exists whenever a connection is pooled) -/
def Inv1 (q : Proc) : Prop := ∀ c, q.pool.con = some c → q.pool.pidAttr = true ∧ q.pool.pid = some c.creator

/-- ownership: the checked-out connection is the process's own; once the process has connected, so is the pooled one -/
def Inv2 (q : Proc) : Prop :=
  (∀ c, q.held = some c → c.creator = q.pid) ∧ (q.fresh = true → ∀ c, q.pool.con = some c → c.creator = q.pid)

theorem poolConnect_inv1 (me s : Nat) (pl : Pool)
    (h : ∀ c, pl.con = some c → pl.pidAttr = true ∧ pl.pid = some c.creator) :
    ∀ c, (poolConnect me s pl).1.con = some c → (poolConnect me s pl).1.pidAttr = true ∧ (poolConnect me s pl).1.pid = some c.creator := by
  intro c
  unfold poolConnect
  split
  · rename_i c0 hc0
    have := h c0 hc0
    split
    · simp_all
    · split
      · intro hc; simp at hc; subst hc; simp
      · intro hc; simp [hc0] at hc; subst hc; simpa using this
  · intro hc; simp at hc; subst hc; simp

theorem poolConnect_returned (me s : Nat) (pl : Pool)
    (h : ∀ c, pl.con = some c → pl.pidAttr = true ∧ pl.pid = some c.creator) :
    ∀ c, (poolConnect me s pl).2.returned = some c → c.creator = me ∧ (poolConnect me s pl).1.con = some c := by
  intro c
  unfold poolConnect
  split
  · rename_i c0 hc0
    have := h c0 hc0
    split
    · simp
    · split
      · intro hc; simp at hc; subst hc; simp
      · rename_i h1 h2
        intro hc; simp at hc; subst hc
        simp only [ne_eq, Decidable.not_not] at h2
        rw [this.2] at h2
        simp at h2
        exact ⟨h2, hc0⟩
  · intro hc; simp at hc; subst hc; simp

theorem poolConnect_noattr (me s : Nat) (pl : Pool)
    (h : ∀ c, pl.con = some c → pl.pidAttr = true ∧ pl.pid = some c.creator) :
    (poolConnect me s pl).2.attrError = false := by
  unfold poolConnect
  split
  · rename_i c0 hc0
    have := h c0 hc0
    split
    · simp_all
    · split <;> rfl
  · rfl

theorem poolConnect_quiet (me s : Nat) (pl : Pool) :
    (poolConnect me s pl).2.stmts = [] ∧ (poolConnect me s pl).2.closed = [] ∧ (poolConnect me s pl).2.staleDisconnect = false := by
  unfold poolConnect
  split
  · split
    · simp
    · split <;> simp
  · simp

theorem localStep_pid (k : Kind) (s : Nat) (q : Proc) (a : Act) : (localStep k s q a).1.pid = q.pid := by
  cases a <;> simp only [localStep]
  · split
    · rfl
    · rfl
  · split <;> rfl
  · split
    · rfl
    · split <;> rfl
  · split
    · rfl
    · split
      · split <;> rfl
      · rfl
  · split
    · rfl
    · split <;> rfl

theorem localStep_inv1 (k : Kind) (s : Nat) (q : Proc) (a : Act) (h : Inv1 q) : Inv1 (localStep k s q a).1 := by
  unfold Inv1 at *
  cases a <;> simp only [localStep]
  · split
    · exact h
    · exact poolConnect_inv1 q.pid s q.pool h
  · split <;> exact h
  · split
    · exact h
    · split <;> exact h
  · split
    · exact h
    · split
      · split
        · exact h
        · intro c hc; simp at hc
      · exact h
  · split
    · exact h
    · split
      · exact h
      · intro c hc; simp at hc

theorem localStep_returned (k : Kind) (s : Nat) (q : Proc) (a : Act) (h : Inv1 q) :
    ∀ c, (localStep k s q a).2.returned = some c → c.creator = q.pid := by
  intro c
  cases a <;> simp only [localStep]
  · split
    · simp
    · intro hc; exact (poolConnect_returned q.pid s q.pool h c hc).1
  · split <;> simp
  · split
    · simp
    · split <;> simp
  · split
    · simp
    · split
      · split <;> simp
      · simp
  · split
    · simp
    · split <;> simp

theorem localStep_noattr (k : Kind) (s : Nat) (q : Proc) (a : Act) (h : Inv1 q) :
    (localStep k s q a).2.attrError = false := by
  cases a <;> simp only [localStep]
  · split
    · rfl
    · exact poolConnect_noattr q.pid s q.pool h
  · split <;> rfl
  · split
    · rfl
    · split <;> rfl
  · split
    · rfl
    · split
      · split <;> rfl
      · rfl
  · split
    · rfl
    · split <;> rfl

/-- under discipline G2 (no disconnect before the first connect after a fork) ownership is preserved and everything the
    step touches (statements, close calls) is a connection of the acting process -/
theorem localStep_inv2 (k : Kind) (s : Nat) (q : Proc) (a : Act) (h1 : Inv1 q) (h2 : Inv2 q)
    (hg : (localStep k s q a).2.staleDisconnect = false) :
    Inv2 (localStep k s q a).1 ∧ (∀ c ∈ (localStep k s q a).2.stmts, c.creator = q.pid)
      ∧ (∀ c ∈ (localStep k s q a).2.closed, c.creator = q.pid) := by
  obtain ⟨hh, hf⟩ := h2
  cases a <;> simp only [localStep] at hg ⊢
  · -- connect
    split
    · exact ⟨⟨hh, hf⟩, by simp, by simp⟩
    · rename_i hnone
      have hq := poolConnect_quiet q.pid s q.pool
      refine ⟨⟨?_, ?_⟩, by simp [hq.1], by simp [hq.2.1]⟩
      · intro c hc
        exact (poolConnect_returned q.pid s q.pool h1 c hc).1
      · intro hfresh c hc
        simp only [Bool.or_eq_true] at hfresh
        cases hr : (poolConnect q.pid s q.pool).2.returned with
        | some r =>
          have := poolConnect_returned q.pid s q.pool h1 r hr
          simp only at hc
          rw [this.2] at hc
          cases hc
          exact this.1
        | none =>
          -- nothing returned: the pool is unchanged (cannot happen under Inv1, but no need to know)
          simp [hr] at hfresh
          have : (poolConnect q.pid s q.pool).1 = q.pool := by
            unfold poolConnect at hr ⊢
            split
            · split
              · rfl
              · split <;> simp_all
            · simp_all
          simp only at hc
          rw [this] at hc
          exact hf hfresh c hc
  · -- stmt
    split
    · rename_i c hc
      exact ⟨⟨hh, hf⟩, by simpa using hh c hc, by simp⟩
    · exact ⟨⟨hh, hf⟩, by simp, by simp⟩
  · -- release
    split
    · exact ⟨⟨hh, hf⟩, by simp, by simp⟩
    · rename_i c hc
      split
      · exact ⟨⟨by simp, hf⟩, by simpa using hh c hc, by simp⟩
      · exact ⟨⟨by simp, hf⟩, by simp, by simp⟩
  · -- drop
    split
    · exact ⟨⟨hh, hf⟩, by simp, by simp⟩
    · rename_i c hc
      split
      · split
        · exact ⟨⟨by simp, hf⟩, by simpa using hh c hc, by simp⟩
        · exact ⟨⟨by simp, by simp⟩, by simp, by simpa using hh c hc⟩
      · exact ⟨⟨by simp, hf⟩, by simp, by simp⟩
  · -- disconnect
    by_cases hk : k = Kind.sqliteMemory
    · simp only [if_pos hk] at hg ⊢
      exact ⟨⟨hh, hf⟩, by simp, by simp⟩
    · simp only [if_neg hk] at hg ⊢
      cases hc : q.pool.con with
      | none => exact ⟨⟨hh, hf⟩, by simp, by simp⟩
      | some c =>
        simp only [hc] at hg
        simp at hg
        exact ⟨⟨hh, by simp⟩, by simp, by simpa using hf hg c hc⟩

end PonyVerif.Model.ForkPool
