/- helper lemmas for C36: per-process invariants of the pool record and their preservation by every step -/
import PonyVerif.Model.ForkPool
namespace PonyVerif.Model.ForkPool

/-- the recorded pid is the creator of the pooled connection (and the attribute exists whenever a connection is pooled) -/
def Inv1 (q : Proc) : Prop := ∀ c, q.pool.con = some c → q.pool.pidAttr = true ∧ q.pool.pid = some c.creator

/-- ownership: the checked-out connection is the process's own; once the process has connected, so is the pooled one -/
def Inv2 (q : Proc) : Prop :=
  (∀ c, q.held = some c → c.creator = q.pid) ∧ (q.fresh = true → ∀ c, q.pool.con = some c → c.creator = q.pid)

theorem poolConnect_inv1 (me s : Nat) (pl : Pool)
    (h : ∀ c, pl.con = some c → pl.pidAttr = true ∧ pl.pid = some c.creator) :
    ∀ c, (poolConnect me s pl).1.con = some c → (poolConnect me s pl).1.pidAttr = true ∧ (poolConnect me s pl).1.pid = some c.creator := by
  intro c
  unfold poolConnect
  split
  · rename_i c0 hc0
    have := h c0 hc0
    split
    · simp_all
    · split
      · intro hc; simp at hc; subst hc; simp
      · intro hc; simp [hc0] at hc; subst hc; simpa using this
  · intro hc; simp at hc; subst hc; simp

theorem poolConnect_returned (me s : Nat) (pl : Pool)
    (h : ∀ c, pl.con = some c → pl.pidAttr = true ∧ pl.pid = some c.creator) :
    ∀ c, (poolConnect me s pl).2.returned = some c → c.creator = me ∧ (poolConnect me s pl).1.con = some c := by
  intro c
  unfold poolConnect
  split
  · rename_i c0 hc0
    have := h c0 hc0
    split
    · simp
    · split
      · intro hc; simp at hc; subst hc; simp
      · rename_i h1 h2
        intro hc; simp at hc; subst hc
        simp only [ne_eq, Decidable.not_not] at h2
        rw [this.2] at h2
        simp at h2
        exact ⟨h2, hc0⟩
  · intro hc; simp at hc; subst hc; simp

theorem poolConnect_noattr (me s : Nat) (pl : Pool)
    (h : ∀ c, pl.con = some c → pl.pidAttr = true ∧ pl.pid = some c.creator) :
    (poolConnect me s pl).2.attrError = false := by
  unfold poolConnect
  split
  · rename_i c0 hc0
    have := h c0 hc0
    split
    · simp_all
    · split <;> rfl
  · rfl

theorem poolConnect_quiet (me s : Nat) (pl : Pool) :
    (poolConnect me s pl).2.stmts = [] ∧ (poolConnect me s pl).2.closed = [] ∧ (poolConnect me s pl).2.staleDisconnect = false := by
  unfold poolConnect
  split
  · split
    · simp
    · split <;> simp
  · simp

/-- what every pool-level connect (succeeding or failing) guarantees when it starts from a record satisfying Inv1 -/
structure GoodConnect (me : Nat) (pl : Pool) (r : Pool × Out) : Prop where
  inv1 : ∀ c, r.1.con = some c → r.1.pidAttr = true ∧ r.1.pid = some c.creator
  ret : ∀ c, r.2.returned = some c → c.creator = me ∧ r.1.con = some c
  noattr : r.2.attrError = false
  stmts : r.2.stmts = []
  closed : ∀ c ∈ r.2.closed, c.creator = me
  nostale : r.2.staleDisconnect = false
  none : r.2.returned = none → (r.2.failed = true ∧ r.1.con = none) ∨ (r.2.failed = false ∧ r.1 = pl)

theorem poolConnect_good (me s : Nat) (pl : Pool)
    (h : ∀ c, pl.con = some c → pl.pidAttr = true ∧ pl.pid = some c.creator) : GoodConnect me pl (poolConnect me s pl) where
  inv1 := poolConnect_inv1 me s pl h
  ret := poolConnect_returned me s pl h
  noattr := poolConnect_noattr me s pl h
  stmts := (poolConnect_quiet me s pl).1
  closed := by simp [(poolConnect_quiet me s pl).2.1]
  nostale := (poolConnect_quiet me s pl).2.2
  none := by
    intro hr
    right
    unfold poolConnect at hr ⊢
    split
    · split
      · simp
      · split <;> simp_all
    · simp_all

theorem poolConnectFail_good (k : Kind) (i : Bool) (me s : Nat) (pl : Pool)
    (h : ∀ c, pl.con = some c → pl.pidAttr = true ∧ pl.pid = some c.creator) :
    GoodConnect me pl (poolConnectFail k i me s pl) := by
  have hcl : ∀ c ∈ (if (i && decide (k ≠ Kind.base)) = true then [({ serial := s, creator := me } : Conn)] else []), c.creator = me := by
    intro c hc; split at hc <;> simp_all
  unfold poolConnectFail
  cases hcon : pl.con with
  | none =>
    simp only
    exact ⟨by simp [hcon], by simp, rfl, rfl, hcl, rfl, by simp [hcon]⟩
  | some c0 =>
    obtain ⟨ha, hp⟩ := h c0 hcon
    simp only [ha, Bool.not_true, Bool.false_eq_true, if_false]
    by_cases hne : pl.pid ≠ some me
    · rw [if_pos hne]
      exact ⟨by simp, by simp, rfl, rfl, hcl, rfl, by simp⟩
    · rw [if_neg hne]
      have hme : c0.creator = me := by
        simp only [ne_eq, Decidable.not_not] at hne
        rw [hp] at hne; exact Option.some.inj hne
      exact ⟨by intro c hc; rw [hcon] at hc; cases hc; exact ⟨ha, hp⟩,
             by intro c hc; simp at hc; subst hc; exact ⟨hme, hcon⟩, rfl, rfl, by simp, rfl, by simp⟩

theorem poolConnectFail_failed (k : Kind) (i : Bool) (me s : Nat) (pl : Pool)
    (hf : (poolConnectFail k i me s pl).2.failed = true) :
    (poolConnectFail k i me s pl).1.con = none ∧ (poolConnectFail k i me s pl).2.returned = none := by
  unfold poolConnectFail at hf ⊢
  cases hcon : pl.con with
  | none => simp [hcon]
  | some c0 =>
    simp only [hcon] at hf ⊢
    by_cases ha : pl.pidAttr = true
    · by_cases hp : pl.pid = some me
      · simp [ha, hp] at hf
      · simp [ha, hp]
    · simp [ha] at hf

theorem sessConnect_pid (q : Proc) (f : Pool → Pool × Out) : (sessConnect q f).1.pid = q.pid := by
  unfold sessConnect; split <;> rfl

theorem sessConnect_inv1 (q : Proc) (f : Pool → Pool × Out) (h : Inv1 q) (g : GoodConnect q.pid q.pool (f q.pool)) :
    Inv1 (sessConnect q f).1 := by
  unfold sessConnect; split
  · exact h
  · exact g.inv1

theorem sessConnect_returned (q : Proc) (f : Pool → Pool × Out) (g : GoodConnect q.pid q.pool (f q.pool)) :
    ∀ c, (sessConnect q f).2.returned = some c → c.creator = q.pid := by
  intro c
  unfold sessConnect; split
  · simp
  · intro hc; exact (g.ret c hc).1

theorem sessConnect_noattr (q : Proc) (f : Pool → Pool × Out) (g : GoodConnect q.pid q.pool (f q.pool)) :
    (sessConnect q f).2.attrError = false := by
  unfold sessConnect; split
  · rfl
  · exact g.noattr

theorem sessConnect_inv2 (q : Proc) (f : Pool → Pool × Out) (h2 : Inv2 q) (g : GoodConnect q.pid q.pool (f q.pool)) :
    Inv2 (sessConnect q f).1 ∧ (∀ c ∈ (sessConnect q f).2.stmts, c.creator = q.pid)
      ∧ (∀ c ∈ (sessConnect q f).2.closed, c.creator = q.pid) := by
  obtain ⟨hh, hf⟩ := h2
  unfold sessConnect; split
  · exact ⟨⟨hh, hf⟩, by simp, by simp⟩
  · refine ⟨⟨?_, ?_⟩, by simp [g.stmts], g.closed⟩
    · intro c hc; exact (g.ret c hc).1
    · intro hfresh c hc
      simp only at hc hfresh
      cases hr : (f q.pool).2.returned with
      | some r =>
        have := g.ret r hr
        rw [this.2] at hc; cases hc; exact this.1
      | none =>
        rcases g.none hr with ⟨_, hnone⟩ | ⟨hnf, hsame⟩
        · rw [hnone] at hc; cases hc
        · simp [hr, hnf] at hfresh
          rw [hsame] at hc
          exact hf hfresh c hc

theorem localStep_pid (k : Kind) (s : Nat) (q : Proc) (a : Act) : (localStep k s q a).1.pid = q.pid := by
  cases a <;> simp only [localStep]
  · exact sessConnect_pid _ _
  · exact sessConnect_pid _ _
  · exact sessConnect_pid _ _
  · split <;> rfl
  · split
    · rfl
    · split <;> rfl
  · split
    · rfl
    · split
      · rfl
      · split <;> rfl
  · split
    · rfl
    · split <;> rfl

theorem localStep_inv1 (k : Kind) (s : Nat) (q : Proc) (a : Act) (h : Inv1 q) : Inv1 (localStep k s q a).1 := by
  cases a <;> simp only [localStep]
  · exact sessConnect_inv1 _ _ h (poolConnect_good _ _ _ h)
  · exact sessConnect_inv1 _ _ h (poolConnectFail_good _ _ _ _ _ h)
  · exact sessConnect_inv1 _ _ h (poolConnectFail_good _ _ _ _ _ h)
  all_goals unfold Inv1 at *
  · split <;> exact h
  · split
    · exact h
    · split <;> exact h
  · split
    · exact h
    · split
      · exact h
      · split
        · intro c hc; simp at hc
        · exact h
  · split
    · exact h
    · split
      · exact h
      · intro c hc; simp at hc

theorem localStep_returned (k : Kind) (s : Nat) (q : Proc) (a : Act) (h : Inv1 q) :
    ∀ c, (localStep k s q a).2.returned = some c → c.creator = q.pid := by
  intro c
  cases a <;> simp only [localStep]
  · exact sessConnect_returned _ _ (poolConnect_good _ _ _ h) c
  · exact sessConnect_returned _ _ (poolConnectFail_good _ _ _ _ _ h) c
  · exact sessConnect_returned _ _ (poolConnectFail_good _ _ _ _ _ h) c
  · split <;> simp
  · split
    · simp
    · split <;> simp
  · split
    · simp
    · split
      · simp
      · split <;> simp
  · split
    · simp
    · split <;> simp

theorem localStep_noattr (k : Kind) (s : Nat) (q : Proc) (a : Act) (h : Inv1 q) :
    (localStep k s q a).2.attrError = false := by
  cases a <;> simp only [localStep]
  · exact sessConnect_noattr _ _ (poolConnect_good _ _ _ h)
  · exact sessConnect_noattr _ _ (poolConnectFail_good _ _ _ _ _ h)
  · exact sessConnect_noattr _ _ (poolConnectFail_good _ _ _ _ _ h)
  · split <;> rfl
  · split
    · rfl
    · split <;> rfl
  · split
    · rfl
    · split
      · rfl
      · split <;> rfl
  · split
    · rfl
    · split <;> rfl

/-- under discipline G2 (no disconnect before the first connect attempt after a fork) ownership is preserved and everything
    the step touches (statements, close calls) is a connection of the acting process -/
theorem localStep_inv2 (k : Kind) (s : Nat) (q : Proc) (a : Act) (h1 : Inv1 q) (h2 : Inv2 q)
    (hg : (localStep k s q a).2.staleDisconnect = false) :
    Inv2 (localStep k s q a).1 ∧ (∀ c ∈ (localStep k s q a).2.stmts, c.creator = q.pid)
      ∧ (∀ c ∈ (localStep k s q a).2.closed, c.creator = q.pid) := by
  cases a
  · exact sessConnect_inv2 _ _ h2 (poolConnect_good _ _ _ h1)
  · exact sessConnect_inv2 _ _ h2 (poolConnectFail_good _ _ _ _ _ h1)
  · exact sessConnect_inv2 _ _ h2 (poolConnectFail_good _ _ _ _ _ h1)
  all_goals obtain ⟨hh, hf⟩ := h2
  all_goals simp only [localStep] at hg ⊢
  · -- stmt
    split
    · rename_i c hc
      exact ⟨⟨hh, hf⟩, by simpa using hh c hc, by simp⟩
    · exact ⟨⟨hh, hf⟩, by simp, by simp⟩
  · -- release
    split
    · exact ⟨⟨hh, hf⟩, by simp, by simp⟩
    · rename_i c hc
      split
      · exact ⟨⟨by simp, hf⟩, by simpa using hh c hc, by simp⟩
      · exact ⟨⟨by simp, hf⟩, by simp, by simp⟩
  · -- drop
    split
    · exact ⟨⟨hh, hf⟩, by simp, by simp⟩
    · rename_i c hc
      split
      · exact ⟨⟨by simp, hf⟩, by simpa using hh c hc, by simp⟩
      · split
        · exact ⟨⟨by simp, by simp⟩, by simp, by simpa using hh c hc⟩
        · exact ⟨⟨by simp, hf⟩, by simp, by simp⟩
  · -- disconnect
    by_cases hk : k = Kind.sqliteMemory
    · simp only [if_pos hk] at hg ⊢
      exact ⟨⟨hh, hf⟩, by simp, by simp⟩
    · simp only [if_neg hk] at hg ⊢
      cases hc : q.pool.con with
      | none => exact ⟨⟨hh, hf⟩, by simp, by simp⟩
      | some c =>
        simp only [hc] at hg
        simp at hg
        exact ⟨⟨hh, by simp⟩, by simp, by simpa using hf hg c hc⟩

/-! ### world level: membership plumbing, invariants, preservation -/

theorem sel_pid {p t : Nat} {q : Proc} (h : sel p t q = true) : q.pid = p := by
  simp [sel] at h; exact h.1

theorem mem_outsOf {w : World} {p t : Nat} {a : Act} {o : Out} :
    o ∈ outsOf w p t a ↔ ∃ q ∈ w.procs, sel p t q = true ∧ (localStep w.kind w.nextSerial q a).2 = o := by
  unfold outsOf
  simp only [List.mem_filterMap]
  constructor
  · rintro ⟨q, hq, h⟩
    by_cases hp : sel p t q = true
    · simp [hp] at h; exact ⟨q, hq, hp, h⟩
    · simp [hp] at h
  · rintro ⟨q, hq, hp, h⟩
    exact ⟨q, hq, by simp [hp, h]⟩

theorem mem_step_act {w : World} {p t : Nat} {a : Act} {q' : Proc} (h : q' ∈ (step w (.act p t a)).procs) :
    q' ∈ w.procs ∨ ∃ q ∈ w.procs, sel p t q = true ∧ q' = (localStep w.kind w.nextSerial q a).1 := by
  simp only [step, List.mem_map] at h
  obtain ⟨q, hq, rfl⟩ := h
  by_cases hp : sel p t q = true
  · right; exact ⟨q, hq, hp, by simp [hp]⟩
  · left; simp [hp, hq]

theorem mem_step_fork {w : World} {p t : Nat} {q' : Proc} (h : q' ∈ (step w (.fork p t)).procs) :
    q' ∈ w.procs ∨ ∃ q ∈ w.procs, sel p t q = true ∧ q' = { q with pid := w.nextPid, fresh := false } := by
  simp only [step, List.mem_append, List.mem_map, List.mem_filter] at h
  rcases h with h | ⟨q, ⟨hq, hp⟩, rfl⟩
  · left; exact h
  · right; exact ⟨q, hq, hp, rfl⟩

theorem mem_step_spawn {w : World} {p t : Nat} {q' : Proc} (h : q' ∈ (step w (.spawn p t)).procs) :
    q' ∈ w.procs ∨ q' = { pid := p, tid := t, pool := initPool w.kind, held := none, fresh := true } := by
  simp only [step] at h
  split at h
  · simp only [List.mem_append, List.mem_singleton] at h; exact h
  · left; exact h

theorem step_spawn_logs (w : World) (p t : Nat) :
    (step w (.spawn p t)).returned = w.returned ∧ (step w (.spawn p t)).stmts = w.stmts ∧ (step w (.spawn p t)).closed = w.closed
    ∧ (step w (.spawn p t)).attrErrors = w.attrErrors ∧ (step w (.spawn p t)).forkWhileHeld = w.forkWhileHeld
    ∧ (step w (.spawn p t)).staleDisconnect = w.staleDisconnect ∧ (step w (.spawn p t)).kind = w.kind := by
  simp only [step]; split <;> simp

theorem initPool_con (k : Kind) : (initPool k).con = none := by cases k <;> rfl

def WInv (w : World) : Prop :=
  (∀ q ∈ w.procs, Inv1 q) ∧ (∀ e ∈ w.returned, e.2.creator = e.1) ∧ w.attrErrors = 0

theorem init_inv (k : Kind) : WInv (init k) := by
  refine ⟨?_, by simp [init], by simp [init]⟩
  intro q hq
  simp [init] at hq
  subst hq
  intro c hc
  cases k <;> simp [initPool] at hc

theorem step_inv (w : World) (e : Ev) (h : WInv w) : WInv (step w e) := by
  obtain ⟨hp, hr, ha⟩ := h
  cases e with
  | act p t a =>
    refine ⟨?_, ?_, ?_⟩
    · intro q' hq'
      rcases mem_step_act hq' with hq | ⟨q, hq, _, rfl⟩
      · exact hp q' hq
      · exact localStep_inv1 _ _ _ _ (hp q hq)
    · intro e he
      simp only [step, List.mem_append, List.mem_map, List.mem_filterMap] at he
      rcases he with he | ⟨c, ⟨o, ho, hc⟩, rfl⟩
      · exact hr e he
      · obtain ⟨q, hq, hsel, rfl⟩ := mem_outsOf.mp ho
        simpa [sel_pid hsel] using localStep_returned _ _ _ _ (hp q hq) c hc
    · simp only [step]
      have : (outsOf w p t a).filter (·.attrError) = [] := by
        rw [List.filter_eq_nil_iff]
        intro o ho
        obtain ⟨q, hq, _, rfl⟩ := mem_outsOf.mp ho
        simp [localStep_noattr _ _ _ _ (hp q hq)]
      simp [this, ha]
  | fork p t =>
    refine ⟨?_, by simpa [step] using hr, by simpa [step] using ha⟩
    intro q' hq'
    rcases mem_step_fork hq' with hq | ⟨q, hq, _, rfl⟩
    · exact hp q' hq
    · exact hp q hq
  | spawn p t =>
    obtain ⟨h1, _, _, h4, _⟩ := step_spawn_logs w p t
    refine ⟨?_, by rw [h1]; exact hr, by rw [h4]; exact ha⟩
    intro q' hq'
    rcases mem_step_spawn hq' with hq | rfl
    · exact hp q' hq
    · intro c hc; simp [initPool_con] at hc

theorem run_inv (evs : List Ev) : ∀ (w : World), WInv w → WInv (run w evs) := by
  induction evs with
  | nil => intro w h; exact h
  | cons e es ih => intro w h; exact ih (step w e) (step_inv w e h)

/-- caller discipline: G1 — no fork while a session holds a checked-out connection (fork points "idle" and "pooled
    connection"); G2 — a forked child does not call `disconnect` before it has connected itself. -/
def disciplined (w : World) : Prop := w.forkWhileHeld = false ∧ w.staleDisconnect = false

def WInv2 (w : World) : Prop :=
  disciplined w → (∀ q ∈ w.procs, Inv2 q) ∧ (∀ e ∈ w.stmts, e.2.creator = e.1) ∧ (∀ e ∈ w.closed, e.2.creator = e.1)

theorem init_inv2 (k : Kind) : WInv2 (init k) := by
  intro _
  refine ⟨?_, by simp [init], by simp [init]⟩
  intro q hq
  simp [init] at hq
  subst hq
  constructor
  · intro c hc; simp at hc
  · intro _ c hc; cases k <;> simp [initPool] at hc

theorem step_inv2 (w : World) (e : Ev) (h1 : WInv w) (h2 : WInv2 w) : WInv2 (step w e) := by
  intro hd
  cases e with
  | act p t a =>
    have hd0 : disciplined w ∧ ∀ o ∈ outsOf w p t a, o.staleDisconnect = false := by
      obtain ⟨hf, hs⟩ := hd
      simp only [step, Bool.or_eq_false_iff, List.any_eq_false] at hf hs
      exact ⟨⟨hf, hs.1⟩, fun o ho => by simpa using hs.2 o ho⟩
    obtain ⟨hq2, hs, hc⟩ := h2 hd0.1
    have key : ∀ q ∈ w.procs, sel p t q = true → _ := fun q hq hp =>
      localStep_inv2 w.kind w.nextSerial q a (h1.1 q hq) (hq2 q hq) (hd0.2 _ (mem_outsOf.mpr ⟨q, hq, hp, rfl⟩))
    refine ⟨?_, ?_, ?_⟩
    · intro q' hq'
      rcases mem_step_act hq' with hq | ⟨q, hq, hp, rfl⟩
      · exact hq2 q' hq
      · exact (key q hq hp).1
    · intro e he
      simp only [step, List.mem_append, List.mem_map, List.mem_flatMap] at he
      rcases he with he | ⟨c, ⟨o, ho, hc'⟩, rfl⟩
      · exact hs e he
      · obtain ⟨q, hq, hp, rfl⟩ := mem_outsOf.mp ho
        simpa [sel_pid hp] using (key q hq hp).2.1 c hc'
    · intro e he
      simp only [step, List.mem_append, List.mem_map, List.mem_flatMap] at he
      rcases he with he | ⟨c, ⟨o, ho, hc'⟩, rfl⟩
      · exact hc e he
      · obtain ⟨q, hq, hp, rfl⟩ := mem_outsOf.mp ho
        simpa [sel_pid hp] using (key q hq hp).2.2 c hc'
  | spawn p t =>
    obtain ⟨_, h2', h3', _, h5, h6, _⟩ := step_spawn_logs w p t
    have hd' : disciplined w := by
      obtain ⟨hf, hs⟩ := hd
      exact ⟨by rw [← h5]; exact hf, by rw [← h6]; exact hs⟩
    obtain ⟨hq2, hst, hc⟩ := h2 hd'
    refine ⟨?_, by rw [h2']; exact hst, by rw [h3']; exact hc⟩
    intro q' hq'
    rcases mem_step_spawn hq' with hq | rfl
    · exact hq2 q' hq
    · exact ⟨by intro c hc'; simp at hc', by intro _ c hc'; simp [initPool_con] at hc'⟩
  | fork p t =>
    obtain ⟨hf, hs⟩ := hd
    simp only [step, Bool.or_eq_false_iff, List.any_eq_false] at hf hs
    obtain ⟨hq2, hst, hc⟩ := h2 ⟨hf.1, hs⟩
    refine ⟨?_, by simpa [step] using hst, by simpa [step] using hc⟩
    intro q' hq'
    rcases mem_step_fork hq' with hq | ⟨q, hq, hp, rfl⟩
    · exact hq2 q' hq
    · have hk : ({ q with pid := w.nextPid, fresh := false } : Proc).held.isSome = false := by
        have := hf.2 { q with pid := w.nextPid, fresh := false }
          (by simp only [List.mem_map, List.mem_filter]; exact ⟨q, ⟨hq, hp⟩, rfl⟩)
        simpa using this
      constructor
      · intro c hc'
        simp only at hk hc'
        rw [hc'] at hk
        simp at hk
      · intro hfr; simp at hfr

theorem run_inv2 (evs : List Ev) : ∀ (w : World), WInv w → WInv2 w → WInv2 (run w evs) := by
  induction evs with
  | nil => intro w _ h; exact h
  | cons e es ih => intro w h1 h2; exact ih (step w e) (step_inv w e h1) (step_inv2 w e h1 h2)

end PonyVerif.Model.ForkPool
