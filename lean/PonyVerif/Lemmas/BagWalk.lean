/- helper lemmas for C31: the bag traversal computes the order-independent specification -/
import PonyVerif.Model.BagWalk
namespace PonyVerif.Model.BagWalk

theorem lookup_store (d : Dicts) (k : Nat) (v : Bool) (x : Nat) :
    lookup (store d k v) x = if x = k then some v else lookup d x := by
  unfold lookup store
  by_cases h : x = k
  · subst h; simp [List.find?]
  · have : (k == x) = false := by simp [Ne.symm h]
    simp [List.find?, this, h]

theorem lookup_addRelated (rs : List Nat) : ∀ (d : Dicts) (x : Nat),
    lookup (addRelated d rs) x = if (lookup d x).isSome then lookup d x else if x ∈ rs then some false else none := by
  induction rs with
  | nil => intro d x; cases h : lookup d x <;> simp [addRelated, h]
  | cons r rs ih =>
    intro d x
    have hstep : addRelated d (r :: rs) = addRelated (if (lookup d r).isSome then d else store d r false) rs := by
      simp [addRelated]
    rw [hstep, ih]
    by_cases hr : (lookup d r).isSome
    · simp only [hr, if_true]
      by_cases hx : (lookup d x).isSome
      · simp [hx]
      · simp only [hx]
        by_cases hxr : x = r
        · subst hxr; exact absurd hr hx
        · simp [hxr]
    · have hif : (if (lookup d r).isSome then d else store d r false) = store d r false := by simp [hr]
      rw [hif, lookup_store]
      by_cases hxr : x = r
      · subst hxr; simp [hr]
      · simp [hxr]

theorem lookup_processObject (rel : Nat → List Nat) (ro : Nat → Bool) (d : Dicts) (g x : Nat) :
    lookup (processObject rel ro d g) x =
      if x = g then some true
      else if (lookup d x).isSome then lookup d x
      else if ro g = true ∧ x ∈ rel g then some false else none := by
  unfold processObject
  rw [lookup_store]
  by_cases hx : x = g
  · simp [hx]
  · simp only [hx, if_false]
    by_cases hro : ro g = true
    · simp only [hro, if_true, true_and]
      exact lookup_addRelated (rel g) d x
    · have hif : (if ro g = true then addRelated d (rel g) else d) = d := by simp [hro]
      rw [hif]
      cases h : lookup d x <;> simp [hro]

/-- generalised invariant of the loop: after the objects in `done`, the entries are `spec done` -/
theorem lookup_foldl (rel : Nat → List Nat) (ro : Nat → Bool) (rest : List Nat) :
    ∀ (done : List Nat) (d : Dicts), (∀ x, lookup d x = spec rel ro done x) →
      ∀ x, lookup (rest.foldl (processObject rel ro) d) x = spec rel ro (done ++ rest) x := by
  induction rest with
  | nil => intro done d h x; simpa using h x
  | cons g rest ih =>
    intro done d h x
    have := ih (done ++ [g]) (processObject rel ro d g) (by
      intro y
      rw [lookup_processObject, h y]
      unfold spec
      by_cases hy : y = g
      · simp [hy]
      · by_cases hd : y ∈ done
        · simp [hy, hd]
        · by_cases ha : ∃ g', g' ∈ done ∧ ro g' = true ∧ y ∈ rel g'
          · simp [hy, hd, ha]
          · by_cases hg : ro g = true ∧ y ∈ rel g
            · simp [hy, hd, ha, hg]
            · simp [hy, hd, ha, hg]) x
    simpa [List.append_assoc] using this

end PonyVerif.Model.BagWalk
