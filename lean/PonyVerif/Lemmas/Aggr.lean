import PonyVerif.Model.Aggr
namespace PonyVerif.Model.Aggr

theorem mem_dedup (l : List Int) (x : Int) : x ∈ dedup l ↔ x ∈ l := by
  induction l with
  | nil => simp [dedup]
  | cons y ys ih =>
    unfold dedup
    split
    · rename_i h
      constructor
      · intro hx; exact List.mem_cons_of_mem _ (ih.mp hx)
      · intro hx
        rcases List.mem_cons.mp hx with rfl | h'
        · exact h
        · exact ih.mpr h'
    · simp [ih]

theorem nodup_dedup (l : List Int) : (dedup l).Nodup := by
  induction l with
  | nil => simp [dedup]
  | cons y ys ih =>
    unfold dedup
    split
    · exact ih
    · rename_i h
      exact List.nodup_cons.mpr ⟨h, ih⟩

theorem dedup_of_nodup (l : List Int) (h : l.Nodup) : dedup l = l := by
  induction l with
  | nil => rfl
  | cons y ys ih =>
    have hy := (List.nodup_cons.mp h)
    unfold dedup
    rw [ih hy.2]
    simp [hy.1]

end PonyVerif.Model.Aggr
