import PonyVerif.Model.Aggr
namespace PonyVerif.Model.Aggr

theorem mem_dedup [DecidableEq α] (l : List α) (x : α) : x ∈ dedup l ↔ x ∈ l := by
  induction l with
  | nil => simp [dedup]
  | cons y ys ih =>
    unfold dedup
    split
    · rename_i h
      constructor
      · intro hx; exact List.mem_cons_of_mem _ (ih.mp hx)
      · intro hx
        rcases List.mem_cons.mp hx with rfl | h'
        · exact h
        · exact ih.mpr h'
    · simp [ih]

theorem nodup_dedup [DecidableEq α] (l : List α) : (dedup l).Nodup := by
  induction l with
  | nil => simp [dedup]
  | cons y ys ih =>
    unfold dedup
    split
    · exact ih
    · rename_i h
      exact List.nodup_cons.mpr ⟨h, ih⟩

theorem dedup_of_nodup [DecidableEq α] (l : List α) (h : l.Nodup) : dedup l = l := by
  induction l with
  | nil => rfl
  | cons y ys ih =>
    have hy := (List.nodup_cons.mp h)
    unfold dedup
    rw [ih hy.2]
    simp [hy.1]

/-- `subBag l R` says exactly that `l` can be completed to a permutation of `R` -/
theorem subBag_iff (l R : List Int) : subBag l R = true ↔ ∃ rest, (l ++ rest).Perm R := by
  induction l generalizing R with
  | nil => simp [subBag]; exact ⟨R, List.Perm.refl _⟩
  | cons x xs ih =>
    simp only [subBag, Bool.and_eq_true, List.contains_iff_mem, ih]
    constructor
    · rintro ⟨hx, rest, hp⟩
      exact ⟨rest, (List.Perm.cons x hp).trans (List.perm_cons_erase hx).symm⟩
    · rintro ⟨rest, hp⟩
      have hx : x ∈ R := hp.subset (by simp)
      refine ⟨hx, rest, ?_⟩
      have := hp.erase x
      simpa using this

theorem pairwise_of_all_eq {b : α → Int} {v : Int} {c : List α} (h : ∀ x ∈ c, b x = v) :
    c.Pairwise (fun x y => byKey b x y = true) := by
  induction c with
  | nil => exact List.Pairwise.nil
  | cons y ys ih =>
    refine List.Pairwise.cons ?_ (ih (fun x hx => h x (List.mem_cons_of_mem _ hx)))
    intro z hz
    have h1 := h y (by simp); have h2 := h z (List.mem_cons_of_mem _ hz)
    simp [byKey, h1, h2]

theorem byKey_trans (k : α → Int) : ∀ a b c : α, byKey k a b = true → byKey k b c = true → byKey k a c = true := by
  intro a b c; simp [byKey]; omega

theorem byKey_total (k : α → Int) : ∀ a b : α, (byKey k a b || byKey k b a) = true := by
  intro a b; simp [byKey]; omega

end PonyVerif.Model.Aggr
