/-
  Lemmas/CascadeFuel.lean — the recursion of `_delete_` and its fuel:
  * every successful `_delete_` only removes (`delete_sub`, no invariant needed);
  * `delete_norec`: if the cascading attributes are ranked (a measure that strictly decreases along every cascade edge, i.e. the
    cascade graph has no cycle), fuel above the rank of the object is enough — the model's RecursionError then never fires.
-/
import PonyVerif.Lemmas.CascadeDel
namespace PonyVerif.Model.Cascade

section sub
variable {sch : Schema}

theorem sub_setRefNone (s : Store) (x : ObjId) (a : Attr) : Sub sch s (s.setRef x a none) := by
  refine ⟨rfl, rfl, fun _ h => h, ?_⟩
  intro p b q h
  unfold hasB at h ⊢
  cases hb : sch.side b with
  | none => simp [hb] at h
  | some d =>
    simp only [hb] at h ⊢
    by_cases hc : d.isColl = true
    · simpa [hc, Store.setRef] using h
    · simp only [hc, if_false, Store.setRef, Bool.false_eq_true] at h ⊢
      split at h
      · simp at h
      · exact h

theorem sub_setMemFalse (s : Store) (o : ObjId) (c : Attr) (x : ObjId) : Sub sch s (s.setMem o c x false) := by
  refine ⟨rfl, rfl, fun _ h => h, ?_⟩
  intro p b q h
  unfold hasB at h ⊢
  cases hb : sch.side b with
  | none => simp [hb] at h
  | some d =>
    simp only [hb] at h ⊢
    by_cases hc : d.isColl = true
    · simp only [hc, if_true, Store.setMem] at h ⊢
      split at h
      · cases h
      · exact h
    · simpa [hc, Store.setMem] using h

theorem sub_clearRow (s : Store) (o : ObjId) (c : Attr) : Sub sch s (s.clearRow o c) := by
  refine ⟨rfl, rfl, fun _ h => h, ?_⟩
  intro p b q h
  unfold hasB at h ⊢
  cases hb : sch.side b with
  | none => simp [hb] at h
  | some d =>
    simp only [hb] at h ⊢
    by_cases hc : d.isColl = true
    · simp only [hc, if_true, Store.clearRow] at h ⊢
      split at h
      · cases h
      · exact h
    · simpa [hc, Store.clearRow] using h

theorem sub_setAliveFalse (s : Store) (o : ObjId) : Sub sch s (s.setAlive o false) := by
  refine ⟨rfl, rfl, ?_, fun _ _ _ h => h⟩
  intro p h
  simp only [Store.setAlive] at h
  split at h
  · cases h
  · exact h

theorem reverseRemove1_sub {c : Attr} {x o : ObjId} {s s' : Store} (h : reverseRemove1 c x o s = .ok s') : Sub sch s s' := by
  unfold reverseRemove1 at h
  split at h
  · cases h; exact sub_setMemFalse _ _ _ _
  · cases h

theorem clearRef_sub {x : ObjId} {a : Attr} {s s' : Store} (h : clearRef sch x a s = .ok s') : Sub sch s s' := by
  unfold clearRef at h
  split at h
  · cases h
  · split at h
    · split at h
      · cases h
      · split at h
        · cases h; exact Sub.refl _ _
        · simp only at h
          split at h
          · exact (sub_setRefNone _ _ _).trans (reverseRemove1_sub h)
          · cases h; exact sub_setRefNone _ _ _
    · cases h

theorem iterE_sub {α : Type} {f : α → Store → R} (hstep : ∀ x s s', f x s = .ok s' → Sub sch s s') :
    ∀ (xs : List α) (s s' : Store), iterE f xs s = .ok s' → Sub sch s s' := by
  intro xs
  induction xs with
  | nil => intro s s' h; cases h; exact Sub.refl _ _
  | cons x xs ih =>
    intro s s' h
    obtain ⟨s1, h1, h2⟩ := iterE_cons_ok h
    exact (hstep x s s1 h1).trans (ih s1 s' h2)

theorem setCollEmpty_sub {o : ObjId} {c : Attr} {s s' : Store} (h : setCollEmpty sch o c s = .ok s') : Sub sch s s' := by
  unfold setCollEmpty at h
  split at h
  · cases h
  · split at h
    · simp only at h
      split at h
      · cases h; exact Sub.refl _ _
      · split at h
        · rename_i s1 hr
          cases h
          have h1 : Sub sch s s1 := by
            split at hr
            · exact iterE_sub (fun _ _ _ hh => clearRef_sub hh) _ _ _ hr
            · exact iterE_sub (fun _ _ _ hh => reverseRemove1_sub hh) _ _ _ hr
          exact h1.trans (sub_clearRow _ _ _)
        · cases h
    · cases h

theorem collStep_sub {del : ObjId → Store → R} (hdel : ∀ x s s', del x s = .ok s' → Sub sch s s') {o : ObjId} {c : Attr}
    {s s' : Store} (h : collStep sch del o c s = .ok s') : Sub sch s s' := by
  unfold collStep at h
  split at h
  · split at h
    · cases h; exact Sub.refl _ _
    · split at h
      · cases h
      · split at h
        · cases h; exact Sub.refl _ _
        · split at h
          · exact iterE_sub hdel _ _ _ h
          · split at h
            · exact setCollEmpty_sub h
            · cases h
  · cases h

theorem refStep_sub {guard : Bool} {del : ObjId → Store → R} (hdel : ∀ x s s', del x s = .ok s' → Sub sch s s') {o : ObjId} {a : Attr}
    {s s' : Store} (h : refStep sch guard del o a s = .ok s') : Sub sch s s' := by
  unfold refStep at h
  split at h
  · split at h
    · cases h; exact Sub.refl _ _
    · split at h
      · cases h; exact Sub.refl _ _
      · split at h
        · split at h
          · exact hdel _ _ _ h
          · split at h
            · split at h
              · cases h; exact Sub.refl _ _
              · split at h
                · exact clearRef_sub h
                · cases h; exact Sub.refl _ _
            · cases h
        · exact reverseRemove1_sub h
  · cases h

/-- a successful `_delete_` only removes: objects die, links go, nothing is added — for every store, no invariant needed -/
theorem delete_sub {ct : ClassTable} {guard : Bool} : ∀ (fuel : Nat) (P : List ObjId) (o : ObjId) (s s' : Store),
    delete sch ct guard fuel P o s = .ok s' → Sub sch s s' := by
  intro fuel
  induction fuel with
  | zero => intro P o s s' h; simp [delete] at h
  | succ fuel ih =>
    intro P o s s' h
    simp only [delete] at h
    split at h
    · cases h; exact Sub.refl _ _
    · split at h
      · cases h; exact Sub.refl _ _
      · split at h
        · cases h
        · rename_i s1 h1
          split at h
          · cases h
          · rename_i s2 h2
            have hs1 : Sub sch s s1 := iterE_sub (fun _ _ _ hh => collStep_sub (fun x sa sb hd => ih (o :: P) x sa sb hd) hh) _ _ _ h1
            have hs2 : Sub sch s1 s2 := iterE_sub (fun _ _ _ hh => refStep_sub (fun x sa sb hd => ih (o :: P) x sa sb hd) hh) _ _ _ h2
            split at h
            · cases h; exact hs1.trans hs2
            · cases h; exact (hs1.trans hs2).trans (sub_setAliveFalse _ _)

end sub

/-! ## Fuel -/

/-- the cascading attributes are ranked: `rank` strictly decreases along every cascade edge (so the cascade graph has no cycle) -/
def Ranked (sch : Schema) (s : Store) (rank : ObjId → Nat) : Prop :=
  ∀ p q, CEdge sch s p q → rank q < rank p

theorem Ranked.sub {sch : Schema} {s s' : Store} {rank : ObjId → Nat} (h : Ranked sch s rank) (hs : Sub sch s s') : Ranked sch s' rank :=
  fun p q ⟨b, hb, hh⟩ => h p q ⟨b, hb, hs.has _ _ _ hh⟩

def NoRec (r : R) : Prop := r ≠ .error .recursionError

section fuel
variable {sch : Schema}

theorem norec_ok (s : Store) : NoRec (.ok s) := by intro h; cases h

theorem norec_err {e : Err} (he : e ≠ .recursionError) : NoRec (.error e) := by
  intro h; cases h; exact he rfl

/-- loop rule: every step keeps `Sub` when it succeeds and never runs out of fuel on a store reached by removals -/
theorem iterE_norec {α : Type} {f : α → Store → R} {s0 : Store}
    (hsub : ∀ x s s', f x s = .ok s' → Sub sch s s') :
    ∀ (xs : List α) (s : Store), Sub sch s0 s → (∀ x ∈ xs, ∀ s1, Sub sch s0 s1 → NoRec (f x s1)) → NoRec (iterE f xs s) := by
  intro xs
  induction xs with
  | nil => intro s _ _; exact norec_ok s
  | cons x xs ih =>
    intro s hs hstep
    simp only [iterE]
    cases hf : f x s with
    | error e =>
      simp only
      have := hstep x (by simp) s hs
      rw [hf] at this; exact this
    | ok s1 =>
      simp only
      exact ih s1 (hs.trans (hsub x s s1 hf)) (fun y hy => hstep y (by simp [hy]))

theorem reverseRemove1_norec (c : Attr) (x o : ObjId) (s : Store) : NoRec (reverseRemove1 c x o s) := by
  unfold reverseRemove1
  split
  · exact norec_ok _
  · exact norec_err (by decide)

theorem clearRef_norec (x : ObjId) (a : Attr) (s : Store) : NoRec (clearRef sch x a s) := by
  unfold clearRef
  split
  · exact norec_err (by decide)
  · split
    · split
      · exact norec_err (by decide)
      · split
        · exact norec_ok _
        · simp only
          split
          · exact reverseRemove1_norec _ _ _ _
          · exact norec_ok _
    · exact norec_err (by decide)

theorem setCollEmpty_norec (o : ObjId) (c : Attr) (s : Store) : NoRec (setCollEmpty sch o c s) := by
  unfold setCollEmpty
  split
  · exact norec_err (by decide)
  · split
    · simp only
      split
      · exact norec_ok _
      · have hloop : NoRec (if (!(‹Side›).isColl) = true then iterE (fun item => clearRef sch item (sch.rev c)) (s.members o c) s
            else iterE (fun x => reverseRemove1 (sch.rev c) x o) (s.members o c) s) := by
          split
          · exact iterE_norec (s0 := s) (fun _ _ _ hh => clearRef_sub hh) _ _ (Sub.refl _ _) (fun x _ s1 _ => clearRef_norec x _ s1)
          · exact iterE_norec (sch := sch) (s0 := s) (fun _ _ _ hh => reverseRemove1_sub hh) _ _ (Sub.refl _ _) (fun x _ s1 _ => reverseRemove1_norec _ x o s1)
        split
        · exact norec_ok _
        · rename_i e he
          intro hc
          cases hc
          exact hloop he
    · exact norec_err (by decide)

/-- With ranked cascading attributes, fuel above the rank of the object suffices: `_delete_` then never reports RecursionError
    (both variants, every class table, every store — no invariant needed). -/
theorem delete_norec {ct : ClassTable} {guard : Bool} {rank : ObjId → Nat} : ∀ (fuel : Nat) (P : List ObjId) (o : ObjId) (s : Store),
    Ranked sch s rank → rank o < fuel → NoRec (delete sch ct guard fuel P o s) := by
  intro fuel
  induction fuel with
  | zero => intro P o s _ h; cases h
  | succ fuel ih =>
    intro P o s hR hlt
    have hdsub : ∀ x sa sb, delete sch ct guard fuel (o :: P) x sa = .ok sb → Sub sch sa sb := fun x sa sb => delete_sub fuel (o :: P) x sa sb
    -- a nested call on an object of smaller rank, on any store reached from `s` by removals
    have hnest : ∀ x s1, Sub sch s s1 → rank x < rank o → NoRec (delete sch ct guard fuel (o :: P) x s1) := by
      intro x s1 hs hx
      exact ih (o :: P) x s1 (hR.sub hs) (by omega)
    have hcoll : ∀ c s1, Sub sch s s1 → NoRec (collStep sch (fun x s => delete sch ct guard fuel (o :: P) x s) o c s1) := by
      intro c s1 hs
      unfold collStep
      split
      · rename_i d rd hd hrd
        split
        · exact norec_ok _
        · rename_i hcoll
          have hdc : d.isColl = true := by simpa using hcoll
          split
          · exact norec_err (by decide)
          · split
            · exact norec_ok _
            · split
              · rename_i hcasc
                have hcs : sch.isCascade c = true := by simp [Schema.isCascade, hd, hcasc]
                refine iterE_norec (s0 := s1) hdsub _ _ (Sub.refl _ _) ?_
                intro x hx s2 hs2
                refine hnest x s2 (hs.trans hs2) (hR o x ⟨c, hcs, hs.has _ _ _ ?_⟩)
                rw [hasB_coll_eq hd hdc]; exact (mem_members.mp hx).2
              · split
                · exact setCollEmpty_norec _ _ _
                · exact norec_err (by decide)
      · exact norec_err (by decide)
    have href : ∀ a s1, Sub sch s s1 → NoRec (refStep sch guard (fun x s => delete sch ct guard fuel (o :: P) x s) o a s1) := by
      intro a s1 hs
      unfold refStep
      split
      · rename_i d rd hd hrd
        split
        · exact norec_ok _
        · rename_i hcoll
          have hdc : d.isColl = false := by simpa using hcoll
          split
          · exact norec_ok _
          · rename_i x hx
            split
            · split
              · rename_i hcasc
                have hcs : sch.isCascade a = true := by simp [Schema.isCascade, hd, hcasc]
                refine hnest x s1 hs (hR o x ⟨a, hcs, hs.has _ _ _ ?_⟩)
                rw [hasB_ref_eq hd hdc, hx]; simp
              · split
                · split
                  · exact norec_ok _
                  · split
                    · exact clearRef_norec _ _ _
                    · exact norec_ok _
                · exact norec_err (by decide)
            · exact reverseRemove1_norec _ _ _ _
      · exact norec_err (by decide)
    have hcsub : ∀ c sa sb, collStep sch (fun x s => delete sch ct guard fuel (o :: P) x s) o c sa = .ok sb → Sub sch sa sb :=
      fun c sa sb hh => collStep_sub hdsub hh
    have hrsub : ∀ a sa sb, refStep sch guard (fun x s => delete sch ct guard fuel (o :: P) x s) o a sa = .ok sb → Sub sch sa sb :=
      fun a sa sb hh => refStep_sub hdsub hh
    simp only [delete]
    split
    · exact norec_ok _
    · split
      · exact norec_ok _
      · have h1 := iterE_norec (s0 := s) hcsub (ct (s.ent o)) s (Sub.refl _ _) (fun c _ s1 hs => hcoll c s1 hs)
        split
        · rename_i e he
          intro hc; cases hc; exact h1 he
        · rename_i s1 hs1
          have hsub1 : Sub sch s s1 := iterE_sub hcsub _ _ _ hs1
          have h2 := iterE_norec (s0 := s) hrsub (ct (s.ent o)) s1 hsub1 (fun a _ s2 hs => href a s2 hs)
          split
          · rename_i e he
            intro hc; cases hc; exact h2 he
          · split
            · exact norec_ok _
            · exact norec_ok _

end fuel
end PonyVerif.Model.Cascade

namespace PonyVerif.Model.Cascade

theorem maxL_le {l : List Nat} {k : Nat} (h : ∀ x ∈ l, x ≤ k) : maxL l ≤ k := by
  induction l with
  | nil => simp [maxL]
  | cons x xs ih =>
    simp only [maxL]
    have h1 := h x (by simp)
    have h2 := ih (fun y hy => h y (by simp [hy]))
    omega

theorem depth_le (sch : Schema) (s : Store) : ∀ (k : Nat) (p : ObjId), depth sch s k p ≤ k := by
  intro k
  induction k with
  | zero => intro p; simp [depth]
  | succ k ih =>
    intro p
    simp only [depth]
    apply maxL_le
    intro x hx
    rw [List.mem_map] at hx
    obtain ⟨q, _, rfl⟩ := hx
    have := ih q
    omega

theorem edgeB_of_cedge {sch : Schema} {s : Store} {p q : ObjId} (h : CEdge sch s p q) : edgeB sch s p q = true := by
  obtain ⟨b, hb, hh⟩ := h
  obtain ⟨d, hd⟩ := hasB_side hh
  unfold edgeB
  rw [List.any_eq_true]
  exact ⟨b, Schema.mem_allAttrs hd, by simp [hb, hh]⟩

/-- the executable check decides a ranking: if it says yes and all cascade links are between existing objects, `depth n` is a
    ranking bounded by `n` -/
theorem ranked_of_check {sch : Schema} {s : Store} (hc : isRankedB sch s = true)
    (hin : ∀ p q, CEdge sch s p q → p < s.n ∧ q < s.n) : Ranked sch s (depth sch s s.n) ∧ ∀ x, depth sch s s.n x ≤ s.n := by
  refine ⟨?_, fun x => depth_le sch s s.n x⟩
  intro p q he
  obtain ⟨hp, hq⟩ := hin p q he
  unfold isRankedB at hc
  rw [List.all_eq_true] at hc
  have h1 := hc p (List.mem_range.mpr hp)
  rw [List.all_eq_true] at h1
  have h2 := h1 q (List.mem_range.mpr hq)
  rw [edgeB_of_cedge he] at h2
  simpa using h2

end PonyVerif.Model.Cascade
