/-
  C18 — lemmas about Model/DbSessionMulti.lean (several databases in one db_session).
-/
import PonyVerif.Model.DbSessionMulti
namespace PonyVerif.Model.DbSessionMulti

/-- the database behind `c'` is the one behind `c`, untouched -/
def Unchanged (c c' : Cache) : Prop := c'.db = c.db ∧ c'.committed = c.committed ∧ c'.pending = []

/-- the database behind `c'` is the one behind `c` with all of `c`'s pending writes committed -/
def Committed (c c' : Cache) : Prop := c'.db = c.db ∧ c'.committed = c.committed ++ c.pending ∧ c'.pending = []

theorem rolledBack_unchanged (c : Cache) : Unchanged c (rolledBack c) := ⟨rfl, rfl, rfl⟩

theorem cacheCommit_cases (f : Faults) (c : Cache) :
    ((cacheCommit f c).2 = true ∧ Unchanged c (cacheCommit f c).1 ∧ c.pending ≠ [] ∧ f.commit c.db = true) ∨
    ((cacheCommit f c).2 = false ∧ Committed c (cacheCommit f c).1 ∧ (c.pending = [] ∨ f.commit c.db = false)) := by
  unfold cacheCommit
  by_cases hp : c.pending = []
  · right; simp [hp, Committed]
  · by_cases hf : f.commit c.db = true
    · left; simp [hp, hf, Unchanged, rolledBack]
    · right; simp [hp, hf, Committed]

/-- pointwise relation between two lists of caches -/
inductive Rel (R : Cache → Cache → Prop) : List Cache → List Cache → Prop where
  | nil : Rel R [] []
  | cons {a b : Cache} {as bs : List Cache} : R a b → Rel R as bs → Rel R (a :: as) (b :: bs)

theorem rel_map {R : Cache → Cache → Prop} (g : Cache → Cache) (h : ∀ c, R c (g c)) : ∀ cs, Rel R cs (cs.map g)
  | [] => .nil
  | c :: cs => .cons (h c) (rel_map g h cs)

theorem rel_mono {R S : Cache → Cache → Prop} (h : ∀ a b, R a b → S a b) : ∀ {as bs}, Rel R as bs → Rel S as bs
  | _, _, .nil => .nil
  | _, _, .cons hab r => .cons (h _ _ hab) (rel_mono h r)

/-- committing the non-primary caches one by one: each database ends either committed or untouched -/
theorem others_shape (f : Faults) : ∀ os : List Cache,
    Rel (fun c c' => Unchanged c c' ∨ Committed c c') os ((os.map (cacheCommit f)).map (·.1))
  | [] => .nil
  | c :: os => by
    refine .cons ?_ (others_shape f os)
    rcases cacheCommit_cases f c with h | h
    · exact .inl h.2.1
    · exact .inr h.2.1

/-- … and when none of them that has something pending fails, all are committed and nothing is raised -/
theorem others_ok (f : Faults) : ∀ os : List Cache, (∀ c ∈ os, c.pending = [] ∨ f.commit c.db = false) →
    Rel Committed os ((os.map (cacheCommit f)).map (·.1)) ∧ (os.map (cacheCommit f)).any (·.2) = false
  | [], _ => ⟨.nil, rfl⟩
  | c :: os, h => by
    have ih := others_ok f os (fun x hx => h x (List.mem_cons_of_mem _ hx))
    rcases cacheCommit_cases f c with hc | hc
    · rcases h c (List.mem_cons_self ..) with h1 | h1
      · exact absurd h1 hc.2.2.1
      · rw [h1] at hc; exact absurd hc.2.2.2 (by simp)
    · refine ⟨.cons hc.2.1 ih.1, ?_⟩
      simp only [List.map_cons, List.any_cons, hc.1, ih.2, Bool.or_self]

theorem find_none_of_noflush (f : Faults) (cs : List Cache) (h : ∀ c ∈ cs, flushRaises f c = false) :
    cs.find? (flushRaises f) = none := by
  rw [List.find?_eq_none]
  intro c hc
  simp [h c hc]

end PonyVerif.Model.DbSessionMulti
