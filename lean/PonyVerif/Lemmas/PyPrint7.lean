/-
  C04 — the fuel the driver's `parse` uses is enough: `cost e + 350 ≤ 400 * (number of tokens)`.
-/
import PonyVerif.Lemmas.PyPrint6
namespace PonyVerif.Model.PyPrint

theorem len_wrapT_ge (p : Nat) (c : Expr) : (toks c).length ≤ (wrapT p c).length := by
  unfold wrapT; split <;> simp <;> omega
theorem len_primT_ge (c : Expr) : (toks c).length ≤ (primT c).length := by
  unfold primT; split <;> simp <;> omega
theorem len_sepArgs (t : Args) : (tArgs t).length ≤ (sepArgs t).length := by
  unfold sepArgs; cases t <;> simp [Args.isNil, tArgs_nil]
theorem len_sepIdxs (t : Idxs) : (tIdxs t).length ≤ (sepIdxs t).length := by
  unfold sepIdxs; cases t <;> simp [Idxs.isNil, tIdxs_nil]
theorem len_sepParams (t : Params) : (tParams t).length ≤ (sepParams t).length := by
  unfold sepParams; cases t <;> simp [Params.isNil, tParams_nil]
theorem len_sepKVs (t : KVs) : (tKVs t).length ≤ (sepKVs t).length := by
  unfold sepKVs; cases t <;> simp [KVs.isNil, tKVs_nil]

mutual
theorem cost_le : (e : Expr) → cost e + 350 ≤ 400 * (toks e).length
  | .name s => by simp [cost, toks_name]
  | .const s => by simp [cost, toks_const]
  | .negConst s => by simp [cost, toks_negConst]
  | .fstr ps => by simp [cost, toks, prE]
  | .boolOp o a b m => by
      have := cost_le a; have := cost_le b; have := costEs_le (if o then 14 else 13) (if o then .kOr else .kAnd) m
      have := len_wrapT_ge (if o then 14 else 13) a; have := len_wrapT_ge (if o then 14 else 13) b
      simp only [cost, toks_boolOp, List.length_append, List.length_cons]; omega
  | .not e => by
      have := cost_le e; have := len_wrapT_ge 12 e
      simp only [cost, toks_not, List.length_cons]; omega
  | .compare l op r m => by
      have := cost_le l; have := cost_le r; have := costCmp_le m
      have := len_wrapT_ge 11 l; have := len_wrapT_ge 11 r
      simp only [cost, toks_compare, List.length_append, List.length_cons]; omega
  | .bin op l r => by
      have := cost_le l; have := cost_le r
      have := len_wrapT_ge op.prio l; have := len_wrapT_ge op.prio r
      simp only [cost, toks_bin, List.length_append, List.length_cons]; omega
  | .unary op e => by
      have := cost_le e; have := len_wrapT_ge 4 e
      simp only [cost, toks_unary, List.length_cons]; omega
  | .ifExp b t o => by
      have := cost_le b; have := cost_le t; have := cost_le o
      have := len_wrapT_ge 15 b; have := len_wrapT_ge 15 t; have := len_wrapT_ge 15 o
      simp only [cost, toks_ifExp, List.length_append, List.length_cons]; omega
  | .lambda ps b => by
      have := cost_le b; have := costParams_le ps; have := len_wrapT_ge 16 b
      simp only [cost, toks_lambda, List.length_append, List.length_cons]; omega
  | .attr e a => by
      have := cost_le e; have := len_primT_ge e
      simp only [cost, toks_attr, List.length_append, List.length_cons, List.length_nil]; omega
  | .call f a => by
      have := cost_le f; have := len_primT_ge f; have := costArgs_le a
      simp only [cost, toks_call, List.length_append, List.length_cons, List.length_nil]; omega
  | .subscript e i => by
      have := cost_le e; have := len_primT_ge e; have := costIdx_le i
      simp only [cost, toks_subscript, List.length_append, List.length_cons, List.length_nil]; omega
  | .subscriptT e is => by
      have := cost_le e; have := len_primT_ge e; have := costIdxs_le is
      simp only [cost, toks_subscriptT, List.length_append, List.length_cons, List.length_nil]; omega
  | .list a => by
      have := costArgs_le a
      simp only [cost, toks_list, List.length_append, List.length_cons, List.length_nil]; omega
  | .tuple a => by
      have := costArgs_le a
      simp only [cost, toks_tuple, List.length_append, List.length_cons, List.length_nil]; omega
  | .dict k => by
      have := costKVs_le k
      simp only [cost, toks_dict, List.length_append, List.length_cons, List.length_nil]; omega
theorem costEs_le (p : Nat) (k : Tok) : (m : Exprs) → costEs m ≤ 400 * (tEs p k m).length + 1
  | .nil => by simp [costEs, tEs_nil]
  | .cons e t => by
      have := cost_le e; have := costEs_le p k t; have := len_wrapT_ge p e
      simp only [costEs, tEs_cons, List.length_append, List.length_cons]; omega
theorem costCmp_le : (m : CmpTail) → costCmp m ≤ 400 * (tCmp m).length + 1
  | .nil => by simp [costCmp, tCmp_nil]
  | .cons op e t => by
      have := cost_le e; have := costCmp_le t; have := len_wrapT_ge 11 e
      simp only [costCmp, tCmp_cons, List.length_append, List.length_cons]; omega
theorem costArgs_le : (a : Args) → costArgs a ≤ 400 * (tArgs a).length + 1
  | .nil => by simp [costArgs, tArgs_nil]
  | .pos e t => by
      have := cost_le e; have := costArgs_le t; have := len_sepArgs t
      simp only [costArgs, tArgs_pos, List.length_append]; omega
  | .star e t => by
      have := cost_le e; have := costArgs_le t; have := len_sepArgs t
      simp only [costArgs, tArgs_star, List.length_append, List.length_cons]; omega
  | .kw n e t => by
      have := cost_le e; have := costArgs_le t; have := len_sepArgs t
      simp only [costArgs, tArgs_kw, List.length_append, List.length_cons]; omega
  | .dstar e t => by
      have := cost_le e; have := costArgs_le t; have := len_sepArgs t
      simp only [costArgs, tArgs_dstar, List.length_append, List.length_cons]; omega
theorem costOpt_le : (o : OptE) → costOpt o ≤ 400 * (tOpt o).length + 1
  | .none => by simp [costOpt, tOpt_none]
  | .some e => by
      have := cost_le e
      simp only [costOpt, tOpt_some]; omega
theorem costIdx_le : (i : Idx) → costIdx i + 150 ≤ 400 * (tIdx i).length
  | .ie e => by
      have := cost_le e
      simp only [costIdx, tIdx_ie]; omega
  | .sl a b c => by
      have := costOpt_le a; have := costOpt_le b; have := costOpt_le c
      cases c with
      | none => simp only [costIdx, tIdx_sl, List.length_append, List.length_cons, List.length_nil, costOpt] at *; omega
      | some e => simp only [costIdx, tIdx_sl, List.length_append, List.length_cons, tOpt_some, costOpt] at *; omega
theorem costIdxs_le : (is : Idxs) → costIdxs is ≤ 400 * (tIdxs is).length + 1
  | .nil => by simp [costIdxs, tIdxs_nil]
  | .cons i t => by
      have := costIdx_le i; have := costIdxs_le t; have := len_sepIdxs t
      simp only [costIdxs, tIdxs_cons, List.length_append]; omega
theorem costParams_le : (ps : Params) → costParams ps ≤ 400 * (tParams ps).length + 1
  | .nil => by simp [costParams, tParams_nil]
  | .plain n t => by
      have := costParams_le t; have := len_sepParams t
      simp only [costParams, tParams_plain, List.length_cons]; omega
  | .dflt n e t => by
      have := cost_le e; have := costParams_le t; have := len_sepParams t
      simp only [costParams, tParams_dflt, List.length_append, List.length_cons]; omega
  | .var n t => by
      have := costParams_le t; have := len_sepParams t
      simp only [costParams, tParams_var, List.length_cons]; omega
  | .kwvar n t => by
      have := costParams_le t; have := len_sepParams t
      simp only [costParams, tParams_kwvar, List.length_cons]; omega
theorem costKVs_le : (k : KVs) → costKVs k ≤ 400 * (tKVs k).length + 1
  | .nil => by simp [costKVs, tKVs_nil]
  | .cons k v t => by
      have := cost_le k; have := cost_le v; have := costKVs_le t; have := len_sepKVs t
      simp only [costKVs, tKVs_cons, List.length_append, List.length_cons]; omega
end

/-- the driver's `parse` (fuel `400 * tokens + 400`) reads back what the printer model writes -/
theorem roundtrip_parse (e : Expr) (h : Ok e) : parse (toks e) = some (norm e) := by
  have := cost_le e
  exact roundtrip e h _ (by omega)

end PonyVerif.Model.PyPrint
