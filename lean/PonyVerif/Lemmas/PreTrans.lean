/-
  C04 — a node the PreTranslator model marks external mentions no name bound by the query.
-/
import PonyVerif.Model.PreTrans
namespace PonyVerif.Model.PreTrans

mutual
/-- the subtree reads a name that an enclosing context binds (a query variable), or holds a lambda -/
def usesBound (ctx : List String) : Node → Bool
  | .mk kind _ names ch =>
    match kind with
    | .nameLoad => names.any (fun n => ctx.contains n) || usesBoundAll ctx ch
    | .lambda => true
    | _ => usesBoundAll ctx ch
def usesBoundAll (ctx : List String) : Nodes → Bool
  | .nil => false
  | .cons n t => usesBound ctx n || usesBoundAll ctx t
end

mutual
/-- names and constants are leaves; no `Starred` (the code marks it external whatever it holds) -/
def WF (sf : Bool) : Node → Bool
  | .mk kind _ _ ch =>
    (match kind with
     | .starred => !sf
     | .nameLoad => ch.isNil
     | .const => ch.isNil
     | _ => true) && WFAll sf ch
def WFAll (sf : Bool) : Nodes → Bool
  | .nil => true
  | .cons n t => WF sf n && WFAll sf t
end

theorem usesBoundAll_nil_of_isNil (ctx : List String) (ch : Nodes) (h : ch.isNil = true) : usesBoundAll ctx ch = false := by
  cases ch <;> simp_all [Nodes.isNil, usesBoundAll]

/-- `node.external` in closed form -/
def extFlag (sf : Bool) (ctx : List String) (kind : Kind) (names : List String) (ch : Nodes) : Bool :=
  match kind with
  | .lambda => false
  | .nameLoad => if names.any (fun n => ctx.contains n) then !ch.isNil && (classifyAll sf ctx ch).all else true
  | .const => true
  | .starred => if sf then true else !ch.isNil && (classifyAll sf ctx ch).all
  | .listD => (classifyAll sf ctx ch).all
  | .dictD => (classifyAll sf ctx ch).all
  | .slice => ch.isNil || (classifyAll sf ctx ch).all
  | _ => !ch.isNil && (classifyAll sf ctx ch).all

theorem classify_ext (sf : Bool) (ctx : List String) (kind : Kind) (lab : Nat) (names : List String) (ch : Nodes) :
    (classify sf ctx (.mk kind lab names ch)).ext = extFlag sf ctx kind names ch := by
  cases kind
  case nameLoad =>
    by_cases hb : names.any (fun n => ctx.contains n) = true
    · simp only [classify, extFlag, hb, if_true]; (repeat' split) <;> simp_all
    · simp only [classify, extFlag, hb]; (repeat' split) <;> simp_all
  all_goals (simp only [classify, extFlag] <;> (repeat' split) <;> simp_all)

mutual
theorem ext_sound (sf : Bool) (ctx : List String) : (n : Node) → WF sf n = true → (classify sf ctx n).ext = true → usesBound ctx n = false
  | .mk kind lab names ch, hw, he => by
    have ih := extAll_sound sf ctx ch
    rw [classify_ext] at he
    cases kind <;> simp only [WF, Bool.and_eq_true, extFlag] at hw he <;> simp only [usesBound]
    case lambda => simp at he
    case starred =>
      simp at hw
      obtain ⟨hsf, hw2⟩ := hw
      subst hsf
      simp at he
      exact ih hw2 he.2
    case nameLoad =>
      rw [usesBoundAll_nil_of_isNil ctx ch hw.1]
      split at he
      · simp [hw.1] at he
      · simp_all
    case const => exact usesBoundAll_nil_of_isNil ctx ch hw.1
    case listD => exact ih (by simpa using hw) he
    case dictD => exact ih (by simpa using hw) he
    case slice =>
      by_cases hn : ch.isNil = true
      · exact usesBoundAll_nil_of_isNil ctx ch hn
      · exact ih (by simpa using hw) (by simpa [hn] using he)
    case keyword => exact ih (by simpa using hw) (by simp at he; exact he.2)
    case tuple => exact ih (by simpa using hw) (by simp at he; exact he.2)
    case other => exact ih (by simpa using hw) (by simp at he; exact he.2)
theorem extAll_sound (sf : Bool) (ctx : List String) : (ns : Nodes) → WFAll sf ns = true → (classifyAll sf ctx ns).all = true → usesBoundAll ctx ns = false
  | .nil, _, _ => by simp [usesBoundAll]
  | .cons n t, hw, he => by
    simp only [WFAll, Bool.and_eq_true] at hw
    simp only [classifyAll, Bool.and_eq_true] at he
    simp [usesBoundAll, ext_sound sf ctx n hw.1 he.1, extAll_sound sf ctx t hw.2 he.2]
end

end PonyVerif.Model.PreTrans
