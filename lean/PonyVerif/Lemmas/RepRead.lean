/-
  Lemmas for C21: two preservation relations between the reader session before and after ANY piece of the loading code,
  for an arbitrary committed database:
    `Frozen s s'`     — an instance that is in the identity map stays there; an attribute whose read bit is set keeps its
                         read bit and its `_vals_` entry
    `FullFrozen s s'` — a fully loaded collection stays fully loaded with the same items (needs the phantom check in
                         `Set.db_reverse_remove`, i.e. `guarded = true`)
-/
import PonyVerif.Model.RepRead
namespace PonyVerif.Model.RepRead

@[simp] theorem upd_same {β : Type} (f : Nat → β) (k : Nat) (v : β) : upd f k v k = v := by simp [upd]
theorem upd_other {β : Type} (f : Nat → β) (k x : Nat) (v : β) (h : x ≠ k) : upd f k v x = f x := by simp [upd, h]

/-! ### Frozen -/

/-- the attribute's value is pinned for the session: it is not volatile and either its read bit is set (the session read
    it, used it in a query, or wrote it and flushed) or it carries an unflushed own assignment -/
def prot (cfg : Cfg) (o : CObj) (a : Attr) : Bool := !cfg.volatile a && (o.rbits a || o.wmask a)

def KeepsAt (cfg : Cfg) (c : Nat) (a : Attr) (s s' : Sess) : Prop :=
  (s.c c).present = true →
    (s'.c c).present = true ∧ (prot cfg (s.c c) a = true → prot cfg (s'.c c) a = true ∧ (s'.c c).vals a = (s.c c).vals a)

def Frozen (cfg : Cfg) (s s' : Sess) : Prop := ∀ c a, KeepsAt cfg c a s s'

theorem KeepsAt.refl (cfg : Cfg) (c : Nat) (a : Attr) (s : Sess) : KeepsAt cfg c a s s := fun h => ⟨h, fun hr => ⟨hr, rfl⟩⟩

theorem KeepsAt.trans {cfg : Cfg} {c : Nat} {a : Attr} {s1 s2 s3 : Sess} (h12 : KeepsAt cfg c a s1 s2)
    (h23 : KeepsAt cfg c a s2 s3) : KeepsAt cfg c a s1 s3 := by
  intro hp
  obtain ⟨hp2, h2⟩ := h12 hp
  obtain ⟨hp3, h3⟩ := h23 hp2
  refine ⟨hp3, fun hr => ?_⟩
  obtain ⟨hr2, hv2⟩ := h2 hr
  obtain ⟨hr3, hv3⟩ := h3 hr2
  exact ⟨hr3, hv3.trans hv2⟩

theorem Frozen.refl {cfg : Cfg} (s : Sess) : Frozen cfg s s := fun c a => KeepsAt.refl cfg c a s

theorem Frozen.trans {cfg : Cfg} {s1 s2 s3 : Sess} (h12 : Frozen cfg s1 s2) (h23 : Frozen cfg s2 s3) : Frozen cfg s1 s3 :=
  fun c a => (h12 c a).trans (h23 c a)

/-- changing only `kids` / `toSave` -/
theorem Frozen.of_c_eq {cfg : Cfg} {s s' : Sess} (h : s'.c = s.c) : Frozen cfg s s' := by
  intro c a hp; rw [h]; exact ⟨hp, fun hr => ⟨hr, by trivial⟩⟩

/-- replacing one instance by one with the same `_vals_`, the same identity-map status and at least the same protection -/
theorem Frozen.of_obj {cfg : Cfg} (s : Sess) (cid : Nat) (o' : CObj) (hp : o'.present = (s.c cid).present)
    (hv : o'.vals = (s.c cid).vals) (hpr : ∀ a, prot cfg (s.c cid) a = true → prot cfg o' a = true) :
    Frozen cfg s (setC s cid o') := by
  intro c a hpc
  by_cases hc : c = cid
  · subst hc
    simp only [setC, upd_same]
    exact ⟨by rw [hp]; exact hpc, fun hr => ⟨hpr a hr, by rw [hv]⟩⟩
  · simp only [setC, upd_other _ _ _ _ hc]
    exact ⟨hpc, fun hr => ⟨hr, by trivial⟩⟩

theorem dbReverseAdd_c (s : Sess) (p cid : Nat) : (dbReverseAdd s p cid).1.c = s.c := by
  unfold dbReverseAdd
  split
  · rfl
  · split <;> rfl

theorem dbReverseRemove_c (g : Bool) (s : Sess) (p cid : Nat) : (dbReverseRemove g s p cid).1.c = s.c := by
  unfold dbReverseRemove
  split
  · rfl
  · split
    · rfl
    · split <;> rfl

theorem dbUpdateReverse_c (g : Bool) (s : Sess) (cid : Nat) (old : Option Val) (new : Val) :
    (dbUpdateReverse g s cid old new).1.c = s.c := by
  unfold dbUpdateReverse
  have h1 : ∀ r1 : Sess × Option Err, r1.1.c = s.c →
      (match r1 with
        | (s1, some e) => (s1, some e)
        | (s1, none) => if new ≠ -1 then dbReverseAdd s1 new.toNat cid else (s1, none)).1.c = s.c := by
    intro r1 hr
    obtain ⟨s1, oe⟩ := r1
    cases oe with
    | some e => exact hr
    | none =>
      simp only
      split
      · rw [dbReverseAdd_c]; exact hr
      · exact hr
  apply h1
  split
  · split
    · exact dbReverseRemove_c g s _ cid
    · rfl
  · rfl

/-- everything of an instance except `_dbvals_` -/
def SameButDbvals (o o' : CObj) : Prop :=
  o'.vals = o.vals ∧ o'.rbits = o.rbits ∧ o'.present = o.present ∧ o'.wbits = o.wbits ∧ o'.wmask = o.wmask

/-- the second loop of `_db_set_` touches only `_dbvals_` (and collections); when it completes, none of the attributes it
    went through had its read bit set -/
theorem loop2_spec (g : Bool) (cid : Nat) : ∀ (av : List (Attr × Val)) (s : Sess),
    (∀ x, SameButDbvals (s.c x) ((loop2 g cid s av).1.c x)) ∧
    ((loop2 g cid s av).2 = none → ∀ e, e ∈ av → (s.c cid).rbits e.1 = false)
  | [], s => by simp [loop2, SameButDbvals]
  | (a, nv) :: rest, s => by
    unfold loop2
    simp only
    by_cases hr : (s.c cid).rbits a = true
    · simp [hr, SameButDbvals]
    · simp only [hr, Bool.false_eq_true, if_false]
      have hrf : (s.c cid).rbits a = false := by simpa using hr
      have key : ∀ r : Sess × Option Err, r.1.c = s.c →
          (∀ x, SameButDbvals (s.c x) ((match r with
                  | (s1, some e) => (s1, some e)
                  | (s1, none) => loop2 g cid (setC s1 cid { s1.c cid with dbvals := upd (s1.c cid).dbvals a (some nv) }) rest).1.c x)) ∧
          ((match r with
                  | (s1, some e) => (s1, some e)
                  | (s1, none) => loop2 g cid (setC s1 cid { s1.c cid with dbvals := upd (s1.c cid).dbvals a (some nv) }) rest).2 = none →
            ∀ e, e ∈ (a, nv) :: rest → (s.c cid).rbits e.1 = false) := by
        intro r hc
        obtain ⟨s1, oe⟩ := r
        cases oe with
        | some e =>
          simp only at hc
          refine ⟨fun x => by simp [hc, SameButDbvals], fun h => by simp at h⟩
        | none =>
          simp only at hc
          simp only
          obtain ⟨ih1, ih2⟩ := loop2_spec g cid rest (setC s1 cid { s1.c cid with dbvals := upd (s1.c cid).dbvals a (some nv) })
          have hset : ∀ x, SameButDbvals (s.c x) ((setC s1 cid { s1.c cid with dbvals := upd (s1.c cid).dbvals a (some nv) }).c x) := by
            intro x
            by_cases hx : x = cid
            · subst hx; simp [setC, hc, SameButDbvals]
            · simp [setC, upd_other _ _ _ _ hx, hc, SameButDbvals]
          refine ⟨fun x => ?_, fun h e he => ?_⟩
          · obtain ⟨a1, a2, a3, a4, a5⟩ := ih1 x
            obtain ⟨b1, b2, b3, b4, b5⟩ := hset x
            exact ⟨a1.trans b1, a2.trans b2, a3.trans b3, a4.trans b4, a5.trans b5⟩
          · rcases List.mem_cons.1 he with rfl | he
            · exact hrf
            · have := ih2 h e he
              rw [(hset cid).2.1] at this
              exact this
      apply key
      split
      · exact dbUpdateReverse_c g s cid _ nv
      · rfl

theorem overlay_not_mem (vals : Attr → Option Val) : ∀ (av : List (Attr × Val)) (a : Attr),
    (∀ e, e ∈ av → e.1 ≠ a) → overlay vals av a = vals a
  | [], _, _ => rfl
  | (b, v) :: rest, a, h => by
    simp only [overlay]
    rw [overlay_not_mem _ rest a (fun e he => h e (List.mem_cons_of_mem _ he))]
    have : a ≠ b := fun e => h (b, v) (List.mem_cons_self) e.symm
    exact upd_other _ _ _ _ this

/-- [Entity._db_set_] -/
theorem dbSetObj_frozen (cfg : Cfg) (g : Bool) (s : Sess) (cid : Nat) (avdict : List (Attr × Val)) :
    Frozen cfg s (dbSetObj g s cid avdict).1 := by
  unfold dbSetObj
  simp only
  obtain ⟨h1, h2⟩ := loop2_spec g cid (avdict.filter (fun x => !((s.c cid).dbvals x.1 == some x.2))) s
  generalize hl : loop2 g cid s (avdict.filter (fun x => !((s.c cid).dbvals x.1 == some x.2))) = r at h1 h2
  obtain ⟨s1, oe⟩ := r
  have same : ∀ c a, (s.c c).present = true → (s1.c c).present = true ∧
      (prot cfg (s.c c) a = true → prot cfg (s1.c c) a = true ∧ (s1.c c).vals a = (s.c c).vals a) := by
    intro c a hp
    obtain ⟨a1, a2, a3, _, a5⟩ := h1 c
    simp only at a1 a2 a3 a5
    exact ⟨by rw [a3]; exact hp, fun hr => ⟨by simpa [prot, a2, a5] using hr, by rw [a1]⟩⟩
  cases oe with
  | some e => exact fun c a hp => same c a hp
  | none =>
    have hnr := h2 rfl
    simp only at h1 ⊢
    intro c a hp
    obtain ⟨hp1, hk⟩ := same c a hp
    by_cases hc : c = cid
    · subst hc
      simp only [setC, upd_same]
      refine ⟨hp1, fun hr => ?_⟩
      obtain ⟨hr1, hv1⟩ := hk hr
      refine ⟨by simpa [prot] using hr1, ?_⟩
      rw [overlay_not_mem, hv1]
      intro e he hea
      obtain ⟨hemem, hew⟩ := List.mem_filter.1 he
      have hrb := hnr e hemem
      -- protected: read bit (then `e` would have raised) or write mask (then `e` was filtered out)
      obtain ⟨_, _, _, _, a5⟩ := h1 c
      simp only [prot, Bool.and_eq_true, Bool.or_eq_true] at hr
      rcases hr.2 with hrr | hww
      · rw [hea, hrr] at hrb; cases hrb
      · rw [hea, a5, hww] at hew; simp at hew
    · simp only [setC, upd_other _ _ _ _ hc]
      exact ⟨hp1, hk⟩

theorem setC_new_frozen (cfg : Cfg) (s : Sess) (cid : Nat) (h : (s.c cid).present = false) : Frozen cfg s (setC s cid CObj.new) := by
  intro c a hp
  have hc : c ≠ cid := by intro e; subst e; rw [h] at hp; cases hp
  simp only [setC, upd_other _ _ _ _ hc]
  exact ⟨hp, fun hr => ⟨hr, by trivial⟩⟩

/-- [Entity._fetch_objects] -/
theorem fetchRows_frozen (cfg : Cfg) (g : Bool) (cols : List Attr) : ∀ (rows : List Row) (s : Sess),
    Frozen cfg s (fetchRows g cols s rows).1
  | [], s => Frozen.refl s
  | r :: rest, s => by
    unfold fetchRows
    simp only
    have h0 : Frozen cfg s (if (s.c r.1).present = true then s else setC s r.1 CObj.new) := by
      by_cases hp : (s.c r.1).present = true
      · simp only [hp, if_true]; exact Frozen.refl s
      · simp only [hp]
        exact setC_new_frozen cfg s r.1 (by simpa using hp)
    generalize (if (s.c r.1).present = true then s else setC s r.1 CObj.new) = s0 at h0
    have h1 := dbSetObj_frozen cfg g s0 r.1 (cols.map (fun a => (a, rowVal r a)))
    generalize dbSetObj g s0 r.1 (cols.map (fun a => (a, rowVal r a))) = r1 at h1
    obtain ⟨s1, oe⟩ := r1
    cases oe with
    | some e => exact h0.trans h1
    | none =>
      simp only at h1 ⊢
      have h2 := fetchRows_frozen cfg g cols rest s1
      generalize fetchRows g cols s1 rest = r2 at h2
      obtain ⟨s2, objs, e⟩ := r2
      exact (h0.trans h1).trans h2

theorem prot_mono (cfg : Cfg) (o : CObj) (f : Attr → Bool) (a : Attr) (h : prot cfg o a = true) :
    prot cfg { o with rbits := fun x => o.rbits x || f x } a = true := by
  simp only [prot, Bool.and_eq_true, Bool.or_eq_true] at h ⊢
  exact ⟨h.1, h.2.elim (fun x => Or.inl (Or.inl x)) Or.inr⟩

theorem setRbits_frozen (cfg : Cfg) (used : List Attr) : ∀ (l : List Nat) (s : Sess), Frozen cfg s (setRbits cfg s used l)
  | [], s => Frozen.refl s
  | cid :: rest, s => by
    unfold setRbits
    simp only
    refine Frozen.trans ?_ (setRbits_frozen cfg used rest _)
    exact Frozen.of_obj s cid _ rfl rfl (fun a h => prot_mono cfg _ _ a h)

theorem markItems_frozen (cfg : Cfg) : ∀ (l : List Nat) (s : Sess), Frozen cfg s (markItems cfg s l)
  | [], s => Frozen.refl s
  | cid :: rest, s => by
    unfold markItems
    simp only
    refine Frozen.trans ?_ (markItems_frozen cfg rest _)
    exact Frozen.of_obj s cid _ rfl rfl (fun a h => prot_mono cfg _ _ a h)

theorem markItems_kids (cfg : Cfg) : ∀ (l : List Nat) (s : Sess), (markItems cfg s l).kids = s.kids
  | [], _ => rfl
  | cid :: rest, s => by unfold markItems; simp only; rw [markItems_kids cfg rest]; rfl

theorem setRbits_kids (cfg : Cfg) (used : List Attr) : ∀ (l : List Nat) (s : Sess), (setRbits cfg s used l).kids = s.kids
  | [], _ => rfl
  | cid :: rest, s => by unfold setRbits; simp only; rw [setRbits_kids cfg used rest]; rfl

theorem fetchRows_frozen' {cfg : Cfg} {g : Bool} {cols : List Attr} {s : Sess} {rows : List Row} {s1 : Sess} {objs : List Nat}
    {oe : Option Err} (h : fetchRows g cols s rows = (s1, objs, oe)) : Frozen cfg s s1 := by
  have := fetchRows_frozen cfg g cols rows s; rw [h] at this; exact this

theorem readLoad_spec (cfg : Cfg) (g : Bool) (s : Sess) (db : Db) (cid : Nat) (a : Attr) :
    Frozen cfg s (readLoad cfg g s db cid a).1 ∧
    (∀ v, (s.c cid).vals a = some v → readLoad cfg g s db cid a = (s, none)) := by
  unfold readLoad
  simp only
  refine ⟨?_, fun v hv => by simp [hv]⟩
  split
  · exact Frozen.refl s
  · split
    · split
      · exact Frozen.refl s
      · split
        · exact Frozen.refl s
        · split
          · exact Frozen.refl s
          · split
            · exact Frozen.of_obj s cid _ rfl rfl (fun x h => by simpa [prot] using h)
            · rename_i hnr _
              intro c x hpc
              by_cases hc : c = cid
              · subst hc
                simp only [setC, upd_same]
                refine ⟨hpc, fun hr => ⟨by simpa [prot] using hr, ?_⟩⟩
                by_cases hw : (s.c c).wmask a = true
                · simp [hw]
                · simp only [hw, Bool.false_eq_true, if_false]
                  have : x ≠ a := by
                    intro e; subst e
                    simp only [prot, Bool.and_eq_true, Bool.or_eq_true] at hr
                    rcases hr.2 with h1 | h1
                    · exact hnr h1
                    · exact hw h1
                  exact upd_other _ _ _ _ this
              · simp only [setC, upd_other _ _ _ _ hc]; exact ⟨hpc, fun hr => ⟨hr, by trivial⟩⟩
    · split
      next s1 x e heq => exact fetchRows_frozen' heq
      next s1 objs heq => split <;> exact fetchRows_frozen' heq

theorem readFinish_spec (cfg : Cfg) (r : Sess × Option Err) (cid : Nat) (a : Attr) :
    Frozen cfg r.1 (readFinish cfg r cid a).1 ∧
    (∀ v, (readFinish cfg r cid a).2 = .ok v →
      ((readFinish cfg r cid a).1.c cid).vals a = some v ∧
      (cfg.volatile a = false → prot cfg ((readFinish cfg r cid a).1.c cid) a = true)) ∧
    (∀ v, r.2 = none → (r.1.c cid).vals a = some v → (readFinish cfg r cid a).2 = .ok v) := by
  obtain ⟨s1, oe⟩ := r
  unfold readFinish
  cases oe with
  | some e => exact ⟨Frozen.refl s1, fun v h => by simp at h, fun v h => by simp at h⟩
  | none =>
    simp only
    cases hv1 : (s1.c cid).vals a with
    | none => exact ⟨Frozen.refl s1, fun v h => by simp at h, fun v _ h => by simp at h⟩
    | some v1 =>
      simp only
      refine ⟨Frozen.of_obj s1 cid _ rfl rfl (fun x h => prot_mono cfg _ _ x h), fun v h => ?_, fun v _ hv => by simpa using hv⟩
      simp only [Except.ok.injEq] at h
      subst h
      simp only [setC, upd_same]
      refine ⟨hv1, fun hvol => ?_⟩
      simp only [prot, hvol, Bool.not_false, Bool.true_and, beq_self_eq_true, Bool.and_true]
      cases (s1.c cid).wmask a <;> simp

/-- [Attribute.get] + read bit: what a successful read leaves behind -/
theorem readCore_spec (cfg : Cfg) (g : Bool) (s : Sess) (db : Db) (cid : Nat) (a : Attr) :
    Frozen cfg s (readCore cfg g s db cid a).1 ∧
    (∀ v, (readCore cfg g s db cid a).2 = .ok v →
      ((readCore cfg g s db cid a).1.c cid).present = true ∧
      ((readCore cfg g s db cid a).1.c cid).vals a = some v ∧
      (cfg.volatile a = false → prot cfg ((readCore cfg g s db cid a).1.c cid) a = true)) ∧
    ((s.c cid).present = true → ∀ v, (s.c cid).vals a = some v → (readCore cfg g s db cid a).2 = .ok v) := by
  unfold readCore
  by_cases hp : (s.c cid).present = true
  · simp only [hp, Bool.not_true, Bool.false_eq_true, if_false]
    obtain ⟨l1, l2⟩ := readLoad_spec cfg g s db cid a
    obtain ⟨f1, f2, f3⟩ := readFinish_spec cfg (readLoad cfg g s db cid a) cid a
    have hfz := l1.trans f1
    refine ⟨hfz, fun v h => ?_, fun _ v hv => ?_⟩
    · obtain ⟨a1, a2⟩ := f2 v h
      exact ⟨(hfz cid a hp).1, a1, a2⟩
    · have e := l2 v hv
      exact f3 v (by rw [e]) (by rw [e]; exact hv)
  · have hpf : (s.c cid).present = false := by simpa using hp
    simp only [hpf, Bool.not_false, if_true]
    exact ⟨Frozen.refl s, fun v h => by simp at h, fun h => by cases h⟩

/-- [Entity._save_updated_] + [Entity._update_dbvals_]: the written attributes become read, nothing protected changes -/
theorem saveUpdated_frozen (cfg : Cfg) (s : Sess) (db : Db) (cid : Nat) : Frozen cfg s (saveUpdated cfg s db cid).1 := by
  unfold saveUpdated
  simp only
  split
  · exact Frozen.refl s
  · intro c a hpc
    by_cases hc : c = cid
    · subst hc
      simp only [setC, upd_same]
      refine ⟨hpc, fun hr => ?_⟩
      simp only [prot, Bool.and_eq_true, Bool.or_eq_true, Bool.not_eq_true'] at hr ⊢
      refine ⟨⟨hr.1, Or.inl (by simpa using hr.2)⟩, by simp [hr.1]⟩
    · simp only [setC, upd_other _ _ _ _ hc]; exact ⟨hpc, fun hr => ⟨hr, by trivial⟩⟩

theorem commitAll_frozen (cfg : Cfg) (db : Db) : ∀ (l : List Nat) (s : Sess), Frozen cfg s (commitAll cfg db s l).1
  | [], s => Frozen.of_c_eq rfl
  | c :: rest, s => by
    unfold commitAll
    have h1 := saveUpdated_frozen cfg s db c
    split
    next s1 e heq => rw [heq] at h1; exact h1
    next s1 heq => rw [heq] at h1; exact h1.trans (commitAll_frozen cfg db rest s1)

theorem saveUpdated_kids (cfg : Cfg) (s : Sess) (db : Db) (cid : Nat) : (saveUpdated cfg s db cid).1.kids = s.kids := by
  unfold saveUpdated; simp only; split <;> rfl

theorem commitAll_kids (cfg : Cfg) (db : Db) : ∀ (l : List Nat) (s : Sess), (commitAll cfg db s l).1.kids = s.kids
  | [], s => rfl
  | c :: rest, s => by
    unfold commitAll
    have h1 := saveUpdated_kids cfg s db c
    split
    next s1 e heq => rw [heq] at h1; exact h1
    next s1 heq => rw [heq] at h1; rw [commitAll_kids cfg db rest s1]; exact h1

/-! ### FullFrozen (needs the guarded `db_reverse_remove`) -/

def FullFrozen (s s' : Sess) : Prop :=
  ∀ p sd, s.kids p = some sd → sd.full = true → ∃ sd', s'.kids p = some sd' ∧ sd'.full = true ∧ sd'.items = sd.items

theorem FullFrozen.refl (s : Sess) : FullFrozen s s := fun _ sd h hf => ⟨sd, h, hf, rfl⟩

theorem FullFrozen.trans {s1 s2 s3 : Sess} (h12 : FullFrozen s1 s2) (h23 : FullFrozen s2 s3) : FullFrozen s1 s3 := by
  intro p sd h hf
  obtain ⟨sd2, h2, hf2, hi2⟩ := h12 p sd h hf
  obtain ⟨sd3, h3, hf3, hi3⟩ := h23 p sd2 h2 hf2
  exact ⟨sd3, h3, hf3, hi3.trans hi2⟩

theorem FullFrozen.of_kids_eq {s s' : Sess} (h : s'.kids = s.kids) : FullFrozen s s' := by
  intro p sd hk hf; rw [h]; exact ⟨sd, hk, hf, rfl⟩

/-- writing the SetData of a parent whose collection is NOT fully loaded (or absent) -/
theorem FullFrozen.setKids_notfull (s : Sess) (p : Nat) (sd : SetData)
    (h : ∀ sd0, s.kids p = some sd0 → sd0.full = false) : FullFrozen s (setKids s p sd) := by
  intro q sdq hq hf
  have hqp : q ≠ p := by
    intro e; subst e
    have := h sdq hq
    rw [hf] at this; cases this
  exact ⟨sdq, by simp [setKids, upd_other _ _ _ _ hqp, hq], hf, rfl⟩

theorem dbReverseAdd_full (s : Sess) (p cid : Nat) : FullFrozen s (dbReverseAdd s p cid).1 := by
  unfold dbReverseAdd
  split
  · rename_i hk
    exact FullFrozen.setKids_notfull s p _ (fun sd0 h => by rw [hk] at h; cases h)
  · rename_i sd hk
    by_cases hf : sd.full = true
    · simp only [hf, if_true]; exact FullFrozen.refl s
    · simp only [hf]
      exact FullFrozen.setKids_notfull s p _ (fun sd0 h => by rw [hk] at h; cases h; simpa using hf)

theorem dbReverseRemove_full (s : Sess) (p cid : Nat) : FullFrozen s (dbReverseRemove true s p cid).1 := by
  unfold dbReverseRemove
  split
  · exact FullFrozen.refl s
  · rename_i sd hk
    by_cases hf : sd.full = true
    · simp only [hf, Bool.and_self, if_true]; exact FullFrozen.refl s
    · have hff : sd.full = false := by simpa using hf
      simp only [hff, Bool.and_false, Bool.false_eq_true, if_false]
      split
      · exact FullFrozen.setKids_notfull s p _ (fun sd0 h => by rw [hk] at h; cases h; exact hff)
      · exact FullFrozen.refl s

theorem dbUpdateReverse_full (s : Sess) (cid : Nat) (old : Option Val) (new : Val) :
    FullFrozen s (dbUpdateReverse true s cid old new).1 := by
  unfold dbUpdateReverse
  have h1 : ∀ r1 : Sess × Option Err, FullFrozen s r1.1 →
      FullFrozen s (match r1 with
        | (s1, some e) => (s1, some e)
        | (s1, none) => if new ≠ -1 then dbReverseAdd s1 new.toNat cid else (s1, none)).1 := by
    intro r1 hr
    obtain ⟨s1, oe⟩ := r1
    cases oe with
    | some e => exact hr
    | none =>
      simp only
      split
      · exact hr.trans (dbReverseAdd_full s1 _ cid)
      · exact hr
  apply h1
  split
  · split
    · exact dbReverseRemove_full s _ cid
    · exact FullFrozen.refl s
  · exact FullFrozen.refl s

theorem setC_kids (s : Sess) (cid : Nat) (o : CObj) : (setC s cid o).kids = s.kids := rfl

theorem loop2_full (cid : Nat) : ∀ (av : List (Attr × Val)) (s : Sess), FullFrozen s (loop2 true cid s av).1
  | [], s => FullFrozen.refl s
  | (a, nv) :: rest, s => by
    unfold loop2
    simp only
    by_cases hr : (s.c cid).rbits a = true
    · simp only [hr, if_true]; exact FullFrozen.refl s
    · simp only [hr, Bool.false_eq_true, if_false]
      have key : ∀ r : Sess × Option Err, FullFrozen s r.1 →
          FullFrozen s (match r with
            | (s1, some e) => (s1, some e)
            | (s1, none) => loop2 true cid (setC s1 cid { s1.c cid with dbvals := upd (s1.c cid).dbvals a (some nv) }) rest).1 := by
        intro r hfr
        obtain ⟨s1, oe⟩ := r
        cases oe with
        | some e => exact hfr
        | none =>
          simp only
          refine hfr.trans (FullFrozen.trans (FullFrozen.of_kids_eq (setC_kids s1 cid _)) (loop2_full cid rest _))
      apply key
      split
      · exact dbUpdateReverse_full s cid _ nv
      · exact FullFrozen.refl s

theorem dbSetObj_full (s : Sess) (cid : Nat) (avdict : List (Attr × Val)) : FullFrozen s (dbSetObj true s cid avdict).1 := by
  unfold dbSetObj
  simp only
  have h := loop2_full cid (avdict.filter (fun x => !((s.c cid).dbvals x.1 == some x.2))) s
  generalize loop2 true cid s (avdict.filter (fun x => !((s.c cid).dbvals x.1 == some x.2))) = r at h
  obtain ⟨s1, oe⟩ := r
  cases oe with
  | some e => exact h
  | none => exact h.trans (FullFrozen.of_kids_eq (setC_kids s1 cid _))

theorem fetchRows_full (cols : List Attr) : ∀ (rows : List Row) (s : Sess), FullFrozen s (fetchRows true cols s rows).1
  | [], s => FullFrozen.refl s
  | r :: rest, s => by
    unfold fetchRows
    simp only
    have h0 : FullFrozen s (if (s.c r.1).present = true then s else setC s r.1 CObj.new) := by
      split
      · exact FullFrozen.refl s
      · exact FullFrozen.of_kids_eq (setC_kids s r.1 _)
    generalize (if (s.c r.1).present = true then s else setC s r.1 CObj.new) = s0 at h0
    have h1 := dbSetObj_full s0 r.1 (cols.map (fun a => (a, rowVal r a)))
    generalize dbSetObj true s0 r.1 (cols.map (fun a => (a, rowVal r a))) = r1 at h1
    obtain ⟨s1, oe⟩ := r1
    cases oe with
    | some e => exact h0.trans h1
    | none =>
      simp only at h1 ⊢
      have h2 := fetchRows_full cols rest s1
      generalize fetchRows true cols s1 rest = r2 at h2
      obtain ⟨s2, objs, e⟩ := r2
      exact (h0.trans h1).trans h2

/-! ### collection loading and whole operations -/


theorem fetchRows_full' {cols : List Attr} {s : Sess} {rows : List Row} {s1 : Sess} {objs : List Nat}
    {oe : Option Err} (h : fetchRows true cols s rows = (s1, objs, oe)) : FullFrozen s s1 := by
  have := fetchRows_full cols rows s; rw [h] at this; exact this

theorem ensureKids_frozen (cfg : Cfg) (s : Sess) (p : Nat) : Frozen cfg s (ensureKids s p) := by
  unfold ensureKids
  split
  · exact Frozen.of_c_eq rfl
  · exact Frozen.refl s

theorem ensureKids_full (s : Sess) (p : Nat) : FullFrozen s (ensureKids s p) := by
  unfold ensureKids
  split
  · rename_i hk
    exact FullFrozen.setKids_notfull s p _ (fun sd0 h => by rw [hk] at h; cases h)
  · exact FullFrozen.refl s

theorem ensureKids_kids_full (s : Sess) (p : Nat) (sd : SetData) (h : (ensureKids s p).kids p = some sd) (hf : sd.full = true) :
    s.kids p = some sd := by
  unfold ensureKids at h
  split at h
  · simp [setKids, SetData.empty] at h
    subst h
    cases hf
  · exact h

/-- rewriting the SetData of a parent keeps FullFrozen relative to a state in which that parent's collection was not
    fully loaded -/
theorem FullFrozen.setKids_after {s s1 : Sess} (p : Nat) (sd : SetData) (h : FullFrozen s s1)
    (hnf : ∀ sd0, s.kids p = some sd0 → sd0.full = false) : FullFrozen s (setKids s1 p sd) := by
  intro q sdq hq hfq
  have hqp : q ≠ p := by
    intro e; subst e
    have := hnf sdq hq
    rw [hfq] at this; cases this
  obtain ⟨sd2, hk2, hf2, hi2⟩ := h q sdq hq hfq
  exact ⟨sd2, by simp only [setKids, upd_other _ _ _ _ hqp]; exact hk2, hf2, hi2⟩

theorem loadColl_frozen (cfg : Cfg) (g : Bool) (s : Sess) (db : Db) (p : Nat) : Frozen cfg s (loadColl cfg g s db p).1 := by
  unfold loadColl
  simp only
  have h0 := ensureKids_frozen cfg s p
  split
  · exact h0
  · split
    · exact h0
    · split
      next s1 x e heq =>
        have hf := fetchRows_frozen' (cfg := cfg) heq; exact h0.trans hf
      next s1 x heq =>
        have hf := fetchRows_frozen' (cfg := cfg) heq
        split
        · exact h0.trans hf
        · exact (h0.trans hf).trans (Frozen.of_c_eq rfl)

theorem loadColl_full (cfg : Cfg) (s : Sess) (db : Db) (p : Nat) : FullFrozen s (loadColl cfg true s db p).1 := by
  unfold loadColl
  simp only
  have h0 := ensureKids_full s p
  split
  · exact h0
  · rename_i sd hk
    by_cases hfull : sd.full = true
    · simp only [hfull, if_true]; exact h0
    · have hnf : ∀ sd0, s.kids p = some sd0 → sd0.full = false := by
        intro sd0 h0k
        have : (ensureKids s p).kids p = some sd0 := by simp [ensureKids, h0k]
        rw [hk] at this; cases this; simpa using hfull
      have hff : sd.full = false := by simpa using hfull
      simp only [hff, Bool.false_eq_true, if_false]
      split
      next s1 x e heq =>
        have hf := fetchRows_full' heq; exact h0.trans hf
      next s1 x heq =>
        have hf := fetchRows_full' heq
        split
        · exact h0.trans hf
        · exact FullFrozen.setKids_after p _ (h0.trans hf) hnf

/-- a successful load leaves the collection fully loaded; a fully loaded collection is returned as it is -/
theorem loadColl_spec (cfg : Cfg) (g : Bool) (s : Sess) (db : Db) (p : Nat) :
    ((loadColl cfg g s db p).2 = none → ∃ sd, (loadColl cfg g s db p).1.kids p = some sd ∧ sd.full = true) ∧
    (∀ sd, s.kids p = some sd → sd.full = true → loadColl cfg g s db p = (s, none)) := by
  unfold loadColl
  simp only
  refine ⟨?_, fun sd hk hf => by simp [ensureKids, hk, hf]⟩
  split
  · intro h; simp at h
  · rename_i sd hk
    by_cases hfull : sd.full = true
    · simp only [hfull, if_true]; intro _; exact ⟨sd, hk, hfull⟩
    · have hff : sd.full = false := by simpa using hfull
      simp only [hff, Bool.false_eq_true, if_false]
      split
      · intro h; simp at h
      · split
        · intro h; simp at h
        · intro _; exact ⟨_, upd_same _ _ _, rfl⟩

/-- an assignment changes `_vals_` of the assigned attribute only -/
theorem write_keeps (cfg : Cfg) (g : Bool) (s : Sess) (db : Db) (c0 : Nat) (a0 : Attr) (v : Val) (c : Nat) (a : Attr)
    (hne : ¬ (c = c0 ∧ a = a0)) : KeepsAt cfg c a s (exec cfg g s db (.write c0 a0 v)).1 := by
  simp only [exec]
  split
  · exact KeepsAt.refl cfg c a s
  · intro hpc
    by_cases hc : c = c0
    · subst hc
      have ha : a ≠ a0 := fun e => hne ⟨rfl, e⟩
      simp only [setC, upd_same]
      refine ⟨hpc, fun hr => ⟨?_, upd_other _ _ _ _ ha⟩⟩
      simpa [prot, upd_other _ _ _ _ ha] using hr
    · simp only [setC, upd_other _ _ _ _ hc]; exact ⟨hpc, fun hr => ⟨hr, by trivial⟩⟩

/-- EVERY reader operation except an assignment, against ANY committed database -/
theorem exec_frozen (cfg : Cfg) (g : Bool) (s : Sess) (db : Db) (op : Op) (hw : ∀ c a v, op ≠ .write c a v) :
    Frozen cfg s (exec cfg g s db op).1 := by
  cases op with
  | write c a v => exact absurd rfl (hw c a v)
  | commit =>
    simp only [exec]
    have h := commitAll_frozen cfg db s.toSave s
    split
    next s1 e heq => rw [heq] at h; exact h
    next s1 heq => rw [heq] at h; exact h
  | fetch ids cond cols =>
    simp only [exec]
    split
    next s1 x e heq => have hf := fetchRows_frozen' (cfg := cfg) heq; exact hf
    next s1 objs heq =>
      have hf := fetchRows_frozen' (cfg := cfg) heq
      exact hf.trans (setRbits_frozen cfg _ objs s1)
  | readAttr c a =>
    simp only [exec]
    have h := (readCore_spec cfg g s db c a).1
    split
    next s1 e heq => rw [heq] at h; exact h
    next s1 v heq => rw [heq] at h; exact h
  | loadObj c =>
    simp only [exec]
    split
    · exact Frozen.refl s
    · split
      next s1 x e heq => have hf := fetchRows_frozen' (cfg := cfg) heq; exact hf
      next s1 objs heq =>
        have hf := fetchRows_frozen' (cfg := cfg) heq
        split <;> exact hf
  | iter p =>
    simp only [exec]
    have h := loadColl_frozen cfg g s db p
    split
    next s1 e heq => rw [heq] at h; exact h
    next s1 heq =>
      rw [heq] at h
      split
      · exact h
      · exact h.trans (markItems_frozen cfg _ s1)
  | len p =>
    simp only [exec]
    have h := loadColl_frozen cfg g s db p
    split
    next s1 e heq => rw [heq] at h; exact h
    next s1 heq => rw [heq] at h; split <;> exact h
  | count p =>
    simp only [exec]
    split
    · exact Frozen.refl s
    · exact Frozen.of_c_eq rfl
  | isEmpty p =>
    simp only [exec]
    have h0 := ensureKids_frozen cfg s p
    have hsql : Frozen cfg s
        (match fetchRows g (nonLazy cfg) (ensureKids s p) ((db.filter (fun r => rowVal r refAttr == (p : Int))).take 1) with
          | (s1, _, some e) => (s1, Res.err e)
          | (s1, _, none) =>
            match s1.kids p with
            | none => (s1, Res.err Err.other)
            | some sd1 => if (!sd1.items.isEmpty) = true then (s1, Res.bool false) else (setKids s1 p ⟨sd1.items, true, some 0⟩, Res.bool true)).1 := by
      split
      next s1 x e heq => have hf := fetchRows_frozen' (cfg := cfg) heq; exact h0.trans hf
      next s1 x heq =>
        have hf := fetchRows_frozen' (cfg := cfg) heq
        split
        · exact h0.trans hf
        · split
          · exact h0.trans hf
          · exact (h0.trans hf).trans (Frozen.of_c_eq rfl)
    split
    · exact hsql
    · split
      · exact Frozen.refl s
      · split
        · exact Frozen.refl s
        · split
          · exact Frozen.refl s
          · exact hsql
  | contains p c =>
    simp only [exec]
    have h := (readCore_spec cfg g s db c refAttr).1
    split
    next s1 e heq => rw [heq] at h; exact h
    next s1 v heq => rw [heq] at h; exact h

theorem readFinish_kids (cfg : Cfg) (r : Sess × Option Err) (cid : Nat) (a : Attr) :
    (readFinish cfg r cid a).1.kids = r.1.kids := by
  obtain ⟨s1, oe⟩ := r
  unfold readFinish
  cases oe with
  | some e => rfl
  | none => simp only; split <;> rfl

theorem readCore_full (cfg : Cfg) (s : Sess) (db : Db) (cid : Nat) (a : Attr) :
    FullFrozen s (readCore cfg true s db cid a).1 := by
  unfold readCore
  split
  · exact FullFrozen.refl s
  · refine FullFrozen.trans ?_ (FullFrozen.of_kids_eq (readFinish_kids cfg _ cid a))
    unfold readLoad
    simp only
    split
    · exact FullFrozen.refl s
    · split
      · split
        · exact FullFrozen.refl s
        · split
          · exact FullFrozen.refl s
          · split
            · exact FullFrozen.refl s
            · split <;> exact FullFrozen.of_kids_eq rfl
      · split
        next s1 x e heq => have hf := fetchRows_full' heq; exact hf
        next s1 objs heq =>
          have hf := fetchRows_full' heq
          split <;> exact hf

/-- EVERY reader operation of the current code (guarded `db_reverse_remove`), against ANY committed database -/
theorem exec_full (cfg : Cfg) (s : Sess) (db : Db) (op : Op) : FullFrozen s (exec cfg true s db op).1 := by
  cases op with
  | write c a v =>
    simp only [exec]
    split
    · exact FullFrozen.refl s
    · exact FullFrozen.of_kids_eq rfl
  | commit =>
    simp only [exec]
    have h := commitAll_kids cfg db s.toSave s
    split
    next s1 e heq => rw [heq] at h; exact FullFrozen.of_kids_eq h
    next s1 heq => rw [heq] at h; exact FullFrozen.of_kids_eq h
  | fetch ids cond cols =>
    simp only [exec]
    split
    next s1 x e heq => have hf := fetchRows_full' heq; exact hf
    next s1 objs heq =>
      have hf := fetchRows_full' heq
      exact hf.trans (FullFrozen.of_kids_eq (setRbits_kids cfg _ objs s1))
  | readAttr c a =>
    simp only [exec]
    have h := readCore_full cfg s db c a
    split
    next s1 e heq => rw [heq] at h; exact h
    next s1 v heq => rw [heq] at h; exact h
  | loadObj c =>
    simp only [exec]
    split
    · exact FullFrozen.refl s
    · split
      next s1 x e heq => have hf := fetchRows_full' heq; exact hf
      next s1 objs heq =>
        have hf := fetchRows_full' heq
        split <;> exact hf
  | iter p =>
    simp only [exec]
    have h := loadColl_full cfg s db p
    split
    next s1 e heq => rw [heq] at h; exact h
    next s1 heq =>
      rw [heq] at h
      split
      · exact h
      · exact h.trans (FullFrozen.of_kids_eq (markItems_kids cfg _ s1))
  | len p =>
    simp only [exec]
    have h := loadColl_full cfg s db p
    split
    next s1 e heq => rw [heq] at h; exact h
    next s1 heq => rw [heq] at h; split <;> exact h
  | count p =>
    simp only [exec]
    split
    · exact FullFrozen.refl s
    · -- only `count` of p's SetData is written
      intro q sdq hq hfq
      by_cases hqp : q = p
      · subst hqp
        refine ⟨_, upd_same _ _ _, ?_, ?_⟩
        · simp [hq, hfq]
        · simp [hq]
      · exact ⟨sdq, by simp only [setKids, upd_other _ _ _ _ hqp]; exact hq, hfq, rfl⟩
  | isEmpty p =>
    simp only [exec]
    have h0 := ensureKids_full s p
    have hsql : (∀ sd0, s.kids p = some sd0 → sd0.full = false) → FullFrozen s
        (match fetchRows true (nonLazy cfg) (ensureKids s p) ((db.filter (fun r => rowVal r refAttr == (p : Int))).take 1) with
          | (s1, _, some e) => (s1, Res.err e)
          | (s1, _, none) =>
            match s1.kids p with
            | none => (s1, Res.err Err.other)
            | some sd1 => if (!sd1.items.isEmpty) = true then (s1, Res.bool false) else (setKids s1 p ⟨sd1.items, true, some 0⟩, Res.bool true)).1 := by
      intro hnf
      split
      next s1 x e heq => have hf := fetchRows_full' heq; exact h0.trans hf
      next s1 x heq =>
        have hf := fetchRows_full' heq
        split
        · exact h0.trans hf
        · split
          · exact h0.trans hf
          · exact FullFrozen.setKids_after p _ (h0.trans hf) hnf
    split
    · rename_i hk
      exact hsql (fun sd0 h => by rw [hk] at h; cases h)
    · rename_i sd hk
      split
      · exact FullFrozen.refl s
      · rename_i hnf
        split
        · exact FullFrozen.refl s
        · split
          · exact FullFrozen.refl s
          · exact hsql (fun sd0 h => by rw [hk] at h; cases h; simpa using hnf)
  | contains p c =>
    simp only [exec]
    have h := readCore_full cfg s db c refAttr
    split
    next s1 e heq => rw [heq] at h; exact h
    next s1 v heq => rw [heq] at h; exact h

/-- EVERY reader operation keeps attribute `a` of instance `c`, unless it is an assignment to exactly that attribute -/
theorem exec_keeps (cfg : Cfg) (g : Bool) (s : Sess) (db : Db) (op : Op) (c : Nat) (a : Attr)
    (hw : ∀ v, op ≠ .write c a v) : KeepsAt cfg c a s (exec cfg g s db op).1 := by
  by_cases h : ∃ c0 a0 v, op = .write c0 a0 v
  · obtain ⟨c0, a0, v, rfl⟩ := h
    exact write_keeps cfg g s db c0 a0 v c a (fun e => hw v (by rw [e.1, e.2]))
  · exact exec_frozen cfg g s db op (fun c0 a0 v e => h ⟨c0, a0, v, e⟩) c a

/-- the history contains no assignment to attribute `a` of instance `c` -/
def NoWrite (c : Nat) (a : Attr) (tr : List (Db × Op)) : Prop := ∀ x, x ∈ tr → ∀ v, x.2 ≠ .write c a v

theorem run_keeps (cfg : Cfg) (g : Bool) (c : Nat) (a : Attr) : ∀ (tr : List (Db × Op)) (s : Sess), NoWrite c a tr →
    KeepsAt cfg c a s (runS cfg g s tr)
  | [], s, _ => KeepsAt.refl cfg c a s
  | (db, op) :: rest, s, hn => by
    have h1 := exec_keeps cfg g s db op c a (hn (db, op) List.mem_cons_self)
    have h2 := run_keeps cfg g c a rest (exec cfg g s db op).1 (fun x hx => hn x (List.mem_cons_of_mem _ hx))
    simp only [runS, run] at h2 ⊢
    exact h1.trans h2

theorem run_full (cfg : Cfg) : ∀ (tr : List (Db × Op)) (s : Sess), FullFrozen s (runS cfg true s tr)
  | [], s => FullFrozen.refl s
  | (db, op) :: rest, s => by
    have h1 := exec_full cfg s db op
    have h2 := run_full cfg rest (exec cfg true s db op).1
    simp only [runS, run] at h2 ⊢
    exact h1.trans h2

end PonyVerif.Model.RepRead
