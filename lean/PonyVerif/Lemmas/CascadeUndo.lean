/-
  Lemmas/CascadeUndo.lean — the undo list of `_delete_`:
  * `deleteT_erase`: the procedures instrumented with the trail compute what the plain ones compute;
  * `deleteT_undo`: whatever happens (success, or failure at any depth), running the trail entries the call pushed, newest
    first, restores the store the call started from.
-/
import PonyVerif.Model.Cascade
namespace PonyVerif.Model.Cascade

/-! ## Inverses of the primitive updates -/

theorem undo_setRef {s : Store} {x : ObjId} {a : Attr} {u : Option ObjId} (h : s.ref x a = u) :
    (s.setRef x a none).setRef x a u = s := by
  cases s with
  | mk n ent alive ref mem =>
    simp only [Store.setRef] at h ⊢
    congr
    funext o' a'
    by_cases hc : o' = x ∧ a' = a
    · obtain ⟨rfl, rfl⟩ := hc; simp [h]
    · simp [hc]

theorem undo_setMem {s : Store} {o : ObjId} {c : Attr} {x : ObjId} (h : s.mem o c x = true) :
    (s.setMem o c x false).setMem o c x true = s := by
  cases s with
  | mk n ent alive ref mem =>
    simp only [Store.setMem] at h ⊢
    congr
    funext o' a' x'
    by_cases hc : o' = o ∧ a' = c ∧ x' = x
    · obtain ⟨rfl, rfl, rfl⟩ := hc; simp [h]
    · simp [hc]

theorem undo_clearRow' (s : Store) (o : ObjId) (c : Attr) : (s.clearRow o c).setRow o c (s.mem o c) = s := by
  cases s with
  | mk n ent alive ref mem =>
    simp only [Store.clearRow, Store.setRow]
    congr
    funext o' a' x'
    by_cases hc : o' = o ∧ a' = c
    · obtain ⟨rfl, rfl⟩ := hc; simp
    · simp [hc]

theorem undo_setAlive {s : Store} {o : ObjId} (h : s.alive o = true) : (s.setAlive o false).setAlive o true = s := by
  cases s with
  | mk n ent alive ref mem =>
    simp only [Store.setAlive] at h ⊢
    congr
    funext o'
    by_cases hc : o' = o
    · subst hc; simp [h]
    · simp [hc]

theorem undoAll_append (tr1 tr2 : List Undo) (s : Store) : undoAll (tr1 ++ tr2) s = undoAll tr2 (undoAll tr1 s) := by
  induction tr1 generalizing s with
  | nil => rfl
  | cons u us ih => simp [undoAll, ih]

/-! ## Restoring -/

/-- `t'` was reached from `t` by pushing entries whose replay, newest first, gives back the store of `t` -/
def Restores (t t' : T) : Prop := ∃ tr, t'.trail = tr ++ t.trail ∧ undoAll tr t'.store = t.store

theorem Restores.refl (t : T) : Restores t t := ⟨[], rfl, rfl⟩

theorem Restores.trans {t t1 t2 : T} (h1 : Restores t t1) (h2 : Restores t1 t2) : Restores t t2 := by
  obtain ⟨tr1, e1, u1⟩ := h1
  obtain ⟨tr2, e2, u2⟩ := h2
  exact ⟨tr2 ++ tr1, by rw [e2, e1, List.append_assoc], by rw [undoAll_append, u2, u1]⟩

/-- both outcomes restore -/
def GoodT (t : T) : RT → Prop
  | .ok t' => Restores t t'
  | .error (_, t') => Restores t t'

theorem GoodT.mono {t0 t : T} {r : RT} (h0 : Restores t0 t) (h : GoodT t r) : GoodT t0 r := by
  cases r with
  | ok t' => exact h0.trans h
  | error e => obtain ⟨e, t'⟩ := e; exact h0.trans h

theorem iterET_good {α : Type} {f : α → T → RT} (hf : ∀ x t, GoodT t (f x t)) : ∀ (xs : List α) (t : T), GoodT t (iterET f xs t) := by
  intro xs
  induction xs with
  | nil => intro t; exact Restores.refl t
  | cons x xs ih =>
    intro t
    simp only [iterET]
    have h1 := hf x t
    cases hr : f x t with
    | ok t1 =>
      rw [hr] at h1
      exact GoodT.mono h1 (ih t1)
    | error e =>
      rw [hr] at h1
      exact h1

theorem reverseRemove1T_good (c : Attr) (obj item : ObjId) (t : T) : GoodT t (reverseRemove1T c obj item t) := by
  unfold reverseRemove1T
  split
  · rename_i h
    exact ⟨[.memAdd obj c item], rfl, by simp [undoAll, undo1, undo_setMem h]⟩
  · exact Restores.refl t

theorem clearRefT_good (sch : Schema) (x : ObjId) (a : Attr) (t : T) : GoodT t (clearRefT sch x a t) := by
  unfold clearRefT
  split
  · exact Restores.refl t
  · split
    · split
      · exact Restores.refl t
      · split
        · exact Restores.refl t
        · rename_i u hu
          have h1 : Restores t ⟨t.store.setRef x a none, .ref x a (some u) :: t.trail⟩ :=
            ⟨[.ref x a (some u)], rfl, by simp [undoAll, undo1, undo_setRef hu]⟩
          simp only
          split
          · exact GoodT.mono h1 (reverseRemove1T_good _ _ _ _)
          · exact h1
    · exact Restores.refl t

theorem setCollEmptyT_good (sch : Schema) (o : ObjId) (c : Attr) (t : T) : GoodT t (setCollEmptyT sch o c t) := by
  unfold setCollEmptyT
  split
  · exact Restores.refl t
  · split
    · rename_i rd _
      simp only
      split
      · exact Restores.refl t
      · have hloop : GoodT t (if (!rd.isColl) = true then iterET (fun item => clearRefT sch item (sch.rev c)) (t.store.members o c) t
            else iterET (fun x => reverseRemove1T (sch.rev c) x o) (t.store.members o c) t) := by
          split
          · exact iterET_good (fun x t => clearRefT_good sch x _ t) _ _
          · exact iterET_good (fun x t => reverseRemove1T_good _ x o t) _ _
        split
        · rename_i t1 h1
          rw [h1] at hloop
          refine Restores.trans hloop ⟨[.row o c (t1.store.mem o c)], rfl, ?_⟩
          simp [undoAll, undo1, undo_clearRow']
        · rename_i e he
          rw [he] at hloop
          exact hloop
    · exact Restores.refl t

theorem collStepT_good (sch : Schema) {del : ObjId → T → RT} (hdel : ∀ x t, GoodT t (del x t)) (o : ObjId) (c : Attr) (t : T) :
    GoodT t (collStepT sch del o c t) := by
  unfold collStepT
  split
  · split
    · exact Restores.refl t
    · split
      · exact Restores.refl t
      · split
        · exact Restores.refl t
        · split
          · exact iterET_good hdel _ _
          · split
            · exact setCollEmptyT_good _ _ _ _
            · exact Restores.refl t
  · exact Restores.refl t

theorem refStepT_good (sch : Schema) (guard : Bool) {del : ObjId → T → RT} (hdel : ∀ x t, GoodT t (del x t)) (o : ObjId) (a : Attr) (t : T) :
    GoodT t (refStepT sch guard del o a t) := by
  unfold refStepT
  split
  · split
    · exact Restores.refl t
    · split
      · exact Restores.refl t
      · split
        · split
          · exact hdel _ _
          · split
            · split
              · exact Restores.refl t
              · split
                · exact clearRefT_good _ _ _ _
                · exact Restores.refl t
            · exact Restores.refl t
        · exact reverseRemove1T_good _ _ _ _
  · exact Restores.refl t

/-- The undo list is exact: whatever `_delete_` does — success, or failure at any depth of the cascade — replaying the entries it
    pushed, newest first, gives back the store it started from (both variants, every schema, class table and store). -/
theorem deleteT_undo (sch : Schema) (ct : ClassTable) (guard : Bool) : ∀ (fuel : Nat) (P : List ObjId) (o : ObjId) (t : T),
    GoodT t (deleteT sch ct guard fuel P o t) := by
  intro fuel
  induction fuel with
  | zero => intro P o t; exact Restores.refl t
  | succ fuel ih =>
    intro P o t
    simp only [deleteT]
    split
    · exact Restores.refl t
    · split
      · exact Restores.refl t
      · have h1 := iterET_good (f := collStepT sch (fun x t => deleteT sch ct guard fuel (o :: P) x t) o)
          (fun c t => collStepT_good sch (fun x t => ih (o :: P) x t) o c t) (ct (t.store.ent o)) t
        split
        · rename_i e he
          rw [he] at h1; exact h1
        · rename_i t1 ht1
          rw [ht1] at h1
          have h2 := iterET_good (f := refStepT sch guard (fun x t => deleteT sch ct guard fuel (o :: P) x t) o)
            (fun a t => refStepT_good sch guard (fun x t => ih (o :: P) x t) o a t) (ct (t.store.ent o)) t1
          split
          · rename_i e he
            rw [he] at h2; exact GoodT.mono h1 h2
          · rename_i t2 ht2
            rw [ht2] at h2
            have h12 : Restores t t2 := Restores.trans h1 h2
            split
            · exact h12
            · rename_i hal
              refine Restores.trans h12 ⟨[.alive o], rfl, ?_⟩
              simp [undoAll, undo1, undo_setAlive (by simpa using hal)]

/-! ## Erasure: the instrumented procedures compute what the plain ones compute -/

theorem iterET_erase {α : Type} {fT : α → T → RT} {f : α → Store → R} (h : ∀ x t, (fT x t).erase = f x t.store) :
    ∀ (xs : List α) (t : T), (iterET fT xs t).erase = iterE f xs t.store := by
  intro xs
  induction xs with
  | nil => intro t; rfl
  | cons x xs ih =>
    intro t
    simp only [iterET, iterE]
    have hx := h x t
    cases hr : fT x t with
    | ok t1 =>
      rw [hr] at hx
      simp only [RT.erase] at hx
      rw [← hx]
      exact ih t1
    | error e =>
      obtain ⟨e, t'⟩ := e
      rw [hr] at hx
      simp only [RT.erase] at hx
      rw [← hx]
      rfl

theorem reverseRemove1T_erase (c : Attr) (obj item : ObjId) (t : T) :
    (reverseRemove1T c obj item t).erase = reverseRemove1 c obj item t.store := by
  unfold reverseRemove1T reverseRemove1
  split <;> rfl

theorem clearRefT_erase (sch : Schema) (x : ObjId) (a : Attr) (t : T) : (clearRefT sch x a t).erase = clearRef sch x a t.store := by
  unfold clearRefT clearRef
  split
  · rfl
  · split
    · split
      · rfl
      · split
        · rfl
        · simp only
          split
          · exact reverseRemove1T_erase _ _ _ _
          · rfl
    · rfl

theorem setCollEmptyT_erase (sch : Schema) (o : ObjId) (c : Attr) (t : T) : (setCollEmptyT sch o c t).erase = setCollEmpty sch o c t.store := by
  unfold setCollEmptyT setCollEmpty
  split
  · rfl
  · split
    · rename_i rd _
      simp only
      split
      · rfl
      · have hloop : (if (!rd.isColl) = true then iterET (fun item => clearRefT sch item (sch.rev c)) (t.store.members o c) t
            else iterET (fun x => reverseRemove1T (sch.rev c) x o) (t.store.members o c) t).erase =
            (if (!rd.isColl) = true then iterE (fun item => clearRef sch item (sch.rev c)) (t.store.members o c) t.store
            else iterE (fun x => reverseRemove1 (sch.rev c) x o) (t.store.members o c) t.store) := by
          split
          · exact iterET_erase (fun x t => clearRefT_erase sch x _ t) _ _
          · exact iterET_erase (fun x t => reverseRemove1T_erase _ x o t) _ _
        rw [← hloop]
        split
        · rename_i t1 h1
          rw [h1]; rfl
        · rename_i e he
          obtain ⟨e, t'⟩ := e
          rw [he]; rfl
    · rfl

theorem collStepT_erase (sch : Schema) {delT : ObjId → T → RT} {del : ObjId → Store → R} (h : ∀ x t, (delT x t).erase = del x t.store)
    (o : ObjId) (c : Attr) (t : T) : (collStepT sch delT o c t).erase = collStep sch del o c t.store := by
  unfold collStepT collStep
  split
  · split
    · rfl
    · split
      · rfl
      · split
        · rfl
        · split
          · exact iterET_erase h _ _
          · split
            · exact setCollEmptyT_erase _ _ _ _
            · rfl
  · rfl

theorem refStepT_erase (sch : Schema) (guard : Bool) {delT : ObjId → T → RT} {del : ObjId → Store → R}
    (h : ∀ x t, (delT x t).erase = del x t.store) (o : ObjId) (a : Attr) (t : T) :
    (refStepT sch guard delT o a t).erase = refStep sch guard del o a t.store := by
  unfold refStepT refStep
  split
  · split
    · rfl
    · split
      · rfl
      · split
        · split
          · exact h _ _
          · split
            · split
              · rfl
              · split
                · exact clearRefT_erase _ _ _ _
                · rfl
            · rfl
        · exact reverseRemove1T_erase _ _ _ _
  · rfl

theorem deleteT_erase (sch : Schema) (ct : ClassTable) (guard : Bool) : ∀ (fuel : Nat) (P : List ObjId) (o : ObjId) (t : T),
    (deleteT sch ct guard fuel P o t).erase = delete sch ct guard fuel P o t.store := by
  intro fuel
  induction fuel with
  | zero => intro P o t; rfl
  | succ fuel ih =>
    intro P o t
    simp only [deleteT, delete]
    split
    · rfl
    · split
      · rfl
      · have h1 := iterET_erase (fT := collStepT sch (fun x t => deleteT sch ct guard fuel (o :: P) x t) o)
          (f := collStep sch (fun x s => delete sch ct guard fuel (o :: P) x s) o)
          (fun c t => collStepT_erase sch (fun x t => ih (o :: P) x t) o c t) (ct (t.store.ent o)) t
        rw [← h1]
        cases hc : iterET (collStepT sch (fun x t => deleteT sch ct guard fuel (o :: P) x t) o) (ct (t.store.ent o)) t with
        | error e => obtain ⟨e, t'⟩ := e; rfl
        | ok t1 =>
          simp only [RT.erase]
          have h2 := iterET_erase (fT := refStepT sch guard (fun x t => deleteT sch ct guard fuel (o :: P) x t) o)
            (f := refStep sch guard (fun x s => delete sch ct guard fuel (o :: P) x s) o)
            (fun a t => refStepT_erase sch guard (fun x t => ih (o :: P) x t) o a t) (ct (t.store.ent o)) t1
          rw [← h2]
          cases hc2 : iterET (refStepT sch guard (fun x t => deleteT sch ct guard fuel (o :: P) x t) o) (ct (t.store.ent o)) t1 with
          | error e => obtain ⟨e, t'⟩ := e; rfl
          | ok t2 =>
            by_cases hal : (!t2.store.alive o) = true
            · simp only [hal, if_true, RT.erase]
            · simp [hal, RT.erase]

end PonyVerif.Model.Cascade
