/-
  Lemmas for C33 (Model/Hooks.lean): the queue invariant, what hook operations can change, the trace contributed by each phase.
-/
import PonyVerif.Model.Hooks
namespace PonyVerif.Model.Hooks

/-- the invariant of the session cache between operations: an object is in `objects_to_save` iff its status is pending, at most
    once; only pending objects carry unwritten edits; `cache.modified` is set whenever something is queued -/
structure Inv (s : State) : Prop where
  mem_iff : ∀ o, some o ∈ s.queue ↔ ∃ k, s.kindAt o = some k
  nodup : (pendingList s).Nodup
  dirty : ∀ (o : Nat) (ob : Obj), s.objs[o]? = some ob → 0 < ob.dirty → ∃ k, kindOf ob.status = some k
  flag : ∀ o, some o ∈ s.queue → s.modified = true

theorem mem_pendingList (s : State) (o : Nat) : o ∈ pendingList s ↔ some o ∈ s.queue := by
  simp [pendingList, List.mem_filterMap]

theorem kindOf_savedStatus (k : Kind) : kindOf (savedStatus k) = none := by cases k <;> rfl

theorem kindAt_setObj (s : State) (o p : Nat) (ob : Obj) (ho : o < s.objs.length) :
    (s.setObj o ob).kindAt p = if p = o then kindOf ob.status else s.kindAt p := by
  unfold State.kindAt State.setObj
  by_cases h : p = o
  · subst h; simp [ho]
  · have h' : ¬ o = p := fun e => h e.symm
    simp [h, h']

theorem kindAt_trace (s : State) (t : List Event) (p : Nat) : ({ s with trace := t } : State).kindAt p = s.kindAt p := rfl

theorem Inv.of_same {s s' : State} (h : Inv s) (hq : s'.queue = s.queue) (ho : s'.objs = s.objs) (hm : s'.modified = s.modified) : Inv s' := by
  have hk : ∀ o, s'.kindAt o = s.kindAt o := by intro o; simp [State.kindAt, ho]
  refine ⟨?_, ?_, ?_, ?_⟩
  · intro o; rw [hq, hk]; exact h.mem_iff o
  · simp only [pendingList, hq]; exact h.nodup
  · intro o ob; rw [ho]; exact h.dirty o ob
  · intro o; rw [hq, hm]; exact h.flag o

/-- an operation that leaves the objects and the queue alone and can only SET `cache.modified` keeps the invariant -/
theorem Inv.of_frame {s s' : State} (h : Inv s) (hq : s'.queue = s.queue) (ho : s'.objs = s.objs)
    (hm : s.modified = true → s'.modified = true) : Inv s' := by
  have hk : ∀ o, s'.kindAt o = s.kindAt o := by intro o; simp [State.kindAt, ho]
  refine ⟨?_, ?_, ?_, ?_⟩
  · intro o; rw [hq, hk]; exact h.mem_iff o
  · simp only [pendingList, hq]; exact h.nodup
  · intro o ob; rw [ho]; exact h.dirty o ob
  · intro o ho'; rw [hq] at ho'; exact hm (h.flag o ho')

/-- a many-to-many change touches neither objects, queue, trace nor `saved_objects` -/
theorem applyLink_frame (s s' : State) (a b : Nat) (add : Bool) (h : applyLink s a b add = .ok s') :
    s'.trace = s.trace ∧ s'.saved = s.saved ∧ s'.queue = s.queue ∧ s'.objs = s.objs ∧ (s.modified = true → s'.modified = true) := by
  simp only [applyLink] at h
  repeat' split at h
  all_goals (cases h; try simp)

/-- assigning an attribute of an object that is not pending (loaded / inserted / updated): it becomes 'modified' and is queued -/
theorem modify_clean (s : State) (o : Nat) (ob : Obj) (hob : s.objs[o]? = some ob) (hnk : kindOf ob.status = none) :
    ({ (s.setObj o ⟨.modified, ob.dirty + 1⟩) with queue := s.queue ++ [some o], modified := true } : State).trace = s.trace ∧
    ({ (s.setObj o ⟨.modified, ob.dirty + 1⟩) with queue := s.queue ++ [some o], modified := true } : State).saved = s.saved ∧
    (∃ ext, ({ (s.setObj o ⟨.modified, ob.dirty + 1⟩) with queue := s.queue ++ [some o], modified := true } : State).queue = s.queue ++ ext) ∧
    (∀ p k, s.kindAt p = some k →
      ({ (s.setObj o ⟨.modified, ob.dirty + 1⟩) with queue := s.queue ++ [some o], modified := true } : State).kindAt p = some k) ∧
    (Inv s → Inv ({ (s.setObj o ⟨.modified, ob.dirty + 1⟩) with queue := s.queue ++ [some o], modified := true } : State)) := by
  have holt : o < s.objs.length := (List.getElem?_eq_some_iff.mp hob).1
  have hnone : s.kindAt o = none := by simp [State.kindAt, hob, hnk]
  have hk : ∀ p, ({ (s.setObj o ⟨.modified, ob.dirty + 1⟩) with queue := s.queue ++ [some o], modified := true } : State).kindAt p
      = if p = o then some .update else s.kindAt p := by
    intro p
    have := kindAt_setObj s o p ⟨.modified, ob.dirty + 1⟩ holt
    simpa [State.kindAt, kindOf] using this
  refine ⟨rfl, rfl, ⟨[some o], rfl⟩, ?_, ?_⟩
  · intro p k hpk
    rw [hk]
    by_cases hp : p = o
    · subst hp; rw [hnone] at hpk; cases hpk
    · simp [hp, hpk]
  · intro hinv
    refine ⟨?_, ?_, ?_, ?_⟩
    · intro p
      rw [hk]
      simp only [List.mem_append, List.mem_singleton, Option.some.injEq]
      by_cases hp : p = o
      · subst hp; simp
      · simp only [hp, if_false, or_false]; exact hinv.mem_iff p
    · simp only [pendingList, List.filterMap_append, List.filterMap_cons, id, List.filterMap_nil]
      rw [List.nodup_append]
      refine ⟨hinv.nodup, by simp, ?_⟩
      intro a ha b hb
      simp at hb; subst hb
      intro hab; subst hab
      have := (hinv.mem_iff a).mp ((mem_pendingList s _).mp ha)
      rw [hnone] at this; rcases this with ⟨k, hk'⟩; cases hk'
    · intro p pb hpb hd
      simp only [State.setObj, List.getElem?_set] at hpb
      by_cases hp : o = p
      · subst hp; simp [holt] at hpb; subst hpb; exact ⟨.update, rfl⟩
      · simp [hp] at hpb; exact hinv.dirty p pb hpb hd
    · intro p _; rfl

/-- assigning an attribute of an object that is already pending ('created' / 'modified'): only its values change -/
theorem modify_pending (s : State) (o : Nat) (ob ob' : Obj) (hob : s.objs[o]? = some ob) (hst : ob'.status = ob.status)
    (hpend : ∃ k, kindOf ob.status = some k) :
    (s.setObj o ob').trace = s.trace ∧ (s.setObj o ob').saved = s.saved ∧ (∃ ext, (s.setObj o ob').queue = s.queue ++ ext) ∧
    (∀ p k, s.kindAt p = some k → (s.setObj o ob').kindAt p = some k) ∧ (Inv s → Inv (s.setObj o ob')) := by
  have holt : o < s.objs.length := (List.getElem?_eq_some_iff.mp hob).1
  have hkat : s.kindAt o = kindOf ob.status := by simp [State.kindAt, hob]
  have hk : ∀ p, (s.setObj o ob').kindAt p = s.kindAt p := by
    intro p; rw [kindAt_setObj s o p _ holt]
    by_cases hp : p = o
    · subst hp; simp [hkat, hst]
    · simp [hp]
  refine ⟨rfl, rfl, ⟨[], by simp [State.setObj]⟩, fun p k hpk => by rw [hk]; exact hpk, ?_⟩
  intro hinv
  refine ⟨?_, hinv.nodup, ?_, hinv.flag⟩
  · intro p; rw [hk]; exact hinv.mem_iff p
  · intro p pb hpb hd
    simp only [State.setObj, List.getElem?_set] at hpb
    by_cases hp : o = p
    · subst hp; simp [holt] at hpb; subst hpb; rw [hst]; exact hpend
    · simp [hp] at hpb; exact hinv.dirty p pb hpb hd

/-- `obj.attr = value` -/
theorem applyModify_spec (s s' : State) (o : Nat) (h : applyModify s o = .ok s') :
    s'.trace = s.trace ∧ s'.saved = s.saved ∧ (∃ ext, s'.queue = s.queue ++ ext) ∧
    (∀ o k, s.kindAt o = some k → s'.kindAt o = some k) ∧ (Inv s → Inv s') := by
  simp only [applyModify] at h
  cases hob : s.objs[o]? with
  | none => simp [hob] at h
  | some ob =>
    have holt : o < s.objs.length := (List.getElem?_eq_some_iff.mp hob).1
    have hkat : s.kindAt o = kindOf ob.status := by simp [State.kindAt, hob]
    simp only [hob] at h
    cases hst : ob.status with
    | markedToDelete => simp [hst] at h
    | deleted => simp [hst] at h
    | created =>
      simp [hst] at h; subst h
      exact modify_pending s o ob _ hob (by simp [hst]) ⟨.insert, by simp [hst, kindOf]⟩
    | modified =>
      simp [hst] at h; subst h
      exact modify_pending s o ob _ hob (by simp [hst]) ⟨.update, by simp [hst, kindOf]⟩
    | loaded =>
      simp [hst] at h; subst h
      exact modify_clean s o ob hob (by simp [hst, kindOf])
    | inserted =>
      simp [hst] at h; subst h
      exact modify_clean s o ob hob (by simp [hst, kindOf])
    | updated =>
      simp [hst] at h; subst h
      exact modify_clean s o ob hob (by simp [hst, kindOf])


/-- storing a reference changes nothing the queue invariant, the trace or the link bookkeeping look at -/
theorem setRefs_frame (s : State) (o : Nat) (l : List Nat) :
    (s.setRefs o l).trace = s.trace ∧ (s.setRefs o l).saved = s.saved ∧ (s.setRefs o l).queue = s.queue ∧
    (s.setRefs o l).objs = s.objs ∧ (s.setRefs o l).modified = s.modified ∧ (s.setRefs o l).lk = s.lk := ⟨rfl, rfl, rfl, rfl, rfl, rfl⟩

theorem setRefs_spec (s : State) (o : Nat) (l : List Nat) :
    (∀ p, (s.setRefs o l).kindAt p = s.kindAt p) ∧ (Inv s → Inv (s.setRefs o l)) :=
  ⟨fun _ => rfl, fun h => h.of_same rfl rfl rfl⟩

/-- everything a hook operation can do -/
theorem applyOp_spec (s s' : State) (op : HOp) (h : applyOp s op = .ok s') :
    s'.trace = s.trace ∧ s'.saved = s.saved ∧ (∃ ext, s'.queue = s.queue ++ ext) ∧
    (∀ o k, s.kindAt o = some k → s'.kindAt o = some k) ∧ (Inv s → Inv s') := by
  cases op with
  | read o =>
    simp [applyOp] at h; subst h
    exact ⟨rfl, rfl, ⟨[], by simp⟩, fun _ _ h => h, fun h => h⟩
  | query =>
    simp [applyOp] at h; subst h
    exact ⟨rfl, rfl, ⟨[], by simp⟩, fun _ _ h => h, fun h => h⟩
  | create =>
    simp [applyOp] at h; subst h
    have hnone : s.kindAt s.objs.length = none := by simp [State.kindAt]
    have hk : ∀ p, ({ s with objs := s.objs ++ [⟨.created, 1⟩], queue := s.queue ++ [some s.objs.length], modified := true } : State).kindAt p
        = if p = s.objs.length then some .insert else s.kindAt p := by
      intro p
      unfold State.kindAt
      by_cases hp : p = s.objs.length
      · subst hp; simp [kindOf]
      · simp only [hp, if_false]
        by_cases hlt : p < s.objs.length
        · simp [List.getElem?_append_left hlt]
        · have : s.objs.length < p := by omega
          have h1 : (s.objs ++ [(⟨.created, 1⟩ : Obj)])[p]? = none := by
            apply List.getElem?_eq_none; simp; omega
          have h2 : s.objs[p]? = none := by apply List.getElem?_eq_none; omega
          simp [h1, h2]
    refine ⟨rfl, rfl, ⟨[some s.objs.length], rfl⟩, ?_, ?_⟩
    · intro o k hok
      rw [hk]
      by_cases hp : o = s.objs.length
      · subst hp; rw [hnone] at hok; cases hok
      · simp [hp, hok]
    · intro hinv
      refine ⟨?_, ?_, ?_, ?_⟩
      · intro o
        rw [hk]
        simp only [List.mem_append, List.mem_singleton, Option.some.injEq]
        by_cases hp : o = s.objs.length
        · subst hp; simp
        · simp only [hp, if_false, or_false]; exact hinv.mem_iff o
      · simp only [pendingList, List.filterMap_append, List.filterMap_cons, id, List.filterMap_nil]
        rw [List.nodup_append]
        refine ⟨hinv.nodup, by simp, ?_⟩
        intro a ha b hb
        simp at hb; subst hb
        intro hab; subst hab
        have := (hinv.mem_iff s.objs.length).mp ((mem_pendingList s _).mp ha)
        rw [hnone] at this; rcases this with ⟨k, hk'⟩; cases hk'
      · intro o ob hob hd
        by_cases hlt : o < s.objs.length
        · rw [List.getElem?_append_left hlt] at hob; exact hinv.dirty o ob hob hd
        · by_cases he : o = s.objs.length
          · subst he; simp at hob; subst hob; exact ⟨.insert, rfl⟩
          · have h1 : (s.objs ++ [(⟨.created, 1⟩ : Obj)])[o]? = none := by
              apply List.getElem?_eq_none; simp; omega
            rw [h1] at hob; cases hob
      · intro o _; rfl
  | link a b =>
    obtain ⟨t, v, q, o, m⟩ := applyLink_frame s s' a b true h
    have hk : ∀ p, s'.kindAt p = s.kindAt p := by intro p; simp [State.kindAt, o]
    exact ⟨t, v, ⟨[], by simp [q]⟩, fun p k hp => by rw [hk]; exact hp, fun hi => hi.of_frame q o m⟩
  | unlink a b =>
    obtain ⟨t, v, q, o, m⟩ := applyLink_frame s s' a b false h
    have hk : ∀ p, s'.kindAt p = s.kindAt p := by intro p; simp [State.kindAt, o]
    exact ⟨t, v, ⟨[], by simp [q]⟩, fun p k hp => by rw [hk]; exact hp, fun hi => hi.of_frame q o m⟩
  | linkNewOwner b =>
    obtain ⟨t, v, q, o, m⟩ := applyLink_frame s s' _ b true h
    have hk : ∀ p, s'.kindAt p = s.kindAt p := by intro p; simp [State.kindAt, o]
    exact ⟨t, v, ⟨[], by simp [q]⟩, fun p k hp => by rw [hk]; exact hp, fun hi => hi.of_frame q o m⟩
  | linkNewItem a =>
    obtain ⟨t, v, q, o, m⟩ := applyLink_frame s s' a _ true h
    have hk : ∀ p, s'.kindAt p = s.kindAt p := by intro p; simp [State.kindAt, o]
    exact ⟨t, v, ⟨[], by simp [q]⟩, fun p k hp => by rw [hk]; exact hp, fun hi => hi.of_frame q o m⟩
  | modify o => exact applyModify_spec s s' o h
  | refNewTo g =>
    simp only [applyOp] at h; injection h with h; subst h
    exact ⟨rfl, rfl, ⟨[], by simp [State.setRefs]⟩, fun p k hp => hp, fun hi => hi.of_same rfl rfl rfl⟩
  | setRef i g =>
    simp only [applyOp] at h
    cases hm : applyModify s i with
    | error e => simp [hm] at h
    | ok s1 =>
      simp only [hm] at h; injection h with h; subst h
      obtain ⟨t, v, q, kk, ii⟩ := applyModify_spec s s1 i hm
      exact ⟨t, v, q, kk, fun hi => (ii hi).of_same rfl rfl rfl⟩
  | refToNew i =>
    simp only [applyOp] at h
    cases hm : applyModify s i with
    | error e => simp [hm] at h
    | ok s1 =>
      simp only [hm] at h; injection h with h; subst h
      obtain ⟨t, v, q, kk, ii⟩ := applyModify_spec s s1 i hm
      exact ⟨t, v, q, kk, fun hi => (ii hi).of_same rfl rfl rfl⟩

/-- a whole hook body -/
theorem runOps_spec (ops : List HOp) : ∀ (s s' : State), runOps ops s = .ok s' →
    s'.trace = s.trace ∧ s'.saved = s.saved ∧ (∃ ext, s'.queue = s.queue ++ ext) ∧
    (∀ o k, s.kindAt o = some k → s'.kindAt o = some k) ∧ (Inv s → Inv s') := by
  induction ops with
  | nil => intro s s' h; simp [runOps] at h; subst h; exact ⟨rfl, rfl, ⟨[], by simp⟩, fun _ _ h => h, fun h => h⟩
  | cons op rest ih =>
    intro s s' h
    simp only [runOps] at h
    cases ha : applyOp s op with
    | error e => simp [ha] at h
    | ok s1 =>
      simp only [ha] at h
      obtain ⟨t1, v1, ⟨e1, q1⟩, k1, i1⟩ := applyOp_spec s s1 op ha
      obtain ⟨t2, v2, ⟨e2, q2⟩, k2, i2⟩ := ih s1 s' h
      exact ⟨t2.trans t1, v2.trans v1, ⟨e1 ++ e2, by rw [q2, q1, List.append_assoc]⟩,
             fun o k hk => k2 o k (k1 o k hk), fun hi => i2 (i1 hi)⟩

/-- the (kind, object) pairs of the queued objects of a list of queue slots -/
def keysOf (s : State) (l : List (Option Nat)) : List (Kind × Nat) :=
  l.filterMap (fun e => match e with
    | some o => (s.kindAt o).map (fun k => (k, o))
    | none => none)

def keysL (s : State) (l : List Nat) : List (Kind × Nat) := l.filterMap (fun o => (s.kindAt o).map (fun k => (k, o)))

def evB (p : Kind × Nat) : Event := .before p.1 p.2
def evS (p : Kind × Nat) : Event := .stmt p.1 p.2
def evA (p : Kind × Nat) : Event := .after p.1 p.2

theorem keysOf_eq_keysL (s : State) (l : List (Option Nat)) : keysOf s l = keysL s (l.filterMap id) := by
  induction l with
  | nil => rfl
  | cons e rest ih =>
    cases e with
    | none => simpa [keysOf, keysL] using ih
    | some o =>
      simp only [keysOf, keysL, List.filterMap_cons, id] at ih ⊢
      cases s.kindAt o <;> simp [ih]

theorem drop_cons_of_getElem? {α : Type} (l : List α) (i : Nat) (a : α) (h : l[i]? = some a) : l.drop i = a :: l.drop (i + 1) := by
  obtain ⟨hl, ha⟩ := List.getElem?_eq_some_iff.mp h
  rw [List.drop_eq_getElem_cons hl, ha]

/-- the before-hooks loop: from slot `i` on it enters the hook of EVERY queued object of the FINAL queue — those queued at the start
    and those queued by hooks meanwhile — once each, in queue order; nothing else is appended to the trace -/
theorem beforeLoop_spec (H : Hooks) : ∀ (fuel i : Nat) (s s' : State), Inv s → beforeLoop H fuel i s = .ok s' →
    Inv s' ∧ s'.saved = s.saved ∧ (∃ ext, s'.queue = s.queue ++ ext) ∧
    (∀ o k, s.kindAt o = some k → s'.kindAt o = some k) ∧
    s'.trace = s.trace ++ (keysOf s' (s'.queue.drop i)).map evB := by
  intro fuel
  induction fuel with
  | zero => intro i s s' _ h; simp [beforeLoop] at h
  | succ fuel ih =>
    intro i s s' hinv h
    simp only [beforeLoop] at h
    cases hq : s.queue[i]? with
    | none =>
      simp only [hq] at h
      injection h with h; subst h
      have : s.queue.length ≤ i := by
        rcases Nat.lt_or_ge i s.queue.length with hlt | hge
        · rw [List.getElem?_eq_getElem hlt] at hq; cases hq
        · exact hge
      refine ⟨hinv, rfl, ⟨[], by simp⟩, fun _ _ h => h, ?_⟩
      rw [List.drop_eq_nil_of_le this]; simp [keysOf]
    | some e =>
      cases e with
      | none =>
        simp only [hq] at h
        obtain ⟨i1, v1, ⟨ext, q1⟩, k1, t1⟩ := ih (i + 1) s s' hinv h
        refine ⟨i1, v1, ⟨ext, q1⟩, k1, ?_⟩
        have hq' : s'.queue[i]? = some none := by
          rw [q1]; rw [List.getElem?_append_left (List.getElem?_eq_some_iff.mp hq).1]; exact hq
        rw [t1, drop_cons_of_getElem? _ _ _ hq']
        simp [keysOf]
      | some o =>
        simp only [hq] at h
        have hmem : some o ∈ s.queue := List.mem_of_getElem? hq
        obtain ⟨k, hk⟩ := (hinv.mem_iff o).mp hmem
        simp only [hk] at h
        cases hr : runOps (H.before k { s with trace := s.trace ++ [Event.before k o] } o) { s with trace := s.trace ++ [Event.before k o] } with
        | error e => simp [hr] at h
        | ok s2 =>
          simp only [hr] at h
          have hinv1 : Inv ({ s with trace := s.trace ++ [Event.before k o] } : State) := hinv.of_same rfl rfl rfl
          obtain ⟨t2, v2, ⟨e2, q2⟩, k2, i2⟩ := runOps_spec _ _ _ hr
          obtain ⟨i3, v3, ⟨e3, q3⟩, k3, t3⟩ := ih (i + 1) s2 s' (i2 hinv1) h
          have hq2 : s2.queue = s.queue ++ e2 := q2
          refine ⟨i3, v3.trans v2, ⟨e2 ++ e3, by rw [q3, hq2, List.append_assoc]⟩, fun p kk hp => k3 p kk (k2 p kk hp), ?_⟩
          have hq' : s'.queue[i]? = some (some o) := by
            rw [q3, hq2, List.append_assoc, List.getElem?_append_left (List.getElem?_eq_some_iff.mp hq).1]; exact hq
          have hk' : s'.kindAt o = some k := k3 o k (k2 o k hk)
          rw [t3, t2, drop_cons_of_getElem? _ _ _ hq']
          simp [keysOf, hk', evB]

theorem filterMap_congr' {α β : Type} (f g : α → Option β) (l : List α) (h : ∀ a ∈ l, f a = g a) : l.filterMap f = l.filterMap g := by
  induction l with
  | nil => rfl
  | cons a r ih =>
    have ha := h a (List.mem_cons_self ..)
    have hr := ih (fun b hb => h b (List.mem_cons_of_mem _ hb))
    simp [List.filterMap_cons, ha, hr]

/-- statements: every object of a duplicate-free list of pending objects is written once, in list order; afterwards it is clean
    and not pending; nothing else is touched -/
theorem saveAll_spec : ∀ (l : List Nat) (s : State), l.Nodup → (∀ o ∈ l, ∃ k, s.kindAt o = some k) →
    ∃ s', saveAll l s = .ok s' ∧ s'.queue = s.queue ∧ s'.modified = s.modified ∧
      s'.trace = s.trace ++ (keysL s l).map evS ∧ s'.saved = s.saved ++ (keysL s l).map (fun p => (p.2, p.1)) ∧
      s'.objs.length = s.objs.length ∧
      (∀ p, p ∈ l → ∃ ob, s'.objs[p]? = some ob ∧ kindOf ob.status = none ∧ ob.dirty = 0) ∧
      (∀ p, p ∉ l → s'.objs[p]? = s.objs[p]?) := by
  intro l
  induction l with
  | nil => intro s _ _; exact ⟨s, rfl, rfl, rfl, by simp [keysL], by simp [keysL], rfl, by simp, by simp⟩
  | cons o rest ih =>
    intro s hnd hpend
    obtain ⟨k, hk⟩ := hpend o (List.mem_cons_self ..)
    have hno : o ∉ rest := (List.nodup_cons.mp hnd).1
    have hndr : rest.Nodup := (List.nodup_cons.mp hnd).2
    cases hob : s.objs[o]? with
    | none => simp [State.kindAt, hob] at hk
    | some ob =>
      have hko : kindOf ob.status = some k := by simpa [State.kindAt, hob] using hk
      have holt : o < s.objs.length := (List.getElem?_eq_some_iff.mp hob).1
      have hone : saveOne s o = .ok { (s.setObj o ⟨savedStatus k, 0⟩) with trace := s.trace ++ [.stmt k o], saved := s.saved ++ [(o, k)] } := by
        simp [saveOne, hob, hko]
      generalize hs1 : ({ (s.setObj o ⟨savedStatus k, 0⟩) with trace := s.trace ++ [.stmt k o], saved := s.saved ++ [(o, k)] } : State) = s1 at hone
      have hobjs1 : s1.objs = s.objs.set o ⟨savedStatus k, 0⟩ := by subst hs1; rfl
      have hkat1 : ∀ p, p ≠ o → s1.kindAt p = s.kindAt p := by
        intro p hp
        have hp' : ¬ o = p := fun e => hp e.symm
        simp [State.kindAt, hobjs1, hp']
      have hpend1 : ∀ p ∈ rest, ∃ k, s1.kindAt p = some k := by
        intro p hp
        have hpo : p ≠ o := fun e => hno (e ▸ hp)
        rw [hkat1 p hpo]; exact hpend p (List.mem_cons_of_mem _ hp)
      obtain ⟨s', hsave, hq, hm, ht, hsv, hlen, hin, hout⟩ := ih s1 hndr hpend1
      have hkeys : keysL s1 rest = keysL s rest := by
        unfold keysL
        apply filterMap_congr'
        intro p hp
        have hpo : p ≠ o := fun e => hno (e ▸ hp)
        rw [hkat1 p hpo]
      refine ⟨s', by simp [saveAll, hone, hsave], ?_, ?_, ?_, ?_, ?_, ?_, ?_⟩
      · rw [hq]; subst hs1; rfl
      · rw [hm]; subst hs1; rfl
      · rw [ht, hkeys]; subst hs1; simp [keysL, hk, evS]
      · rw [hsv, hkeys]; subst hs1; simp [keysL, hk]
      · rw [hlen, hobjs1]; simp
      · intro p hp
        rcases List.mem_cons.mp hp with rfl | hp
        · rw [hout p hno, hobjs1]
          exact ⟨⟨savedStatus k, 0⟩, by simp [holt], kindOf_savedStatus k, rfl⟩
        · exact hin p hp
      · intro p hp
        have hpo : ¬ p = o := fun e => hp (e ▸ List.mem_cons_self ..)
        have hpr : p ∉ rest := fun e => hp (List.mem_cons_of_mem _ e)
        have hpo' : ¬ o = p := fun e => hpo e.symm
        rw [hout p hpr, hobjs1]; simp [hpo']

/-- the after-hooks loop: one `after` event per entry of `saved_objects`, in order -/
theorem afterLoop_spec (H : Hooks) : ∀ (sv : List (Nat × Kind)) (s s' : State), Inv s → afterLoop H sv s = .ok s' →
    Inv s' ∧ s'.saved = s.saved ∧ s'.trace = s.trace ++ sv.map (fun p => Event.after p.2 p.1) := by
  intro sv
  induction sv with
  | nil => intro s s' hinv h; simp [afterLoop] at h; subst h; exact ⟨hinv, rfl, by simp⟩
  | cons p rest ih =>
    intro s s' hinv h
    obtain ⟨o, k⟩ := p
    simp only [afterLoop] at h
    cases hr : runOps (H.after k { s with trace := s.trace ++ [Event.after k o] } o) { s with trace := s.trace ++ [Event.after k o] } with
    | error e => simp [hr] at h
    | ok s2 =>
      simp only [hr] at h
      have hinv1 : Inv ({ s with trace := s.trace ++ [Event.after k o] } : State) := hinv.of_same rfl rfl rfl
      obtain ⟨t2, v2, _, _, i2⟩ := runOps_spec _ _ _ hr
      obtain ⟨i3, v3, t3⟩ := ih s2 s' (i2 hinv1) h
      refine ⟨i3, v3.trans v2, ?_⟩
      rw [t3, t2]; simp

def evLD (p : Nat × Nat) : Event := .linkDel p.1 p.2
def evLI (p : Nat × Nat) : Event := .linkIns p.1 p.2

/-- the trace of one complete round: the before-hooks of a duplicate-free list Q of queued objects, the deletions of the removed
    many-to-many link rows R, one statement per object of Q (in the save order S, a permutation of Q), the insertions of the added
    link rows A, then the after-hooks in the order of the statements -/
def RoundShape (seg : List Event) : Prop :=
  ∃ (Q S : List (Kind × Nat)) (R A : List (Nat × Nat)), (Q.map Prod.snd).Nodup ∧ S.Perm Q ∧
    seg = Q.map evB ++ R.map evLD ++ S.map evS ++ A.map evLI ++ S.map evA

theorem saveOne_lk (s s' : State) (o : Nat) (h : saveOne s o = .ok s') : s'.lk = s.lk := by
  simp only [saveOne] at h
  repeat' split at h
  all_goals (cases h; try rfl)

theorem saveAll_lk : ∀ (l : List Nat) (s s' : State), saveAll l s = .ok s' → s'.lk = s.lk := by
  intro l
  induction l with
  | nil => intro s s' h; simp [saveAll] at h; subst h; rfl
  | cons o rest ih =>
    intro s s' h
    simp only [saveAll] at h
    cases h1 : saveOne s o with
    | error e => simp [h1] at h
    | ok s1 => simp only [h1] at h; rw [ih s1 s' h, saveOne_lk s s1 o h1]

theorem keysL_snd (s : State) (l : List Nat) (h : ∀ o ∈ l, ∃ k, s.kindAt o = some k) : (keysL s l).map Prod.snd = l := by
  induction l with
  | nil => rfl
  | cons o rest ih =>
    obtain ⟨k, hk⟩ := h o (List.mem_cons_self ..)
    have := ih (fun p hp => h p (List.mem_cons_of_mem _ hp))
    simp only [keysL, List.filterMap_cons, hk, Option.map_some, List.map_cons] at this ⊢
    rw [this]

/-- after the save loop of a round nothing is pending and nothing is dirty: every change made before the flush or inside the
    before-hooks of this round has been written by this round's statements -/
theorem savePhase_spec (ord : List Nat → List Nat) (hperm : ∀ l, (ord l).Perm l) (s1 : State) (hinv : Inv s1) :
    ∃ s2, savePhase ord s1 = .ok s2 ∧ s2.queue = s1.queue ∧
      s2.trace = s1.trace ++ (keysL s1 (ord (pendingList s1))).map evS ∧
      s2.saved = s1.saved ++ (keysL s1 (ord (pendingList s1))).map (fun p => (p.2, p.1)) ∧
      (∀ p, s2.kindAt p = none) ∧ (∀ (p : Nat) (ob : Obj), s2.objs[p]? = some ob → ob.dirty = 0) := by
  have hpl : ∀ o, o ∈ ord (pendingList s1) ↔ o ∈ pendingList s1 := fun o => (hperm _).mem_iff
  have hnd : (ord (pendingList s1)).Nodup := (hperm _).nodup_iff.mpr hinv.nodup
  have hpend : ∀ o ∈ ord (pendingList s1), ∃ k, s1.kindAt o = some k := by
    intro o ho
    exact (hinv.mem_iff o).mp ((mem_pendingList s1 o).mp ((hpl o).mp ho))
  obtain ⟨s2, hsave, hq, _, ht, hsv, _, hin, hout⟩ := saveAll_spec _ s1 hnd hpend
  refine ⟨s2, hsave, hq, ht, hsv, ?_, ?_⟩
  · intro p
    by_cases hp : p ∈ ord (pendingList s1)
    · obtain ⟨ob, hob, hk, _⟩ := hin p hp
      simp [State.kindAt, hob, hk]
    · have h1 : s2.objs[p]? = s1.objs[p]? := hout p hp
      have h2 : s1.kindAt p = none := by
        cases hk : s1.kindAt p with
        | none => rfl
        | some k =>
          exact absurd ((hpl p).mpr ((mem_pendingList s1 p).mpr ((hinv.mem_iff p).mpr ⟨k, hk⟩))) hp
      simpa [State.kindAt, h1] using h2
  · intro p ob hob
    by_cases hp : p ∈ ord (pendingList s1)
    · obtain ⟨ob', hob', _, hd⟩ := hin p hp
      rw [hob] at hob'; injection hob' with e; rw [e]; exact hd
    · rw [hout p hp] at hob
      rcases Nat.eq_zero_or_pos ob.dirty with h0 | hpos
      · exact h0
      · obtain ⟨k, hk⟩ := hinv.dirty p ob hob hpos
        have : s1.kindAt p = some k := by simp [State.kindAt, hob, hk]
        exact absurd ((hpl p).mpr ((mem_pendingList s1 p).mpr ((hinv.mem_iff p).mpr ⟨k, this⟩))) hp

theorem round_spec (H : Hooks) (ord : List Nat → List Nat) (bfuel : Nat) (s s' : State) (hinv : Inv s) (hsv : s.saved = [])
    (hperm : ∀ l, (ord l).Perm l) (h : round H ord bfuel s = .ok s') :
    Inv s' ∧ s'.saved = [] ∧ ∃ seg, RoundShape seg ∧ s'.trace = s.trace ++ seg := by
  simp only [round] at h
  cases hb : beforeLoop H bfuel 0 s with
  | error e => simp [hb] at h
  | ok s1 =>
    simp only [hb] at h
    obtain ⟨hinv1, hsv1, _, _, ht1⟩ := beforeLoop_spec H bfuel 0 s s1 hinv hb
    have hinvc : Inv (calcAndRemoveM2m s1) := hinv1.of_same rfl rfl rfl
    obtain ⟨s2, hsave, hq2, ht2, hsv2, hk2, hd2⟩ := savePhase_spec ord hperm (calcAndRemoveM2m s1) hinvc
    have hlk2 : s2.lk = (calcAndRemoveM2m s1).lk := saveAll_lk _ _ _ hsave
    simp only [hsave] at h
    have hinv3 : Inv ({ (addM2m s2) with queue := [], modified := false, saved := [] } : State) := by
      refine ⟨?_, by simp [pendingList], ?_, by simp⟩
      · intro o
        have : ({ (addM2m s2) with queue := [], modified := false, saved := [] } : State).kindAt o = none := hk2 o
        simp [this]
      · intro p ob hob hpos
        have := hd2 p ob hob
        omega
    simp only [afterPhase] at h
    obtain ⟨hinv', hsv', ht'⟩ := afterLoop_spec H _ _ s' hinv3 h
    refine ⟨hinv', hsv', ?_⟩
    have hpendAll : ∀ o ∈ pendingList s1, ∃ k, s1.kindAt o = some k :=
      fun o ho => (hinv1.mem_iff o).mp ((mem_pendingList s1 o).mp ho)
    refine ⟨_, ⟨keysL s1 (pendingList s1), keysL s1 (ord (pendingList s1)), s1.lk.pendRem, s1.lk.pendAdd, ?_, ?_, rfl⟩, ?_⟩
    · rw [keysL_snd s1 _ hpendAll]; exact hinv1.nodup
    · exact (hperm _).filterMap _
    · rw [ht']
      have e1 : (addM2m s2).trace = s2.trace ++ s2.lk.m2mAdd.map evLI := rfl
      have e2 : (addM2m s2).saved = s2.saved := rfl
      have e3 : (calcAndRemoveM2m s1).trace = s1.trace ++ s1.lk.pendRem.map evLD := rfl
      have e4 : (calcAndRemoveM2m s1).lk.m2mAdd = s1.lk.pendAdd := rfl
      have e5 : (calcAndRemoveM2m s1).saved = s1.saved := rfl
      have e6 : keysL (calcAndRemoveM2m s1) (ord (pendingList (calcAndRemoveM2m s1))) = keysL s1 (ord (pendingList s1)) := rfl
      simp only [e1, e2, ht2, e3, hlk2, e4, hsv2, e5, e6, ht1, hsv1, hsv, List.drop_zero, keysOf_eq_keysL, List.nil_append,
                 List.map_map, List.append_assoc]
      rfl

def Err.isLimit : Err → Bool
  | .limit _ => true
  | _ => false

theorem applyModify_no_limit (s : State) (o : Nat) (e : Err) (h : applyModify s o = .error e) : e.isLimit = false := by
  simp only [applyModify] at h
  cases hob : s.objs[o]? with
  | none => simp [hob] at h; subst h; rfl
  | some ob =>
    simp only [hob] at h
    cases hst : ob.status <;> simp [hst] at h <;> (subst h; rfl)

theorem applyOp_no_limit (s : State) (op : HOp) (e : Err) (h : applyOp s op = .error e) : e.isLimit = false := by
  cases op with
  | read o => simp [applyOp] at h
  | query => simp [applyOp] at h
  | create => simp [applyOp] at h
  | link a b =>
    simp only [applyOp, applyLink] at h
    repeat' split at h
    all_goals (cases h; try rfl)
  | unlink a b =>
    simp only [applyOp, applyLink] at h
    repeat' split at h
    all_goals (cases h; try rfl)
  | linkNewOwner b =>
    simp only [applyOp, applyLink] at h
    repeat' split at h
    all_goals (cases h; try rfl)
  | linkNewItem a =>
    simp only [applyOp, applyLink] at h
    repeat' split at h
    all_goals (cases h; try rfl)
  | modify o => exact applyModify_no_limit s o e h
  | refNewTo g => simp [applyOp] at h
  | setRef i g =>
    simp only [applyOp] at h
    cases hm : applyModify s i with
    | error e1 => simp [hm] at h; subst h; exact applyModify_no_limit s i e1 hm
    | ok s1 => simp [hm] at h
  | refToNew i =>
    simp only [applyOp] at h
    cases hm : applyModify s i with
    | error e1 => simp [hm] at h; subst h; exact applyModify_no_limit s i e1 hm
    | ok s1 => simp [hm] at h

theorem runOps_no_limit (ops : List HOp) : ∀ (s : State) (e : Err), runOps ops s = .error e → e.isLimit = false := by
  induction ops with
  | nil => intro s e h; simp [runOps] at h
  | cons op rest ih =>
    intro s e h
    simp only [runOps] at h
    cases ha : applyOp s op with
    | error e1 => simp [ha] at h; subst h; exact applyOp_no_limit s op e1 ha
    | ok s1 => simp only [ha] at h; exact ih s1 e h

theorem beforeLoop_no_limit (H : Hooks) : ∀ (fuel i : Nat) (s : State) (e : Err), beforeLoop H fuel i s = .error e → e.isLimit = false := by
  intro fuel
  induction fuel with
  | zero => intro i s e h; simp [beforeLoop] at h; subst h; rfl
  | succ fuel ih =>
    intro i s e h
    simp only [beforeLoop] at h
    cases hq : s.queue[i]? with
    | none => simp [hq] at h
    | some x =>
      cases x with
      | none => simp only [hq] at h; exact ih _ _ _ h
      | some o =>
        simp only [hq] at h
        cases hk : s.kindAt o with
        | none => simp only [hk] at h; exact ih _ _ _ h
        | some k =>
          simp only [hk] at h
          cases hr : runOps (H.before k { s with trace := s.trace ++ [Event.before k o] } o) { s with trace := s.trace ++ [Event.before k o] } with
          | error e1 => simp [hr] at h; subst h; exact runOps_no_limit _ _ _ hr
          | ok s2 => simp only [hr] at h; exact ih _ _ _ h

theorem afterLoop_no_limit (H : Hooks) : ∀ (sv : List (Nat × Kind)) (s : State) (e : Err), afterLoop H sv s = .error e → e.isLimit = false := by
  intro sv
  induction sv with
  | nil => intro s e h; simp [afterLoop] at h
  | cons p rest ih =>
    intro s e h
    obtain ⟨o, k⟩ := p
    simp only [afterLoop] at h
    cases hr : runOps (H.after k { s with trace := s.trace ++ [Event.after k o] } o) { s with trace := s.trace ++ [Event.after k o] } with
    | error e1 => simp [hr] at h; subst h; exact runOps_no_limit _ _ _ hr
    | ok s2 => simp only [hr] at h; exact ih _ _ h

/-- the whole trace of a flush: a sequence of complete rounds -/
def RoundsShape (t : List Event) (n : Nat) : Prop :=
  ∃ segs : List (List Event), segs.length = n ∧ t = segs.flatten ∧ ∀ seg ∈ segs, RoundShape seg

theorem flushLoop_spec (H : Hooks) (ord : Nat → List Nat → List Nat) (bfuel : Nat) (hperm : ∀ r l, (ord r l).Perm l) :
    ∀ (n : Nat) (s : State), Inv s → s.saved = [] →
      (∀ s', flushLoop H ord bfuel n s = .ok s' →
         Inv s' ∧ s'.saved = [] ∧ s'.modified = false ∧ ∃ t m, m ≤ n ∧ RoundsShape t m ∧ s'.trace = s.trace ++ t) ∧
      (∀ s', flushLoop H ord bfuel n s = .error (.limit s') →
         Inv s' ∧ s'.modified = true ∧ ∃ t, RoundsShape t n ∧ s'.trace = s.trace ++ t) := by
  intro n
  induction n with
  | zero =>
    intro s hinv hsv
    constructor
    · intro s' h
      simp only [flushLoop] at h
      by_cases hm : s.modified = true
      · simp [hm] at h
      · simp [hm] at h; subst h
        exact ⟨hinv, hsv, by simpa using hm, [], 0, Nat.le_refl _, ⟨[], rfl, rfl, by simp⟩, by simp⟩
    · intro s' h
      simp only [flushLoop] at h
      by_cases hm : s.modified = true
      · simp [hm] at h; subst h
        exact ⟨hinv, hm, [], ⟨[], rfl, rfl, by simp⟩, by simp⟩
      · simp [hm] at h
  | succ n ih =>
    intro s hinv hsv
    constructor
    · intro s' h
      simp only [flushLoop] at h
      by_cases hm : s.modified = true
      · simp only [hm, Bool.not_true, Bool.false_eq_true, if_false] at h
        cases hr : round H (ord n) bfuel s with
        | error e => simp [hr] at h
        | ok s1 =>
          simp only [hr] at h
          obtain ⟨hinv1, hsv1, seg, hseg, ht1⟩ := round_spec H (ord n) bfuel s s1 hinv hsv (hperm n) hr
          obtain ⟨hi, hs, hmod, t, m, hmn, ⟨segs, hlen, hflat, hall⟩, ht⟩ := (ih s1 hinv1 hsv1).1 s' h
          refine ⟨hi, hs, hmod, seg ++ t, m + 1, by omega, ⟨seg :: segs, by simp [hlen], by simp [hflat], ?_⟩, ?_⟩
          · intro x hx
            rcases List.mem_cons.mp hx with rfl | hx
            · exact hseg
            · exact hall x hx
          · rw [ht, ht1, List.append_assoc]
      · have hm' : s.modified = false := by simpa using hm
        simp [hm'] at h; subst h
        exact ⟨hinv, hsv, hm', [], 0, Nat.zero_le _, ⟨[], rfl, rfl, by simp⟩, by simp⟩
    · intro s' h
      simp only [flushLoop] at h
      by_cases hm : s.modified = true
      · simp only [hm, Bool.not_true, Bool.false_eq_true, if_false] at h
        cases hr : round H (ord n) bfuel s with
        | error e =>
          simp only [hr] at h
          -- a hook error / fuel error of the round is not the limit error unless the round itself returned it: rounds never do
          exfalso
          revert hr
          simp only [round]
          cases hb : beforeLoop H bfuel 0 s with
          | error e1 =>
            intro hr; simp at hr; subst hr
            have := beforeLoop_no_limit H bfuel 0 s _ hb
            injection h with h; subst h; simp [Err.isLimit] at this
          | ok s1 =>
            simp only
            obtain ⟨hinv1, _, _, _, _⟩ := beforeLoop_spec H bfuel 0 s s1 hinv hb
            have hinvc : Inv (calcAndRemoveM2m s1) := hinv1.of_same rfl rfl rfl
            obtain ⟨s2, hsave, _⟩ := savePhase_spec (ord n) (hperm n) (calcAndRemoveM2m s1) hinvc
            simp only [hsave, afterPhase]
            intro hr
            have := afterLoop_no_limit H _ _ _ hr
            injection h with h; subst h; simp [Err.isLimit] at this
        | ok s1 =>
          simp only [hr] at h
          obtain ⟨hinv1, hsv1, seg, hseg, ht1⟩ := round_spec H (ord n) bfuel s s1 hinv hsv (hperm n) hr
          obtain ⟨hi, hmod, t, ⟨segs, hlen, hflat, hall⟩, ht⟩ := (ih s1 hinv1 hsv1).2 s' h
          refine ⟨hi, hmod, seg ++ t, ⟨seg :: segs, by simp [hlen], by simp [hflat], ?_⟩, ?_⟩
          · intro x hx
            rcases List.mem_cons.mp hx with rfl | hx
            · exact hseg
            · exact hall x hx
          · rw [ht, ht1, List.append_assoc]
      · have hm' : s.modified = false := by simpa using hm
        simp [hm'] at h

/-! ### Entity.flush -/

theorem afterLoop_trace (H : Hooks) : ∀ (sv : List (Nat × Kind)) (s s' : State), afterLoop H sv s = .ok s' →
    s'.trace = s.trace ++ sv.map (fun p => Event.after p.2 p.1) ∧ s'.saved = s.saved := by
  intro sv
  induction sv with
  | nil => intro s s' h; simp [afterLoop] at h; subst h; simp
  | cons p rest ih =>
    intro s s' h
    obtain ⟨o, k⟩ := p
    simp only [afterLoop] at h
    cases hr : runOps (H.after k { s with trace := s.trace ++ [Event.after k o] } o) { s with trace := s.trace ++ [Event.after k o] } with
    | error e => simp [hr] at h
    | ok s2 =>
      simp only [hr] at h
      obtain ⟨t2, v2, _, _, _⟩ := runOps_spec _ _ _ hr
      obtain ⟨t3, v3⟩ := ih s2 s' h
      exact ⟨by rw [t3, t2]; simp, v3.trans v2⟩

theorem appendNew_spec (s : State) : ∀ (ps l : List Nat), l.Nodup → (∀ p ∈ l, ∃ k, s.kindAt p = some k) →
    (∃ ext, appendNew s l ps = l ++ ext) ∧ (appendNew s l ps).Nodup ∧ (∀ p ∈ appendNew s l ps, ∃ k, s.kindAt p = some k) := by
  intro ps
  induction ps with
  | nil => intro l hnd hp; exact ⟨⟨[], by simp [appendNew]⟩, by simpa [appendNew] using hnd, by simpa [appendNew] using hp⟩
  | cons p rest ih =>
    intro l hnd hp
    simp only [appendNew]
    by_cases hc : (s.kindAt p = some Kind.insert && !(l.contains p)) = true
    · simp only [hc, if_true]
      simp only [Bool.and_eq_true, decide_eq_true_eq, Bool.not_eq_true', List.contains_eq_mem, decide_eq_false_iff_not] at hc
      have hnd' : (l ++ [p]).Nodup := by
        rw [List.nodup_append]
        refine ⟨hnd, by simp, ?_⟩
        intro a ha b hb; simp at hb; subst hb; intro hab; subst hab; exact hc.2 ha
      have hp' : ∀ q ∈ l ++ [p], ∃ k, s.kindAt q = some k := by
        intro q hq
        rcases List.mem_append.mp hq with hq | hq
        · exact hp q hq
        · simp at hq; subst hq; exact ⟨_, hc.1⟩
      obtain ⟨⟨ext, he⟩, h2, h3⟩ := ih (l ++ [p]) hnd' hp'
      exact ⟨⟨p :: ext, by rw [he]; simp⟩, h2, h3⟩
    · simp only [hc]
      exact ih l hnd hp

/-- the before-hooks loop of `obj.flush()`: the hook of every object of the final list, once each, in list order -/
theorem entityBeforeLoop_spec (H : Hooks) (princ : State → Nat → List Nat) :
    ∀ (fuel i : Nat) (l : List Nat) (s s' : State) (l' : List Nat), Inv s → l.Nodup → (∀ p ∈ l, ∃ k, s.kindAt p = some k) →
    entityBeforeLoop H princ fuel i l s = .ok (s', l') →
    Inv s' ∧ s'.saved = s.saved ∧ (∃ ext, l' = l ++ ext) ∧ l'.Nodup ∧ (∀ p ∈ l', ∃ k, s'.kindAt p = some k) ∧
    (∀ o k, s.kindAt o = some k → s'.kindAt o = some k) ∧
    s'.trace = s.trace ++ (keysL s' (l'.drop i)).map evB := by
  intro fuel
  induction fuel with
  | zero => intro i l s s' l' _ _ _ h; simp [entityBeforeLoop] at h
  | succ fuel ih =>
    intro i l s s' l' hinv hnd hpend h
    simp only [entityBeforeLoop] at h
    cases hq : l[i]? with
    | none =>
      simp only [hq] at h
      injection h with h; injection h with h1 h2; subst h1; subst h2
      have : l.length ≤ i := by
        rcases Nat.lt_or_ge i l.length with hlt | hge
        · rw [List.getElem?_eq_getElem hlt] at hq; cases hq
        · exact hge
      refine ⟨hinv, rfl, ⟨[], by simp⟩, hnd, hpend, fun _ _ h => h, ?_⟩
      rw [List.drop_eq_nil_of_le this]; simp [keysL]
    | some o =>
      simp only [hq] at h
      obtain ⟨k, hk⟩ := hpend o (List.mem_of_getElem? hq)
      simp only [hk] at h
      cases hr : runOps (H.before k { s with trace := s.trace ++ [Event.before k o] } o) { s with trace := s.trace ++ [Event.before k o] } with
      | error e => simp [hr] at h
      | ok s2 =>
        simp only [hr] at h
        have hinv1 : Inv ({ s with trace := s.trace ++ [Event.before k o] } : State) := hinv.of_same rfl rfl rfl
        obtain ⟨t2, v2, _, k2, i2⟩ := runOps_spec _ _ _ hr
        have hpend2 : ∀ p ∈ l, ∃ k, s2.kindAt p = some k := fun p hp => by
          obtain ⟨kk, hkk⟩ := hpend p hp; exact ⟨kk, k2 p kk hkk⟩
        obtain ⟨⟨ext1, he1⟩, hnd1, hp1⟩ :
            (∃ ext, (if (k == Kind.delete) = true then l else appendNew s2 l (princ s2 o)) = l ++ ext) ∧
            (if (k == Kind.delete) = true then l else appendNew s2 l (princ s2 o)).Nodup ∧
            (∀ p ∈ (if (k == Kind.delete) = true then l else appendNew s2 l (princ s2 o)), ∃ k, s2.kindAt p = some k) := by
          by_cases hd : (k == Kind.delete) = true
          · simp only [hd, if_true]; exact ⟨⟨[], by simp⟩, hnd, hpend2⟩
          · simp only [hd]; exact appendNew_spec s2 _ l hnd hpend2
        obtain ⟨i3, v3, ⟨ext3, he3⟩, hnd3, hp3, k3, t3⟩ := ih (i + 1) _ s2 s' l' (i2 hinv1) hnd1 hp1 h
        refine ⟨i3, v3.trans v2, ⟨ext1 ++ ext3, by rw [he3, he1, List.append_assoc]⟩, hnd3, hp3, fun p kk hp => k3 p kk (k2 p kk hp), ?_⟩
        have hq' : l'[i]? = some o := by
          rw [he3, he1, List.append_assoc, List.getElem?_append_left (List.getElem?_eq_some_iff.mp hq).1]; exact hq
        have hk' : s'.kindAt o = some k := k3 o k (k2 o k hk)
        rw [t3, t2, drop_cons_of_getElem? _ _ _ hq']
        simp [keysL, hk', evB]

/-! ### small list facts (core Lean only) -/

theorem count_map_inj {α β : Type} [BEq α] [LawfulBEq α] [BEq β] [LawfulBEq β] (f : α → β) (hf : ∀ a b, f a = f b → a = b) (l : List α) (a : α) :
    (l.map f).count (f a) = l.count a := by
  induction l with
  | nil => rfl
  | cons b r ih =>
    simp only [List.map_cons, List.count_cons, ih]
    by_cases h : b = a
    · subst h; simp
    · have : ¬ f b = f a := fun e => h (hf _ _ e)
      simp [h, this]

theorem nodup_of_map_nodup {α β : Type} (f : α → β) (l : List α) (h : (l.map f).Nodup) : l.Nodup := by
  induction l with
  | nil => exact List.nodup_nil
  | cons a r ih =>
    simp only [List.map_cons, List.nodup_cons] at h ⊢
    exact ⟨fun hm => h.1 (List.mem_map.mpr ⟨a, hm, rfl⟩), ih h.2⟩

theorem count_le_one_of_nodup {α : Type} [BEq α] [LawfulBEq α] (l : List α) (h : l.Nodup) (a : α) : l.count a ≤ 1 := by
  induction l with
  | nil => simp
  | cons b r ih =>
    simp only [List.nodup_cons] at h
    simp only [List.count_cons]
    by_cases hb : b = a
    · subst hb
      have : r.count b = 0 := List.count_eq_zero.mpr h.1
      simp [this]
    · have := ih h.2
      simp [hb]; exact this

/-! ### many-to-many links -/

/-- the link bookkeeping between rounds: the collections show the link table minus the pending removals plus the pending additions -/
structure LinkInv (l : Links) : Prop where
  view : ∀ p, p ∈ l.view ↔ (p ∈ l.db ∧ p ∉ l.pendRem) ∨ p ∈ l.pendAdd
  addNew : ∀ p, p ∈ l.pendAdd → p ∉ l.db
  remOld : ∀ p, p ∈ l.pendRem → p ∈ l.db

structure LK (s : State) : Prop where
  inv : LinkInv s.lk
  noLocal : s.lk.m2mAdd = [] ∧ s.lk.m2mRem = []
  flag : (s.lk.pendAdd ≠ [] ∨ s.lk.pendRem ≠ []) → s.modified = true

theorem LK.of_same {s s' : State} (h : LK s) (hl : s'.lk = s.lk) (hm : s.modified = true → s'.modified = true) : LK s' := by
  refine ⟨by rw [hl]; exact h.inv, by rw [hl]; exact h.noLocal, ?_⟩
  rw [hl]; intro hp; exact hm (h.flag hp)

theorem applyLink_lk (s s' : State) (a b : Nat) (add : Bool) (h : applyLink s a b add = .ok s') (hl : LK s) : LK s' := by
  obtain ⟨⟨hv, ha, hr⟩, hn, hf⟩ := hl
  simp only [applyLink] at h
  split at h
  · cases h
  split at h
  · cases h
  split at h
  · split at h
    · cases h; exact ⟨⟨hv, ha, hr⟩, hn, fun _ => rfl⟩
    · split at h
      · cases h
        rename_i hnv hpr
        simp only [List.contains_eq_mem, decide_eq_true_eq] at hnv hpr
        refine ⟨⟨?_, ?_, ?_⟩, hn, fun _ => rfl⟩
        · intro q
          simp only [List.mem_append, List.mem_singleton, List.mem_filter, bne_iff_ne, ne_eq]
          by_cases hq : q = (a, b)
          · subst hq; simp [hr _ hpr]
          · simp [hq, hv q]
        · exact ha
        · intro q hq
          simp only [List.mem_filter] at hq
          exact hr q hq.1
      · cases h
        rename_i hnv hpr
        simp only [List.contains_eq_mem, decide_eq_true_eq] at hnv hpr
        refine ⟨⟨?_, ?_, ?_⟩, hn, fun _ => rfl⟩
        · intro q
          simp only [List.mem_append, List.mem_singleton]
          by_cases hq : q = (a, b)
          · subst hq; simp
          · simp [hq, hv q]
        · intro q hq
          simp only [List.mem_append, List.mem_singleton] at hq
          rcases hq with hq | hq
          · exact ha q hq
          · subst hq
            intro hdb
            exact hnv ((hv _).mpr (Or.inl ⟨hdb, hpr⟩))
        · exact hr
  · split at h
    · cases h; exact ⟨⟨hv, ha, hr⟩, hn, hf⟩
    · split at h
      · cases h; exact ⟨⟨hv, ha, hr⟩, hn, fun _ => rfl⟩
      · split at h
        · cases h
          rename_i hpr hnv hpa
          simp only [List.contains_eq_mem, decide_eq_true_eq, Bool.not_eq_true', decide_eq_false_iff_not, Classical.not_not] at hpr hnv hpa
          refine ⟨⟨?_, ?_, ?_⟩, hn, fun _ => rfl⟩
          · intro q
            simp only [List.mem_filter, bne_iff_ne, ne_eq]
            by_cases hq : q = (a, b)
            · subst hq; simp [ha _ hpa]
            · simp [hq, hv q]
          · intro q hq
            simp only [List.mem_filter] at hq
            exact ha q hq.1
          · exact hr
        · cases h
          rename_i hpr hnv hpa
          simp only [List.contains_eq_mem, decide_eq_true_eq, Bool.not_eq_true', decide_eq_false_iff_not, Classical.not_not] at hpr hnv hpa
          refine ⟨⟨?_, ?_, ?_⟩, hn, fun _ => rfl⟩
          · intro q
            simp only [List.mem_filter, bne_iff_ne, ne_eq, List.mem_append, List.mem_singleton]
            by_cases hq : q = (a, b)
            · subst hq; simp [hpa]
            · simp [hq, hv q]
          · exact ha
          · intro q hq
            simp only [List.mem_append, List.mem_singleton] at hq
            rcases hq with hq | hq
            · exact hr q hq
            · subst hq
              rcases (hv _).mp hnv with h1 | h1
              · exact h1.1
              · exact absurd h1 hpa

theorem applyModify_lk (s s' : State) (o : Nat) (h : applyModify s o = .ok s') (hl : LK s) : LK s' := by
  simp only [applyModify] at h
  repeat' split at h
  all_goals (cases h; try (first | exact hl.of_same rfl (fun _ => rfl) | exact hl.of_same rfl (fun hm => hm)))

theorem applyOp_lk (s s' : State) (op : HOp) (h : applyOp s op = .ok s') (hl : LK s) : LK s' := by
  cases op with
  | read o => simp [applyOp] at h; subst h; exact hl
  | query => simp [applyOp] at h; subst h; exact hl
  | create => simp [applyOp] at h; subst h; exact hl.of_same rfl (fun _ => rfl)
  | link a b => exact applyLink_lk s s' a b true h hl
  | unlink a b => exact applyLink_lk s s' a b false h hl
  | linkNewOwner b => exact applyLink_lk s s' _ b true h hl
  | linkNewItem a => exact applyLink_lk s s' a _ true h hl
  | modify o => exact applyModify_lk s s' o h hl
  | refNewTo g => simp only [applyOp] at h; injection h with h; subst h; exact hl.of_same rfl (fun hm => hm)
  | setRef i g =>
    simp only [applyOp] at h
    cases hm : applyModify s i with
    | error e => simp [hm] at h
    | ok s1 => simp only [hm] at h; injection h with h; subst h; exact (applyModify_lk s s1 i hm hl).of_same rfl (fun hm => hm)
  | refToNew i =>
    simp only [applyOp] at h
    cases hm : applyModify s i with
    | error e => simp [hm] at h
    | ok s1 => simp only [hm] at h; injection h with h; subst h; exact (applyModify_lk s s1 i hm hl).of_same rfl (fun hm => hm)

theorem runOps_lk (ops : List HOp) : ∀ (s s' : State), runOps ops s = .ok s' → LK s → LK s' := by
  induction ops with
  | nil => intro s s' h hl; simp [runOps] at h; subst h; exact hl
  | cons op rest ih =>
    intro s s' h hl
    simp only [runOps] at h
    cases ha : applyOp s op with
    | error e => simp [ha] at h
    | ok s1 => simp only [ha] at h; exact ih s1 s' h (applyOp_lk s s1 op ha hl)

theorem beforeLoop_lk (H : Hooks) : ∀ (fuel i : Nat) (s s' : State), beforeLoop H fuel i s = .ok s' → LK s → LK s' := by
  intro fuel
  induction fuel with
  | zero => intro i s s' h; simp [beforeLoop] at h
  | succ fuel ih =>
    intro i s s' h hl
    simp only [beforeLoop] at h
    cases hq : s.queue[i]? with
    | none => simp only [hq] at h; injection h with h; subst h; exact hl
    | some x =>
      cases x with
      | none => simp only [hq] at h; exact ih _ _ _ h hl
      | some o =>
        simp only [hq] at h
        cases hk : s.kindAt o with
        | none => simp only [hk] at h; exact ih _ _ _ h hl
        | some k =>
          simp only [hk] at h
          cases hr : runOps (H.before k { s with trace := s.trace ++ [Event.before k o] } o) { s with trace := s.trace ++ [Event.before k o] } with
          | error e1 => simp [hr] at h
          | ok s2 =>
            simp only [hr] at h
            exact ih _ _ _ h (runOps_lk _ _ _ hr (hl.of_same rfl (fun hm => hm)))

theorem afterLoop_lk (H : Hooks) : ∀ (sv : List (Nat × Kind)) (s s' : State), afterLoop H sv s = .ok s' → LK s → LK s' := by
  intro sv
  induction sv with
  | nil => intro s s' h hl; simp [afterLoop] at h; subst h; exact hl
  | cons p rest ih =>
    intro s s' h hl
    obtain ⟨o, k⟩ := p
    simp only [afterLoop] at h
    cases hr : runOps (H.after k { s with trace := s.trace ++ [Event.after k o] } o) { s with trace := s.trace ++ [Event.after k o] } with
    | error e1 => simp [hr] at h
    | ok s2 => simp only [hr] at h; exact ih _ _ h (runOps_lk _ _ _ hr (hl.of_same rfl (fun hm => hm)))

/-- the many-to-many phases of a round write exactly the pending link changes: afterwards nothing is pending and the link table
    equals what the collections show -/
theorem m2m_round_lk (s1 s2 : State) (hl : LK s1) (h2 : s2.lk = (calcAndRemoveM2m s1).lk) :
    (addM2m s2).lk.pendAdd = [] ∧ (addM2m s2).lk.pendRem = [] ∧ LinkInv (addM2m s2).lk ∧
    (addM2m s2).lk.m2mAdd = [] ∧ (addM2m s2).lk.m2mRem = [] ∧
    (∀ p, p ∈ (addM2m s2).lk.db ↔ p ∈ s1.lk.view) := by
  obtain ⟨⟨hv, ha, hr⟩, _, _⟩ := hl
  have hdb : ∀ p, p ∈ (addM2m s2).lk.db ↔ p ∈ s1.lk.view := by
    intro p
    simp only [addM2m, h2, calcAndRemoveM2m, List.mem_append, List.mem_filter, List.contains_eq_mem, Bool.not_eq_true',
               decide_eq_false_iff_not]
    rw [hv p]
  refine ⟨by simp [addM2m, h2, calcAndRemoveM2m], by simp [addM2m, h2, calcAndRemoveM2m], ⟨?_, ?_, ?_⟩, rfl, rfl, hdb⟩
  · intro p
    have e1 : (addM2m s2).lk.view = s1.lk.view := by simp [addM2m, h2, calcAndRemoveM2m]
    have e2 : (addM2m s2).lk.pendRem = [] := by simp [addM2m, h2, calcAndRemoveM2m]
    have e3 : (addM2m s2).lk.pendAdd = [] := by simp [addM2m, h2, calcAndRemoveM2m]
    rw [e1, e2, e3, hdb p]; simp
  · intro p hp; simp [addM2m, h2, calcAndRemoveM2m] at hp
  · intro p hp; simp [addM2m, h2, calcAndRemoveM2m] at hp

theorem round_lk (H : Hooks) (ord : List Nat → List Nat) (bfuel : Nat) (s s' : State) (hl : LK s)
    (h : round H ord bfuel s = .ok s') : LK s' := by
  simp only [round] at h
  cases hb : beforeLoop H bfuel 0 s with
  | error e => simp [hb] at h
  | ok s1 =>
    simp only [hb] at h
    have hl1 := beforeLoop_lk H bfuel 0 s s1 hb hl
    cases hs : savePhase ord (calcAndRemoveM2m s1) with
    | error e => simp [hs] at h
    | ok s2 =>
      simp only [hs, afterPhase] at h
      have h2 : s2.lk = (calcAndRemoveM2m s1).lk := saveAll_lk _ _ _ hs
      obtain ⟨pa, pr, li, ma, mr, _⟩ := m2m_round_lk s1 s2 hl1 h2
      refine afterLoop_lk H _ _ s' h ⟨li, ⟨ma, mr⟩, ?_⟩
      intro hp
      rcases hp with hp | hp
      · exact absurd pa hp
      · exact absurd pr hp

theorem flushLoop_lk (H : Hooks) (ord : Nat → List Nat → List Nat) (bfuel : Nat) :
    ∀ (n : Nat) (s s' : State), LK s → flushLoop H ord bfuel n s = .ok s' → LK s' := by
  intro n
  induction n with
  | zero =>
    intro s s' hl h
    simp only [flushLoop] at h
    split at h
    · cases h
    · cases h; exact hl
  | succ n ih =>
    intro s s' hl h
    simp only [flushLoop] at h
    split at h
    · cases h; exact hl
    · cases hr : round H (ord n) bfuel s with
      | error e => simp [hr] at h
      | ok s1 => simp only [hr] at h; exact ih s1 s' (round_lk H (ord n) bfuel s s1 hl hr) h

/-! ### nested rounds: queries inside after_* hooks -/

theorem runKey_append (p : Kind × Nat) : ∀ (a b : List Event) (st : Bool × Nat),
    runKey p (a ++ b) st = match runKey p a st with
      | some st' => runKey p b st'
      | none => none := by
  intro a
  induction a with
  | nil => intro b st; rfl
  | cons e t ih =>
    intro b st
    simp only [List.cons_append, runKey]
    cases stepKey p st e with
    | none => rfl
    | some st' => exact ih b st'

theorem Balanced.nil : Balanced [] := fun _ _ => rfl

theorem Balanced.append {a b : List Event} (ha : Balanced a) (hb : Balanced b) : Balanced (a ++ b) := by
  intro p n
  rw [runKey_append, ha p n]
  exact hb p n

/-- before-hook entries of a duplicate-free list of (kind, object) pairs -/
theorem runKey_befores (p : Kind × Nat) : ∀ (Q : List (Kind × Nat)) (a : Bool) (n : Nat), Q.Nodup →
    runKey p (Q.map evB) (a, n) = if p ∈ Q then (if a then none else some (true, n)) else some (a, n) := by
  intro Q
  induction Q with
  | nil => intro a n _; simp [runKey]
  | cons q Q ih =>
    intro a n hnd
    obtain ⟨hq, hnd'⟩ := List.nodup_cons.mp hnd
    simp only [List.map_cons, runKey, evB, stepKey]
    by_cases hqp : q = p
    · subst hqp
      cases a with
      | true => simp
      | false => simp [ih true n hnd', hq]
    · have hne : ¬ (q.1, q.2) = p := by simpa using hqp
      have hne' : ¬ p = q := fun e => hqp e.symm
      simp only [hne, if_false]
      rw [ih a n hnd']
      simp [List.mem_cons, hne']

theorem runKey_stmts (p : Kind × Nat) : ∀ (S : List (Kind × Nat)) (a : Bool) (n : Nat), S.Nodup →
    runKey p (S.map evS) (a, n) = if p ∈ S then (if a then some (false, n + 1) else none) else some (a, n) := by
  intro S
  induction S with
  | nil => intro a n _; simp [runKey]
  | cons q S ih =>
    intro a n hnd
    obtain ⟨hq, hnd'⟩ := List.nodup_cons.mp hnd
    simp only [List.map_cons, runKey, evS, stepKey]
    by_cases hqp : q = p
    · subst hqp
      cases a with
      | true => simp [ih false (n + 1) hnd', hq]
      | false => simp
    · have hne : ¬ (q.1, q.2) = p := by simpa using hqp
      have hne' : ¬ p = q := fun e => hqp e.symm
      simp only [hne, if_false]
      rw [ih a n hnd']
      simp [List.mem_cons, hne']

theorem runKey_links (p : Kind × Nat) (st : Bool × Nat) : ∀ (L : List (Nat × Nat)),
    runKey p (L.map evLD) st = some st ∧ runKey p (L.map evLI) st = some st := by
  intro L
  induction L with
  | nil => exact ⟨rfl, rfl⟩
  | cons q L ih => simp [runKey, evLD, evLI, stepKey, ih.1, ih.2]

/-- what the inner flush of a query must guarantee (and what every level of `flushN` does guarantee) -/
def NestedSpec (f : State → Except Err State) : Prop :=
  ∀ s s', Inv s → s.saved = [] → f s = .ok s' →
    Inv s' ∧ s'.saved = [] ∧ ∃ t, s'.trace = s.trace ++ t ∧ Balanced t

theorem applyOpA_spec (nested : State → Except Err State) (hn : NestedSpec nested) (s s' : State) (op : HOp)
    (hinv : Inv s) (hsv : s.saved = []) (h : applyOpA nested s op = .ok s') :
    Inv s' ∧ s'.saved = [] ∧ ∃ t, s'.trace = s.trace ++ t ∧ Balanced t := by
  have plain : ∀ op', applyOp s op' = .ok s' → Inv s' ∧ s'.saved = [] ∧ ∃ t, s'.trace = s.trace ++ t ∧ Balanced t := by
    intro op' h'
    obtain ⟨t, v, _, _, i⟩ := applyOp_spec s s' op' h'
    exact ⟨i hinv, by rw [v, hsv], [], by simp [t], Balanced.nil⟩
  cases op with
  | query =>
    simp only [applyOpA] at h
    by_cases hm : s.modified = true
    · simp only [hm, if_true] at h; exact hn s s' hinv hsv h
    · simp only [hm] at h; injection h with h; subst h
      exact ⟨hinv, hsv, [], by simp, Balanced.nil⟩
  | read o => exact plain _ (by simpa [applyOpA] using h)
  | modify o => exact plain _ (by simpa [applyOpA] using h)
  | create => exact plain _ (by simpa [applyOpA] using h)
  | link a b => exact plain _ (by simpa [applyOpA] using h)
  | unlink a b => exact plain _ (by simpa [applyOpA] using h)
  | linkNewOwner b => exact plain _ (by simpa [applyOpA] using h)
  | linkNewItem a => exact plain _ (by simpa [applyOpA] using h)
  | setRef i g => exact plain _ (by simpa [applyOpA] using h)
  | refNewTo g => exact plain _ (by simpa [applyOpA] using h)
  | refToNew i => exact plain _ (by simpa [applyOpA] using h)

theorem runOpsA_spec (nested : State → Except Err State) (hn : NestedSpec nested) (ops : List HOp) :
    ∀ (s s' : State), Inv s → s.saved = [] → runOpsA nested ops s = .ok s' →
      Inv s' ∧ s'.saved = [] ∧ ∃ t, s'.trace = s.trace ++ t ∧ Balanced t := by
  induction ops with
  | nil => intro s s' hinv hsv h; simp [runOpsA] at h; subst h; exact ⟨hinv, hsv, [], by simp, Balanced.nil⟩
  | cons op rest ih =>
    intro s s' hinv hsv h
    simp only [runOpsA] at h
    cases ha : applyOpA nested s op with
    | error e => simp [ha] at h
    | ok s1 =>
      simp only [ha] at h
      obtain ⟨i1, v1, t1, e1, b1⟩ := applyOpA_spec nested hn s s1 op hinv hsv ha
      obtain ⟨i2, v2, t2, e2, b2⟩ := ih s1 s' i1 v1 h
      exact ⟨i2, v2, t1 ++ t2, by rw [e2, e1, List.append_assoc], b1.append b2⟩

/-- the after-phase with nested flushes: from any automaton state in which exactly the statements of `sv` (once each) are waiting
    on top of `n` others, the trace brings the automaton back to `n` -/
theorem afterLoopA_spec (nested : State → Except Err State) (hn : NestedSpec nested) (H : Hooks) :
    ∀ (sv : List (Nat × Kind)) (s s' : State), Inv s → s.saved = [] → (sv.map (fun q => (q.2, q.1))).Nodup →
      afterLoopA nested H sv s = .ok s' →
      Inv s' ∧ s'.saved = [] ∧ ∃ t, s'.trace = s.trace ++ t ∧
        ∀ p n, runKey p t (false, n + (if p ∈ sv.map (fun q => (q.2, q.1)) then 1 else 0)) = some (false, n) := by
  intro sv
  induction sv with
  | nil =>
    intro s s' hinv hsv _ h
    simp [afterLoopA] at h; subst h
    exact ⟨hinv, hsv, [], by simp, fun p n => by simp [runKey]⟩
  | cons q rest ih =>
    intro s s' hinv hsv hnd h
    obtain ⟨o, k⟩ := q
    obtain ⟨hq, hnd'⟩ := List.nodup_cons.mp hnd
    simp only [afterLoopA] at h
    cases hr : runOpsA nested (H.after k { s with trace := s.trace ++ [Event.after k o] } o) { s with trace := s.trace ++ [Event.after k o] } with
    | error e => simp [hr] at h
    | ok s2 =>
      simp only [hr] at h
      have hinv1 : Inv ({ s with trace := s.trace ++ [Event.after k o] } : State) := hinv.of_same rfl rfl rfl
      obtain ⟨i2, v2, t2, e2, b2⟩ := runOpsA_spec nested hn _ _ s2 hinv1 hsv hr
      obtain ⟨i3, v3, t3, e3, b3⟩ := ih s2 s' i2 v2 hnd' h
      refine ⟨i3, v3, [Event.after k o] ++ t2 ++ t3, by rw [e3, e2]; simp [List.append_assoc], ?_⟩
      intro p n
      rw [runKey_append, runKey_append]
      by_cases hp : p = (k, o)
      · subst hp
        have hnot : (k, o) ∉ rest.map (fun q => (q.2, q.1)) := hq
        simp only [List.map_cons, List.mem_cons, true_or, if_true]
        have h1 : runKey (k, o) [Event.after k o] (false, n + 1) = some (false, n) := by simp [runKey, stepKey]
        rw [h1]; simp only
        rw [b2 (k, o) n]; simp only
        have := b3 (k, o) n
        simpa [hnot] using this
      · have hmem : (p ∈ ((o, k) :: rest).map (fun q => (q.2, q.1))) ↔ (p ∈ rest.map (fun q => (q.2, q.1))) := by
          simp only [List.map_cons, List.mem_cons]
          constructor
          · rintro (h | h)
            · exact absurd h hp
            · exact h
          · exact Or.inr
        have hne : ¬ (k, o) = p := fun e => hp e.symm
        have h1 : ∀ st, runKey p [Event.after k o] st = some st := by intro st; simp [runKey, stepKey, hne]
        rw [h1]; simp only
        by_cases hin : p ∈ rest.map (fun q => (q.2, q.1))
        · have hin' : p ∈ ((o, k) :: rest).map (fun q => (q.2, q.1)) := hmem.mpr hin
          simp only [hin', if_true]
          rw [b2 p (n + 1)]; simp only
          have := b3 p n
          simpa [hin] using this
        · have hin' : ¬ p ∈ ((o, k) :: rest).map (fun q => (q.2, q.1)) := fun e => hin (hmem.mp e)
          simp only [hin', if_false, Nat.add_zero]
          rw [b2 p n]; simp only
          have := b3 p n
          simpa [hin] using this

theorem nodup_keysL (s : State) (l : List Nat) (hl : l.Nodup) : (keysL s l).Nodup := by
  induction l with
  | nil => simp [keysL]
  | cons o rest ih =>
    obtain ⟨ho, hr⟩ := List.nodup_cons.mp hl
    simp only [keysL, List.filterMap_cons]
    cases hk : s.kindAt o with
    | none => simpa [keysL] using ih hr
    | some k =>
      simp only [Option.map_some]
      refine List.nodup_cons.mpr ⟨?_, by simpa [keysL] using ih hr⟩
      intro hm
      simp only [List.mem_filterMap] at hm
      obtain ⟨o', ho', he⟩ := hm
      cases hk' : s.kindAt o' with
      | none => simp [hk'] at he
      | some k' => simp [hk'] at he; exact ho (he.2 ▸ ho')

theorem roundA_spec (nested : State → Except Err State) (hn : NestedSpec nested) (H : Hooks) (ord : State → List Nat → List Nat)
    (bfuel : Nat) (s s' : State) (hinv : Inv s) (hsv : s.saved = []) (hperm : ∀ st l, (ord st l).Perm l)
    (h : roundA nested H ord bfuel s = .ok s') :
    Inv s' ∧ s'.saved = [] ∧ ∃ t, s'.trace = s.trace ++ t ∧ Balanced t := by
  simp only [roundA] at h
  cases hb : beforeLoop H bfuel 0 s with
  | error e => simp [hb] at h
  | ok s1 =>
    simp only [hb] at h
    obtain ⟨hinv1, hsv1, _, _, ht1⟩ := beforeLoop_spec H bfuel 0 s s1 hinv hb
    have hinvc : Inv (calcAndRemoveM2m s1) := hinv1.of_same rfl rfl rfl
    obtain ⟨s2, hsave, hq2, ht2, hsv2, hk2, hd2⟩ := savePhase_spec (ord s1) (hperm s1) (calcAndRemoveM2m s1) hinvc
    have hlk2 : s2.lk = (calcAndRemoveM2m s1).lk := saveAll_lk _ _ _ hsave
    simp only [hsave] at h
    have hinv3 : Inv ({ (addM2m s2) with queue := [], modified := false, saved := [] } : State) := by
      refine ⟨?_, by simp [pendingList], ?_, by simp⟩
      · intro o
        have : ({ (addM2m s2) with queue := [], modified := false, saved := [] } : State).kindAt o = none := hk2 o
        simp [this]
      · intro p ob hob hpos
        have := hd2 p ob hob
        omega
    have hpendAll : ∀ o ∈ pendingList s1, ∃ k, s1.kindAt o = some k :=
      fun o ho => (hinv1.mem_iff o).mp ((mem_pendingList s1 o).mp ho)
    have hS : (keysL s1 (ord s1 (pendingList s1))).Nodup := nodup_keysL s1 _ ((hperm s1 _).nodup_iff.mpr hinv1.nodup)
    have hQ : (keysL s1 (pendingList s1)).Nodup := nodup_keysL s1 _ hinv1.nodup
    have hPerm : (keysL s1 (ord s1 (pendingList s1))).Perm (keysL s1 (pendingList s1)) := (hperm s1 _).filterMap _
    have esv : (addM2m s2).saved = (keysL s1 (ord s1 (pendingList s1))).map (fun p => (p.2, p.1)) := by
      have e2 : (addM2m s2).saved = s2.saved := rfl
      have e5 : (calcAndRemoveM2m s1).saved = s1.saved := rfl
      have e6 : keysL (calcAndRemoveM2m s1) (ord s1 (pendingList (calcAndRemoveM2m s1))) = keysL s1 (ord s1 (pendingList s1)) := rfl
      rw [e2, hsv2, e5, e6, hsv1, hsv]; simp
    have hkeys : ((addM2m s2).saved.map (fun q => (q.2, q.1))) = keysL s1 (ord s1 (pendingList s1)) := by
      rw [esv, List.map_map]; simp [Function.comp_def]
    obtain ⟨hinv', hsv', t, et, bt⟩ := afterLoopA_spec nested hn H _ _ s' hinv3 rfl (by rw [hkeys]; exact hS) h
    refine ⟨hinv', hsv', (keysL s1 (pendingList s1)).map evB ++ s1.lk.pendRem.map evLD ++ (keysL s1 (ord s1 (pendingList s1))).map evS
              ++ s1.lk.pendAdd.map evLI ++ t, ?_, ?_⟩
    · rw [et]
      have e1 : (addM2m s2).trace = s2.trace ++ s2.lk.m2mAdd.map evLI := rfl
      have e3 : (calcAndRemoveM2m s1).trace = s1.trace ++ s1.lk.pendRem.map evLD := rfl
      have e4 : (calcAndRemoveM2m s1).lk.m2mAdd = s1.lk.pendAdd := rfl
      have e6 : keysL (calcAndRemoveM2m s1) (ord s1 (pendingList (calcAndRemoveM2m s1))) = keysL s1 (ord s1 (pendingList s1)) := rfl
      show (addM2m s2).trace ++ t = _
      rw [e1, ht2, e3, hlk2, e4, e6, ht1]
      simp only [List.drop_zero, keysOf_eq_keysL, List.append_assoc]
      rfl
    · intro p n
      rw [runKey_append, runKey_append, runKey_append, runKey_append, runKey_befores p _ false n hQ]
      by_cases hp : p ∈ keysL s1 (pendingList s1)
      · have hp' : p ∈ keysL s1 (ord s1 (pendingList s1)) := hPerm.mem_iff.mpr hp
        simp only [hp, if_true, Bool.false_eq_true, if_false]
        rw [(runKey_links p _ _).1]; simp only
        rw [runKey_stmts p _ true n hS]; simp only [hp', if_true]
        rw [(runKey_links p _ _).2]; simp only
        have := bt p n
        rw [hkeys] at this
        simpa [hp'] using this
      · have hp' : ¬ p ∈ keysL s1 (ord s1 (pendingList s1)) := fun e => hp (hPerm.mem_iff.mp e)
        simp only [hp, if_false]
        rw [(runKey_links p _ _).1]; simp only
        rw [runKey_stmts p _ false n hS]; simp only [hp', if_false]
        rw [(runKey_links p _ _).2]; simp only
        have := bt p n
        rw [hkeys] at this
        simpa [hp'] using this

theorem flushLoopA_spec (nested : State → Except Err State) (hn : NestedSpec nested) (H : Hooks) (ord : State → List Nat → List Nat)
    (bfuel : Nat) (hperm : ∀ st l, (ord st l).Perm l) :
    ∀ (n : Nat) (s s' : State), Inv s → s.saved = [] → flushLoopA nested H ord bfuel n s = .ok s' →
      Inv s' ∧ s'.saved = [] ∧ s'.modified = false ∧ ∃ t, s'.trace = s.trace ++ t ∧ Balanced t := by
  intro n
  induction n with
  | zero =>
    intro s s' hinv hsv h
    simp only [flushLoopA] at h
    by_cases hm : s.modified = true
    · simp [hm] at h
    · simp [hm] at h; subst h
      exact ⟨hinv, hsv, by simpa using hm, [], by simp, Balanced.nil⟩
  | succ n ih =>
    intro s s' hinv hsv h
    simp only [flushLoopA] at h
    by_cases hm : s.modified = true
    · simp only [hm, Bool.not_true, Bool.false_eq_true, if_false] at h
      cases hr : roundA nested H ord bfuel s with
      | error e => simp [hr] at h
      | ok s1 =>
        simp only [hr] at h
        obtain ⟨i1, v1, t1, e1, b1⟩ := roundA_spec nested hn H ord bfuel s s1 hinv hsv hperm hr
        obtain ⟨i2, v2, m2, t2, e2, b2⟩ := ih s1 s' i1 v1 h
        exact ⟨i2, v2, m2, t1 ++ t2, by rw [e2, e1, List.append_assoc], b1.append b2⟩
    · have hm' : s.modified = false := by simpa using hm
      simp [hm'] at h; subst h
      exact ⟨hinv, hsv, hm', [], by simp, Balanced.nil⟩

theorem flushN_spec (H : Hooks) (ord : State → List Nat → List Nat) (bfuel : Nat) (hperm : ∀ st l, (ord st l).Perm l) :
    ∀ (d : Nat) (s s' : State), Inv s → s.saved = [] → flushN H ord bfuel d s = .ok s' →
      Inv s' ∧ s'.saved = [] ∧ s'.modified = false ∧ ∃ t, s'.trace = s.trace ++ t ∧ Balanced t := by
  intro d
  induction d with
  | zero => intro s s' _ _ h; simp [flushN] at h
  | succ d ih =>
    intro s s' hinv hsv h
    simp only [flushN] at h
    have hn : NestedSpec (flushN H ord bfuel d) := by
      intro a a' ha hs hf
      obtain ⟨i, v, _, t, e, b⟩ := ih a a' ha hs hf
      exact ⟨i, v, t, e, b⟩
    exact flushLoopA_spec _ hn H ord bfuel hperm 50 s s' hinv hsv h

/-! ### the link bookkeeping through nested flushes -/

def NestedLK (f : State → Except Err State) : Prop := ∀ s s', LK s → f s = .ok s' → LK s'

theorem applyOpA_lk (nested : State → Except Err State) (hn : NestedLK nested) (s s' : State) (op : HOp)
    (h : applyOpA nested s op = .ok s') (hl : LK s) : LK s' := by
  cases op with
  | query =>
    simp only [applyOpA] at h
    by_cases hm : s.modified = true
    · simp only [hm, if_true] at h; exact hn s s' hl h
    · simp only [hm] at h; injection h with h; subst h; exact hl
  | read o => exact applyOp_lk s s' _ (by simpa [applyOpA] using h) hl
  | modify o => exact applyOp_lk s s' _ (by simpa [applyOpA] using h) hl
  | create => exact applyOp_lk s s' _ (by simpa [applyOpA] using h) hl
  | link a b => exact applyOp_lk s s' _ (by simpa [applyOpA] using h) hl
  | unlink a b => exact applyOp_lk s s' _ (by simpa [applyOpA] using h) hl
  | linkNewOwner b => exact applyOp_lk s s' _ (by simpa [applyOpA] using h) hl
  | linkNewItem a => exact applyOp_lk s s' _ (by simpa [applyOpA] using h) hl
  | setRef i g => exact applyOp_lk s s' _ (by simpa [applyOpA] using h) hl
  | refNewTo g => exact applyOp_lk s s' _ (by simpa [applyOpA] using h) hl
  | refToNew i => exact applyOp_lk s s' _ (by simpa [applyOpA] using h) hl

theorem runOpsA_lk (nested : State → Except Err State) (hn : NestedLK nested) (ops : List HOp) :
    ∀ (s s' : State), runOpsA nested ops s = .ok s' → LK s → LK s' := by
  induction ops with
  | nil => intro s s' h hl; simp [runOpsA] at h; subst h; exact hl
  | cons op rest ih =>
    intro s s' h hl
    simp only [runOpsA] at h
    cases ha : applyOpA nested s op with
    | error e => simp [ha] at h
    | ok s1 => simp only [ha] at h; exact ih s1 s' h (applyOpA_lk nested hn s s1 op ha hl)

theorem afterLoopA_lk (nested : State → Except Err State) (hn : NestedLK nested) (H : Hooks) :
    ∀ (sv : List (Nat × Kind)) (s s' : State), afterLoopA nested H sv s = .ok s' → LK s → LK s' := by
  intro sv
  induction sv with
  | nil => intro s s' h hl; simp [afterLoopA] at h; subst h; exact hl
  | cons p rest ih =>
    intro s s' h hl
    obtain ⟨o, k⟩ := p
    simp only [afterLoopA] at h
    cases hr : runOpsA nested (H.after k { s with trace := s.trace ++ [Event.after k o] } o) { s with trace := s.trace ++ [Event.after k o] } with
    | error e1 => simp [hr] at h
    | ok s2 => simp only [hr] at h; exact ih _ _ h (runOpsA_lk nested hn _ _ _ hr (hl.of_same rfl (fun hm => hm)))

theorem roundA_lk (nested : State → Except Err State) (hn : NestedLK nested) (H : Hooks) (ord : State → List Nat → List Nat)
    (bfuel : Nat) (s s' : State) (hl : LK s) (h : roundA nested H ord bfuel s = .ok s') : LK s' := by
  simp only [roundA] at h
  cases hb : beforeLoop H bfuel 0 s with
  | error e => simp [hb] at h
  | ok s1 =>
    simp only [hb] at h
    have hl1 := beforeLoop_lk H bfuel 0 s s1 hb hl
    cases hs : savePhase (ord s1) (calcAndRemoveM2m s1) with
    | error e => simp [hs] at h
    | ok s2 =>
      simp only [hs] at h
      have h2 : s2.lk = (calcAndRemoveM2m s1).lk := saveAll_lk _ _ _ hs
      obtain ⟨pa, pr, li, ma, mr, _⟩ := m2m_round_lk s1 s2 hl1 h2
      refine afterLoopA_lk nested hn H _ _ s' h ⟨li, ⟨ma, mr⟩, ?_⟩
      intro hp
      rcases hp with hp | hp
      · exact absurd pa hp
      · exact absurd pr hp

theorem flushLoopA_lk (nested : State → Except Err State) (hn : NestedLK nested) (H : Hooks) (ord : State → List Nat → List Nat)
    (bfuel : Nat) : ∀ (n : Nat) (s s' : State), LK s → flushLoopA nested H ord bfuel n s = .ok s' → LK s' := by
  intro n
  induction n with
  | zero =>
    intro s s' hl h
    simp only [flushLoopA] at h
    split at h
    · cases h
    · cases h; exact hl
  | succ n ih =>
    intro s s' hl h
    simp only [flushLoopA] at h
    split at h
    · cases h; exact hl
    · cases hr : roundA nested H ord bfuel s with
      | error e => simp [hr] at h
      | ok s1 => simp only [hr] at h; exact ih s1 s' (roundA_lk nested hn H ord bfuel s s1 hl hr) h

theorem flushN_lk (H : Hooks) (ord : State → List Nat → List Nat) (bfuel : Nat) :
    ∀ (d : Nat) (s s' : State), LK s → flushN H ord bfuel d s = .ok s' → LK s' := by
  intro d
  induction d with
  | zero => intro s s' _ h; simp [flushN] at h
  | succ d ih =>
    intro s s' hl h
    simp only [flushN] at h
    exact flushLoopA_lk _ (fun a a' ha hf => ih a a' ha hf) H ord bfuel 50 s s' hl h

/-! ### obj.flush() with nested flushes in its after-phase -/

theorem mem_clearSlots (q : List (Option Nat)) (l : List Nat) (p : Nat) : some p ∈ clearSlots q l ↔ some p ∈ q ∧ p ∉ l := by
  simp only [clearSlots, List.mem_map]
  constructor
  · rintro ⟨e, he, hq⟩
    cases e with
    | none => simp at hq
    | some o =>
      simp at hq
      obtain ⟨hnl, rfl⟩ := hq
      exact ⟨he, hnl⟩
  · rintro ⟨hq, hl⟩
    exact ⟨some p, hq, by simp [hl]⟩

theorem sublist_clearSlots (q : List (Option Nat)) (l : List Nat) :
    ((clearSlots q l).filterMap id).Sublist (q.filterMap id) := by
  induction q with
  | nil => simp [clearSlots]
  | cons e rest ih =>
    cases e with
    | none => simpa [clearSlots] using ih
    | some o =>
      by_cases hc : l.contains o = true
      · simp only [clearSlots, List.map_cons, hc, if_true, List.filterMap_cons, id] at ih ⊢
        exact List.Sublist.cons _ (by simpa [clearSlots] using ih)
      · simp only [clearSlots, List.map_cons, hc, List.filterMap_cons, id] at ih ⊢
        exact List.Sublist.cons₂ _ (by simpa [clearSlots] using ih)

/-- the cache invariant after `obj._save_()` has written the list `l` of pending objects and cleared their queue slots -/
theorem inv_after_entity_save (s1 s2 : State) (l : List Nat) (hinv : Inv s1)
    (hq : s2.queue = s1.queue) (hm : s2.modified = s1.modified)
    (hin : ∀ p, p ∈ l → ∃ ob, s2.objs[p]? = some ob ∧ kindOf ob.status = none ∧ ob.dirty = 0)
    (hout : ∀ p, p ∉ l → s2.objs[p]? = s1.objs[p]?) :
    Inv ({ s2 with queue := clearSlots s2.queue l, saved := [] } : State) := by
  have hk : ∀ p, ({ s2 with queue := clearSlots s2.queue l, saved := [] } : State).kindAt p = if p ∈ l then none else s1.kindAt p := by
    intro p
    by_cases hp : p ∈ l
    · obtain ⟨ob, hob, hk, _⟩ := hin p hp
      simp [State.kindAt, hob, hk, hp]
    · simp [State.kindAt, hout p hp, hp]
  refine ⟨?_, ?_, ?_, ?_⟩
  · intro p
    rw [hk]
    show some p ∈ clearSlots s2.queue l ↔ _
    rw [mem_clearSlots, hq]
    by_cases hp : p ∈ l
    · simp [hp]
    · simp only [hp, not_false_eq_true, and_true, if_false]; exact hinv.mem_iff p
  · show ((clearSlots s2.queue l).filterMap id).Nodup
    rw [hq]
    exact List.Sublist.nodup (sublist_clearSlots s1.queue l) hinv.nodup
  · intro p ob hob hpos
    have hob' : s2.objs[p]? = some ob := hob
    by_cases hp : p ∈ l
    · obtain ⟨ob2, hob2, _, hd⟩ := hin p hp
      rw [hob'] at hob2; injection hob2 with e; rw [e] at hpos; omega
    · rw [hout p hp] at hob'; exact hinv.dirty p ob hob' hpos
  · intro p hp
    have : some p ∈ clearSlots s2.queue l := hp
    rw [mem_clearSlots, hq] at this
    show s2.modified = true
    rw [hm]; exact hinv.flag p this.1

end PonyVerif.Model.Hooks
