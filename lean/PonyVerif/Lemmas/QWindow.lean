/- helper lemmas for C02's LIMIT / OFFSET clause model (Model/QWindow.lean) -/
import PonyVerif.Model.QWindow
import PonyVerif.Lemmas.Limit
namespace PonyVerif.Model.Q
open PonyVerif.Model.Limit

theorem window_combineT (R : List α) (l1 o1 l2 o2 : Option Nat) :
    window (combineT l1 o1 l2 o2) R = window (l2, o2) (window (l1, o1) R) := by
  apply List.ext_getElem?; intro i
  unfold combineT
  simp only [window_getElem?]
  cases l1 <;> cases o1 <;> cases l2 <;> cases o2 <;> simp <;> (repeat' split) <;> (try simp_all [Nat.add_assoc]) <;> (try omega)

theorem window_foldl (ws : List (Option Nat × Option Nat)) (acc : Option Nat × Option Nat) (R : List α) :
    window (ws.foldl (fun acc x => combineT acc.1 acc.2 x.1 x.2) acc) R = ws.foldl (fun r w => window w r) (window acc R) := by
  induction ws generalizing acc with
  | nil => rfl
  | cons w ws ih => simp only [List.foldl_cons]; rw [ih, window_combineT]

theorem take_add_drop (R : List α) (n k : Nat) : (R.take (n + k)).drop k = (R.drop k).take n := by
  rw [List.drop_take]; simp

/-- the clause written for (l, o) means the window (l, o) on the dialect it is written for -/
theorem clauseWindow_limitClause (d : WDialect) (l o : Option Nat) (R : List α) (hR : R.length ≤ mysqlMax) :
    clauseWindow d (limitClause d (l, o)) R = some (window (l, o) R) := by
  have hmax : List.take mysqlMax R = R := List.take_of_length_le hR
  have hmax' : ∀ k, List.take mysqlMax (R.drop k) = R.drop k := fun k => List.take_of_length_le (by simp; omega)
  rcases o with _ | _ | k <;> rcases l with _ | n <;> cases d <;>
    (try (by_cases hn : n = 0)) <;>
    simp_all [limitClause, clauseWindow, window, take_add_drop]
