/-
  Lemmas/RelStep.lean — one user call (`run1`) keeps the invariant when it succeeds; the invariant only looks at the rows
  of existing objects (so the complete undo of a failing call keeps it too).
-/
import PonyVerif.Lemmas.RelCreate
import PonyVerif.Lemmas.RelUndo
namespace PonyVerif.Model.Rel

/-! ### operand checks -/

theorem attrOk_none {sch : Schema} {s : Store} {o : ObjId} {a : Attr} {coll : Bool} (h : attrOk sch s o a coll = none) :
    o < s.n ∧ ∃ d, sch.side a = some d ∧ d.isColl = coll := by
  unfold attrOk at h
  split at h
  · rename_i ho
    split at h
    · rename_i d hd
      split at h
      · rename_i hc; exact ⟨ho, d, hd, hc.2⟩
      · cases h
    · cases h
  · cases h

theorem valueOk_none {sch : Schema} {s : Store} {a : Attr} {x : ObjId} (h : valueOk sch s a x = none) : x < s.n := by
  unfold valueOk at h
  split at h
  · assumption
  · cases h

theorem valuesOk_none {sch : Schema} {s : Store} {a : Attr} : ∀ {items : List ObjId}, valuesOk sch s a items = none →
    ∀ x ∈ items, x < s.n := by
  intro items
  induction items with
  | nil => intro _ x hx; cases hx
  | cons y ys ih =>
    intro h x hx
    unfold valuesOk at h
    split at h
    · cases h
    · rename_i hy
      rcases List.mem_cons.mp hx with rfl | hx
      · exact valueOk_none hy
      · exact ih h x hx

/-- the invariant only looks at the rows of existing objects -/
theorem inv_of_eqBelow {sch : Schema} {s t : Store} (hI : Inv sch s) (h : EqBelow s.n t s) : Inv sch t := by
  obtain ⟨hn, hrows⟩ := h
  have hhas : ∀ p b q, p < s.n → hasB sch t p b q = hasB sch s p b q := by
    intro p b q hp
    obtain ⟨_, _, h3, h4⟩ := hrows p hp
    unfold hasB
    cases sch.side b with
    | none => rfl
    | some d => simp only [h3, h4]
  refine ⟨⟨?_, ?_⟩, ?_⟩
  · intro o a x ho hx
    rw [hn] at ho ⊢
    rw [(hrows o ho).2.2.1] at hx
    exact hI.range.1 o a x ho hx
  · intro o a x ho hx
    rw [hn] at ho ⊢
    rw [(hrows o ho).2.2.2] at hx
    exact hI.range.2 o a x ho hx
  · intro p b q hp hal hh
    rw [hn] at hp
    rw [(hrows p hp).1] at hal
    rw [hhas p b q hp] at hh
    have hq := hasB_lt hI.range hp hh
    rw [hhas q _ p hq]
    exact hI.agree p b q hp hal hh

/-- a successful call keeps the invariant -/
theorem run1_ok_inv {sch : Schema} {s : Store} {op : Op} {st : St} (h : run1 sch op { store := s } = .ok st)
    (hI : Inv sch s) : Inv sch st.store := by
  have hdel := fun fuel => delete_spec (sch := sch) fuel
  unfold run1 at h
  simp only at h
  cases op with
  | setRef o a v =>
    simp only at h
    split at h
    · cases h
    · rename_i hok
      obtain ⟨ho, d, hd, hdc⟩ := attrOk_none hok
      split at h
      · cases h
      · split at h
        · obtain ⟨h1, h2, _⟩ := attrSetTop_ok (hdel _) h hd hdc ho (fun x hx => by cases hx) hI.agree hI.range
          exact ⟨h2, h1⟩
        · split at h
          · cases h
          · rename_i x hv
            obtain ⟨h1, h2, _⟩ := attrSetTop_ok (hdel _) h hd hdc ho (fun y hy => by cases hy; exact valueOk_none hv) hI.agree hI.range
            exact ⟨h2, h1⟩
  | setColl o c items =>
    simp only at h
    split at h
    · cases h
    · rename_i hok
      obtain ⟨ho, d, hd, hdc⟩ := attrOk_none hok
      split at h
      · cases h
      · split at h
        · cases h
        · rename_i hv
          obtain ⟨h1, h2, _⟩ := setCollCore_ok (hdel _) h hd hdc ho (valuesOk_none hv) hI.agree hI.range
          exact ⟨h2, h1⟩
  | add o c items =>
    simp only at h
    split at h
    · cases h
    · rename_i hok
      obtain ⟨ho, d, hd, hdc⟩ := attrOk_none hok
      split at h
      · cases h
      · split at h
        · cases h
        · obtain ⟨h1, h2, _⟩ := collAdd_ok h hd hdc ho hI.agree hI.range
          exact ⟨h2, h1⟩
  | remove o c items =>
    simp only at h
    split at h
    · cases h
    · rename_i hok
      obtain ⟨ho, d, hd, hdc⟩ := attrOk_none hok
      split at h
      · cases h
      · split at h
        · cases h
        · obtain ⟨h1, h2, _⟩ := collRemove_ok (hdel _) h hd hdc ho hI.agree hI.range
          exact ⟨h2, h1⟩
  | clear o c =>
    simp only at h
    split at h
    · cases h
    · rename_i hok
      obtain ⟨ho, d, hd, hdc⟩ := attrOk_none hok
      obtain ⟨h1, h2, _⟩ := setCollCore_ok (hdel _) h hd hdc ho (fun x hx => by cases hx) hI.agree hI.range
      exact ⟨h2, h1⟩
  | create e vals =>
    simp only at h
    split at h
    · cases h
    · rename_i hv
      obtain ⟨h1, h2, _⟩ := create_ok h hv hI.agree hI.range
      exact ⟨h2, h1⟩
  | delete o =>
    simp only at h
    split at h
    · rename_i ho
      obtain ⟨h1, h2, _, _⟩ := hdel _ o _ st (fun _ _ => False) (fun _ => False) h ho hI.range (D_false_iff.mpr hI.agree)
      exact ⟨h2.range hI.range, D_false_iff.mp h1⟩
    · cases h

end PonyVerif.Model.Rel
